
(** val negb : bool -> bool **)

let negb = function
| true -> false
| false -> true

type nat =
| O
| S of nat

(** val fst : ('a1 * 'a2) -> 'a1 **)

let fst = function
| (x, _) -> x

(** val snd : ('a1 * 'a2) -> 'a2 **)

let snd = function
| (_, y) -> y

(** val length : 'a1 list -> nat **)

let rec length = function
| [] -> O
| _ :: l' -> S (length l')

(** val app : 'a1 list -> 'a1 list -> 'a1 list **)

let rec app l m =
  match l with
  | [] -> m
  | a :: l1 -> a :: (app l1 m)

type comparison =
| Eq
| Lt
| Gt

(** val add : nat -> nat -> nat **)

let rec add n0 m =
  match n0 with
  | O -> m
  | S p -> S (add p m)

(** val rev : 'a1 list -> 'a1 list **)

let rec rev = function
| [] -> []
| x :: l' -> app (rev l') (x :: [])

(** val map : ('a1 -> 'a2) -> 'a1 list -> 'a2 list **)

let rec map f = function
| [] -> []
| a :: t -> (f a) :: (map f t)

(** val fold_left : ('a1 -> 'a2 -> 'a1) -> 'a2 list -> 'a1 -> 'a1 **)

let rec fold_left f l a0 =
  match l with
  | [] -> a0
  | b :: t -> fold_left f t (f a0 b)

(** val fold_right : ('a2 -> 'a1 -> 'a1) -> 'a1 -> 'a2 list -> 'a1 **)

let rec fold_right f a0 = function
| [] -> a0
| b :: t -> f b (fold_right f a0 t)

(** val existsb : ('a1 -> bool) -> 'a1 list -> bool **)

let rec existsb f = function
| [] -> false
| a :: l0 -> (||) (f a) (existsb f l0)

(** val filter : ('a1 -> bool) -> 'a1 list -> 'a1 list **)

let rec filter f = function
| [] -> []
| x :: l0 -> if f x then x :: (filter f l0) else filter f l0

type positive =
| XI of positive
| XO of positive
| XH

type n =
| N0
| Npos of positive

module Pos =
 struct
  type mask =
  | IsNul
  | IsPos of positive
  | IsNeg
 end

module Coq_Pos =
 struct
  (** val succ : positive -> positive **)

  let rec succ = function
  | XI p -> XO (succ p)
  | XO p -> XI p
  | XH -> XO XH

  (** val add : positive -> positive -> positive **)

  let rec add x y =
    match x with
    | XI p ->
      (match y with
       | XI q -> XO (add_carry p q)
       | XO q -> XI (add p q)
       | XH -> XO (succ p))
    | XO p ->
      (match y with
       | XI q -> XI (add p q)
       | XO q -> XO (add p q)
       | XH -> XI p)
    | XH -> (match y with
             | XI q -> XO (succ q)
             | XO q -> XI q
             | XH -> XO XH)

  (** val add_carry : positive -> positive -> positive **)

  and add_carry x y =
    match x with
    | XI p ->
      (match y with
       | XI q -> XI (add_carry p q)
       | XO q -> XO (add_carry p q)
       | XH -> XI (succ p))
    | XO p ->
      (match y with
       | XI q -> XO (add_carry p q)
       | XO q -> XI (add p q)
       | XH -> XO (succ p))
    | XH ->
      (match y with
       | XI q -> XI (succ q)
       | XO q -> XO (succ q)
       | XH -> XI XH)

  (** val pred_double : positive -> positive **)

  let rec pred_double = function
  | XI p -> XI (XO p)
  | XO p -> XI (pred_double p)
  | XH -> XH

  type mask = Pos.mask =
  | IsNul
  | IsPos of positive
  | IsNeg

  (** val succ_double_mask : mask -> mask **)

  let succ_double_mask = function
  | IsNul -> IsPos XH
  | IsPos p -> IsPos (XI p)
  | IsNeg -> IsNeg

  (** val double_mask : mask -> mask **)

  let double_mask = function
  | IsPos p -> IsPos (XO p)
  | x0 -> x0

  (** val double_pred_mask : positive -> mask **)

  let double_pred_mask = function
  | XI p -> IsPos (XO (XO p))
  | XO p -> IsPos (XO (pred_double p))
  | XH -> IsNul

  (** val sub_mask : positive -> positive -> mask **)

  let rec sub_mask x y =
    match x with
    | XI p ->
      (match y with
       | XI q -> double_mask (sub_mask p q)
       | XO q -> succ_double_mask (sub_mask p q)
       | XH -> IsPos (XO p))
    | XO p ->
      (match y with
       | XI q -> succ_double_mask (sub_mask_carry p q)
       | XO q -> double_mask (sub_mask p q)
       | XH -> IsPos (pred_double p))
    | XH -> (match y with
             | XH -> IsNul
             | _ -> IsNeg)

  (** val sub_mask_carry : positive -> positive -> mask **)

  and sub_mask_carry x y =
    match x with
    | XI p ->
      (match y with
       | XI q -> succ_double_mask (sub_mask_carry p q)
       | XO q -> double_mask (sub_mask p q)
       | XH -> IsPos (pred_double p))
    | XO p ->
      (match y with
       | XI q -> double_mask (sub_mask_carry p q)
       | XO q -> succ_double_mask (sub_mask_carry p q)
       | XH -> double_pred_mask p)
    | XH -> IsNeg

  (** val compare_cont : comparison -> positive -> positive -> comparison **)

  let rec compare_cont r x y =
    match x with
    | XI p ->
      (match y with
       | XI q -> compare_cont r p q
       | XO q -> compare_cont Gt p q
       | XH -> Gt)
    | XO p ->
      (match y with
       | XI q -> compare_cont Lt p q
       | XO q -> compare_cont r p q
       | XH -> Gt)
    | XH -> (match y with
             | XH -> r
             | _ -> Lt)

  (** val compare : positive -> positive -> comparison **)

  let compare =
    compare_cont Eq

  (** val eqb : positive -> positive -> bool **)

  let rec eqb p q =
    match p with
    | XI p0 -> (match q with
                | XI q0 -> eqb p0 q0
                | _ -> false)
    | XO p0 -> (match q with
                | XO q0 -> eqb p0 q0
                | _ -> false)
    | XH -> (match q with
             | XH -> true
             | _ -> false)
 end

module N =
 struct
  (** val add : n -> n -> n **)

  let add n0 m =
    match n0 with
    | N0 -> m
    | Npos p -> (match m with
                 | N0 -> n0
                 | Npos q -> Npos (Coq_Pos.add p q))

  (** val sub : n -> n -> n **)

  let sub n0 m =
    match n0 with
    | N0 -> N0
    | Npos n' ->
      (match m with
       | N0 -> n0
       | Npos m' ->
         (match Coq_Pos.sub_mask n' m' with
          | Coq_Pos.IsPos p -> Npos p
          | _ -> N0))

  (** val compare : n -> n -> comparison **)

  let compare n0 m =
    match n0 with
    | N0 -> (match m with
             | N0 -> Eq
             | Npos _ -> Lt)
    | Npos n' -> (match m with
                  | N0 -> Gt
                  | Npos m' -> Coq_Pos.compare n' m')

  (** val eqb : n -> n -> bool **)

  let eqb n0 m =
    match n0 with
    | N0 -> (match m with
             | N0 -> true
             | Npos _ -> false)
    | Npos p -> (match m with
                 | N0 -> false
                 | Npos q -> Coq_Pos.eqb p q)

  (** val leb : n -> n -> bool **)

  let leb x y =
    match compare x y with
    | Gt -> false
    | _ -> true

  (** val ltb : n -> n -> bool **)

  let ltb x y =
    match compare x y with
    | Lt -> true
    | _ -> false
 end

type node = n

type ninfo = { rank : n; kids : node list; pars : node list }

type aerr =
| NodeMissing
| CycleDetected

type 'a ares =
| AOk of 'a
| AErr of aerr
| AFuel

(** val memN : n -> n list -> bool **)

let memN x l =
  existsb (N.eqb x) l

(** val removeN : n -> n list -> n list **)

let removeN x l =
  filter (fun y -> negb (N.eqb x y)) l

(** val lhs_insert : n -> n list -> bool * n list **)

let lhs_insert x l =
  ((negb (memN x l)), (app (removeN x l) (x :: [])))

type 'e dag = { infos : (node * ninfo) list;
                edata : ((node * node) * 'e) list; last : n; fresh : 
                n }

(** val empty : 'a1 dag **)

let empty =
  { infos = []; edata = []; last = N0; fresh = N0 }

(** val get_info_l : (node * ninfo) list -> node -> ninfo option **)

let rec get_info_l l n0 =
  match l with
  | [] -> None
  | p :: tl ->
    let (m, i) = p in if N.eqb m n0 then Some i else get_info_l tl n0

(** val get_info : 'a1 dag -> node -> ninfo option **)

let get_info g n0 =
  get_info_l g.infos n0

(** val live : 'a1 dag -> node -> bool **)

let live g n0 =
  match get_info g n0 with
  | Some _ -> true
  | None -> false

(** val upd_info_l :
    (node * ninfo) list -> node -> (ninfo -> ninfo) -> (node * ninfo) list **)

let upd_info_l l n0 f =
  map (fun p -> if N.eqb (fst p) n0 then ((fst p), (f (snd p))) else p) l

(** val upd_info : 'a1 dag -> node -> (ninfo -> ninfo) -> 'a1 dag **)

let upd_info g n0 f =
  { infos = (upd_info_l g.infos n0 f); edata = g.edata; last = g.last;
    fresh = g.fresh }

(** val rank_of : 'a1 dag -> node -> n **)

let rank_of g n0 =
  match get_info g n0 with
  | Some i -> i.rank
  | None -> N0

(** val kids_of : 'a1 dag -> node -> node list **)

let kids_of g n0 =
  match get_info g n0 with
  | Some i -> i.kids
  | None -> []

(** val pars_of : 'a1 dag -> node -> node list **)

let pars_of g n0 =
  match get_info g n0 with
  | Some i -> i.pars
  | None -> []

(** val pair_eqb : (node * node) -> (node * node) -> bool **)

let pair_eqb a b =
  (&&) (N.eqb (fst a) (fst b)) (N.eqb (snd a) (snd b))

(** val get_edata_l :
    ((node * node) * 'a1) list -> (node * node) -> 'a1 option **)

let rec get_edata_l l k =
  match l with
  | [] -> None
  | p :: tl ->
    let (k', e) = p in if pair_eqb k' k then Some e else get_edata_l tl k

(** val get_edata : 'a1 dag -> node -> node -> 'a1 option **)

let get_edata g s d =
  get_edata_l g.edata (s, d)

(** val remove_edata_l :
    ((node * node) * 'a1) list -> (node * node) -> ((node * node) * 'a1) list **)

let remove_edata_l l k =
  filter (fun p -> negb (pair_eqb (fst p) k)) l

(** val set_edata : 'a1 dag -> ((node * node) * 'a1) list -> 'a1 dag **)

let set_edata g l =
  { infos = g.infos; edata = l; last = g.last; fresh = g.fresh }

(** val remove_edata : 'a1 dag -> node -> node -> 'a1 dag **)

let remove_edata g s d =
  set_edata g (remove_edata_l g.edata (s, d))

(** val insert_edata : 'a1 dag -> node -> node -> 'a1 -> 'a1 dag **)

let insert_edata g s d e =
  set_edata g (app (remove_edata_l g.edata (s, d)) (((s, d), e) :: []))

(** val add_node : 'a1 dag -> node * 'a1 dag **)

let add_node g =
  let r = N.add g.last (Npos XH) in
  (g.fresh, { infos =
  (app g.infos ((g.fresh, { rank = r; kids = []; pars = [] }) :: []));
  edata = g.edata; last = r; fresh = (N.add g.fresh (Npos XH)) })

(** val remove_node : 'a1 dag -> node -> bool * 'a1 dag **)

let remove_node g n0 =
  match get_info g n0 with
  | Some ni ->
    let infos1 = filter (fun p -> negb (N.eqb (fst p) n0)) g.infos in
    let infos2 =
      fold_left (fun l c ->
        upd_info_l l c (fun i -> { rank = i.rank; kids = i.kids; pars =
          (removeN n0 i.pars) })) ni.kids infos1
    in
    let ed2 = fold_left (fun l c -> remove_edata_l l (n0, c)) ni.kids g.edata
    in
    let infos3 =
      fold_left (fun l p ->
        upd_info_l l p (fun i -> { rank = i.rank; kids = (removeN n0 i.kids);
          pars = i.pars })) ni.pars infos2
    in
    let ed3 = fold_left (fun l p -> remove_edata_l l (p, n0)) ni.pars ed2 in
    let infos4 =
      map (fun p -> ((fst p),
        (if N.ltb ni.rank (snd p).rank
         then { rank = (N.sub (snd p).rank (Npos XH)); kids = (snd p).kids;
                pars = (snd p).pars }
         else snd p))) infos3
    in
    (true, { infos = infos4; edata = ed3; last = (N.sub g.last (Npos XH));
    fresh = g.fresh })
  | None -> (false, g)

type dfsres =
| DfsOk of node list * node list
| DfsCycle
| DfsFuel

(** val scan_fwd :
    'a1 dag -> n -> node list -> node list -> node list -> node list option **)

let rec scan_fwd g ub visited cs stack =
  match cs with
  | [] -> Some stack
  | c :: tl ->
    let r = rank_of g c in
    if N.eqb r ub
    then None
    else if (&&) (negb (memN c visited)) (N.ltb r ub)
         then scan_fwd g ub visited tl (c :: stack)
         else scan_fwd g ub visited tl stack

(** val dfs_forward :
    nat -> 'a1 dag -> n -> node list -> node list -> node list -> dfsres **)

let rec dfs_forward fuel g ub stack visited result =
  match fuel with
  | O -> DfsFuel
  | S f ->
    (match stack with
     | [] -> DfsOk (result, visited)
     | x :: st ->
       let visited' = x :: visited in
       let result' = x :: result in
       (match scan_fwd g ub visited' (kids_of g x) st with
        | Some st' -> dfs_forward f g ub st' visited' result'
        | None -> DfsCycle))

(** val scan_bwd :
    'a1 dag -> n -> node list -> node list -> node list -> node list **)

let rec scan_bwd g lb visited ps stack =
  match ps with
  | [] -> stack
  | p :: tl ->
    if (&&) (negb (memN p visited)) (N.ltb lb (rank_of g p))
    then scan_bwd g lb visited tl (p :: stack)
    else scan_bwd g lb visited tl stack

(** val dfs_backward :
    nat -> 'a1 dag -> n -> node list -> node list -> node list -> dfsres **)

let rec dfs_backward fuel g lb stack visited result =
  match fuel with
  | O -> DfsFuel
  | S f ->
    (match stack with
     | [] -> DfsOk (result, visited)
     | x :: st ->
       let visited' = x :: visited in
       let result' = x :: result in
       dfs_backward f g lb (scan_bwd g lb visited' (pars_of g x) st) visited'
         result')

(** val insert_by : (node -> n) -> node -> node list -> node list **)

let rec insert_by key x l = match l with
| [] -> x :: []
| y :: tl ->
  if N.leb (key x) (key y) then x :: l else y :: (insert_by key x tl)

(** val sort_by : (node -> n) -> node list -> node list **)

let sort_by key l =
  fold_right (insert_by key) [] l

(** val nodupN : n list -> n list **)

let rec nodupN = function
| [] -> []
| x :: tl -> if memN x tl then nodupN tl else x :: (nodupN tl)

(** val assign_ranks :
    (node * ninfo) list -> node list -> n list -> (node * ninfo) list **)

let rec assign_ranks l ks rs =
  match ks with
  | [] -> l
  | k :: ks' ->
    (match rs with
     | [] -> l
     | r :: rs' ->
       assign_ranks
         (upd_info_l l k (fun i -> { rank = r; kids = i.kids; pars =
           i.pars })) ks' rs')

(** val reorder_nodes : 'a1 dag -> node list -> node list -> 'a1 dag **)

let reorder_nodes g change_forward change_backward =
  let cf = sort_by (rank_of g) (nodupN change_forward) in
  let cb = sort_by (rank_of g) (nodupN change_backward) in
  let all_keys = app cb cf in
  let pool = sort_by (fun r -> r) (map (rank_of g) all_keys) in
  { infos = (assign_ranks g.infos all_keys pool); edata = g.edata; last =
  g.last; fresh = g.fresh }

(** val dfs_fuel : 'a1 dag -> nat **)

let dfs_fuel g =
  S (S (add (length g.edata) (length g.infos)))

(** val add_edge : 'a1 dag -> node -> node -> 'a1 -> bool ares * 'a1 dag **)

let add_edge g s d e =
  if (||) (negb (live g s)) (negb (live g d))
  then ((AErr NodeMissing), g)
  else if N.eqb s d
       then ((AErr CycleDetected), g)
       else let (no_prev1, kids') = lhs_insert d (kids_of g s) in
            let g1 =
              upd_info g s (fun i -> { rank = i.rank; kids = kids'; pars =
                i.pars })
            in
            let ub = rank_of g1 s in
            if no_prev1
            then let (np2, pars') = lhs_insert s (pars_of g1 d) in
                 let g2 =
                   upd_info g1 d (fun i -> { rank = i.rank; kids = i.kids;
                     pars = pars' })
                 in
                 let lb = rank_of g2 d in
                 if negb np2
                 then ((AOk false), g2)
                 else let g3 = insert_edata g2 s d e in
                      if N.ltb lb ub
                      then (match dfs_forward (dfs_fuel g3) g3 ub (d :: [])
                                    [] [] with
                            | DfsOk (cf, visited) ->
                              (match dfs_backward (dfs_fuel g3) g3 lb
                                       (s :: []) visited [] with
                               | DfsOk (cb, _) ->
                                 ((AOk true), (reorder_nodes g3 cf cb))
                               | _ -> (AFuel, g3))
                            | DfsCycle ->
                              let g4 =
                                upd_info g3 s (fun i -> { rank = i.rank;
                                  kids = (removeN d i.kids); pars = i.pars })
                              in
                              let g5 =
                                upd_info g4 d (fun i -> { rank = i.rank;
                                  kids = i.kids; pars = (removeN s i.pars) })
                              in
                              ((AErr CycleDetected), (remove_edata g5 s d))
                            | DfsFuel -> (AFuel, g3))
                      else ((AOk true), g3)
            else let no_prev = false in
                 let lb = rank_of g1 d in
                 if negb no_prev
                 then ((AOk false), g1)
                 else let g3 = insert_edata g1 s d e in
                      if N.ltb lb ub
                      then (match dfs_forward (dfs_fuel g3) g3 ub (d :: [])
                                    [] [] with
                            | DfsOk (cf, visited) ->
                              (match dfs_backward (dfs_fuel g3) g3 lb
                                       (s :: []) visited [] with
                               | DfsOk (cb, _) ->
                                 ((AOk true), (reorder_nodes g3 cf cb))
                               | _ -> (AFuel, g3))
                            | DfsCycle ->
                              let g4 =
                                upd_info g3 s (fun i -> { rank = i.rank;
                                  kids = (removeN d i.kids); pars = i.pars })
                              in
                              let g5 =
                                upd_info g4 d (fun i -> { rank = i.rank;
                                  kids = i.kids; pars = (removeN s i.pars) })
                              in
                              ((AErr CycleDetected), (remove_edata g5 s d))
                            | DfsFuel -> (AFuel, g3))
                      else ((AOk true), g3)

(** val contains_node : 'a1 dag -> node -> bool **)

let contains_node =
  live

(** val contains_edge : 'a1 dag -> node -> node -> bool **)

let contains_edge g s d =
  if (||) (negb (live g s)) (negb (live g d))
  then false
  else (match get_edata g s d with
        | Some _ -> true
        | None -> false)

(** val cte_loop :
    nat -> 'a1 dag -> node -> node list -> node list -> bool option **)

let rec cte_loop fuel g dst stack visited =
  match fuel with
  | O -> None
  | S f ->
    (match stack with
     | [] -> Some false
     | k :: st ->
       if memN k visited
       then cte_loop f g dst st visited
       else let ch = kids_of g k in
            if memN dst ch
            then Some true
            else cte_loop f g dst (app (rev ch) st) (k :: visited))

(** val walk_fuel : 'a1 dag -> nat **)

let walk_fuel g =
  S (S (add (add (length g.edata) (length g.infos)) (length g.infos)))

(** val contains_transitive_edge : 'a1 dag -> node -> node -> bool option **)

let contains_transitive_edge g s d =
  if (||) (negb (live g s)) (negb (live g d))
  then Some false
  else if N.eqb s d
       then Some false
       else cte_loop (walk_fuel g) g d (s :: []) []

(** val get_outgoing_edges : 'a1 dag -> node -> (node * 'a1 option) list **)

let get_outgoing_edges g s =
  map (fun c -> (c, (get_edata g s c))) (kids_of g s)

(** val get_incoming_edges : 'a1 dag -> node -> (node * 'a1 option) list **)

let get_incoming_edges g d =
  map (fun p -> (p, (get_edata g p d))) (pars_of g d)

(** val remove_edge : 'a1 dag -> node -> node -> 'a1 option * 'a1 dag **)

let remove_edge g s d =
  if (||) (negb (live g s)) (negb (live g d))
  then (None, g)
  else if negb (memN d (kids_of g s))
       then (None, g)
       else let g1 =
              upd_info g s (fun i -> { rank = i.rank; kids =
                (removeN d i.kids); pars = i.pars })
            in
            let g2 =
              upd_info g1 d (fun i -> { rank = i.rank; kids = i.kids; pars =
                (removeN s i.pars) })
            in
            ((get_edata g2 s d), (remove_edata g2 s d))

(** val remove_outgoing :
    'a1 dag -> node -> (node * 'a1) list option * 'a1 dag **)

let remove_outgoing g s =
  if negb (live g s)
  then (None, g)
  else let children = kids_of g s in
       let g1 =
         upd_info g s (fun i -> { rank = i.rank; kids = []; pars = i.pars })
       in
       (match children with
        | [] -> (None, g1)
        | _ :: _ ->
          let step = fun acc c ->
            let (out, gg) = acc in
            let gg1 =
              upd_info gg c (fun i -> { rank = i.rank; kids = i.kids; pars =
                (removeN s i.pars) })
            in
            (match get_edata gg1 s c with
             | Some e -> ((app out ((c, e) :: [])), (remove_edata gg1 s c))
             | None -> (out, gg1))
          in
          let (out, g2) = fold_left step children ([], g1) in ((Some out), g2))

(** val desc_unsorted_loop :
    nat -> 'a1 dag -> node list -> node list -> (n * node) list -> (n * node)
    list option **)

let rec desc_unsorted_loop fuel g stack visited acc =
  match fuel with
  | O -> None
  | S f ->
    (match stack with
     | [] -> Some (rev acc)
     | n0 :: st ->
       if memN n0 visited
       then desc_unsorted_loop f g st visited acc
       else desc_unsorted_loop f g (app (rev (kids_of g n0)) st)
              (n0 :: visited) (((rank_of g n0), n0) :: acc))

(** val descendants_unsorted : 'a1 dag -> node -> (n * node) list ares **)

let descendants_unsorted g n0 =
  if negb (live g n0)
  then AErr NodeMissing
  else (match desc_unsorted_loop (walk_fuel g) g (rev (kids_of g n0)) [] [] with
        | Some l -> AOk l
        | None -> AFuel)

(** val heap_min : 'a1 dag -> node -> node list -> node **)

let rec heap_min g best = function
| [] -> best
| x :: tl ->
  if N.ltb (rank_of g x) (rank_of g best)
  then heap_min g x tl
  else heap_min g best tl

(** val remove_first : n -> n list -> n list **)

let rec remove_first x = function
| [] -> []
| y :: tl -> if N.eqb x y then tl else y :: (remove_first x tl)

(** val desc_sorted_loop :
    nat -> 'a1 dag -> node list -> node list -> node list -> node list option **)

let rec desc_sorted_loop fuel g queue visited acc =
  match fuel with
  | O -> None
  | S f ->
    (match queue with
     | [] -> Some (rev acc)
     | q0 :: qtl ->
       let m = heap_min g q0 qtl in
       let queue' = remove_first m queue in
       if memN m visited
       then desc_sorted_loop f g queue' visited acc
       else desc_sorted_loop f g (app (kids_of g m) queue') (m :: visited)
              (m :: acc))

(** val descendants : 'a1 dag -> node -> node list ares **)

let descendants g n0 =
  if negb (live g n0)
  then AErr NodeMissing
  else (match desc_sorted_loop (walk_fuel g) g (kids_of g n0) [] [] with
        | Some l -> AOk l
        | None -> AFuel)

(** val topo_cmp : 'a1 dag -> node -> node -> comparison option **)

let topo_cmp g a b =
  match get_info g a with
  | Some ia ->
    (match get_info g b with
     | Some ib -> Some (N.compare ia.rank ib.rank)
     | None -> None)
  | None -> None


val negb : bool -> bool

type nat =
| O
| S of nat

val fst : ('a1 * 'a2) -> 'a1

val snd : ('a1 * 'a2) -> 'a2

val length : 'a1 list -> nat

val app : 'a1 list -> 'a1 list -> 'a1 list

type comparison =
| Eq
| Lt
| Gt

val add : nat -> nat -> nat

val rev : 'a1 list -> 'a1 list

val map : ('a1 -> 'a2) -> 'a1 list -> 'a2 list

val fold_left : ('a1 -> 'a2 -> 'a1) -> 'a2 list -> 'a1 -> 'a1

val fold_right : ('a2 -> 'a1 -> 'a1) -> 'a1 -> 'a2 list -> 'a1

val existsb : ('a1 -> bool) -> 'a1 list -> bool

val filter : ('a1 -> bool) -> 'a1 list -> 'a1 list

type positive =
| XI of positive
| XO of positive
| XH

type n =
| N0
| Npos of positive

module Pos :
 sig
  type mask =
  | IsNul
  | IsPos of positive
  | IsNeg
 end

module Coq_Pos :
 sig
  val succ : positive -> positive

  val add : positive -> positive -> positive

  val add_carry : positive -> positive -> positive

  val pred_double : positive -> positive

  type mask = Pos.mask =
  | IsNul
  | IsPos of positive
  | IsNeg

  val succ_double_mask : mask -> mask

  val double_mask : mask -> mask

  val double_pred_mask : positive -> mask

  val sub_mask : positive -> positive -> mask

  val sub_mask_carry : positive -> positive -> mask

  val compare_cont : comparison -> positive -> positive -> comparison

  val compare : positive -> positive -> comparison

  val eqb : positive -> positive -> bool
 end

module N :
 sig
  val add : n -> n -> n

  val sub : n -> n -> n

  val compare : n -> n -> comparison

  val eqb : n -> n -> bool

  val leb : n -> n -> bool

  val ltb : n -> n -> bool
 end

type node = n

type ninfo = { rank : n; kids : node list; pars : node list }

type aerr =
| NodeMissing
| CycleDetected

type 'a ares =
| AOk of 'a
| AErr of aerr
| AFuel

val memN : n -> n list -> bool

val removeN : n -> n list -> n list

val lhs_insert : n -> n list -> bool * n list

type 'e dag = { infos : (node * ninfo) list;
                edata : ((node * node) * 'e) list; last : n; fresh : 
                n }

val empty : 'a1 dag

val get_info_l : (node * ninfo) list -> node -> ninfo option

val get_info : 'a1 dag -> node -> ninfo option

val live : 'a1 dag -> node -> bool

val upd_info_l :
  (node * ninfo) list -> node -> (ninfo -> ninfo) -> (node * ninfo) list

val upd_info : 'a1 dag -> node -> (ninfo -> ninfo) -> 'a1 dag

val rank_of : 'a1 dag -> node -> n

val kids_of : 'a1 dag -> node -> node list

val pars_of : 'a1 dag -> node -> node list

val pair_eqb : (node * node) -> (node * node) -> bool

val get_edata_l : ((node * node) * 'a1) list -> (node * node) -> 'a1 option

val get_edata : 'a1 dag -> node -> node -> 'a1 option

val remove_edata_l :
  ((node * node) * 'a1) list -> (node * node) -> ((node * node) * 'a1) list

val set_edata : 'a1 dag -> ((node * node) * 'a1) list -> 'a1 dag

val remove_edata : 'a1 dag -> node -> node -> 'a1 dag

val insert_edata : 'a1 dag -> node -> node -> 'a1 -> 'a1 dag

val add_node : 'a1 dag -> node * 'a1 dag

val remove_node : 'a1 dag -> node -> bool * 'a1 dag

type dfsres =
| DfsOk of node list * node list
| DfsCycle
| DfsFuel

val scan_fwd :
  'a1 dag -> n -> node list -> node list -> node list -> node list option

val dfs_forward :
  nat -> 'a1 dag -> n -> node list -> node list -> node list -> dfsres

val scan_bwd :
  'a1 dag -> n -> node list -> node list -> node list -> node list

val dfs_backward :
  nat -> 'a1 dag -> n -> node list -> node list -> node list -> dfsres

val insert_by : (node -> n) -> node -> node list -> node list

val sort_by : (node -> n) -> node list -> node list

val nodupN : n list -> n list

val assign_ranks :
  (node * ninfo) list -> node list -> n list -> (node * ninfo) list

val reorder_nodes : 'a1 dag -> node list -> node list -> 'a1 dag

val dfs_fuel : 'a1 dag -> nat

val add_edge : 'a1 dag -> node -> node -> 'a1 -> bool ares * 'a1 dag

val contains_node : 'a1 dag -> node -> bool

val contains_edge : 'a1 dag -> node -> node -> bool

val cte_loop : nat -> 'a1 dag -> node -> node list -> node list -> bool option

val walk_fuel : 'a1 dag -> nat

val contains_transitive_edge : 'a1 dag -> node -> node -> bool option

val get_outgoing_edges : 'a1 dag -> node -> (node * 'a1 option) list

val get_incoming_edges : 'a1 dag -> node -> (node * 'a1 option) list

val remove_edge : 'a1 dag -> node -> node -> 'a1 option * 'a1 dag

val remove_outgoing : 'a1 dag -> node -> (node * 'a1) list option * 'a1 dag

val desc_unsorted_loop :
  nat -> 'a1 dag -> node list -> node list -> (n * node) list -> (n * node)
  list option

val descendants_unsorted : 'a1 dag -> node -> (n * node) list ares

val heap_min : 'a1 dag -> node -> node list -> node

val remove_first : n -> n list -> n list

val desc_sorted_loop :
  nat -> 'a1 dag -> node list -> node list -> node list -> node list option

val descendants : 'a1 dag -> node -> node list ares

val topo_cmp : 'a1 dag -> node -> node -> comparison option

(* Extraction of the executable model (the same definitions the theorems are about).
   Directives used: those of ExtrOcamlBasic only (Extract Inductive for bool, option, unit, list, prod, sumbool, ...);
   no Extract Constant.  N/Z/positive/nat stay the extracted inductives. *)
From Coq Require Import ExtrOcamlBasic.
From PieV Require Import Model.Dag Model.Build Model.Dsl Model.Tracker Model.Checkers Model.MapRes Model.FileRes.
Extraction "../model_driver/model.ml"
  Dag.empty Dag.add_node Dag.remove_node Dag.add_edge Dag.remove_edge Dag.remove_outgoing
  Dag.contains_node Dag.contains_edge Dag.contains_transitive_edge Dag.get_outgoing_edges Dag.get_incoming_edges
  Dag.descendants_unsorted Dag.descendants Dag.topo_cmp Dag.live Dag.get_info Dag.rank_of
  Build.init_world Build.new_session Dsl.dsl_run_step Dsl.dsl_run_msession Dsl.dsl_run_zsession Dsl.denote_table Build.is_tn Build.un
  Tracker.et_run Tracker.is_build_start Tracker.is_build_end Tracker.is_execute Tracker.match_require_start Tracker.match_require_end
  Tracker.match_read_start Tracker.match_read_end Tracker.match_write_start Tracker.match_write_end Tracker.is_execute_of
  Tracker.match_execute_start Tracker.match_execute_end Tracker.first_require Tracker.first_read Tracker.first_write Tracker.first_execute
  Tracker.range_of Tracker.first_read_end Tracker.first_write_end Tracker.first_execute_end Tracker.tindex
  Tracker.any_execute Tracker.any_execute_of Tracker.one_execute_of Tracker.ktask Tracker.kres Tracker.composite_step
  Checkers.inconsistent
  MapRes.mstep MapRes.ms_init
  FileRes.open_read FileRes.reader_rest FileRes.open_write FileRes.write_bytes
  FileRes.ex_stamp FileRes.ex_stamp_reader FileRes.ex_stamp_writer FileRes.ex_check
  FileRes.mo_stamp FileRes.mo_stamp_reader FileRes.mo_stamp_writer FileRes.mo_check
  FileRes.ha_stamp FileRes.ha_stamp_reader FileRes.ha_stamp_writer FileRes.ha_check FileRes.optN_eqb FileRes.optH_eqb.

(* Extraction of the executable model (the same definitions the theorems are about).
   Directives used: those of ExtrOcamlBasic only (Extract Inductive for bool, option, unit, list, prod, sumbool, ...);
   no Extract Constant.  N/Z/positive/nat stay the extracted inductives. *)
From Coq Require Import ExtrOcamlBasic.
From PieV Require Import Model.Dag Model.Build Model.Dsl.
Extraction "../model_driver/model.ml"
  Dag.empty Dag.add_node Dag.remove_node Dag.add_edge Dag.remove_edge Dag.remove_outgoing
  Dag.contains_node Dag.contains_edge Dag.contains_transitive_edge Dag.get_outgoing_edges Dag.get_incoming_edges
  Dag.descendants_unsorted Dag.descendants Dag.topo_cmp Dag.live Dag.get_info Dag.rank_of
  Build.init_world Build.new_session Dsl.run_step Dsl.denote_table Build.is_tn Build.un.

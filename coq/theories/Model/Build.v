(* Layer P: executable model of pie's store, session, top-down context and bottom-up context
   (pie/src/store.rs, pie.rs, context/mod.rs, context/top_down.rs, context/bottom_up.rs, dependency.rs).
   Definitions only.  One Gallina function per Rust function; panics are Abort results carrying the world
   the unwinding leaves behind; loops are structural recursion or recursion on explicit fuel. *)
From Coq Require Import List NArith ZArith Bool.
From PieV Require Import Model.Dag.
Import ListNotations.
Open Scope N_scope.

Definition task := N.
Definition res := N.
Definition content := option Z.     (* value of a map resource key; None = absent *)
Definition rcid := N.               (* resource checker id *)
Definition ocid := N.               (* output checker id *)

Inductive cres := Consistent | Inconsistent | CErr (code : Z).

(* ResourceChecker: stamp / stamp_reader / stamp_writer are one function of the content they are handed
   (their agreement on real resources is C13/C14); [env] is the checker's external environment (the set of
   resources on which the harness' failing checker errs). *)
Record rchecker := mkRc {
  rc_stamp : list res -> res -> content -> Z + Z;          (* inl stamp | inr error code *)
  rc_check : list res -> res -> content -> Z -> cres;
  rc_view  : content -> Z                                  (* what a task may learn from a read through this checker *)
}.
Record ochecker := mkOc {
  oc_stamp : Z -> Z;
  oc_check : Z -> Z -> bool;                               (* true = consistent *)
  oc_view  : Z -> Z
}.

(* A task body: deterministic, arbitrarily value dependent (continuations are Gallina functions). *)
Inductive prog :=
| Ret (o : Z)
| Panic
| Req (t : task) (c : ocid) (k : Z -> prog)                         (* Context::require; k gets oc_view of the output *)
| Read (r : res) (c : rcid) (k : Z + Z -> prog)                     (* Context::read: inl view | inr error *)
| Write (r : res) (c : rcid) (v : content) (k : unit + Z -> prog)   (* Context::write *)
| WrittenTo (r : res) (c : rcid) (v : content) (k : unit + Z -> prog). (* create_writer + store v + written_to *)

Inductive dep :=
| DReserved
| DRequire (t : task) (c : ocid) (st : Z)
| DRead (r : res) (c : rcid) (st : Z)
| DWrite (r : res) (c : rcid) (st : Z).

Inductive event :=
| EBuildStart | EBuildEnd
| ERequireStart (t : task) (c : ocid) | ERequireEnd (t : task) (c : ocid) (st o : Z)
| EReadStart (r : res) (c : rcid) | EReadEnd (r : res) (c : rcid) (st : Z)
| EWriteStart (r : res) (c : rcid) | EWriteEnd (r : res) (c : rcid) (st : Z)
| ECheckTaskStart (t : task) (c : ocid) (st : Z) | ECheckTaskEnd (t : task) (c : ocid) (st : Z) (inconsistent : bool)
| ECheckResStart (r : res) (c : rcid) (st : Z) | ECheckResEnd (r : res) (c : rcid) (st : Z) (result : cres)
| EExecStart (t : task) | EExecEnd (t : task) (o : Z)
| ESchedByTaskStart (t : task) | ESchedByTaskEnd (t : task)
| ECheckReqTaskStart (t : task) (c : ocid) (st : Z) | ECheckReqTaskEnd (t : task) (c : ocid) (st : Z) (inconsistent : bool)
| ESchedByResStart (r : res) | ESchedByResEnd (r : res)
| ECheckReadResStart (t : task) (c : rcid) (st : Z) | ECheckReadResEnd (t : task) (c : rcid) (st : Z) (result : cres)
| ESchedTask (t : task).

Inductive akind := ACycle | AHidden | AOverlap | ATaskPanic | ABug (which : N).

(* node keys: the store's two HashMaps (task -> node, resource -> node) are the injections tn / rn *)
Definition tn (t : task) : node := 2 * t.
Definition rn (r : res) : node := 2 * r + 1.
Definition is_tn (n : node) : bool := N.even n.
Definition un (n : node) : N := N.div2 n.

Record world := mkWorld {
  gr : dag dep;                 (* Store.graph *)
  outs : list (task * Z);       (* NodeData::Task.output (absent = None) *)
  rstate : list (res * Z);      (* resource state: the global map of the map resource *)
  env : list res;               (* checker environment *)
  cur : option task;            (* SessionInternal.current_executing_task *)
  consistent : list task;       (* SessionInternal.consistent *)
  errs : list Z;                (* dependency_check_errors, newest first *)
  trace : list event;           (* tracker stream, newest first *)
  queue : list task             (* bottom-up Queue.vec *)
}.

Definition set_gr (w : world) (g : dag dep) := mkWorld g (outs w) (rstate w) (env w) (cur w) (consistent w) (errs w) (trace w) (queue w).
Definition set_outs (w : world) (o : list (task * Z)) := mkWorld (gr w) o (rstate w) (env w) (cur w) (consistent w) (errs w) (trace w) (queue w).
Definition set_rstate (w : world) (s : list (res * Z)) := mkWorld (gr w) (outs w) s (env w) (cur w) (consistent w) (errs w) (trace w) (queue w).
Definition set_env (w : world) (e : list res) := mkWorld (gr w) (outs w) (rstate w) e (cur w) (consistent w) (errs w) (trace w) (queue w).
Definition set_cur (w : world) (c : option task) := mkWorld (gr w) (outs w) (rstate w) (env w) c (consistent w) (errs w) (trace w) (queue w).
Definition set_consistent (w : world) (c : list task) := mkWorld (gr w) (outs w) (rstate w) (env w) (cur w) c (errs w) (trace w) (queue w).
Definition push_err (w : world) (e : Z) := mkWorld (gr w) (outs w) (rstate w) (env w) (cur w) (consistent w) (e :: errs w) (trace w) (queue w).
Definition emit (w : world) (e : event) := mkWorld (gr w) (outs w) (rstate w) (env w) (cur w) (consistent w) (errs w) (e :: trace w) (queue w).
Definition set_queue (w : world) (q : list task) := mkWorld (gr w) (outs w) (rstate w) (env w) (cur w) (consistent w) (errs w) (trace w) q.

Definition init_world : world := mkWorld empty [] [] [] None [] [] [] [].

Inductive outcome (A : Type) := Done (a : A) (w : world) | Abort (k : akind) (w : world) | OutOfFuel.
Arguments Done {A}. Arguments Abort {A}. Arguments OutOfFuel {A}.

Definition bind {A B} (m : outcome A) (f : A -> world -> outcome B) : outcome B :=
  match m with Done a w => f a w | Abort k w => Abort k w | OutOfFuel => OutOfFuel end.

(* ---- association lists ---- *)
Fixpoint alookup {V} (l : list (N * V)) (k : N) : option V :=
  match l with [] => None | (k', v) :: tl => if N.eqb k' k then Some v else alookup tl k end.
Definition aremove {V} (l : list (N * V)) (k : N) : list (N * V) := filter (fun p => negb (N.eqb (fst p) k)) l.
Definition aset {V} (l : list (N * V)) (k : N) (v : V) : list (N * V) := aremove l k ++ [(k, v)].

Definition get_content (w : world) (r : res) : content := alookup (rstate w) r.
Definition set_content (w : world) (r : res) (v : content) : world :=
  match v with Some z => set_rstate w (aset (rstate w) r z) | None => set_rstate w (aremove (rstate w) r) end.

Section Model.
Variable RC : rcid -> rchecker.
Variable OC : ocid -> ochecker.
Variable P : task -> prog.

(* ---- Store ---- *)
Definition get_or_create_task_node (w : world) (t : task) : world :=
  if live (gr w) (tn t) then w else set_gr w (add_node_at (gr w) (tn t)).
Definition get_or_create_resource_node (w : world) (r : res) : world :=
  if live (gr w) (rn r) then w else set_gr w (add_node_at (gr w) (rn r)).
Definition get_task_output (w : world) (t : task) : option Z := alookup (outs w) t.
Definition set_task_output (w : world) (t : task) (o : Z) : world := set_outs w (aset (outs w) t o).

Definition edge_dep (w : world) (s d : node) : option dep := get_edata (gr w) s d.
Definition is_write (d : option dep) : bool := match d with Some (DWrite _ _ _) => true | _ => false end.
Definition is_read (d : option dep) : bool := match d with Some (DRead _ _ _) => true | _ => false end.
Definition is_require (d : option dep) : bool := match d with Some (DRequire _ _ _) => true | _ => false end.

(* incoming edges of a resource node, in iteration order: (source task, dependency) *)
Definition incoming (w : world) (n : node) : list (node * option dep) := get_incoming_edges (gr w) n.
Definition get_task_writing_to_resource (w : world) (r : res) : option task :=
  match filter (fun p => is_write (snd p)) (incoming w (rn r)) with
  | (n, _) :: _ => Some (un n)
  | [] => None
  end.
Definition get_tasks_reading_from_resource (w : world) (r : res) : list task :=
  map (fun p => un (fst p)) (filter (fun p => is_read (snd p)) (incoming w (rn r))).
Definition deps_of_task (w : world) (t : task) : list (option dep) := map snd (get_outgoing_edges (gr w) (tn t)).
Definition resources_written_by (w : world) (t : task) : list res :=
  map (fun p => un (fst p)) (filter (fun p => is_write (snd p)) (get_outgoing_edges (gr w) (tn t))).

Definition contains_transitive_task_dependency (w : world) (s d : task) : option bool :=
  contains_transitive_edge (gr w) (tn s) (tn d).

(* Store::add_dependency: Err(()) on cycle, panic (BUG) on missing node *)
Inductive addres := AddOk | AddCycle | AddBug.
Definition add_dependency (w : world) (s d : node) (dp : dep) : addres * world :=
  match add_edge (gr w) s d dp with
  | (AOk _, g') => (AddOk, set_gr w g')
  | (AErr CycleDetected, g') => (AddCycle, set_gr w g')
  | (AErr NodeMissing, g') => (AddBug, set_gr w g')
  | (AFuel, g') => (AddBug, set_gr w g')
  end.

Definition reset_task (w : world) (t : task) : world :=
  set_gr (set_outs w (aremove (outs w) t)) (snd (remove_outgoing (gr w) (tn t))).

(* ---- SessionExt ---- *)
Definition reserve_require_dependency (w : world) (dst : task) : outcome unit :=
  match cur w with
  | None => Done tt w
  | Some src =>
    match add_dependency w (tn src) (tn dst) DReserved with
    | (AddOk, w') => Done tt w'
    | (AddCycle, w') => Abort ACycle w'
    | (AddBug, w') => Abort (ABug 4) w'
    end
  end.

Definition update_require_dependency (w : world) (dst : task) (c : ocid) (st : Z) : outcome unit :=
  match cur w with
  | None => Done tt w
  | Some src =>
    match get_edata (gr w) (tn src) (tn dst) with
    | None => Abort (ABug 3) w                 (* get_dependency_mut: "BUG: no task dependency was found" *)
    | Some _ => Done tt (set_gr w (insert_edata (gr w) (tn src) (tn dst) (DRequire dst c st)))
    end
  end.

Definition hidden_read_check (w : world) (t : task) (r : res) : bool :=   (* true = panic *)
  match get_task_writing_to_resource w r with
  | Some wr => match contains_transitive_task_dependency w t wr with Some true => false | _ => true end
  | None => false
  end.

(* validate_write: Some kind = panic *)
Definition validate_write (w : world) (t : task) (r : res) : option akind :=
  match get_task_writing_to_resource w r with
  | Some _ => Some AOverlap
  | None =>
    if existsb (fun rd => match contains_transitive_task_dependency w rd t with Some true => false | _ => true end)
               (get_tasks_reading_from_resource w r)
    then Some AHidden else None
  end.

Definition sess_read (w : world) (r : res) (c : rcid) : outcome (Z + Z) :=
  let v := get_content w r in                                 (* resource.read(state): never fails for the map resource *)
  match cur w with
  | None => Done (inl (rc_view (RC c) v)) w
  | Some t =>
    let w1 := emit w (EReadStart r c) in
    let w2 := get_or_create_resource_node w1 r in
    if hidden_read_check w2 t r then Abort AHidden w2
    else
      match rc_stamp (RC c) (env w2) r v with                 (* stamp_reader on the very reader handed to the task *)
      | inr e => Done (inr e) w2
      | inl st =>
        let w3 := emit w2 (EReadEnd r c st) in
        match add_dependency w3 (tn t) (rn r) (DRead r c st) with
        | (AddBug, w4) => Abort (ABug 4) w4
        | (_, w4) => Done (inl (rc_view (RC c) v)) w4
        end
      end
  end.

Definition sess_write (w : world) (r : res) (c : rcid) (v : content) : outcome (unit + Z) :=
  match cur w with
  | None => Done (inl tt) (set_content w r v)
  | Some t =>
    let w1 := emit w (EWriteStart r c) in
    let w2 := get_or_create_resource_node w1 r in
    match validate_write w2 t r with
    | Some k => Abort k w2                                     (* before the resource is modified *)
    | None =>
      let w3 := set_content w2 r v in                          (* resource.write + write_fn *)
      match rc_stamp (RC c) (env w3) r (get_content w3 r) with (* stamp_writer: after the write *)
      | inr e => Done (inr e) w3
      | inl st =>
        let w4 := emit w3 (EWriteEnd r c st) in
        match add_dependency w4 (tn t) (rn r) (DWrite r c st) with
        | (AddBug, w5) => Abort (ABug 4) w5
        | (_, w5) => Done (inl tt) w5
        end
      end
    end
  end.

Definition sess_written_to (w0 : world) (r : res) (c : rcid) (v : content) : outcome (unit + Z) :=
  let w := set_content w0 r v in                               (* create_writer + direct store, no bookkeeping *)
  match cur w with
  | None => Done (inl tt) w
  | Some t =>
    let w1 := emit w (EWriteStart r c) in
    let w2 := get_or_create_resource_node w1 r in
    match validate_write w2 t r with
    | Some k => Abort k w2
    | None =>
      match rc_stamp (RC c) (env w2) r (get_content w2 r) with (* checker.stamp(resource, state) *)
      | inr e => Done (inr e) w2
      | inl st =>
        let w3 := emit w2 (EWriteEnd r c st) in
        match add_dependency w3 (tn t) (rn r) (DWrite r c st) with
        | (AddBug, w4) => Abort (ABug 4) w4
        | (_, w4) => Done (inl tt) w4
        end
      end
    end
  end.

(* ---- running a task body against a context whose require is [req] ---- *)
Fixpoint exec_prog (req : world -> task -> ocid -> outcome Z) (p : prog) (w : world) : outcome Z :=
  match p with
  | Ret o => Done o w
  | Panic => Abort ATaskPanic w
  | Req t c k => bind (req w t c) (fun o w' => exec_prog req (k (oc_view (OC c) o)) w')
  | Read r c k => bind (sess_read w r c) (fun x w' => exec_prog req (k x) w')
  | Write r c v k => bind (sess_write w r c v) (fun x w' => exec_prog req (k x) w')
  | WrittenTo r c v k => bind (sess_written_to w r c v) (fun x w' => exec_prog req (k x) w')
  end.

(* reset; current := node; execute_start; task.execute(context); execute_end; current := previous; set output *)
Definition execute_with (req : world -> task -> ocid -> outcome Z) (w : world) (t : task) : outcome Z :=
  let w1 := reset_task w t in
  let prev := cur w1 in
  let w2 := emit (set_cur w1 (Some t)) (EExecStart t) in
  bind (exec_prog req (P t) w2) (fun o w3 =>
    Done o (set_task_output (set_cur (emit w3 (EExecEnd t o)) prev) t o)).

(* ---- top-down ---- *)
Definition check_resource_td (w : world) (r : res) (c : rcid) (st : Z) : cres * world :=
  let w1 := emit w (ECheckResStart r c st) in
  let x := rc_check (RC c) (env w1) r (get_content w1 r) st in
  (x, emit w1 (ECheckResEnd r c st x)).

(* check_task's loop over the cloned dependency list; [mc] = make_task_consistent at smaller fuel.
   Some true: all consistent; Some false: inconsistent (or checker error, pushed) *)
Fixpoint check_deps (mc : world -> task -> outcome Z) (ds : list (option dep)) (w : world) : outcome bool :=
  match ds with
  | [] => Done true w
  | d :: tl =>
    match d with
    | None => Abort (ABug 5) w                     (* edge without data: get_outgoing_edge_data unwrap *)
    | Some DReserved => Abort (ABug 1) w           (* "BUG: attempt to consistency check reserved require task dependency" *)
    | Some (DRequire t c st) =>
      let w1 := emit w (ECheckTaskStart t c st) in
      bind (mc w1 t) (fun o w2 =>
        let ok := oc_check (OC c) o st in
        let w3 := emit w2 (ECheckTaskEnd t c st (negb ok)) in
        if ok then check_deps mc tl w3 else Done false w3)
    | Some (DRead r c st) | Some (DWrite r c st) =>
      match check_resource_td w r c st with
      | (Consistent, w1) => check_deps mc tl w1
      | (Inconsistent, w1) => Done false w1
      | (CErr e, w1) => Done false (push_err w1 e)
      end
    end
  end.

(* Context::require, given make_task_consistent [mc] *)
Definition require_with (mc : world -> task -> outcome Z) (w : world) (t : task) (c : ocid) : outcome Z :=
  let w1 := emit w (ERequireStart t c) in
  let w2 := get_or_create_task_node w1 t in
  bind (reserve_require_dependency w2 t) (fun _ w3 =>
  bind (mc w3 t) (fun o w4 =>
    let st := oc_stamp (OC c) o in
    let w5 := emit w4 (ERequireEnd t c st o) in
    bind (update_require_dependency w5 t c st) (fun _ w6 => Done o w6))).

Definition mark_consistent (w : world) (t : task) : world := set_consistent w (t :: consistent w).

Fixpoint make_consistent_td (fuel : nat) (w : world) (t : task) : outcome Z :=
  match fuel with
  | O => OutOfFuel
  | S f =>
    let w0 := get_or_create_task_node w t in
    if memN t (consistent w0) then
      match get_task_output w0 t with
      | Some o => Done o w0
      | None => Abort (ABug 2) w0                  (* "BUG: no task output for already consistent task" *)
      end
    else
      (* check_task: a task without output (new, or its last execution aborted) is inconsistent before its
         (possibly partial) dependency list is walked *)
      match get_task_output w0 t with
      | None =>
        bind (execute_with (require_with (make_consistent_td f)) w0 t) (fun o w2 => Done o (mark_consistent w2 t))
      | Some _ =>
        bind (check_deps (make_consistent_td f) (deps_of_task w0 t) w0) (fun ok w1 =>
          match (if ok then get_task_output w1 t else None) with
          | Some o => Done o (mark_consistent w1 t)
          | None =>
            bind (execute_with (require_with (make_consistent_td f)) w1 t) (fun o w2 => Done o (mark_consistent w2 t))
          end)
      end
  end.

Definition require_td (fuel : nat) := require_with (make_consistent_td fuel).

(* ---- bottom-up ---- *)
Definition rank_t (w : world) (t : task) : N := rank_of (gr w) (tn t).
Definition sort_queue (w : world) : list task := sort_by (rank_t w) (queue w).      (* sort_by_dependencies *)
Definition queue_add (w : world) (t : task) : world :=
  if memN t (queue w) then w else set_queue w (queue w ++ [t]).
(* Queue::pop: sort, take the last (highest rank = deepest dependency) *)
Definition queue_pop (w : world) : option (task * world) :=
  match rev (sort_queue w) with
  | [] => None
  | t :: _ => Some (t, set_queue w (removeN t (sort_queue w)))
  end.
(* pop_least_task_with_dependency_from: sort, scan from the back for src itself or a transitive dependency of src *)
Definition pop_least_from (w : world) (src : task) : option (task * world) :=
  match find (fun d => N.eqb src d || match contains_transitive_task_dependency w src d with Some true => true | _ => false end)
             (rev (sort_queue w)) with
  | None => None
  | Some t => Some (t, set_queue w (removeN t (sort_queue w)))
  end.

Definition try_schedule (w : world) (t : task) (r : res) (c : rcid) (st : Z) : world :=
  let w1 := emit w (ECheckReadResStart t c st) in
  let x := rc_check (RC c) (env w1) r (get_content w1 r) st in
  let w2 := emit w1 (ECheckReadResEnd t c st x) in
  match x with
  | Consistent => w2
  | Inconsistent => queue_add (emit w2 (ESchedTask t)) t
  | CErr e => queue_add (emit (push_err w2 e) (ESchedTask t)) t
  end.

Definition try_schedule_edge (reads_only : bool) (w : world) (p : node * option dep) : world :=
  match snd p with
  | Some (DRead r c st) => try_schedule w (un (fst p)) r c st
  | Some (DWrite r c st) => if reads_only then w else try_schedule w (un (fst p)) r c st
  | _ => w
  end.

Definition schedule_tasks_affected_by (w : world) (r : res) : world :=
  let w1 := emit w (ESchedByResStart r) in
  let w2 := get_or_create_resource_node w1 r in
  let w3 := fold_left (try_schedule_edge false) (incoming w2 (rn r)) w2 in
  emit w3 (ESchedByResEnd r).

Definition schedule_by_written (w : world) (r : res) : world :=
  let w1 := emit w (ESchedByResStart r) in
  let w2 := fold_left (try_schedule_edge true) (incoming w1 (rn r)) w1 in
  emit w2 (ESchedByResEnd r).

Definition schedule_requirer (o : Z) (w : world) (p : node * option dep) : world :=
  match snd p with
  | Some (DRequire _ c st) =>
    let rq := un (fst p) in
    let w1 := emit w (ECheckReqTaskStart rq c st) in
    let ok := oc_check (OC c) o st in
    let w2 := emit w1 (ECheckReqTaskEnd rq c st (negb ok)) in
    if ok then w2 else queue_add (emit w2 (ESchedTask rq)) rq
  | _ => w
  end.

(* the part of execute_and_schedule after execute_obj *)
Definition schedule_after (w : world) (t : task) (o : Z) : world :=
  let w1 := fold_left schedule_by_written (resources_written_by w t) w in
  let w2 := emit w1 (ESchedByTaskStart t) in
  let w3 := fold_left (schedule_requirer o) (incoming w2 (tn t)) w2 in
  mark_consistent (emit w3 (ESchedByTaskEnd t)) t.

Definition require_bu_with (mc : world -> task -> outcome Z) (w : world) (t : task) (c : ocid) : outcome Z :=
  bind (require_with mc w t c) (fun o w' => Done o (mark_consistent w' t)).

Fixpoint bu_execute_and_schedule (fuel : nat) (w : world) (t : task) {struct fuel} : outcome Z :=
  match fuel with
  | O => OutOfFuel
  | S f =>
    bind (execute_with (require_bu_with (bu_make_consistent f)) w t) (fun o w1 => Done o (schedule_after w1 t o))
  end
with bu_make_consistent (fuel : nat) (w : world) (t : task) {struct fuel} : outcome Z :=
  match fuel with
  | O => OutOfFuel
  | S f =>
    if memN t (consistent w) then
      match get_task_output w t with
      | Some o => Done o w
      | None => Abort (ABug 2) w
      end
    else
      if (match get_task_output w t with None => true | Some _ => false end) && negb (memN t (queue w)) then
        execute_with (require_bu_with (bu_make_consistent f)) w t     (* new task (no output, not scheduled): execute *)
      else
        bind (bu_require_scheduled_now f w t) (fun r w1 =>
          match r with
          | Some o => Done o w1
          | None =>
            match get_task_output w1 t with
            | Some o => Done o w1
            | None => Abort (ABug 6) w1          (* "BUG: no task output for unaffected task" *)
            end
          end)
  end
with bu_require_scheduled_now (fuel : nat) (w : world) (t : task) {struct fuel} : outcome (option Z) :=
  match fuel with
  | O => OutOfFuel
  | S f =>
    match queue w with
    | [] => Done None w
    | _ =>
      match pop_least_from w t with
      | None => Done None w
      | Some (m, w1) =>
        bind (bu_execute_and_schedule f w1 m) (fun o w2 =>
          if N.eqb m t then Done (Some o) w2 else bu_require_scheduled_now f w2 t)
      end
    end
  end.

Fixpoint execute_scheduled (fuel : nat) (w : world) : outcome unit :=
  match fuel with
  | O => OutOfFuel
  | S f =>
    match queue_pop w with
    | None => Done tt w
    | Some (t, w1) => bind (bu_execute_and_schedule f w1 t) (fun _ w2 => execute_scheduled f w2)
    end
  end.

(* ---- Session / Pie ---- *)
Variable always : ocid.          (* id of task::AlwaysConsistent, used by Session::require *)

Definition new_session (w : world) : world :=
  mkWorld (gr w) (outs w) (rstate w) (env w) None [] [] [] [].

Definition session_require (fuel : nat) (w : world) (t : task) : outcome Z :=
  let w1 := emit (set_cur w None) EBuildStart in
  bind (require_td fuel w1 t always) (fun o w2 => Done o (emit w2 EBuildEnd)).

Definition session_bottom_up (fuel : nat) (w : world) (changed : list res) : outcome unit :=
  let w1 := fold_left schedule_tasks_affected_by changed (set_queue w []) in
  let w2 := emit (set_cur w1 None) EBuildStart in
  bind (execute_scheduled fuel w2) (fun _ w3 => Done tt (emit w3 EBuildEnd)).

(* ---- histories: external edits, checker-environment switches, sessions ---- *)
Inductive sop := SRequire (t : task) | SBottomUp (changed : list res).
Inductive step :=
| HEdit (r : res) (v : content)          (* external change of a resource *)
| HEnv (failing : list res)              (* switch the checker environment *)
| HSession (ops : list sop).
(* observable result of one session operation *)
Inductive sres := RDone (o : option Z) | RAbort (k : akind) | RFuel.

Definition run_sop (fuel : nat) (w : world) (o : sop) : sres * world :=
  match o with
  | SRequire t =>
    match session_require fuel w t with
    | Done x w' => (RDone (Some x), w') | Abort k w' => (RAbort k, w') | OutOfFuel => (RFuel, w)
    end
  | SBottomUp ch =>
    match session_bottom_up fuel w ch with
    | Done _ w' => (RDone None, w') | Abort k w' => (RAbort k, w') | OutOfFuel => (RFuel, w)
    end
  end.

(* a session stops at the first abort (the panic unwinds out of the session) *)
Fixpoint run_session (fuel : nat) (w : world) (ops : list sop) : list sres * world :=
  match ops with
  | [] => ([], w)
  | o :: tl =>
    match run_sop fuel w o with
    | (RDone x, w') => let '(rs, w'') := run_session fuel w' tl in (RDone x :: rs, w'')
    | (r, w') => ([r], w')
    end
  end.

(* a session during which resources change from outside (the history steps above put external changes BETWEEN sessions, which
   is the contract of a session; this variant only serves the correspondence runs that explore what the implementation does when
   the contract is broken: the edit changes the content and nothing else -- the session's consistent set, queue and trace stay) *)
Inductive mop := MSop (o : sop) | MEdit (r : res) (v : content).
Fixpoint run_msession (fuel : nat) (w : world) (ops : list mop) : list sres * world :=
  match ops with
  | [] => ([], w)
  | MEdit r v :: tl => run_msession fuel (set_content w r v) tl
  | MSop o :: tl =>
    match run_sop fuel w o with
    | (RDone x, w') => let '(rs, w'') := run_msession fuel w' tl in (RDone x :: rs, w'')
    | (r, w') => ([r], w')
    end
  end.

(* the same, for a caller that catches the panic of an aborted build and goes on using the SAME Session (run_session and
   run_msession stop at the first abort: the panic unwinds out of the session): the next operation starts from the world the abort
   left behind -- consistent set, errors and tracker stream of the session included *)
Fixpoint run_zsession (fuel : nat) (w : world) (ops : list mop) : list sres * world :=
  match ops with
  | [] => ([], w)
  | MEdit r v :: tl => run_zsession fuel (set_content w r v) tl
  | MSop o :: tl =>
    match run_sop fuel w o with
    | (RFuel, w') => ([RFuel], w')
    | (r, w') => let '(rs, w'') := run_zsession fuel w' tl in (r :: rs, w'')
    end
  end.

Definition run_step (fuel : nat) (w : world) (s : step) : list sres * world :=
  match s with
  | HEdit r v => ([], set_content w r v)
  | HEnv f => ([], set_env w f)
  | HSession ops => run_session fuel (new_session w) ops
  end.

Fixpoint run_history (fuel : nat) (w : world) (h : list step) : list (list sres) * world :=
  match h with
  | [] => ([], w)
  | s :: tl => let '(r, w') := run_step fuel w s in
               let '(rs, w'') := run_history fuel w' tl in (r :: rs, w'')
  end.

End Model.

(* Model of the five built-in output checkers of pie/src/task.rs.  Definitions only. *)
From Coq Require Import List NArith Bool.
Import ListNotations.

Inductive result (T E : Type) := Ok (t : T) | Err (e : E).
Arguments Ok {T E}. Arguments Err {T E}.

Section Checkers.
Variables T E : Type.
Variable eqT : T -> T -> bool.
Variable eqE : E -> E -> bool.

Definition out := result T E.
Definition eq_out (a b : out) : bool :=
  match a, b with Ok x, Ok y => eqT x y | Err x, Err y => eqE x y | _, _ => false end.
Definition eq_opt {A} (eqA : A -> A -> bool) (a b : option A) : bool :=
  match a, b with Some x, Some y => eqA x y | None, None => true | _, _ => false end.

(* each checker: stamp, and check = true when an inconsistency is reported (Some _) *)
(* EqualsChecker: Stamp = O *)
Definition equals_stamp (o : out) : out := o.
Definition equals_check (o : out) (st : out) : bool := negb (eq_out o st).
(* OkEqualsChecker: Stamp = Option<T> = output.ok() *)
Definition ok_of (o : out) : option T := match o with Ok t => Some t | Err _ => None end.
Definition ok_equals_stamp (o : out) : option T := ok_of o.
Definition ok_equals_check (o : out) (st : option T) : bool := negb (eq_opt eqT (ok_of o) st).
(* ErrEqualsChecker: Stamp = Option<E> = output.err() *)
Definition err_of (o : out) : option E := match o with Ok _ => None | Err e => Some e end.
Definition err_equals_stamp (o : out) : option E := err_of o.
Definition err_equals_check (o : out) (st : option E) : bool := negb (eq_opt eqE (err_of o) st).
(* ResultChecker: Stamp = bool = output.is_err() *)
Definition is_err (o : out) : bool := match o with Ok _ => false | Err _ => true end.
Definition result_stamp (o : out) : bool := is_err o.
Definition result_check (o : out) (st : bool) : bool := negb (Bool.eqb (is_err o) st).
(* AlwaysConsistent: Stamp = () *)
Definition always_stamp (o : out) : unit := tt.
Definition always_check (o : out) (st : unit) : bool := false.

(* inconsistent (o1 checked against the stamp of o2), per checker id 0..4 *)
Definition inconsistent (c : N) (o1 o2 : out) : bool :=
  match c with
  | 0%N => equals_check o1 (equals_stamp o2)
  | 1%N => ok_equals_check o1 (ok_equals_stamp o2)
  | 2%N => err_equals_check o1 (err_equals_stamp o2)
  | 3%N => result_check o1 (result_stamp o2)
  | _ => always_check o1 (always_stamp o2)
  end.
End Checkers.

(* Layer G: executable model of pie_graph::DAG (graph/src/lib.rs).
   Definitions only; proofs live in Proofs/.  One Gallina function per Rust function. *)
From Coq Require Import List NArith Bool.
Import ListNotations.
Open Scope N_scope.

Definition node := N.

(* NodeInfo { topo_order, parents, children }: LinkedHashSet = insertion ordered list *)
Record ninfo := mkNinfo { rank : N; kids : list node; pars : list node }.

Inductive aerr := NodeMissing | CycleDetected.
Inductive ares (A : Type) := AOk (a : A) | AErr (e : aerr) | AFuel.
Arguments AOk {A}. Arguments AErr {A}. Arguments AFuel {A}.

Definition memN (x : N) (l : list N) : bool := existsb (N.eqb x) l.
Definition removeN (x : N) (l : list N) : list N := filter (fun y => negb (N.eqb x y)) l.
(* hashlink::LinkedHashSet::insert: new value goes to the back; an existing value is MOVED to the back; returns "was new" *)
Definition lhs_insert (x : N) (l : list N) : bool * list N := (negb (memN x l), removeN x l ++ [x]).

Section Dag.
Context {E : Type}.

Record dag := mkDag {
  infos : list (node * ninfo);          (* SlotMap: live nodes, creation order; keys never reused in the model *)
  edata : list ((node * node) * E);     (* HashMap<(Node,Node),E> *)
  last  : N;                            (* last_topo_order *)
  fresh : N                             (* next node id (creation index) *)
}.

Definition empty : dag := mkDag [] [] 0 0.

Fixpoint get_info_l (l : list (node * ninfo)) (n : node) : option ninfo :=
  match l with
  | [] => None
  | (m, i) :: tl => if N.eqb m n then Some i else get_info_l tl n
  end.
Definition get_info (g : dag) (n : node) : option ninfo := get_info_l (infos g) n.
Definition live (g : dag) (n : node) : bool := match get_info g n with Some _ => true | None => false end.

Definition upd_info_l (l : list (node * ninfo)) (n : node) (f : ninfo -> ninfo) : list (node * ninfo) :=
  map (fun p => if N.eqb (fst p) n then (fst p, f (snd p)) else p) l.
Definition upd_info (g : dag) (n : node) (f : ninfo -> ninfo) : dag :=
  mkDag (upd_info_l (infos g) n f) (edata g) (last g) (fresh g).

Definition rank_of (g : dag) (n : node) : N := match get_info g n with Some i => rank i | None => 0 end.
Definition kids_of (g : dag) (n : node) : list node := match get_info g n with Some i => kids i | None => [] end.
Definition pars_of (g : dag) (n : node) : list node := match get_info g n with Some i => pars i | None => [] end.

Definition pair_eqb (a b : node * node) : bool := N.eqb (fst a) (fst b) && N.eqb (snd a) (snd b).
Fixpoint get_edata_l (l : list ((node*node) * E)) (k : node*node) : option E :=
  match l with
  | [] => None
  | (k', e) :: tl => if pair_eqb k' k then Some e else get_edata_l tl k
  end.
Definition get_edata (g : dag) (s d : node) : option E := get_edata_l (edata g) (s, d).
Definition remove_edata_l (l : list ((node*node) * E)) (k : node*node) := filter (fun p => negb (pair_eqb (fst p) k)) l.
Definition set_edata (g : dag) (l : list ((node*node) * E)) : dag := mkDag (infos g) l (last g) (fresh g).
Definition remove_edata (g : dag) (s d : node) : dag := set_edata g (remove_edata_l (edata g) (s, d)).
(* HashMap::insert replaces an existing value *)
Definition insert_edata (g : dag) (s d : node) (e : E) : dag :=
  set_edata g (remove_edata_l (edata g) (s, d) ++ [((s, d), e)]).

(* ---- add_node ---- *)
(* SlotMap::insert hands out a key that is not live; the model takes the key as a parameter (precondition: not live).
   pie_graph on its own uses the creation index (add_node); the store model uses keys derived from the task/resource. *)
Definition add_node_at (g : dag) (id : node) : dag :=
  let r := last g + 1 in
  mkDag (infos g ++ [(id, mkNinfo r [] [])]) (edata g) r (N.max (fresh g) (id + 1)).
Definition add_node (g : dag) : node * dag := (fresh g, add_node_at g (fresh g)).

(* ---- remove_node ---- *)
Definition remove_node (g : dag) (n : node) : bool * dag :=
  match get_info g n with
  | None => (false, g)
  | Some ni =>
    let infos1 := filter (fun p => negb (N.eqb (fst p) n)) (infos g) in
    (* forward edges: child.parents.remove(node); edge_data.remove((node,child)) *)
    let infos2 := fold_left (fun l c => upd_info_l l c (fun i => mkNinfo (rank i) (kids i) (removeN n (pars i)))) (kids ni) infos1 in
    let ed2 := fold_left (fun l c => remove_edata_l l (n, c)) (kids ni) (edata g) in
    (* backward edges *)
    let infos3 := fold_left (fun l p => upd_info_l l p (fun i => mkNinfo (rank i) (removeN n (kids i)) (pars i))) (pars ni) infos2 in
    let ed3 := fold_left (fun l p => remove_edata_l l (p, n)) (pars ni) ed2 in
    (* compaction *)
    let infos4 := map (fun p => (fst p, if N.ltb (rank ni) (rank (snd p))
                                        then mkNinfo (rank (snd p) - 1) (kids (snd p)) (pars (snd p)) else snd p)) infos3 in
    (true, mkDag infos4 ed3 (last g - 1) (fresh g))
  end.

(* ---- the two bounded DFS of add_edge (Pearce-Kelly) ---- *)
Inductive dfsres := DfsOk (result visited : list node) | DfsCycle | DfsFuel.

(* for child in children: if rank == ub -> cycle; if !visited && rank < ub -> push (Vec::push = cons on the model's stack head) *)
Fixpoint scan_fwd (g : dag) (ub : N) (visited : list node) (cs : list node) (stack : list node) : option (list node) :=
  match cs with
  | [] => Some stack
  | c :: tl =>
    let r := rank_of g c in
    if N.eqb r ub then None
    else if negb (memN c visited) && N.ltb r ub then scan_fwd g ub visited tl (c :: stack)
    else scan_fwd g ub visited tl stack
  end.

Fixpoint dfs_forward (fuel : nat) (g : dag) (ub : N) (stack visited result : list node) : dfsres :=
  match fuel with
  | O => DfsFuel
  | S f =>
    match stack with
    | [] => DfsOk result visited
    | x :: st =>
      let visited' := x :: visited in
      let result' := x :: result in
      match scan_fwd g ub visited' (kids_of g x) st with
      | None => DfsCycle
      | Some st' => dfs_forward f g ub st' visited' result'
      end
    end
  end.

Fixpoint scan_bwd (g : dag) (lb : N) (visited : list node) (ps : list node) (stack : list node) : list node :=
  match ps with
  | [] => stack
  | p :: tl =>
    if negb (memN p visited) && N.ltb lb (rank_of g p) then scan_bwd g lb visited tl (p :: stack)
    else scan_bwd g lb visited tl stack
  end.

Fixpoint dfs_backward (fuel : nat) (g : dag) (lb : N) (stack visited result : list node) : dfsres :=
  match fuel with
  | O => DfsFuel
  | S f =>
    match stack with
    | [] => DfsOk result visited
    | x :: st =>
      let visited' := x :: visited in
      let result' := x :: result in
      dfs_backward f g lb (scan_bwd g lb visited' (pars_of g x) st) visited' result'
    end
  end.

(* ---- reorder_nodes ---- *)
Fixpoint insert_by (key : node -> N) (x : node) (l : list node) : list node :=
  match l with
  | [] => [x]
  | y :: tl => if N.leb (key x) (key y) then x :: l else y :: insert_by key x tl
  end.
Definition sort_by (key : node -> N) (l : list node) : list node := fold_right (insert_by key) [] l.

Fixpoint nodupN (l : list N) : list N :=
  match l with
  | [] => []
  | x :: tl => if memN x tl then nodupN tl else x :: nodupN tl
  end.

Fixpoint assign_ranks (l : list (node * ninfo)) (ks : list node) (rs : list N) : list (node * ninfo) :=
  match ks, rs with
  | k :: ks', r :: rs' => assign_ranks (upd_info_l l k (fun i => mkNinfo r (kids i) (pars i))) ks' rs'
  | _, _ => l
  end.

(* change sets arrive as HashSets (any order, no duplicates); each is sorted by rank; backward first, then forward;
   the sorted pool of their ranks is handed out in that order *)
Definition reorder_nodes (g : dag) (change_forward change_backward : list node) : dag :=
  let cf := sort_by (rank_of g) (nodupN change_forward) in
  let cb := sort_by (rank_of g) (nodupN change_backward) in
  let all_keys := cb ++ cf in
  let pool := sort_by (fun r => r) (map (rank_of g) all_keys) in
  mkDag (assign_ranks (infos g) all_keys pool) (edata g) (last g) (fresh g).

Definition dfs_fuel (g : dag) : nat := S (S (length (edata g) + length (infos g))).

(* ---- add_edge ---- *)
Definition add_edge (g : dag) (s d : node) (e : E) : ares bool * dag :=
  if negb (live g s) || negb (live g d) then (AErr NodeMissing, g)
  else if N.eqb s d then (AErr CycleDetected, g)
  else if memN d (kids_of g s) then (AOk false, g)   (* existing edge: short circuit before touching the adjacency sets *)
  else
    (* children.insert(dst) *)
    let '(no_prev1, kids') := lhs_insert d (kids_of g s) in
    let g1 := upd_info g s (fun i => mkNinfo (rank i) kids' (pars i)) in
    let ub := rank_of g1 s in
    (* no_prev_edge && parents.insert(src): short-circuit *)
    let '(no_prev, g2) :=
      if no_prev1
      then let '(np2, pars') := lhs_insert s (pars_of g1 d) in
           (np2, upd_info g1 d (fun i => mkNinfo (rank i) (kids i) pars'))
      else (false, g1) in
    let lb := rank_of g2 d in
    if negb no_prev then (AOk false, g2)
    else
      let g3 := insert_edata g2 s d e in
      if N.ltb lb ub then
        match dfs_forward (dfs_fuel g3) g3 ub [d] [] [] with
        | DfsFuel => (AFuel, g3)
        | DfsCycle =>
          (* roll back: children.remove(dst); parents.remove(src); edge_data.remove *)
          let g4 := upd_info g3 s (fun i => mkNinfo (rank i) (removeN d (kids i)) (pars i)) in
          let g5 := upd_info g4 d (fun i => mkNinfo (rank i) (kids i) (removeN s (pars i))) in
          (AErr CycleDetected, remove_edata g5 s d)
        | DfsOk cf visited =>
          match dfs_backward (dfs_fuel g3) g3 lb [s] visited [] with
          | DfsOk cb _ => (AOk true, reorder_nodes g3 cf cb)
          | _ => (AFuel, g3)
          end
        end
      else (AOk true, g3).

(* ---- queries ---- *)
Definition contains_node (g : dag) (n : node) : bool := live g n.
Definition contains_edge (g : dag) (s d : node) : bool :=
  if negb (live g s) || negb (live g d) then false
  else match get_edata g s d with Some _ => true | None => false end.

Fixpoint cte_loop (fuel : nat) (g : dag) (dst : node) (stack visited : list node) : option bool :=
  match fuel with
  | O => None
  | S f =>
    match stack with
    | [] => Some false
    | k :: st =>
      if memN k visited then cte_loop f g dst st visited
      else
        let ch := kids_of g k in
        if memN dst ch then Some true
        else cte_loop f g dst (rev ch ++ st) (k :: visited)   (* Vec::extend then pop from the back *)
    end
  end.
Definition walk_fuel (g : dag) : nat := S (S (length (edata g) + length (infos g) + length (infos g))).
Definition contains_transitive_edge (g : dag) (s d : node) : option bool :=
  if negb (live g s) || negb (live g d) then Some false
  else if N.eqb s d then Some false
  else cte_loop (walk_fuel g) g d [s] [].

Definition get_outgoing_edges (g : dag) (s : node) : list (node * option E) :=
  map (fun c => (c, get_edata g s c)) (kids_of g s).
Definition get_incoming_edges (g : dag) (d : node) : list (node * option E) :=
  map (fun p => (p, get_edata g p d)) (pars_of g d).

(* ---- remove_edge / remove_outgoing_edges_of_node ---- *)
Definition remove_edge (g : dag) (s d : node) : option E * dag :=
  if negb (live g s) || negb (live g d) then (None, g)
  else if negb (memN d (kids_of g s)) then (None, g)
  else
    let g1 := upd_info g s (fun i => mkNinfo (rank i) (removeN d (kids i)) (pars i)) in
    let g2 := upd_info g1 d (fun i => mkNinfo (rank i) (kids i) (removeN s (pars i))) in
    (get_edata g2 s d, remove_edata g2 s d).

Definition remove_outgoing (g : dag) (s : node) : option (list (node * E)) * dag :=
  if negb (live g s) then (None, g)
  else
    let children := kids_of g s in
    let g1 := upd_info g s (fun i => mkNinfo (rank i) [] (pars i)) in
    match children with
    | [] => (None, g1)
    | _ =>
      let step := fun (acc : list (node * E) * dag) (c : node) =>
        let '(out, gg) := acc in
        let gg1 := upd_info gg c (fun i => mkNinfo (rank i) (kids i) (removeN s (pars i))) in
        match get_edata gg1 s c with
        | Some e => (out ++ [(c, e)], remove_edata gg1 s c)
        | None => (out, gg1)
        end in
      let '(out, g2) := fold_left step children ([], g1) in
      (Some out, g2)
    end.

(* ---- descendants ---- *)
Fixpoint desc_unsorted_loop (fuel : nat) (g : dag) (stack visited : list node) (acc : list (N * node)) : option (list (N * node)) :=
  match fuel with
  | O => None
  | S f =>
    match stack with
    | [] => Some (rev acc)
    | n :: st =>
      if memN n visited then desc_unsorted_loop f g st visited acc
      else desc_unsorted_loop f g (rev (kids_of g n) ++ st) (n :: visited) ((rank_of g n, n) :: acc)
    end
  end.
Definition descendants_unsorted (g : dag) (n : node) : ares (list (N * node)) :=
  if negb (live g n) then AErr NodeMissing
  else match desc_unsorted_loop (walk_fuel g) g (rev (kids_of g n)) [] [] with
       | Some l => AOk l | None => AFuel end.

(* BinaryHeap<(Reverse<rank>, Node)>: pop yields the smallest rank (ties: the larger node key; ties only between copies of one node) *)
Fixpoint heap_min (g : dag) (best : node) (l : list node) : node :=
  match l with
  | [] => best
  | x :: tl => if N.ltb (rank_of g x) (rank_of g best) then heap_min g x tl else heap_min g best tl
  end.
Fixpoint remove_first (x : N) (l : list N) : list N :=
  match l with
  | [] => []
  | y :: tl => if N.eqb x y then tl else y :: remove_first x tl
  end.
Fixpoint desc_sorted_loop (fuel : nat) (g : dag) (queue visited : list node) (acc : list node) : option (list node) :=
  match fuel with
  | O => None
  | S f =>
    match queue with
    | [] => Some (rev acc)
    | q0 :: qtl =>
      let m := heap_min g q0 qtl in
      let queue' := remove_first m queue in
      if memN m visited then desc_sorted_loop f g queue' visited acc
      else desc_sorted_loop f g (kids_of g m ++ queue') (m :: visited) (m :: acc)
    end
  end.
Definition descendants (g : dag) (n : node) : ares (list node) :=
  if negb (live g n) then AErr NodeMissing
  else match desc_sorted_loop (walk_fuel g) g (kids_of g n) [] [] with
       | Some l => AOk l | None => AFuel end.

Definition topo_cmp (g : dag) (a b : node) : option comparison :=
  match get_info g a, get_info g b with
  | Some ia, Some ib => Some (N.compare (rank ia) (rank ib))
  | _, _ => None   (* the code panics (index on a missing slot) *)
  end.

End Dag.
Arguments dag : clear implicits.

(* ---- operation sequences (the quantifier of C10/C11) ---- *)
Inductive gop (E : Type) :=
| GAddNode | GRemoveNode (n : node) | GAddEdge (s d : node) (e : E)
| GRemoveEdge (s d : node) | GRemoveOut (s : node).
Arguments GAddNode {E}. Arguments GRemoveNode {E}. Arguments GAddEdge {E}. Arguments GRemoveEdge {E}. Arguments GRemoveOut {E}.

Definition gstep {E} (g : dag E) (o : gop E) : dag E :=
  match o with
  | GAddNode => snd (add_node g)
  | GRemoveNode n => snd (remove_node g n)
  | GAddEdge s d e => snd (add_edge g s d e)
  | GRemoveEdge s d => snd (remove_edge g s d)
  | GRemoveOut s => snd (remove_outgoing g s)
  end.
Definition grun {E} (ops : list (gop E)) : dag E := fold_left gstep ops empty.

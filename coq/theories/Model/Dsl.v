(* The first-order task DSL shared by the Rust harness (harness/src/dsl.rs) and the model, its denotation into [prog],
   and the concrete checker tables used for execution.  Definitions only. *)
From Coq Require Import List NArith ZArith Bool.
From PieV Require Import Model.Dag Model.Build.
Import ListNotations.
Open Scope Z_scope.

Definition MODULUS : Z := 1000003.
Definition mix (acc v : Z) : Z := (acc * 31 + v + 7) mod MODULUS.

Inductive expr := EConst (z : Z) | EAcc | EAccPlus (z : Z).
Inductive cond := CAccEq (z : Z) | CAccMod (m k : Z) | CLastEq (z : Z).

(* continuation-style instruction tree: an If has two complete continuations (no join) *)
Inductive code :=
| CDone                                           (* return acc *)
| CRet (e : expr)
| CPanic
| CRead (r : res) (c : rcid) (k : code)
| CReq (t : task) (c : ocid) (k : code)
| CWrite (r : res) (c : rcid) (e : expr) (k : code)
| CWrittenTo (r : res) (c : rcid) (e : expr) (k : code)
| CRemove (r : res) (c : rcid) (k : code)         (* Context::write whose write function removes the key *)
| CIf (b : cond) (th el : code).

Definition eval_expr (e : expr) (acc : Z) : Z :=
  match e with EConst z => z | EAcc => acc | EAccPlus z => (acc + z) mod MODULUS end.
Definition eval_cond (b : cond) (acc last : Z) : bool :=
  match b with
  | CAccEq z => Z.eqb acc z
  | CAccMod m k => Z.eqb (acc mod m) k
  | CLastEq z => Z.eqb last z
  end.

Definition err_val (e : Z) : Z := 900000 + e.

Fixpoint denote (c : code) (acc last : Z) : prog :=
  match c with
  | CDone => Ret acc
  | CRet e => Ret (eval_expr e acc)
  | CPanic => Panic
  | CRead r ch k => Read r ch (fun x => match x with
                                      | inl v => denote k (mix acc v) v
                                      | inr e => denote k (mix acc (err_val e)) (err_val e) end)
  | CReq t ch k => Req t ch (fun v => denote k (mix acc v) v)
  | CWrite r ch e k => Write r ch (Some (eval_expr e acc)) (fun x => match x with
                                      | inl _ => denote k acc last
                                      | inr e => denote k (mix acc (err_val e)) (err_val e) end)
  | CWrittenTo r ch e k => WrittenTo r ch (Some (eval_expr e acc)) (fun x => match x with
                                      | inl _ => denote k acc last
                                      | inr e => denote k (mix acc (err_val e)) (err_val e) end)
  | CRemove r ch k => Write r ch None (fun x => match x with
                                      | inl _ => denote k acc last
                                      | inr e => denote k (mix acc (err_val e)) (err_val e) end)
  | CIf b th el => if eval_cond b acc last then denote th acc last else denote el acc last
  end.

Definition table := list (task * code).
Definition denote_table (tb : table) (t : task) : prog :=
  match alookup tb t with Some c => denote c 0 0 | None => Ret 0 end.

(* ---- concrete checkers of the harness ---- *)
Definition stamp_exact (v : content) : Z := match v with None => 0 | Some z => z + 1 end.
Definition stamp_parity (v : content) : Z := match v with None => 0 | Some z => 1 + z mod 2 end.
Definition stamp_exists (v : content) : Z := match v with None => 0 | Some _ => 1 end.

Definition rc_of_stamp (f : content -> Z) : rchecker :=
  mkRc (fun _ _ v => inl (f v))
       (fun _ _ v st => if Z.eqb (f v) st then Consistent else Inconsistent)
       f.
Definition fail_code (r : res) : Z := 100 + Z.of_N r.
(* fails at validation time only (C18): check errs while the resource is in the environment set *)
Definition rc_failing : rchecker :=
  mkRc (fun _ _ v => inl (stamp_exact v))
       (fun env r v st => if memN r env then CErr (fail_code r)
                          else if Z.eqb (stamp_exact v) st then Consistent else Inconsistent)
       stamp_exact.
(* fails at stamping time only: the read/write returns the error to the task and records nothing *)
Definition rc_failstamp : rchecker :=
  mkRc (fun env r v => if memN r env then inr (fail_code r) else inl (stamp_exact v))
       (fun _ _ v st => if Z.eqb (stamp_exact v) st then Consistent else Inconsistent)
       stamp_exact.

(* 0 Exact (pie's MapEqualsChecker), 1 Parity, 2 Exists, 3 Always, 4 Failing (check), 5 FailStamp *)
Definition RCtab (c : rcid) : rchecker :=
  match c with
  | 0%N => rc_of_stamp stamp_exact
  | 1%N => rc_of_stamp stamp_parity
  | 2%N => rc_of_stamp stamp_exists
  | 3%N => mkRc (fun _ _ _ => inl 0) (fun _ _ _ _ => Consistent) (fun _ => 0)
  | 4%N => rc_failing
  | _ => rc_failstamp
  end.

(* 0 Equals (pie's EqualsChecker), 1 Parity, 2 Always (pie's AlwaysConsistent) *)
Definition OCtab (c : ocid) : ochecker :=
  match c with
  | 0%N => mkOc (fun o => o) (fun o st => Z.eqb o st) (fun o => o)
  | 1%N => mkOc (fun o => o mod 2) (fun o st => Z.eqb (o mod 2) st) (fun o => o mod 2)
  (* a tolerance checker (not an equivalence): the stamp is the output, consistent while the output stays within 400 (mod 1000) *)
  | 3%N => mkOc (fun o => o) (fun o st => Z.leb (Z.abs (o mod 1000 - st mod 1000)) 400) (fun o => o)
  | 4%N => mkOc (fun o => o) (fun o st => Z.leb (Z.abs (o mod 1000 - st mod 1000)) 100) (fun o => o)
  | _ => mkOc (fun _ => 0) (fun _ _ => true) (fun _ => 0)
  end.
Definition OC_ALWAYS : ocid := 2%N.

(* ---- histories of DSL programs: the generic runner of Build.v at the concrete checker tables ---- *)
Definition dsl_run_step (tb : table) : nat -> world -> step -> list sres * world :=
  Build.run_step RCtab OCtab (denote_table tb) OC_ALWAYS.
Definition dsl_run_msession (tb : table) : nat -> world -> list mop -> list sres * world :=
  Build.run_msession RCtab OCtab (denote_table tb) OC_ALWAYS.
Definition dsl_run_zsession (tb : table) : nat -> world -> list mop -> list sres * world :=
  Build.run_zsession RCtab OCtab (denote_table tb) OC_ALWAYS.
Definition dsl_run_history (tb : table) : nat -> world -> list step -> list (list sres) * world :=
  Build.run_history RCtab OCtab (denote_table tb) OC_ALWAYS.

(* Model of pie/src/resource/file.rs and file/hash_checker.rs: path states, opening for read/write, and the three file
   checkers with their three stamp routes.  The operating system is MODELLED: a path is absent, a file (bytes, mtime) or a
   directory (entry names in listing order, mtime).  SHA-256 is a section variable.  Definitions only. *)
From Coq Require Import List NArith Bool.
Import ListNotations.
Open Scope N_scope.

Definition bytes := list N.
Inductive pstate := Absent | PFile (content : bytes) (mtime : N) | PDir (names : list bytes) (mtime : N).

(* OpenRead: File(BufReader<File>, Metadata) | Directory(Metadata) | NonExistent; the reader has a position *)
Inductive openread := ORFile (content : bytes) (pos : nat) (mtime : N) | ORDir (mtime : N) | ORNone.

Section FileRes.
Variable H : Type.
Variable sha : bytes -> H.
Variable eqH : H -> H -> bool.

Definition p_exists (s : pstate) : bool := match s with Absent => false | _ => true end.
Definition p_modified (s : pstate) : option N := match s with Absent => None | PFile _ m | PDir _ m => Some m end.

(* Resource::read = OpenRead::new *)
Definition open_read (s : pstate) : openread :=
  match s with Absent => ORNone | PFile c m => ORFile c 0 m | PDir _ m => ORDir m end.
(* what a task reads from the reader: the bytes from the current position *)
Definition reader_rest (r : openread) : bytes := match r with ORFile c p _ => skipn p c | _ => [] end.
Definition reader_rewind (r : openread) : openread := match r with ORFile c _ m => ORFile c 0 m | x => x end.

(* Resource::write: directories are refused; otherwise the file is created or truncated (mtime = now) *)
Definition open_write (s : pstate) (now : N) : option pstate :=
  match s with PDir _ _ => None | _ => Some (PFile [] now) end.
Definition write_bytes (s : pstate) (b : bytes) (now : N) : pstate :=
  match s with PFile c _ => PFile (c ++ b) now | x => x end.

(* ---- ExistsChecker: Stamp = bool ---- *)
Definition ex_stamp (s : pstate) : bool := p_exists s.
Definition ex_stamp_reader (r : openread) : bool := match r with ORNone => false | _ => true end.
Definition ex_stamp_writer (s : pstate) : bool := p_exists s.                 (* exists(path), the writer is ignored *)
Definition ex_check (s : pstate) (st : bool) : bool := negb (Bool.eqb (p_exists s) st).     (* true = inconsistent *)

(* ---- ModifiedChecker: Stamp = Option<SystemTime> ---- *)
Definition optN_eqb (a b : option N) : bool :=
  match a, b with Some x, Some y => N.eqb x y | None, None => true | _, _ => false end.
Definition mo_stamp (s : pstate) : option N := p_modified s.
Definition mo_stamp_reader (r : openread) : option N := match r with ORFile _ _ m | ORDir m => Some m | ORNone => None end.
Definition mo_stamp_writer (s : pstate) : option N := if p_exists s then p_modified s else None.   (* file.metadata() of the open file *)
Definition mo_check (s : pstate) (st : option N) : bool := negb (optN_eqb (p_modified s) st).

(* ---- HashChecker: Stamp = Option<[u8;32]> ---- *)
(* hash_directory feeds every entry name to the hasher, each followed by a NUL byte *)
Definition dir_stream (names : list bytes) : bytes := concat (map (fun n => n ++ [0]) names).
Definition ha_hash_reader (s : pstate) (r : openread) : option H * openread :=
  match r with
  | ORFile c p m => (Some (sha (skipn p c)), ORFile c (length c) m)       (* io::copy reads to the end *)
  | ORDir m => (match s with PDir names _ => Some (sha (dir_stream names)) | _ => None end, ORDir m)   (* fs::read_dir(path) *)
  | ORNone => (None, ORNone)
  end.
Definition ha_stamp (s : pstate) : option H := fst (ha_hash_reader s (open_read s)).
Definition ha_stamp_reader (s : pstate) (r : openread) : option H * openread :=
  let '(h, r') := ha_hash_reader s r in (h, reader_rewind r').
Definition ha_stamp_writer (s : pstate) : option H :=
  match s with PFile c _ => Some (sha c) | _ => None end.                 (* !exists => None; rewind; hash_file *)
Definition optH_eqb (a b : option H) : bool :=
  match a, b with Some x, Some y => eqH x y | None, None => true | _, _ => false end.
Definition ha_check (s : pstate) (st : option H) : bool := negb (optH_eqb (ha_stamp s) st).

End FileRes.

(* Model of key identity (pie/src/trait_object/{base,mod,task}.rs + the two HashMaps of store.rs):
   a key is (concrete type, value); EqObj::eq_any compares after a downcast to the SAME type; HashObj hashes the value only
   (so keys of different types with equal fields collide); the store map is a hash map: bucket by hash, then eq. *)
From Coq Require Import List NArith Bool.
Import ListNotations.
Open Scope N_scope.

Definition key := (N * N)%type.            (* (TypeId, value) *)
Definition eq_any (a b : key) : bool := N.eqb (fst a) (fst b) && N.eqb (snd a) (snd b).
Definition hash_obj (k : key) : N := snd k.

Definition kmap := list (N * list (key * N)).      (* hash -> bucket of (key, node) *)
Fixpoint bucket (m : kmap) (h : N) : list (key * N) :=
  match m with [] => [] | (h', b) :: tl => if N.eqb h' h then b else bucket tl h end.
Fixpoint set_bucket (m : kmap) (h : N) (b : list (key * N)) : kmap :=
  match m with
  | [] => [(h, b)]
  | (h', b') :: tl => if N.eqb h' h then (h, b) :: tl else (h', b') :: set_bucket tl h b
  end.
Definition klookup (m : kmap) (k : key) : option N :=
  match find (fun p => eq_any (fst p) k) (bucket m (hash_obj k)) with Some p => Some (snd p) | None => None end.
Definition kinsert (m : kmap) (k : key) (n : N) : kmap :=
  set_bucket m (hash_obj k) (bucket m (hash_obj k) ++ [(k, n)]).

(* Store::get_or_create_*_node *)
Definition get_or_create (s : kmap * N) (k : key) : N * (kmap * N) :=
  match klookup (fst s) k with
  | Some n => (n, s)
  | None => (snd s, (kinsert (fst s) k (snd s), snd s + 1))
  end.
(* nodes handed out for a sequence of keys, starting from an empty store *)
Fixpoint assign_from (s : kmap * N) (ks : list key) : list N :=
  match ks with [] => [] | k :: tl => let '(n, s') := get_or_create s k in n :: assign_from s' tl end.
Definition assign (ks : list key) : list N := assign_from ([], 0) ks.

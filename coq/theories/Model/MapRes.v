(* Model of pie/src/trait_object/collection.rs (TypeToAnyMap as ResourceState) and pie/src/resource/map.rs
   (the in-memory map resource, MapWriter, MapEqualsChecker).  Definitions only. *)
From Coq Require Import List NArith ZArith Bool.
Import ListNotations.
Open Scope N_scope.

Definition tyid := N.
(* a boxed state value: its dynamic type and its content.  Content of a HashMap<K,V> state: association list key -> value;
   content of any other state type: a single value stored under key 0 *)
Record boxed := mkBoxed { b_ty : tyid; b_map : list (N * Z) }.
(* TypeToAnyMap: HashMap<TypeId, Box<dyn Any>>, keyed by the RESOURCE type *)
Definition tymap := list (tyid * boxed).

Fixpoint tm_get (m : tymap) (r : tyid) : option boxed :=
  match m with [] => None | (r', b) :: tl => if N.eqb r' r then Some b else tm_get tl r end.
Definition tm_remove (m : tymap) (r : tyid) : tymap := filter (fun p => negb (N.eqb (fst p) r)) m.
Definition tm_set (m : tymap) (r : tyid) (b : boxed) : tymap := tm_remove m r ++ [(r, b)].

(* ResourceState<R>::get::<S>: Some iff a state exists for R and its dynamic type is S *)
Definition rs_get (m : tymap) (r s : tyid) : option (list (N * Z)) :=
  match tm_get m r with Some b => if N.eqb (b_ty b) s then Some (b_map b) else None | None => None end.
Definition rs_set (m : tymap) (r s : tyid) (v : list (N * Z)) : tymap := tm_set m r (mkBoxed s v).
(* get_or_set_default::<S>: missing, or of another type => replaced by S::default() *)
Definition rs_get_or_set_default (m : tymap) (r s : tyid) : list (N * Z) * tymap :=
  match rs_get m r s with
  | Some v => (v, m)
  | None => ([], rs_set m r s [])
  end.

(* the state type of the map resource for key type K (= resource type K): HashMap<K, K::Value> *)
Definition hm (k : tyid) : tyid := 1000 + k.

Fixpoint al_get (l : list (N * Z)) (k : N) : option Z :=
  match l with [] => None | (k', v) :: tl => if N.eqb k' k then Some v else al_get tl k end.
Definition al_remove (l : list (N * Z)) (k : N) := filter (fun p => negb (N.eqb (fst p) k)) l.
Definition al_set (l : list (N * Z)) (k : N) (v : Z) := al_remove l k ++ [(k, v)].

(* Resource::read for a MapKey of type kt with value k: get_global_map (get_or_set_default) then HashMap::get *)
Definition map_read (m : tymap) (kt : tyid) (k : N) : option Z * tymap :=
  let '(g, m') := rs_get_or_set_default m kt (hm kt) in (al_get g k, m').
(* MapWriter::insert / entry().remove() through Resource::write (get_global_map_mut) *)
Definition map_insert (m : tymap) (kt : tyid) (k : N) (v : Z) : tymap :=
  let '(g, m') := rs_get_or_set_default m kt (hm kt) in rs_set m' kt (hm kt) (al_set g k v).
Definition map_remove (m : tymap) (kt : tyid) (k : N) : tymap :=
  let '(g, m') := rs_get_or_set_default m kt (hm kt) in rs_set m' kt (hm kt) (al_remove g k).

(* MapEqualsChecker: Stamp = Option<V>; the three routes *)
Definition meq_stamp (m : tymap) (kt : tyid) (k : N) : option Z * tymap := map_read m kt k.
Definition meq_stamp_reader (reader : option Z) : option Z := reader.
Definition meq_stamp_writer (m : tymap) (kt : tyid) (k : N) : option Z * tymap := map_read m kt k.   (* writer.get() *)
Definition opt_eqb (a b : option Z) : bool :=
  match a, b with Some x, Some y => Z.eqb x y | None, None => true | _, _ => false end.
(* check: Some(inconsistency) iff current value <> stamped value *)
Definition meq_check (m : tymap) (kt : tyid) (k : N) (st : option Z) : bool * tymap :=
  let '(v, m') := map_read m kt k in (negb (opt_eqb v st), m').

(* operations of the probe *)
Inductive mop :=
| MGet (r s : tyid) | MSet (r s : tyid) (v : Z) | MDefault (r s : tyid)
| MRead (kt : tyid) (k : N) | MInsert (kt : tyid) (k : N) (v : Z) | MRemove (kt : tyid) (k : N)
| MDirect (kt : tyid) (k : N) (v : Z)          (* pie.resource_state_mut::<K>().get_global_map_mut().insert *)
| MStamp (slot : N) (kt : tyid) (k : N)        (* stamp by the three routes, keep the first in a slot *)
| MCheck (slot : N).                           (* check the current state against the stamp kept in the slot *)

Inductive mobs :=
| OGet (v : option (list (N * Z))) | OUnit | ODefault (v : list (N * Z)) | ORead (v : option Z)
| OStamp (s1 s2 s3 : option Z) | OCheck (inconsistent : option bool).

Record mstate := mkMs { ms_map : tymap; ms_slots : list (N * (tyid * N * option Z)) }.
Definition ms_init : mstate := mkMs [] [].
Fixpoint slot_get (l : list (N * (tyid * N * option Z))) (i : N) : option (tyid * N * option Z) :=
  match l with [] => None | (j, x) :: tl => if N.eqb j i then Some x else slot_get tl i end.

Definition mstep (s : mstate) (o : mop) : mobs * mstate :=
  let m := ms_map s in
  match o with
  | MGet r t => (OGet (rs_get m r t), s)
  | MSet r t v => (OUnit, mkMs (rs_set m r t [(0, v)]) (ms_slots s))
  | MDefault r t => let '(v, m') := rs_get_or_set_default m r t in (ODefault v, mkMs m' (ms_slots s))
  | MRead kt k => let '(v, m') := map_read m kt k in (ORead v, mkMs m' (ms_slots s))
  | MInsert kt k v => (OUnit, mkMs (map_insert m kt k v) (ms_slots s))
  | MRemove kt k => (OUnit, mkMs (map_remove m kt k) (ms_slots s))
  | MDirect kt k v => (OUnit, mkMs (map_insert m kt k v) (ms_slots s))
  | MStamp i kt k =>
    let '(s1, m1) := meq_stamp m kt k in
    let '(rd, m2) := map_read m1 kt k in
    let s2 := meq_stamp_reader rd in
    let '(s3, m3) := meq_stamp_writer m2 kt k in
    (OStamp s1 s2 s3, mkMs m3 ((i, (kt, k, s1)) :: ms_slots s))
  | MCheck i =>
    match slot_get (ms_slots s) i with
    | None => (OCheck None, s)
    | Some (kt, k, st) => let '(inc, m') := meq_check m kt k st in (OCheck (Some inc), mkMs m' (ms_slots s))
    end
  end.

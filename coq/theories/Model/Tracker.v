(* Model of pie/src/tracker: the recording EventTracker (10 recorded kinds + index), its query helpers, and the
   CompositeTracker.  Definitions only; helpers copied arm by arm from tracker/event.rs. *)
From Coq Require Import List NArith ZArith Bool.
From PieV Require Import Model.Dag Model.Build.
Import ListNotations.
Open Scope N_scope.

(* a key as the helpers see it: (type tag, value); 0 = task type T, 1 = resource type R *)
Definition key := (N * N)%type.
Definition key_eqb (a b : key) : bool := N.eqb (fst a) (fst b) && N.eqb (snd a) (snd b).
Definition ktask (t : task) : key := (0, t).
Definition kres (r : res) : key := (1, r).

Inductive tevent :=
| TBuildStart | TBuildEnd
| TRequireStart (k : key) (c : ocid) (index : N)
| TRequireEnd (k : key) (c : ocid) (st o : Z) (index : N)
| TReadStart (k : key) (c : rcid) (index : N)
| TReadEnd (k : key) (c : rcid) (st : Z) (index : N)
| TWriteStart (k : key) (c : rcid) (index : N)
| TWriteEnd (k : key) (c : rcid) (st : Z) (index : N)
| TExecuteStart (k : key) (index : N)
| TExecuteEnd (k : key) (o : Z) (index : N).

Record etracker := mkEt { et_events : list tevent; clear_on_build_start : bool }.
Definition et_default : etracker := mkEt [] true.
Definition et_push (s : etracker) (e : tevent) : etracker := mkEt (et_events s ++ [e]) (clear_on_build_start s).
Definition et_len (s : etracker) : N := N.of_nat (length (et_events s)).

(* impl Tracker for EventTracker: the other 13 methods keep their default (empty) bodies *)
Definition et_step (s : etracker) (e : event) : etracker :=
  match e with
  | EBuildStart => et_push (if clear_on_build_start s then mkEt [] true else s) TBuildStart
  | EBuildEnd => et_push s TBuildEnd
  | ERequireStart t c => et_push s (TRequireStart (ktask t) c (et_len s))
  | ERequireEnd t c st o => et_push s (TRequireEnd (ktask t) c st o (et_len s))
  | EReadStart r c => et_push s (TReadStart (kres r) c (et_len s))
  | EReadEnd r c st => et_push s (TReadEnd (kres r) c st (et_len s))
  | EWriteStart r c => et_push s (TWriteStart (kres r) c (et_len s))
  | EWriteEnd r c st => et_push s (TWriteEnd (kres r) c st (et_len s))
  | EExecStart t => et_push s (TExecuteStart (ktask t) (et_len s))
  | EExecEnd t o => et_push s (TExecuteEnd (ktask t) o (et_len s))
  | _ => s
  end.
Definition et_run (stream : list event) : etracker := fold_left et_step stream et_default.

(* ---- impl Event ---- *)
Definition is_build_start (e : tevent) : bool := match e with TBuildStart => true | _ => false end.
Definition is_build_end (e : tevent) : bool := match e with TBuildEnd => true | _ => false end.
Definition match_require_start (e : tevent) (k : key) : option tevent :=
  match e with TRequireStart k' _ _ => if key_eqb k' k then Some e else None | _ => None end.
Definition match_require_end (e : tevent) (k : key) : option tevent :=
  match e with TRequireEnd k' _ _ _ _ => if key_eqb k' k then Some e else None | _ => None end.
Definition match_read_start (e : tevent) (k : key) : option tevent :=
  match e with TReadStart k' _ _ => if key_eqb k' k then Some e else None | _ => None end.
Definition match_read_end (e : tevent) (k : key) : option tevent :=
  match e with TReadEnd k' _ _ _ => if key_eqb k' k then Some e else None | _ => None end.
Definition match_write_start (e : tevent) (k : key) : option tevent :=
  match e with TWriteStart k' _ _ => if key_eqb k' k then Some e else None | _ => None end.
Definition match_write_end (e : tevent) (k : key) : option tevent :=
  match e with TWriteEnd k' _ _ _ => if key_eqb k' k then Some e else None | _ => None end.
Definition is_execute (e : tevent) : bool := match e with TExecuteStart _ _ | TExecuteEnd _ _ _ => true | _ => false end.
Definition is_execute_of (e : tevent) (k : key) : bool :=
  match e with TExecuteStart k' _ | TExecuteEnd k' _ _ => key_eqb k' k | _ => false end.
Definition match_execute_start (e : tevent) (k : key) : option tevent :=
  match e with TExecuteStart k' _ => if key_eqb k' k then Some e else None | _ => None end.
Definition match_execute_end (e : tevent) (k : key) : option tevent :=
  match e with TExecuteEnd k' _ _ => if key_eqb k' k then Some e else None | _ => None end.

Definition tindex (e : tevent) : option N :=
  match e with
  | TBuildStart | TBuildEnd => None
  | TRequireStart _ _ i | TRequireEnd _ _ _ _ i | TReadStart _ _ i | TReadEnd _ _ _ i
  | TWriteStart _ _ i | TWriteEnd _ _ _ i | TExecuteStart _ i | TExecuteEnd _ _ i => Some i
  end.

(* ---- impl EventTracker ---- *)
Definition et_any (s : etracker) (p : tevent -> bool) : bool := existsb p (et_events s).
Definition et_one (s : etracker) (p : tevent -> bool) : bool := Nat.eqb (length (filter p (et_events s))) 1.
Fixpoint find_map {A} (f : tevent -> option A) (l : list tevent) : option A :=
  match l with [] => None | e :: tl => match f e with Some x => Some x | None => find_map f tl end end.
Definition et_find_map {A} (s : etracker) (f : tevent -> option A) : option A := find_map f (et_events s).
Definition zip_opt {A B} (a : option A) (b : option B) : option (A * B) :=
  match a, b with Some x, Some y => Some (x, y) | _, _ => None end.

Definition first_require (s : etracker) (k : key) := zip_opt (et_find_map s (fun e => match_require_start e k)) (et_find_map s (fun e => match_require_end e k)).
Definition first_read (s : etracker) (k : key) := zip_opt (et_find_map s (fun e => match_read_start e k)) (et_find_map s (fun e => match_read_end e k)).
Definition first_write (s : etracker) (k : key) := zip_opt (et_find_map s (fun e => match_write_start e k)) (et_find_map s (fun e => match_write_end e k)).
Definition first_execute (s : etracker) (k : key) := zip_opt (et_find_map s (fun e => match_execute_start e k)) (et_find_map s (fun e => match_execute_end e k)).
Definition range_of (p : option (tevent * tevent)) : option (N * N) :=
  match p with Some (a, b) => zip_opt (tindex a) (tindex b) | None => None end.
Definition first_read_end (s : etracker) (k : key) := et_find_map s (fun e => match_read_end e k).
Definition first_write_end (s : etracker) (k : key) := et_find_map s (fun e => match_write_end e k).
Definition first_execute_end (s : etracker) (k : key) := et_find_map s (fun e => match_execute_end e k).
Definition any_execute (s : etracker) : bool := et_any s is_execute.
Definition any_execute_of (s : etracker) (k : key) : bool := et_any s (fun e => is_execute_of e k).
Definition one_execute_of (s : etracker) (k : key) : bool :=
  et_one s (fun e => match match_execute_start e k with Some _ => true | None => false end).

(* ---- CompositeTracker<A1,A2>: every method forwards to both children ---- *)
Definition composite_step {S1 S2} (f1 : S1 -> event -> S1) (f2 : S2 -> event -> S2) (s : S1 * S2) (e : event) : S1 * S2 :=
  (f1 (fst s) e, f2 (snd s) e).

(* C03 / C04, the converse of BuJust: in a bottom-up build that completes, every task that was scheduled is executed AFTER its
   (last) scheduling -- nothing that was found affected is forgotten.  For all programs, checkers, worlds, change sets.
   Invariant: a scheduling of t not yet followed by an execution start of t ("pending") implies t is in the queue (or is the
   task just popped, on its way to execute_obj); the build ends with an empty queue. *)
From Coq Require Import List NArith ZArith Bool Lia Permutation.
From PieV Require Import Model.Dag Model.Build Proofs.DagLib Proofs.Sorting Proofs.ExecInv Proofs.BuJust.
Import ListNotations.
Open Scope N_scope.

(* newest-first segment: t was scheduled and has not started executing since *)
Definition pending (seg : list event) (t : task) : Prop :=
  exists pre post, seg = pre ++ ESchedTask t :: post /\ ~ In (EExecStart t) pre.

Lemma pending_plain e seg t : plain e = true -> pending (e :: seg) t -> pending seg t.
Proof.
  intros He [pre [post [E N]]]. destruct pre as [|p pre]; cbn in E; inversion E; subst; [discriminate|].
  exists pre, post. split; [reflexivity|]. intros X. apply N. right. exact X.
Qed.
Lemma pending_app s seg t : Forall (fun e => plain e = true) s -> pending (s ++ seg) t -> pending seg t.
Proof. induction 1 as [|e s He _ IH]; cbn [app]; intros H; [exact H|apply IH; eapply pending_plain; eassumption]. Qed.
Lemma pending_sched x seg t : pending (ESchedTask x :: seg) t -> t = x \/ pending seg t.
Proof.
  intros [pre [post [E N]]]. destruct pre as [|p pre]; cbn in E; inversion E; subst; [left; reflexivity|].
  right. exists pre, post. split; [reflexivity|]. intros X. apply N. right. exact X.
Qed.
Lemma pending_start x seg t : pending (EExecStart x :: seg) t -> t <> x /\ pending seg t.
Proof.
  intros [pre [post [E N]]]. destruct pre as [|p pre]; cbn in E; inversion E; subst.
  split; [intros ->; apply N; left; reflexivity|]. exists pre, post. split; [reflexivity|]. intros X. apply N. right. exact X.
Qed.
Definition is_start (t : task) (e : event) : bool := match e with EExecStart x => N.eqb x t | _ => false end.
Lemma In_start_dec t l : {In (EExecStart t) l} + {~ In (EExecStart t) l}.
Proof.
  destruct (existsb (is_start t) l) eqn:E; [left|right].
  - apply existsb_exists in E. destruct E as [e [X Y]]. destruct e; try discriminate. cbn in Y. apply N.eqb_eq in Y. subst. exact X.
  - intros X. assert (existsb (is_start t) l = true) by (apply existsb_exists; exists (EExecStart t); split; [exact X|cbn; apply N.eqb_refl]). congruence.
Qed.
Lemma pending_nil t : ~ pending [] t.
Proof. intros [pre [post [E _]]]. destruct pre; discriminate. Qed.

Section BD.
Variable RC : rcid -> rchecker.
Variable OC : ocid -> ochecker.
Variable P : task -> prog.
Variable tb : list event.

(* a = the task in transit between Queue::pop and its execution start *)
Definition D (a : option task) (w : world) : Prop :=
  exists seg, trace w = seg ++ tb /\ forall t, pending seg t -> In t (queue w) \/ a = Some t.
Definition okD {A} (m : outcome A) : Prop := match m with Done _ w' | Abort _ w' => D None w' | OutOfFuel => True end.

Lemma bind_D {A B} (m : outcome A) (f : A -> world -> outcome B) : okD m -> (forall a w, D None w -> okD (f a w)) -> okD (bind m f).
Proof. destruct m; cbn; intros H F; [apply F; exact H|exact H|exact Logic.I]. Qed.

Definition quietq (w w' : world) : Prop :=
  (exists seg, trace w' = seg ++ trace w /\ Forall (fun e => plain e = true) seg) /\ queue w' = queue w.
Lemma quiet_quietq w w' : quiet w w' -> quietq w w'.
Proof. intros [A [B _]]. split; assumption. Qed.
Lemma quietq_D a w w' : quietq w w' -> D a w -> D a w'.
Proof.
  intros [[s [T F]] Q] [seg [A1 A2]]. exists (s ++ seg). split; [rewrite T, A1, app_assoc; reflexivity|].
  intros t X. rewrite Q. apply A2. eapply pending_app; eassumption.
Qed.
Lemma quiet_D a w w' : quiet w w' -> D a w -> D a w'.
Proof. intros Q. apply quietq_D, quiet_quietq, Q. Qed.
Lemma quietO_D {A} w (m : outcome A) : quietO w m -> D None w -> okD m.
Proof. destruct m; cbn; intros Q H; [eapply quiet_D; eassumption|eapply quiet_D; eassumption|exact Logic.I]. Qed.
Lemma D_weaken t w : D None w -> D (Some t) w.
Proof. intros [seg [A1 A2]]. exists seg. split; [exact A1|]. intros x X. destruct (A2 x X) as [Y|Y]; [left; exact Y|discriminate]. Qed.

Definition DREQ (req : world -> task -> ocid -> outcome Z) : Prop := forall w t c, D None w -> okD (req w t c).
Definition DMC (mc : world -> task -> outcome Z) : Prop := forall w t, D None w -> okD (mc w t).

Lemma exec_prog_D req : DREQ req -> forall p w, D None w -> okD (exec_prog RC OC req p w).
Proof.
  intros Hreq. induction p as [o| |t c k IH|r c k IH|r c v k IH|r c v k IH]; intros w Hw; cbn [exec_prog].
  - exact Hw.
  - exact Hw.
  - apply bind_D; [apply Hreq; exact Hw|]. intros o w' Hw'. apply IH. exact Hw'.
  - apply bind_D; [apply (quietO_D w); [apply sess_read_quiet|exact Hw]|]. intros x w' Hw'. apply IH. exact Hw'.
  - apply bind_D; [apply (quietO_D w); [apply sess_write_quiet|exact Hw]|]. intros x w' Hw'. apply IH. exact Hw'.
  - apply bind_D; [apply (quietO_D w); [apply sess_written_to_quiet|exact Hw]|]. intros x w' Hw'. apply IH. exact Hw'.
Qed.

Lemma exec_start_D w t : D (Some t) w -> D None (emit (set_cur (reset_task w t) (Some t)) (EExecStart t)).
Proof.
  intros [seg [A1 A2]]. exists (EExecStart t :: seg). split; [cbn; rewrite A1; reflexivity|].
  intros x X. apply pending_start in X. destruct X as [Hx X]. destruct (A2 x X) as [Y|Y]; [left; exact Y|inversion Y; congruence].
Qed.

Lemma execute_with_D req w t : DREQ req -> D (Some t) w -> okD (execute_with RC OC P req w t).
Proof.
  intros Hreq Hw. unfold execute_with. apply bind_D.
  - apply exec_prog_D; [exact Hreq|]. apply exec_start_D. exact Hw.
  - intros o w3 H3. cbn. eapply quietq_D; [|exact H3].
    split; [exists [EExecEnd t o]; split; [reflexivity|constructor; [reflexivity|constructor]]|reflexivity].
Qed.

Lemma require_with_D mc : DMC mc -> DREQ (require_with OC mc).
Proof.
  intros Hmc w t c Hw. unfold require_with.
  assert (H2 : D None (get_or_create_task_node (emit w (ERequireStart t c)) t)).
  { eapply quiet_D; [|exact Hw]. eapply quiet_trans; [|apply quiet_goc_task]; [apply quiet_emit; reflexivity]. }
  apply bind_D; [apply (quietO_D _ _ (reserve_quiet _ t) H2)|]. intros _ w3 H3.
  apply bind_D; [apply Hmc; exact H3|]. intros o w4 H4.
  assert (H5 : D None (emit w4 (ERequireEnd t c (oc_stamp (OC c) o) o))) by (eapply quiet_D; [apply quiet_emit; reflexivity|exact H4]).
  apply bind_D; [apply (quietO_D _ _ (update_quiet _ t c _) H5)|]. intros _ w6 H6. exact H6.
Qed.

Lemma mark_D a w t : D a w -> D a (mark_consistent w t).
Proof. apply quiet_D. apply quiet_same; reflexivity. Qed.

Lemma require_bu_with_D mc : DMC mc -> DREQ (require_bu_with OC mc).
Proof.
  intros Hmc w t c Hw. unfold require_bu_with. apply bind_D; [apply require_with_D; assumption|].
  intros o w' H'. cbn. apply mark_D. exact H'.
Qed.

(* scheduling: [w2] is [w] after one plain event (and possibly a pushed error) *)
Lemma sched_D w w2 t e : D None w -> plain e = true -> trace w2 = e :: trace w -> queue w2 = queue w ->
  D None (queue_add (emit w2 (ESchedTask t)) t).
Proof.
  intros [seg [A1 A2]] Pe T Q. exists (ESchedTask t :: e :: seg). split.
  - unfold queue_add. destruct (memN _ _); cbn; rewrite T, A1; reflexivity.
  - intros x X. left. apply pending_sched in X.
    assert (QA : forall y, In y (queue w) \/ y = t -> In y (queue (queue_add (emit w2 (ESchedTask t)) t))).
    { intros y Y. unfold queue_add. cbn [queue emit]. destruct (memN t (queue w2)) eqn:M; cbn [queue set_queue emit].
      - rewrite Q. destruct Y as [Y| ->]; [exact Y|]. rewrite Q in M. apply memN_In. exact M.
      - rewrite Q. apply in_or_app. destruct Y as [Y| ->]; [left; exact Y|right; left; reflexivity]. }
    apply QA. destruct X as [->|X]; [right; reflexivity|]. left.
    apply (pending_plain e) in X; [|exact Pe]. destruct (A2 x X) as [Y|Y]; [exact Y|discriminate].
Qed.

Lemma try_schedule_D w t r c st : D None w -> D None (try_schedule RC w t r c st).
Proof.
  intros Hw. unfold try_schedule. cbv zeta.
  set (w1 := emit w (ECheckReadResStart t c st)).
  assert (H1 : D None w1) by (eapply quiet_D; [apply quiet_emit; reflexivity|exact Hw]).
  destruct (rc_check (RC c) (env w1) r (get_content w1 r) st) as [| |e] eqn:X.
  - eapply quiet_D; [apply quiet_emit; reflexivity|exact H1].
  - apply (sched_D w1 _ t (ECheckReadResEnd t c st Inconsistent)); [exact H1|reflexivity|reflexivity|reflexivity].
  - apply (sched_D w1 _ t (ECheckReadResEnd t c st (CErr e))); [exact H1|reflexivity|reflexivity|reflexivity].
Qed.
Lemma try_schedule_edge_D b w p : D None w -> D None (try_schedule_edge RC b w p).
Proof.
  intros Hw. unfold try_schedule_edge. destruct (snd p) as [[|t c st|r c st|r c st]|]; try exact Hw.
  - apply try_schedule_D; exact Hw.
  - destruct b; [exact Hw|apply try_schedule_D; exact Hw].
Qed.
Lemma fold_D {X} (f : world -> X -> world) l : (forall w x, D None w -> D None (f w x)) -> forall w, D None w -> D None (fold_left f l w).
Proof. intros Hf. induction l as [|x tl IH]; intros w Hw; cbn [fold_left]; [exact Hw|apply IH, Hf; exact Hw]. Qed.
Lemma schedule_tasks_affected_by_D w r : D None w -> D None (schedule_tasks_affected_by RC w r).
Proof.
  intros Hw. unfold schedule_tasks_affected_by. cbv zeta.
  eapply quiet_D; [apply quiet_emit; reflexivity|]. apply fold_D; [intros; apply try_schedule_edge_D; assumption|].
  eapply quiet_D; [|exact Hw]. eapply quiet_trans; [|apply quiet_goc_res]; [apply quiet_emit; reflexivity].
Qed.
Lemma schedule_by_written_D w r : D None w -> D None (schedule_by_written RC w r).
Proof.
  intros Hw. unfold schedule_by_written. cbv zeta.
  eapply quiet_D; [apply quiet_emit; reflexivity|]. apply fold_D; [intros; apply try_schedule_edge_D; assumption|].
  eapply quiet_D; [apply quiet_emit; reflexivity|exact Hw].
Qed.
Lemma schedule_requirer_D o w p : D None w -> D None (schedule_requirer OC o w p).
Proof.
  intros Hw. unfold schedule_requirer. destruct (snd p) as [[|t c st|r c st|r c st]|]; try exact Hw. cbv zeta.
  set (rq := un (fst p)). set (w1 := emit w (ECheckReqTaskStart rq c st)).
  assert (H1 : D None w1) by (eapply quiet_D; [apply quiet_emit; reflexivity|exact Hw]).
  destruct (oc_check (OC c) o st).
  - eapply quiet_D; [apply quiet_emit; reflexivity|exact H1].
  - apply (sched_D w1 _ rq (ECheckReqTaskEnd rq c st (negb false))); [exact H1|reflexivity|reflexivity|reflexivity].
Qed.
Lemma schedule_after_D w t o : D None w -> D None (schedule_after RC OC w t o).
Proof.
  intros Hw. unfold schedule_after. cbv zeta. apply mark_D.
  eapply quiet_D; [apply quiet_emit; reflexivity|]. apply fold_D; [intros; apply schedule_requirer_D; assumption|].
  eapply quiet_D; [apply quiet_emit; reflexivity|]. apply fold_D; [intros; apply schedule_by_written_D; assumption|exact Hw].
Qed.

(* ---- the queue ---- *)
Lemma In_removeN_other t x l : In x l -> x <> t -> In x (removeN t l).
Proof. intros X Hx. unfold removeN. apply filter_In. split; [exact X|]. destruct (N.eqb_spec t x); [congruence|reflexivity]. Qed.
Lemma sort_queue_In2 w x : In x (queue w) -> In x (sort_queue w).
Proof. unfold sort_queue. apply Permutation_in. apply Permutation_sym. apply sort_by_perm. Qed.

Lemma pop_D w t : D None w -> D (Some t) (set_queue w (removeN t (sort_queue w))).
Proof.
  intros [seg [A1 A2]]. exists seg. split; [exact A1|]. intros x X. destruct (A2 x X) as [Y|Y]; [|discriminate].
  destruct (N.eq_dec x t) as [->|Hx]; [right; reflexivity|left]. cbn. apply In_removeN_other; [apply sort_queue_In2; exact Y|exact Hx].
Qed.
Lemma queue_pop_D w t w' : D None w -> queue_pop w = Some (t, w') -> D (Some t) w'.
Proof. unfold queue_pop. destruct (rev (sort_queue w)); [discriminate|]. intros Hw H. inversion H; subst. apply pop_D. exact Hw. Qed.
Lemma pop_least_D w s t w' : D None w -> pop_least_from w s = Some (t, w') -> D (Some t) w'.
Proof. unfold pop_least_from. destruct (find _ _); [|discriminate]. intros Hw H. inversion H; subst. apply pop_D. exact Hw. Qed.

Theorem bottom_up_D fuel :
  (forall w t, D (Some t) w -> okD (bu_execute_and_schedule RC OC P fuel w t)) /\
  DMC (bu_make_consistent RC OC P fuel) /\
  (forall w t, D None w -> okD (bu_require_scheduled_now RC OC P fuel w t)).
Proof.
  induction fuel as [|f [IH1 [IH2 IH3]]]; [repeat split; intros; exact Logic.I|].
  assert (Hreq : DREQ (require_bu_with OC (bu_make_consistent RC OC P f))) by (apply require_bu_with_D; exact IH2).
  split; [|split].
  - intros w t Hw. cbn [bu_execute_and_schedule]. apply bind_D; [apply execute_with_D; assumption|].
    intros o w1 H1. cbn [okD]. apply schedule_after_D. exact H1.
  - intros w t Hw. cbn [bu_make_consistent]. destruct (memN t (consistent w)); [destruct (get_task_output w t); exact Hw|].
    destruct ((match get_task_output w t with None => true | Some _ => false end) && negb (memN t (queue w)))%bool;
      [apply execute_with_D; [exact Hreq|apply D_weaken; exact Hw]|].
    apply bind_D; [apply IH3; exact Hw|]. intros r w1 H1. destruct r; [exact H1|]. destruct (get_task_output w1 t); exact H1.
  - intros w t Hw. cbn [bu_require_scheduled_now]. destruct (queue w); [exact Hw|].
    destruct (pop_least_from w t) as [[m w1]|] eqn:X; [|exact Hw].
    apply bind_D; [apply IH1; eapply pop_least_D; eassumption|]. intros o w2 H2. destruct (N.eqb m t); [exact H2|apply IH3; exact H2].
Qed.

(* the main loop: on completion the invariant holds AND the queue is empty *)
Theorem execute_scheduled_D fuel : forall w, D None w ->
  match execute_scheduled RC OC P fuel w with
  | Done _ w' => D None w' /\ queue w' = []
  | Abort _ w' => D None w'
  | OutOfFuel => True
  end.
Proof.
  induction fuel as [|f IH]; intros w Hw; cbn [execute_scheduled]; [exact Logic.I|].
  destruct (queue_pop w) as [[t w1]|] eqn:X.
  - pose proof (proj1 (bottom_up_D f) w1 t (queue_pop_D w t w1 Hw X)) as Y.
    destruct (bu_execute_and_schedule RC OC P f w1 t) as [o w2|k w2|]; cbn [bind okD] in *; [apply IH; exact Y|exact Y|exact Logic.I].
  - split; [exact Hw|]. unfold queue_pop in X. destruct (rev (sort_queue w)) as [|y tl] eqn:E; [|discriminate].
    assert (S0 : sort_queue w = []). { rewrite <- (rev_involutive (sort_queue w)), E. reflexivity. }
    destruct (queue w) as [|q tl] eqn:Q; [reflexivity|]. exfalso.
    assert (In q (sort_queue w)) by (apply sort_queue_In2; rewrite Q; left; reflexivity). rewrite S0 in H. exact H.
Qed.

End BD.

Section Top.
Variable RC : rcid -> rchecker.
Variable OC : ocid -> ochecker.
Variable P : task -> prog.

(* a bottom-up build that completes has executed every task it scheduled, after scheduling it *)
Theorem bottom_up_executes_all_scheduled fuel w ch u w' :
  session_bottom_up RC OC P fuel w ch = Done u w' ->
  exists seg, trace w' = seg ++ trace w /\
    forall t pre post, seg = pre ++ ESchedTask t :: post -> In (EExecStart t) pre.
Proof.
  unfold session_bottom_up. cbv zeta.
  set (w1 := fold_left (schedule_tasks_affected_by RC) ch (set_queue w [])).
  assert (H1 : D (trace w) None w1).
  { apply fold_D; [intros; apply schedule_tasks_affected_by_D; assumption|]. exists []. split; [reflexivity|]. intros t X. destruct (pending_nil t X). }
  assert (H2 : D (trace w) None (emit (set_cur w1 None) EBuildStart)).
  { eapply quiet_D; [|exact H1]. eapply quiet_trans; [apply (quiet_same w1 (set_cur w1 None)); reflexivity|apply quiet_emit; reflexivity]. }
  pose proof (execute_scheduled_D RC OC P (trace w) fuel _ H2) as X.
  destruct (execute_scheduled RC OC P fuel (emit (set_cur w1 None) EBuildStart)) as [x w3|k w3|]; cbn [bind]; try discriminate.
  intros H. inversion H; subst w'. clear H. destruct X as [[seg [A1 A2]] Q].
  exists (EBuildEnd :: seg). split; [cbn; rewrite A1; reflexivity|].
  intros t pre post E.
  destruct (In_start_dec t pre) as [Y|Y]; [exact Y|exfalso].
  assert (Pd : pending (EBuildEnd :: seg) t) by (exists pre, post; split; assumption).
  apply (pending_plain EBuildEnd) in Pd; [|reflexivity]. destruct (A2 t Pd) as [Z|Z]; [|discriminate]. rewrite Q in Z. exact Z.
Qed.

End Top.

(* C04, global form of "only affected tasks run": in ANY bottom-up build (completed or aborted, from any store, for all
   programs and checkers), every task execution is justified -- the task was scheduled earlier in this build, or it had no
   output when the build started (it is required for the first time) -- and every scheduling is justified: the event
   directly before ESchedTask t is the end of a dependency check of t whose checker reported "inconsistent" or failed.
   Contrapositive: a task with an output, none of whose dependency checks reports inconsistency in the build, is not executed. *)
From Coq Require Import List NArith ZArith Bool Lia.
From PieV Require Import Model.Dag Model.Build Proofs.Sorting Proofs.ExecInv.
Import ListNotations.
Open Scope N_scope.

Definition plain (e : event) : bool := match e with ESchedTask _ | EExecStart _ => false | _ => true end.
(* the event directly before (older than) a scheduling of t *)
Definition incons_end (t : task) (e : event) : Prop :=
  match e with
  | ECheckReadResEnd t' _ _ x => t' = t /\ x <> Consistent
  | ECheckReqTaskEnd t' _ _ b => t' = t /\ b = true
  | _ => False
  end.
(* newest-first segment: every scheduling is directly preceded by an inconsistent / failed check of the scheduled task *)
Fixpoint SJ (tr : list event) : Prop :=
  match tr with
  | [] => True
  | ESchedTask t :: rest => match rest with e :: _ => incons_end t e | [] => False end /\ SJ rest
  | _ :: rest => SJ rest
  end.

Lemma SJ_plain e tr : plain e = true -> SJ tr -> SJ (e :: tr).
Proof. destruct e; cbn; try discriminate; intros _ H; exact H. Qed.
Lemma SJ_start t tr : SJ tr -> SJ (EExecStart t :: tr). Proof. intros H. exact H. Qed.
Lemma SJ_app seg tr : Forall (fun e => plain e = true) seg -> SJ tr -> SJ (seg ++ tr).
Proof. induction 1 as [|e seg He _ IH]; intros H; cbn [app]; [exact H|apply SJ_plain; [exact He|apply IH; exact H]]. Qed.

Section BJ.
Variable RC : rcid -> rchecker.
Variable OC : ocid -> ochecker.
Variable P : task -> prog.
Variable tb : list event.            (* the tracker stream when the build started *)
Variable o0 : list (task * Z).       (* the task outputs when the build started *)

Record Eseg (w : world) (seg : list event) : Prop := mkE {
  e_tr : trace w = seg ++ tb;
  e_queue : forall t, In t (queue w) -> In (ESchedTask t) seg;
  e_exec : forall t, In (EExecStart t) seg -> In (ESchedTask t) seg \/ alookup o0 t = None;
  e_out : forall t, get_task_output w t = None -> alookup o0 t = None \/ In (EExecStart t) seg;
  e_sj : SJ seg
}.
Definition E (w : world) : Prop := exists seg, Eseg w seg.
Definition okE {A} (m : outcome A) : Prop := match m with Done _ w' | Abort _ w' => E w' | OutOfFuel => True end.

Lemma bind_E {A B} (m : outcome A) (f : A -> world -> outcome B) : okE m -> (forall a w, E w -> okE (f a w)) -> okE (bind m f).
Proof. destruct m; cbn; intros H F; [apply F; exact H|exact H|exact Logic.I]. Qed.

(* steps that add only plain events and leave queue and outputs alone *)
Definition quiet (w w' : world) : Prop :=
  (exists seg, trace w' = seg ++ trace w /\ Forall (fun e => plain e = true) seg) /\ queue w' = queue w /\ outs w' = outs w.
Lemma quiet_refl w : quiet w w. Proof. split; [exists []; split; [reflexivity|constructor]|split; reflexivity]. Qed.
Lemma quiet_trans a b c : quiet a b -> quiet b c -> quiet a c.
Proof.
  intros [[s1 [T1 F1]] [Q1 O1]] [[s2 [T2 F2]] [Q2 O2]]. split; [|split; congruence].
  exists (s2 ++ s1). split; [rewrite T2, T1, app_assoc; reflexivity|apply Forall_app; split; assumption].
Qed.
Lemma quiet_same w w' : trace w' = trace w -> queue w' = queue w -> outs w' = outs w -> quiet w w'.
Proof. intros T Q O. split; [exists []; split; [exact T|constructor]|split; assumption]. Qed.
Lemma quiet_emit w e : plain e = true -> quiet w (emit w e).
Proof. intros H. split; [exists [e]; split; [reflexivity|constructor; [exact H|constructor]]|split; reflexivity]. Qed.
Lemma quiet_E w w' : quiet w w' -> E w -> E w'.
Proof.
  intros [[s [T F]] [Q O]] [seg [A1 A2 A3 A4 A5]]. exists (s ++ seg). constructor.
  - rewrite T, A1, app_assoc. reflexivity.
  - intros t X. rewrite Q in X. apply in_or_app. right. apply A2. exact X.
  - intros t X. apply in_app_or in X. destruct X as [X|X].
    + exfalso. rewrite Forall_forall in F. specialize (F _ X). discriminate.
    + destruct (A3 t X) as [Y|Y]; [left; apply in_or_app; right; exact Y|right; exact Y].
  - intros t X. unfold get_task_output in *. rewrite O in X. destruct (A4 t X) as [Y|Y]; [left; exact Y|right; apply in_or_app; right; exact Y].
  - apply SJ_app; assumption.
Qed.

Lemma quiet_goc_task w t : quiet w (get_or_create_task_node w t).
Proof. unfold get_or_create_task_node. destruct (live _ _); [apply quiet_refl|apply quiet_same; reflexivity]. Qed.
Lemma quiet_goc_res w r : quiet w (get_or_create_resource_node w r).
Proof. unfold get_or_create_resource_node. destruct (live _ _); [apply quiet_refl|apply quiet_same; reflexivity]. Qed.
Lemma quiet_add_dependency w s d dp : quiet w (snd (add_dependency w s d dp)).
Proof. unfold add_dependency. destruct (add_edge (gr w) s d dp) as [[b|[|]|] g']; apply quiet_same; reflexivity. Qed.
Lemma quiet_set_content w r v : quiet w (set_content w r v). Proof. destruct v; apply quiet_same; reflexivity. Qed.

Definition quietO {A} (w : world) (m : outcome A) : Prop := match m with Done _ w' | Abort _ w' => quiet w w' | OutOfFuel => True end.
Lemma quietO_E {A} w (m : outcome A) : quietO w m -> E w -> okE m.
Proof. destruct m; cbn; intros Q H; [eapply quiet_E; eassumption|eapply quiet_E; eassumption|exact Logic.I]. Qed.

Ltac qstep := first [ apply quiet_refl | eapply quiet_trans; [|first [apply quiet_emit; reflexivity | apply quiet_goc_res | apply quiet_goc_task | apply quiet_set_content]] ].

Lemma sess_read_quiet w r c : quietO w (sess_read RC w r c).
Proof.
  unfold sess_read. destruct (cur w) as [t|]; [|apply quiet_refl].
  assert (Q2 : quiet w (get_or_create_resource_node (emit w (EReadStart r c)) r)).
  { eapply quiet_trans; [|apply quiet_goc_res]; [apply quiet_emit; reflexivity]. }
  set (w2 := get_or_create_resource_node (emit w (EReadStart r c)) r) in *.
  destruct (hidden_read_check w2 t r); [exact Q2|]. destruct (rc_stamp _ _ _ _) as [st|e]; [|exact Q2].
  assert (Q3 : quiet w (snd (add_dependency (emit w2 (EReadEnd r c st)) (tn t) (rn r) (DRead r c st)))).
  { eapply quiet_trans; [exact Q2|]. eapply quiet_trans; [|apply quiet_add_dependency]; [apply quiet_emit; reflexivity]. }
  destruct (add_dependency _ _ _ _) as [[| |] w4]; exact Q3.
Qed.
Lemma sess_write_quiet w r c v : quietO w (sess_write RC w r c v).
Proof.
  unfold sess_write. destruct (cur w) as [t|]; [|apply quiet_set_content].
  assert (Q2 : quiet w (get_or_create_resource_node (emit w (EWriteStart r c)) r)).
  { eapply quiet_trans; [|apply quiet_goc_res]; [apply quiet_emit; reflexivity]. }
  set (w2 := get_or_create_resource_node (emit w (EWriteStart r c)) r) in *.
  destruct (validate_write w2 t r); [exact Q2|].
  assert (Q3 : quiet w (set_content w2 r v)) by (eapply quiet_trans; [exact Q2|apply quiet_set_content]).
  destruct (rc_stamp _ _ _ _) as [st|e]; [|exact Q3].
  assert (Q4 : quiet w (snd (add_dependency (emit (set_content w2 r v) (EWriteEnd r c st)) (tn t) (rn r) (DWrite r c st)))).
  { eapply quiet_trans; [exact Q3|]. eapply quiet_trans; [|apply quiet_add_dependency]; [apply quiet_emit; reflexivity]. }
  destruct (add_dependency _ _ _ _) as [[| |] w4]; exact Q4.
Qed.
Lemma sess_written_to_quiet w r c v : quietO w (sess_written_to RC w r c v).
Proof.
  unfold sess_written_to.
  assert (Q0 : quiet w (set_content w r v)) by apply quiet_set_content.
  set (w0 := set_content w r v) in *.
  destruct (cur w0) as [t|]; [|exact Q0].
  assert (Q2 : quiet w (get_or_create_resource_node (emit w0 (EWriteStart r c)) r)).
  { eapply quiet_trans; [exact Q0|]. eapply quiet_trans; [|apply quiet_goc_res]; [apply quiet_emit; reflexivity]. }
  set (w2 := get_or_create_resource_node (emit w0 (EWriteStart r c)) r) in *.
  destruct (validate_write w2 t r); [exact Q2|].
  destruct (rc_stamp _ _ _ _) as [st|e]; [|exact Q2].
  assert (Q4 : quiet w (snd (add_dependency (emit w2 (EWriteEnd r c st)) (tn t) (rn r) (DWrite r c st)))).
  { eapply quiet_trans; [exact Q2|]. eapply quiet_trans; [|apply quiet_add_dependency]; [apply quiet_emit; reflexivity]. }
  destruct (add_dependency _ _ _ _) as [[| |] w4]; exact Q4.
Qed.
Lemma reserve_quiet w t : quietO w (reserve_require_dependency w t).
Proof.
  unfold reserve_require_dependency. destruct (cur w) as [s|]; [|apply quiet_refl].
  pose proof (quiet_add_dependency w (tn s) (tn t) DReserved) as Q. destruct (add_dependency _ _ _ _) as [[| |] w']; exact Q.
Qed.
Lemma update_quiet w t c st : quietO w (update_require_dependency w t c st).
Proof.
  unfold update_require_dependency. destruct (cur w) as [s|]; [|apply quiet_refl].
  destruct (get_edata _ _ _); [apply quiet_same; reflexivity|apply quiet_refl].
Qed.

(* ---- interpreters ---- *)
Definition EREQ (req : world -> task -> ocid -> outcome Z) : Prop := forall w t c, E w -> okE (req w t c).
Definition EMC (mc : world -> task -> outcome Z) : Prop := forall w t, E w -> okE (mc w t).

Lemma exec_prog_E req : EREQ req -> forall p w, E w -> okE (exec_prog RC OC req p w).
Proof.
  intros Hreq. induction p as [o| |t c k IH|r c k IH|r c v k IH|r c v k IH]; intros w Hw; cbn [exec_prog].
  - exact Hw.
  - exact Hw.
  - apply bind_E; [apply Hreq; exact Hw|]. intros o w' Hw'. apply IH. exact Hw'.
  - apply bind_E; [apply (quietO_E w); [apply sess_read_quiet|exact Hw]|]. intros x w' Hw'. apply IH. exact Hw'.
  - apply bind_E; [apply (quietO_E w); [apply sess_write_quiet|exact Hw]|]. intros x w' Hw'. apply IH. exact Hw'.
  - apply bind_E; [apply (quietO_E w); [apply sess_written_to_quiet|exact Hw]|]. intros x w' Hw'. apply IH. exact Hw'.
Qed.

(* the justification of an execution of t in world w *)
Definition Just (w : world) (t : task) : Prop :=
  forall seg, trace w = seg ++ tb -> In (ESchedTask t) seg \/ get_task_output w t = None.

Lemma exec_start_E w t : E w -> Just w t -> E (emit (set_cur (reset_task w t) (Some t)) (EExecStart t)).
Proof.
  intros [seg [A1 A2 A3 A4 A5]] HJ. exists (EExecStart t :: seg). constructor.
  - cbn. rewrite A1. reflexivity.
  - intros x X. right. apply A2. exact X.
  - intros x [X|X].
    + inversion X; subst x. destruct (HJ seg A1) as [Y|Y]; [left; right; exact Y|].
      destruct (A4 t Y) as [Z|Z]; [right; exact Z|]. destruct (A3 t Z) as [U|U]; [left; right; exact U|right; exact U].
    + destruct (A3 x X) as [Y|Y]; [left; right; exact Y|right; exact Y].
  - intros x X. destruct (N.eq_dec x t) as [->|Hx]; [right; left; reflexivity|].
    change (alookup (aremove (outs w) t) x = None) in X. rewrite (alookup_aremove_other _ _ _ Hx) in X.
    destruct (A4 x X) as [Y|Y]; [left; exact Y|right; right; exact Y].
  - exact A5.
Qed.

Lemma exec_end_E w t o c : E w -> E (set_task_output (set_cur (emit w (EExecEnd t o)) c) t o).
Proof.
  intros [seg [A1 A2 A3 A4 A5]]. exists (EExecEnd t o :: seg). constructor.
  - cbn. rewrite A1. reflexivity.
  - intros x X. right. apply A2. exact X.
  - intros x [X|X]; [discriminate|]. destruct (A3 x X) as [Y|Y]; [left; right; exact Y|right; exact Y].
  - intros x X. change (alookup (aset (outs w) t o) x = None) in X. destruct (N.eq_dec x t) as [->|Hx]; [rewrite alookup_aset_eq in X; discriminate|].
    rewrite (alookup_aset_other _ _ _ _ Hx) in X. destruct (A4 x X) as [Y|Y]; [left; exact Y|right; right; exact Y].
  - exact A5.
Qed.

Lemma execute_with_E req w t : EREQ req -> E w -> Just w t -> okE (execute_with RC OC P req w t).
Proof.
  intros Hreq Hw HJ. unfold execute_with. apply bind_E.
  - apply exec_prog_E; [exact Hreq|]. apply exec_start_E; assumption.
  - intros o w3 H3. cbn. apply exec_end_E. exact H3.
Qed.

Lemma require_with_E mc : EMC mc -> EREQ (require_with OC mc).
Proof.
  intros Hmc w t c Hw. unfold require_with.
  assert (H2 : E (get_or_create_task_node (emit w (ERequireStart t c)) t)).
  { eapply quiet_E; [|exact Hw]. eapply quiet_trans; [|apply quiet_goc_task]; [apply quiet_emit; reflexivity]. }
  apply bind_E; [apply (quietO_E _ _ (reserve_quiet _ t) H2)|]. intros _ w3 H3.
  apply bind_E; [apply Hmc; exact H3|]. intros o w4 H4.
  assert (H5 : E (emit w4 (ERequireEnd t c (oc_stamp (OC c) o) o))) by (eapply quiet_E; [apply quiet_emit; reflexivity|exact H4]).
  apply bind_E; [apply (quietO_E _ _ (update_quiet _ t c _) H5)|]. intros _ w6 H6. exact H6.
Qed.

Lemma mark_E w t : E w -> E (mark_consistent w t).
Proof. apply quiet_E. apply quiet_same; reflexivity. Qed.

Lemma require_bu_with_E mc : EMC mc -> EREQ (require_bu_with OC mc).
Proof.
  intros Hmc w t c Hw. unfold require_bu_with. apply bind_E; [apply require_with_E; assumption|].
  intros o w' H'. cbn. apply mark_E. exact H'.
Qed.

(* ---- scheduling ---- *)
Lemma sched_E w w2 t e :
  E w -> plain e = true -> incons_end t e -> trace w2 = e :: trace w -> queue w2 = queue w -> outs w2 = outs w ->
  E (queue_add (emit w2 (ESchedTask t)) t).
Proof.
  intros [seg [A1 A2 A3 A4 A5]] Pe He T Q O. exists (ESchedTask t :: e :: seg).
  assert (TQ : trace (queue_add (emit w2 (ESchedTask t)) t) = ESchedTask t :: e :: seg ++ tb).
  { unfold queue_add. destruct (memN _ _); cbn; rewrite T, A1; reflexivity. }
  assert (OQ : outs (queue_add (emit w2 (ESchedTask t)) t) = outs w).
  { unfold queue_add. destruct (memN _ _); cbn; exact O. }
  constructor.
  - exact TQ.
  - intros x X. unfold queue_add in X. cbn [queue emit] in X.
    assert (Y : In x (queue w) \/ x = t).
    { destruct (memN t (queue w2)); cbn in X; [left; rewrite <- Q; exact X|].
      apply in_app_or in X. destruct X as [X|[X|[]]]; [left; rewrite <- Q; exact X|right; symmetry; exact X]. }
    destruct Y as [Y| ->]; [right; right; apply A2; exact Y|left; reflexivity].
  - intros x [X|[X|X]]; [discriminate|subst e; discriminate|].
    destruct (A3 x X) as [Y|Y]; [left; right; right; exact Y|right; exact Y].
  - intros x X. unfold get_task_output in *. rewrite OQ in X. destruct (A4 x X) as [Y|Y]; [left; exact Y|right; right; right; exact Y].
  - cbn [SJ]. split; [exact He|]. apply SJ_plain; assumption.
Qed.

Lemma try_schedule_E w t r c st : E w -> E (try_schedule RC w t r c st).
Proof.
  intros Hw. unfold try_schedule. cbv zeta.
  set (w1 := emit w (ECheckReadResStart t c st)).
  assert (H1 : E w1) by (eapply quiet_E; [apply quiet_emit; reflexivity|exact Hw]).
  destruct (rc_check (RC c) (env w1) r (get_content w1 r) st) as [| |e] eqn:X.
  - eapply quiet_E; [apply quiet_emit; reflexivity|exact H1].
  - apply (sched_E w1 _ t (ECheckReadResEnd t c st Inconsistent)); [exact H1|reflexivity|split; [reflexivity|discriminate]|reflexivity|reflexivity|reflexivity].
  - apply (sched_E w1 _ t (ECheckReadResEnd t c st (CErr e))); [exact H1|reflexivity|split; [reflexivity|discriminate]|reflexivity|reflexivity|reflexivity].
Qed.

Lemma try_schedule_edge_E b w p : E w -> E (try_schedule_edge RC b w p).
Proof.
  intros Hw. unfold try_schedule_edge. destruct (snd p) as [[|t c st|r c st|r c st]|]; try exact Hw.
  - apply try_schedule_E; exact Hw.
  - destruct b; [exact Hw|apply try_schedule_E; exact Hw].
Qed.

Lemma fold_E {X} (f : world -> X -> world) l : (forall w x, E w -> E (f w x)) -> forall w, E w -> E (fold_left f l w).
Proof. intros Hf. induction l as [|x tl IH]; intros w Hw; cbn [fold_left]; [exact Hw|apply IH, Hf; exact Hw]. Qed.

Lemma schedule_tasks_affected_by_E w r : E w -> E (schedule_tasks_affected_by RC w r).
Proof.
  intros Hw. unfold schedule_tasks_affected_by. cbv zeta.
  eapply quiet_E; [apply quiet_emit; reflexivity|]. apply fold_E; [intros; apply try_schedule_edge_E; assumption|].
  eapply quiet_E; [|exact Hw]. eapply quiet_trans; [|apply quiet_goc_res]; [apply quiet_emit; reflexivity].
Qed.

Lemma schedule_by_written_E w r : E w -> E (schedule_by_written RC w r).
Proof.
  intros Hw. unfold schedule_by_written. cbv zeta.
  eapply quiet_E; [apply quiet_emit; reflexivity|]. apply fold_E; [intros; apply try_schedule_edge_E; assumption|].
  eapply quiet_E; [apply quiet_emit; reflexivity|exact Hw].
Qed.

Lemma schedule_requirer_E o w p : E w -> E (schedule_requirer OC o w p).
Proof.
  intros Hw. unfold schedule_requirer. destruct (snd p) as [[|t c st|r c st|r c st]|]; try exact Hw. cbv zeta.
  set (rq := un (fst p)). set (w1 := emit w (ECheckReqTaskStart rq c st)).
  assert (H1 : E w1) by (eapply quiet_E; [apply quiet_emit; reflexivity|exact Hw]).
  destruct (oc_check (OC c) o st).
  - eapply quiet_E; [apply quiet_emit; reflexivity|exact H1].
  - apply (sched_E w1 _ rq (ECheckReqTaskEnd rq c st (negb false))); [exact H1|reflexivity|split; reflexivity|reflexivity|reflexivity|reflexivity].
Qed.

Lemma schedule_after_E w t o : E w -> E (schedule_after RC OC w t o).
Proof.
  intros Hw. unfold schedule_after. cbv zeta. apply mark_E.
  eapply quiet_E; [apply quiet_emit; reflexivity|]. apply fold_E; [intros; apply schedule_requirer_E; assumption|].
  eapply quiet_E; [apply quiet_emit; reflexivity|]. apply fold_E; [intros; apply schedule_by_written_E; assumption|exact Hw].
Qed.

(* ---- the queue ---- *)
Lemma In_removeN' t x l : In x (removeN t l) -> In x l.
Proof. unfold removeN. intros X. apply filter_In in X. tauto. Qed.

Lemma pop_E w (q : list task) : (forall x, In x q -> In x (queue w)) -> E w -> E (set_queue w q).
Proof.
  intros Hq [seg [A1 A2 A3 A4 A5]]. exists seg. constructor; [exact A1| |exact A3|exact A4|exact A5].
  intros x X. apply A2. apply Hq. exact X.
Qed.
Lemma queued_just w t : E w -> In t (queue w) -> Just w t.
Proof.
  intros [seg [A1 A2 _ _ _]] Hin seg' T. left. rewrite A1 in T. apply app_inv_tail in T. subst seg'. apply A2. exact Hin.
Qed.
Lemma just_frame w w' t : trace w' = trace w -> outs w' = outs w -> Just w t -> Just w' t.
Proof. intros T O HJ seg X. rewrite T in X. unfold get_task_output. rewrite O. apply HJ. exact X. Qed.

Lemma sort_queue_In' w x : In x (sort_queue w) -> In x (queue w).
Proof. unfold sort_queue. apply Permutation.Permutation_in. apply Proofs.Sorting.sort_by_perm. Qed.

Lemma queue_pop_E w t w' : E w -> queue_pop w = Some (t, w') -> E w' /\ Just w' t.
Proof.
  unfold queue_pop. intros Hw. destruct (rev (sort_queue w)) as [|x tl] eqn:X; [discriminate|]. intros H. inversion H; subst x w'. clear H.
  assert (Xt : In t (queue w)). { apply sort_queue_In'. apply in_rev. rewrite X. left. reflexivity. }
  split; [apply pop_E; [intros y Y; apply sort_queue_In'; eapply In_removeN'; exact Y|exact Hw]|].
  apply (just_frame w); [reflexivity|reflexivity|apply queued_just; assumption].
Qed.
Lemma pop_least_E w s t w' : E w -> pop_least_from w s = Some (t, w') -> E w' /\ Just w' t.
Proof.
  unfold pop_least_from. intros Hw. destruct (find _ _) as [x|] eqn:X; [|discriminate]. intros H. inversion H; subst x w'. clear H.
  assert (Xt : In t (queue w)). { apply sort_queue_In'. apply in_rev. apply (find_some _ _ X). }
  split; [apply pop_E; [intros y Y; apply sort_queue_In'; eapply In_removeN'; exact Y|exact Hw]|].
  apply (just_frame w); [reflexivity|reflexivity|apply queued_just; assumption].
Qed.

Theorem bottom_up_E fuel :
  (forall w t, E w -> Just w t -> okE (bu_execute_and_schedule RC OC P fuel w t)) /\
  EMC (bu_make_consistent RC OC P fuel) /\
  (forall w t, E w -> okE (bu_require_scheduled_now RC OC P fuel w t)).
Proof.
  induction fuel as [|f [IH1 [IH2 IH3]]]; [repeat split; intros; exact Logic.I|].
  assert (Hreq : EREQ (require_bu_with OC (bu_make_consistent RC OC P f))) by (apply require_bu_with_E; exact IH2).
  split; [|split].
  - intros w t Hw HJ. cbn [bu_execute_and_schedule]. apply bind_E; [apply execute_with_E; assumption|].
    intros o w1 H1. cbn [okE]. apply schedule_after_E. exact H1.
  - intros w t Hw. cbn [bu_make_consistent]. destruct (memN t (consistent w)).
    + destruct (get_task_output w t); exact Hw.
    + destruct (get_task_output w t) as [o|] eqn:Ho; cbn [andb].
      * apply bind_E; [apply IH3; exact Hw|]. intros r w1 H1. destruct r; [exact H1|]. destruct (get_task_output w1 t); exact H1.
      * destruct (negb (memN t (queue w))).
        -- apply execute_with_E; [exact Hreq|exact Hw|]. intros seg _. right. exact Ho.
        -- apply bind_E; [apply IH3; exact Hw|]. intros r w1 H1. destruct r; [exact H1|]. destruct (get_task_output w1 t); exact H1.
  - intros w t Hw. cbn [bu_require_scheduled_now]. destruct (queue w); [exact Hw|].
    destruct (pop_least_from w t) as [[m w1]|] eqn:X; [|exact Hw].
    destruct (pop_least_E w t m w1 Hw X) as [H1 J1].
    apply bind_E; [apply IH1; assumption|]. intros o w2 H2. destruct (N.eqb m t); [exact H2|apply IH3; exact H2].
Qed.

Theorem execute_scheduled_E fuel : forall w, E w -> okE (execute_scheduled RC OC P fuel w).
Proof.
  induction fuel as [|f IH]; intros w Hw; cbn [execute_scheduled]; [exact Logic.I|].
  destruct (queue_pop w) as [[t w1]|] eqn:X; [|exact Hw].
  destruct (queue_pop_E w t w1 Hw X) as [H1 J1].
  apply bind_E; [apply (proj1 (bottom_up_E f)); assumption|]. intros _ w2 H2. apply IH. exact H2.
Qed.

End BJ.

Section Top.
Variable RC : rcid -> rchecker.
Variable OC : ocid -> ochecker.
Variable P : task -> prog.

Lemma E_start w : E (trace w) (outs w) (set_queue w []).
Proof.
  exists []. constructor; [reflexivity|intros t []|intros t []|intros t X; left; exact X|exact Logic.I].
Qed.

(* the statement about a whole bottom-up build, completed or aborted, from ANY world *)
Theorem bottom_up_executions_justified fuel w ch :
  match session_bottom_up RC OC P fuel w ch with
  | Done _ w' | Abort _ w' =>
    exists seg, trace w' = seg ++ trace w /\
      (forall t, In (EExecStart t) seg -> In (ESchedTask t) seg \/ get_task_output w t = None) /\
      SJ seg
  | OutOfFuel => True
  end.
Proof.
  unfold session_bottom_up. cbv zeta.
  set (w1 := fold_left (schedule_tasks_affected_by RC) ch (set_queue w [])).
  assert (H1 : E (trace w) (outs w) w1).
  { apply fold_E; [intros; apply schedule_tasks_affected_by_E; assumption|apply E_start]. }
  assert (H2 : E (trace w) (outs w) (emit (set_cur w1 None) EBuildStart)).
  { eapply quiet_E; [|exact H1]. eapply quiet_trans; [apply quiet_same; reflexivity|apply (quiet_emit (set_cur w1 None)); reflexivity]. }
  pose proof (execute_scheduled_E RC OC P (trace w) (outs w) fuel _ H2) as X.
  destruct (execute_scheduled RC OC P fuel (emit (set_cur w1 None) EBuildStart)) as [u w3|k w3|]; cbn [bind okE] in *; [| |exact Logic.I].
  - assert (X' : E (trace w) (outs w) (emit w3 EBuildEnd)) by (eapply quiet_E; [apply quiet_emit; reflexivity|exact X]).
    destruct X' as [seg [A1 _ A3 _ A5]]. exists seg. split; [exact A1|]. split; [exact A3|exact A5].
  - destruct X as [seg [A1 _ A3 _ A5]]. exists seg. split; [exact A1|]. split; [exact A3|exact A5].
Qed.

(* contrapositive reading: a task that has an output when the build starts and is never scheduled in the build is not executed *)
Corollary unaffected_not_executed fuel w ch t o :
  get_task_output w t = Some o ->
  match session_bottom_up RC OC P fuel w ch with
  | Done _ w' | Abort _ w' =>
    exists seg, trace w' = seg ++ trace w /\ (~ In (ESchedTask t) seg -> ~ In (EExecStart t) seg)
  | OutOfFuel => True
  end.
Proof.
  intros Ho. pose proof (bottom_up_executions_justified fuel w ch) as X.
  destruct (session_bottom_up RC OC P fuel w ch) as [u w'|k w'|]; [| |exact Logic.I];
    destruct X as [seg [A1 [A2 _]]]; exists seg; (split; [exact A1|]); intros NS HX; destruct (A2 t HX) as [Y|Y]; try contradiction; congruence.
Qed.

End Top.

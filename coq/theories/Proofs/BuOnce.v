(* C04, the at-most-once clause, partial but global: in ANY bottom-up build (completed or aborted, any world, all programs and
   checkers) a second execution of a task t can only start if, since the previous start of t, either t was scheduled again or
   that previous execution has not ended.  I.e. the queue bookkeeping and the "new task" shortcut never duplicate an execution
   (this is exactly what failed before the repair of O14: a scheduled task without output was run as "new" and again from the
   queue).  What remains outside this theorem: that a consistent task is not scheduled again (needs the hidden-dependency
   argument of the class) and that an executing task is not re-entered (the cycle check). *)
From Coq Require Import List NArith ZArith Bool Lia Permutation.
From PieV Require Import Model.Dag Model.Build Proofs.DagLib Proofs.Sorting Proofs.ExecInv Proofs.BuJust.
Import ListNotations.
Open Scope N_scope.

Definition is_start (t : task) (e : event) : bool := match e with EExecStart x => N.eqb x t | _ => false end.
(* newest-first segment: the events after (= in front of) the newest execution start of t *)
Fixpoint since (t : task) (seg : list event) : option (list event) :=
  match seg with
  | [] => None
  | e :: r => if is_start t e then Some [] else option_map (cons e) (since t r)
  end.
Definition ended (t : task) (b : list event) : Prop := exists o, In (EExecEnd t o) b.
Fixpoint TW (seg : list event) : Prop :=
  match seg with
  | [] => True
  | e :: r =>
    match e with
    | EExecStart t => match since t r with Some b => In (ESchedTask t) b \/ ~ ended t b | None => True end
    | _ => True
    end /\ TW r
  end.

Lemma since_app t b c : ~ In (EExecStart t) b -> since t (b ++ EExecStart t :: c) = Some b.
Proof.
  induction b as [|e b IH]; intros N; cbn [app since].
  - cbn. rewrite N.eqb_refl. reflexivity.
  - assert (is_start t e = false).
    { destruct e; try reflexivity. cbn. destruct (N.eqb_spec t0 t); [subst; exfalso; apply N; left; reflexivity|reflexivity]. }
    rewrite H, IH; [reflexivity|]. intros X. apply N. right. exact X.
Qed.
(* the readable form of TW *)
Lemma TW_spec seg : TW seg -> forall a t b c, seg = a ++ EExecStart t :: b ++ EExecStart t :: c -> ~ In (EExecStart t) b ->
  In (ESchedTask t) b \/ ~ ended t b.
Proof.
  intros H a. revert seg H. induction a as [|e a IH]; intros seg H t b c E N; subst seg; cbn [app TW] in H.
  - destruct H as [H _]. rewrite (since_app t b c N) in H. exact H.
  - destruct H as [_ H]. eapply IH; [exact H|reflexivity|exact N].
Qed.

(* events that are neither scheduling, nor execution start, nor execution end *)
Definition plain2 (e : event) : bool := match e with ESchedTask _ | EExecStart _ | EExecEnd _ _ => false | _ => true end.
Lemma plain2_plain e : plain2 e = true -> plain e = true. Proof. destruct e; cbn; congruence. Qed.
Lemma plain2_not_start t e : plain2 e = true -> is_start t e = false. Proof. destruct e; cbn; congruence. Qed.

Section BO.
Variable RC : rcid -> rchecker.
Variable OC : ocid -> ochecker.
Variable P : task -> prog.
Variable tb : list event.

Record Oseg (w : world) (seg : list event) : Prop := mkO {
  o_tr : trace w = seg ++ tb;
  o_q : forall t b, since t seg = Some b -> ~ In (ESchedTask t) b -> ~ In t (queue w);
  o_out : forall t b, since t seg = Some b -> ended t b -> get_task_output w t <> None;
  o_tw : TW seg
}.
Definition O (w : world) : Prop := exists seg, Oseg w seg.
Definition okO {A} (m : outcome A) : Prop := match m with Done _ w' | Abort _ w' => O w' | OutOfFuel => True end.
Lemma bind_O {A B} (m : outcome A) (f : A -> world -> outcome B) : okO m -> (forall a w, O w -> okO (f a w)) -> okO (bind m f).
Proof. destruct m; cbn; intros H F; [apply F; exact H|exact H|exact Logic.I]. Qed.

(* one plain2 event; queue may shrink or stay, outputs stay *)
Lemma step_O w w' e : plain2 e = true -> trace w' = e :: trace w -> (forall x, In x (queue w') -> In x (queue w)) -> outs w' = outs w -> O w -> O w'.
Proof.
  intros Pe T Q Ou [seg [A1 A2 A3 A4]]. exists (e :: seg). constructor.
  - rewrite T, A1. reflexivity.
  - intros t b S N X. cbn [since] in S. rewrite (plain2_not_start t e Pe) in S. destruct (since t seg) as [b0|] eqn:S0; [|discriminate].
    cbn in S. inversion S; subst b. apply (A2 t b0 S0); [intros Y; apply N; right; exact Y|apply Q; exact X].
  - intros t b S [o En]. cbn [since] in S. rewrite (plain2_not_start t e Pe) in S. destruct (since t seg) as [b0|] eqn:S0; [|discriminate].
    cbn in S. inversion S; subst b. unfold get_task_output. rewrite Ou. apply (A3 t b0 S0).
    destruct En as [En|En]; [subst e; discriminate|exists o; exact En].
  - cbn [TW]. split; [destruct e; try exact Logic.I; discriminate|exact A4].
Qed.
(* no event; queue may shrink, outputs stay *)
Lemma same_O w w' : trace w' = trace w -> (forall x, In x (queue w') -> In x (queue w)) -> outs w' = outs w -> O w -> O w'.
Proof.
  intros T Q Ou [seg [A1 A2 A3 A4]]. exists seg. constructor; [rewrite T; exact A1| | |exact A4].
  - intros t b S N X. apply (A2 t b S N). apply Q. exact X.
  - intros t b S En. unfold get_task_output. rewrite Ou. apply (A3 t b S En).
Qed.

(* quiet steps of BuJust whose events are plain2: derive from a list version *)
Definition quiet2 (w w' : world) : Prop :=
  (exists s, trace w' = s ++ trace w /\ Forall (fun e => plain2 e = true) s) /\ queue w' = queue w /\ outs w' = outs w.
Lemma quiet2_refl w : quiet2 w w. Proof. split; [exists []; split; [reflexivity|constructor]|split; reflexivity]. Qed.
Lemma quiet2_trans a b c : quiet2 a b -> quiet2 b c -> quiet2 a c.
Proof.
  intros [[s1 [T1 F1]] [Q1 O1]] [[s2 [T2 F2]] [Q2 O2]]. split; [|split; congruence].
  exists (s2 ++ s1). split; [rewrite T2, T1, app_assoc; reflexivity|apply Forall_app; split; assumption].
Qed.
Lemma quiet2_same w w' : trace w' = trace w -> queue w' = queue w -> outs w' = outs w -> quiet2 w w'.
Proof. intros T Q Ou. split; [exists []; split; [exact T|constructor]|split; assumption]. Qed.
Lemma quiet2_emit w e : plain2 e = true -> quiet2 w (emit w e).
Proof. intros H. split; [exists [e]; split; [reflexivity|constructor; [exact H|constructor]]|split; reflexivity]. Qed.
Lemma quiet2_O w w' : quiet2 w w' -> O w -> O w'.
Proof.
  intros [[s [T F]] [Q Ou]]. revert w' T Q Ou. induction F as [|e s He _ IH]; intros w' T Q Ou Hw.
  - apply (same_O w); [exact T|intros x X; rewrite <- Q; exact X|exact Ou|exact Hw].
  - (* peel the newest event: an intermediate world with trace s ++ trace w *)
    set (wm := mkWorld (gr w) (outs w) (rstate w) (env w) (cur w) (consistent w) (errs w) (s ++ trace w) (queue w)).
    assert (Hm : O wm) by (apply (IH wm); [reflexivity|reflexivity|reflexivity|exact Hw]).
    apply (step_O wm w' e He); [exact T|intros x X; rewrite Q in X; exact X|exact Ou|exact Hm].
Qed.

Lemma quiet2_goc_task w t : quiet2 w (get_or_create_task_node w t).
Proof. unfold get_or_create_task_node. destruct (live _ _); [apply quiet2_refl|apply quiet2_same; reflexivity]. Qed.
Lemma quiet2_goc_res w r : quiet2 w (get_or_create_resource_node w r).
Proof. unfold get_or_create_resource_node. destruct (live _ _); [apply quiet2_refl|apply quiet2_same; reflexivity]. Qed.
Lemma quiet2_add_dependency w s d dp : quiet2 w (snd (add_dependency w s d dp)).
Proof. unfold add_dependency. destruct (add_edge (gr w) s d dp) as [[b|[|]|] g']; apply quiet2_same; reflexivity. Qed.
Lemma quiet2_set_content w r v : quiet2 w (set_content w r v). Proof. destruct v; apply quiet2_same; reflexivity. Qed.
Definition quiet2O {A} (w : world) (m : outcome A) : Prop := match m with Done _ w' | Abort _ w' => quiet2 w w' | OutOfFuel => True end.
Lemma quiet2O_O {A} w (m : outcome A) : quiet2O w m -> O w -> okO m.
Proof. destruct m; cbn; intros Q H; [eapply quiet2_O; eassumption|eapply quiet2_O; eassumption|exact Logic.I]. Qed.

Lemma sess_read_quiet2 w r c : quiet2O w (sess_read RC w r c).
Proof.
  unfold sess_read. destruct (cur w) as [t|]; [|apply quiet2_refl].
  assert (Q2 : quiet2 w (get_or_create_resource_node (emit w (EReadStart r c)) r)).
  { eapply quiet2_trans; [|apply quiet2_goc_res]; [apply quiet2_emit; reflexivity]. }
  set (w2 := get_or_create_resource_node (emit w (EReadStart r c)) r) in *.
  destruct (hidden_read_check w2 t r); [exact Q2|]. destruct (rc_stamp _ _ _ _) as [st|e]; [|exact Q2].
  assert (Q3 : quiet2 w (snd (add_dependency (emit w2 (EReadEnd r c st)) (tn t) (rn r) (DRead r c st)))).
  { eapply quiet2_trans; [exact Q2|]. eapply quiet2_trans; [|apply quiet2_add_dependency]; [apply quiet2_emit; reflexivity]. }
  destruct (add_dependency _ _ _ _) as [[| |] w4]; exact Q3.
Qed.
Lemma sess_write_quiet2 w r c v : quiet2O w (sess_write RC w r c v).
Proof.
  unfold sess_write. destruct (cur w) as [t|]; [|apply quiet2_set_content].
  assert (Q2 : quiet2 w (get_or_create_resource_node (emit w (EWriteStart r c)) r)).
  { eapply quiet2_trans; [|apply quiet2_goc_res]; [apply quiet2_emit; reflexivity]. }
  set (w2 := get_or_create_resource_node (emit w (EWriteStart r c)) r) in *.
  destruct (validate_write w2 t r); [exact Q2|].
  assert (Q3 : quiet2 w (set_content w2 r v)) by (eapply quiet2_trans; [exact Q2|apply quiet2_set_content]).
  destruct (rc_stamp _ _ _ _) as [st|e]; [|exact Q3].
  assert (Q4 : quiet2 w (snd (add_dependency (emit (set_content w2 r v) (EWriteEnd r c st)) (tn t) (rn r) (DWrite r c st)))).
  { eapply quiet2_trans; [exact Q3|]. eapply quiet2_trans; [|apply quiet2_add_dependency]; [apply quiet2_emit; reflexivity]. }
  destruct (add_dependency _ _ _ _) as [[| |] w4]; exact Q4.
Qed.
Lemma sess_written_to_quiet2 w r c v : quiet2O w (sess_written_to RC w r c v).
Proof.
  unfold sess_written_to.
  assert (Q0 : quiet2 w (set_content w r v)) by apply quiet2_set_content.
  set (w0 := set_content w r v) in *.
  destruct (cur w0) as [t|]; [|exact Q0].
  assert (Q2 : quiet2 w (get_or_create_resource_node (emit w0 (EWriteStart r c)) r)).
  { eapply quiet2_trans; [exact Q0|]. eapply quiet2_trans; [|apply quiet2_goc_res]; [apply quiet2_emit; reflexivity]. }
  set (w2 := get_or_create_resource_node (emit w0 (EWriteStart r c)) r) in *.
  destruct (validate_write w2 t r); [exact Q2|].
  destruct (rc_stamp _ _ _ _) as [st|e]; [|exact Q2].
  assert (Q4 : quiet2 w (snd (add_dependency (emit w2 (EWriteEnd r c st)) (tn t) (rn r) (DWrite r c st)))).
  { eapply quiet2_trans; [exact Q2|]. eapply quiet2_trans; [|apply quiet2_add_dependency]; [apply quiet2_emit; reflexivity]. }
  destruct (add_dependency _ _ _ _) as [[| |] w4]; exact Q4.
Qed.
Lemma reserve_quiet2 w t : quiet2O w (reserve_require_dependency w t).
Proof.
  unfold reserve_require_dependency. destruct (cur w) as [s|]; [|apply quiet2_refl].
  pose proof (quiet2_add_dependency w (tn s) (tn t) DReserved) as Q. destruct (add_dependency _ _ _ _) as [[| |] w']; exact Q.
Qed.
Lemma update_quiet2 w t c st : quiet2O w (update_require_dependency w t c st).
Proof.
  unfold update_require_dependency. destruct (cur w) as [s|]; [|apply quiet2_refl].
  destruct (get_edata _ _ _); [apply quiet2_same; reflexivity|apply quiet2_refl].
Qed.

Definition OREQ (req : world -> task -> ocid -> outcome Z) : Prop := forall w t c, O w -> okO (req w t c).
Definition OMC (mc : world -> task -> outcome Z) : Prop := forall w t, O w -> okO (mc w t).

Lemma exec_prog_O req : OREQ req -> forall p w, O w -> okO (exec_prog RC OC req p w).
Proof.
  intros Hreq. induction p as [o| |t c k IH|r c k IH|r c v k IH|r c v k IH]; intros w Hw; cbn [exec_prog].
  - exact Hw.
  - exact Hw.
  - apply bind_O; [apply Hreq; exact Hw|]. intros o w' Hw'. apply IH. exact Hw'.
  - apply bind_O; [apply (quiet2O_O w); [apply sess_read_quiet2|exact Hw]|]. intros x w' Hw'. apply IH. exact Hw'.
  - apply bind_O; [apply (quiet2O_O w); [apply sess_write_quiet2|exact Hw]|]. intros x w' Hw'. apply IH. exact Hw'.
  - apply bind_O; [apply (quiet2O_O w); [apply sess_written_to_quiet2|exact Hw]|]. intros x w' Hw'. apply IH. exact Hw'.
Qed.

(* what the caller of execute_obj / execute must know: t is not in the queue, and (it was popped from it) or (it has no output) *)
Definition JustO (w : world) (t : task) : Prop :=
  ~ In t (queue w) /\ forall seg b, trace w = seg ++ tb -> since t seg = Some b -> In (ESchedTask t) b \/ ~ ended t b.

Lemma since_other t x seg : x <> t -> since t (EExecStart x :: seg) = option_map (cons (EExecStart x)) (since t seg).
Proof. intros H. cbn [since is_start]. destruct (N.eqb_spec x t); [contradiction|reflexivity]. Qed.

Lemma exec_start_O w t : O w -> JustO w t -> O (emit (set_cur (reset_task w t) (Some t)) (EExecStart t)).
Proof.
  intros [seg [A1 A2 A3 A4]] [NQ HJ]. exists (EExecStart t :: seg). constructor.
  - cbn. rewrite A1. reflexivity.
  - intros x b S N X. change (In x (queue w)) in X. destruct (N.eq_dec x t) as [->|Hx]; [contradiction|].
    rewrite (since_other x t seg) in S by congruence. destruct (since x seg) as [b0|] eqn:S0; [|discriminate]. cbn in S. inversion S; subst b.
    apply (A2 x b0 S0); [intros Y; apply N; right; exact Y|exact X].
  - intros x b S [o En]. destruct (N.eq_dec x t) as [->|Hx].
    + cbn [since is_start] in S. rewrite N.eqb_refl in S. inversion S; subst b. destruct En.
    + rewrite (since_other x t seg) in S by congruence. destruct (since x seg) as [b0|] eqn:S0; [|discriminate]. cbn in S. inversion S; subst b.
      change (alookup (aremove (outs w) t) x <> None). rewrite (alookup_aremove_other _ _ _ Hx).
      apply (A3 x b0 S0). destruct En as [En|En]; [discriminate|exists o; exact En].
  - cbn [TW]. split; [|exact A4]. destruct (since t seg) as [b|] eqn:S; [|exact Logic.I]. apply (HJ seg b A1 S).
Qed.

Lemma since_plain t e seg : is_start t e = false -> since t (e :: seg) = option_map (cons e) (since t seg).
Proof. intros H. cbn [since]. rewrite H. reflexivity. Qed.

Lemma exec_end_O w t o c : O w -> O (set_task_output (set_cur (emit w (EExecEnd t o)) c) t o).
Proof.
  intros [seg [A1 A2 A3 A4]]. exists (EExecEnd t o :: seg). constructor.
  - cbn. rewrite A1. reflexivity.
  - intros x b S N X. change (In x (queue w)) in X. rewrite since_plain in S by reflexivity.
    destruct (since x seg) as [b0|] eqn:S0; [|discriminate]. cbn in S. inversion S; subst b.
    apply (A2 x b0 S0); [intros Y; apply N; right; exact Y|exact X].
  - intros x b S [o' En]. rewrite since_plain in S by reflexivity.
    destruct (since x seg) as [b0|] eqn:S0; [|discriminate]. cbn in S. inversion S; subst b.
    change (alookup (aset (outs w) t o) x <> None). destruct (N.eq_dec x t) as [->|Hx]; [rewrite alookup_aset_eq; discriminate|].
    rewrite (alookup_aset_other _ _ _ _ Hx). apply (A3 x b0 S0).
    destruct En as [En|En]; [inversion En; congruence|exists o'; exact En].
  - cbn [TW]. split; [exact Logic.I|exact A4].
Qed.

Lemma execute_with_O req w t : OREQ req -> O w -> JustO w t -> okO (execute_with RC OC P req w t).
Proof.
  intros Hreq Hw HJ. unfold execute_with. apply bind_O.
  - apply exec_prog_O; [exact Hreq|]. apply exec_start_O; assumption.
  - intros o w3 H3. cbn. apply exec_end_O. exact H3.
Qed.

Lemma require_with_O mc : OMC mc -> OREQ (require_with OC mc).
Proof.
  intros Hmc w t c Hw. unfold require_with.
  assert (H2 : O (get_or_create_task_node (emit w (ERequireStart t c)) t)).
  { eapply quiet2_O; [|exact Hw]. eapply quiet2_trans; [|apply quiet2_goc_task]; [apply quiet2_emit; reflexivity]. }
  apply bind_O; [apply (quiet2O_O _ _ (reserve_quiet2 _ t) H2)|]. intros _ w3 H3.
  apply bind_O; [apply Hmc; exact H3|]. intros o w4 H4.
  assert (H5 : O (emit w4 (ERequireEnd t c (oc_stamp (OC c) o) o))) by (eapply quiet2_O; [apply quiet2_emit; reflexivity|exact H4]).
  apply bind_O; [apply (quiet2O_O _ _ (update_quiet2 _ t c _) H5)|]. intros _ w6 H6. exact H6.
Qed.
Lemma mark_O w t : O w -> O (mark_consistent w t).
Proof. apply quiet2_O. apply quiet2_same; reflexivity. Qed.
Lemma require_bu_with_O mc : OMC mc -> OREQ (require_bu_with OC mc).
Proof.
  intros Hmc w t c Hw. unfold require_bu_with. apply bind_O; [apply require_with_O; assumption|].
  intros o w' H'. cbn. apply mark_O. exact H'.
Qed.

(* scheduling t: w2 = w after one plain2 event (and possibly a pushed error) *)
Lemma sched_O w w2 t e : O w -> plain2 e = true -> trace w2 = e :: trace w -> queue w2 = queue w -> outs w2 = outs w ->
  O (queue_add (emit w2 (ESchedTask t)) t).
Proof.
  intros Hw Pe T Q Ou.
  assert (H2 : O w2) by (apply (step_O w w2 e Pe T); [intros x X; rewrite <- Q; exact X|exact Ou|exact Hw]).
  destruct H2 as [seg [A1 A2 A3 A4]]. exists (ESchedTask t :: seg).
  assert (TQ : trace (queue_add (emit w2 (ESchedTask t)) t) = ESchedTask t :: seg ++ tb).
  { unfold queue_add. destruct (memN _ _); cbn; rewrite A1; reflexivity. }
  assert (OQ : outs (queue_add (emit w2 (ESchedTask t)) t) = outs w2).
  { unfold queue_add. destruct (memN _ _); reflexivity. }
  constructor.
  - exact TQ.
  - intros x b S N X. rewrite since_plain in S by reflexivity. destruct (since x seg) as [b0|] eqn:S0; [|discriminate]. cbn in S. inversion S; subst b.
    assert (Hx : x <> t) by (intros ->; apply N; left; reflexivity).
    apply (A2 x b0 S0); [intros Y; apply N; right; exact Y|].
    unfold queue_add in X. cbn [queue emit] in X. destruct (memN t (queue w2)); cbn in X; [exact X|].
    apply in_app_or in X. destruct X as [X|[X|[]]]; [exact X|congruence].
  - intros x b S [o En]. rewrite since_plain in S by reflexivity. destruct (since x seg) as [b0|] eqn:S0; [|discriminate]. cbn in S. inversion S; subst b.
    unfold get_task_output. rewrite OQ. apply (A3 x b0 S0). destruct En as [En|En]; [discriminate|exists o; exact En].
  - cbn [TW]. split; [exact Logic.I|exact A4].
Qed.

Lemma try_schedule_O w t r c st : O w -> O (try_schedule RC w t r c st).
Proof.
  intros Hw. unfold try_schedule. cbv zeta.
  set (w1 := emit w (ECheckReadResStart t c st)).
  assert (H1 : O w1) by (eapply quiet2_O; [apply quiet2_emit; reflexivity|exact Hw]).
  destruct (rc_check (RC c) (env w1) r (get_content w1 r) st) as [| |e] eqn:X.
  - eapply quiet2_O; [apply quiet2_emit; reflexivity|exact H1].
  - apply (sched_O w1 _ t (ECheckReadResEnd t c st Inconsistent)); [exact H1|reflexivity|reflexivity|reflexivity|reflexivity].
  - apply (sched_O w1 _ t (ECheckReadResEnd t c st (CErr e))); [exact H1|reflexivity|reflexivity|reflexivity|reflexivity].
Qed.
Lemma try_schedule_edge_O b w p : O w -> O (try_schedule_edge RC b w p).
Proof.
  intros Hw. unfold try_schedule_edge. destruct (snd p) as [[|t c st|r c st|r c st]|]; try exact Hw.
  - apply try_schedule_O; exact Hw.
  - destruct b; [exact Hw|apply try_schedule_O; exact Hw].
Qed.
Lemma fold_O {X} (f : world -> X -> world) l : (forall w x, O w -> O (f w x)) -> forall w, O w -> O (fold_left f l w).
Proof. intros Hf. induction l as [|x tl IH]; intros w Hw; cbn [fold_left]; [exact Hw|apply IH, Hf; exact Hw]. Qed.
Lemma schedule_tasks_affected_by_O w r : O w -> O (schedule_tasks_affected_by RC w r).
Proof.
  intros Hw. unfold schedule_tasks_affected_by. cbv zeta.
  eapply quiet2_O; [apply quiet2_emit; reflexivity|]. apply fold_O; [intros; apply try_schedule_edge_O; assumption|].
  eapply quiet2_O; [|exact Hw]. eapply quiet2_trans; [|apply quiet2_goc_res]; [apply quiet2_emit; reflexivity].
Qed.
Lemma schedule_by_written_O w r : O w -> O (schedule_by_written RC w r).
Proof.
  intros Hw. unfold schedule_by_written. cbv zeta.
  eapply quiet2_O; [apply quiet2_emit; reflexivity|]. apply fold_O; [intros; apply try_schedule_edge_O; assumption|].
  eapply quiet2_O; [apply quiet2_emit; reflexivity|exact Hw].
Qed.
Lemma schedule_requirer_O o w p : O w -> O (schedule_requirer OC o w p).
Proof.
  intros Hw. unfold schedule_requirer. destruct (snd p) as [[|t c st|r c st|r c st]|]; try exact Hw. cbv zeta.
  set (rq := un (fst p)). set (w1 := emit w (ECheckReqTaskStart rq c st)).
  assert (H1 : O w1) by (eapply quiet2_O; [apply quiet2_emit; reflexivity|exact Hw]).
  destruct (oc_check (OC c) o st).
  - eapply quiet2_O; [apply quiet2_emit; reflexivity|exact H1].
  - apply (sched_O w1 _ rq (ECheckReqTaskEnd rq c st (negb false))); [exact H1|reflexivity|reflexivity|reflexivity|reflexivity].
Qed.
Lemma schedule_after_O w t o : O w -> O (schedule_after RC OC w t o).
Proof.
  intros Hw. unfold schedule_after. cbv zeta. apply mark_O.
  eapply quiet2_O; [apply quiet2_emit; reflexivity|]. apply fold_O; [intros; apply schedule_requirer_O; assumption|].
  eapply quiet2_O; [apply quiet2_emit; reflexivity|]. apply fold_O; [intros; apply schedule_by_written_O; assumption|exact Hw].
Qed.

(* ---- the queue ---- *)
Lemma not_in_removeN t l : ~ In t (removeN t l).
Proof. unfold removeN. intros X. apply filter_In in X. destruct X as [_ X]. rewrite N.eqb_refl in X. discriminate. Qed.
Lemma removeN_sub t x l : In x (removeN t l) -> In x l.
Proof. unfold removeN. intros X. apply filter_In in X. tauto. Qed.
Lemma sort_queue_sub w x : In x (sort_queue w) -> In x (queue w).
Proof. unfold sort_queue. apply Permutation_in. apply sort_by_perm. Qed.

Definition is_sched (t : task) (e : event) : bool := match e with ESchedTask x => N.eqb x t | _ => false end.
Lemma In_sched_dec t l : {In (ESchedTask t) l} + {~ In (ESchedTask t) l}.
Proof.
  destruct (existsb (is_sched t) l) eqn:E; [left|right].
  - apply existsb_exists in E. destruct E as [e [X Y]]. destruct e; try discriminate. cbn in Y. apply N.eqb_eq in Y. subst. exact X.
  - intros X. assert (existsb (is_sched t) l = true) by (apply existsb_exists; exists (ESchedTask t); split; [exact X|cbn; apply N.eqb_refl]). congruence.
Qed.

Lemma pop_O w t : O w -> In t (queue w) ->
  O (set_queue w (removeN t (sort_queue w))) /\ JustO (set_queue w (removeN t (sort_queue w))) t.
Proof.
  intros Hw Hin. split.
  - apply (same_O w); [reflexivity|intros x X; apply sort_queue_sub; eapply removeN_sub; exact X|reflexivity|exact Hw].
  - split; [apply not_in_removeN|]. intros seg b T S. destruct Hw as [seg0 [A1 A2 _ _]].
    change (trace w = seg ++ tb) in T. rewrite A1 in T. apply app_inv_tail in T. subst seg0.
    destruct (In_sched_dec t b) as [Y|Y]; [left; exact Y|exfalso; exact (A2 t b S Y Hin)].
Qed.
Lemma queue_pop_O w t w' : O w -> queue_pop w = Some (t, w') -> O w' /\ JustO w' t.
Proof.
  unfold queue_pop. intros Hw. destruct (rev (sort_queue w)) as [|x tl] eqn:X; [discriminate|]. intros H. inversion H; subst x w'. clear H.
  apply pop_O; [exact Hw|]. apply sort_queue_sub. apply in_rev. rewrite X. left. reflexivity.
Qed.
Lemma pop_least_O w s t w' : O w -> pop_least_from w s = Some (t, w') -> O w' /\ JustO w' t.
Proof.
  unfold pop_least_from. intros Hw. destruct (find _ _) as [x|] eqn:X; [|discriminate]. intros H. inversion H; subst x w'. clear H.
  apply pop_O; [exact Hw|]. apply sort_queue_sub. apply in_rev. apply (find_some _ _ X).
Qed.

Theorem bottom_up_O fuel :
  (forall w t, O w -> JustO w t -> okO (bu_execute_and_schedule RC OC P fuel w t)) /\
  OMC (bu_make_consistent RC OC P fuel) /\
  (forall w t, O w -> okO (bu_require_scheduled_now RC OC P fuel w t)).
Proof.
  induction fuel as [|f [IH1 [IH2 IH3]]]; [repeat split; intros; exact Logic.I|].
  assert (Hreq : OREQ (require_bu_with OC (bu_make_consistent RC OC P f))) by (apply require_bu_with_O; exact IH2).
  split; [|split].
  - intros w t Hw HJ. cbn [bu_execute_and_schedule]. apply bind_O; [apply execute_with_O; assumption|].
    intros o w1 H1. cbn [okO]. apply schedule_after_O. exact H1.
  - intros w t Hw. cbn [bu_make_consistent]. destruct (memN t (consistent w)); [destruct (get_task_output w t); exact Hw|].
    destruct (get_task_output w t) as [o|] eqn:Ho; cbn [andb].
    + apply bind_O; [apply IH3; exact Hw|]. intros r w1 H1. destruct r; [exact H1|]. destruct (get_task_output w1 t); exact H1.
    + destruct (memN t (queue w)) eqn:M; cbn [negb].
      * apply bind_O; [apply IH3; exact Hw|]. intros r w1 H1. destruct r; [exact H1|]. destruct (get_task_output w1 t); exact H1.
      * apply execute_with_O; [exact Hreq|exact Hw|]. split; [apply memN_false; exact M|].
        intros seg b T S. right. intros En. destruct Hw as [seg0 [A1 _ A3 _]]. rewrite A1 in T. apply app_inv_tail in T. subst seg0.
        apply (A3 t b S En). exact Ho.
  - intros w t Hw. cbn [bu_require_scheduled_now]. destruct (queue w); [exact Hw|].
    destruct (pop_least_from w t) as [[m w1]|] eqn:X; [|exact Hw].
    destruct (pop_least_O w t m w1 Hw X) as [H1 J1].
    apply bind_O; [apply IH1; assumption|]. intros o w2 H2. destruct (N.eqb m t); [exact H2|apply IH3; exact H2].
Qed.

Theorem execute_scheduled_O fuel : forall w, O w -> okO (execute_scheduled RC OC P fuel w).
Proof.
  induction fuel as [|f IH]; intros w Hw; cbn [execute_scheduled]; [exact Logic.I|].
  destruct (queue_pop w) as [[t w1]|] eqn:X; [|exact Hw].
  destruct (queue_pop_O w t w1 Hw X) as [H1 J1].
  apply bind_O; [apply (proj1 (bottom_up_O f)); assumption|]. intros _ w2 H2. apply IH. exact H2.
Qed.

End BO.

Section Top.
Variable RC : rcid -> rchecker.
Variable OC : ocid -> ochecker.
Variable P : task -> prog.

(* any bottom-up build, completed or aborted, from any world: between two execution starts of the same task there is a
   scheduling of it, or the earlier execution has not ended *)
Theorem bottom_up_no_duplicate_execution fuel w ch :
  match session_bottom_up RC OC P fuel w ch with
  | Done _ w' | Abort _ w' =>
    exists seg, trace w' = seg ++ trace w /\
      forall a t b c, seg = a ++ EExecStart t :: b ++ EExecStart t :: c -> ~ In (EExecStart t) b ->
        In (ESchedTask t) b \/ ~ (exists o, In (EExecEnd t o) b)
  | OutOfFuel => True
  end.
Proof.
  unfold session_bottom_up. cbv zeta.
  set (w1 := fold_left (schedule_tasks_affected_by RC) ch (set_queue w [])).
  assert (H0 : O (trace w) (set_queue w [])).
  { exists []. constructor; [reflexivity|intros t b S; discriminate|intros t b S; discriminate|exact Logic.I]. }
  assert (H1 : O (trace w) w1) by (apply fold_O; [intros; apply schedule_tasks_affected_by_O; assumption|exact H0]).
  assert (H2 : O (trace w) (emit (set_cur w1 None) EBuildStart)).
  { eapply quiet2_O; [|exact H1]. eapply quiet2_trans; [apply (quiet2_same w1 (set_cur w1 None)); reflexivity|apply quiet2_emit; reflexivity]. }
  pose proof (execute_scheduled_O RC OC P (trace w) fuel _ H2) as X.
  destruct (execute_scheduled RC OC P fuel (emit (set_cur w1 None) EBuildStart)) as [u w3|k w3|]; cbn [bind okO] in *; [| |exact Logic.I].
  - assert (X' : O (trace w) (emit w3 EBuildEnd)) by (eapply quiet2_O; [apply quiet2_emit; reflexivity|exact X]).
    destruct X' as [seg [A1 _ _ A4]]. exists seg. split; [exact A1|]. intros a t b c E N. exact (TW_spec seg A4 a t b c E N).
  - destruct X as [seg [A1 _ _ A4]]. exists seg. split; [exact A1|]. intros a t b c E N. exact (TW_spec seg A4 a t b c E N).
Qed.

End Top.

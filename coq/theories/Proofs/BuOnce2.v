(* C04, at-most-once, second step: BuOnce.v (a second start of t needs a scheduling of t in between, or the first execution is
   still open) combined with NoReentry.v (no task starts while an execution of it is open): in a bottom-up build that opens a
   session -- after ANY history, completed or aborted, all programs and checkers -- between two execution starts of the same
   task the task was scheduled again. *)
From Coq Require Import List NArith ZArith Bool Lia Permutation.
From PieV Require Import Model.Dag Model.Build Proofs.DagLib Proofs.StoreInv Proofs.ExecInv Proofs.NoBug4All Proofs.BuJust Proofs.BuOnce Proofs.NoReentry Proofs.NoBugAll.
Import ListNotations.
Open Scope N_scope.

Lemma opens_keep t b r : (forall o, ~ In (EExecEnd t o) b) -> In t (opens r) -> In t (opens (b ++ r)).
Proof.
  induction b as [|e b IH]; intros N X; cbn [app]; [exact X|].
  assert (Y : In t (opens (b ++ r))) by (apply IH; [intros o Z; apply (N o); right; exact Z|exact X]).
  destruct e; cbn [opens]; try exact Y; [right; exact Y|].
  apply In_removeN_other'; [exact Y|]. intros ->. apply (N o). left. reflexivity.
Qed.

Section B2.
Variable RC : rcid -> rchecker.
Variable OC : ocid -> ochecker.
Variable P : task -> prog.
Variable always : ocid.

Theorem bottom_up_second_execution_rescheduled fuel h ch :
  let w := new_session (snd (run_history RC OC P always fuel init_world h)) in
  match session_bottom_up RC OC P fuel w ch with
  | Done _ w' | Abort _ w' =>
      forall a t b c, trace w' = a ++ EExecStart t :: b ++ EExecStart t :: c -> ~ In (EExecStart t) b -> In (ESchedTask t) b
  | OutOfFuel => True
  end.
Proof.
  intros w.
  assert (SP : SPre w) by (apply SPre_new_session; apply (run_history_R RC OC P always fuel h init_world L_init)).
  pose proof (bottom_up_no_duplicate_execution RC OC P fuel w ch) as T.
  pose proof (session_bottom_up_N RC OC P fuel w ch SP) as N.
  assert (Fin : forall w', (exists seg, trace w' = seg ++ trace w /\
      forall a t b c, seg = a ++ EExecStart t :: b ++ EExecStart t :: c -> ~ In (EExecStart t) b ->
        In (ESchedTask t) b \/ ~ (exists o, In (EExecEnd t o) b)) -> NN (trace w') ->
      forall a t b c, trace w' = a ++ EExecStart t :: b ++ EExecStart t :: c -> ~ In (EExecStart t) b -> In (ESchedTask t) b).
  { intros w' [seg [E S]] HN a t b c Et Nb. change (trace w) with (@nil event) in E. rewrite app_nil_r in E. subst seg.
    destruct (S a t b c Et Nb) as [X|X]; [exact X|]. exfalso.
    apply (NN_spec _ HN a t (b ++ EExecStart t :: c) Et). apply opens_keep; [intros o Z; apply X; exists o; exact Z|left; reflexivity]. }
  destruct (session_bottom_up RC OC P fuel w ch) as [u w'|k w'|]; cbn [okS] in N; [|apply Fin; assumption|exact Logic.I].
  apply Fin; [exact T|apply N].
Qed.
End B2.

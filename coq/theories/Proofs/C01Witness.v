(* Non-vacuity of the C01 theorem: exact checkers and a two-task program (a generator and its consumer) satisfy every
   hypothesis, and a concrete history (build, external change of the generator's input, build again) satisfies the premises;
   the incremental session re-executes both tasks and returns what the from-scratch session returns. *)
From Coq Require Import List NArith ZArith Bool Lia.
From PieV Require Import Model.Dag Model.Build Proofs.StoreInv Proofs.History Proofs.ExecInv Proofs.ExecSession Proofs.Cert Proofs.Stable Proofs.Sim Proofs.NoAbort Proofs.Final Proofs.Valid Proofs.Idem.
Import ListNotations.
Open Scope N_scope.

Definition enc (v : content) : Z := match v with None => 0%Z | Some z => if (0 <=? z)%Z then (2 * z + 1)%Z else (- 2 * z)%Z end.
Lemma enc_inj v v' : enc v = enc v' -> v = v'.
Proof.
  unfold enc. destruct v as [z|], v' as [z'|]; try reflexivity;
  repeat match goal with |- context [(0 <=? ?x)%Z] => destruct (Z.leb_spec 0 x) end; intros E; try (f_equal; lia); try lia.
Qed.
Definition RCx (_ : rcid) : rchecker :=
  mkRc (fun _ _ v => inl (enc v)) (fun _ _ v st => if Z.eqb (enc v) st then Consistent else Inconsistent) enc.
Definition OCx (_ : ocid) : ochecker := mkOc (fun o => o) (fun o st => Z.eqb o st) (fun o => o).
Definition genx (r : res) : option task := if N.eqb r 5 then Some 1 else None.
(* task 1 reads resource 1 and generates resource 5; task 0 requires task 1 and reads resource 5 *)
Definition Px (t : task) : prog :=
  match t with
  | 0 => Req 1 0 (fun _ => Read 5 0 (fun x => match x with inl v => Ret v | inr e => Ret e end))
  | 1 => Read 1 0 (fun x => Write 5 0 (Some (match x with inl v => v + 100 | inr e => e end)%Z) (fun _ => Ret 0%Z))
  | _ => Ret 0%Z
  end.

Lemma HSx : forall c env r v, rc_stamp (RCx c) env r v = inl (enc v). Proof. reflexivity. Qed.
Lemma HCx : forall c env r v v', rc_check (RCx c) env r v' (enc v) = Consistent -> rc_view (RCx c) v' = rc_view (RCx c) v.
Proof. intros c env r v v'. cbn. destruct (Z.eqb_spec (enc v') (enc v)); [intros _; assumption|discriminate]. Qed.
Lemma HWx : forall c env r v v', True -> rc_check (RCx c) env r v' (enc v) = Consistent -> v' = v.
Proof. intros c env r v v' _ H. apply enc_inj. apply (HCx c env r v v' H). Qed.
Lemma HOCx : forall c o o', oc_check (OCx c) o' (oc_stamp (OCx c) o) = true -> oc_view (OCx c) o' = oc_view (OCx c) o.
Proof. intros c o o'. cbn. apply Z.eqb_eq. Qed.
Lemma HWFx : forall t, WFP genx (fun _ => True) t [] (Px t).
Proof.
  intros t. destruct t as [|p]; [|destruct p as [p|p|]; try destruct p]; cbn [Px]; try constructor.
  - intros [].
  - intros v. constructor; [cbn; unfold tn, rn; intros [X|[]]; lia|right; exists 1; split; [reflexivity|left; reflexivity]|].
    intros x. destruct x; constructor.
  - intros [].
  - left. reflexivity.
  - intros v. constructor; [cbn; unfold rn; intros [X|[]]; lia|reflexivity|exact I|]. intros x. constructor.
Qed.

Definition hx : list step := [HEdit 1 (Some 1%Z); HSession [SRequire 0]; HEdit 1 (Some 2%Z)].
Definition opsx : list sop := [SRequire 0].
Notation wx := (snd (run_history RCx OCx Px 0 50 init_world hx)).
Notation rax := (run_session RCx OCx Px 0 50 (new_session wx) opsx).
Notation rbx := (run_session RCx OCx Px 0 50 (new_session (fresh_of wx)) opsx).

Definition is_bug4b (r : sres) : bool := match r with RAbort (ABug 4) => true | _ => false end.
Lemma no_bug4 l : forallb (forallb (fun r => negb (is_bug4b r))) l = true -> ~ Exists (Exists bug4) l.
Proof.
  intros H X. apply Exists_exists in X. destruct X as [rs [I1 X]]. apply Exists_exists in X. destruct X as [r [I2 X]].
  rewrite forallb_forall in H. specialize (H rs I1). rewrite forallb_forall in H. specialize (H r I2). unfold bug4 in X. subst r. discriminate.
Qed.

(* the premises of the theorem hold for this history ... *)
Example C01_premises :
  td_hist hx /\ td_only opsx /\ ~ Exists (Exists bug4) (fst (run_history RCx OCx Px 0 50 init_world hx)) /\
  Forall is_done (fst rax) /\ Forall is_done (fst rbx).
Proof.
  split; [cbn; tauto|]. split; [exact I|]. split; [apply no_bug4; vm_compute; reflexivity|].
  split; vm_compute; (constructor; [eexists; reflexivity|constructor]).
Qed.
(* ... the incremental session does real work (it re-executes both tasks) and returns the changed result *)
Example C01_nontrivial :
  fst rax = [RDone (Some 211%Z)] /\ execs (rev (trace (snd rax))) = [1; 0] /\
  fst (run_history RCx OCx Px 0 50 init_world hx) = [[]; [RDone (Some 207%Z)]; []].
Proof. vm_compute. split; [reflexivity|split; reflexivity]. Qed.
(* ... and the theorem applies *)
Example C01_instance : fst rax = fst rbx /\ forall r, get_content (snd rax) r = get_content (snd rbx) r.
Proof.
  destruct C01_premises as [A [B [C [D E]]]].
  pose proof (incremental_equals_scratch genx (fun _ => True) RCx OCx Px (fun _ _ v => enc v) HSx HWFx HCx HWx HOCx 0 50 50 hx opsx A B C) as X.
  cbv zeta in X. exact (X D E).
Qed.


(* the witness is also in the static class of the total theorems: requires go down in ordx, nobody panics *)
Definition ordx (t : task) : nat := match t with 0 => 1%nat | _ => 0%nat end.
Lemma HWOx : forall t, WFO ordx t (Px t).
Proof.
  intros t. destruct t as [|p]; [|destruct p as [p|p|]; try destruct p]; cbn [Px]; try constructor.
  - cbn. lia.
  - intros v. constructor. intros x. destruct x; constructor.
  - intros v. constructor. intros x. constructor.
Qed.
Example C01_total_premises : hist_below ordx 50 hx /\ roots_below ordx 50 opsx.
Proof. cbn. repeat split; lia. Qed.
Example C01_total_instance :
  Forall is_done (fst rax) /\ Forall is_done (fst rbx) /\ fst rax = fst rbx /\ forall r, get_content (snd rax) r = get_content (snd rbx) r.
Proof.
  destruct C01_total_premises as [A B].
  pose proof (incremental_equals_scratch_total RCx OCx Px 0 genx (fun _ => True) ordx (fun _ _ v => enc v) HSx HWFx HWOx HCx HWx HOCx 50 50 hx opsx A B B) as X.
  cbv zeta in X. exact X.
Qed.


(* the exact checkers of the witness are reflexive, so C02's idempotence theorem applies to it as well *)
Lemma HReflx : forall c env r v, rc_check (RCx c) env r v (enc v) = Consistent.
Proof. intros c env r v. cbn. rewrite Z.eqb_refl. reflexivity. Qed.
Lemma HReflOx : forall c o, oc_check (OCx c) o (oc_stamp (OCx c) o) = true.
Proof. intros c o. cbn. apply Z.eqb_refl. Qed.
Example C02_idempotence_instance :
  let r1 := rax in
  let r2 := run_session RCx OCx Px 0 50 (new_session (snd r1)) opsx in
  fst r2 = fst r1 /\ execs (rev (trace (snd r2))) = [].
Proof.
  destruct C01_total_premises as [A B].
  pose proof (second_session_executes_nothing genx (fun _ => True) ordx RCx OCx Px (fun _ _ v => enc v) 0 HSx HWFx HWOx HReflx HReflOx 50 hx opsx A B) as X.
  cbv zeta in X. destruct X as [X1 [X2 _]]. split; assumption.
Qed.

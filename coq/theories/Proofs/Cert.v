(* C08 (exact record) as an invariant of all top-down runs, and the certificate used by C01:
   for every task that has an output, the dependency list held by the store is EXACTLY the sequence of requires, reads and
   writes of one complete run of its program (same targets, same order, same checkers, each with a stamp of the value that
   run observed) ending in that output -- nothing left over from earlier executions.
   Class: task programs that touch each target at most once per execution (NR); resource stampers total and independent
   of the checker environment (HS).  (Two dependencies on one target with different checkers: recorded finding O7.) *)
From Coq Require Import List NArith ZArith Bool Lia.
From PieV Require Import Model.Dag Model.Build Proofs.DagLib Proofs.DagWF Proofs.DagPath Proofs.DagAddEdge Proofs.DagViews
  Proofs.Inv Proofs.StoreInv Proofs.History Proofs.Effects Proofs.Local Proofs.Local2 Proofs.ExecInv Proofs.ExecSession.
Import ListNotations.
Open Scope N_scope.

(* no target is touched twice on any path of the program; [seen] = targets touched so far, in order *)
Inductive NR : list node -> prog -> Prop :=
| NR_ret seen o : NR seen (Ret o)
| NR_panic seen : NR seen Panic
| NR_req seen x c k : ~ In (tn x) seen -> (forall v, NR (seen ++ [tn x]) (k v)) -> NR seen (Req x c k)
| NR_read seen r c k : ~ In (rn r) seen -> (forall v, NR (seen ++ [rn r]) (k v)) -> NR seen (Read r c k)
| NR_write seen r c v k : ~ In (rn r) seen -> (forall x, NR (seen ++ [rn r]) (k x)) -> NR seen (Write r c v k)
| NR_wto seen r c v k : ~ In (rn r) seen -> (forall x, NR (seen ++ [rn r]) (k x)) -> NR seen (WrittenTo r c v k).

Section C.
Variable RC : rcid -> rchecker.
Variable OC : ocid -> ochecker.
Variable P : task -> prog.
Variable sf : rcid -> res -> content -> Z.
Hypothesis HS : forall c env r v, rc_stamp (RC c) env r v = inl (sf c r v).
Hypothesis HNR : forall t, NR [] (P t).

(* a complete run of program p that had recorded targets [acc] before, ends with output o and recorded targets kf;
   D = the final dependency data of the task *)
Inductive Rep (D : node -> option dep) : prog -> list node -> Z -> list node -> Prop :=
| Rep_ret o acc : Rep D (Ret o) acc o acc
| Rep_req x c k ox acc o kf :
    D (tn x) = Some (DRequire x c (oc_stamp (OC c) ox)) -> Rep D (k (oc_view (OC c) ox)) (acc ++ [tn x]) o kf ->
    Rep D (Req x c k) acc o kf
| Rep_read r c k v acc o kf :
    D (rn r) = Some (DRead r c (sf c r v)) -> Rep D (k (inl (rc_view (RC c) v))) (acc ++ [rn r]) o kf ->
    Rep D (Read r c k) acc o kf
| Rep_write r c v k acc o kf :
    D (rn r) = Some (DWrite r c (sf c r v)) -> Rep D (k (inl tt)) (acc ++ [rn r]) o kf ->
    Rep D (Write r c v k) acc o kf
| Rep_wto r c v k acc o kf :
    D (rn r) = Some (DWrite r c (sf c r v)) -> Rep D (k (inl tt)) (acc ++ [rn r]) o kf ->
    Rep D (WrittenTo r c v k) acc o kf.

Definition row (w : world) (t : task) (d : node) : option dep := get_edata (gr w) (tn t) d.
Definition kidsT (w : world) (t : task) : list node := kids_of (gr w) (tn t).
Definition Cert (w : world) (t : task) (o : Z) : Prop := Rep (row w t) (P t) [] o (kidsT w t).
Definition K (w : world) : Prop := forall t o, get_task_output w t = Some o -> Cert w t o.

Lemma Rep_ext D D' p acc o kf : (forall d, D' d = D d) -> Rep D p acc o kf -> Rep D' p acc o kf.
Proof.
  intros E R. induction R.
  - constructor.
  - eapply Rep_req; [rewrite E; eassumption|assumption].
  - eapply Rep_read; [rewrite E; eassumption|assumption].
  - eapply Rep_write; [rewrite E; eassumption|assumption].
  - eapply Rep_wto; [rewrite E; eassumption|assumption].
Qed.

Lemma K_frame w w' :
  (forall t, get_task_output w' t <> None ->
     get_task_output w' t = get_task_output w t /\ kidsT w' t = kidsT w t /\ forall d, row w' t d = row w t d) ->
  K w -> K w'.
Proof.
  intros F Kw t o Ho. destruct (F t ltac:(congruence)) as [A [B C]]. rewrite A in Ho. specialize (Kw t o Ho).
  unfold Cert in *. rewrite B. eapply Rep_ext; [|exact Kw]. exact C.
Qed.

(* ---- one new dependency ---- *)
Definition RowStep (t : task) (w w' : world) (d : node) (dp : dep) : Prop :=
  kidsT w' t = kidsT w t ++ [d] /\ row w' t d = Some dp /\ forall d', d' <> d -> row w' t d' = row w t d'.

Lemma add_dep_new w s d dp w' : WF (gr w) -> ~ In d (kids_of (gr w) s) -> add_dependency w s d dp = (AddOk, w') ->
  kids_of (gr w') s = kids_of (gr w) s ++ [d] /\ get_edata (gr w') s d = Some dp /\
  (forall v, v <> d -> get_edata (gr w') s v = get_edata (gr w) s v).
Proof.
  intros W Hn. unfold add_dependency. pose proof (add_edge_view (gr w) s d dp W) as V.
  destruct (add_edge (gr w) s d dp) as [[[|]|[|]|] g'] eqn:E; cbn [fst snd] in V; intros H; inversion H; subst; cbn [gr set_gr].
  - destruct V as [_ [_ [VK [_ VE]]]]. split; [rewrite VK, N.eqb_refl; reflexivity|]. split.
    + rewrite VE. rewrite (proj2 (pair_eqb_eq _ _) eq_refl). reflexivity.
    + intros v Hv. rewrite VE. destruct (pair_eqb (s, d) (s, v)) eqn:Z; [|reflexivity]. apply pair_eqb_eq in Z. inversion Z. congruence.
  - destruct V as [_ X]. contradiction.
Qed.

Lemma res_no_kids w r : StoreOK w -> kids_of (gr w) (rn r) = [].
Proof.
  intros [W [T _]]. destruct (kids_of (gr w) (rn r)) as [|v tl] eqn:E; [reflexivity|]. exfalso.
  assert (X : get_edata (gr w) (rn r) v <> None) by (apply (wf_edata _ W); rewrite E; left; reflexivity).
  destruct (get_edata (gr w) (rn r) v) as [dp|] eqn:Y; [|contradiction]. destruct (T _ _ _ Y) as [Z _]. rewrite rn_odd in Z. discriminate.
Qed.

Lemma add_dep_res_no_cycle w t r dp w' : StoreOK w -> add_dependency w (tn t) (rn r) dp = (AddCycle, w') -> False.
Proof.
  intros H. unfold add_dependency.
  destruct (live (gr w) (tn t)) eqn:Lt; [destruct (live (gr w) (rn r)) eqn:Lr|].
  - pose proof (add_edge_cycle_iff (gr w) (tn t) (rn r) dp (proj1 H) Lt Lr) as I.
    destruct (add_edge (gr w) (tn t) (rn r) dp) as [[b|[|]|] g'] eqn:AE; cbn [fst] in *; intros X; inversion X.
    destruct (I ltac:(discriminate)) as [I1 _]. destruct (I1 eq_refl) as [E|Pth]; [exact (tn_rn _ _ E)|].
    inversion Pth; subst; rewrite (res_no_kids w r H) in *; contradiction.
  - unfold add_edge. rewrite Lt, Lr. cbn. intros X; inversion X.
  - unfold add_edge. rewrite Lt. cbn. intros X; inversion X.
Qed.

Lemma goc_res_row w r t : kidsT (get_or_create_resource_node w r) t = kidsT w t /\
  forall d, row (get_or_create_resource_node w r) t d = row w t d.
Proof.
  unfold kidsT, row, get_or_create_resource_node. destruct (live (gr w) (rn r)) eqn:L; [split; reflexivity|].
  split; [apply (add_node_same _ _ L)|reflexivity].
Qed.
Lemma goc_task_row w x t : kidsT (get_or_create_task_node w x) t = kidsT w t /\
  forall d, row (get_or_create_task_node w x) t d = row w t d.
Proof.
  unfold kidsT, row, get_or_create_task_node. destruct (live (gr w) (tn x)) eqn:L; [split; reflexivity|].
  split; [apply (add_node_same _ _ L)|reflexivity].
Qed.

Lemma sess_read_row w t r c x w' : StoreOK w -> cur w = Some t -> ~ In (rn r) (kidsT w t) ->
  sess_read RC w r c = Done x w' ->
  x = inl (rc_view (RC c) (get_content w r)) /\ RowStep t w w' (rn r) (DRead r c (sf c r (get_content w r))).
Proof.
  intros H Hc Hn. unfold sess_read. rewrite Hc.
  set (w2 := get_or_create_resource_node (emit w (EReadStart r c)) r).
  destruct (goc_res_row (emit w (EReadStart r c)) r t) as [K2 R2]. fold w2 in K2, R2.
  assert (H2 : StoreOK w2) by (apply goc_res_ok; exact H).
  destruct (hidden_read_check w2 t r); [discriminate|]. rewrite HS.
  destruct (add_dependency (emit w2 (EReadEnd r c (sf c r (get_content w r)))) (tn t) (rn r) (DRead r c (sf c r (get_content w r)))) as [[| |] w4] eqn:AD; intros X; inversion X; subst.
  - split; [reflexivity|].
    assert (Hn3 : ~ In (rn r) (kids_of (gr (emit w2 (EReadEnd r c (sf c r (get_content w r))))) (tn t))).
    { unfold kidsT in *. cbn [gr emit]. rewrite K2. exact Hn. }
    destruct (add_dep_new (emit w2 (EReadEnd r c (sf c r (get_content w r)))) _ _ _ _ (proj1 H2) Hn3 AD) as [A [B C]].
    unfold RowStep, kidsT, row in *. cbn [gr emit] in *. split; [rewrite A; f_equal; exact K2|]. split; [exact B|]. intros d' Hd. rewrite C by exact Hd. apply R2.
  - exfalso. eapply (add_dep_res_no_cycle (emit w2 (EReadEnd r c (sf c r (get_content w r))))); [|exact AD]. exact H2.
Qed.

Lemma sess_write_row w t r c v x w' : StoreOK w -> cur w = Some t -> ~ In (rn r) (kidsT w t) ->
  sess_write RC w r c v = Done x w' ->
  x = inl tt /\ RowStep t w w' (rn r) (DWrite r c (sf c r v)).
Proof.
  intros H Hc Hn. unfold sess_write. rewrite Hc.
  set (w2 := get_or_create_resource_node (emit w (EWriteStart r c)) r).
  destruct (goc_res_row (emit w (EWriteStart r c)) r t) as [K2 R2]. fold w2 in K2, R2.
  assert (H2 : StoreOK w2) by (apply goc_res_ok; exact H).
  destruct (validate_write w2 t r); [discriminate|]. rewrite HS. rewrite get_content_set_content.
  assert (G3 : gr (emit (set_content w2 r v) (EWriteEnd r c (sf c r v))) = gr w2) by (destruct v; reflexivity).
  destruct (add_dependency (emit (set_content w2 r v) (EWriteEnd r c (sf c r v))) (tn t) (rn r) (DWrite r c (sf c r v))) as [[| |] w5] eqn:AD; intros X; inversion X; subst.
  - split; [reflexivity|].
    assert (Hn3 : ~ In (rn r) (kids_of (gr (emit (set_content w2 r v) (EWriteEnd r c (sf c r v)))) (tn t))).
    { rewrite G3. unfold kidsT in *. rewrite K2. exact Hn. }
    destruct (add_dep_new (emit (set_content w2 r v) (EWriteEnd r c (sf c r v))) _ _ _ _ ltac:(rewrite G3; exact (proj1 H2)) Hn3 AD) as [A [B C]].
    unfold RowStep, kidsT, row in *. rewrite G3 in *. split; [rewrite A; f_equal; exact K2|]. split; [exact B|]. intros d' Hd. rewrite C by exact Hd. apply R2.
  - exfalso. eapply (add_dep_res_no_cycle (emit (set_content w2 r v) (EWriteEnd r c (sf c r v)))); [|exact AD]. destruct v; exact H2.
Qed.

Lemma sess_written_to_row w0 t r c v x w' : StoreOK w0 -> cur w0 = Some t -> ~ In (rn r) (kidsT w0 t) ->
  sess_written_to RC w0 r c v = Done x w' ->
  x = inl tt /\ RowStep t w0 w' (rn r) (DWrite r c (sf c r v)).
Proof.
  intros H Hc Hn. unfold sess_written_to.
  set (w := set_content w0 r v).
  assert (G0 : gr w = gr w0) by (unfold w; destruct v; reflexivity).
  assert (Hc' : cur w = Some t) by (unfold w; destruct v; exact Hc). rewrite Hc'.
  set (w2 := get_or_create_resource_node (emit w (EWriteStart r c)) r).
  destruct (goc_res_row (emit w (EWriteStart r c)) r t) as [K2 R2]. fold w2 in K2, R2.
  assert (H2 : StoreOK w2) by (apply goc_res_ok; unfold StoreOK; cbn [gr emit]; rewrite G0; exact H).
  destruct (validate_write w2 t r); [discriminate|]. rewrite HS.
  assert (GC : get_content w2 r = v).
  { unfold w2, get_content, get_or_create_resource_node. destruct (live _ _); cbn [rstate set_gr emit]; apply (get_content_set_content w0 r v). }
  rewrite GC.
  destruct (add_dependency (emit w2 (EWriteEnd r c (sf c r v))) (tn t) (rn r) (DWrite r c (sf c r v))) as [[| |] w5] eqn:AD; intros X; inversion X; subst x w'.
  - split; [reflexivity|].
    assert (Hn3 : ~ In (rn r) (kids_of (gr w2) (tn t))).
    { unfold kidsT in *. rewrite K2. cbn [gr emit]. rewrite G0. exact Hn. }
    destruct (add_dep_new (emit w2 (EWriteEnd r c (sf c r v))) _ _ _ _ (proj1 H2) Hn3 AD) as [A [B C]].
    unfold RowStep, kidsT, row in *. change (gr (emit w2 (EWriteEnd r c (sf c r v)))) with (gr w2) in A, B, C.
    split; [rewrite A; f_equal; rewrite K2; cbn [gr emit]; rewrite G0; reflexivity|]. split; [exact B|].
    intros d' Hd. rewrite C by exact Hd. rewrite R2. cbn [gr emit]. rewrite G0. reflexivity.
  - exfalso. eapply (add_dep_res_no_cycle (emit w2 (EWriteEnd r c (sf c r v)))); [|exact AD]. exact H2.
Qed.

(* ---- preconditions of an executing task t below the stack S ---- *)
Record Pre (t : task) (S : list task) (w : world) : Prop := mkPre {
  pre_ok : StoreOK w; pre_inv : Inv2 w; pre_chain : Chain w (t :: S); pre_cur : cur w = Some t;
  pre_out : get_task_output w t = None; pre_nores : NoResAt w t
}.
Lemma pre_step {A} t S w (a : A) w1 : Pre t S w ->
  okP S [t] [] w (Done a w1) (fun _ w' => cur w' = Some t /\ NoResAt w' t) -> Pre t S w1.
Proof.
  intros [H J0 C Hc Ho Hn] [[seg P1] [Hc1 Hn1]]. constructor.
  - apply (po_ok _ _ _ _ _ _ P1). - apply (po_inv _ _ _ _ _ _ P1 J0). - eapply chain_post; eassumption. - exact Hc1.
  - rewrite (po_oframe _ _ _ _ _ _ P1) by (right; left; reflexivity). exact Ho. - exact Hn1.
Qed.

Definition outK {A} (m : outcome A) : Prop :=
  match m with Done _ w' => K w' | Abort k w' => k = ABug 4 \/ K w' | OutOfFuel => True end.

Lemma K_same w w' : gr w' = gr w -> outs w' = outs w -> K w -> K w'.
Proof.
  intros G O. apply K_frame. intros t _. unfold get_task_output, kidsT, row. rewrite G, O. repeat split.
Qed.
Lemma leaf_K t w w' : Leaf t w w' -> get_task_output w t = None -> K w -> K w'.
Proof.
  intros L Ho. apply K_frame. intros x Hx. rewrite (leaf_out t w w' x L) in *.
  assert (Hne : tn x <> tn t) by (intros E; apply tn_inj in E; subst; contradiction).
  split; [reflexivity|]. split; [apply (lf_grows _ _ _ L); exact Hne|intros d; apply (lf_eother _ _ _ L); exact Hne].
Qed.

Definition KMC (mc : world -> task -> outcome Z) : Prop :=
  forall w t S, StoreOK w -> Inv2 w -> Chain w S -> entry_ok w S t -> K w -> outK (mc w t).
Definition KREQ (t : task) (S : list task) (req : world -> task -> ocid -> outcome Z) : Prop :=
  forall w x c, Pre t S w -> K w -> outK (req w x c).
Definition ROWREQ (t : task) (S : list task) (req : world -> task -> ocid -> outcome Z) : Prop :=
  forall w x c o w', Pre t S w -> ~ In (tn x) (kidsT w t) -> req w x c = Done o w' ->
    RowStep t w w' (tn x) (DRequire x c (oc_stamp (OC c) o)).

(* the common prefix of require: start event, node, reservation *)
Lemma require_prefix t S w x c : Pre t S w ->
  let w2 := get_or_create_task_node (emit w (ERequireStart x c)) x in
  Leaf t w w2 /\ cur w2 = Some t /\
  match add_dependency w2 (tn t) (tn x) DReserved with
  | (AddOk, w3) => Leaf t w w3 /\ edge w3 t x /\ Chain w3 (t :: S) /\ Inv2 w3 /\ get_task_output w3 t = None /\ cur w3 = Some t
  | (AddCycle, w3) => Leaf t w w3
  | (AddBug, _) => True
  end.
Proof.
  intros [H J0 C Hc Ho Hn] w2.
  assert (L2 : Leaf t w w2).
  { eapply leaf_trans; [apply (leaf_emit t w (ERequireStart x c) H Logic.I)|apply leaf_goc_task; exact H]. }
  assert (Hc2 : cur w2 = Some t) by (rewrite (lf_cur _ _ _ L2); exact Hc).
  split; [exact L2|]. split; [exact Hc2|].
  pose proof (leaf_add_dependency t w2 (tn x) DReserved (lf_ok _ _ _ L2) (tn_even x)) as A.
  assert (Hw : is_write (Some DReserved) = true -> forall r, tn x = rn r -> writers (gr w2) r = []) by (intros X; discriminate).
  specialize (A Hw).
  destruct (add_dependency w2 (tn t) (tn x) DReserved) as [[| |] w3] eqn:AD; [| |exact Logic.I].
  - assert (L3 : Leaf t w w3) by (eapply leaf_trans; eassumption).
    split; [exact L3|]. split; [eapply add_dependency_edge; [apply (lf_ok _ _ _ L2)|exact AD]|].
    split; [apply (leaf_chain RC OC P w w3 S t C L3)|]. split; [apply (leaf_inv t w w3 L3 Ho J0)|].
    split; [rewrite (leaf_out t w w3 t L3); exact Ho|rewrite (lf_cur _ _ _ L3); exact Hc].
  - eapply leaf_trans; eassumption.
Qed.

Lemma require_with_K mc t S : MCspec mc -> KMC mc -> KREQ t S (require_with OC mc).
Proof.
  intros HM HK w x c PR Kw. pose proof (require_prefix t S w x c PR) as RP. cbv zeta in RP.
  destruct PR as [H J0 C Hc Ho Hn]. unfold require_with.
  set (w2 := get_or_create_task_node (emit w (ERequireStart x c)) x) in *.
  destruct RP as [L2 [Hc2 RP]]. unfold reserve_require_dependency. rewrite Hc2.
  destruct (add_dependency w2 (tn t) (tn x) DReserved) as [[| |] w3] eqn:AD; cbn [bind outK].
  - destruct RP as [L3 [E3 [C3 [J3 [Ho3 Hc3]]]]]. pose proof (leaf_K t w w3 L3 Ho Kw) as K3.
    pose proof (HM w3 x (t :: S) (lf_ok _ _ _ L3) J3 C3 E3) as M.
    pose proof (HK w3 x (t :: S) (lf_ok _ _ _ L3) J3 C3 E3 K3) as MK.
    destruct (mc w3 x) as [o w4|k w4|]; cbn [bind outK okP] in *; [| |exact Logic.I].
    + destruct M as [[s4 P4] [Hc4 _]]. rewrite Hc3 in Hc4.
      set (st := oc_stamp (OC c) o). set (w5 := emit w4 (ERequireEnd x c st o)).
      assert (K5 : K w5) by (apply (K_same w4); [reflexivity|reflexivity|exact MK]).
      assert (Ho5 : get_task_output w5 t = None).
      { change (get_task_output w4 t = None). rewrite (po_oframe _ _ _ _ _ _ P4) by (left; left; reflexivity). exact Ho3. }
      pose proof (pr_update _ _ (StoreOK_preserved RC) w5 x c st (po_ok _ _ _ _ _ _ P4)) as U.
      unfold update_require_dependency in *. change (cur w5) with (cur w4) in *. rewrite Hc4 in *.
      destruct (get_edata (gr w5) (tn t) (tn x)) as [dd|] eqn:X5; cbn [bind outK]; [|right; exact K5].
      cbn [Inv.okO] in U.
      apply (K_frame w5); [|exact K5]. intros y Hy.
      assert (Hne : y <> t).
      { intros ->. apply Hy. exact Ho5. }
      split; [reflexivity|]. split; [reflexivity|]. intros d. unfold row. cbn [gr set_gr]. rewrite get_edata_insert.
      destruct (pair_eqb (tn t, tn x) (tn y, d)) eqn:Z; [|reflexivity]. apply pair_eqb_eq in Z. inversion Z as [[Z1 Z2]]. apply tn_inj in Z1. congruence.
    + exact MK.
  - right. apply (leaf_K t w w3 RP Ho Kw).
  - left. reflexivity.
Qed.

Lemma add_dep_reserved_new w s d w3 : WF (gr w) -> ~ In d (kids_of (gr w) s) -> add_dependency w s d DReserved = (AddOk, w3) ->
  kids_of (gr w3) s = kids_of (gr w) s ++ [d] /\ forall v, v <> d -> get_edata (gr w3) s v = get_edata (gr w) s v.
Proof. intros W Hn AD. destruct (add_dep_new w s d DReserved w3 W Hn AD) as [A [_ C]]. split; assumption. Qed.

Lemma require_with_row mc t S : MCspec mc -> ROWREQ t S (require_with OC mc).
Proof.
  intros HM w x c o w' PR Hnew. pose proof (require_prefix t S w x c PR) as RP. cbv zeta in RP.
  destruct PR as [H J0 C Hc Ho Hn]. unfold require_with.
  set (w2 := get_or_create_task_node (emit w (ERequireStart x c)) x) in *.
  destruct RP as [L2 [Hc2 RP]]. unfold reserve_require_dependency. rewrite Hc2.
  destruct (goc_task_row (emit w (ERequireStart x c)) x t) as [K2 R2]. fold w2 in K2, R2.
  destruct (add_dependency w2 (tn t) (tn x) DReserved) as [[| |] w3] eqn:AD; cbn [bind]; try discriminate.
  destruct RP as [L3 [E3 [C3 [J3 [Ho3 Hc3]]]]].
  assert (Hn2 : ~ In (tn x) (kids_of (gr w2) (tn t))) by (unfold kidsT in *; rewrite K2; exact Hnew).
  destruct (add_dep_reserved_new w2 (tn t) (tn x) w3 (proj1 (lf_ok _ _ _ L2)) Hn2 AD) as [A3 B3].
  pose proof (HM w3 x (t :: S) (lf_ok _ _ _ L3) J3 C3 E3) as M.
  destruct (mc w3 x) as [o4 w4|k w4|]; cbn [bind okP] in *; try discriminate.
  destruct M as [[s4 P4] [Hc4 _]]. rewrite Hc3 in Hc4.
  set (st := oc_stamp (OC c) o4). set (w5 := emit w4 (ERequireEnd x c st o4)).
  unfold update_require_dependency. change (cur w5) with (cur w4). rewrite Hc4.
  destruct (get_edata (gr w5) (tn t) (tn x)) as [dd|] eqn:X5; cbn [bind]; try discriminate.
  intros X. inversion X. subst o w'. clear X.
  assert (K4 : kids_of (gr w4) (tn t) = kids_of (gr w3) (tn t)) by (apply (po_frame _ _ _ _ _ _ P4); left; reflexivity).
  assert (E4 : forall d, get_edata (gr w4) (tn t) d = get_edata (gr w3) (tn t) d) by (intros d; apply (po_eframe _ _ _ _ _ _ P4); left; reflexivity).
  unfold RowStep, kidsT, row. cbn [gr set_gr]. split; [|split].
  - change (kids_of (gr w4) (tn t) = kids_of (gr w) (tn t) ++ [tn x]). rewrite K4, A3. f_equal. exact K2.
  - rewrite get_edata_insert. rewrite (proj2 (pair_eqb_eq _ _) eq_refl). reflexivity.
  - intros d' Hd. rewrite get_edata_insert. destruct (pair_eqb (tn t, tn x) (tn t, d')) eqn:Z; [apply pair_eqb_eq in Z; inversion Z; congruence|].
    change (gr w5) with (gr w4). rewrite E4, B3 by exact Hd. apply R2.
Qed.

Lemma exec_prog_full t S req : REQspec t S req -> KREQ t S req -> ROWREQ t S req ->
  forall p w, Pre t S w -> K w -> NR (kidsT w t) p ->
  match exec_prog RC OC req p w with
  | Done o w' => K w' /\ Rep (row w' t) p (kidsT w t) o (kidsT w' t) /\ (forall d, In d (kidsT w t) -> row w' t d = row w t d)
  | Abort k w' => k = ABug 4 \/ K w'
  | OutOfFuel => True
  end.
Proof.
  intros HR HK HRow. induction p as [o| |x c k IH|r c k IH|r c v k IH|r c v k IH]; intros w PR Kw HN; cbn [exec_prog].
  - split; [exact Kw|]. split; [constructor|reflexivity].
  - right. exact Kw.
  - inversion HN as [| |sn x' c' k' Hx Hk| | |]; subst.
    pose proof (HR w x c (pre_ok _ _ _ PR) (pre_inv _ _ _ PR) (pre_chain _ _ _ PR) (pre_cur _ _ _ PR) (pre_out _ _ _ PR) (pre_nores _ _ _ PR)) as SP.
    pose proof (HK w x c PR Kw) as KQ. pose proof (HRow w x c) as RQ.
    destruct (req w x c) as [ox w1|k1 w1|]; cbn [bind outK] in *; [| exact KQ | exact Logic.I].
    pose proof (pre_step t S w ox w1 PR SP) as PR1. destruct (RQ ox w1 PR Hx eq_refl) as [A [B C]].
    specialize (IH (oc_view (OC c) ox) w1 PR1 KQ). rewrite A in IH. specialize (IH (Hk _)).
    destruct (exec_prog RC OC req (k (oc_view (OC c) ox)) w1) as [o w'|k2 w'|]; [|exact IH|exact Logic.I].
    destruct IH as [K' [R' St']]. split; [exact K'|]. split.
    + eapply Rep_req; [|exact R']. rewrite St' by (apply in_or_app; right; left; reflexivity). exact B.
    + intros d Hd. rewrite St' by (apply in_or_app; left; exact Hd). apply C. intros ->. contradiction.
  - inversion HN as [| | |sn r' c' k' Hx Hk| |]; subst.
    pose proof (sess_read_leaf RC w t r c (pre_ok _ _ _ PR) (pre_cur _ _ _ PR)) as LF.
    pose proof (sess_read_nores RC w t r c (pre_ok _ _ _ PR) (pre_cur _ _ _ PR) (pre_nores _ _ _ PR)) as NRs.
    pose proof (okP_of_leafO S t w (sess_read RC w r c) (chain_head_notin _ _ _ (pre_chain _ _ _ PR)) (pre_cur _ _ _ PR) (pre_out _ _ _ PR) (pre_nores _ _ _ PR) LF NRs) as SP.
    pose proof (sess_read_row w t r c) as RQ.
    destruct (sess_read RC w r c) as [xv w1|k1 w1|]; cbn [bind leafO] in *; [| |exact Logic.I].
    + pose proof (pre_step t S w xv w1 PR SP) as PR1. pose proof (leaf_K t w w1 LF (pre_out _ _ _ PR) Kw) as K1.
      destruct (RQ xv w1 (pre_ok _ _ _ PR) (pre_cur _ _ _ PR) Hx eq_refl) as [-> [A [B C]]].
      specialize (IH (inl (rc_view (RC c) (get_content w r))) w1 PR1 K1). rewrite A in IH. specialize (IH (Hk _)).
      destruct (exec_prog RC OC req (k (inl (rc_view (RC c) (get_content w r)))) w1) as [o w'|k2 w'|]; [|exact IH|exact Logic.I].
      destruct IH as [K' [R' St']]. split; [exact K'|]. split.
      * eapply Rep_read; [|exact R']. rewrite St' by (apply in_or_app; right; left; reflexivity). exact B.
      * intros d Hd. rewrite St' by (apply in_or_app; left; exact Hd). apply C. intros ->. contradiction.
    + destruct LF as [->|[_ LF]]; [left; reflexivity|right]. apply (leaf_K t w w1 LF (pre_out _ _ _ PR) Kw).
  - inversion HN as [| | | |sn r' c' v' k' Hx Hk|]; subst.
    pose proof (sess_write_leaf RC w t r c v (pre_ok _ _ _ PR) (pre_cur _ _ _ PR)) as LF.
    pose proof (sess_write_nores RC w t r c v (pre_ok _ _ _ PR) (pre_cur _ _ _ PR) (pre_nores _ _ _ PR)) as NRs.
    pose proof (okP_of_leafO S t w (sess_write RC w r c v) (chain_head_notin _ _ _ (pre_chain _ _ _ PR)) (pre_cur _ _ _ PR) (pre_out _ _ _ PR) (pre_nores _ _ _ PR) LF NRs) as SP.
    pose proof (sess_write_row w t r c v) as RQ.
    destruct (sess_write RC w r c v) as [xv w1|k1 w1|]; cbn [bind leafO] in *; [| |exact Logic.I].
    + pose proof (pre_step t S w xv w1 PR SP) as PR1. pose proof (leaf_K t w w1 LF (pre_out _ _ _ PR) Kw) as K1.
      destruct (RQ xv w1 (pre_ok _ _ _ PR) (pre_cur _ _ _ PR) Hx eq_refl) as [-> [A [B C]]].
      specialize (IH (inl tt) w1 PR1 K1). rewrite A in IH. specialize (IH (Hk _)).
      destruct (exec_prog RC OC req (k (inl tt)) w1) as [o w'|k2 w'|]; [|exact IH|exact Logic.I].
      destruct IH as [K' [R' St']]. split; [exact K'|]. split.
      * eapply Rep_write; [|exact R']. rewrite St' by (apply in_or_app; right; left; reflexivity). exact B.
      * intros d Hd. rewrite St' by (apply in_or_app; left; exact Hd). apply C. intros ->. contradiction.
    + destruct LF as [->|[_ LF]]; [left; reflexivity|right]. apply (leaf_K t w w1 LF (pre_out _ _ _ PR) Kw).
  - inversion HN as [| | | | |sn r' c' v' k' Hx Hk]; subst.
    pose proof (sess_written_to_leaf RC w t r c v (pre_ok _ _ _ PR) (pre_cur _ _ _ PR)) as LF.
    pose proof (sess_written_to_nores RC w t r c v (pre_ok _ _ _ PR) (pre_cur _ _ _ PR) (pre_nores _ _ _ PR)) as NRs.
    pose proof (okP_of_leafO S t w (sess_written_to RC w r c v) (chain_head_notin _ _ _ (pre_chain _ _ _ PR)) (pre_cur _ _ _ PR) (pre_out _ _ _ PR) (pre_nores _ _ _ PR) LF NRs) as SP.
    pose proof (sess_written_to_row w t r c v) as RQ.
    destruct (sess_written_to RC w r c v) as [xv w1|k1 w1|]; cbn [bind leafO] in *; [| |exact Logic.I].
    + pose proof (pre_step t S w xv w1 PR SP) as PR1. pose proof (leaf_K t w w1 LF (pre_out _ _ _ PR) Kw) as K1.
      destruct (RQ xv w1 (pre_ok _ _ _ PR) (pre_cur _ _ _ PR) Hx eq_refl) as [-> [A [B C]]].
      specialize (IH (inl tt) w1 PR1 K1). rewrite A in IH. specialize (IH (Hk _)).
      destruct (exec_prog RC OC req (k (inl tt)) w1) as [o w'|k2 w'|]; [|exact IH|exact Logic.I].
      destruct IH as [K' [R' St']]. split; [exact K'|]. split.
      * eapply Rep_wto; [|exact R']. rewrite St' by (apply in_or_app; right; left; reflexivity). exact B.
      * intros d Hd. rewrite St' by (apply in_or_app; left; exact Hd). apply C. intros ->. contradiction.
    + destruct LF as [->|[_ LF]]; [left; reflexivity|right]. apply (leaf_K t w w1 LF (pre_out _ _ _ PR) Kw).
Qed.

Lemma execute_with_K t S req : REQspec t S req -> KREQ t S req -> ROWREQ t S req ->
  forall w, StoreOK w -> Inv2 w -> Chain w (t :: S) -> memN t (consistent w) = false -> K w ->
  outK (execute_with RC OC P req w t).
Proof.
  intros HR HK HRow w H J0 C Hn Kw. pose proof (chain_head_notin _ _ _ C) as Ht. unfold execute_with.
  destruct (reset_task_facts w t H) as [H1 [K1 [L1 [T1 [C1 [U1 [E1 [E0 [O0 O1]]]]]]]]].
  set (w1 := reset_task w t) in *.
  set (w2 := emit (set_cur w1 (Some t)) (EExecStart t)).
  assert (J1 : Inv2 w1).
  { destruct J0 as [N Co]. split.
    - intros t' d X. destruct (N.eq_dec t' t) as [->|Hne]; [exact O0|]. rewrite O1 by exact Hne.
      rewrite E1 in X by (intros E; apply tn_inj in E; contradiction). apply (N t' d X).
    - intros t' X. rewrite C1 in X. destruct (N.eq_dec t' t) as [->|Hne]; [congruence|]. rewrite O1 by exact Hne. apply (Co t' X). }
  assert (Ch2 : Chain w2 (t :: S)).
  { destruct C as [N C]. split; [exact N|]. apply (chain_grow w w2); [exact C|].
    intros s Hs. apply K1. intros E. apply tn_inj in E. subst. tauto. }
  assert (N2 : NoResAt w2 t) by (intros d; change (gr w2) with (gr w1); rewrite E0; discriminate).
  assert (PR2 : Pre t S w2) by (constructor; [exact H1|exact J1|exact Ch2|reflexivity|exact O0|exact N2]).
  assert (K2 : K w2).
  { apply (K_frame w); [|exact Kw]. intros y Hy. change (get_task_output w1 y <> None) in Hy.
    assert (Hne : y <> t) by (intros ->; contradiction).
    split; [apply O1; exact Hne|]. unfold kidsT, row. change (gr w2) with (gr w1).
    split; [apply K1|intros d; apply E1]; intros E; apply tn_inj in E; contradiction. }
  assert (KT2 : kidsT w2 t = []).
  { unfold kidsT. change (gr w2) with (gr w1). destruct (kids_of (gr w1) (tn t)) as [|v tl] eqn:E; [reflexivity|]. exfalso.
    assert (X : get_edata (gr w1) (tn t) v <> None) by (apply (wf_edata _ (proj1 H1)); rewrite E; left; reflexivity).
    rewrite E0 in X. contradiction. }
  pose proof (exec_prog_full t S req HR HK HRow (P t) w2 PR2 K2) as B. rewrite KT2 in B. specialize (B (HNR t)).
  destruct (exec_prog RC OC req (P t) w2) as [o w3|k w3|]; cbn [bind outK]; [|exact B|exact Logic.I].
  destruct B as [K3 [R3 _]].
  intros y oy Hy. unfold get_task_output, set_task_output in Hy. cbn [outs set_outs] in Hy.
  destruct (N.eq_dec y t) as [->|Hne].
  - rewrite alookup_aset_eq in Hy. inversion Hy; subst oy. exact R3.
  - rewrite alookup_aset_other in Hy by exact Hne. apply (K3 y oy Hy).
Qed.

Lemma check_deps_K mc t S : MCspec mc -> KMC mc ->
  forall ds w, StoreOK w -> Inv2 w -> Chain w (t :: S) -> (forall d, In d ds -> dep_ok w t d) -> K w ->
  outK (check_deps RC OC mc ds w).
Proof.
  intros HM HK. induction ds as [|d tl IH]; intros w H J0 C HE Kw; cbn [check_deps]; [exact Kw|].
  destruct (HE d (or_introl eq_refl)) as [dp [-> [NRs HX]]].
  assert (HE' : forall w', kids_of (gr w') (tn t) = kids_of (gr w) (tn t) -> forall d, In d tl -> dep_ok w' t d).
  { intros w' Kk d Hd. destruct (HE d (or_intror Hd)) as [dp' [-> [NR' HX']]]. exists dp'. split; [reflexivity|]. split; [exact NR'|].
    intros x c st E. unfold edge. rewrite Kk. apply (HX' x c st E). }
  destruct dp as [|x c st|r c st|r c st]; [congruence| | |].
  - set (w1 := emit w (ECheckTaskStart x c st)).
    assert (P1 : Post (t :: S) [] [] w w1 [ECheckTaskStart x c st]) by (apply post_emit; [exact H|exact Logic.I]).
    assert (C1 : Chain w1 (t :: S)) by (apply (chain_post_all w w1 _ _ _ C P1)).
    assert (E1 : entry_ok w1 (t :: S) x) by (cbn; apply (HX x c st eq_refl)).
    pose proof (HM w1 x (t :: S) H (po_inv _ _ _ _ _ _ P1 J0) C1 E1) as M.
    pose proof (HK w1 x (t :: S) H (po_inv _ _ _ _ _ _ P1 J0) C1 E1 ltac:(apply (K_same w); [reflexivity|reflexivity|exact Kw])) as MK.
    destruct (mc w1 x) as [o w2|k w2|]; cbn [bind outK okP] in *; [|exact MK|exact Logic.I].
    destruct M as [[s2 P2] _].
    set (w3 := emit w2 (ECheckTaskEnd x c st (negb (oc_check (OC c) o st)))).
    assert (K3 : K w3) by (apply (K_same w2); [reflexivity|reflexivity|exact MK]).
    destruct (oc_check (OC c) o st); [|exact K3].
    apply IH.
    + apply (po_ok _ _ _ _ _ _ P2).
    + apply (po_inv _ _ _ _ _ _ P2). apply (po_inv _ _ _ _ _ _ P1 J0).
    + pose proof (chain_post_all w1 w2 (t :: S) [] s2 C1 P2) as [N2 C2']. split; [exact N2|].
      apply (chain_frame w2 w3); [exact C2'|]. intros; reflexivity.
    + apply HE'. change (gr w3) with (gr w2). apply (po_frame _ _ _ _ _ _ P2). left. reflexivity.
    + exact K3.
  - unfold check_resource_td. cbv zeta.
    set (w1 := emit w (ECheckResStart r c st)).
    set (xx := rc_check (RC c) (env w1) r (get_content w1 r) st).
    set (w2 := emit w1 (ECheckResEnd r c st xx)).
    assert (K2 : K w2) by (apply (K_same w); [reflexivity|reflexivity|exact Kw]).
    assert (C2 : Chain w2 (t :: S)).
    { destruct C as [N C]. split; [exact N|]. apply (chain_frame w w2); [exact C|]. intros; reflexivity. }
    destruct xx as [| |e]; cbv iota beta; cbn [outK].
    + apply IH; [exact H|exact J0|exact C2|apply HE'; reflexivity|exact K2].
    + exact K2.
    + apply (K_same w2); [reflexivity|reflexivity|exact K2].
  - unfold check_resource_td. cbv zeta.
    set (w1 := emit w (ECheckResStart r c st)).
    set (xx := rc_check (RC c) (env w1) r (get_content w1 r) st).
    set (w2 := emit w1 (ECheckResEnd r c st xx)).
    assert (K2 : K w2) by (apply (K_same w); [reflexivity|reflexivity|exact Kw]).
    assert (C2 : Chain w2 (t :: S)).
    { destruct C as [N C]. split; [exact N|]. apply (chain_frame w w2); [exact C|]. intros; reflexivity. }
    destruct xx as [| |e]; cbv iota beta; cbn [outK].
    + apply IH; [exact H|exact J0|exact C2|apply HE'; reflexivity|exact K2].
    + exact K2.
    + apply (K_same w2); [reflexivity|reflexivity|exact K2].
Qed.

Lemma K_goc_task w t : K w -> K (get_or_create_task_node w t).
Proof.
  apply K_frame. intros y _. destruct (goc_task_row w t y) as [A B].
  split; [|split; [exact A|exact B]]. unfold get_task_output, get_or_create_task_node. destruct (live _ _); reflexivity.
Qed.

Theorem make_consistent_td_K fuel : KMC (make_consistent_td RC OC P fuel).
Proof.
  induction fuel as [|f IH]; intros w t S H J0 C E Kw; cbn [make_consistent_td]; [exact Logic.I|].
  pose proof (goc_task_post S w t H) as P0.
  set (w0 := get_or_create_task_node w t) in *.
  pose proof (K_goc_task w t Kw) as K0. fold w0 in K0.
  pose proof (po_ok _ _ _ _ _ _ P0) as H0. pose proof (po_inv _ _ _ _ _ _ P0 J0) as J1.
  pose proof (chain_post_all w w0 S [] [] C P0) as C0.
  assert (E0 : entry_ok w0 S t).
  { destruct S as [|top tl]; [exact Logic.I|]. cbn in *. unfold edge in *. rewrite (po_frame _ _ _ _ _ _ P0) by (left; reflexivity). exact E. }
  pose proof (entry_not_in w0 S t (proj1 H0) C0 E0) as Ht.
  assert (C1 : Chain w0 (t :: S)).
  { destruct C0 as [N0 K0']. split; [constructor; assumption|]. destruct S as [|top tl]; [exact Logic.I|]. split; [exact E0|exact K0']. }
  pose proof (make_consistent_td_spec RC OC P f) as HM.
  pose proof (require_with_spec RC OC P (make_consistent_td RC OC P f) t S HM) as HR.
  pose proof (require_with_K (make_consistent_td RC OC P f) t S HM IH) as HKq.
  pose proof (require_with_row (make_consistent_td RC OC P f) t S HM) as HRow.
  assert (EM : forall w', StoreOK w' -> Inv2 w' -> Chain w' (t :: S) -> memN t (consistent w') = false -> K w' ->
               outK (bind (execute_with RC OC P (require_with OC (make_consistent_td RC OC P f)) w' t) (fun o w2 => Done o (mark_consistent w2 t)))).
  { intros w' A1 A2 A3 A4 A5. pose proof (execute_with_K t S _ HR HKq HRow w' A1 A2 A3 A4 A5) as X.
    destruct (execute_with RC OC P (require_with OC (make_consistent_td RC OC P f)) w' t) as [o w2|k w2|]; cbn [bind outK] in *; [|exact X|exact Logic.I].
    apply (K_same w2); [reflexivity|reflexivity|exact X]. }
  destruct (memN t (consistent w0)) eqn:Hm.
  - destruct (get_task_output w0 t); [exact K0|right; exact K0].
  - destruct (get_task_output w0 t) as [o0|] eqn:Ho.
    + pose proof (check_deps_spec RC OC (make_consistent_td RC OC P f) t S HM (deps_of_task w0 t) w0 H0 J1 C1 (deps_ok w0 t o0 H0 J1 Ho)) as CD.
      pose proof (check_deps_K (make_consistent_td RC OC P f) t S HM IH (deps_of_task w0 t) w0 H0 J1 C1 (deps_ok w0 t o0 H0 J1 Ho) K0) as CK.
      destruct (check_deps RC OC (make_consistent_td RC OC P f) (deps_of_task w0 t) w0) as [ok w1|k w1|]; cbn [bind outK okP] in *; [|exact CK|exact Logic.I].
      destruct CD as [[s1 P1] Hc1].
      destruct (if ok then get_task_output w1 t else None) as [o|].
      * apply (K_same w1); [reflexivity|reflexivity|exact CK].
      * apply EM; [apply (po_ok _ _ _ _ _ _ P1)|apply (po_inv _ _ _ _ _ _ P1 J1)|eapply chain_post_all; eassumption| |exact CK].
        destruct (memN t (consistent w1)) eqn:Z; [|reflexivity]. apply (po_keep _ _ _ _ _ _ P1) in Z; [congruence|left; left; reflexivity].
    + apply EM; assumption.
Qed.

(* ---- sessions and histories ---- *)
Variable always : ocid.

Lemma K_init : K init_world. Proof. intros t o X. discriminate. Qed.

Lemma require_with_top_K mc w t c : MCspec mc -> KMC mc -> StoreOK w -> Inv2 w -> cur w = None -> K w ->
  outK (require_with OC mc w t c).
Proof.
  intros HM HK H J0 Hc Kw. unfold require_with.
  set (w1 := emit w (ERequireStart t c)). set (w2 := get_or_create_task_node w1 t).
  assert (P2 : Post [] [] [] w w2 ([ERequireStart t c] ++ [])).
  { eapply post_seq; [apply post_emit; [exact H|exact Logic.I]|apply goc_task_post; exact H]. }
  assert (Hc2 : cur w2 = None) by (unfold w2, get_or_create_task_node; destruct (live _ _); exact Hc).
  assert (K2 : K w2) by (apply K_goc_task; apply (K_same w); [reflexivity|reflexivity|exact Kw]).
  unfold reserve_require_dependency. rewrite Hc2. cbn [bind].
  pose proof (HM w2 t [] (po_ok _ _ _ _ _ _ P2) (po_inv _ _ _ _ _ _ P2 J0) (chain_nil w2) Logic.I) as M.
  pose proof (HK w2 t [] (po_ok _ _ _ _ _ _ P2) (po_inv _ _ _ _ _ _ P2 J0) (chain_nil w2) Logic.I K2) as MK.
  destruct (mc w2 t) as [o w4|k w4|]; cbn [bind outK okP] in *; [|exact MK|exact Logic.I].
  destruct M as [_ [Hc4 _]]. unfold update_require_dependency.
  change (cur (emit w4 (ERequireEnd t c (oc_stamp (OC c) o) o))) with (cur w4). rewrite Hc4, Hc2. cbn [bind outK].
  apply (K_same w4); [reflexivity|reflexivity|exact MK].
Qed.

Lemma session_require_K fuel w t : StoreOK w -> Inv2 w -> K w -> outK (session_require RC OC P always fuel w t).
Proof.
  intros H J0 Kw. unfold session_require, require_td.
  pose proof (require_with_top_K (make_consistent_td RC OC P fuel) (emit (set_cur w None) EBuildStart) t always
                (make_consistent_td_spec RC OC P fuel) (make_consistent_td_K fuel) H J0 eq_refl
                ltac:(apply (K_same w); [reflexivity|reflexivity|exact Kw])) as X.
  destruct (require_with OC (make_consistent_td RC OC P fuel) (emit (set_cur w None) EBuildStart) t always) as [o w2|k w2|]; cbn [bind outK] in *; [|exact X|exact Logic.I].
  apply (K_same w2); [reflexivity|reflexivity|exact X].
Qed.

Theorem session_td_K fuel ops : forall w, td_only ops -> J w -> K w ->
  Exists bug4 (fst (run_session RC OC P always fuel w ops)) \/ K (snd (run_session RC OC P always fuel w ops)).
Proof.
  induction ops as [|o tl IH]; intros w TD Jw Kw; cbn [run_session]; [right; exact Kw|].
  destruct o as [t|ch]; [|destruct TD]. cbn [td_only] in TD. cbn [run_sop].
  pose proof (session_require_K fuel w t (proj1 Jw) (proj2 Jw) Kw) as SK.
  pose proof (session_require_execs RC OC P always fuel w t Jw) as SE.
  destruct (session_require RC OC P always fuel w t) as [x w1|k w1|]; cbn [outK] in *.
  - destruct SE as [J1 _]. specialize (IH w1 TD J1 SK).
    destruct (run_session RC OC P always fuel w1 tl) as [rs w2]. cbn [fst snd] in *.
    destruct IH as [IH|IH]; [left; right; exact IH|right; exact IH].
  - cbn [fst snd]. destruct SK as [->|SK]; [left; left; reflexivity|right; exact SK].
  - cbn [fst snd]. right. exact Kw.
Qed.

Theorem history_td_JK fuel h : forall w, td_hist h -> J w -> K w ->
  Exists (Exists bug4) (fst (run_history RC OC P always fuel w h)) \/
  (J (snd (run_history RC OC P always fuel w h)) /\ K (snd (run_history RC OC P always fuel w h))).
Proof.
  induction h as [|s tl IH]; intros w TD Jw Kw; cbn [run_history]; [right; split; assumption|].
  assert (X : Exists bug4 (fst (run_step RC OC P always fuel w s)) \/
              (J (snd (run_step RC OC P always fuel w s)) /\ K (snd (run_step RC OC P always fuel w s)))).
  { destruct s as [r v|f|ops]; cbn [run_step fst snd].
    - right. split; [apply J_set_content; exact Jw|]. apply (K_same w); [destruct v; reflexivity|destruct v; reflexivity|exact Kw].
    - right. split; [exact Jw|apply (K_same w); [reflexivity|reflexivity|exact Kw]].
    - destruct TD as [TD _].
      assert (Kn : K (new_session w)) by (apply (K_same w); [reflexivity|reflexivity|exact Kw]).
      destruct (session_td_ran RC OC P always fuel ops (new_session w) TD (J_new_session w Jw)) as [B|[_ [seg R]]]; [left; exact B|].
      destruct (session_td_K fuel ops (new_session w) TD (J_new_session w Jw) Kn) as [B|Kq]; [left; exact B|right].
      split; [apply (ran_ok _ _ _ R)|exact Kq]. }
  assert (TD' : td_hist tl) by (destruct s; [exact TD|exact TD|exact (proj2 TD)]).
  destruct (run_step RC OC P always fuel w s) as [r w']. cbn [fst snd] in X.
  destruct X as [X|[Jw' Kw']].
  - destruct (run_history RC OC P always fuel w' tl) as [rs w'']. cbn [fst]. left. left. exact X.
  - specialize (IH w' TD' Jw' Kw'). destruct (run_history RC OC P always fuel w' tl) as [rs w'']. cbn [fst snd] in *.
    destruct IH as [IH|IH]; [left; right; exact IH|right; exact IH].
Qed.

(* C08: in every store reachable by a history of top-down sessions and external changes -- including the stores left by
   aborted builds -- the dependency record of every task that has an output is exactly one complete run of its program *)
Theorem history_td_exact_record fuel h : td_hist h ->
  ~ Exists (Exists bug4) (fst (run_history RC OC P always fuel init_world h)) ->
  forall t o, get_task_output (snd (run_history RC OC P always fuel init_world h)) t = Some o ->
    Rep (row (snd (run_history RC OC P always fuel init_world h)) t) (P t) [] o (kidsT (snd (run_history RC OC P always fuel init_world h)) t).
Proof.
  intros TD NB. destruct (history_td_JK fuel h init_world TD J_init K_init) as [X|[_ X]]; [contradiction|exact X].
Qed.
End C.

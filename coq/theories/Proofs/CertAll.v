(* C08 for EVERY history (top-down, bottom-up, mixed sessions, aborted builds): for every task that has an output, the dependency
   list in the store is EXACTLY one complete run of its program (class NR: no target twice per execution; stampers total: HS).
   Anchor style (NoReentry.v / NoBugAll.v) with equality frames: the rows of the anchor's strict ancestors are untouched by
   anything the anchor does; the anchor's own row is untouched by every make_task_consistent call it makes. *)
From Coq Require Import List NArith ZArith Bool Lia Permutation.
From PieV Require Import Model.Dag Model.Build Proofs.DagLib Proofs.DagWF Proofs.DagPath Proofs.DagQueries Proofs.StoreInv
  Proofs.Sorting Proofs.Effects Proofs.Inv Proofs.History Proofs.ExecInv Proofs.ExecSession Proofs.Cert Proofs.NoBug4 Proofs.NoBug4All Proofs.Trace
  Proofs.BuJust Proofs.BuOnce Proofs.NoReentry Proofs.NoBugAll.
Import ListNotations.
Open Scope N_scope.

Definition EqN (w w' : world) (n : node) : Prop :=
  kids_of (gr w') n = kids_of (gr w) n /\ forall e, get_edata (gr w') n e = get_edata (gr w) n e.
Definition EqS (c : task) (w w' : world) : Prop := forall n, path (gr w) n (tn c) -> EqN w w' n.
Definition EqF (a : option task) (w w' : world) : Prop :=
  match a with None => True | Some c => EqS c w w' /\ EqN w w' (tn c) end.
Definition EqC (w w' : world) : Prop := match cur w with Some t => EqS t w w' | None => True end.
Definition geq (w w' : world) : Prop := forall n, EqN w w' n.

Lemma EqN_refl w n : EqN w w n. Proof. split; reflexivity. Qed.
Lemma EqN_trans w1 w2 w3 n : EqN w1 w2 n -> EqN w2 w3 n -> EqN w1 w3 n.
Proof. intros [A1 B1] [A2 B2]. split; [congruence|intros e; rewrite B2; apply B1]. Qed.
Lemma EqS_path c w w' n : EqS c w w' -> path (gr w) n (tn c) -> path (gr w') n (tn c).
Proof. intros E Pn. apply (path_pres (gr w)); [|exact Pn]. intros m Pm x X. rewrite (proj1 (E m Pm)). exact X. Qed.
Lemma EqS_refl c w : EqS c w w. Proof. intros n _. apply EqN_refl. Qed.
Lemma EqS_trans c w1 w2 w3 : EqS c w1 w2 -> EqS c w2 w3 -> EqS c w1 w3.
Proof. intros E1 E2 n Pn. eapply EqN_trans; [apply E1; exact Pn|apply E2; eapply EqS_path; eassumption]. Qed.
Lemma EqF_refl a w : EqF a w w. Proof. destruct a; [split; [apply EqS_refl|apply EqN_refl]|exact Logic.I]. Qed.
Lemma EqF_trans a w1 w2 w3 : EqF a w1 w2 -> EqF a w2 w3 -> EqF a w1 w3.
Proof. destruct a as [c|]; [|trivial]. intros [S1 N1] [S2 N2]. split; [eapply EqS_trans; eassumption|eapply EqN_trans; eassumption]. Qed.
Lemma geq_EqS c w w' : geq w w' -> EqS c w w'. Proof. intros G n _. apply G. Qed.
Lemma geq_EqF a w w' : geq w w' -> EqF a w w'. Proof. intros G. destruct a; [split; [apply geq_EqS; exact G|apply G]|exact Logic.I]. Qed.
Lemma geq_same w w' : gr w' = gr w -> geq w w'. Proof. intros G n. unfold EqN. rewrite G. split; reflexivity. Qed.
Lemma geq_trans a b c : geq a b -> geq b c -> geq a c. Proof. intros G1 G2 n. eapply EqN_trans; [apply G1|apply G2]. Qed.
(* everything the anchor t protects is a strict ancestor of a task reached from it *)
Lemma EqS_to_EqF a t w w' : reach a w t -> EqS t w w' -> EqF a w w'.
Proof.
  intros R E. destruct a as [c|]; [|exact Logic.I]. specialize (R c eq_refl). split; [|apply E; exact R].
  intros n Pn. apply E. eapply path_trans; eassumption.
Qed.
Lemma geq_goc_task w t : geq w (get_or_create_task_node w t).
Proof.
  unfold get_or_create_task_node. destruct (live (gr w) (tn t)) eqn:E; [intros n; apply EqN_refl|].
  intros n. split; [cbn; apply (proj1 (add_node_same (gr w) (tn t) E))|reflexivity].
Qed.
Lemma geq_goc_res w r : geq w (get_or_create_resource_node w r).
Proof.
  unfold get_or_create_resource_node. destruct (live (gr w) (rn r)) eqn:E; [intros n; apply EqN_refl|].
  intros n. split; [cbn; apply (proj1 (add_node_same (gr w) (rn r) E))|reflexivity].
Qed.

Section CA.
Variable RC : rcid -> rchecker.
Variable OC : ocid -> ochecker.
Variable P : task -> prog.
Variable sf : rcid -> res -> content -> Z.
Hypothesis HS : forall c env r v, rc_stamp (RC c) env r v = inl (sf c r v).
Hypothesis HNR : forall t, NR [] (P t).

Notation K := (K RC OC P sf).
Notation Rep := (Rep RC OC sf).

Lemma geq_K w w' : geq w w' -> outs w' = outs w -> K w -> K w'.
Proof.
  intros G O. apply K_frame. intros t _. unfold get_task_output, kidsT, row. rewrite O. split; [reflexivity|]. split; [apply G|apply G].
Qed.

(* a step by the executing task c (Leaf): strict ancestors untouched *)
Lemma leaf_EqS c w w' : WF (gr w) -> Leaf c w w' -> EqS c w w'.
Proof.
  intros W LF n Pn. assert (Hn : n <> tn c) by (intros ->; exact (WF_acyclic (gr w) (tn c) W Pn)).
  split; [apply (lf_grows _ _ _ LF); exact Hn|intros e; apply (lf_eother _ _ _ LF); exact Hn].
Qed.

Lemma step_pre {A} a w (m : outcome A) x w1 :
  VPre a w -> okR w m -> okN a w m -> okV a w m -> m = Done x w1 -> VPre a w1 /\ cur w1 = cur w /\ mono w w1 /\ FrameO a w w1 /\ opens (trace w1) = opens (trace w).
Proof.
  intros [[HL [HO HN]] HV] R N Vm ->. cbn in *. destruct R as [L1 M1]. destruct N as [C1 [F1 [O1 N1]]]. destruct Vm as [G1 V1].
  split; [split; [split; [exact L1|split; [eapply OI_pres; eassumption|exact N1]]|exact V1]|]. split; [exact C1|split; [exact M1|split; [exact F1|exact O1]]].
Qed.

Definition outQ {A} (m : outcome A) (Q : world -> Prop) : Prop :=
  match m with Done _ w' => K w' /\ Q w' | Abort _ w' => K w' | OutOfFuel => True end.

Definition QREQ (req : world -> task -> ocid -> outcome Z) : Prop :=
  (forall w x c, VPre (cur w) w -> K w -> outQ (req w x c) (EqC w)) /\
  (forall w x c t o w', VPre (cur w) w -> K w -> cur w = Some t -> ~ In (tn x) (kidsT w t) -> req w x c = Done o w' ->
     RowStep t w w' (tn x) (DRequire x c (oc_stamp (OC c) o))).
Definition QMC (mc : world -> task -> outcome Z) : Prop :=
  forall a w t, VPre a w -> live (gr w) (tn t) = true -> reach a w t -> K w -> outQ (mc w t) (EqF a w).

Lemma cur_no_output a w t : VPre a w -> cur w = Some t -> get_task_output w t = None.
Proof. intros [_ [_ [_ [Oo Cu]]]] Hc. apply Oo. apply Cu. exact Hc. Qed.

Lemma exec_prog_Q req t : VREQ req -> QREQ req -> forall p w, VPre (Some t) w -> cur w = Some t -> K w -> NR (kidsT w t) p ->
  match exec_prog RC OC req p w with
  | Done o w' => K w' /\ Rep (row w' t) p (kidsT w t) o (kidsT w' t) /\ (forall d, In d (kidsT w t) -> row w' t d = row w t d) /\ EqS t w w'
  | Abort _ w' => K w'
  | OutOfFuel => True
  end.
Proof.
  intros [[HreqR HreqN] HreqV] [HQ HRow]. induction p as [o| |x c k IH|r c k IH|r c v k IH|r c v k IH]; intros w Hw Hc Kw HN; cbn [exec_prog].
  - split; [exact Kw|]. split; [constructor|]. split; [reflexivity|apply EqS_refl].
  - exact Kw.
  - inversion HN as [| |sn x' c' k' Hx Hk| | |]; subst.
    assert (Hw' : VPre (cur w) w) by (rewrite Hc; exact Hw).
    pose proof (HQ w x c Hw' Kw) as KQ. pose proof (HRow w x c t) as RQ.
    pose proof (step_pre (cur w) w (req w x c)) as SP.
    specialize (SP) with (1 := Hw') (2 := HreqR w x c (proj1 (proj1 Hw))) (3 := HreqN w x c (proj1 Hw')) (4 := HreqV w x c Hw').
    destruct (req w x c) as [ox w1|k1 w1|]; cbn [bind outQ] in *; [|exact KQ|exact Logic.I].
    destruct (SP ox w1 eq_refl) as [P1 [C1 _]]. rewrite Hc in P1, C1. destruct KQ as [K1 E1]. unfold EqC in E1. rewrite Hc in E1.
    destruct (RQ ox w1 Hw' Kw Hc Hx eq_refl) as [A [B C]].
    specialize (IH (oc_view (OC c) ox) w1 P1 C1 K1). rewrite A in IH. specialize (IH (Hk _)).
    destruct (exec_prog RC OC req (k (oc_view (OC c) ox)) w1) as [o w'|k2 w'|]; [|exact IH|exact Logic.I].
    destruct IH as [K' [R' [St' E']]]. split; [exact K'|]. split; [|split; [|eapply EqS_trans; eassumption]].
    + eapply Rep_req; [|exact R']. rewrite St' by (apply in_or_app; right; left; reflexivity). exact B.
    + intros d Hd. rewrite St' by (apply in_or_app; left; exact Hd). apply C. intros ->. contradiction.
  - inversion HN as [| | |sn r' c' k' Hx Hk| |]; subst.
    pose proof (sess_read_leaf RC w t r c (proj1 (proj1 (proj1 Hw))) Hc) as LF.
    pose proof (sess_read_R RC w r c (proj1 (proj1 Hw))) as RR.
    pose proof (step_pre (Some t) w (sess_read RC w r c)) as SP.
    specialize (SP) with (1 := Hw) (2 := RR) (3 := q3O_okN (Some t) w _ (sess_read_q3 RC w r c (proj1 (proj1 Hw))) (proj2 (proj2 (proj1 Hw))))
                         (4 := lvO_okV (Some t) w _ (sess_read_lv RC w r c (proj1 (proj1 Hw))) (proj2 Hw)).
    pose proof (sess_read_row RC sf HS w t r c) as RQ.
    destruct (sess_read RC w r c) as [xv w1|k1 w1|]; cbn [bind leafO okR] in *; [| |exact Logic.I].
    + destruct (SP xv w1 eq_refl) as [P1 [C1 _]]. rewrite Hc in C1.
      pose proof (leaf_K RC OC P sf t w w1 LF (cur_no_output _ w t Hw Hc) Kw) as K1.
      destruct (RQ xv w1 (proj1 (proj1 (proj1 Hw))) Hc Hx eq_refl) as [-> [A [B C]]].
      specialize (IH (inl (rc_view (RC c) (get_content w r))) w1 P1 C1 K1). rewrite A in IH. specialize (IH (Hk _)).
      destruct (exec_prog RC OC req (k (inl (rc_view (RC c) (get_content w r)))) w1) as [o w'|k2 w'|]; [|exact IH|exact Logic.I].
      destruct IH as [K' [R' [St' E']]]. split; [exact K'|]. split; [|split; [|eapply EqS_trans; [apply leaf_EqS; [apply Hw|exact LF]|exact E']]].
      * eapply Rep_read; [|exact R']. rewrite St' by (apply in_or_app; right; left; reflexivity). exact B.
      * intros d Hd. rewrite St' by (apply in_or_app; left; exact Hd). apply C. intros ->. contradiction.
    + destruct LF as [->|[_ LF]]; [exfalso; apply (proj1 RR); reflexivity|]. apply (leaf_K RC OC P sf t w w1 LF (cur_no_output _ w t Hw Hc) Kw).
  - inversion HN as [| | | |sn r' c' v' k' Hx Hk|]; subst.
    pose proof (sess_write_leaf RC w t r c v (proj1 (proj1 (proj1 Hw))) Hc) as LF.
    pose proof (sess_write_R RC w r c v (proj1 (proj1 Hw))) as RR.
    pose proof (step_pre (Some t) w (sess_write RC w r c v)) as SP.
    specialize (SP) with (1 := Hw) (2 := RR) (3 := q3O_okN (Some t) w _ (sess_write_q3 RC w r c v (proj1 (proj1 Hw))) (proj2 (proj2 (proj1 Hw))))
                         (4 := lvO_okV (Some t) w _ (sess_write_lv RC w r c v (proj1 (proj1 Hw))) (proj2 Hw)).
    pose proof (sess_write_row RC sf HS w t r c v) as RQ.
    destruct (sess_write RC w r c v) as [xv w1|k1 w1|]; cbn [bind leafO okR] in *; [| |exact Logic.I].
    + destruct (SP xv w1 eq_refl) as [P1 [C1 _]]. rewrite Hc in C1.
      pose proof (leaf_K RC OC P sf t w w1 LF (cur_no_output _ w t Hw Hc) Kw) as K1.
      destruct (RQ xv w1 (proj1 (proj1 (proj1 Hw))) Hc Hx eq_refl) as [-> [A [B C]]].
      specialize (IH (inl tt) w1 P1 C1 K1). rewrite A in IH. specialize (IH (Hk _)).
      destruct (exec_prog RC OC req (k (inl tt)) w1) as [o w'|k2 w'|]; [|exact IH|exact Logic.I].
      destruct IH as [K' [R' [St' E']]]. split; [exact K'|]. split; [|split; [|eapply EqS_trans; [apply leaf_EqS; [apply Hw|exact LF]|exact E']]].
      * eapply Rep_write; [|exact R']. rewrite St' by (apply in_or_app; right; left; reflexivity). exact B.
      * intros d Hd. rewrite St' by (apply in_or_app; left; exact Hd). apply C. intros ->. contradiction.
    + destruct LF as [->|[_ LF]]; [exfalso; apply (proj1 RR); reflexivity|]. apply (leaf_K RC OC P sf t w w1 LF (cur_no_output _ w t Hw Hc) Kw).
  - inversion HN as [| | | | |sn r' c' v' k' Hx Hk]; subst.
    pose proof (sess_written_to_leaf RC w t r c v (proj1 (proj1 (proj1 Hw))) Hc) as LF.
    pose proof (sess_written_to_R RC w r c v (proj1 (proj1 Hw))) as RR.
    pose proof (step_pre (Some t) w (sess_written_to RC w r c v)) as SP.
    specialize (SP) with (1 := Hw) (2 := RR) (3 := q3O_okN (Some t) w _ (sess_written_to_q3 RC w r c v (proj1 (proj1 Hw))) (proj2 (proj2 (proj1 Hw))))
                         (4 := lvO_okV (Some t) w _ (sess_written_to_lv RC w r c v (proj1 (proj1 Hw))) (proj2 Hw)).
    pose proof (sess_written_to_row RC sf HS w t r c v) as RQ.
    destruct (sess_written_to RC w r c v) as [xv w1|k1 w1|]; cbn [bind leafO okR] in *; [| |exact Logic.I].
    + destruct (SP xv w1 eq_refl) as [P1 [C1 _]]. rewrite Hc in C1.
      pose proof (leaf_K RC OC P sf t w w1 LF (cur_no_output _ w t Hw Hc) Kw) as K1.
      destruct (RQ xv w1 (proj1 (proj1 (proj1 Hw))) Hc Hx eq_refl) as [-> [A [B C]]].
      specialize (IH (inl tt) w1 P1 C1 K1). rewrite A in IH. specialize (IH (Hk _)).
      destruct (exec_prog RC OC req (k (inl tt)) w1) as [o w'|k2 w'|]; [|exact IH|exact Logic.I].
      destruct IH as [K' [R' [St' E']]]. split; [exact K'|]. split; [|split; [|eapply EqS_trans; [apply leaf_EqS; [apply Hw|exact LF]|exact E']]].
      * eapply Rep_wto; [|exact R']. rewrite St' by (apply in_or_app; right; left; reflexivity). exact B.
      * intros d Hd. rewrite St' by (apply in_or_app; left; exact Hd). apply C. intros ->. contradiction.
    + destruct LF as [->|[_ LF]]; [exfalso; apply (proj1 RR); reflexivity|]. apply (leaf_K RC OC P sf t w w1 LF (cur_no_output _ w t Hw Hc) Kw).
Qed.

Lemma execute_with_Q req a w t : VREQ req -> QREQ req -> VPre a w -> live (gr w) (tn t) = true -> reach a w t -> K w ->
  outQ (execute_with RC OC P req w t) (EqF a w).
Proof.
  intros Hreq HQ Hw Lt R Kw. unfold execute_with.
  destruct (exec_start_facts a w t (proj1 Hw) Lt R) as [Hnot [P2 PR]].
  destruct (reset_task_facts w t (proj1 (proj1 (proj1 Hw)))) as [R1 [R2 [R3 [R4 [R5 [R6 [R7 [R8 [R9 R10]]]]]]]]].
  set (w2 := emit (set_cur (reset_task w t) (Some t)) (EExecStart t)) in *.
  (* V w2: as in NoBugAll.execute_with_V; obtained from it through the public lemma by running the real thing is not possible, so redo *)
  assert (V2 : V w2).
  { destruct Hw as [_ [N0 [Co0 [Oo0 Cu0]]]].
    assert (Op2 : opens (trace w2) = t :: opens (trace w)) by (change (t :: opens (trace (reset_task w t)) = t :: opens (trace w)); rewrite R4; reflexivity).
    split; [|split; [|split]].
    - intros s d X. change (get_edata (gr (reset_task w t)) (tn s) d = Some DReserved) in X. change (get_task_output (reset_task w t) s = None).
      destruct (N.eq_dec s t) as [->|Hs]; [exact R9|]. rewrite (R10 s Hs). apply (N0 s d). rewrite <- (R7 (tn s) d); [exact X|].
      intros E. apply Hs. apply tn_inj. exact E.
    - intros x X. change (memN x (consistent (reset_task w t)) = true) in X. rewrite R5 in X. rewrite Op2.
      destruct (N.eq_dec x t) as [->|Hx]; [right; left; reflexivity|]. change (get_task_output (reset_task w t) x <> None \/ In x (t :: opens (trace w))).
      rewrite (R10 x Hx). destruct (Co0 x X) as [Y|Y]; [left; exact Y|right; right; exact Y].
    - intros x X. rewrite Op2 in X. change (get_task_output (reset_task w t) x = None). destruct X as [<-|X]; [exact R9|].
      assert (Hx : x <> t) by (intros ->; contradiction). rewrite (R10 x Hx). apply Oo0. exact X.
    - intros s X. cbn in X. inversion X; subst s. rewrite Op2. left. reflexivity. }
  assert (K2 : K w2).
  { apply (K_frame RC OC P sf w); [|exact Kw]. intros y Hy. change (get_task_output (reset_task w t) y <> None) in Hy.
    assert (Hne : y <> t) by (intros ->; contradiction).
    split; [apply R10; exact Hne|]. unfold kidsT, row. change (gr w2) with (gr (reset_task w t)).
    split; [apply R2|intros d; apply R7]; intros E; apply tn_inj in E; contradiction. }
  assert (KT2 : kidsT w2 t = []).
  { unfold kidsT. change (gr w2) with (gr (reset_task w t)). destruct (kids_of (gr (reset_task w t)) (tn t)) as [|v tl] eqn:E; [reflexivity|]. exfalso.
    assert (X : get_edata (gr (reset_task w t)) (tn t) v <> None) by (apply (wf_edata _ (proj1 R1)); rewrite E; left; reflexivity).
    rewrite R8 in X. contradiction. }
  pose proof (exec_prog_Q req t Hreq HQ (P t) w2 (conj P2 V2) eq_refl K2) as B. rewrite KT2 in B. specialize (B (HNR t)).
  destruct (exec_prog RC OC req (P t) w2) as [o w3|k w3|]; cbn [bind outQ]; [|exact B|exact Logic.I].
  destruct B as [K3 [Rp3 [_ E3]]]. split.
  - intros y oy Hy. unfold get_task_output, set_task_output in Hy. cbn [outs set_outs] in Hy.
    destruct (N.eq_dec y t) as [->|Hne].
    + rewrite alookup_aset_eq in Hy. inversion Hy; subst oy. exact Rp3.
    + rewrite alookup_aset_other in Hy by exact Hne. apply (K3 y oy Hy).
  - (* everything the caller's anchor protects is a strict ancestor of t: untouched by the reset and by the body *)
    destruct a as [c|]; [|exact Logic.I]. specialize (R c eq_refl).
    assert (W : WF (gr w)) by apply Hw.
    assert (One : forall n, path (gr w) n (tn t) -> EqN w (set_task_output (set_cur (emit w3 (EExecEnd t o)) (cur (reset_task w t))) t o) n).
    { intros n Pn. assert (Hn : n <> tn t) by (intros ->; exact (WF_acyclic (gr w) (tn t) W Pn)).
      destruct (E3 n (PR n Pn)) as [A B]. split; [change (kids_of (gr w3) n = kids_of (gr w) n); rewrite A; apply (R2 n Hn)|].
      intros e. change (get_edata (gr w3) n e = get_edata (gr w) n e). rewrite B. apply (R7 n e Hn). }
    split; [intros n Pn; apply One; eapply path_trans; eassumption|apply One; exact R].
Qed.

Lemma add_dep_rows w s d dp w' ar : WF (gr w) -> add_dependency w s d dp = (ar, w') -> ar <> AddBug ->
  forall n, n <> s -> EqN w w' n.
Proof.
  intros W E NB n Hn. pose proof (add_dependency_grows w s d dp W) as [G1 _]. pose proof (add_dependency_edata w s d dp W) as ED.
  rewrite E in *. cbn [snd] in G1. split; [apply G1; exact Hn|].
  intros e. destruct ar; try (contradiction NB; reflexivity); (destruct (ED n e) as [X|[X _]]; [exact X|contradiction]).
Qed.

Lemma require_with_Q mc : VMC mc -> QMC mc -> QREQ (require_with OC mc).
Proof.
  intros [Hmc HmcV] HQ.
  assert (Main : forall w x c, VPre (cur w) w -> K w ->
     outQ (require_with OC mc w x c) (EqC w) /\
     (forall t o w', cur w = Some t -> ~ In (tn x) (kidsT w t) -> require_with OC mc w x c = Done o w' ->
        RowStep t w w' (tn x) (DRequire x c (oc_stamp (OC c) o)))).
  2:{ split; [intros w x c Hw Kw; apply (Main w x c Hw Kw)|]. intros w x c t o w' Hw Kw Hc Hx E. apply (proj2 (Main w x c Hw Kw) t o w' Hc Hx E). }
  intros w t c [Hw HV] Kw. unfold require_with.
  set (w1 := emit w (ERequireStart t c)). set (w2 := get_or_create_task_node w1 t).
  assert (Q2 : lv w w2) by (eapply lv_trans; [apply (lv_emit w (ERequireStart t c)); reflexivity|apply lv_goc_task]).
  assert (G2 : geq w w2) by (eapply geq_trans; [apply (geq_same w w1); reflexivity|apply geq_goc_task]).
  assert (L2 : L w2) by (apply goc_task_L; apply L_emit; apply Hw).
  assert (C2 : cur w2 = cur w) by apply Q2.
  assert (P2 : VPre (cur w) w2) by (eapply lv_VPre; [exact Q2|exact L2|split; assumption]).
  assert (K2 : K w2) by (apply (geq_K w); [exact G2|apply Q2|exact Kw]).
  assert (Lt : live (gr w2) (tn t) = true) by apply live_goc_task.
  pose proof (reserve_R RC w2 t L2 Lt) as RR. pose proof (reserve_q3 w2 t L2) as RQ.
  unfold reserve_require_dependency in *. unfold EqC.
  destruct (cur w) as [s|] eqn:Hc.
  2:{ rewrite C2 in *. cbn [bind]. split; [|intros t' o w' X; discriminate].
      pose proof (HQ None w2 t P2 Lt ltac:(intros c' X; discriminate) K2) as MQ.
      destruct (HmcV None w2 t P2 Lt ltac:(intros c' X; discriminate)) as [MV _].
      pose proof (step_pre None w2 (mc w2 t) ) as SP. specialize (SP) with (1 := P2) (2 := proj1 Hmc w2 t L2 Lt) (3 := proj2 Hmc None w2 t (proj1 P2) Lt ltac:(intros c' X; discriminate)) (4 := MV).
      destruct (mc w2 t) as [o w4|k w4|]; cbn [bind outQ] in *; [|exact MQ|exact Logic.I].
      destruct (SP o w4 eq_refl) as [_ [C4 _]]. unfold update_require_dependency. cbn [cur emit]. rewrite C4, C2. cbn [bind outQ].
      split; [|exact Logic.I]. apply (geq_K w4); [apply geq_same; reflexivity|reflexivity|apply MQ]. }
  rewrite C2 in *.
  destruct (add_dependency w2 (tn s) (tn t) DReserved) as [ar w3] eqn:E.
  assert (NB : ar <> AddBug). { destruct ar; try discriminate. exfalso. cbn in RR. apply (proj1 RR). reflexivity. }
  destruct (reserve_V w2 t s w3 ar L2 (proj2 P2) C2 E NB) as [V3 [O3 [Co3 [Qu3 [T3 [C3 RES3]]]]]].
  assert (NoOut : get_task_output w2 s = None) by (apply (cur_no_output (Some s) w2 s P2 C2)).
  assert (K3 : K w3).
  { apply (K_frame RC OC P sf w2); [|exact K2]. intros y Hy. unfold get_task_output in *. rewrite O3 in *.
    assert (Hne : tn y <> tn s) by (intros X; apply tn_inj in X; subst y; contradiction).
    split; [reflexivity|]. apply (add_dep_rows w2 (tn s) (tn t) DReserved w3 ar (proj1 (proj1 L2)) E NB (tn y) Hne). }
  assert (S23 : EqS s w2 w3).
  { intros n Pn. apply (add_dep_rows w2 (tn s) (tn t) DReserved w3 ar (proj1 (proj1 L2)) E NB). intros ->. exact (WF_acyclic _ _ (proj1 (proj1 L2)) Pn). }
  assert (S02 : EqS s w w2) by (apply geq_EqS; exact G2).
  destruct ar; [|cbn [bind outQ]; split; [exact K3|intros t' o w' _ _ X; discriminate]|contradiction NB; reflexivity].
  cbn [bind]. cbn [okR q3O] in RR, RQ. destruct RR as [L3 M3].
  assert (P3 : Pre (Some s) w3) by (eapply q3_Pre; [exact RQ|exact L3|apply P2]).
  assert (Edge : In (tn t) (kids_of (gr w3) (tn s))) by (apply (add_dependency_edge w2 (tn s) (tn t) DReserved w3 (proj1 (proj1 L2)) E)).
  assert (R3 : reach (Some s) w3 t) by (intros c' X; inversion X; subst c'; apply path1; exact Edge).
  assert (Lt3 : live (gr w3) (tn t) = true) by (apply M3; exact Lt).
  pose proof (HQ (Some s) w3 t (conj P3 V3) Lt3 R3 K3) as MQ.
  destruct (HmcV (Some s) w3 t (conj P3 V3) Lt3 R3) as [MV _].
  pose proof (step_pre (Some s) w3 (mc w3 t)) as SP. specialize (SP) with (1 := conj P3 V3) (2 := proj1 Hmc w3 t L3 Lt3) (3 := proj2 Hmc (Some s) w3 t P3 Lt3 R3) (4 := MV).
  destruct (mc w3 t) as [o w4|k w4|]; cbn [bind outQ] in *; [|split; [exact MQ|intros t' o w' _ _ X; discriminate]|split; [exact Logic.I|intros t' o w' _ _ X; discriminate]].
  destruct (SP o w4 eq_refl) as [P4 [C4 [M4 [F4 _]]]]. destruct MQ as [K4 [S34 N34]].
  set (w5 := emit w4 (ERequireEnd t c (oc_stamp (OC c) o) o)).
  unfold update_require_dependency. change (cur w5) with (cur w4). rewrite C4, C3, C2.
  assert (Edge4 : In (tn t) (kids_of (gr w4) (tn s))) by (apply F4; [left; reflexivity|exact Edge]).
  change (gr w5) with (gr w4).
  destruct (get_edata (gr w4) (tn s) (tn t)) as [old|] eqn:ED4; [|exfalso; apply (wf_edata _ (proj1 (proj1 (proj1 (proj1 P4)))) (tn s) (tn t)) in Edge4; contradiction].
  cbn [bind outQ]. set (w6 := set_gr w5 (insert_edata (gr w4) (tn s) (tn t) (DRequire t c (oc_stamp (OC c) o)))).
  assert (NoOut4 : get_task_output w4 s = None) by (apply (cur_no_output (Some s) w4 s P4); rewrite C4, C3; exact C2).
  assert (Ins : forall n, n <> tn s -> EqN w4 w6 n).
  { intros n Hn. split; [reflexivity|]. intros e. change (get_edata (insert_edata (gr w4) (tn s) (tn t) (DRequire t c (oc_stamp (OC c) o))) n e = get_edata (gr w4) n e).
    rewrite get_edata_insert. destruct (pair_eqb (tn s, tn t) (n, e)) eqn:Z; [apply pair_eqb_eq in Z; inversion Z; congruence|reflexivity]. }
  split; [split|].
  - apply (K_frame RC OC P sf w4); [|exact K4]. intros y Hy. change (get_task_output w4 y <> None) in Hy.
    assert (Hne : tn y <> tn s) by (intros X; apply tn_inj in X; subst y; contradiction).
    split; [reflexivity|]. apply (Ins (tn y) Hne).
  - eapply EqS_trans; [exact S02|]. eapply EqS_trans; [exact S23|]. eapply EqS_trans; [exact S34|].
    intros n Pn. apply Ins. intros ->. exact (WF_acyclic _ _ (proj1 (proj1 (proj1 (proj1 P4)))) Pn).
  - (* the row of the requirer: one new entry, at the end, carrying the stamp of the returned output *)
    intros t' o' w' Ht' Hnew X. inversion Ht'; subst t'. inversion X; subst o' w'. clear X Ht'.
    destruct (goc_task_row w1 t s) as [KK2 RR2]. fold w2 in KK2, RR2.
    assert (Hn2 : ~ In (tn t) (kids_of (gr w2) (tn s))) by (unfold kidsT in *; rewrite KK2; exact Hnew).
    destruct (add_dep_reserved_new w2 (tn s) (tn t) w3 (proj1 (proj1 L2)) Hn2 E) as [A3 B3].
    destruct N34 as [K34 E34].
    unfold RowStep, kidsT, row. unfold w6. cbn [gr set_gr]. split; [|split].
    + change (kids_of (gr w4) (tn s) = kids_of (gr w) (tn s) ++ [tn t]). rewrite K34, A3. f_equal. exact KK2.
    + rewrite get_edata_insert. rewrite (proj2 (pair_eqb_eq _ _) eq_refl). reflexivity.
    + intros d' Hd. rewrite get_edata_insert. destruct (pair_eqb (tn s, tn t) (tn s, d')) eqn:Z; [apply pair_eqb_eq in Z; inversion Z; congruence|].
      rewrite E34, B3 by exact Hd. apply RR2.
Qed.

Lemma lv_geq_K w w' : lv w w' -> geq w w' -> K w -> K w'.
Proof. intros Hl G. apply geq_K; [exact G|apply Hl]. Qed.

Lemma outQ_pre {A} (m : outcome A) a w w2 : geq w w2 -> outQ m (EqF a w2) -> outQ m (EqF a w).
Proof. intros G. destruct m; cbn; [intros [X Y]; split; [exact X|eapply EqF_trans; [apply geq_EqF; exact G|exact Y]]|trivial|trivial]. Qed.

Lemma check_deps_Q mc t0 : VMC mc -> QMC mc -> forall ds w, VPre (Some t0) w -> DL w ds -> DR t0 w ds -> DGood ds -> K w ->
  outQ (check_deps RC OC mc ds w) (EqF (Some t0) w).
Proof.
  intros [Hmc HmcV] HQ. induction ds as [|d tl IH]; intros w Hw HD HR HG Kw; cbn [check_deps]; [split; [exact Kw|apply EqF_refl]|].
  assert (HGtl : DGood tl) by (intros x X; apply HG; right; exact X).
  destruct d as [[|t c st|r c st|r c st]|].
  - exact Kw.
  - set (w1 := emit w (ECheckTaskStart t c st)).
    assert (L1 : L w1) by (apply L_emit; apply Hw).
    assert (P1 : VPre (Some t0) w1) by (eapply lv_VPre; [apply (lv_emit w); reflexivity|exact L1|exact Hw]).
    assert (Lt : live (gr w1) (tn t) = true) by (apply (HD t c st); left; reflexivity).
    assert (R1 : reach (Some t0) w1 t) by (intros s Hs; inversion Hs; subst s; apply path1; apply (HR t c st); left; reflexivity).
    assert (K1 : K w1) by (apply (geq_K w); [apply geq_same; reflexivity|reflexivity|exact Kw]).
    apply (outQ_pre _ _ w w1); [apply geq_same; reflexivity|].
    pose proof (HQ (Some t0) w1 t P1 Lt R1 K1) as MQ. destruct (HmcV (Some t0) w1 t P1 Lt R1) as [MV _].
    pose proof (step_pre (Some t0) w1 (mc w1 t)) as SP. specialize (SP) with (1 := P1) (2 := proj1 Hmc w1 t L1 Lt) (3 := proj2 Hmc (Some t0) w1 t (proj1 P1) Lt R1) (4 := MV).
    destruct (mc w1 t) as [o w2|k w2|]; cbn [bind outQ] in *; [|exact MQ|exact Logic.I].
    destruct (SP o w2 eq_refl) as [P2 [C2 [M2 [F2 _]]]]. destruct MQ as [K2 E2].
    destruct (oc_check (OC c) o st).
    + set (w3 := emit w2 (ECheckTaskEnd t c st (negb true))).
      assert (X : outQ (check_deps RC OC mc tl w3) (EqF (Some t0) w3)).
      { apply IH.
        * eapply lv_VPre; [apply (lv_emit w2); reflexivity|apply L_emit; apply P2|exact P2].
        * intros t' c' st' X. apply M2. apply (HD t' c' st'). right. exact X.
        * intros d' c' st' X. change (In (tn d') (kids_of (gr w2) (tn t0))). apply F2; [left; reflexivity|]. apply (HR d' c' st'). right. exact X.
        * exact HGtl.
        * apply (geq_K w2); [apply geq_same; reflexivity|reflexivity|exact K2]. }
      destruct (check_deps RC OC mc tl w3); cbn [outQ] in *; [|exact X|exact Logic.I].
      destruct X as [X1 X2]. split; [exact X1|]. eapply EqF_trans; [exact E2|]. eapply EqF_trans; [apply (geq_EqF _ w2 w3); apply geq_same; reflexivity|exact X2].
    + split; [apply (geq_K w2); [apply geq_same; reflexivity|reflexivity|exact K2]|]. eapply EqF_trans; [exact E2|apply geq_EqF; apply geq_same; reflexivity].
  - pose proof (check_resource_lv RC w r c st) as Q. destruct (check_resource_td_L RC w r c st (proj1 (proj1 Hw))) as [X M].
    assert (G : geq w (snd (check_resource_td RC w r c st))) by (apply geq_same; reflexivity).
    destruct (check_resource_td RC w r c st) as [[| |e] w1]; cbn [snd] in X, M, Q, G.
    + apply (outQ_pre _ _ w w1); [exact G|]. apply IH; [eapply lv_VPre; eassumption| | |exact HGtl|apply (lv_geq_K w); assumption].
      * intros t' c' st' Y. apply M. apply (HD t' c' st'). right. exact Y.
      * intros d' c' st' Y. apply Q. apply (HR d' c' st'). right. exact Y.
    + split; [apply (lv_geq_K w); assumption|apply geq_EqF; exact G].
    + split; [apply (geq_K w); [eapply geq_trans; [exact G|apply geq_same; reflexivity]|cbn; apply Q|exact Kw]|apply geq_EqF; eapply geq_trans; [exact G|apply geq_same; reflexivity]].
  - pose proof (check_resource_lv RC w r c st) as Q. destruct (check_resource_td_L RC w r c st (proj1 (proj1 Hw))) as [X M].
    assert (G : geq w (snd (check_resource_td RC w r c st))) by (apply geq_same; reflexivity).
    destruct (check_resource_td RC w r c st) as [[| |e] w1]; cbn [snd] in X, M, Q, G.
    + apply (outQ_pre _ _ w w1); [exact G|]. apply IH; [eapply lv_VPre; eassumption| | |exact HGtl|apply (lv_geq_K w); assumption].
      * intros t' c' st' Y. apply M. apply (HD t' c' st'). right. exact Y.
      * intros d' c' st' Y. apply Q. apply (HR d' c' st'). right. exact Y.
    + split; [apply (lv_geq_K w); assumption|apply geq_EqF; exact G].
    + split; [apply (geq_K w); [eapply geq_trans; [exact G|apply geq_same; reflexivity]|cbn; apply Q|exact Kw]|apply geq_EqF; eapply geq_trans; [exact G|apply geq_same; reflexivity]].
  - exact Kw.
Qed.

Lemma mark_geq w t : geq w (mark_consistent w t). Proof. apply geq_same; reflexivity. Qed.

Theorem make_consistent_td_Q fuel : QMC (make_consistent_td RC OC P fuel).
Proof.
  induction fuel as [|f IH]; intros a w t Hw Lt R Kw; cbn [make_consistent_td]; [exact Logic.I|].
  pose proof (make_consistent_td_V RC OC P f) as IHV.
  set (w0 := get_or_create_task_node w t).
  assert (Q0 : lv w w0) by apply lv_goc_task.
  assert (G0 : geq w w0) by apply geq_goc_task.
  assert (L0 : L w0) by (apply goc_task_L; apply Hw).
  assert (P0 : VPre a w0) by (eapply lv_VPre; eassumption).
  assert (R0 : reach a w0 t) by (eapply reach_kgrow; [exact R|apply Q0]).
  assert (Lt0 : live (gr w0) (tn t) = true) by apply live_goc_task.
  assert (K0 : K w0) by (apply (lv_geq_K w); assumption).
  apply (outQ_pre _ _ w w0); [exact G0|].
  destruct (memN t (consistent w0)); [destruct (get_task_output w0 t); [split; [exact K0|apply EqF_refl]|exact K0]|].
  assert (HreqV : VREQ (require_with OC (make_consistent_td RC OC P f))) by (apply (require_with_V RC); exact IHV).
  assert (HreqQ : QREQ (require_with OC (make_consistent_td RC OC P f))) by (apply require_with_Q; [exact IHV|exact IH]).
  assert (EX : forall w1, VPre a w1 -> reach a w1 t -> live (gr w1) (tn t) = true -> K w1 ->
            outQ (bind (execute_with RC OC P (require_with OC (make_consistent_td RC OC P f)) w1 t) (fun o w2 => Done o (mark_consistent w2 t))) (EqF a w1)).
  { intros w1 P1 R1 Lt1 K1. pose proof (execute_with_Q _ a w1 t HreqV HreqQ P1 Lt1 R1 K1) as X.
    destruct (execute_with RC OC P (require_with OC (make_consistent_td RC OC P f)) w1 t) as [o w2|k w2|]; cbn [bind outQ] in *; [|exact X|exact Logic.I].
    destruct X as [X1 X2]. split; [apply (geq_K w2); [apply mark_geq|reflexivity|exact X1]|eapply EqF_trans; [exact X2|apply geq_EqF; apply mark_geq]]. }
  destruct (get_task_output w0 t) as [o0|] eqn:Ho; [|apply EX; assumption].
  assert (PS : VPre (Some t) w0) by (split; [split; [exact L0|split; [eapply OI_strengthen; [apply P0|exact R0]|apply P0]]|apply P0]).
  pose proof (check_deps_Q _ t IHV IH (deps_of_task w0 t) w0 PS (deps_DL w0 t (proj1 L0)) (deps_DR w0 t (proj1 L0)) (deps_good w0 t o0 (proj1 L0) (proj1 (proj2 P0)) Ho) K0) as CQ.
  pose proof (check_deps_R RC OC _ (proj1 (proj1 IHV)) (deps_of_task w0 t) w0 L0 (deps_DL w0 t (proj1 L0))) as CR.
  pose proof (check_deps_N RC OC _ t (proj1 IHV) (deps_of_task w0 t) w0 (proj1 PS) (deps_DL w0 t (proj1 L0)) (deps_DR w0 t (proj1 L0))) as CN.
  pose proof (check_deps_V RC OC _ t IHV (deps_of_task w0 t) w0 PS (deps_DL w0 t (proj1 L0)) (deps_DR w0 t (proj1 L0)) (deps_good w0 t o0 (proj1 L0) (proj1 (proj2 P0)) Ho)) as CV.
  destruct (check_deps RC OC (make_consistent_td RC OC P f) (deps_of_task w0 t) w0) as [ok w1|k w1|]; cbn [bind outQ] in *; [|exact CQ|exact Logic.I].
  destruct CR as [L1 M1]. destruct CN as [C1 [F1 [O1 N1]]]. destruct CV as [G1 V1]. destruct CQ as [K1 [S1 _]].
  assert (Fa : FrameO a w0 w1) by (eapply FrameO_weaken; eassumption).
  assert (P1 : VPre a w1) by (split; [split; [exact L1|split; [eapply OI_pres; [apply P0|exact Fa|exact O1]|exact N1]]|exact V1]).
  assert (R1 : reach a w1 t) by (eapply reach_pres; eassumption).
  assert (Ea : EqF a w0 w1) by (eapply EqS_to_EqF; eassumption).
  assert (K2 : forall m : outcome Z, outQ m (EqF a w1) -> outQ m (EqF a w0)).
  { intros m. destruct m; cbn; [intros [X Y]; split; [exact X|eapply EqF_trans; eassumption]|trivial|trivial]. }
  apply K2. destruct (if ok then get_task_output w1 t else None) as [o|].
  - split; [apply (geq_K w1); [apply mark_geq|reflexivity|exact K1]|apply geq_EqF; apply mark_geq].
  - apply EX; [exact P1|exact R1|apply M1; exact Lt0|exact K1].
Qed.

(* ---- bottom-up ---- *)
Lemma require_bu_with_Q mc : VMC mc -> QMC mc -> QREQ (require_bu_with OC mc).
Proof.
  intros HV HQ. destruct (require_with_Q mc HV HQ) as [Q1 Q2]. split.
  - intros w x c Hw Kw. unfold require_bu_with. specialize (Q1 w x c Hw Kw).
    destruct (require_with OC mc w x c) as [o w'|k w'|]; cbn [bind outQ] in *; [|exact Q1|exact Logic.I].
    destruct Q1 as [K1 E1]. split; [apply (geq_K w'); [apply mark_geq|reflexivity|exact K1]|].
    unfold EqC in *. destruct (cur w); [|exact Logic.I]. eapply EqS_trans; [exact E1|apply geq_EqS; apply mark_geq].
  - intros w x c t o w' Hw Kw Hc Hx E. unfold require_bu_with in E.
    destruct (require_with OC mc w x c) as [o1 w1|k w1|] eqn:E1; cbn [bind] in E; try discriminate. inversion E; subst o w'.
    apply (Q2 w x c t o1 w1 Hw Kw Hc Hx E1).
Qed.

Lemma schedule_after_geq w t o : geq w (schedule_after RC OC w t o).
Proof. destruct (schedule_after_split RC OC w t o) as [wm [Hl E]]. rewrite E. apply geq_same. cbn. 
  (* lv steps of scheduling never touch the graph except get_or_create_resource_node, which schedule_after does not call *)
  unfold schedule_after in E. cbv zeta in E. injection E as E. rewrite <- E. clear E.
  assert (F1 : forall l w0, gr (fold_left (schedule_by_written RC) l w0) = gr w0).
  { assert (TS : forall w0 t0 r0 c0 st0, gr (try_schedule RC w0 t0 r0 c0 st0) = gr w0).
    { intros. unfold try_schedule. cbv zeta. destruct (rc_check _ _ _ _ _); cbn; try reflexivity; unfold queue_add; destruct (memN _ _); reflexivity. }
    assert (TE : forall b w0 p, gr (try_schedule_edge RC b w0 p) = gr w0).
    { intros. unfold try_schedule_edge. destruct (snd p) as [[| | |]|]; try reflexivity; [apply TS|destruct b; [reflexivity|apply TS]]. }
    assert (FE : forall b l w0, gr (fold_left (try_schedule_edge RC b) l w0) = gr w0).
    { intros b l. induction l as [|p tl IH]; intros w0; cbn [fold_left]; [reflexivity|rewrite IH; apply TE]. }
    induction l as [|r tl IH]; intros w0; cbn [fold_left]; [reflexivity|]. rewrite IH. unfold schedule_by_written. cbv zeta. cbn [gr emit]. rewrite FE. reflexivity. }
  assert (F2 : forall l w0, gr (fold_left (schedule_requirer OC o) l w0) = gr w0).
  { induction l as [|p tl IH]; intros w0; cbn [fold_left]; [reflexivity|]. rewrite IH. unfold schedule_requirer.
    destruct (snd p) as [[| | |]|]; try reflexivity. cbv zeta. destruct (oc_check _ _ _); cbn; [reflexivity|]. unfold queue_add. destruct (memN _ _); reflexivity. }
  cbn [gr emit]. rewrite F2. cbn [gr emit]. apply F1.
Qed.

Definition QBU (fuel : nat) : Prop :=
  (forall a w t, VPre a w -> live (gr w) (tn t) = true -> reach a w t -> K w -> outQ (bu_execute_and_schedule RC OC P fuel w t) (EqF a w)) /\
  QMC (bu_make_consistent RC OC P fuel) /\
  (forall a w t, VPre a w -> reach a w t -> K w -> outQ (bu_require_scheduled_now RC OC P fuel w t) (EqF a w)).

Theorem bottom_up_Q fuel : QBU fuel.
Proof.
  induction fuel as [|f [IH1 [IH2 IH3]]]; [repeat split; intros; exact Logic.I|].
  destruct (bottom_up_R RC OC P f) as [BR1 [BR2 BR3]]. destruct (bottom_up_N RC OC P f) as [BN1 [BN2 BN3]]. destruct (bottom_up_V RC OC P f) as [BV1 [BV2 BV3]].
  assert (HmcV : VMC (bu_make_consistent RC OC P f)) by (split; [split; [exact BR2|exact BN2]|exact BV2]).
  assert (HreqV : VREQ (require_bu_with OC (bu_make_consistent RC OC P f))) by (apply (require_bu_with_V RC); [exact HmcV|apply (bu_out RC OC P f)]).
  assert (HreqQ : QREQ (require_bu_with OC (bu_make_consistent RC OC P f))) by (apply require_bu_with_Q; [exact HmcV|exact IH2]).
  assert (E1 : forall a w t, VPre a w -> live (gr w) (tn t) = true -> reach a w t -> K w -> outQ (bu_execute_and_schedule RC OC P (S f) w t) (EqF a w)).
  { intros a w t Hw Lt R Kw. rewrite bes_S. pose proof (execute_with_Q _ a w t HreqV HreqQ Hw Lt R Kw) as X.
    destruct (execute_with RC OC P (require_bu_with OC (bu_make_consistent RC OC P f)) w t) as [o w1|k w1|]; cbn [bind outQ] in *; [|exact X|exact Logic.I].
    destruct X as [X1 X2]. split; [apply (geq_K w1); [apply schedule_after_geq| |exact X1]|eapply EqF_trans; [exact X2|apply geq_EqF; apply schedule_after_geq]].
    destruct (schedule_after_split RC OC w1 t o) as [wm [Hl E]]. rewrite E. cbn. apply Hl. }
  split; [exact E1|]. split.
  - intros a w t Hw Lt R Kw. rewrite bmc_S. destruct (memN t (consistent w)); [destruct (get_task_output w t); [split; [exact Kw|apply EqF_refl]|exact Kw]|].
    destruct ((match get_task_output w t with None => true | Some _ => false end) && negb (memN t (queue w)))%bool;
      [apply (execute_with_Q _ a w t HreqV HreqQ Hw Lt R Kw)|].
    pose proof (IH3 a w t Hw R Kw) as X.
    destruct (bu_require_scheduled_now RC OC P f w t) as [r w1|k w1|]; cbn [bind outQ] in *; [|exact X|exact Logic.I].
    destruct r; [exact X|]. destruct (get_task_output w1 t); [exact X|apply X].
  - intros a w t Hw R Kw. rewrite rsn_S. destruct (queue w); [split; [exact Kw|apply EqF_refl]|].
    destruct (pop_least_from w t) as [[m w1]|] eqn:X; [|split; [exact Kw|apply EqF_refl]].
    destruct (pop_least_L RC OC P w t m w1 (proj1 (proj1 Hw)) X) as [L1 [G1 Lm]].
    assert (W1 : w1 = set_queue w (removeN m (sort_queue w))) by (unfold pop_least_from in X; destruct (find _ _); inversion X; reflexivity).
    assert (Q1 : q3 w w1) by (apply q3_same; [eapply trace_pop_least; exact X|exact G1|rewrite W1; reflexivity]).
    assert (Ge : geq w w1) by (apply geq_same; exact G1).
    assert (Lm1 : live (gr w1) (tn m) = true) by (rewrite G1; exact Lm).
    assert (R1 : reach a w1 t) by (eapply reach_kgrow; [exact R|apply Q1]).
    assert (P1 : VPre a w1) by (split; [eapply q3_Pre; [exact Q1|exact L1|apply Hw]|rewrite W1; apply pop_V; apply Hw]).
    assert (K1 : K w1) by (apply (geq_K w); [exact Ge|rewrite W1; reflexivity|exact Kw]).
    apply (outQ_pre _ _ w w1); [exact Ge|].
    destruct (pop_least_reach w t m w1 (proj1 (proj1 (proj1 Hw))) X) as [Em|Pm].
    + subst m. rewrite N.eqb_refl. pose proof (IH1 a w1 t P1 Lm1 R1 K1) as Y.
      destruct (bu_execute_and_schedule RC OC P f w1 t) as [o w2|k w2|]; cbn [bind outQ] in *; [exact Y|exact Y|exact Logic.I].
    + assert (Hmt : m <> t) by (intros ->; exact (WF_acyclic (gr w) (tn t) (proj1 (proj1 (proj1 (proj1 Hw)))) Pm)).
      destruct (N.eqb_spec m t) as [|_]; [contradiction|].
      assert (Pm1 : path (gr w1) (tn t) (tn m)) by (rewrite G1; exact Pm).
      assert (PS : VPre (Some t) w1) by (split; [split; [exact L1|split; [eapply OI_strengthen; [apply P1|exact R1]|apply P1]]|apply P1]).
      assert (RS : reach (Some t) w1 m) by (intros c Hc; inversion Hc; subst c; exact Pm1).
      pose proof (IH1 (Some t) w1 m PS Lm1 RS K1) as Y. destruct (BV1 (Some t) w1 m PS Lm1 RS) as [YV _].
      pose proof (step_pre (Some t) w1 (bu_execute_and_schedule RC OC P f w1 m)) as SP.
      specialize (SP) with (1 := PS) (2 := BR1 w1 m L1 Lm1) (3 := BN1 (Some t) w1 m (proj1 PS) Lm1 RS) (4 := YV).
      destruct (bu_execute_and_schedule RC OC P f w1 m) as [o w2|k w2|]; cbn [bind outQ] in *; [|exact Y|exact Logic.I].
      destruct (SP o w2 eq_refl) as [P2s [C2 [M2 [F2 O2]]]]. destruct Y as [K2 [S2 N2]].
      assert (Fa : FrameO a w1 w2) by (eapply FrameO_weaken; eassumption).
      assert (P2 : VPre a w2) by (split; [split; [apply P2s|split; [eapply OI_pres; [apply P1|exact Fa|exact O2]|apply P2s]]|apply P2s]).
      assert (R2 : reach a w2 t) by (eapply reach_pres; eassumption).
      pose proof (IH3 a w2 t P2 R2 K2) as Z.
      destruct (bu_require_scheduled_now RC OC P f w2 t) as [r w3|k w3|]; cbn [outQ] in *; [|exact Z|exact Logic.I].
      destruct Z as [Z1 Z2]. split; [exact Z1|]. eapply EqF_trans; [eapply EqS_to_EqF; [exact R1|exact S2]|exact Z2].
Qed.

Theorem execute_scheduled_Q fuel : forall w, VPre None w -> K w -> match execute_scheduled RC OC P fuel w with Done _ w' | Abort _ w' => K w' | OutOfFuel => True end.
Proof.
  induction fuel as [|f IH]; intros w Hw Kw; [exact Logic.I|]. rewrite es_S.
  destruct (queue_pop w) as [[t w1]|] eqn:X; [|exact Kw].
  destruct (queue_pop_L RC OC P w t w1 (proj1 (proj1 Hw)) X) as [L1 [G1 Lt]].
  assert (W1 : w1 = set_queue w (removeN t (sort_queue w))) by (unfold queue_pop in X; destruct (rev (sort_queue w)); [discriminate|inversion X; reflexivity]).
  assert (Q1 : q3 w w1) by (apply q3_same; [eapply trace_queue_pop; exact X|exact G1|rewrite W1; reflexivity]).
  assert (P1 : VPre None w1) by (split; [eapply q3_Pre; [exact Q1|exact L1|apply Hw]|rewrite W1; apply pop_V; apply Hw]).
  assert (Lt1 : live (gr w1) (tn t) = true) by (rewrite G1; exact Lt).
  assert (R1 : reach None w1 t) by (intros c Hc; discriminate).
  assert (K1 : K w1) by (apply (geq_K w); [apply geq_same; exact G1|rewrite W1; reflexivity|exact Kw]).
  pose proof (proj1 (bottom_up_Q f) None w1 t P1 Lt1 R1 K1) as Y. destruct (proj1 (bottom_up_V RC OC P f) None w1 t P1 Lt1 R1) as [YV _].
  pose proof (step_pre None w1 (bu_execute_and_schedule RC OC P f w1 t)) as SP.
  specialize (SP) with (1 := P1) (2 := proj1 (bottom_up_R RC OC P f) w1 t L1 Lt1) (3 := proj1 (bottom_up_N RC OC P f) None w1 t (proj1 P1) Lt1 R1) (4 := YV).
  destruct (bu_execute_and_schedule RC OC P f w1 t) as [o w2|k w2|]; cbn [bind outQ] in *; [|exact Y|exact Logic.I].
  destruct (SP o w2 eq_refl) as [P2 _]. apply IH; [exact P2|apply Y].
Qed.

(* ---- sessions and histories ---- *)
Variable always : ocid.

Lemma session_require_Q fuel w t : VS w -> K w ->
  match session_require RC OC P always fuel w t with Done _ w' | Abort _ w' => K w' | OutOfFuel => True end.
Proof.
  intros [[Hw Hc] HV] Kw. unfold session_require, require_td.
  set (w1 := emit (set_cur w None) EBuildStart).
  assert (Q1 : lv w w1).
  { eapply lv_trans; [apply (lv_same w (set_cur w None)); try reflexivity; [cbn; symmetry; exact Hc|trivial]|apply lv_emit; reflexivity]. }
  assert (L1 : L w1) by (apply L_emit, L_set_cur_none; apply Hw).
  assert (P1 : VPre None w1) by (eapply lv_VPre; [exact Q1|exact L1|split; assumption]).
  assert (K1 : K w1) by (apply (geq_K w); [apply geq_same; reflexivity|reflexivity|exact Kw]).
  pose proof (proj1 (require_with_Q _ (make_consistent_td_V RC OC P fuel) (make_consistent_td_Q fuel)) w1 t always P1 K1) as X.
  destruct (require_with OC (make_consistent_td RC OC P fuel) w1 t always) as [o w2|k w2|]; cbn [bind outQ] in *; [|exact X|exact Logic.I].
  apply (geq_K w2); [apply geq_same; reflexivity|reflexivity|apply X].
Qed.

Lemma schedule_tasks_affected_by_K w r : K w -> K (schedule_tasks_affected_by RC w r).
Proof.
  intros Kw. pose proof (schedule_tasks_affected_by_lv RC w r) as Hl. apply (K_frame RC OC P sf w); [|exact Kw].
  intros t _. unfold get_task_output. rewrite (proj1 (proj2 Hl)). split; [reflexivity|].
  (* the graph changes only by get_or_create_resource_node *)
  unfold schedule_tasks_affected_by. cbv zeta. unfold kidsT, row. cbn [gr emit].
  assert (TS : forall w0 t0 r0 c0 st0, gr (try_schedule RC w0 t0 r0 c0 st0) = gr w0).
  { intros. unfold try_schedule. cbv zeta. destruct (rc_check _ _ _ _ _); cbn; try reflexivity; unfold queue_add; destruct (memN _ _); reflexivity. }
  assert (TE : forall b w0 p, gr (try_schedule_edge RC b w0 p) = gr w0).
  { intros. unfold try_schedule_edge. destruct (snd p) as [[| | |]|]; try reflexivity; [apply TS|destruct b; [reflexivity|apply TS]]. }
  assert (FE : forall b l w0, gr (fold_left (try_schedule_edge RC b) l w0) = gr w0).
  { intros b l. induction l as [|p tl IH]; intros w0; cbn [fold_left]; [reflexivity|rewrite IH; apply TE]. }
  rewrite FE. apply (geq_goc_res (emit w (ESchedByResStart r)) r (tn t)).
Qed.

Lemma session_bottom_up_Q fuel w ch : VS w -> K w ->
  match session_bottom_up RC OC P fuel w ch with Done _ w' | Abort _ w' => K w' | OutOfFuel => True end.
Proof.
  intros [[Hw Hc] HV] Kw. unfold session_bottom_up. cbv zeta.
  assert (L0 : L (set_queue w [])). { destruct (proj1 Hw) as [H1 [H2 H3]]. split; [exact H1|]. split; [exact H2|intros x []]. }
  destruct (fold_affected_L RC ch _ L0) as [L1 M1]. set (w1 := fold_left (schedule_tasks_affected_by RC) ch (set_queue w [])) in *.
  assert (V0 : V (set_queue w [])) by (apply pop_V; exact HV).
  assert (Q01 : lv (set_queue w []) w1) by (apply fold_lv; intros; apply schedule_tasks_affected_by_lv).
  assert (V1 : V w1) by (eapply lv_V; eassumption).
  assert (K1 : K w1).
  { unfold w1. assert (KF : forall l w0, K w0 -> K (fold_left (schedule_tasks_affected_by RC) l w0)).
    { induction l as [|r tl IH]; intros w0 K0; cbn [fold_left]; [exact K0|apply IH; apply schedule_tasks_affected_by_K; exact K0]. }
    apply KF. apply (geq_K w); [apply geq_same; reflexivity|reflexivity|exact Kw]. }
  set (w2 := emit (set_cur w1 None) EBuildStart).
  assert (C1 : cur w1 = None) by (rewrite (proj2 (proj2 (proj1 Q01))); exact Hc).
  assert (Q12 : lv w1 w2).
  { eapply lv_trans; [apply (lv_same w1 (set_cur w1 None)); try reflexivity; [cbn; symmetry; exact C1|trivial]|apply lv_emit; reflexivity]. }
  assert (L2 : L w2) by (apply L_emit, L_set_cur_none; exact L1).
  assert (P2 : VPre None w2).
  { split; [|eapply lv_V; eassumption]. eapply q3_Pre; [apply Q12|exact L2|]. eapply q3_Pre; [apply Q01|exact L1|].
    split; [exact L0|split; [apply Hw|apply Hw]]. }
  assert (K2 : K w2) by (apply (geq_K w1); [apply geq_same; reflexivity|reflexivity|exact K1]).
  pose proof (execute_scheduled_Q fuel w2 P2 K2) as X.
  destruct (execute_scheduled RC OC P fuel w2) as [u w3|k w3|]; cbn [bind] in *; [|exact X|exact Logic.I].
  apply (geq_K w3); [apply geq_same; reflexivity|reflexivity|exact X].
Qed.

Lemma run_session_Q fuel ops : forall w, VS w -> K w -> K (snd (run_session RC OC P always fuel w ops)).
Proof.
  induction ops as [|o tl IH]; intros w Hw Kw; cbn [run_session]; [exact Kw|].
  assert (X : match run_sop RC OC P always fuel w o with (RDone _, w') => VS w' /\ K w' | (_, w') => K w' end).
  { destruct o as [t|ch]; cbn [run_sop].
    - pose proof (session_require_V RC OC P always fuel w t Hw) as Y. pose proof (session_require_Q fuel w t Hw Kw) as Z.
      destruct (session_require RC OC P always fuel w t); cbn in *; [split; assumption|exact Z|exact Kw].
    - pose proof (session_bottom_up_V RC OC P fuel w ch Hw) as Y. pose proof (session_bottom_up_Q fuel w ch Hw Kw) as Z.
      destruct (session_bottom_up RC OC P fuel w ch); cbn in *; [split; assumption|exact Z|exact Kw]. }
  destruct (run_sop RC OC P always fuel w o) as [[x|k|] w']; [|exact X|exact X].
  destruct X as [X1 X2]. specialize (IH w' X1 X2). destruct (run_session RC OC P always fuel w' tl) as [rs w'']. exact IH.
Qed.

Theorem run_history_Q fuel h : forall w, Hinv w -> K w -> K (snd (run_history RC OC P always fuel w h)).
Proof.
  induction h as [|s tl IH]; intros w Hw Kw; cbn [run_history]; [exact Kw|].
  assert (X : Hinv (snd (run_step RC OC P always fuel w s)) /\ K (snd (run_step RC OC P always fuel w s))).
  { split.
    - pose proof (run_history_V RC OC P always fuel [s] w Hw) as Y. cbn [run_history] in Y. destruct (run_step RC OC P always fuel w s) as [r w']. exact (proj2 Y).
    - destruct s as [r v|e|ops]; cbn [run_step snd].
      + apply (geq_K w); [apply geq_same; destruct v; reflexivity|destruct v; reflexivity|exact Kw].
      + apply (geq_K w); [apply geq_same; reflexivity|reflexivity|exact Kw].
      + apply run_session_Q; [apply VS_new_session; exact Hw|]. apply (geq_K w); [apply geq_same; reflexivity|reflexivity|exact Kw]. }
  destruct (run_step RC OC P always fuel w s) as [r w']. cbn [snd] in X. specialize (IH w' (proj1 X) (proj2 X)).
  destruct (run_history RC OC P always fuel w' tl) as [rs w'']. exact IH.
Qed.

(* EVERY history (top-down, bottom-up and mixed sessions, aborted builds): for every task with an output the store's dependency
   list is exactly one complete run of its program *)
Theorem exact_record_any_history fuel h t o :
  let w := snd (run_history RC OC P always fuel init_world h) in
  get_task_output w t = Some o -> Rep (row w t) (P t) [] o (kidsT w t).
Proof.
  intros w. apply (run_history_Q fuel h init_world); [split; [apply L_init|intros x d X; discriminate]|apply K_init].
Qed.

End CA.

(* C12: each built-in output checker decides exactly its documented relation, for all payload types with decidable equality. *)
From Coq Require Import List NArith Bool.
From PieV Require Import Model.Checkers.

Section P.
Variables T E : Type.
Variable eqT : T -> T -> bool.
Variable eqE : E -> E -> bool.
Hypothesis eqT_spec : forall a b, eqT a b = true <-> a = b.
Hypothesis eqE_spec : forall a b, eqE a b = true <-> a = b.
Notation out := (result T E).

Lemma eq_out_spec (a b : out) : eq_out T E eqT eqE a b = true <-> a = b.
Proof.
  destruct a, b; cbn; try (split; intros H; [discriminate|inversion H]).
  - rewrite eqT_spec. split; intros H; [subst; reflexivity|inversion H; reflexivity].
  - rewrite eqE_spec. split; intros H; [subst; reflexivity|inversion H; reflexivity].
Qed.

(* documented relations *)
Definition rel_equals (o1 o2 : out) : Prop := o1 = o2.
Definition rel_ok_equals (o1 o2 : out) : Prop :=
  match o1, o2 with Ok a, Ok b => a = b | Err _, Err _ => True | _, _ => False end.
Definition rel_err_equals (o1 o2 : out) : Prop :=
  match o1, o2 with Err a, Err b => a = b | Ok _, Ok _ => True | _, _ => False end.
Definition rel_result (o1 o2 : out) : Prop :=
  match o1, o2 with Ok _, Ok _ => True | Err _, Err _ => True | _, _ => False end.

Theorem equals_decides o1 o2 : equals_check T E eqT eqE o1 (equals_stamp T E o2) = false <-> rel_equals o1 o2.
Proof. unfold equals_check, equals_stamp, rel_equals. rewrite negb_false_iff. apply eq_out_spec. Qed.

Theorem ok_equals_decides o1 o2 : ok_equals_check T E eqT o1 (ok_equals_stamp T E o2) = false <-> rel_ok_equals o1 o2.
Proof.
  unfold ok_equals_check, ok_equals_stamp, rel_ok_equals. rewrite negb_false_iff.
  destruct o1, o2; cbn; try tauto; try (split; [discriminate|tauto]). apply eqT_spec.
Qed.

Theorem err_equals_decides o1 o2 : err_equals_check T E eqE o1 (err_equals_stamp T E o2) = false <-> rel_err_equals o1 o2.
Proof.
  unfold err_equals_check, err_equals_stamp, rel_err_equals. rewrite negb_false_iff.
  destruct o1, o2; cbn; try tauto; try (split; [discriminate|tauto]). apply eqE_spec.
Qed.

Theorem result_decides o1 o2 : result_check T E o1 (result_stamp T E o2) = false <-> rel_result o1 o2.
Proof.
  unfold result_check, result_stamp, rel_result. rewrite negb_false_iff.
  destruct o1, o2; cbn; try tauto; split; try discriminate; tauto.
Qed.

Theorem always_decides o1 o2 : always_check T E o1 (always_stamp T E o2) = false <-> True.
Proof. cbn. tauto. Qed.

(* every output is consistent with its own stamp, for all five checkers *)
Theorem reflexive c o : inconsistent T E eqT eqE c o o = false.
Proof.
  unfold inconsistent.
  destruct c as [|[[[p|p|]|[p|p|]|]|[[p|p|]|[p|p|]|]|]]; try reflexivity;
  first [ apply equals_decides; reflexivity
        | apply ok_equals_decides; destruct o; cbn; auto
        | apply err_equals_decides; destruct o; cbn; auto
        | apply result_decides; destruct o; cbn; auto ].
Qed.
End P.

(* add_edge: the Pearce-Kelly order repair preserves WF, rejects exactly the edges that would close a cycle, and a rejected
   insertion leaves the graph exactly as it was. *)
From Coq Require Import List NArith Bool Lia Permutation Sorted.
From PieV Require Import Model.Dag Proofs.DagLib Proofs.DagWF Proofs.DagPath Proofs.DagDfs Proofs.Sorting Proofs.DagReorder.
Import ListNotations.
Open Scope N_scope.

Section AddEdge.
Context {ED : Type}.
Implicit Types g : dag ED.

(* the graph after the edge has been entered in the adjacency sets and the edge data, before any order repair *)
Definition pre_graph g (s d : node) (e : ED) : dag ED :=
  insert_edata
    (upd_info (upd_info g s (fun i => mkNinfo (rank i) (kids_of g s ++ [d]) (pars i)))
              d (fun i => mkNinfo (rank i) (kids i) (pars_of g d ++ [s])))
    s d e.

Lemma add_edge_unfold g s d e :
  WF g -> live g s = true -> live g d = true -> s <> d -> ~ In d (kids_of g s) ->
  add_edge g s d e =
  let g3 := pre_graph g s d e in
  let ub := rank_of g s in let lb := rank_of g d in
  if N.ltb lb ub then
    match dfs_forward (dfs_fuel g3) g3 ub [d] [] [] with
    | DfsFuel => (AFuel, g3)
    | DfsCycle =>
      (AErr CycleDetected,
       remove_edata (upd_info (upd_info g3 s (fun i => mkNinfo (rank i) (removeN d (kids i)) (pars i)))
                              d (fun i => mkNinfo (rank i) (kids i) (removeN s (pars i)))) s d)
    | DfsOk cf visited =>
      match dfs_backward (dfs_fuel g3) g3 lb [s] visited [] with
      | DfsOk cb _ => (AOk true, reorder_nodes g3 cf cb)
      | _ => (AFuel, g3)
      end
    end
  else (AOk true, g3).
Proof.
  intros W Ls Ld Hsd Hnk. unfold add_edge. rewrite Ls, Ld. cbn [negb orb].
  destruct (N.eqb_spec s d) as [|_]; [congruence|].
  assert (M : memN d (kids_of g s) = false) by (apply memN_false; exact Hnk). rewrite M.
  assert (Hnp : ~ In s (pars_of g d)) by (intros X; apply (wf_sym g W) in X; tauto).
  assert (M2 : memN s (pars_of g d) = false) by (apply memN_false; exact Hnp).
  destruct (lhs_insert d (kids_of g s)) as [np1 k'] eqn:L1.
  unfold lhs_insert in L1. rewrite M, (removeN_notin d _ Hnk) in L1. cbn [negb] in L1. inversion L1; subst np1 k'. clear L1.
  match goal with |- context [pars_of ?G d] =>
    assert (P1 : pars_of G d = pars_of g d) by (rewrite pars_of_upd; destruct (N.eqb_spec d s); [congruence|reflexivity]);
    rewrite P1; clear P1 end.
  destruct (lhs_insert s (pars_of g d)) as [np2 p'] eqn:L2.
  unfold lhs_insert in L2. rewrite M2, (removeN_notin s _ Hnp) in L2. cbn [negb] in L2. inversion L2; subst np2 p'. clear L2.
  cbn [negb].
  match goal with |- context [N.ltb (rank_of ?G2 d) (rank_of ?G1 s)] =>
    assert (R1 : rank_of G1 s = rank_of g s) by
      (rewrite rank_of_upd, N.eqb_refl; unfold rank_of; destruct (get_info g s); reflexivity);
    assert (R2 : rank_of G2 d = rank_of g d) by
      (rewrite rank_of_upd, N.eqb_refl, get_info_upd; destruct (N.eqb_spec d s); [congruence|]; unfold rank_of; destruct (get_info g d); reflexivity);
    rewrite R1, R2 end.
  cbn zeta. unfold pre_graph. reflexivity.
Qed.

(* view of the pre-graph *)
Lemma pre_graph_view g s d e :
  live g s = true -> live g d = true -> s <> d ->
  let g3 := pre_graph g s d e in
  map fst (infos g3) = map fst (infos g) /\ last g3 = last g /\ length (infos g3) = length (infos g) /\
  (forall m, live g3 m = live g m) /\ (forall m, rank_of g3 m = rank_of g m) /\
  (forall m, kids_of g3 m = if N.eqb m s then kids_of g s ++ [d] else kids_of g m) /\
  (forall m, pars_of g3 m = if N.eqb m d then pars_of g d ++ [s] else pars_of g m) /\
  (forall u v, get_edata g3 u v = if pair_eqb (s, d) (u, v) then Some e else get_edata g u v).
Proof.
  intros Ls Ld Hsd. cbn zeta. unfold pre_graph.
  set (g1 := upd_info g s (fun i => mkNinfo (rank i) (kids_of g s ++ [d]) (pars i))).
  set (g2 := upd_info g1 d (fun i => mkNinfo (rank i) (kids i) (pars_of g d ++ [s]))).
  assert (GI : forall m, get_info g2 m =
            if N.eqb m d then option_map (fun i => mkNinfo (rank i) (kids i) (pars_of g d ++ [s])) (get_info g m)
            else if N.eqb m s then option_map (fun i => mkNinfo (rank i) (kids_of g s ++ [d]) (pars i)) (get_info g m)
            else get_info g m).
  { intros m. unfold g2. rewrite get_info_upd. unfold g1. rewrite get_info_upd.
    destruct (N.eqb_spec m d) as [->|]; [|reflexivity]. destruct (N.eqb_spec d s); [congruence|reflexivity]. }
  repeat split.
  - unfold insert_edata, set_edata. cbn [infos]. unfold g2. rewrite ids_upd. unfold g1. apply ids_upd.
  - unfold insert_edata, set_edata. cbn [infos]. unfold g2. rewrite length_infos_upd. unfold g1. apply length_infos_upd.
  - intros m. unfold live. change (get_info (insert_edata g2 s d e) m) with (get_info g2 m). rewrite GI.
    destruct (N.eqb m d); [destruct (get_info g m); reflexivity|]. destruct (N.eqb m s); destruct (get_info g m); reflexivity.
  - intros m. unfold rank_of. change (get_info (insert_edata g2 s d e) m) with (get_info g2 m). rewrite GI.
    destruct (N.eqb m d); [destruct (get_info g m); reflexivity|]. destruct (N.eqb m s); destruct (get_info g m); reflexivity.
  - intros m. unfold kids_of at 1. change (get_info (insert_edata g2 s d e) m) with (get_info g2 m). rewrite GI.
    destruct (N.eqb_spec m d) as [->|].
    + destruct (N.eqb_spec d s); [congruence|]. unfold kids_of. destruct (get_info g d); reflexivity.
    + destruct (N.eqb_spec m s) as [->|]; [|reflexivity]. unfold live in Ls. destruct (get_info g s) eqn:G; [reflexivity|discriminate].
  - intros m. unfold pars_of at 1. change (get_info (insert_edata g2 s d e) m) with (get_info g2 m). rewrite GI.
    destruct (N.eqb_spec m d) as [->|].
    + unfold live in Ld. destruct (get_info g d) eqn:G; [reflexivity|discriminate].
    + destruct (N.eqb_spec m s) as [->|]; [|reflexivity]. unfold pars_of. destruct (get_info g s); reflexivity.
  - intros u v. rewrite get_edata_insert. reflexivity.
Qed.

(* a path in the pre-graph is a path of g, or leads (in g) to the source of the new edge *)
Lemma pre_path g s d e a b :
  live g s = true -> live g d = true -> s <> d ->
  path (pre_graph g s d e) a b -> path g a b \/ a = s \/ path g a s.
Proof.
  intros Ls Ld Hsd P. destruct (pre_graph_view g s d e Ls Ld Hsd) as [_ [_ [_ [_ [_ [K _]]]]]].
  induction P as [u v X|u w v X P IH].
  - rewrite K in X. destruct (N.eqb_spec u s) as [->|]; [right; left; reflexivity|]. left. apply path1. exact X.
  - rewrite K in X. destruct (N.eqb_spec u s) as [->|]; [right; left; reflexivity|].
    destruct IH as [IH|[->|IH]].
    + left. eapply pathS; eassumption.
    + right. right. apply path1. exact X.
    + right. right. eapply pathS; eassumption.
Qed.
Lemma path_to_pre g s d e a b :
  live g s = true -> live g d = true -> s <> d -> path g a b -> path (pre_graph g s d e) a b.
Proof.
  intros Ls Ld Hsd P. destruct (pre_graph_view g s d e Ls Ld Hsd) as [_ [_ [_ [_ [_ [K _]]]]]].
  induction P as [u v X|u w v X P IH].
  - apply path1. rewrite K. destruct (N.eqb_spec u s) as [->|]; [apply in_or_app; left|]; exact X.
  - eapply pathS; [|exact IH]. rewrite K. destruct (N.eqb_spec u s) as [->|]; [apply in_or_app; left|]; exact X.
Qed.

(* ---------- the rejected insertion restores the graph exactly ---------- *)
Lemma upd_info_l_id l n (f : ninfo -> ninfo) : (forall i, In (n, i) l -> f i = i) -> upd_info_l l n f = l.
Proof.
  induction l as [|[k i] tl IH]; intros H; cbn; [reflexivity|].
  destruct (N.eqb_spec k n) as [->|].
  - cbn. rewrite (H i (or_introl eq_refl)). f_equal. apply IH. intros j Hj. apply H. right. exact Hj.
  - f_equal. apply IH. intros j Hj. apply H. right. exact Hj.
Qed.
Lemma upd_info_l_comp l n (f h : ninfo -> ninfo) : upd_info_l (upd_info_l l n f) n h = upd_info_l l n (fun i => h (f i)).
Proof.
  induction l as [|[k i] tl IH]; cbn; [reflexivity|].
  destruct (N.eqb k n) eqn:Ekn; cbn; rewrite Ekn; f_equal; exact IH.
Qed.
Lemma upd_info_l_comm l n m (f h : ninfo -> ninfo) : n <> m -> upd_info_l (upd_info_l l n f) m h = upd_info_l (upd_info_l l m h) n f.
Proof.
  intros Hne. induction l as [|[k i] tl IH]; cbn; [reflexivity|].
  destruct (N.eqb k n) eqn:E1; destruct (N.eqb k m) eqn:E2; cbn; rewrite ?E1, ?E2; cbn.
  - apply N.eqb_eq in E1, E2. congruence.
  - f_equal. exact IH.
  - f_equal. exact IH.
  - f_equal. exact IH.
Qed.
Lemma remove_edata_l_notin (l : list ((node * node) * ED)) k : get_edata_l l k = None -> remove_edata_l l k = l.
Proof.
  induction l as [|[k' e] tl IH]; cbn; [reflexivity|]. destruct (pair_eqb k' k) eqn:X; [discriminate|]. intros H. cbn. f_equal. apply IH. exact H.
Qed.
Lemma remove_edata_l_app (l1 l2 : list ((node * node) * ED)) k : remove_edata_l (l1 ++ l2) k = remove_edata_l l1 k ++ remove_edata_l l2 k.
Proof. unfold remove_edata_l. apply filter_app. Qed.

Lemma rollback_exact g s d e :
  WF g -> live g s = true -> live g d = true -> s <> d -> ~ In d (kids_of g s) ->
  remove_edata (upd_info (upd_info (pre_graph g s d e) s (fun i => mkNinfo (rank i) (removeN d (kids i)) (pars i)))
                         d (fun i => mkNinfo (rank i) (kids i) (removeN s (pars i)))) s d = g.
Proof.
  intros W Ls Ld Hsd Hnk.
  assert (Hnp : ~ In s (pars_of g d)) by (intros X; apply (wf_sym g W) in X; tauto).
  assert (Hed : get_edata g s d = None).
  { destruct (get_edata g s d) eqn:X; [|reflexivity]. exfalso. apply Hnk. apply (wf_edata g W). congruence. }
  destruct g as [inf ed la fr]. unfold pre_graph, remove_edata, insert_edata, set_edata, upd_info. cbn [infos edata last fresh].
  f_equal.
  - (* infos *)
    rewrite (upd_info_l_comm _ d s) by congruence.
    rewrite upd_info_l_comp. rewrite upd_info_l_comp.
    cbn [rank kids pars].
    rewrite (upd_info_l_id _ d).
    + apply upd_info_l_id. intros i Hi. cbn [rank kids pars].
      assert (K : kids_of (mkDag inf ed la fr) s = kids i).
      { unfold kids_of, get_info. cbn [infos]. rewrite (get_info_l_in inf s i (wf_ids _ W) Hi). reflexivity. }
      rewrite K. rewrite removeN_app_single; [destruct i; reflexivity|]. rewrite <- K. exact Hnk.
    + intros i Hi. apply in_map_iff in Hi. destruct Hi as [[k j] [E Hj]]. cbn in E.
      destruct (N.eqb_spec k s) as [->|Hks]; inversion E; subst; [congruence|].
      cbn [rank kids pars].
      assert (Pd : pars_of (mkDag inf ed la fr) d = pars i).
      { unfold pars_of, get_info. cbn [infos]. rewrite (get_info_l_in inf d i (wf_ids _ W) Hj). reflexivity. }
      rewrite Pd. rewrite removeN_app_single; [destruct i; reflexivity|]. rewrite <- Pd. exact Hnp.
  - (* edge data *)
    unfold get_edata in Hed. cbn [edata] in Hed.
    rewrite remove_edata_l_app. cbn. rewrite pair_eqb_refl. cbn. rewrite app_nil_r.
    rewrite (remove_edata_l_notin ed (s, d) Hed). apply remove_edata_l_notin. exact Hed.
Qed.

(* ---------- assign_ranks ---------- *)
Fixpoint alook (l : list (node * N)) (k : node) : option N :=
  match l with [] => None | (k', r) :: tl => if N.eqb k' k then Some r else alook tl k end.

Lemma alook_in l k r : NoDup (map fst l) -> In (k, r) l -> alook l k = Some r.
Proof.
  induction l as [|[k' r'] tl IH]; cbn; [tauto|]. intros Hn [X|X].
  - inversion X; subst. rewrite N.eqb_refl. reflexivity.
  - inversion Hn; subst. destruct (N.eqb_spec k' k) as [->|]; [|apply IH; assumption].
    exfalso. apply H1. change k with (fst (k, r)). apply in_map. exact X.
Qed.
Lemma alook_none l k : ~ In k (map fst l) -> alook l k = None.
Proof.
  induction l as [|[k' r'] tl IH]; cbn; [reflexivity|]. intros H.
  destruct (N.eqb_spec k' k) as [->|]; [exfalso; apply H; left; reflexivity|]. apply IH. tauto.
Qed.
Lemma map_fst_combine {A B} (l1 : list A) (l2 : list B) : length l1 = length l2 -> map fst (combine l1 l2) = l1.
Proof. revert l2. induction l1 as [|x tl IH]; intros l2 H; destruct l2; cbn in *; try discriminate; [reflexivity|]. f_equal. apply IH. lia. Qed.

Lemma assign_ranks_get ks : forall l rs m, NoDup ks ->
  get_info_l (assign_ranks l ks rs) m =
  match alook (combine ks rs) m with
  | Some r => option_map (fun i => mkNinfo r (kids i) (pars i)) (get_info_l l m)
  | None => get_info_l l m
  end.
Proof.
  induction ks as [|k tl IH]; intros l rs m Hn; cbn [assign_ranks combine alook]; [reflexivity|].
  destruct rs as [|r rs']; [reflexivity|]. cbn [combine alook]. inversion Hn; subst.
  rewrite IH by assumption. rewrite get_info_upd_l.
  destruct (N.eqb_spec k m) as [->|Hkm].
  - rewrite N.eqb_refl. rewrite alook_none; [reflexivity|].
    intros X. apply H1. clear -X. revert rs' X. induction tl as [|a tl IH]; intros rs' X; [destruct X|].
    destruct rs'; [destruct X|]. cbn in X. destruct X as [<-|X]; [left; reflexivity|right; eapply IH; exact X].
  - destruct (N.eqb_spec m k); [congruence|]. reflexivity.
Qed.
Lemma assign_ranks_ids ks : forall l rs, map fst (assign_ranks l ks rs) = map fst l.
Proof. induction ks as [|k tl IH]; intros l rs; cbn; [reflexivity|]. destruct rs; [reflexivity|]. rewrite IH. apply map_fst_upd. Qed.

(* ---------- the no-repair case and the structural part shared with the repair case ---------- *)
Lemma pre_graph_structure g s d e :
  WF g -> live g s = true -> live g d = true -> s <> d -> ~ In d (kids_of g s) ->
  let g3 := pre_graph g s d e in
  NoDup (map fst (infos g3)) /\ (forall u, NoDup (kids_of g3 u)) /\ (forall v, NoDup (pars_of g3 v)) /\
  (forall u v, In v (kids_of g3 u) <-> In u (pars_of g3 v)) /\
  (forall u v, In v (kids_of g3 u) -> live g3 u = true /\ live g3 v = true) /\
  (forall u v, get_edata g3 u v <> None <-> In v (kids_of g3 u)) /\
  last g3 = N.of_nat (length (infos g3)).
Proof.
  intros W Ls Ld Hsd Hnk. cbn zeta.
  destruct (pre_graph_view g s d e Ls Ld Hsd) as [V1 [V2 [V3 [V4 [V5 [V6 [V7 V8]]]]]]].
  assert (Hnp : ~ In s (pars_of g d)) by (intros X; apply (wf_sym g W) in X; tauto).
  destruct W as [Wi Wk Wp Ws Wc We Wj Wr Wl Wt].
  repeat split.
  - rewrite V1. exact Wi.
  - intros u. rewrite V6. destruct (N.eqb u s); [apply NoDup_app_single; [apply Wk|exact Hnk]|apply Wk].
  - intros v. rewrite V7. destruct (N.eqb v d); [apply NoDup_app_single; [apply Wp|exact Hnp]|apply Wp].
  - rewrite V6, V7. destruct (N.eqb_spec u s) as [->|Hus]; destruct (N.eqb_spec v d) as [->|Hvd]; rewrite ?in_app_iff; cbn.
    + intros _. right. left. reflexivity.
    + intros [X|[X|[]]]; [apply Ws; exact X|congruence].
    + intros X. left. apply Ws. exact X.
    + apply Ws.
  - rewrite V6, V7. destruct (N.eqb_spec u s) as [->|Hus]; destruct (N.eqb_spec v d) as [->|Hvd]; rewrite ?in_app_iff; cbn.
    + intros _. right. left. reflexivity.
    + intros X. left. apply Ws. exact X.
    + intros [X|[X|[]]]; [apply Ws; exact X|congruence].
    + apply Ws.
  - rewrite V6 in H. rewrite V4. destruct (N.eqb_spec u s) as [->|]; [exact Ls|]. apply (Wc u v H).
  - rewrite V6 in H. rewrite V4. destruct (N.eqb_spec u s) as [->|].
    + apply in_app_or in H. destruct H as [H|[<-|[]]]; [apply (Wc s v H)|exact Ld].
    + apply (Wc u v H).
  - rewrite V8, V6. destruct (pair_eqb (s, d) (u, v)) eqn:X.
    + apply pair_eqb_eq in X. inversion X; subst. rewrite N.eqb_refl. intros _. apply in_or_app. right. left. reflexivity.
    + apply pair_eqb_neq in X. intros Y. apply We in Y. destruct (N.eqb_spec u s) as [->|]; [apply in_or_app; left|]; exact Y.
  - rewrite V8, V6. destruct (pair_eqb (s, d) (u, v)) eqn:X; [congruence|].
    apply pair_eqb_neq in X. intros Y. apply We. destruct (N.eqb_spec u s) as [->|]; [|exact Y].
    apply in_app_or in Y. destruct Y as [Y|[<-|[]]]; [exact Y|]. exfalso. apply X. reflexivity.
  - rewrite V2, V3. exact Wl.
Qed.

Lemma WF_pre_graph_ordered g s d e :
  WF g -> live g s = true -> live g d = true -> s <> d -> ~ In d (kids_of g s) ->
  rank_of g s < rank_of g d -> WF (pre_graph g s d e).
Proof.
  intros W Ls Ld Hsd Hnk Hord.
  destruct (pre_graph_structure g s d e W Ls Ld Hsd Hnk) as [S1 [S2 [S3 [S4 [S5 [S6 S7]]]]]].
  destruct (pre_graph_view g s d e Ls Ld Hsd) as [V1 [V2 [V3 [V4 [V5 [V6 [V7 V8]]]]]]].
  constructor; try assumption.
  - intros u v. rewrite !V4, !V5. apply (wf_inj g W).
  - intros u. rewrite V4, V5, V2. apply (wf_range g W).
  - intros u v. rewrite V6, !V5. destruct (N.eqb_spec u s) as [->|].
    + intros X. apply in_app_or in X. destruct X as [X|[<-|[]]]; [apply (wf_topo g W); exact X|exact Hord].
    + apply (wf_topo g W).
Qed.

(* ---------- cycle detection ---------- *)
Lemma forward_closed_no_path g s d e cf :
  WF g -> live g s = true -> live g d = true -> s <> d ->
  FInv (pre_graph g s d e) (rank_of g s) d [] cf ->
  forall x, In x cf -> path g x s -> False.
Proof.
  intros W Ls Ld Hsd [F2 F3].
  destruct (pre_graph_view g s d e Ls Ld Hsd) as [_ [_ [_ [_ [V5 [V6 _]]]]]].
  assert (G : forall x t, path g x t -> t = s -> In x cf -> False).
  { intros x t P. induction P as [u v X|u w v X P IH]; intros Et Hx; subst.
    - assert (Y : In s (kids_of (pre_graph g s d e) u)).
      { rewrite V6. destruct (N.eqb_spec u s) as [->|]; [apply in_or_app; left|]; exact X. }
      destruct (F2 u Hx s Y) as [A _]. apply A. apply V5.
    - assert (Y : In w (kids_of (pre_graph g s d e) u)).
      { rewrite V6. destruct (N.eqb_spec u s) as [->|]; [apply in_or_app; left|]; exact X. }
      destruct (F2 u Hx w Y) as [_ B]. rewrite V5 in B.
      assert (R : rank_of g w < rank_of g s) by (apply path_rank; assumption).
      destruct (B R) as [Z|[]]. apply IH; [reflexivity|exact Z]. }
  intros x Hx P. eapply G; [exact P|reflexivity|exact Hx].
Qed.

(* ---------- the repair case ---------- *)
Lemma WF_reorder g s d e cf cb :
  WF g -> live g s = true -> live g d = true -> s <> d -> ~ In d (kids_of g s) ->
  rank_of g d < rank_of g s ->
  FInv (pre_graph g s d e) (rank_of g s) d [] cf -> In d cf ->
  BInv (pre_graph g s d e) (rank_of g d) s cf [] cb -> In s cb ->
  WF (reorder_nodes (pre_graph g s d e) cf cb).
Proof.
  intros W Ls Ld Hsd Hnk Hlt FI Hdcf BI Hscb.
  set (g3 := pre_graph g s d e) in *.
  destruct (pre_graph_structure g s d e W Ls Ld Hsd Hnk) as [S1 [S2 [S3 [S4 [S5 [S6 S7]]]]]]. fold g3 in S1, S2, S3, S4, S5, S6, S7.
  destruct (pre_graph_view g s d e Ls Ld Hsd) as [V1 [V2 [V3 [V4 [V5 [V6 [V7 V8]]]]]]]. fold g3 in V1, V2, V3, V4, V5, V6, V7, V8.
  pose proof (forward_closed_no_path g s d e cf W Ls Ld Hsd FI) as NoPath.
  assert (NC : ~ path g d s) by (intros X; eapply NoPath; eassumption).
  destruct FI as [F2 F3]. destruct BI as [B2 B3].
  set (ub := rank_of g s) in *. set (lb := rank_of g d) in *.
  (* edges of the pre-graph *)
  assert (EDGE : forall u v, In v (kids_of g3 u) -> (u = s /\ v = d) \/ In v (kids_of g u)).
  { intros u v X. rewrite V6 in X. destruct (N.eqb_spec u s) as [->|]; [|right; exact X].
    apply in_app_or in X. destruct X as [X|[<-|[]]]; [right; exact X|left; split; reflexivity]. }
  assert (EDGE' : forall u v, In v (kids_of g u) -> In v (kids_of g3 u)).
  { intros u v X. rewrite V6. destruct (N.eqb_spec u s) as [->|]; [apply in_or_app; left|]; exact X. }
  (* members of the two change sets *)
  assert (CF : forall x, In x cf -> (x = d \/ path g d x) /\ lb <= rank_of g x < ub /\ live g x = true).
  { intros x X. destruct (F3 x (or_intror X)) as [A B]. rewrite V5 in B.
    assert (A' : x = d \/ path g d x).
    { destruct A as [A|A]; [left; exact A|]. apply pre_path in A; try assumption. destruct A as [A|[A|A]]; [right; exact A|congruence|tauto]. }
    split; [exact A'|]. destruct A' as [->|A']; [split; [fold lb; lia|exact Ld]|].
    pose proof (path_rank g d x W A'). pose proof (path_live g d x W A'). split; [fold lb in H; lia|tauto]. }
  assert (CB : forall x, In x cb -> (x = s \/ path g x s) /\ lb < rank_of g x <= ub /\ live g x = true).
  { intros x X. destruct (B3 x (or_intror X)) as [A B]. rewrite V5 in B.
    assert (A' : x = s \/ path g x s).
    { destruct A as [A|A]; [left; exact A|]. apply pre_path in A; try assumption. destruct A as [A|[A|A]]; [right; exact A|left; exact A|right; exact A]. }
    split; [exact A'|]. destruct A' as [->|A']; [split; [fold ub; lia|exact Ls]|].
    pose proof (path_rank g x s W A'). pose proof (path_live g x s W A'). split; [fold ub in H; lia|tauto]. }
  assert (DISJ : forall x, In x cb -> In x cf -> False).
  { intros x X Y. destruct (CF x Y) as [[E1|A] _]; destruct (CB x X) as [[E2|B'] _].
    - congruence.
    - subst x. exact (NC B').
    - subst x. exact (NC A).
    - apply NC. eapply path_trans; eassumption. }
  set (B := nodupN cb). set (F := nodupN cf).
  assert (InB : forall x, In x B <-> In x cb) by (intros; apply nodupN_In).
  assert (InF : forall x, In x F <-> In x cf) by (intros; apply nodupN_In).
  assert (HnB : NoDup B) by apply nodupN_NoDup. assert (HnF : NoDup F) by apply nodupN_NoDup.
  assert (Hdisj : forall x, In x B -> In x F -> False) by (intros x X Y; apply InB in X; apply InF in Y; eapply DISJ; eassumption).
  assert (LiveK : forall x, In x (B ++ F) -> live g x = true).
  { intros x X. apply in_app_or in X. destruct X as [X|X]; [apply InB in X; apply CB; exact X|apply InF in X; apply CF; exact X]. }
  set (key := rank_of g3).
  assert (Hinj : forall x y, In x (B ++ F) -> In y (B ++ F) -> key x = key y -> x = y).
  { intros x y X Y Z. unfold key in Z. rewrite !V5 in Z. apply (wf_inj g W); auto. }
  (* the keys and the pool exactly as reorder_nodes computes them *)
  set (K := sort_by key B ++ sort_by key F).
  set (P := sort_by (fun r => r) (map key K)).
  assert (KNoDup : NoDup K) by (apply NoDup_K; assumption).
  assert (NT : forall k, In k K -> exists p, newrank_rel key B F k p) by (intros; apply newrank_total; assumption).
  assert (NFun : forall k p p', newrank_rel key B F k p -> newrank_rel key B F k p' -> p = p') by (exact (newrank_fun key B F HnB HnF Hdisj Hinj)).
  assert (NInj : forall k k' p, newrank_rel key B F k p -> newrank_rel key B F k' p -> k = k') by (exact (newrank_inj key B F HnB HnF Hdisj Hinj)).
  assert (NMono : forall k k' p p', newrank_rel key B F k p -> newrank_rel key B F k' p' -> posrel key B F k k' -> p < p') by (exact (newrank_mono key B F HnB HnF Hdisj Hinj)).
  assert (NBle : forall k p, In k B -> newrank_rel key B F k p -> p <= key k) by (exact (newrank_B_le key B F HnB Hdisj Hinj)).
  assert (NFge : forall k p, In k F -> newrank_rel key B F k p -> key k <= p) by (exact (newrank_F_ge key B F HnF Hdisj Hinj)).
  assert (NPool : forall k p, newrank_rel key B F k p -> exists k0, In k0 K /\ key k0 = p).
  { intros k p Hp. destruct (newrank_in_pool key B F k p Hp) as [A _]. apply (In_P key B F) in A. exact A. }
  assert (PLen : length P = length K) by (apply P_length).
  assert (InK : forall x, In x K <-> In x cb \/ In x cf).
  { intros x. unfold K. rewrite In_K. rewrite InB, InF. reflexivity. }
  set (g' := reorder_nodes g3 cf cb).
  assert (GI : forall m, get_info g' m = match alook (combine K P) m with
                                         | Some r => option_map (fun i => mkNinfo r (kids i) (pars i)) (get_info g3 m)
                                         | None => get_info g3 m end).
  { intros m. unfold g', reorder_nodes, get_info. cbn [infos]. fold key. fold B. fold F. fold K. fold P.
    apply assign_ranks_get. exact KNoDup. }
  assert (NR : forall m, In m K -> exists p, newrank_rel key B F m p /\ alook (combine K P) m = Some p).
  { intros m X. destruct (NT m X) as [p Hp]. exists p. split; [exact Hp|].
    apply alook_in; [|exact Hp]. rewrite map_fst_combine by (symmetry; exact PLen). exact KNoDup. }
  assert (NK : forall m, ~ In m K -> alook (combine K P) m = None).
  { intros m X. apply alook_none. rewrite map_fst_combine by (symmetry; exact PLen). exact X. }
  assert (LV : forall m, live g' m = live g m).
  { intros m. rewrite <- V4. unfold live. rewrite GI. destruct (alook (combine K P) m); [|reflexivity].
    destruct (get_info g3 m); reflexivity. }
  assert (KD : forall m, kids_of g' m = kids_of g3 m).
  { intros m. unfold kids_of. rewrite GI. destruct (alook (combine K P) m); [|reflexivity]. destruct (get_info g3 m); reflexivity. }
  assert (PR : forall m, pars_of g' m = pars_of g3 m).
  { intros m. unfold pars_of. rewrite GI. destruct (alook (combine K P) m); [|reflexivity]. destruct (get_info g3 m); reflexivity. }
  assert (RKin : forall m p, In m K -> newrank_rel key B F m p -> rank_of g' m = p).
  { intros m p X Hp. destruct (NR m X) as [p' [Hp' A]]. assert (p' = p) by (eapply NFun; eassumption). subst p'.
    unfold rank_of. rewrite GI, A. assert (L : live g3 m = true).
    { rewrite V4. apply LiveK. apply InK in X. apply in_or_app. destruct X; [left; apply InB|right; apply InF]; assumption. }
    unfold live in L. destruct (get_info g3 m); [reflexivity|discriminate]. }
  assert (RKout : forall m, ~ In m K -> rank_of g' m = rank_of g m).
  { intros m X. unfold rank_of at 1. rewrite GI, (NK m X). fold (rank_of g3 m). apply V5. }
  (* pool values are old ranks of keys, hence within [lb, ub] *)
  assert (POOL : forall m p, newrank_rel key B F m p -> lb <= p <= ub).
  { intros m p Hp. destruct (NPool m p Hp) as [k [Hk <-]].
    unfold key. rewrite V5. apply InK in Hk. destruct Hk as [Hk|Hk]; [destruct (CB k Hk) as [_ [R _]]|destruct (CF k Hk) as [_ [R _]]]; lia. }
  (* membership is decidable *)
  assert (DEC : forall x, {In x cb} + {In x cf} + {~ In x K}).
  { intros x. destruct (in_dec N.eq_dec x cb) as [X|X]; [left; left; exact X|]. destruct (in_dec N.eq_dec x cf) as [Y|Y]; [left; right; exact Y|].
    right. intros Z. apply InK in Z. tauto. }
  assert (Bs_in : forall x, In x cb -> In x (sort_by key B)) by (intros x X; apply In_Bs; apply InB; exact X).
  assert (Fs_in : forall x, In x cf -> In x (sort_by key F)) by (intros x X; apply In_Fs; apply InF; exact X).
  constructor.
  - unfold g', reorder_nodes. cbn [infos]. rewrite assign_ranks_ids. exact S1.
  - intros u. rewrite KD. apply S2.
  - intros v. rewrite PR. apply S3.
  - intros u v. rewrite KD, PR. apply S4.
  - intros u v. rewrite KD, !LV. intros X. destruct (S5 u v X) as [A B']. rewrite V4 in A, B'. tauto.
  - intros u v. rewrite KD. change (get_edata g' u v) with (get_edata g3 u v). apply S6.
  - (* injectivity of the new ranks *)
    intros u v. rewrite !LV. intros Lu Lv E.
    destruct (DEC u) as [Du|Du]; destruct (DEC v) as [Dv|Dv].
    + assert (Ku : In u K) by (apply InK; destruct Du; tauto). assert (Kv : In v K) by (apply InK; destruct Dv; tauto).
      destruct (NR u Ku) as [pu [Hpu _]]. destruct (NR v Kv) as [pv [Hpv _]].
      rewrite (RKin u pu Ku Hpu), (RKin v pv Kv Hpv) in E. subst pv.
      eapply NInj; eassumption.
    + assert (Ku : In u K) by (apply InK; destruct Du; tauto). destruct (NR u Ku) as [pu [Hpu _]].
      rewrite (RKin u pu Ku Hpu), (RKout v Dv) in E.
      destruct (NPool u pu Hpu) as [k [Hk Ek]].
      unfold key in Ek. rewrite V5 in Ek. assert (k = v).
      { apply (wf_inj g W); [apply LiveK; apply InK in Hk; apply in_or_app; destruct Hk; [left; apply InB|right; apply InF]; assumption|exact Lv|congruence]. }
      subst k. tauto.
    + assert (Kv : In v K) by (apply InK; destruct Dv; tauto). destruct (NR v Kv) as [pv [Hpv _]].
      rewrite (RKin v pv Kv Hpv), (RKout u Du) in E.
      destruct (NPool v pv Hpv) as [k [Hk Ek]].
      unfold key in Ek. rewrite V5 in Ek. assert (k = u).
      { apply (wf_inj g W); [apply LiveK; apply InK in Hk; apply in_or_app; destruct Hk; [left; apply InB|right; apply InF]; assumption|exact Lu|congruence]. }
      subst k. tauto.
    + rewrite (RKout u Du), (RKout v Dv) in E. apply (wf_inj g W); assumption.
  - (* range *)
    intros u. rewrite LV. intros Lu. change (last g') with (last g3). rewrite V2.
    destruct (DEC u) as [Du|Du].
    + assert (Ku : In u K) by (apply InK; destruct Du; tauto). destruct (NR u Ku) as [pu [Hpu _]]. rewrite (RKin u pu Ku Hpu).
      pose proof (POOL u pu Hpu). pose proof (wf_range g W d Ld). pose proof (wf_range g W s Ls). fold lb in H0. fold ub in H1. lia.
    + rewrite (RKout u Du). apply (wf_range g W). exact Lu.
  - change (last g') with (last g3). unfold g', reorder_nodes. cbn [infos].
    rewrite S7. f_equal. rewrite <- (map_length fst (assign_ranks _ _ _)), assign_ranks_ids, map_length. reflexivity.
  - (* topological order of every edge *)
    intros u v. rewrite KD. intros X.
    destruct (EDGE u v X) as [[-> ->]|OLD].
    + (* the new edge: source in the backward set, destination in the forward set *)
      assert (Ks : In s K) by (apply InK; left; exact Hscb). assert (Kd : In d K) by (apply InK; right; exact Hdcf).
      destruct (NR s Ks) as [ps [Hps _]]. destruct (NR d Kd) as [pd [Hpd _]].
      rewrite (RKin s ps Ks Hps), (RKin d pd Kd Hpd).
      eapply NMono; try eassumption. left. split; [apply Bs_in|apply Fs_in]; assumption.
    + pose proof (wf_topo g W u v OLD) as Told.
      destruct (wf_closed g W u v OLD) as [Lu Lv].
      destruct (DEC u) as [[Du|Du]|Du]; destruct (DEC v) as [[Dv|Dv]|Dv].
      * (* both backward *)
        assert (Ku : In u K) by (apply InK; tauto). assert (Kv : In v K) by (apply InK; tauto).
        destruct (NR u Ku) as [pu [Hpu _]]. destruct (NR v Kv) as [pv [Hpv _]]. rewrite (RKin u pu Ku Hpu), (RKin v pv Kv Hpv).
        eapply NMono; try eassumption. right. left.
        split; [apply Bs_in; exact Du|]. split; [apply Bs_in; exact Dv|]. unfold key. rewrite !V5. exact Told.
      * (* backward -> forward *)
        assert (Ku : In u K) by (apply InK; tauto). assert (Kv : In v K) by (apply InK; tauto).
        destruct (NR u Ku) as [pu [Hpu _]]. destruct (NR v Kv) as [pv [Hpv _]]. rewrite (RKin u pu Ku Hpu), (RKin v pv Kv Hpv).
        eapply NMono; try eassumption. left. split; [apply Bs_in|apply Fs_in]; assumption.
      * (* backward -> outside: the backward set only moves down *)
        assert (Ku : In u K) by (apply InK; tauto). destruct (NR u Ku) as [pu [Hpu _]]. rewrite (RKin u pu Ku Hpu), (RKout v Dv).
        pose proof (NBle u pu (proj2 (InB u) Du) Hpu) as Y. unfold key in Y. rewrite V5 in Y. lia.
      * (* forward -> backward: would close a cycle *)
        exfalso. apply NC. destruct (CF u Du) as [[E1|A] _]; destruct (CB v Dv) as [[E2|B'] _].
        -- subst. apply path1. exact OLD.
        -- subst. eapply pathS; eassumption.
        -- subst. eapply path_snoc; eassumption.
        -- eapply path_trans; [eapply path_snoc; eassumption|exact B'].
      * (* both forward *)
        assert (Ku : In u K) by (apply InK; tauto). assert (Kv : In v K) by (apply InK; tauto).
        destruct (NR u Ku) as [pu [Hpu _]]. destruct (NR v Kv) as [pv [Hpv _]]. rewrite (RKin u pu Ku Hpu), (RKin v pv Kv Hpv).
        eapply NMono; try eassumption. right. right.
        split; [apply Fs_in; exact Du|]. split; [apply Fs_in; exact Dv|]. unfold key. rewrite !V5. exact Told.
      * (* forward -> outside: the child is beyond the affected region *)
        assert (Ku : In u K) by (apply InK; tauto). destruct (NR u Ku) as [pu [Hpu _]]. rewrite (RKin u pu Ku Hpu), (RKout v Dv).
        destruct (F2 u Du v X) as [A B']. rewrite V5 in A, B'. fold ub in A, B'.
        assert (Vout : ~ In v cf) by (intros Z; apply Dv; apply InK; tauto).
        assert (ub < rank_of g v). { destruct (N.lt_ge_cases (rank_of g v) ub) as [Z|Z]; [destruct (B' Z) as [Q|[]]; tauto|lia]. }
        pose proof (POOL u pu Hpu). lia.
      * (* outside -> backward: the parent is before the affected region *)
        assert (Kv : In v K) by (apply InK; tauto). destruct (NR v Kv) as [pv [Hpv _]]. rewrite (RKout u Du), (RKin v pv Kv Hpv).
        assert (Y : In u (pars_of g3 v)) by (apply S4; exact X).
        assert (rank_of g u <= lb).
        { destruct (N.lt_ge_cases lb (rank_of g u)) as [Z|Z]; [|lia]. exfalso. rewrite <- V5 in Z.
          destruct (B2 v Dv u Y Z) as [Q|[Q|[]]]; apply Du; apply InK; tauto. }
        assert (rank_of g u <> lb).
        { intros Z. assert (u = d) by (apply (wf_inj g W); assumption). subst u. apply Du. apply InK. right. exact Hdcf. }
        pose proof (POOL v pv Hpv). lia.
      * (* outside -> forward: the forward set only moves up *)
        assert (Kv : In v K) by (apply InK; tauto). destruct (NR v Kv) as [pv [Hpv _]]. rewrite (RKout u Du), (RKin v pv Kv Hpv).
        pose proof (NFge v pv (proj2 (InF v) Dv) Hpv) as Y. unfold key in Y. rewrite V5 in Y. lia.
      * rewrite (RKout u Du), (RKout v Dv). exact Told.
Qed.

(* ---------- the three theorems about add_edge ---------- *)
Lemma add_edge_early g s d e :
  WF g -> (live g s = false \/ live g d = false \/ s = d \/ In d (kids_of g s)) ->
  snd (add_edge g s d e) = g /\ fst (add_edge g s d e) <> AFuel /\
  (fst (add_edge g s d e) = AErr CycleDetected <-> live g s = true /\ live g d = true /\ s = d).
Proof.
  intros W H. unfold add_edge.
  destruct (live g s) eqn:Ls; cbn [negb orb]; [|repeat split; try discriminate; intros [X _]; discriminate].
  destruct (live g d) eqn:Ld; cbn [negb orb]; [|repeat split; try discriminate; intros [_ [X _]]; discriminate].
  destruct (N.eqb_spec s d) as [->|Hsd]; [repeat split; try discriminate; reflexivity|].
  destruct H as [H|[H|[H|H]]]; try congruence.
  assert (M : memN d (kids_of g s) = true) by (apply memN_In; exact H). rewrite M.
  repeat split; try discriminate. intros [_ [_ X]]. congruence.
Qed.

Theorem add_edge_WF g s d e : WF g -> fst (add_edge g s d e) <> AFuel -> WF (snd (add_edge g s d e)).
Proof.
  intros W NF.
  destruct (live g s) eqn:Ls; [|rewrite (proj1 (add_edge_early g s d e W (or_introl Ls))); exact W].
  destruct (live g d) eqn:Ld; [|rewrite (proj1 (add_edge_early g s d e W (or_intror (or_introl Ld)))); exact W].
  destruct (N.eq_dec s d) as [Hsd|Hsd]; [rewrite (proj1 (add_edge_early g s d e W (or_intror (or_intror (or_introl Hsd))))); exact W|].
  destruct (in_dec N.eq_dec d (kids_of g s)) as [Hk|Hnk]; [rewrite (proj1 (add_edge_early g s d e W (or_intror (or_intror (or_intror Hk))))); exact W|].
  rewrite (add_edge_unfold g s d e W Ls Ld Hsd Hnk) in *. cbn zeta in *.
  destruct (N.ltb_spec (rank_of g d) (rank_of g s)) as [Hlt|Hge].
  - pose proof (dfs_forward_spec (dfs_fuel (pre_graph g s d e)) (pre_graph g s d e) (rank_of g s) d [d] []) as FS.
    assert (FI0 : FInv (pre_graph g s d e) (rank_of g s) d [d] []).
    { split; [intros x []|]. intros x [[<-|[]]|[]]. split; [left; reflexivity|].
      destruct (pre_graph_view g s d e Ls Ld Hsd) as [_ [_ [_ [_ [V5 _]]]]]. rewrite V5. exact Hlt. }
    specialize (FS FI0).
    destruct (dfs_forward (dfs_fuel (pre_graph g s d e)) (pre_graph g s d e) (rank_of g s) [d] [] []) as [cf vis| |].
    + destruct FS as [-> [FI [_ Hd]]].
      pose proof (dfs_backward_spec (dfs_fuel (pre_graph g s d e)) (pre_graph g s d e) (rank_of g d) s cf) as BS.
      destruct (pre_graph_structure g s d e W Ls Ld Hsd Hnk) as [_ [_ [_ [S4 _]]]].
      assert (BI0 : BInv (pre_graph g s d e) (rank_of g d) s cf [s] []).
      { split; [intros x []|]. intros x [[<-|[]]|[]]. split; [left; reflexivity|].
        destruct (pre_graph_view g s d e Ls Ld Hsd) as [_ [_ [_ [_ [V5 _]]]]]. rewrite V5. exact Hlt. }
      specialize (BS S4 [s] [] BI0). cbn [app] in BS.
      destruct (dfs_backward (dfs_fuel (pre_graph g s d e)) (pre_graph g s d e) (rank_of g d) [s] cf []) as [cb vis| |]; cbn [fst snd] in *; try congruence.
      destruct BS as [_ [BI [_ Hs]]].
      apply WF_reorder; try assumption; [apply Hd; left; reflexivity|apply Hs; left; reflexivity].
    + cbn [snd]. rewrite rollback_exact by assumption. exact W.
    + cbn [fst] in NF. congruence.
  - cbn [snd]. apply WF_pre_graph_ordered; try assumption.
    assert (rank_of g s <> rank_of g d) by (intros X; apply Hsd; apply (wf_inj g W); assumption). lia.
Qed.

Theorem add_edge_cycle_iff g s d e :
  WF g -> live g s = true -> live g d = true -> fst (add_edge g s d e) <> AFuel ->
  (fst (add_edge g s d e) = AErr CycleDetected <-> s = d \/ path g d s).
Proof.
  intros W Ls Ld NF.
  destruct (N.eq_dec s d) as [Hsd|Hsd].
  { destruct (add_edge_early g s d e W (or_intror (or_intror (or_introl Hsd)))) as [_ [_ X]]. rewrite X. tauto. }
  destruct (in_dec N.eq_dec d (kids_of g s)) as [Hk|Hnk].
  { destruct (add_edge_early g s d e W (or_intror (or_intror (or_intror Hk)))) as [_ [_ X]]. rewrite X.
    split; [tauto|]. intros [X1|X1]; [congruence|]. exfalso.
    apply (WF_acyclic g s W). eapply pathS; eassumption. }
  rewrite (add_edge_unfold g s d e W Ls Ld Hsd Hnk) in *. cbn zeta in *.
  destruct (N.ltb_spec (rank_of g d) (rank_of g s)) as [Hlt|Hge].
  - pose proof (dfs_forward_spec (dfs_fuel (pre_graph g s d e)) (pre_graph g s d e) (rank_of g s) d [d] []) as FS.
    destruct (pre_graph_view g s d e Ls Ld Hsd) as [_ [_ [_ [V4 [V5 [V6 _]]]]]].
    assert (FI0 : FInv (pre_graph g s d e) (rank_of g s) d [d] []).
    { split; [intros x []|]. intros x [[<-|[]]|[]]. split; [left; reflexivity|]. rewrite V5. exact Hlt. }
    specialize (FS FI0).
    destruct (dfs_forward (dfs_fuel (pre_graph g s d e)) (pre_graph g s d e) (rank_of g s) [d] [] []) as [cf vis| |].
    + destruct FS as [-> [FI [_ Hd]]].
      assert (NP : ~ path g d s) by (intros X; eapply (forward_closed_no_path g s d e cf); try eassumption; apply Hd; left; reflexivity).
      destruct (dfs_backward _ _ _ _ _ _); cbn [fst]; (split; [discriminate|]); intros [X|X]; tauto.
    + cbn [fst]. split; [|reflexivity]. intros _. right.
      destruct FS as [x [c [[A Hr] [Hc Hrc]]]].
      (* the child of rank ub is the source itself *)
      assert (Lc : live g c = true).
      { destruct (pre_graph_structure g s d e W Ls Ld Hsd Hnk) as [_ [_ [_ [_ [S5 _]]]]]. destruct (S5 x c Hc) as [_ X]. rewrite V4 in X. exact X. }
      assert (c = s) by (apply (wf_inj g W); [exact Lc|exact Ls|rewrite <- V5; exact Hrc]). subst c.
      (* the edge x -> s is an old edge *)
      assert (Old : In s (kids_of g x)).
      { rewrite V6 in Hc. destruct (N.eqb_spec x s) as [->|]; [|exact Hc]. apply in_app_or in Hc. destruct Hc as [Hc|[E|[]]]; [exact Hc|congruence]. }
      destruct A as [->|A]; [apply path1; exact Old|].
      apply pre_path in A; try assumption. destruct A as [A|[A|A]]; [eapply path_snoc; eassumption|congruence|exact A].
    + cbn [fst] in NF. congruence.
  - cbn [fst]. split; [discriminate|]. intros [X|X]; [congruence|].
    pose proof (path_rank g d s W X). lia.
Qed.

Theorem add_edge_reject_noop g s d e err :
  WF g -> fst (add_edge g s d e) = AErr err -> snd (add_edge g s d e) = g.
Proof.
  intros W H.
  destruct (live g s) eqn:Ls; [|exact (proj1 (add_edge_early g s d e W (or_introl Ls)))].
  destruct (live g d) eqn:Ld; [|exact (proj1 (add_edge_early g s d e W (or_intror (or_introl Ld))))].
  destruct (N.eq_dec s d) as [Hsd|Hsd]; [exact (proj1 (add_edge_early g s d e W (or_intror (or_intror (or_introl Hsd)))))|].
  destruct (in_dec N.eq_dec d (kids_of g s)) as [Hk|Hnk]; [exact (proj1 (add_edge_early g s d e W (or_intror (or_intror (or_intror Hk)))))|].
  rewrite (add_edge_unfold g s d e W Ls Ld Hsd Hnk) in *. cbn zeta in *.
  destruct (N.ltb (rank_of g d) (rank_of g s)); [|discriminate].
  destruct (dfs_forward _ _ _ _ _ _) as [cf vis| |]; cbn [fst snd] in *.
  - destruct (dfs_backward _ _ _ _ _ _); discriminate.
  - apply rollback_exact; assumption.
  - discriminate.
Qed.

End AddEdge.

(* Basic facts about the DAG model: early rejections leave the graph untouched. *)
From Coq Require Import List NArith Bool Lia.
From PieV Require Import Model.Dag.
Import ListNotations.
Open Scope N_scope.

Section Basics.
Context {E : Type}.
Implicit Types g : dag E.

Lemma add_edge_missing_noop g s d e :
  live g s = false \/ live g d = false -> add_edge g s d e = (AErr NodeMissing, g).
Proof.
  intros H. unfold add_edge.
  destruct H as [H|H]; rewrite H; cbn [negb orb]; [reflexivity|].
  rewrite orb_true_r. reflexivity.
Qed.

Lemma add_edge_selfloop_noop g s e :
  live g s = true -> add_edge g s s e = (AErr CycleDetected, g).
Proof.
  intros H. unfold add_edge. rewrite H. cbn [negb orb]. rewrite N.eqb_refl. reflexivity.
Qed.

End Basics.

(* The two bounded depth-first searches of add_edge: what they return (soundness, closure) for any fuel that suffices. *)
From Coq Require Import List NArith Bool Lia Permutation.
From PieV Require Import Model.Dag Proofs.DagLib Proofs.DagWF Proofs.DagPath.
Import ListNotations.
Open Scope N_scope.

Section Dfs.
Context {ED : Type}.
Implicit Types g : dag ED.

Lemma scan_fwd_some g ub vis cs : forall st st',
  scan_fwd g ub vis cs st = Some st' ->
  (forall c, In c cs -> rank_of g c <> ub) /\
  (forall y, In y st' <-> In y st \/ (In y cs /\ ~ In y vis /\ rank_of g y < ub)).
Proof.
  induction cs as [|c tl IH]; intros st st' H; cbn in H.
  - inversion H; subst. split; [intros c []|]. intros y. cbn. tauto.
  - destruct (N.eqb_spec (rank_of g c) ub) as [Heq|Hne]; [discriminate|].
    destruct (negb (memN c vis) && N.ltb (rank_of g c) ub) eqn:B.
    + apply andb_true_iff in B. destruct B as [B1 B2]. apply negb_true_iff, memN_false in B1. apply N.ltb_lt in B2.
      destruct (IH _ _ H) as [A1 A2]. split.
      * intros c0 [<-|X]; [exact Hne|apply A1; exact X].
      * intros y. rewrite A2. cbn. split.
        -- intros [[<-|X]|X]; [right; tauto|tauto|right; tauto].
        -- intros [X|[[<-|X] Y]]; [left; right; exact X|left; left; reflexivity|right; tauto].
    + destruct (IH _ _ H) as [A1 A2]. split.
      * intros c0 [<-|X]; [exact Hne|apply A1; exact X].
      * intros y. rewrite A2. cbn. split; [tauto|].
        intros [X|[[<-|X] [Y Z]]]; [tauto| |right; tauto].
        exfalso. apply andb_false_iff in B. destruct B as [B|B].
        -- apply negb_false_iff, memN_In in B. tauto.
        -- apply N.ltb_ge in B. lia.
Qed.

Lemma scan_fwd_none g ub vis cs : forall st,
  scan_fwd g ub vis cs st = None -> exists c, In c cs /\ rank_of g c = ub.
Proof.
  induction cs as [|c tl IH]; intros st H; cbn in H; [discriminate|].
  destruct (N.eqb_spec (rank_of g c) ub) as [Heq|Hne]; [exists c; split; [left; reflexivity|exact Heq]|].
  destruct (negb (memN c vis) && N.ltb (rank_of g c) ub); destruct (IH _ H) as [c0 [X Y]]; exists c0; (split; [right; exact X|exact Y]).
Qed.

Definition FInv g ub root (stack res : list node) : Prop :=
  (forall x, In x res -> forall c, In c (kids_of g x) -> rank_of g c <> ub /\ (rank_of g c < ub -> In c res \/ In c stack)) /\
  (forall x, In x stack \/ In x res -> (x = root \/ path g root x) /\ rank_of g x < ub).

Lemma dfs_forward_spec fuel g ub root : forall stack res,
  FInv g ub root stack res ->
  match dfs_forward fuel g ub stack res res with
  | DfsOk cf vis => vis = cf /\ FInv g ub root [] cf /\ (forall x, In x res -> In x cf) /\ (forall x, In x stack -> In x cf)
  | DfsCycle => exists x c, ((x = root \/ path g root x) /\ rank_of g x < ub) /\ In c (kids_of g x) /\ rank_of g c = ub
  | DfsFuel => True
  end.
Proof.
  induction fuel as [|f IH]; intros stack res [I2 I3]; cbn [dfs_forward]; [exact I|].
  destruct stack as [|x st].
  - split; [reflexivity|]. split; [split; assumption|]. split; [tauto|intros x []].
  - destruct (scan_fwd g ub (x :: res) (kids_of g x) st) as [st'|] eqn:Sc.
    + destruct (scan_fwd_some _ _ _ _ _ _ Sc) as [S1 S2].
      assert (FI : FInv g ub root st' (x :: res)).
      { split.
        - intros y [<-|Hy] c Hc.
          + split; [apply S1; exact Hc|]. intros Hr.
            destruct (in_dec N.eq_dec c (x :: res)) as [Hin|Hnin]; [left; exact Hin|].
            right. apply S2. right. tauto.
          + destruct (I2 y Hy c Hc) as [A B]. split; [exact A|]. intros Hr. destruct (B Hr) as [X|[X|X]].
            * left. right. exact X.
            * left. left. exact X.
            * right. apply S2. left. exact X.
        - intros y [Hy|[<-|Hy]].
          + apply S2 in Hy. destruct Hy as [Hy|[Hk [_ Hr]]].
            * apply I3. left. right. exact Hy.
            * split; [|exact Hr]. right. destruct (I3 x (or_introl (or_introl eq_refl))) as [[->|Px] _].
              -- apply path1. exact Hk.
              -- eapply path_snoc; eassumption.
          + apply I3. left. left. reflexivity.
          + apply I3. right. exact Hy. }
      specialize (IH st' (x :: res) FI).
      destruct (dfs_forward f g ub st' (x :: res) (x :: res)) as [cf vis| |]; [|exact IH|exact I].
      destruct IH as [A [B [C D]]]. split; [exact A|]. split; [exact B|]. split.
      * intros y Hy. apply C. right. exact Hy.
      * intros y [<-|Hy]; [apply C; left; reflexivity|]. apply D. apply S2. left. exact Hy.
    + destruct (scan_fwd_none _ _ _ _ _ Sc) as [c [Hc Hr]].
      exists x, c. split; [apply I3; left; left; reflexivity|]. split; assumption.
Qed.

Lemma scan_bwd_spec g lb vis ps : forall st y,
  In y (scan_bwd g lb vis ps st) <-> In y st \/ (In y ps /\ ~ In y vis /\ lb < rank_of g y).
Proof.
  induction ps as [|p tl IH]; intros st y; cbn; [tauto|].
  destruct (negb (memN p vis) && N.ltb lb (rank_of g p)) eqn:B.
  - apply andb_true_iff in B. destruct B as [B1 B2]. apply negb_true_iff, memN_false in B1. apply N.ltb_lt in B2.
    rewrite IH. cbn. split.
    + intros [[<-|X]|X]; [right; tauto|tauto|right; tauto].
    + intros [X|[[<-|X] Y]]; [left; right; exact X|left; left; reflexivity|right; tauto].
  - rewrite IH. split; [tauto|]. intros [X|[[<-|X] [Y Z]]]; [tauto| |right; tauto].
    exfalso. apply andb_false_iff in B. destruct B as [B|B].
    + apply negb_false_iff, memN_In in B. tauto.
    + apply N.ltb_ge in B. lia.
Qed.

Definition BInv g lb root (cf stack res : list node) : Prop :=
  (forall x, In x res -> forall p, In p (pars_of g x) -> lb < rank_of g p -> In p res \/ In p cf \/ In p stack) /\
  (forall x, In x stack \/ In x res -> (x = root \/ path g x root) /\ lb < rank_of g x).

Lemma dfs_backward_spec fuel g lb root cf :
  (forall u v, In v (kids_of g u) <-> In u (pars_of g v)) ->
  forall stack res,
  BInv g lb root cf stack res ->
  match dfs_backward fuel g lb stack (res ++ cf) res with
  | DfsOk cb vis => vis = cb ++ cf /\ BInv g lb root cf [] cb /\ (forall x, In x res -> In x cb) /\ (forall x, In x stack -> In x cb)
  | DfsCycle => False
  | DfsFuel => True
  end.
Proof.
  intros Sym. induction fuel as [|f IH]; intros stack res [I2 I3]; cbn [dfs_backward]; [exact I|].
  destruct stack as [|x st].
  - split; [reflexivity|]. split; [split; assumption|]. split; [tauto|intros x []].
  - set (st' := scan_bwd g lb (x :: res ++ cf) (pars_of g x) st).
    assert (S2 := scan_bwd_spec g lb (x :: res ++ cf) (pars_of g x) st). fold st' in S2.
    assert (BI : BInv g lb root cf st' (x :: res)).
    { split.
      - intros y [<-|Hy] p Hp Hr.
        + destruct (in_dec N.eq_dec p (x :: res ++ cf)) as [Hin|Hnin].
          * destruct Hin as [<-|Hin]; [left; left; reflexivity|]. apply in_app_or in Hin. destruct Hin; [left; right; assumption|right; left; assumption].
          * right. right. apply S2. right. tauto.
        + destruct (I2 y Hy p Hp Hr) as [X|[X|[X|X]]].
          * left. right. exact X.
          * right. left. exact X.
          * left. left. exact X.
          * right. right. apply S2. left. exact X.
      - intros y [Hy|[<-|Hy]].
        + apply S2 in Hy. destruct Hy as [Hy|[Hk [_ Hr]]].
          * apply I3. left. right. exact Hy.
          * split; [|exact Hr]. right. apply Sym in Hk.
            destruct (I3 x (or_introl (or_introl eq_refl))) as [[->|Px] _].
            -- apply path1. exact Hk.
            -- eapply pathS; eassumption.
        + apply I3. left. left. reflexivity.
        + apply I3. right. exact Hy. }
    specialize (IH st' (x :: res) BI). cbn [app] in IH.
    destruct (dfs_backward f g lb st' (x :: res ++ cf) (x :: res)) as [cb vis| |]; [|exact IH|exact I].
    destruct IH as [A [B [C D]]]. split; [exact A|]. split; [exact B|]. split.
    + intros y Hy. apply C. right. exact Hy.
    + intros y [<-|Hy]; [apply C; left; reflexivity|]. apply D. apply S2. left. exact Hy.
Qed.

End Dfs.

(* The fuel the model gives to the graph searches always suffices: the bounded depth-first searches of add_edge and the walk of
   contains_transitive_edge never return their out-of-fuel value on a well-formed graph.  (The Rust loops have no bound; this
   removes the model-only outcome AFuel / None from every statement.)
   The searches mark a node when it is popped and may push a node several times; the bound "pops <= 1 + edges" rests on the
   LIFO discipline: when a second copy of a node is popped, everything its first copy pushed has been popped already. *)
From Coq Require Import List NArith Bool Lia Permutation Arith.
From PieV Require Import Model.Dag Proofs.DagLib Proofs.DagWF Proofs.DagPath Proofs.DagDfs.
Import ListNotations.
Open Scope N_scope.

Section Gen.
(* a generic stack search: [next] = successors, [ok] = which successors may be pushed *)
Variable next : node -> list node.
Variable ok : node -> bool.
Variable nodes : list node.          (* all nodes that can ever be on the stack *)
Hypothesis nodes_nodup : NoDup nodes.

Definition cand (vis : list node) (x : node) : list node := filter (fun c => negb (memN c (x :: vis)) && ok c) (next x).
Definition okn (k : node) : list node := filter ok (next k).
Fixpoint pot (vis ns : list node) : nat :=
  match ns with [] => 0%nat | k :: tl => ((if memN k vis then 0 else length (okn k)) + pot vis tl)%nat end.

Lemma memN_cons (x t : node) (l : list node) : memN x (t :: l) = N.eqb x t || memN x l. Proof. reflexivity. Qed.
Lemma cand_le (vis : list node) (x : node) : (length (cand vis x) <= length (okn x))%nat.
Proof.
  unfold cand, okn. induction (next x) as [|c tl IH]; cbn [filter length]; [lia|].
  destruct (ok c); [|rewrite andb_false_r; exact IH]. rewrite andb_true_r.
  destruct (negb (memN c (x :: vis))); cbn [length]; lia.
Qed.

Lemma pot_visited (vis : list node) (x : node) (ns : list node) : memN x vis = true -> pot (x :: vis) ns = pot vis ns.
Proof.
  intros Hx. induction ns as [|k tl IH]; cbn [pot]; [reflexivity|]. rewrite IH. f_equal.
  rewrite memN_cons. destruct (N.eqb_spec k x) as [E|Hne]; cbn [orb]; [subst k; rewrite Hx; reflexivity|reflexivity].
Qed.
Lemma pot_notin (vis : list node) (x : node) (ns : list node) : ~ In x ns -> pot (x :: vis) ns = pot vis ns.
Proof.
  intros Hn. induction ns as [|k tl IH]; cbn [pot]; [reflexivity|]. rewrite IH by (intros X; apply Hn; right; exact X). f_equal.
  rewrite memN_cons. destruct (N.eqb_spec k x) as [E|Hne]; cbn [orb]; [exfalso; apply Hn; left; exact E|reflexivity].
Qed.
Lemma pot_visit (vis : list node) (x : node) (ns : list node) : NoDup ns -> In x ns -> memN x vis = false -> (pot (x :: vis) ns + length (okn x) = pot vis ns)%nat.
Proof.
  intros ND Hin Hx. induction ns as [|k tl IH]; [destruct Hin|]. inversion ND as [|k' tl' Hk ND']; subst. cbn [pot].
  destruct Hin as [E|Hin].
  - subst k. rewrite (pot_notin vis x tl Hk). rewrite memN_cons, N.eqb_refl. cbn [orb]. rewrite Hx. lia.
  - rewrite <- (IH ND' Hin). rewrite memN_cons.
    destruct (N.eqb_spec k x) as [E|Hne]; [subst k; contradiction|]. cbn [orb]. lia.
Qed.

(* LIFO invariant: below a visited node on the stack, its pushable successors are visited or lie above it *)
Definition Lifo (stack vis : list node) : Prop :=
  forall pre y post, stack = pre ++ y :: post -> memN y vis = true ->
    forall c, In c (next y) -> ok c = true -> memN c vis = true \/ In c pre.

Lemma lifo_pop_visited (x : node) (st vis : list node) : Lifo (x :: st) vis -> memN x vis = true -> cand vis x = [].
Proof.
  intros L Hx. unfold cand. induction (next x) as [|c tl IH] eqn:E in L |- *; [reflexivity|].
  assert (Hc : forall c0, In c0 (c :: tl) -> ok c0 = true -> memN c0 vis = true).
  { intros c0 I0 O0. destruct (L [] x st eq_refl Hx c0 ltac:(rewrite E; exact I0) O0) as [V|[]]. exact V. }
  clear L E. induction (c :: tl) as [|c1 tl1 IH1]; [reflexivity|]. cbn [filter].
  destruct (ok c1) eqn:O1.
  - rewrite (memN_cons c1 x vis) at 1. rewrite (Hc c1 (or_introl eq_refl) O1). rewrite orb_true_r. cbn. apply IH1. intros c0 I0. apply Hc. right. exact I0.
  - rewrite andb_false_r. apply IH1. intros c0 I0. apply Hc. right. exact I0.
Qed.

Lemma lifo_step (x : node) (st vis : list node) : Lifo (x :: st) vis -> Lifo (rev (cand vis x) ++ st) (x :: vis).
Proof.
  intros L pre y post E Hy c Hc Oc.
  (* is y in the freshly pushed part? *)
  assert (Hpush : forall z, In z (rev (cand vis x)) -> memN z (x :: vis) = false).
  { intros z Hz. apply in_rev in Hz. unfold cand in Hz. apply filter_In in Hz. destruct Hz as [_ Hz]. apply andb_true_iff in Hz. apply negb_true_iff. exact (proj1 Hz). }
  destruct (memN c (x :: vis)) eqn:Vc; [left; reflexivity|right].
  (* locate y: it must lie in st *)
  assert (Hsplit : exists pre0, pre = rev (cand vis x) ++ pre0 /\ st = pre0 ++ y :: post).
  { revert pre E. generalize (rev (cand vis x)) Hpush. intros l. induction l as [|z l IHl]; intros Hp pre E.
    - exists pre. split; [reflexivity|exact E].
    - destruct pre as [|p pre'].
      + cbn in E. inversion E; subst z. rewrite (Hp y (or_introl eq_refl)) in Hy. discriminate.
      + cbn in E. inversion E; subst p. destruct (IHl (fun z0 H0 => Hp z0 (or_intror H0)) pre' H1) as [pre0 [A B]]. exists pre0. split; [cbn; f_equal; exact A|exact B]. }
  destruct Hsplit as [pre0 [-> Est]]. apply in_or_app.
  rewrite memN_cons in Hy. destruct (N.eqb_spec y x) as [->|Hne].
  - (* a lower copy of x: its candidates were pushed just now *)
    left. apply -> in_rev. unfold cand. apply filter_In. split; [exact Hc|]. rewrite Vc, Oc. reflexivity.
  - cbn in Hy. destruct (L (x :: pre0) y post ltac:(cbn; f_equal; exact Est) Hy c Hc Oc) as [V|[<-|I0]].
    + rewrite memN_cons, V, orb_true_r in Vc. discriminate.
    + rewrite memN_cons, N.eqb_refl in Vc. discriminate.
    + right. exact I0.
Qed.

Lemma phi_step (x : node) (st vis : list node) : In x nodes -> Lifo (x :: st) vis ->
  (length (rev (cand vis x) ++ st) + pot (x :: vis) nodes < length (x :: st) + pot vis nodes)%nat.
Proof.
  intros Hin L. rewrite app_length, rev_length. cbn [length].
  destruct (memN x vis) eqn:Hx.
  - rewrite (lifo_pop_visited x st vis L Hx), (pot_visited vis x nodes Hx). cbn. lia.
  - pose proof (pot_visit vis x nodes nodes_nodup Hin Hx). pose proof (cand_le vis x). lia.
Qed.
End Gen.

(* ---- the concrete searches ---- *)
Section Fuel.
Context {ED : Type}.
Implicit Types g : dag ED.

Definition nodesG g : list node := map fst (infos g).

(* what the bound needs from the graph: holds for well-formed graphs and for the intermediate graph of add_edge *)
Record FW g : Prop := mkFW {
  fw_ids : NoDup (nodesG g);
  fw_kn : forall u, NoDup (kids_of g u);
  fw_pn : forall v, NoDup (pars_of g v);
  fw_sym : forall u v, In v (kids_of g u) <-> In u (pars_of g v);
  fw_closed : forall u v, In v (kids_of g u) -> live g u = true /\ live g v = true;
  fw_edata : forall u v, In v (kids_of g u) -> get_edata g u v <> None
}.
Lemma WF_FW g : WF g -> FW g.
Proof.
  intros W. constructor; [apply (wf_ids _ W)|apply (wf_kn _ W)|apply (wf_pn _ W)|apply (wf_sym _ W)|apply (wf_closed _ W)|].
  intros u v X. apply (wf_edata _ W). exact X.
Qed.

Lemma edata_key g u v : get_edata g u v <> None -> In (u, v) (map fst (edata g)).
Proof.
  unfold get_edata. induction (edata g) as [|[k e] tl IH]; cbn; [intros X; contradiction|].
  destruct (pair_eqb k (u, v)) eqn:Z; [intros _; left; apply pair_eqb_eq; exact Z|intros X; right; apply IH; exact X].
Qed.

(* sums of adjacency lengths are bounded by the number of edge-data entries *)
Lemma filter_len {A} (f : A -> bool) l : (length (filter f l) <= length l)%nat.
Proof. induction l as [|a tl IH]; cbn; [lia|]. destruct (f a); cbn; lia. Qed.
Lemma pot_le next ok vis ns : (pot next ok vis ns <= length (flat_map (fun k => map (pair k) (next k)) ns))%nat.
Proof.
  induction ns as [|k tl IH]; cbn [pot flat_map]; [lia|]. rewrite app_length, map_length.
  assert (length (okn next ok k) <= length (next k))%nat by (unfold okn; apply filter_len).
  destruct (memN k vis); lia.
Qed.
Lemma flat_nodup {B} (f : node -> list B) (inj : forall k k' b, In b (f k) -> In b (f k') -> k = k') ns :
  NoDup ns -> (forall k, NoDup (f k)) -> NoDup (flat_map f ns).
Proof.
  intros ND Hf. induction ns as [|k tl IH]; cbn; [constructor|]. inversion ND as [|k' tl' Hk ND']; subst.
  apply NoDup_app_intro_t; [apply Hf|apply IH; exact ND'|].
  intros b B1 B2. apply in_flat_map in B2. destruct B2 as [k' [I1 I2]]. assert (k = k') by (eapply inj; eassumption). subst k'. contradiction.
Qed.
Lemma kids_sum g : FW g -> (length (flat_map (fun k => map (pair k) (kids_of g k)) (nodesG g)) <= length (edata g))%nat.
Proof.
  intros F. rewrite <- (map_length fst (edata g)). apply NoDup_incl_length.
  - apply flat_nodup; [|apply (fw_ids _ F)|].
    + intros k k' b B1 B2. apply in_map_iff in B1. destruct B1 as [c [E1 _]]. apply in_map_iff in B2. destruct B2 as [c' [E2 _]]. subst b. inversion E2. reflexivity.
    + intros k. apply FinFun.Injective_map_NoDup; [intros a b E; inversion E; reflexivity|apply (fw_kn _ F)].
  - intros [u v] X. apply in_flat_map in X. destruct X as [k [_ X]]. apply in_map_iff in X. destruct X as [c [E X]]. inversion E; subst.
    apply edata_key. apply (fw_edata _ F). exact X.
Qed.
Lemma pars_sum g : FW g -> (length (flat_map (fun k => map (pair k) (pars_of g k)) (nodesG g)) <= length (edata g))%nat.
Proof.
  intros F. rewrite <- (map_length fst (edata g)).
  rewrite <- (map_length (fun p : node * node => (snd p, fst p)) (flat_map _ _)).
  apply NoDup_incl_length.
  - apply FinFun.Injective_map_NoDup; [intros [a b] [a' b'] E; cbn in E; inversion E; reflexivity|].
    apply flat_nodup; [|apply (fw_ids _ F)|].
    + intros k k' b B1 B2. apply in_map_iff in B1. destruct B1 as [c [E1 _]]. apply in_map_iff in B2. destruct B2 as [c' [E2 _]]. subst b. inversion E2. reflexivity.
    + intros k. apply FinFun.Injective_map_NoDup; [intros a b E; inversion E; reflexivity|apply (fw_pn _ F)].
  - intros [u v] X. apply in_map_iff in X. destruct X as [[a b] [E X]]. cbn in E. inversion E; subst.
    apply in_flat_map in X. destruct X as [k [_ X]]. apply in_map_iff in X. destruct X as [c [E' X]]. inversion E'; subst.
    apply edata_key. apply (fw_edata _ F). apply (fw_sym _ F). exact X.
Qed.

(* shapes of the scans *)
Lemma scan_fwd_shape g ub vis cs : forall st st', scan_fwd g ub vis cs st = Some st' ->
  st' = rev (filter (fun c => negb (memN c vis) && N.ltb (rank_of g c) ub) cs) ++ st.
Proof.
  induction cs as [|c tl IH]; intros st st' H; cbn in H; [inversion H; reflexivity|].
  destruct (N.eqb (rank_of g c) ub); [discriminate|]. cbn [filter].
  destruct (negb (memN c vis) && N.ltb (rank_of g c) ub).
  - rewrite (IH _ _ H). cbn [rev]. rewrite <- app_assoc. reflexivity.
  - apply IH. exact H.
Qed.
Lemma scan_bwd_shape g lb vis ps : forall st,
  scan_bwd g lb vis ps st = rev (filter (fun c => negb (memN c vis) && N.ltb lb (rank_of g c)) ps) ++ st.
Proof.
  induction ps as [|c tl IH]; intros st; cbn [scan_bwd filter]; [reflexivity|].
  destruct (negb (memN c vis) && N.ltb lb (rank_of g c)).
  - rewrite IH. cbn [rev]. rewrite <- app_assoc. reflexivity.
  - apply IH.
Qed.

Lemma in_nodes g x : live g x = true -> In x (nodesG g). Proof. apply live_true_iff. Qed.

Theorem dfs_forward_fuel g ub : FW g -> forall fuel stack vis res,
  (forall y, In y stack -> live g y = true) ->
  Lifo (kids_of g) (fun c => N.ltb (rank_of g c) ub) stack vis ->
  (length stack + pot (kids_of g) (fun c => N.ltb (rank_of g c) ub) vis (nodesG g) < fuel)%nat ->
  dfs_forward fuel g ub stack vis res <> DfsFuel.
Proof.
  intros F. induction fuel as [|f IH]; intros stack vis res HL L Phi; [lia|]. cbn [dfs_forward].
  destruct stack as [|x st]; [discriminate|].
  destruct (scan_fwd g ub (x :: vis) (kids_of g x) st) as [st'|] eqn:Sc; [|discriminate].
  apply scan_fwd_shape in Sc. change (st' = rev (cand (kids_of g) (fun c => N.ltb (rank_of g c) ub) vis x) ++ st) in Sc. subst st'.
  apply IH.
  - intros y Hy. apply in_app_or in Hy. destruct Hy as [Hy|Hy]; [|apply HL; right; exact Hy].
    apply in_rev in Hy. unfold cand in Hy. apply filter_In in Hy. apply (fw_closed _ F x y (proj1 Hy)).
  - apply lifo_step. exact L.
  - pose proof (phi_step (kids_of g) (fun c => N.ltb (rank_of g c) ub) (nodesG g) (fw_ids _ F) x st vis (in_nodes g x (HL x (or_introl eq_refl))) L) as PS.
    exact (Nat.lt_le_trans _ _ _ PS (proj1 (Nat.lt_succ_r _ _) Phi)).
Qed.

Theorem dfs_backward_fuel g lb : FW g -> forall fuel stack vis res,
  (forall y, In y stack -> live g y = true) ->
  Lifo (pars_of g) (fun c => N.ltb lb (rank_of g c)) stack vis ->
  (length stack + pot (pars_of g) (fun c => N.ltb lb (rank_of g c)) vis (nodesG g) < fuel)%nat ->
  dfs_backward fuel g lb stack vis res <> DfsFuel.
Proof.
  intros F. induction fuel as [|f IH]; intros stack vis res HL L Phi; [lia|]. cbn [dfs_backward].
  destruct stack as [|x st]; [discriminate|].
  rewrite scan_bwd_shape. change (rev (filter _ (pars_of g x))) with (rev (cand (pars_of g) (fun c => N.ltb lb (rank_of g c)) vis x)).
  apply IH.
  - intros y Hy. apply in_app_or in Hy. destruct Hy as [Hy|Hy]; [|apply HL; right; exact Hy].
    apply in_rev in Hy. unfold cand in Hy. apply filter_In in Hy. apply (fw_closed _ F y x). apply (fw_sym _ F). exact (proj1 Hy).
  - apply lifo_step. exact L.
  - pose proof (phi_step (pars_of g) (fun c => N.ltb lb (rank_of g c)) (nodesG g) (fw_ids _ F) x st vis (in_nodes g x (HL x (or_introl eq_refl))) L) as PS.
    exact (Nat.lt_le_trans _ _ _ PS (proj1 (Nat.lt_succ_r _ _) Phi)).
Qed.
End Fuel.

(* Basic lemmas about the representation of the DAG model (association lists, adjacency lists). *)
From Coq Require Import List NArith Bool Lia Permutation Sorted.
From PieV Require Import Model.Dag.
Import ListNotations.
Open Scope N_scope.

(* ---- membership / removal on lists of N ---- *)
Lemma memN_In x l : memN x l = true <-> In x l.
Proof.
  unfold memN. rewrite existsb_exists. split.
  - intros [y [Hin Hy]]. apply N.eqb_eq in Hy. subst. exact Hin.
  - intros H. exists x. split; [exact H|apply N.eqb_refl].
Qed.
Lemma memN_false x l : memN x l = false <-> ~ In x l.
Proof. rewrite <- memN_In. destruct (memN x l); split; congruence. Qed.

Lemma In_removeN x t l : In x (removeN t l) <-> In x l /\ x <> t.
Proof.
  unfold removeN. rewrite filter_In. split; intros [A B]; split; try exact A.
  - intros E. subst. rewrite N.eqb_refl in B. discriminate.
  - destruct (N.eqb t x) eqn:E; [apply N.eqb_eq in E; congruence|reflexivity].
Qed.
Lemma removeN_notin x l : ~ In x l -> removeN x l = l.
Proof.
  intros H. unfold removeN. induction l as [|y tl IH]; cbn; [reflexivity|].
  destruct (N.eqb x y) eqn:E.
  - apply N.eqb_eq in E. subst. exfalso. apply H. left. reflexivity.
  - cbn. f_equal. apply IH. intros X. apply H. right. exact X.
Qed.
Lemma NoDup_removeN x l : NoDup l -> NoDup (removeN x l).
Proof. intros H. unfold removeN. apply NoDup_filter. exact H. Qed.
Lemma NoDup_app_single (x : N) l : NoDup l -> ~ In x l -> NoDup (l ++ [x]).
Proof.
  intros Hn Hx. induction l as [|y tl IH]; cbn; [constructor; [intros []|constructor]|].
  inversion Hn; subst. constructor.
  - intros X. apply in_app_or in X. destruct X as [X|[X|[]]]; [tauto|]. subst. apply Hx. left. reflexivity.
  - apply IH; [assumption|]. intros X. apply Hx. right. exact X.
Qed.

Lemma nodupN_In x l : In x (nodupN l) <-> In x l.
Proof.
  induction l as [|y tl IH]; cbn; [tauto|].
  destruct (memN y tl) eqn:E.
  - rewrite IH. split; [tauto|]. intros [X|X]; [|exact X]. subst. apply memN_In. exact E.
  - cbn. rewrite IH. tauto.
Qed.
Lemma nodupN_NoDup l : NoDup (nodupN l).
Proof.
  induction l as [|y tl IH]; cbn; [constructor|].
  destruct (memN y tl) eqn:E; [exact IH|]. constructor; [|exact IH].
  rewrite nodupN_In. apply memN_false. exact E.
Qed.

(* ---- node info association list ---- *)
Section Lib.
Context {ED : Type}.
Implicit Types g : dag ED.

Lemma get_info_l_app l1 l2 n :
  get_info_l (l1 ++ l2) n = match get_info_l l1 n with Some i => Some i | None => get_info_l l2 n end.
Proof.
  induction l1 as [|[m i] tl IH]; cbn; [reflexivity|]. destruct (N.eqb m n); [reflexivity|exact IH].
Qed.

Lemma get_info_l_none l n : get_info_l l n = None <-> ~ In n (map fst l).
Proof.
  induction l as [|[m i] tl IH]; cbn; [tauto|].
  destruct (N.eqb m n) eqn:E.
  - apply N.eqb_eq in E. subst. split; [discriminate|]. intros X. exfalso. apply X. left. reflexivity.
  - rewrite IH. apply N.eqb_neq in E. tauto.
Qed.
Lemma get_info_l_some_in l n i : get_info_l l n = Some i -> In (n, i) l.
Proof.
  induction l as [|[m j] tl IH]; cbn; [discriminate|].
  destruct (N.eqb m n) eqn:E.
  - apply N.eqb_eq in E. subst. intros X. inversion X. left. reflexivity.
  - intros X. right. apply IH. exact X.
Qed.
Lemma get_info_l_in l n i : NoDup (map fst l) -> In (n, i) l -> get_info_l l n = Some i.
Proof.
  induction l as [|[m j] tl IH]; cbn; [tauto|]. intros Hn [X|X].
  - inversion X; subst. rewrite N.eqb_refl. reflexivity.
  - inversion Hn; subst. destruct (N.eqb m n) eqn:E.
    + apply N.eqb_eq in E. subst. exfalso. apply H1. change n with (fst (n, i)). apply in_map. exact X.
    + apply IH; assumption.
Qed.

Lemma map_fst_upd l n f : map fst (upd_info_l l n f) = map fst l.
Proof. unfold upd_info_l. rewrite map_map. apply map_ext. intros [m i]. cbn. destruct (N.eqb m n); reflexivity. Qed.

Lemma get_info_upd_l l n f m :
  get_info_l (upd_info_l l n f) m = if N.eqb m n then option_map f (get_info_l l m) else get_info_l l m.
Proof.
  induction l as [|[k i] tl IH]; cbn; [destruct (N.eqb m n); reflexivity|].
  destruct (N.eqb k n) eqn:E1; cbn.
  - destruct (N.eqb k m) eqn:E2.
    + apply N.eqb_eq in E1, E2. subst. rewrite N.eqb_refl. reflexivity.
    + exact IH.
  - destruct (N.eqb k m) eqn:E2.
    + apply N.eqb_eq in E2. subst. rewrite E1. reflexivity.
    + exact IH.
Qed.

Lemma get_info_upd g n f m :
  get_info (upd_info g n f) m = if N.eqb m n then option_map f (get_info g m) else get_info g m.
Proof. unfold get_info, upd_info. cbn. apply get_info_upd_l. Qed.

Lemma live_upd g n f m : live (upd_info g n f) m = live g m.
Proof. unfold live. rewrite get_info_upd. destruct (N.eqb m n); [destruct (get_info g m)|]; reflexivity. Qed.

Lemma rank_of_upd g n f m :
  rank_of (upd_info g n f) m = if N.eqb m n then match get_info g m with Some i => rank (f i) | None => 0 end else rank_of g m.
Proof. unfold rank_of. rewrite get_info_upd. destruct (N.eqb m n); [destruct (get_info g m)|]; reflexivity. Qed.
Lemma kids_of_upd g n f m :
  kids_of (upd_info g n f) m = if N.eqb m n then match get_info g m with Some i => kids (f i) | None => [] end else kids_of g m.
Proof. unfold kids_of. rewrite get_info_upd. destruct (N.eqb m n); [destruct (get_info g m)|]; reflexivity. Qed.
Lemma pars_of_upd g n f m :
  pars_of (upd_info g n f) m = if N.eqb m n then match get_info g m with Some i => pars (f i) | None => [] end else pars_of g m.
Proof. unfold pars_of. rewrite get_info_upd. destruct (N.eqb m n); [destruct (get_info g m)|]; reflexivity. Qed.

Lemma ids_upd g n f : map fst (infos (upd_info g n f)) = map fst (infos g).
Proof. unfold upd_info. cbn. apply map_fst_upd. Qed.
Lemma length_infos_upd g n f : length (infos (upd_info g n f)) = length (infos g).
Proof. unfold upd_info, upd_info_l. cbn. apply map_length. Qed.

Lemma live_true_iff g n : live g n = true <-> In n (map fst (infos g)).
Proof.
  unfold live, get_info. destruct (get_info_l (infos g) n) eqn:X.
  - split; [|reflexivity]. intros _. apply get_info_l_some_in in X. change n with (fst (n, n0)). apply in_map. exact X.
  - split; [discriminate|]. intros Y. apply get_info_l_none in X. tauto.
Qed.

Lemma kids_of_dead g n : live g n = false -> kids_of g n = [].
Proof. unfold live, kids_of. destruct (get_info g n); [discriminate|reflexivity]. Qed.
Lemma pars_of_dead g n : live g n = false -> pars_of g n = [].
Proof. unfold live, pars_of. destruct (get_info g n); [discriminate|reflexivity]. Qed.
Lemma rank_of_dead g n : live g n = false -> rank_of g n = 0.
Proof. unfold live, rank_of. destruct (get_info g n); [discriminate|reflexivity]. Qed.

(* ---- edge data ---- *)
Lemma pair_eqb_eq a b : pair_eqb a b = true <-> a = b.
Proof.
  unfold pair_eqb. destruct a, b; cbn. rewrite andb_true_iff, !N.eqb_eq.
  split; [intros [A B]; subst; reflexivity|intros X; inversion X; split; reflexivity].
Qed.
Lemma pair_eqb_refl a : pair_eqb a a = true. Proof. apply pair_eqb_eq. reflexivity. Qed.
Lemma pair_eqb_neq a b : pair_eqb a b = false <-> a <> b.
Proof. rewrite <- pair_eqb_eq. destruct (pair_eqb a b); split; congruence. Qed.

Lemma get_edata_l_app (l1 l2 : list ((node * node) * ED)) k :
  get_edata_l (l1 ++ l2) k = match get_edata_l l1 k with Some e => Some e | None => get_edata_l l2 k end.
Proof. induction l1 as [|[k' e] tl IH]; cbn; [reflexivity|]. destruct (pair_eqb k' k); [reflexivity|exact IH]. Qed.

Lemma get_edata_l_remove_same (l : list ((node * node) * ED)) k : get_edata_l (remove_edata_l l k) k = None.
Proof.
  induction l as [|[k' e] tl IH]; cbn; [reflexivity|].
  destruct (pair_eqb k' k) eqn:X; cbn; [exact IH|]. rewrite X. exact IH.
Qed.
Lemma get_edata_l_remove_other (l : list ((node * node) * ED)) k k' :
  k <> k' -> get_edata_l (remove_edata_l l k) k' = get_edata_l l k'.
Proof.
  intros Hne. induction l as [|[k0 e] tl IH]; cbn; [reflexivity|].
  destruct (pair_eqb k0 k) eqn:X; cbn.
  - apply pair_eqb_eq in X. subst k0. destruct (pair_eqb k k') eqn:Y; [apply pair_eqb_eq in Y; congruence|exact IH].
  - destruct (pair_eqb k0 k'); [reflexivity|exact IH].
Qed.

Lemma get_edata_insert g s d e s' d' :
  get_edata (insert_edata g s d e) s' d' = if pair_eqb (s, d) (s', d') then Some e else get_edata g s' d'.
Proof.
  unfold get_edata, insert_edata, set_edata. cbn [edata]. rewrite get_edata_l_app.
  destruct (pair_eqb (s, d) (s', d')) eqn:X.
  - apply pair_eqb_eq in X. inversion X; subst. rewrite get_edata_l_remove_same. cbn. rewrite pair_eqb_refl. reflexivity.
  - apply pair_eqb_neq in X. rewrite get_edata_l_remove_other by exact X.
    destruct (get_edata_l (edata g) (s', d')); [reflexivity|]. cbn.
    destruct (pair_eqb (s, d) (s', d')) eqn:Y; [apply pair_eqb_eq in Y; congruence|reflexivity].
Qed.
Lemma get_edata_remove g s d s' d' :
  get_edata (remove_edata g s d) s' d' = if pair_eqb (s, d) (s', d') then None else get_edata g s' d'.
Proof.
  unfold get_edata, remove_edata, set_edata. cbn [edata].
  destruct (pair_eqb (s, d) (s', d')) eqn:X.
  - apply pair_eqb_eq in X. inversion X; subst. apply get_edata_l_remove_same.
  - apply pair_eqb_neq in X. apply get_edata_l_remove_other. exact X.
Qed.
Lemma get_edata_upd g n f s d : get_edata (upd_info g n f) s d = get_edata g s d.
Proof. reflexivity. Qed.

(* insert_edata / remove_edata / set rank do not touch node infos *)
Lemma infos_insert_edata g s d e : infos (insert_edata g s d e) = infos g. Proof. reflexivity. Qed.
Lemma infos_remove_edata g s d : infos (remove_edata g s d) = infos g. Proof. reflexivity. Qed.
Lemma last_upd g n f : last (upd_info g n f) = last g. Proof. reflexivity. Qed.

End Lib.

Lemma removeN_app_single x l : ~ In x l -> removeN x (l ++ [x]) = l.
Proof.
  intros H. unfold removeN. rewrite filter_app. cbn. rewrite N.eqb_refl. cbn. rewrite app_nil_r.
  fold (removeN x l). apply removeN_notin. exact H.
Qed.

Lemma ssorted_snoc {A} (R : A -> A -> Prop) l a :
  StronglySorted R l -> (forall z, In z l -> R z a) -> StronglySorted R (l ++ [a]).
Proof.
  induction l as [|b bl IH]; intros Hs Hall; cbn.
  - constructor; constructor.
  - inversion Hs as [|? ? Hs' Hb]; subst. constructor.
    + apply IH; [exact Hs'|]. intros z Hz. apply Hall. right. exact Hz.
    + apply Forall_forall. intros z Hz. apply in_app_or in Hz. destruct Hz as [Hz|[Hz|[]]].
      * rewrite Forall_forall in Hb. apply Hb. exact Hz.
      * subst. apply Hall. left. reflexivity.
Qed.

Lemma NoDup_app_intro_t {A} (l1 l2 : list A) : NoDup l1 -> NoDup l2 -> (forall x, In x l1 -> In x l2 -> False) -> NoDup (l1 ++ l2).
Proof.
  induction l1 as [|x tl IH]; intros H1 H2 D; cbn; [exact H2|]. inversion H1; subst. constructor.
  - intros X. apply in_app_or in X. destruct X as [X|X]; [tauto|]. apply (D x); [left; reflexivity|exact X].
  - apply IH; try assumption. intros y Y1 Y2. apply (D y); [right; exact Y1|exact Y2].
Qed.

(* C11, iteration order: after ANY operation sequence the adjacency lists are the edge log in order of first insertion
   (since the last removal of that edge), carrying the data given at that insertion. *)
From Coq Require Import List NArith Bool Lia Permutation.
From PieV Require Import Model.Dag Proofs.DagLib Proofs.DagWF Proofs.DagPath Proofs.DagAddEdge Proofs.DagRun Proofs.DagViews.
Import ListNotations.
Open Scope N_scope.

Section Log.
Context {ED : Type}.
Implicit Types g : dag ED.
Definition entry := ((node * node) * ED)%type.
Definition esrc (t : entry) : node := fst (fst t).
Definition edst (t : entry) : node := snd (fst t).

(* the specification: an insertion-ordered log of the edges that were accepted and not removed since *)
Definition log_step g (log : list entry) (o : gop ED) : list entry :=
  match o with
  | GAddNode => log
  | GAddEdge s d e => match fst (add_edge g s d e) with AOk true => log ++ [((s, d), e)] | _ => log end
  | GRemoveEdge s d => match fst (remove_edge g s d) with Some _ => filter (fun t => negb (pair_eqb (fst t) (s, d))) log | None => log end
  | GRemoveOut s => if live g s then filter (fun t => negb (N.eqb (esrc t) s)) log else log
  | GRemoveNode n => if live g n then filter (fun t => negb (N.eqb (esrc t) n) && negb (N.eqb (edst t) n)) log else log
  end.
Fixpoint run_log g (log : list entry) (ops : list (gop ED)) : list entry :=
  match ops with [] => log | o :: tl => run_log (gstep g o) (log_step g log o) tl end.

Definition lkids (log : list entry) (u : node) : list node := map edst (filter (fun t => N.eqb (esrc t) u) log).
Definition lpars (log : list entry) (v : node) : list node := map esrc (filter (fun t => N.eqb (edst t) v) log).
Definition ldata (log : list entry) (u v : node) : option ED :=
  match find (fun t => pair_eqb (fst t) (u, v)) log with Some t => Some (snd t) | None => None end.

Definition LogInv g (log : list entry) : Prop :=
  (forall u, kids_of g u = lkids log u) /\ (forall v, pars_of g v = lpars log v) /\ (forall u v, get_edata g u v = ldata log u v).

(* list lemmas *)
Lemma lkids_app l1 l2 u : lkids (l1 ++ l2) u = lkids l1 u ++ lkids l2 u.
Proof. unfold lkids. rewrite filter_app, map_app. reflexivity. Qed.
Lemma lpars_app l1 l2 v : lpars (l1 ++ l2) v = lpars l1 v ++ lpars l2 v.
Proof. unfold lpars. rewrite filter_app, map_app. reflexivity. Qed.
Lemma ldata_app l1 l2 u v : ldata (l1 ++ l2) u v = match ldata l1 u v with Some e => Some e | None => ldata l2 u v end.
Proof.
  unfold ldata. induction l1 as [|t tl IH]; cbn; [reflexivity|]. destruct (pair_eqb (fst t) (u, v)); [reflexivity|exact IH].
Qed.

Lemma lkids_filter (p : entry -> bool) log u (q : node -> bool) :
  (forall t, esrc t = u -> p t = q (edst t)) -> lkids (filter p log) u = filter q (lkids log u).
Proof.
  intros H. unfold lkids. induction log as [|t tl IH]; cbn; [reflexivity|].
  destruct (N.eqb_spec (esrc t) u) as [E|Ne].
  - destruct (p t) eqn:Pt; cbn.
    + rewrite E, N.eqb_refl. cbn. rewrite <- (H t E), Pt. f_equal. exact IH.
    + rewrite <- (H t E), Pt. exact IH.
  - destruct (p t); cbn; [destruct (N.eqb_spec (esrc t) u); [congruence|]|]; exact IH.
Qed.
Lemma lpars_filter (p : entry -> bool) log v (q : node -> bool) :
  (forall t, edst t = v -> p t = q (esrc t)) -> lpars (filter p log) v = filter q (lpars log v).
Proof.
  intros H. unfold lpars. induction log as [|t tl IH]; cbn; [reflexivity|].
  destruct (N.eqb_spec (edst t) v) as [E|Ne].
  - destruct (p t) eqn:Pt; cbn.
    + rewrite E, N.eqb_refl. cbn. rewrite <- (H t E), Pt. f_equal. exact IH.
    + rewrite <- (H t E), Pt. exact IH.
  - destruct (p t); cbn; [destruct (N.eqb_spec (edst t) v); [congruence|]|]; exact IH.
Qed.
Lemma ldata_filter (p : entry -> bool) log u v :
  ldata (filter p log) u v = match find (fun t => pair_eqb (fst t) (u, v) && p t) log with Some t => Some (snd t) | None => None end.
Proof.
  unfold ldata. induction log as [|t tl IH]; cbn; [reflexivity|].
  destruct (p t) eqn:Pt; cbn.
  - destruct (pair_eqb (fst t) (u, v)); cbn; [reflexivity|exact IH].
  - rewrite andb_false_r. exact IH.
Qed.
Lemma find_ext {A} (f h : A -> bool) l : (forall x, In x l -> f x = h x) -> find f l = find h l.
Proof. induction l as [|x tl IH]; intros H; cbn; [reflexivity|]. rewrite (H x (or_introl eq_refl)). destruct (h x); [reflexivity|]. apply IH. intros y Y. apply H. right. exact Y. Qed.
Lemma filter_true_id {A} (f : A -> bool) l : (forall x, In x l -> f x = true) -> filter f l = l.
Proof. induction l as [|x tl IH]; intros H; cbn; [reflexivity|]. rewrite (H x (or_introl eq_refl)). f_equal. apply IH. intros y Y. apply H. right. exact Y. Qed.

Lemma find_false_none {A} (l : list A) : find (fun _ => false) l = None.
Proof. induction l; cbn; [reflexivity|assumption]. Qed.
Lemma filter_false_nil {A} (l : list A) : filter (fun _ => false) l = [].
Proof. induction l; cbn; [reflexivity|assumption]. Qed.

Lemma step_log g log (o : gop ED) :
  WF g -> LogInv g log -> (match o with GAddEdge s d e => fst (add_edge g s d e) <> AFuel | _ => True end) ->
  LogInv (gstep g o) (log_step g log o).
Proof.
  intros W [IK [IP ID]] NF. destruct o as [|n|s d e|s d|s]; cbn [gstep log_step].
  - (* add_node: adjacency of every node unchanged (the new node has none) *)
    assert (L : live g (fresh g) = false \/ live g (fresh g) = true) by (destruct (live g (fresh g)); tauto).
    split; [|split].
    + intros u. rewrite <- IK. unfold add_node, add_node_at, kids_of, get_info. cbn [snd infos]. rewrite get_info_l_app.
      fold (get_info g u). destruct (get_info g u); [reflexivity|]. cbn. destruct (N.eqb (fresh g) u); reflexivity.
    + intros v. rewrite <- IP. unfold add_node, add_node_at, pars_of, get_info. cbn [snd infos]. rewrite get_info_l_app.
      fold (get_info g v). destruct (get_info g v); [reflexivity|]. cbn. destruct (N.eqb (fresh g) v); reflexivity.
    + intros u v. rewrite <- ID. reflexivity.
  - (* remove_node *)
    destruct (live g n) eqn:Ln.
    + destruct (remove_node_view g n W Ln) as [_ [_ [VK [VP [_ VE]]]]]. split; [|split].
      * intros u. rewrite VK, IK. destruct (N.eqb_spec u n) as [->|Hun].
        -- rewrite (lkids_filter _ log n (fun _ => false)); [rewrite filter_false_nil; reflexivity|].
           intros t E. rewrite E, N.eqb_refl. reflexivity.
        -- rewrite (lkids_filter _ log u (fun c => negb (N.eqb n c))).
           ++ reflexivity.
           ++ intros t E. rewrite E. destruct (N.eqb_spec u n); [congruence|]. cbn. rewrite (N.eqb_sym n). reflexivity.
      * intros v. rewrite VP, IP. destruct (N.eqb_spec v n) as [->|Hvn].
        -- rewrite (lpars_filter _ log n (fun _ => false)); [rewrite filter_false_nil; reflexivity|].
           intros t E. rewrite E, N.eqb_refl, andb_false_r. reflexivity.
        -- rewrite (lpars_filter _ log v (fun c => negb (N.eqb n c))).
           ++ reflexivity.
           ++ intros t E. rewrite E. destruct (N.eqb_spec v n); [congruence|]. cbn. rewrite andb_true_r, (N.eqb_sym n). reflexivity.
      * intros u v. rewrite VE, ID, ldata_filter. unfold ldata.
        destruct (N.eqb_spec u n) as [->|Hun]; cbn.
        -- match goal with |- _ = match find ?FF log with Some _ => _ | None => _ end => rewrite (find_ext FF (fun _ => false)) end; [rewrite find_false_none; reflexivity|].
           intros t _. destruct (pair_eqb (fst t) (n, v)) eqn:X; [|reflexivity]. apply pair_eqb_eq in X. unfold esrc. rewrite X. cbn. rewrite N.eqb_refl. reflexivity.
        -- destruct (N.eqb_spec v n) as [->|Hvn]; cbn.
           ++ match goal with |- _ = match find ?FF log with Some _ => _ | None => _ end => rewrite (find_ext FF (fun _ => false)) end; [rewrite find_false_none; reflexivity|].
              intros t _. destruct (pair_eqb (fst t) (u, n)) eqn:X; [|reflexivity]. apply pair_eqb_eq in X. unfold esrc, edst. rewrite X. cbn. rewrite N.eqb_refl, andb_false_r. reflexivity.
           ++ match goal with |- _ = match find ?FF log with Some _ => _ | None => _ end => rewrite (find_ext FF (fun t => pair_eqb (fst t) (u, v))) end; [reflexivity|].
              intros t _. destruct (pair_eqb (fst t) (u, v)) eqn:X; [|reflexivity]. apply pair_eqb_eq in X. unfold esrc, edst. rewrite X. cbn.
              destruct (N.eqb_spec u n); [congruence|]. destruct (N.eqb_spec v n); [congruence|]. reflexivity.
    + unfold remove_node. unfold live in Ln. destruct (get_info g n); [discriminate|]. cbn. split; [|split]; assumption.
  - (* add_edge *)
    pose proof (add_edge_view g s d e W) as V.
    destruct (fst (add_edge g s d e)) as [[|]|err|] eqn:R.
    + destruct V as [Hnk [_ [VK [VP VE]]]]. split; [|split].
      * intros u. rewrite VK, lkids_app. destruct (N.eqb_spec u s) as [->|Hus].
        -- rewrite IK. unfold lkids at 2. cbn. unfold esrc. cbn. rewrite N.eqb_refl. reflexivity.
        -- rewrite IK. unfold lkids at 2. cbn. unfold esrc. cbn. destruct (N.eqb_spec s u); [congruence|]. cbn. rewrite app_nil_r. reflexivity.
      * intros v. rewrite VP, lpars_app. destruct (N.eqb_spec v d) as [->|Hvd].
        -- rewrite IP. unfold lpars at 2. cbn. unfold edst. cbn. rewrite N.eqb_refl. reflexivity.
        -- rewrite IP. unfold lpars at 2. cbn. unfold edst. cbn. destruct (N.eqb_spec d v); [congruence|]. cbn. rewrite app_nil_r. reflexivity.
      * intros u v. rewrite VE, ldata_app, ID. unfold ldata at 3. cbn.
        destruct (pair_eqb (s, d) (u, v)) eqn:X; [|destruct (ldata log u v); reflexivity].
        apply pair_eqb_eq in X. inversion X; subst.
        assert (Z : get_edata g u v = None).
        { destruct (get_edata g u v) eqn:Y; [|reflexivity]. exfalso. apply Hnk. apply (wf_edata g W). congruence. }
        rewrite ID in Z. rewrite Z. reflexivity.
    + destruct V as [-> _]. split; [|split]; assumption.
    + rewrite V. split; [|split]; assumption.
    + congruence.
  - (* remove_edge *)
    pose proof (remove_edge_view g s d W) as V. cbn zeta in V.
    destruct (fst (remove_edge g s d)) as [e0|] eqn:R.
    + destruct V as [_ [_ [_ [_ [VK [VP VE]]]]]]. split; [|split].
      * intros u. rewrite VK, IK. destruct (N.eqb_spec u s) as [->|Hus].
        -- rewrite (lkids_filter _ log s (fun c => negb (N.eqb d c))); [reflexivity|].
           intros t E. unfold pair_eqb. cbn. fold (esrc t). fold (edst t). rewrite E, N.eqb_refl. cbn. rewrite (N.eqb_sym d). reflexivity.
        -- rewrite (lkids_filter _ log u (fun _ => true)); [rewrite filter_true_id by reflexivity; reflexivity|].
           intros t E. unfold pair_eqb. cbn. fold (esrc t). rewrite E. destruct (N.eqb_spec u s); [congruence|]. reflexivity.
      * intros v. rewrite VP, IP. destruct (N.eqb_spec v d) as [->|Hvd].
        -- rewrite (lpars_filter _ log d (fun c => negb (N.eqb s c))); [reflexivity|].
           intros t E. unfold pair_eqb. cbn. fold (esrc t). fold (edst t). rewrite E, N.eqb_refl, andb_true_r. rewrite (N.eqb_sym s). reflexivity.
        -- rewrite (lpars_filter _ log v (fun _ => true)); [rewrite filter_true_id by reflexivity; reflexivity|].
           intros t E. unfold pair_eqb. cbn. fold (edst t). rewrite E. destruct (N.eqb_spec v d); [congruence|]. rewrite andb_false_r. reflexivity.
      * intros u v. rewrite VE, ID, ldata_filter. unfold ldata.
        destruct (pair_eqb (s, d) (u, v)) eqn:X.
        -- apply pair_eqb_eq in X. inversion X; subst.
           match goal with |- _ = match find ?FF log with Some _ => _ | None => _ end => rewrite (find_ext FF (fun _ => false)) end; [rewrite find_false_none; reflexivity|].
           intros t _. destruct (pair_eqb (fst t) (u, v)); reflexivity.
        -- match goal with |- _ = match find ?FF log with Some _ => _ | None => _ end => rewrite (find_ext FF (fun t => pair_eqb (fst t) (u, v))) end; [reflexivity|].
           intros t _. destruct (pair_eqb (fst t) (u, v)) eqn:Y; [|reflexivity]. apply pair_eqb_eq in Y. rewrite Y.
           apply pair_eqb_neq in X. destruct (pair_eqb (u, v) (s, d)) eqn:Z; [apply pair_eqb_eq in Z; congruence|reflexivity].
    + destruct V as [-> _]. split; [|split]; assumption.
  - (* remove_outgoing *)
    destruct (live g s) eqn:Ls.
    + destruct (remove_outgoing_view g s W Ls) as [_ [_ [_ [_ [VK [VP VE]]]]]]. split; [|split].
      * intros u. rewrite VK, IK. destruct (N.eqb_spec u s) as [->|Hus].
        -- rewrite (lkids_filter _ log s (fun _ => false)); [rewrite filter_false_nil; reflexivity|].
           intros t E. rewrite E, N.eqb_refl. reflexivity.
        -- rewrite (lkids_filter _ log u (fun _ => true)); [rewrite filter_true_id by reflexivity; reflexivity|].
           intros t E. rewrite E. destruct (N.eqb_spec u s); [congruence|]. reflexivity.
      * intros v. rewrite VP, IP. rewrite (lpars_filter _ log v (fun c => negb (N.eqb s c))); [reflexivity|].
        intros t _. rewrite (N.eqb_sym s). reflexivity.
      * intros u v. rewrite VE, ID, ldata_filter. unfold ldata. destruct (N.eqb_spec u s) as [->|Hus].
        -- match goal with |- _ = match find ?FF log with Some _ => _ | None => _ end => rewrite (find_ext FF (fun _ => false)) end; [rewrite find_false_none; reflexivity|].
           intros t _. destruct (pair_eqb (fst t) (s, v)) eqn:X; [|reflexivity]. apply pair_eqb_eq in X. unfold esrc. rewrite X. cbn. rewrite N.eqb_refl. reflexivity.
        -- match goal with |- _ = match find ?FF log with Some _ => _ | None => _ end => rewrite (find_ext FF (fun t => pair_eqb (fst t) (u, v))) end; [reflexivity|].
           intros t _. destruct (pair_eqb (fst t) (u, v)) eqn:X; [|reflexivity]. apply pair_eqb_eq in X. unfold esrc. rewrite X. cbn.
           destruct (N.eqb_spec u s); [congruence|]. reflexivity.
    + rewrite remove_outgoing_snd, Ls. cbn. split; [|split]; assumption.
Qed.

Theorem run_log_inv (ops : list (gop ED)) : forall g log,
  WF g -> Fresh g -> LogInv g log -> run_ok g ops -> LogInv (fold_left gstep ops g) (run_log g log ops).
Proof.
  induction ops as [|o tl IH]; intros g log W F L R; cbn [fold_left run_log]; [exact L|].
  destruct R as [R1 R2]. destruct (step_WF g o W F R1) as [W' F']. apply IH; try assumption. apply step_log; assumption.
Qed.

Theorem grun_first_insertion_order (ops : list (gop ED)) :
  run_ok empty ops ->
  let g := grun ops in let log := run_log empty [] ops in
  (forall u, kids_of g u = lkids log u) /\ (forall v, pars_of g v = lpars log v) /\ (forall u v, get_edata g u v = ldata log u v).
Proof.
  intros R. cbn zeta. unfold grun. apply run_log_inv; [apply WF_empty|intros n []| |exact R].
  split; [|split]; reflexivity.
Qed.

End Log.

(* add_edge and contains_transitive_edge never run out of the model's fuel on a well-formed graph; hence every operation
   sequence is run_ok, and C10/C11 hold without a fuel premise. *)
From Coq Require Import List NArith Bool Lia Permutation Arith.
From PieV Require Import Model.Dag Proofs.DagLib Proofs.DagWF Proofs.DagPath Proofs.DagDfs Proofs.DagFuel Proofs.DagReorder Proofs.DagAddEdge Proofs.DagRun.
Import ListNotations.
Open Scope N_scope.

Section NF.
Context {ED : Type}.
Implicit Types g : dag ED.

Lemma FW_pre_graph g s d (e : ED) : WF g -> live g s = true -> live g d = true -> s <> d -> ~ In d (kids_of g s) -> FW (pre_graph g s d e).
Proof.
  intros W Ls Ld Hsd Hnk. destruct (pre_graph_structure g s d e W Ls Ld Hsd Hnk) as [S1 [S2 [S3 [S4 [S5 [S6 _]]]]]].
  constructor; try assumption. intros u v X. apply S6. exact X.
Qed.

Lemma lifo_single next ok (x : node) (vis : list node) : memN x vis = false -> Lifo next ok [x] vis.
Proof.
  intros Hx pre y post E Hy. destruct pre as [|p pre']; cbn in E; inversion E; subst.
  - congruence.
  - destruct pre'; discriminate.
Qed.

Lemma start_bound next ok vis g : FW g ->
  (length (flat_map (fun k => map (pair k) (next k)) (nodesG g)) <= length (edata g))%nat ->
  forall x : node, (length [x] + pot next ok vis (nodesG g) < dfs_fuel g)%nat.
Proof.
  intros F B x. pose proof (pot_le next ok vis (nodesG g)). unfold dfs_fuel. cbn [length]. lia.
Qed.

Lemma dfs_backward_nocycle g lb : forall fuel stack vis res, dfs_backward fuel g lb stack vis res <> DfsCycle.
Proof. induction fuel as [|f IH]; intros stack vis res; cbn [dfs_backward]; [discriminate|]. destruct stack; [discriminate|apply IH]. Qed.

Theorem add_edge_no_fuel g s d (e : ED) : WF g -> fst (add_edge g s d e) <> AFuel.
Proof.
  intros W.
  destruct (live g s) eqn:Ls; [|apply (add_edge_early g s d e W (or_introl Ls))].
  destruct (live g d) eqn:Ld; [|apply (add_edge_early g s d e W (or_intror (or_introl Ld)))].
  destruct (N.eq_dec s d) as [Hsd|Hsd]; [apply (add_edge_early g s d e W (or_intror (or_intror (or_introl Hsd))))|].
  destruct (in_dec N.eq_dec d (kids_of g s)) as [Hk|Hnk]; [apply (add_edge_early g s d e W (or_intror (or_intror (or_intror Hk))))|].
  rewrite (add_edge_unfold g s d e W Ls Ld Hsd Hnk). cbn zeta.
  pose proof (FW_pre_graph g s d e W Ls Ld Hsd Hnk) as F.
  destruct (pre_graph_view g s d e Ls Ld Hsd) as [_ [_ [_ [V4 [V5 _]]]]].
  destruct (N.ltb_spec (rank_of g d) (rank_of g s)) as [Hlt|Hge]; [|cbn [fst]; discriminate].
  assert (Ld3 : forall y, In y [d] -> live (pre_graph g s d e) y = true) by (intros y [E|[]]; subst y; rewrite V4; exact Ld).
  assert (Ls3 : forall y, In y [s] -> live (pre_graph g s d e) y = true) by (intros y [E|[]]; subst y; rewrite V4; exact Ls).
  pose proof (dfs_forward_fuel (pre_graph g s d e) (rank_of g s) F (dfs_fuel (pre_graph g s d e)) [d] [] [] Ld3
                (lifo_single _ _ d [] eq_refl) (start_bound _ _ [] _ F (kids_sum _ F) d)) as NF1.
  pose proof (dfs_forward_spec (dfs_fuel (pre_graph g s d e)) (pre_graph g s d e) (rank_of g s) d [d] []) as FS.
  assert (FI0 : FInv (pre_graph g s d e) (rank_of g s) d [d] []).
  { split; [intros x []|]. intros x [[<-|[]]|[]]. split; [left; reflexivity|]. rewrite V5. exact Hlt. }
  specialize (FS FI0).
  destruct (dfs_forward (dfs_fuel (pre_graph g s d e)) (pre_graph g s d e) (rank_of g s) [d] [] []) as [cf vis| |]; [|cbn [fst]; discriminate|congruence].
  destruct FS as [-> [[_ FI2] _]].
  assert (Hs : memN s cf = false).
  { apply memN_false. intros X. destruct (FI2 s (or_intror X)) as [_ Y]. rewrite V5 in Y. lia. }
  pose proof (dfs_backward_fuel (pre_graph g s d e) (rank_of g d) F (dfs_fuel (pre_graph g s d e)) [s] cf [] Ls3
                (lifo_single _ _ s cf Hs) (start_bound _ _ cf _ F (pars_sum _ F) s)) as NF2.
  destruct (dfs_backward (dfs_fuel (pre_graph g s d e)) (pre_graph g s d e) (rank_of g d) [s] cf []) as [cb vis| |] eqn:DB; cbn [fst]; [discriminate| |congruence].
  exfalso. exact (dfs_backward_nocycle _ _ _ _ _ _ DB).
Qed.

(* every operation sequence is run_ok from a well-formed graph *)
Theorem run_ok_always (ops : list (gop ED)) : forall g, WF g -> Fresh g -> run_ok g ops.
Proof.
  induction ops as [|o tl IH]; intros g W Fr; cbn [run_ok]; [exact I|]. split.
  - destruct o; try exact I. apply add_edge_no_fuel. exact W.
  - destruct (step_WF g o W Fr) as [W' F']; [destruct o; try exact I; apply add_edge_no_fuel; exact W|]. apply IH; assumption.
Qed.
End NF.

Section NF2.
Context {ED : Type}.
Implicit Types g : dag ED.

(* contains_transitive_edge always answers *)
Lemma cte_loop_fuel g dst : NoDup (nodesG g) -> forall fuel stack vis,
  (length stack + pot (kids_of g) (fun _ => true) vis (nodesG g) < fuel)%nat -> cte_loop fuel g dst stack vis <> None.
Proof.
  intros ND. induction fuel as [|f IH]; intros stack vis Phi; [lia|]. cbn [cte_loop].
  destruct stack as [|k st]; [discriminate|].
  destruct (memN k vis) eqn:Hk.
  - apply IH. cbn [length] in Phi. lia.
  - destruct (memN dst (kids_of g k)); [discriminate|]. apply IH.
    rewrite app_length, rev_length.
    assert (E : okn (kids_of g) (fun _ => true) k = kids_of g k).
    { unfold okn. induction (kids_of g k) as [|c tl IHl]; cbn; [reflexivity|f_equal; exact IHl]. }
    destruct (in_dec N.eq_dec k (nodesG g)) as [Hin|Hnin].
    + pose proof (pot_visit (kids_of g) (fun _ => true) vis k (nodesG g) ND Hin Hk) as PV. rewrite E in PV. cbn [length] in Phi. lia.
    + assert (Kd : kids_of g k = []).
      { apply kids_of_dead. destruct (live g k) eqn:L; [|reflexivity]. exfalso. apply Hnin. apply live_true_iff. exact L. }
      rewrite Kd. rewrite (pot_notin (kids_of g) (fun _ => true) vis k (nodesG g) Hnin). cbn [length] in *. lia.
Qed.

Theorem contains_transitive_edge_answers g s d : WF g -> contains_transitive_edge g s d <> None.
Proof.
  intros W. unfold contains_transitive_edge.
  destruct (negb (live g s) || negb (live g d)); [discriminate|]. destruct (N.eqb s d); [discriminate|].
  apply cte_loop_fuel; [apply (wf_ids _ W)|].
  pose proof (pot_le (kids_of g) (fun _ => true) [] (nodesG g)). pose proof (kids_sum g (WF_FW g W)).
  unfold walk_fuel. cbn [length]. lia.
Qed.
End NF2.

(* Reachability in the DAG model, acyclicity from WF, and the shape of add_edge before the order repair. *)
From Coq Require Import List NArith Bool Lia Permutation.
From PieV Require Import Model.Dag Proofs.DagLib Proofs.DagWF.
Import ListNotations.
Open Scope N_scope.

Section Path.
Context {ED : Type}.
Implicit Types g : dag ED.

Inductive path g : node -> node -> Prop :=
| path1 u v : In v (kids_of g u) -> path g u v
| pathS u w v : In w (kids_of g u) -> path g w v -> path g u v.

Lemma path_trans g u w v : path g u w -> path g w v -> path g u v.
Proof. intros P1 P2. induction P1; [eapply pathS; eassumption|]. eapply pathS; [eassumption|]. apply IHP1. exact P2. Qed.
Lemma path_snoc g u w v : path g u w -> In v (kids_of g w) -> path g u v.
Proof. intros P X. eapply path_trans; [exact P|]. apply path1. exact X. Qed.

Lemma path_rank g u v : WF g -> path g u v -> rank_of g u < rank_of g v.
Proof.
  intros W P. induction P as [u v X|u w v X P IH].
  - apply (wf_topo g W). exact X.
  - pose proof (wf_topo g W u w X). lia.
Qed.

Theorem WF_acyclic g u : WF g -> ~ path g u u.
Proof. intros W P. apply (path_rank g u u W) in P. lia. Qed.

Lemma path_live g u v : WF g -> path g u v -> live g u = true /\ live g v = true.
Proof.
  intros W P. induction P as [u v X|u w v X P IH].
  - apply (wf_closed g W). exact X.
  - destruct (wf_closed g W u w X). tauto.
Qed.

(* paths only depend on the kids lists *)
Lemma path_ext g g' u v : (forall m, kids_of g' m = kids_of g m) -> path g u v -> path g' u v.
Proof.
  intros K P. induction P as [u v X|u w v X P IH].
  - apply path1. rewrite K. exact X.
  - eapply pathS; [rewrite K; exact X|exact IH].
Qed.

End Path.

(* C11: every query of the DAG answers according to the true edge set (the kids lists of a well-formed graph). *)
From Coq Require Import List NArith Bool Lia Permutation Sorted.
From PieV Require Import Model.Dag Proofs.DagLib Proofs.DagWF Proofs.DagPath.
Import ListNotations.
Open Scope N_scope.

Section Queries.
Context {ED : Type}.
Implicit Types g : dag ED.

(* ---- direct edges and adjacency ---- *)
Theorem contains_edge_spec g u v : WF g -> (contains_edge g u v = true <-> In v (kids_of g u)).
Proof.
  intros W. unfold contains_edge.
  destruct (live g u) eqn:Lu; cbn [negb orb].
  - destruct (live g v) eqn:Lv; cbn [negb orb].
    + destruct (get_edata g u v) eqn:X.
      * split; [intros _|reflexivity]. apply (wf_edata g W). congruence.
      * split; [discriminate|]. intros Y. apply (wf_edata g W) in Y. congruence.
    + split; [discriminate|]. intros Y. destruct (wf_closed g W u v Y). congruence.
  - split; [discriminate|]. intros Y. rewrite (kids_of_dead g u Lu) in Y. destruct Y.
Qed.

Theorem outgoing_spec g u : WF g ->
  map fst (get_outgoing_edges g u) = kids_of g u /\
  forall v e, In (v, e) (get_outgoing_edges g u) -> e = get_edata g u v /\ e <> None.
Proof.
  intros W. unfold get_outgoing_edges. split; [rewrite map_map; cbn; apply map_id|].
  intros v e X. apply in_map_iff in X. destruct X as [c [E Hc]]. inversion E; subst. split; [reflexivity|].
  apply (wf_edata g W). exact Hc.
Qed.
Theorem incoming_spec g v : WF g ->
  map fst (get_incoming_edges g v) = pars_of g v /\
  forall u e, In (u, e) (get_incoming_edges g v) -> e = get_edata g u v /\ e <> None.
Proof.
  intros W. unfold get_incoming_edges. split; [rewrite map_map; cbn; apply map_id|].
  intros u e X. apply in_map_iff in X. destruct X as [c [E Hc]]. inversion E; subst. split; [reflexivity|].
  apply (wf_edata g W). apply (wf_sym g W). exact Hc.
Qed.
Theorem adjacency_symmetric g u v : WF g -> (In v (map fst (get_outgoing_edges g u)) <-> In u (map fst (get_incoming_edges g v))).
Proof. intros W. rewrite (proj1 (outgoing_spec g u W)), (proj1 (incoming_spec g v W)). apply (wf_sym g W). Qed.

Theorem topo_cmp_spec g a b : live g a = true -> live g b = true -> topo_cmp g a b = Some (N.compare (rank_of g a) (rank_of g b)).
Proof. unfold live, topo_cmp, rank_of. destruct (get_info g a); [|discriminate]. destruct (get_info g b); [|discriminate]. reflexivity. Qed.

(* ---- transitive reachability ---- *)
Definition CInv g src dst (stack visited : list node) : Prop :=
  (forall x, In x stack \/ In x visited -> x = src \/ path g src x) /\
  (forall x, In x visited -> ~ In dst (kids_of g x) /\ forall c, In c (kids_of g x) -> In c visited \/ In c stack) /\
  (In src visited \/ In src stack).

Lemma cte_loop_spec fuel g src dst : forall stack visited b,
  CInv g src dst stack visited ->
  cte_loop fuel g dst stack visited = Some b -> (b = true <-> path g src dst).
Proof.
  induction fuel as [|f IH]; intros stack visited b [I1 [I2 I3]] H; cbn [cte_loop] in H; [discriminate|].
  destruct stack as [|k st].
  - inversion H; subst. split; [discriminate|]. intros P. exfalso.
    destruct I3 as [I3|[]].
    assert (G : forall x y, path g x y -> y = dst -> In x visited -> False).
    { intros x y Q. induction Q as [u v X|u w v X Q IHQ]; intros -> Hu.
      - destruct (I2 u Hu) as [A _]. tauto.
      - destruct (I2 u Hu) as [_ B]. destruct (B w X) as [Y|[]]. apply IHQ; [reflexivity|exact Y]. }
    eapply G; [exact P|reflexivity|exact I3].
  - destruct (memN k visited) eqn:M.
    + apply (IH st visited b); [|exact H]. apply memN_In in M. split; [|split].
      * intros x [X|X]; apply I1; [left; right; exact X|right; exact X].
      * intros x X. destruct (I2 x X) as [A B]. split; [exact A|]. intros c C. destruct (B c C) as [Y|[<-|Y]]; [left; exact Y|left; exact M|right; exact Y].
      * destruct I3 as [Y|[<-|Y]]; [left; exact Y|left; exact M|right; exact Y].
    + destruct (memN dst (kids_of g k)) eqn:D.
      * inversion H; subst. split; [intros _|reflexivity]. apply memN_In in D.
        destruct (I1 k (or_introl (or_introl eq_refl))) as [->|P]; [apply path1; exact D|eapply path_snoc; eassumption].
      * apply (IH (rev (kids_of g k) ++ st) (k :: visited) b); [|exact H]. apply memN_false in D. split; [|split].
        -- intros x [X|[<-|X]].
           ++ apply in_app_or in X. destruct X as [X|X]; [|apply I1; left; right; exact X].
              apply in_rev in X. right. destruct (I1 k (or_introl (or_introl eq_refl))) as [->|P]; [apply path1; exact X|eapply path_snoc; eassumption].
           ++ apply I1. left. left. reflexivity.
           ++ apply I1. right. exact X.
        -- intros x [<-|X].
           ++ split; [exact D|]. intros c C. right. apply in_or_app. left. apply -> in_rev. exact C.
           ++ destruct (I2 x X) as [A B]. split; [exact A|]. intros c C. destruct (B c C) as [Y|[<-|Y]].
              ** left. right. exact Y.
              ** left. left. reflexivity.
              ** right. apply in_or_app. right. exact Y.
        -- destruct I3 as [Y|[<-|Y]]; [left; right; exact Y|left; left; reflexivity|right; apply in_or_app; right; exact Y].
Qed.

Theorem contains_transitive_edge_spec g u v b :
  WF g -> contains_transitive_edge g u v = Some b -> (b = true <-> path g u v).
Proof.
  intros W. unfold contains_transitive_edge.
  destruct (live g u) eqn:Lu; cbn [negb orb].
  2:{ intros H. inversion H; subst. split; [discriminate|]. intros P. destruct (path_live g u v W P). congruence. }
  destruct (live g v) eqn:Lv; cbn [negb orb].
  2:{ intros H. inversion H; subst. split; [discriminate|]. intros P. destruct (path_live g u v W P). congruence. }
  destruct (N.eqb_spec u v) as [->|Huv].
  { intros H. inversion H; subst. split; [discriminate|]. intros P. exfalso. eapply WF_acyclic; eassumption. }
  intros H. eapply cte_loop_spec; [|exact H]. split; [|split].
  - intros x [[<-|[]]|[]]. left. reflexivity.
  - intros x [].
  - right. left. reflexivity.
Qed.

(* ---- descendants (unsorted) ---- *)
Definition DInv g n (stack visited : list node) : Prop :=
  (forall x, In x stack \/ In x visited -> path g n x) /\
  (forall x, In x visited -> forall c, In c (kids_of g x) -> In c visited \/ In c stack) /\
  (forall c, In c (kids_of g n) -> In c visited \/ In c stack) /\
  NoDup visited.

Lemma desc_unsorted_loop_spec fuel g n : forall stack visited acc l,
  DInv g n stack visited -> map snd acc = visited -> (forall r x, In (r, x) acc -> r = rank_of g x) ->
  desc_unsorted_loop fuel g stack visited acc = Some l ->
  NoDup (map snd l) /\ (forall x, In x (map snd l) <-> path g n x) /\ (forall r x, In (r, x) l -> r = rank_of g x).
Proof.
  induction fuel as [|f IH]; intros stack visited acc l [I1 [I2 [I3 I4]]] Hacc Hr H; cbn [desc_unsorted_loop] in H; [discriminate|].
  destruct stack as [|k st].
  - inversion H; subst l. rewrite map_rev, Hacc. split; [apply NoDup_rev; exact I4|]. split.
    + intros x. rewrite <- in_rev. split; [intros X; apply I1; right; exact X|].
      intros P. assert (G : forall a b, path g a b -> (a = n \/ In a visited) -> In b visited).
      { intros a b' Q. induction Q as [u v X|u w v X Q IHQ]; intros [->|Hu].
        - destruct (I3 v X) as [Y|[]]. exact Y.
        - destruct (I2 u Hu v X) as [Y|[]]. exact Y.
        - apply IHQ. right. destruct (I3 w X) as [Y|[]]. exact Y.
        - apply IHQ. right. destruct (I2 u Hu w X) as [Y|[]]. exact Y. }
      eapply G; [exact P|left; reflexivity].
    + intros r x X. apply in_rev in X. apply Hr. exact X.
  - destruct (memN k visited) eqn:M.
    + apply (IH st visited acc l); try assumption. apply memN_In in M. split; [|split; [|split]].
      * intros x [X|X]; apply I1; [left; right; exact X|right; exact X].
      * intros x X c C. destruct (I2 x X c C) as [Y|[<-|Y]]; [left; exact Y|left; exact M|right; exact Y].
      * intros c C. destruct (I3 c C) as [Y|[<-|Y]]; [left; exact Y|left; exact M|right; exact Y].
      * exact I4.
    + apply memN_false in M.
      apply (IH (rev (kids_of g k) ++ st) (k :: visited) ((rank_of g k, k) :: acc) l); try assumption.
      * split; [|split; [|split]].
        -- intros x [X|[<-|X]].
           ++ apply in_app_or in X. destruct X as [X|X]; [|apply I1; left; right; exact X].
              apply in_rev in X. eapply path_snoc; [apply I1; left; left; reflexivity|exact X].
           ++ apply I1. left. left. reflexivity.
           ++ apply I1. right. exact X.
        -- intros x [<-|X] c C.
           ++ right. apply in_or_app. left. apply -> in_rev. exact C.
           ++ destruct (I2 x X c C) as [Y|[<-|Y]]; [left; right; exact Y|left; left; reflexivity|right; apply in_or_app; right; exact Y].
        -- intros c C. destruct (I3 c C) as [Y|[<-|Y]]; [left; right; exact Y|left; left; reflexivity|right; apply in_or_app; right; exact Y].
        -- constructor; assumption.
      * cbn. f_equal. exact Hacc.
      * intros r x [X|X]; [inversion X; reflexivity|apply Hr; exact X].
Qed.

Theorem descendants_unsorted_spec g n l :
  WF g -> descendants_unsorted g n = AOk l ->
  NoDup (map snd l) /\ (forall x, In x (map snd l) <-> path g n x) /\ (forall r x, In (r, x) l -> r = rank_of g x).
Proof.
  intros W. unfold descendants_unsorted. destruct (live g n); cbn [negb]; [|discriminate].
  destruct (desc_unsorted_loop (walk_fuel g) g (rev (kids_of g n)) [] []) as [l0|] eqn:X; [|discriminate].
  intros H. inversion H; subst. eapply desc_unsorted_loop_spec; [| | |exact X].
  - split; [|split; [|split]].
    + intros x [Y|[]]. apply in_rev in Y. apply path1. exact Y.
    + intros x [].
    + intros c C. right. apply -> in_rev. exact C.
    + constructor.
  - reflexivity.
  - intros r x [].
Qed.

(* ---- descendants in ascending topological rank ---- *)
Lemma heap_min_spec g : forall l best,
  In (heap_min g best l) (best :: l) /\ forall x, In x (best :: l) -> rank_of g (heap_min g best l) <= rank_of g x.
Proof.
  induction l as [|y tl IH]; intros best; cbn [heap_min].
  - split; [left; reflexivity|]. intros x [<-|[]]. lia.
  - destruct (N.ltb_spec (rank_of g y) (rank_of g best)) as [Hlt|Hge].
    + destruct (IH y) as [A B]. split; [destruct A as [A|A]; [right; left; exact A|right; right; exact A]|].
      intros x [<-|[<-|X]]; [pose proof (B y (or_introl eq_refl)); lia|apply B; left; reflexivity|apply B; right; exact X].
    + destruct (IH best) as [A B]. split; [destruct A as [A|A]; [left; exact A|right; right; exact A]|].
      intros x [<-|[<-|X]]; [apply B; left; reflexivity|pose proof (B best (or_introl eq_refl)); lia|apply B; right; exact X].
Qed.
Lemma remove_first_in x m l : In x (remove_first m l) -> In x l.
Proof. induction l as [|y tl IH]; cbn; [tauto|]. destruct (N.eqb m y); [intros X; right; exact X|]. intros [X|X]; [left; exact X|right; apply IH; exact X]. Qed.
Lemma remove_first_keep x m l : In x l -> x = m \/ In x (remove_first m l).
Proof.
  induction l as [|y tl IH]; cbn; [tauto|]. destruct (N.eqb_spec m y) as [->|Hne].
  - intros [X|X]; [left; symmetry; exact X|right; exact X].
  - intros [X|X]; [right; left; exact X|]. destruct (IH X) as [Y|Y]; [left; exact Y|right; right; exact Y].
Qed.

Definition SInv g n (queue visited : list node) : Prop :=
  (forall x, In x queue \/ In x visited -> path g n x) /\
  (forall x, In x visited -> forall c, In c (kids_of g x) -> In c visited \/ In c queue) /\
  (forall c, In c (kids_of g n) -> In c visited \/ In c queue) /\
  NoDup visited /\
  (forall y q, In y visited -> In q queue -> rank_of g y <= rank_of g q).

Lemma desc_sorted_loop_spec fuel g n : WF g -> forall queue visited l,
  SInv g n queue visited -> StronglySorted (fun a b => rank_of g b < rank_of g a) visited ->
  desc_sorted_loop fuel g queue visited visited = Some l ->
  NoDup l /\ (forall x, In x l <-> path g n x) /\ StronglySorted (fun a b => rank_of g a < rank_of g b) l.
Proof.
  intros W. induction fuel as [|f IH]; intros queue visited l [I1 [I2 [I3 [I4 I5]]]] Hs H; cbn [desc_sorted_loop] in H; [discriminate|].
  destruct queue as [|q0 qtl].
  - inversion H; subst l. split; [apply NoDup_rev; exact I4|]. split.
    + intros x. rewrite <- in_rev. split; [intros X; apply I1; right; exact X|].
      intros P. assert (G : forall a b, path g a b -> (a = n \/ In a visited) -> In b visited).
      { intros a b' Q. induction Q as [u v X|u w v X Q IHQ]; intros [->|Hu].
        - destruct (I3 v X) as [Y|[]]. exact Y.
        - destruct (I2 u Hu v X) as [Y|[]]. exact Y.
        - apply IHQ. right. destruct (I3 w X) as [Y|[]]. exact Y.
        - apply IHQ. right. destruct (I2 u Hu w X) as [Y|[]]. exact Y. }
      eapply G; [exact P|left; reflexivity].
    + (* reversing a strictly descending list *)
      clear -Hs. induction visited as [|a tl IHv]; cbn; [constructor|].
      inversion Hs as [|? ? Hs' Ha]; subst. apply ssorted_snoc; [apply IHv; exact Hs'|].
      intros z Z. apply in_rev in Z. rewrite Forall_forall in Ha. apply Ha. exact Z.
  - set (m := heap_min g q0 qtl) in *. set (queue' := remove_first m (q0 :: qtl)) in *.
    destruct (heap_min_spec g qtl q0) as [Hm Hmin]. fold m in Hm, Hmin.
    destruct (memN m visited) eqn:M.
    + apply (IH queue' visited l); try assumption. apply memN_In in M. split; [|split; [|split; [|split]]].
      * intros x [X|X]; apply I1; [left; eapply remove_first_in; exact X|right; exact X].
      * intros x X c C. destruct (I2 x X c C) as [Y|Y]; [left; exact Y|]. destruct (remove_first_keep c m _ Y) as [->|Z]; [left; exact M|right; exact Z].
      * intros c C. destruct (I3 c C) as [Y|Y]; [left; exact Y|]. destruct (remove_first_keep c m _ Y) as [->|Z]; [left; exact M|right; exact Z].
      * exact I4.
      * intros y q Y Q. apply I5; [exact Y|eapply remove_first_in; exact Q].
    + apply memN_false in M.
      assert (Lm : live g m = true) by (destruct (path_live g n m W (I1 m (or_introl Hm))); assumption).
      assert (Strict : forall y, In y visited -> rank_of g y < rank_of g m).
      { intros y Y. pose proof (I5 y m Y Hm) as Le. assert (rank_of g y <> rank_of g m); [|lia].
        intros E. apply M. assert (y = m); [|subst; exact Y].
        apply (wf_inj g W); [destruct (path_live g n y W (I1 y (or_intror Y))); assumption|exact Lm|exact E]. }
      apply (IH (kids_of g m ++ queue') (m :: visited) l).
      * split; [|split; [|split; [|split]]].
        -- intros x [X|[<-|X]].
           ++ apply in_app_or in X. destruct X as [X|X]; [eapply path_snoc; [apply I1; left; exact Hm|exact X]|apply I1; left; eapply remove_first_in; exact X].
           ++ apply I1. left. exact Hm.
           ++ apply I1. right. exact X.
        -- intros x [<-|X] c C.
           ++ right. apply in_or_app. left. exact C.
           ++ destruct (I2 x X c C) as [Y|Y]; [left; right; exact Y|]. destruct (remove_first_keep c m _ Y) as [->|Z]; [left; left; reflexivity|right; apply in_or_app; right; exact Z].
        -- intros c C. destruct (I3 c C) as [Y|Y]; [left; right; exact Y|]. destruct (remove_first_keep c m _ Y) as [->|Z]; [left; left; reflexivity|right; apply in_or_app; right; exact Z].
        -- constructor; assumption.
        -- intros y q [<-|Y] Q; apply in_app_or in Q; destruct Q as [Q|Q].
           ++ pose proof (wf_topo g W m q Q). lia.
           ++ apply Hmin. eapply remove_first_in. exact Q.
           ++ pose proof (wf_topo g W m q Q). pose proof (Strict y Y). lia.
           ++ apply I5; [exact Y|eapply remove_first_in; exact Q].
      * constructor; [exact Hs|]. apply Forall_forall. intros y Y. apply Strict. exact Y.
      * exact H.
Qed.

Theorem descendants_spec g n l :
  WF g -> descendants g n = AOk l ->
  NoDup l /\ (forall x, In x l <-> path g n x) /\ StronglySorted (fun a b => rank_of g a < rank_of g b) l.
Proof.
  intros W. unfold descendants. destruct (live g n); cbn [negb]; [|discriminate].
  destruct (desc_sorted_loop (walk_fuel g) g (kids_of g n) [] []) as [l0|] eqn:X; [|discriminate].
  intros H. inversion H; subst. eapply (desc_sorted_loop_spec _ g n W); [| |exact X].
  - split; [|split; [|split; [|split]]].
    + intros x [Y|[]]. apply path1. exact Y.
    + intros x [].
    + intros c C. right. exact C.
    + constructor.
    + intros y q [].
  - constructor.
Qed.

End Queries.

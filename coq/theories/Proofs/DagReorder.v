(* The rank re-assignment of reorder_nodes: combinatorics of handing the sorted pool of ranks to the backward set and then to
   the forward set, each in old-rank order. *)
From Coq Require Import List NArith Bool Lia Permutation Sorted.
From PieV Require Import Model.Dag Proofs.DagLib Proofs.Sorting Proofs.Queue.
Import ListNotations.
Open Scope N_scope.

(* ---- generic facts ---- *)
Lemma ssorted_trichotomy {A} (R : A -> A -> Prop) l a b :
  StronglySorted R l -> In a l -> In b l -> a = b \/ R a b \/ R b a.
Proof.
  induction l as [|x tl IH]; intros Hs Ha Hb; [destruct Ha|].
  inversion Hs as [|? ? Hs' Hall]; subst. rewrite Forall_forall in Hall.
  destruct Ha as [<-|Ha]; destruct Hb as [<-|Hb].
  - left. reflexivity.
  - right. left. apply Hall. exact Hb.
  - right. right. apply Hall. exact Ha.
  - apply IH; assumption.
Qed.

Lemma ssorted_combine {A B} (R1 : A -> A -> Prop) (R2 : B -> B -> Prop) l1 : forall l2,
  StronglySorted R1 l1 -> StronglySorted R2 l2 ->
  StronglySorted (fun a b => R1 (fst a) (fst b) /\ R2 (snd a) (snd b)) (combine l1 l2).
Proof.
  induction l1 as [|x tl IH]; intros l2 H1 H2; [constructor|].
  destruct l2 as [|y tl2]; [constructor|]. cbn.
  inversion H1 as [|? ? H1' A1]; subst. inversion H2 as [|? ? H2' A2]; subst.
  constructor; [apply IH; assumption|].
  rewrite Forall_forall in *. intros [a b] Hin. cbn. split.
  - apply A1. eapply in_combine_l. exact Hin.
  - apply A2. eapply in_combine_r. exact Hin.
Qed.

Lemma combine_app {A B} (l1 l2 : list A) (r : list B) :
  combine (l1 ++ l2) r = combine l1 (firstn (length l1) r) ++ combine l2 (skipn (length l1) r).
Proof.
  revert r. induction l1 as [|x tl IH]; intros r; cbn; [reflexivity|].
  destruct r as [|y r']; cbn; [destruct l2; reflexivity|]. f_equal. apply IH.
Qed.
Lemma combine_firstn_l {A B} (l1 : list A) (r : list B) : combine l1 (firstn (length l1) r) = combine l1 r.
Proof. revert r. induction l1 as [|x tl IH]; intros r; cbn; [reflexivity|]. destruct r; cbn; [reflexivity|]. f_equal. apply IH. Qed.

Lemma combine_snoc {A B} (l1 : list A) : forall (l2 : list B) a b,
  length l1 = length l2 -> combine (l1 ++ [a]) (l2 ++ [b]) = combine l1 l2 ++ [(a, b)].
Proof.
  induction l1 as [|x tl IH]; intros l2 a b H; destruct l2 as [|y tl2]; cbn in *; try discriminate; [reflexivity|].
  f_equal. apply IH. injection H as H. exact H.
Qed.
Lemma combine_rev {A B} (l1 : list A) : forall (l2 : list B), length l1 = length l2 -> combine (rev l1) (rev l2) = rev (combine l1 l2).
Proof.
  induction l1 as [|x tl IH]; intros l2 H; destruct l2 as [|y tl2]; cbn in *; try discriminate; [reflexivity|].
  injection H as H. rewrite combine_snoc by (rewrite !rev_length; exact H). rewrite IH by exact H. reflexivity.
Qed.
Lemma combine_app_r_trunc {A B} (l1 : list A) : forall (r1 r2 : list B), length l1 = length r1 -> combine l1 (r1 ++ r2) = combine l1 r1.
Proof.
  induction l1 as [|x tl IH]; intros r1 r2 H; destruct r1 as [|y r1']; cbn in *; try discriminate; [reflexivity|].
  f_equal. apply IH. injection H as H. exact H.
Qed.
Lemma NoDup_app_intro {A} (l1 l2 : list A) : NoDup l1 -> NoDup l2 -> (forall x, In x l1 -> In x l2 -> False) -> NoDup (l1 ++ l2).
Proof.
  induction l1 as [|x tl IH]; intros H1 H2 D; cbn; [exact H2|]. inversion H1; subst. constructor.
  - intros X. apply in_app_or in X. destruct X as [X|X]; [tauto|]. apply (D x); [left; reflexivity|exact X].
  - apply IH; try assumption. intros y Y1 Y2. apply (D y); [right; exact Y1|exact Y2].
Qed.

Lemma in_combine_exists {A B} (l1 : list A) (l2 : list B) a : length l1 = length l2 -> In a l1 -> exists b, In (a, b) (combine l1 l2).
Proof.
  revert l2. induction l1 as [|x tl IH]; intros l2 H Hin; [destruct Hin|].
  destruct l2 as [|y tl2]; [discriminate|]. cbn in *. injection H as H. destruct Hin as [<-|Hin].
  - exists y. left. reflexivity.
  - destruct (IH tl2 H Hin) as [b Hb]. exists b. right. exact Hb.
Qed.

(* ---- the prefix comparison lemma: the first |Q| elements of a sorted superset are pointwise below Q ---- *)
Section Prefix.
Variable key : node -> N.
Variable le' : N -> N -> Prop.
Hypothesis le_refl : forall a, le' a a.
Hypothesis le_antisym : forall a b, le' a b -> le' b a -> a = b.

Lemma prefix_below (Q : list node) : forall (P : list N),
  StronglySorted (fun a b => le' (key a) (key b)) Q -> StronglySorted le' P ->
  NoDup (map key Q) -> incl (map key Q) P ->
  forall k p, In (k, p) (combine Q P) -> le' p (key k).
Proof.
  induction Q as [|q tl IH]; intros P HQ HP Hn Hi k p Hin; [destruct Hin|].
  destruct P as [|p0 P']; [destruct Hin|]. cbn in Hin.
  inversion HQ as [|? ? HQ' AQ]; subst. inversion HP as [|? ? HP' AP]; subst.
  rewrite Forall_forall in AQ, AP. cbn in Hn. inversion Hn as [|? ? Hnq Hn']; subst.
  assert (Hp0q : le' p0 (key q)).
  { assert (X : In (key q) (p0 :: P')) by (apply Hi; left; reflexivity).
    destruct X as [<-|X]; [apply le_refl|apply AP; exact X]. }
  destruct Hin as [Heq|Hin]; [inversion Heq; subst; exact Hp0q|].
  apply (IH P'); try assumption.
  intros x Hx. assert (X : In x (p0 :: P')) by (apply Hi; right; exact Hx).
  destruct X as [<-|X]; [|exact X]. exfalso.
  apply in_map_iff in Hx. destruct Hx as [k' [Hk' Hin']]. specialize (AQ k' Hin').
  (* key q <= key k' = p0 <= key q  => equal => duplicate *)
  rewrite Hk' in AQ. assert (E : p0 = key q) by (apply le_antisym; assumption).
  apply Hnq. rewrite <- E, <- Hk'. apply in_map. exact Hin'.
Qed.
End Prefix.

(* ---- the re-assignment ---- *)
Section Reorder.
Variable key : node -> N.           (* the old rank *)
Variables B F : list node.          (* backward / forward change sets, duplicate free and disjoint *)
Hypothesis HnB : NoDup B.
Hypothesis HnF : NoDup F.
Hypothesis Hdisj : forall x, In x B -> In x F -> False.
Hypothesis Hinj : forall x y, In x (B ++ F) -> In y (B ++ F) -> key x = key y -> x = y.

Let Bs := sort_by key B.
Let Fs := sort_by key F.
Let K := Bs ++ Fs.
Let P := sort_by (fun r => r) (map key K).

Lemma In_Bs x : In x Bs <-> In x B.
Proof. unfold Bs. split; intros H; [eapply Permutation_in; [apply sort_by_perm|exact H]|eapply Permutation_in; [apply Permutation_sym, sort_by_perm|exact H]]. Qed.
Lemma In_Fs x : In x Fs <-> In x F.
Proof. unfold Fs. split; intros H; [eapply Permutation_in; [apply sort_by_perm|exact H]|eapply Permutation_in; [apply Permutation_sym, sort_by_perm|exact H]]. Qed.
Lemma In_K x : In x K <-> In x B \/ In x F.
Proof. unfold K. rewrite in_app_iff, In_Bs, In_Fs. reflexivity. Qed.

Lemma NoDup_Bs : NoDup Bs. Proof. unfold Bs. eapply Permutation_NoDup; [apply Permutation_sym, sort_by_perm|exact HnB]. Qed.
Lemma NoDup_Fs : NoDup Fs. Proof. unfold Fs. eapply Permutation_NoDup; [apply Permutation_sym, sort_by_perm|exact HnF]. Qed.
Lemma NoDup_K : NoDup K.
Proof. unfold K. apply NoDup_app_intro; [apply NoDup_Bs|apply NoDup_Fs|]. intros x X Y. apply In_Bs in X. apply In_Fs in Y. eapply Hdisj; eassumption. Qed.

Lemma K_inj x y : In x K -> In y K -> key x = key y -> x = y.
Proof. intros X Y. apply Hinj; apply in_or_app; [apply In_K in X|apply In_K in Y]; tauto. Qed.

Lemma NoDup_map_key l : NoDup l -> (forall x y, In x l -> In y l -> key x = key y -> x = y) -> NoDup (map key l).
Proof.
  induction l as [|x tl IH]; intros Hn Hi; cbn; [constructor|]. inversion Hn; subst. constructor.
  - intros X. apply in_map_iff in X. destruct X as [y [E Y]]. assert (y = x) by (apply Hi; [right; exact Y|left; reflexivity|exact E]). subst. tauto.
  - apply IH; [assumption|]. intros a b A B'. apply Hi; right; assumption.
Qed.

Lemma P_perm : Permutation P (map key K). Proof. unfold P. apply sort_by_perm. Qed.
Lemma P_sorted : StronglySorted N.le P.
Proof. unfold P. exact (sort_by_sorted (fun r => r) (map key K)). Qed.
Lemma P_nodup : NoDup P.
Proof. eapply Permutation_NoDup; [apply Permutation_sym, P_perm|]. apply NoDup_map_key; [apply NoDup_K|apply K_inj]. Qed.
Lemma P_length : length P = length K.
Proof. rewrite (Permutation_length P_perm). apply map_length. Qed.
Lemma P_strict : StronglySorted N.lt P.
Proof.
  pose proof P_sorted as S. pose proof P_nodup as D. induction P as [|x tl IH]; [constructor|].
  inversion S as [|? ? S' A]; subst. inversion D as [|? ? Dx D']; subst. constructor; [apply IH; assumption|].
  rewrite Forall_forall in *. intros y Y. specialize (A y Y). assert (x <> y) by (intros ->; tauto). lia.
Qed.
Lemma In_P p : In p P <-> exists k, In k K /\ key k = p.
Proof.
  split.
  - intros X. apply (Permutation_in _ P_perm) in X. apply in_map_iff in X. destruct X as [k [E Y]]. exists k. tauto.
  - intros [k [X <-]]. apply (Permutation_in _ (Permutation_sym P_perm)). apply in_map. exact X.
Qed.

(* the new rank of a key: the pool value paired with it *)
Definition newrank_rel (k : node) (p : N) : Prop := In (k, p) (combine K P).

Lemma newrank_total k : In k K -> exists p, newrank_rel k p.
Proof. intros X. apply in_combine_exists; [symmetry; apply P_length|exact X]. Qed.
Lemma newrank_in_pool k p : newrank_rel k p -> In p P /\ In k K.
Proof. intros X. split; [eapply in_combine_r; exact X|eapply in_combine_l; exact X]. Qed.

Definition posrel (k k' : node) : Prop :=
  (In k Bs /\ In k' Fs) \/ (In k Bs /\ In k' Bs /\ key k < key k') \/ (In k Fs /\ In k' Fs /\ key k < key k').

Lemma sorted_strict l : NoDup l -> (forall x y, In x l -> In y l -> key x = key y -> x = y) ->
  sortedk key l -> StronglySorted (fun a b => key a < key b) l.
Proof.
  intros D I S. induction l as [|x tl IH]; [constructor|].
  inversion S as [|? ? S' A]; subst. inversion D as [|? ? Dx D']; subst. constructor.
  - apply IH; try assumption. intros a b X Y. apply I; right; assumption.
  - rewrite Forall_forall in *. intros y Y. specialize (A y Y). cbn in A.
    assert (key x <> key y). { intros E. assert (x = y) by (apply I; [left; reflexivity|right; exact Y|exact E]). subst. tauto. }
    lia.
Qed.

Lemma K_posrel : StronglySorted posrel K.
Proof.
  assert (SB : StronglySorted (fun a b => key a < key b) Bs).
  { apply sorted_strict; [apply NoDup_Bs| |apply sort_by_sorted]. intros x y X Y. apply K_inj; apply in_or_app; left; assumption. }
  assert (SF : StronglySorted (fun a b => key a < key b) Fs).
  { apply sorted_strict; [apply NoDup_Fs| |apply sort_by_sorted]. intros x y X Y. apply K_inj; apply in_or_app; right; assumption. }
  unfold K. clear -SB SF.
  assert (G : forall l, (forall x, In x l -> In x Bs) -> StronglySorted (fun a b => key a < key b) l -> StronglySorted posrel (l ++ Fs)).
  { induction l as [|x tl IH]; intros Hsub Hs; cbn.
    - clear -SF. assert (H : forall l', (forall x, In x l' -> In x Fs) -> StronglySorted (fun a b => key a < key b) l' -> StronglySorted posrel l').
      { induction l' as [|y tl' IH']; intros Hsub' Hs'; [constructor|]. inversion Hs' as [|? ? S' A]; subst. constructor.
        - apply IH'; [intros z Z; apply Hsub'; right; exact Z|exact S'].
        - rewrite Forall_forall in *. intros z Z. right. right. split; [apply Hsub'; left; reflexivity|]. split; [apply Hsub'; right; exact Z|apply A; exact Z]. }
      apply H; [tauto|exact SF].
    - inversion Hs as [|? ? S' A]; subst. constructor.
      + apply IH; [intros z Z; apply Hsub; right; exact Z|exact S'].
      + rewrite Forall_forall in *. intros z Z. apply in_app_or in Z. destruct Z as [Z|Z].
        * right. left. split; [apply Hsub; left; reflexivity|]. split; [apply Hsub; right; exact Z|apply A; exact Z].
        * left. split; [apply Hsub; left; reflexivity|exact Z]. }
  apply G; [tauto|exact SB].
Qed.

Lemma combine_sorted :
  StronglySorted (fun a b => posrel (fst a) (fst b) /\ snd a < snd b) (combine K P).
Proof. apply ssorted_combine; [apply K_posrel|apply P_strict]. Qed.

Lemma BF_disj x : In x Bs -> In x Fs -> False.
Proof. intros X Y. apply In_Bs in X. apply In_Fs in Y. eapply Hdisj; eassumption. Qed.
Lemma posrel_asym k k' : posrel k k' -> posrel k' k -> False.
Proof.
  intros [[A B']|[[A [B' C]]|[A [B' C]]]] [[A2 B2]|[[A2 [B2 C2]]|[A2 [B2 C2]]]];
  first [ lia | exact (BF_disj k A B2) | exact (BF_disj k' A2 B') | exact (BF_disj k A2 A) | exact (BF_disj k' B' B2)
        | exact (BF_disj k B2 A) | exact (BF_disj k' B2 B') | exact (BF_disj k A A2) | exact (BF_disj k' B' A2) | exact (BF_disj k' B2 A2) | exact (BF_disj k B2 B') ].
Qed.

(* functional, injective, and order facts of the new ranks *)
Lemma newrank_fun k p p' : newrank_rel k p -> newrank_rel k p' -> p = p'.
Proof.
  intros X Y. destruct (ssorted_trichotomy _ _ _ _ combine_sorted X Y) as [E|[[R _]|[R _]]]; cbn in *.
  - inversion E. reflexivity.
  - exfalso. eapply posrel_asym; eassumption.
  - exfalso. eapply posrel_asym; eassumption.
Qed.
Lemma newrank_inj k k' p : newrank_rel k p -> newrank_rel k' p -> k = k'.
Proof.
  intros X Y. destruct (ssorted_trichotomy _ _ _ _ combine_sorted X Y) as [E|[[_ R]|[_ R]]]; cbn in *; try lia.
  inversion E. reflexivity.
Qed.
Lemma newrank_mono k k' p p' : newrank_rel k p -> newrank_rel k' p' -> posrel k k' -> p < p'.
Proof.
  intros X Y R. destruct (ssorted_trichotomy _ _ _ _ combine_sorted X Y) as [E|[[_ R']|[R' _]]]; cbn in *.
  - inversion E; subst. exfalso. eapply posrel_asym; eassumption.
  - exact R'.
  - exfalso. eapply posrel_asym; eassumption.
Qed.

(* the backward set only moves down *)
Lemma newrank_B_le k p : In k B -> newrank_rel k p -> p <= key k.
Proof.
  intros X R. unfold newrank_rel, K in R. rewrite combine_app in R. apply in_app_or in R. destruct R as [R|R].
  - rewrite combine_firstn_l in R.
    eapply (prefix_below key N.le N.le_refl N.le_antisymm Bs P); try eassumption.
    + apply sort_by_sorted.
    + apply P_sorted.
    + apply NoDup_map_key; [apply NoDup_Bs|]. intros a b A B'. apply K_inj; apply in_or_app; left; assumption.
    + intros r Hr. apply in_map_iff in Hr. destruct Hr as [k0 [<- Hk0]]. apply In_P. exists k0. split; [apply in_or_app; left; exact Hk0|reflexivity].
  - exfalso. apply in_combine_l in R. apply In_Fs in R. eapply Hdisj; eassumption.
Qed.

(* the forward set only moves up *)
Lemma newrank_F_ge k p : In k F -> newrank_rel k p -> key k <= p.
Proof.
  intros X R. unfold newrank_rel, K in R. rewrite combine_app in R. apply in_app_or in R. destruct R as [R|R].
  - exfalso. apply in_combine_l in R. apply In_Bs in R. eapply Hdisj; eassumption.
  - (* pairs of Fs with the last |Fs| pool values: reverse both and use the prefix lemma for >= *)
    set (P2 := skipn (length Bs) P) in *.
    assert (L2 : length Fs = length P2).
    { unfold P2. rewrite skipn_length, P_length. unfold K. rewrite app_length. lia. }
    assert (R' : In (k, p) (combine (rev Fs) (rev P))).
    { assert (E : rev P = rev P2 ++ rev (firstn (length Bs) P)).
      { rewrite <- rev_app_distr. unfold P2. rewrite firstn_skipn. reflexivity. }
      rewrite E, combine_app_r_trunc by (rewrite !rev_length; exact L2).
      rewrite combine_rev by exact L2. rewrite <- in_rev. exact R. }
    assert (G : (fun a b : N => b <= a) p (key k)).
    { eapply (prefix_below key (fun a b => b <= a)) with (Q := rev Fs) (P := rev P); try exact R'.
      - intros a. lia.
      - intros a b A B'. lia.
      - apply (sorted_rev_desc key). apply sort_by_sorted.
      - apply (sorted_rev_desc (fun r => r)). apply P_sorted.
      - rewrite map_rev. apply NoDup_rev. apply NoDup_map_key; [apply NoDup_Fs|]. intros a b A B'. apply K_inj; apply in_or_app; right; assumption.
      - intros r Hr. rewrite map_rev in Hr. apply in_rev in Hr. apply in_map_iff in Hr. destruct Hr as [k0 [<- Hk0]].
        apply -> in_rev. apply In_P. exists k0. split; [apply in_or_app; right; exact Hk0|reflexivity]. }
    exact G.
Qed.

End Reorder.

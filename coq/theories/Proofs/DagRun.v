(* The invariant over arbitrary operation sequences (the quantifier of C10), and the rank bijection as a permutation. *)
From Coq Require Import List NArith Bool Lia Permutation.
From PieV Require Import Model.Dag Proofs.DagLib Proofs.DagWF Proofs.DagPath Proofs.DagDfs Proofs.DagAddEdge.
Import ListNotations.
Open Scope N_scope.

Section Run.
Context {ED : Type}.
Implicit Types g : dag ED.

Definition ids g := map fst (infos g).
Definition Fresh g : Prop := forall n, In n (ids g) -> n < fresh g.

Lemma ro_fold_fresh s cs : forall out g, fresh (snd (fold_left (ro_step s) cs (out, g))) = fresh g.
Proof.
  induction cs as [|c tl IH]; intros out g; cbn [fold_left]; [reflexivity|].
  destruct (ro_step s (out, g) c) as [out1 g1] eqn:St. rewrite IH.
  unfold ro_step in St. destruct (get_edata _ s c); inversion St; reflexivity.
Qed.

Lemma step_ids_fresh g (o : gop ED) :
  WF g -> (match o with GAddEdge s d e => fst (add_edge g s d e) <> AFuel | _ => True end) ->
  match o with
  | GAddNode => ids (gstep g o) = ids g ++ [fresh g] /\ fresh (gstep g o) = fresh g + 1
  | _ => incl (ids (gstep g o)) (ids g) /\ fresh (gstep g o) = fresh g
  end.
Proof.
  intros W NF. destruct o as [|n|s d e|s d|s]; cbn [gstep].
  - unfold add_node, add_node_at, ids. cbn. rewrite map_app. cbn. split; [reflexivity|lia].
  - unfold remove_node. destruct (get_info g n); cbn [snd]; [|split; [apply incl_refl|reflexivity]].
    split; [|reflexivity]. unfold ids. cbn [infos]. rewrite map_map. cbn [fst].
    match goal with |- incl (map _ (fold_left ?f1 ?l1 (fold_left ?f2 ?l2 ?l0))) _ =>
      change (map (fun x : node * ninfo => fst x) (fold_left f1 l1 (fold_left f2 l2 l0))) with (map fst (fold_left f1 l1 (fold_left f2 l2 l0))) end.
    rewrite !fold_upd_l_ids, map_fst_filter. intros x X. apply filter_In in X. tauto.
  - destruct (live g s) eqn:Ls; [|rewrite (proj1 (add_edge_early g s d e W (or_introl Ls))); split; [apply incl_refl|reflexivity]].
    destruct (live g d) eqn:Ld; [|rewrite (proj1 (add_edge_early g s d e W (or_intror (or_introl Ld)))); split; [apply incl_refl|reflexivity]].
    destruct (N.eq_dec s d) as [Hsd|Hsd]; [rewrite (proj1 (add_edge_early g s d e W (or_intror (or_intror (or_introl Hsd))))); split; [apply incl_refl|reflexivity]|].
    destruct (in_dec N.eq_dec d (kids_of g s)) as [Hk|Hnk]; [rewrite (proj1 (add_edge_early g s d e W (or_intror (or_intror (or_intror Hk))))); split; [apply incl_refl|reflexivity]|].
    rewrite (add_edge_unfold g s d e W Ls Ld Hsd Hnk) in *. cbn zeta in *.
    destruct (pre_graph_view g s d e Ls Ld Hsd) as [V1 _].
    destruct (N.ltb (rank_of g d) (rank_of g s)); [|cbn [snd]; unfold ids; rewrite V1; split; [apply incl_refl|reflexivity]].
    destruct (dfs_forward _ _ _ _ _ _) as [cf vis| |]; cbn [fst snd] in *.
    + destruct (dfs_backward _ _ _ _ _ _) as [cb vis2| |]; cbn [fst snd] in *; try congruence.
      unfold ids, reorder_nodes. cbn [infos fresh]. rewrite assign_ranks_ids, V1. split; [apply incl_refl|reflexivity].
    + rewrite rollback_exact by assumption. split; [apply incl_refl|reflexivity].
    + congruence.
  - unfold remove_edge. destruct (negb (live g s) || negb (live g d)); [split; [apply incl_refl|reflexivity]|].
    destruct (negb (memN d (kids_of g s))); [split; [apply incl_refl|reflexivity]|]. cbn [snd].
    unfold ids, remove_edata, set_edata. cbn [infos fresh]. rewrite !ids_upd. split; [apply incl_refl|reflexivity].
  - rewrite remove_outgoing_snd. destruct (negb (live g s)); [split; [apply incl_refl|reflexivity]|].
    destruct (kids_of g s) as [|c tl] eqn:K.
    + unfold ids. rewrite ids_upd. split; [apply incl_refl|reflexivity].
    + rewrite <- K. pose proof (ro_fold_view s (kids_of g s) [] (upd_info g s (fun i => mkNinfo (rank i) [] (pars i)))) as V. cbn zeta in V.
      destruct V as [V1 _]. unfold ids. rewrite V1, ids_upd, ro_fold_fresh. split; [apply incl_refl|reflexivity].
Qed.

(* every add_edge of the run answers (no fuel exhaustion) *)
Fixpoint run_ok g (ops : list (gop ED)) : Prop :=
  match ops with
  | [] => True
  | o :: tl => (match o with GAddEdge s d e => fst (add_edge g s d e) <> AFuel | _ => True end) /\ run_ok (gstep g o) tl
  end.

Lemma step_WF g (o : gop ED) :
  WF g -> Fresh g -> (match o with GAddEdge s d e => fst (add_edge g s d e) <> AFuel | _ => True end) ->
  WF (gstep g o) /\ Fresh (gstep g o).
Proof.
  intros W F NF. pose proof (step_ids_fresh g o W NF) as SI. split.
  - destruct o as [|n|s d e|s d|s]; cbn [gstep].
    + apply WF_add_node; [exact W|]. intros n X. apply F. apply live_true_iff. exact X.
    + apply WF_remove_node. exact W.
    + apply add_edge_WF; assumption.
    + apply WF_remove_edge. exact W.
    + apply WF_remove_outgoing. exact W.
  - destruct o as [|n|s d e|s d|s]; cbn [gstep] in *.
    + destruct SI as [A B']. intros n X. rewrite A in X. rewrite B'. apply in_app_or in X. destruct X as [X|[<-|[]]]; [specialize (F n X)|]; lia.
    + destruct SI as [A B']. intros x X. rewrite B'. apply F. apply A. exact X.
    + destruct SI as [A B']. intros x X. rewrite B'. apply F. apply A. exact X.
    + destruct SI as [A B']. intros x X. rewrite B'. apply F. apply A. exact X.
    + destruct SI as [A B']. intros x X. rewrite B'. apply F. apply A. exact X.
Qed.

Theorem run_WF (ops : list (gop ED)) : forall g, WF g -> Fresh g -> run_ok g ops -> WF (fold_left gstep ops g) /\ Fresh (fold_left gstep ops g).
Proof.
  induction ops as [|o tl IH]; intros g W F R; cbn [fold_left]; [split; assumption|].
  destruct R as [R1 R2]. destruct (step_WF g o W F R1) as [W' F']. apply IH; assumption.
Qed.

Theorem grun_WF (ops : list (gop ED)) : run_ok empty ops -> WF (grun ops).
Proof.
  intros R. unfold grun. apply run_WF; [apply WF_empty| |exact R]. intros n [].
Qed.

(* the ranks of a well-formed graph are a bijection onto 1..n *)
Theorem WF_ranks_permutation g :
  WF g -> Permutation (map (rank_of g) (ids g)) (map N.of_nat (seq 1 (length (infos g)))).
Proof.
  intros W. apply NoDup_Permutation_bis.
  - (* injective on live nodes *)
    assert (L : forall x, In x (ids g) -> live g x = true) by (intros x X; apply live_true_iff; exact X).
    pose proof (wf_ids g W) as Hn. fold (ids g) in Hn.
    induction (ids g) as [|x tl IH]; cbn; [constructor|]. inversion Hn; subst. constructor.
    + intros X. apply in_map_iff in X. destruct X as [y [E Y]].
      assert (y = x) by (apply (wf_inj g W); [apply L; right; exact Y|apply L; left; reflexivity|exact E]). subst. tauto.
    + apply IH; [intros y Y; apply L; right; exact Y|assumption].
  - rewrite !map_length, seq_length. unfold ids. rewrite map_length. lia.
  - intros r X. apply in_map_iff in X. destruct X as [x [<- X]].
    assert (L : live g x = true) by (apply live_true_iff; exact X).
    pose proof (wf_range g W x L) as R. rewrite (wf_last g W) in R.
    apply in_map_iff. exists (N.to_nat (rank_of g x)). split; [apply N2Nat.id|]. apply in_seq. lia.
Qed.

End Run.

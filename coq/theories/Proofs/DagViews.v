(* What each mutation does to the edge set, the edge data and the iteration order -- exactly (C11, "removes exactly those
   edges and their data and nothing else"; "iterated in order of first insertion, carrying the data given at that insertion"). *)
From Coq Require Import List NArith Bool Lia Permutation.
From PieV Require Import Model.Dag Proofs.DagLib Proofs.DagWF Proofs.DagPath Proofs.DagDfs Proofs.DagAddEdge.
Import ListNotations.
Open Scope N_scope.

Section Views.
Context {ED : Type}.
Implicit Types g : dag ED.

(* ---- add_edge ---- *)
Theorem add_edge_view g s d e :
  WF g ->
  match fst (add_edge g s d e) with
  | AOk true =>
      (* a new edge: appended at the END of both adjacency orders, with the given data; nothing else changes *)
      let g' := snd (add_edge g s d e) in
      ~ In d (kids_of g s) /\
      (forall m, live g' m = live g m) /\
      (forall m, kids_of g' m = if N.eqb m s then kids_of g s ++ [d] else kids_of g m) /\
      (forall m, pars_of g' m = if N.eqb m d then pars_of g d ++ [s] else pars_of g m) /\
      (forall u v, get_edata g' u v = if pair_eqb (s, d) (u, v) then Some e else get_edata g u v)
  | AOk false => snd (add_edge g s d e) = g /\ In d (kids_of g s)          (* existing edge: position and data kept *)
  | AErr _ => snd (add_edge g s d e) = g
  | AFuel => True
  end.
Proof.
  intros W.
  destruct (live g s) eqn:Ls.
  2:{ pose proof (add_edge_early g s d e W (or_introl Ls)) as [A _]. unfold add_edge in *. rewrite Ls in *. cbn in *. exact A. }
  destruct (live g d) eqn:Ld.
  2:{ pose proof (add_edge_early g s d e W (or_intror (or_introl Ld))) as [A _]. unfold add_edge in *. rewrite Ls, Ld in *. cbn in *. exact A. }
  destruct (N.eq_dec s d) as [Hsd|Hsd].
  { pose proof (add_edge_early g s d e W (or_intror (or_intror (or_introl Hsd)))) as [A _]. unfold add_edge in *. rewrite Ls, Ld in *. cbn [negb orb] in *.
    destruct (N.eqb_spec s d); [exact A|congruence]. }
  destruct (in_dec N.eq_dec d (kids_of g s)) as [Hk|Hnk].
  { unfold add_edge. rewrite Ls, Ld. cbn [negb orb]. destruct (N.eqb_spec s d); [congruence|].
    assert (M : memN d (kids_of g s) = true) by (apply memN_In; exact Hk). rewrite M. cbn. split; [reflexivity|exact Hk]. }
  rewrite (add_edge_unfold g s d e W Ls Ld Hsd Hnk). cbn zeta.
  destruct (pre_graph_view g s d e Ls Ld Hsd) as [V1 [V2 [V3 [V4 [V5 [V6 [V7 V8]]]]]]].
  destruct (N.ltb (rank_of g d) (rank_of g s)).
  - destruct (dfs_forward _ _ _ _ _ _) as [cf vis| |]; cbn [fst snd]; [|apply rollback_exact; assumption|exact I].
    destruct (dfs_backward _ _ _ _ _ _) as [cb vis2| |]; cbn [fst snd]; try exact I.
    (* reorder_nodes only changes ranks *)
    set (g3 := pre_graph g s d e) in *.
    assert (GI : forall m, exists r, get_info (reorder_nodes g3 cf cb) m = option_map (fun i => mkNinfo (r i) (kids i) (pars i)) (get_info g3 m)).
    { intros m. unfold reorder_nodes, get_info. cbn [infos].
      match goal with |- context [assign_ranks ?l ?ks ?rs] => generalize ks, rs end.
      intros ks. generalize (infos g3). induction ks as [|k tl IH]; intros l rs; cbn [assign_ranks].
      - exists rank. destruct (get_info_l l m) as [[]|]; reflexivity.
      - destruct rs as [|r rs']; [exists rank; destruct (get_info_l l m) as [[]|]; reflexivity|].
        destruct (IH (upd_info_l l k (fun i => mkNinfo r (kids i) (pars i))) rs') as [r0 H0]. rewrite H0, get_info_upd_l.
        destruct (N.eqb m k).
        + exists (fun i => r0 (mkNinfo r (kids i) (pars i))). destruct (get_info_l l m); reflexivity.
        + exists r0. reflexivity. }
    split; [exact Hnk|]. repeat split.
    + intros m. rewrite <- V4. unfold live. destruct (GI m) as [r H]. rewrite H. destruct (get_info g3 m); reflexivity.
    + intros m. rewrite <- V6. unfold kids_of. destruct (GI m) as [r H]. rewrite H. destruct (get_info g3 m); reflexivity.
    + intros m. rewrite <- V7. unfold pars_of. destruct (GI m) as [r H]. rewrite H. destruct (get_info g3 m); reflexivity.
    + intros u v. rewrite <- V8. reflexivity.
  - cbn [fst snd]. split; [exact Hnk|]. repeat split; assumption.
Qed.

(* ---- remove_edge ---- *)
Theorem remove_edge_view g s d :
  WF g ->
  let g' := snd (remove_edge g s d) in
  match fst (remove_edge g s d) with
  | None => g' = g /\ (live g s = false \/ live g d = false \/ ~ In d (kids_of g s))
  | Some e =>
      get_edata g s d = Some e /\ In d (kids_of g s) /\
      (forall m, live g' m = live g m) /\ (forall m, rank_of g' m = rank_of g m) /\
      (forall m, kids_of g' m = if N.eqb m s then removeN d (kids_of g m) else kids_of g m) /\
      (forall m, pars_of g' m = if N.eqb m d then removeN s (pars_of g m) else pars_of g m) /\
      (forall u v, get_edata g' u v = if pair_eqb (s, d) (u, v) then None else get_edata g u v)
  end.
Proof.
  intros W. cbn zeta. unfold remove_edge.
  destruct (live g s) eqn:Ls; cbn [negb orb]; [|split; [reflexivity|left; reflexivity]].
  destruct (live g d) eqn:Ld; cbn [negb orb]; [|split; [reflexivity|right; left; reflexivity]].
  destruct (memN d (kids_of g s)) eqn:M; cbn [negb]; [|split; [reflexivity|right; right; apply memN_false; exact M]].
  apply memN_In in M. cbn [fst snd].
  assert (Hsd : s <> d) by (intros ->; eapply wf_noloop; eassumption).
  set (g1 := upd_info g s (fun i => mkNinfo (rank i) (removeN d (kids i)) (pars i))).
  set (g2 := upd_info g1 d (fun i => mkNinfo (rank i) (kids i) (removeN s (pars i)))).
  assert (GI : forall m, get_info g2 m =
     if N.eqb m d then option_map (fun i => mkNinfo (rank i) (kids i) (removeN s (pars i))) (get_info g m)
     else if N.eqb m s then option_map (fun i => mkNinfo (rank i) (removeN d (kids i)) (pars i)) (get_info g m) else get_info g m).
  { intros m. unfold g2. rewrite get_info_upd. unfold g1. rewrite get_info_upd.
    destruct (N.eqb_spec m d) as [->|]; [|reflexivity]. destruct (N.eqb_spec d s); [congruence|reflexivity]. }
  assert (E : exists e, get_edata g2 s d = Some e).
  { change (get_edata g2 s d) with (get_edata g s d). destruct (get_edata g s d) eqn:X; [eexists; reflexivity|].
    exfalso. apply (wf_edata g W) in M. congruence. }
  destruct E as [e He]. rewrite He. change (get_edata g2 s d) with (get_edata g s d) in He.
  split; [exact He|]. split; [exact M|]. repeat split.
  - intros m. unfold live. change (get_info (remove_edata g2 s d) m) with (get_info g2 m). rewrite GI.
    destruct (N.eqb m d); [destruct (get_info g m); reflexivity|]. destruct (N.eqb m s); destruct (get_info g m); reflexivity.
  - intros m. unfold rank_of. change (get_info (remove_edata g2 s d) m) with (get_info g2 m). rewrite GI.
    destruct (N.eqb m d); [destruct (get_info g m); reflexivity|]. destruct (N.eqb m s); destruct (get_info g m); reflexivity.
  - intros m. unfold kids_of. change (get_info (remove_edata g2 s d) m) with (get_info g2 m). rewrite GI.
    destruct (N.eqb_spec m d) as [->|]; [destruct (N.eqb_spec d s); [congruence|]; destruct (get_info g d); reflexivity|].
    destruct (N.eqb m s); destruct (get_info g m); reflexivity.
  - intros m. unfold pars_of. change (get_info (remove_edata g2 s d) m) with (get_info g2 m). rewrite GI.
    destruct (N.eqb_spec m d) as [->|]; [destruct (get_info g d); reflexivity|].
    destruct (N.eqb m s); destruct (get_info g m); reflexivity.
  - intros u v. rewrite get_edata_remove. reflexivity.
Qed.

(* ---- remove_outgoing_edges_of_node ---- *)
Theorem remove_outgoing_view g s :
  WF g -> live g s = true ->
  let g' := snd (remove_outgoing g s) in
  map fst (infos g') = map fst (infos g) /\ last g' = last g /\
  (forall m, live g' m = live g m) /\ (forall m, rank_of g' m = rank_of g m) /\
  (forall m, kids_of g' m = if N.eqb m s then [] else kids_of g m) /\
  (forall m, pars_of g' m = removeN s (pars_of g m)) /\
  (forall u v, get_edata g' u v = if N.eqb u s then None else get_edata g u v).
Proof.
  intros W L. cbn zeta. rewrite remove_outgoing_snd. rewrite L. cbn [negb].
  set (g1 := upd_info g s (fun i => mkNinfo (rank i) [] (pars i))).
  assert (B3 : forall m, live g1 m = live g m) by (intros; apply live_upd).
  assert (B4 : forall m, rank_of g1 m = rank_of g m).
  { intros m. unfold g1. rewrite rank_of_upd. destruct (N.eqb m s); [|reflexivity]. unfold rank_of. destruct (get_info g m); reflexivity. }
  assert (B5 : forall m, kids_of g1 m = if N.eqb m s then [] else kids_of g m).
  { intros m. unfold g1. rewrite kids_of_upd. destruct (N.eqb m s) eqn:X; [|reflexivity].
    apply N.eqb_eq in X. subst. unfold live in L. destruct (get_info g s); [reflexivity|discriminate]. }
  assert (B6 : forall m, pars_of g1 m = pars_of g m).
  { intros m. unfold g1. rewrite pars_of_upd. destruct (N.eqb m s); [|reflexivity]. unfold pars_of. destruct (get_info g m); reflexivity. }
  destruct W as [Wi Wk Wp Ws Wc We Wj Wr Wl Wt].
  destruct (kids_of g s) as [|c tl] eqn:K.
  - repeat split; try (unfold g1; rewrite ?ids_upd; reflexivity); try assumption.
    + intros m. rewrite B6. symmetry. apply removeN_notin. intros X. apply Ws in X. rewrite K in X. exact X.
    + intros u v. change (get_edata g1 u v) with (get_edata g u v).
      destruct (N.eqb_spec u s) as [->|]; [|reflexivity].
      destruct (get_edata g s v) eqn:X; [|reflexivity].
      assert (Y : get_edata g s v <> None) by congruence. apply We in Y. rewrite K in Y. destruct Y.
  - rewrite <- K.
    pose proof (ro_fold_view s (kids_of g s) [] g1) as F. cbn zeta in F.
    destruct F as [F1 [F2 [F3 [F4 [F5 [F6 F7]]]]]].
    repeat split.
    + rewrite F1. unfold g1. apply ids_upd.
    + rewrite F2. reflexivity.
    + intros m. rewrite F3. apply B3.
    + intros m. rewrite F4. apply B4.
    + intros m. rewrite F5. apply B5.
    + intros m. rewrite F6, B6. destruct (memN m (kids_of g s)) eqn:X; [reflexivity|].
      symmetry. apply removeN_notin. intros Y. apply Ws in Y. apply memN_false in X. tauto.
    + intros u v. rewrite F7. change (get_edata g1 u v) with (get_edata g u v).
      destruct (N.eqb_spec u s) as [->|]; cbn; [|reflexivity].
      destruct (memN v (kids_of g s)) eqn:X; [reflexivity|].
      destruct (get_edata g s v) eqn:Y; [|reflexivity].
      assert (Z : get_edata g s v <> None) by congruence. apply We in Z. apply memN_false in X. tauto.
Qed.

(* ---- remove_node ---- *)
Theorem remove_node_view g n :
  WF g -> live g n = true ->
  let g' := snd (remove_node g n) in
  fst (remove_node g n) = true /\
  (forall m, live g' m = if N.eqb m n then false else live g m) /\
  (forall m, kids_of g' m = if N.eqb m n then [] else removeN n (kids_of g m)) /\
  (forall m, pars_of g' m = if N.eqb m n then [] else removeN n (pars_of g m)) /\
  (forall m, m <> n -> rank_of g' m = if N.ltb (rank_of g n) (rank_of g m) then rank_of g m - 1 else rank_of g m) /\
  (forall u v, get_edata g' u v = if N.eqb u n || N.eqb v n then None else get_edata g u v).
Proof.
  intros W Ln. cbn zeta. unfold remove_node. unfold live in Ln. destruct (get_info g n) as [ni|] eqn:Gn; [|discriminate]. cbn [fst snd].
  split; [reflexivity|].
  assert (Kn : kids_of g n = kids ni) by (unfold kids_of; rewrite Gn; reflexivity).
  assert (Pn : pars_of g n = pars ni) by (unfold pars_of; rewrite Gn; reflexivity).
  assert (Rn : rank_of g n = rank ni) by (unfold rank_of; rewrite Gn; reflexivity).
  set (infos1 := filter (fun p => negb (N.eqb (fst p) n)) (infos g)).
  set (f1 := fun i => mkNinfo (rank i) (kids i) (removeN n (pars i))).
  set (infos2 := fold_left (fun l c => upd_info_l l c f1) (kids ni) infos1).
  set (f2 := fun i => mkNinfo (rank i) (removeN n (kids i)) (pars i)).
  set (infos3 := fold_left (fun l p => upd_info_l l p f2) (pars ni) infos2).
  set (h := fun i => if N.ltb (rank ni) (rank i) then mkNinfo (rank i - 1) (kids i) (pars i) else i).
  set (ed2 := fold_left (fun l c => remove_edata_l l (n, c)) (kids ni) (edata g)).
  set (ed3 := fold_left (fun l p => remove_edata_l l (p, n)) (pars ni) ed2).
  match goal with |- context [live ?G _] => set (g' := G) end.
  destruct W as [Wi Wk Wp Ws Wc We Wj Wr Wl Wt].
  assert (Hid1 : forall i, f1 (f1 i) = f1 i) by (intros i; unfold f1; cbn [rank kids pars]; rewrite removeN_idem; reflexivity).
  assert (Hid2 : forall i, f2 (f2 i) = f2 i) by (intros i; unfold f2; cbn [rank kids pars]; rewrite removeN_idem; reflexivity).
  assert (GI : forall m, get_info g' m =
     if N.eqb m n then None else
     option_map (fun i => h (mkNinfo (rank i) (removeN n (kids i)) (removeN n (pars i)))) (get_info g m)).
  { intros m. unfold g', get_info. cbn [infos].
    change (map (fun p => (fst p, if N.ltb (rank ni) (rank (snd p)) then mkNinfo (rank (snd p) - 1) (kids (snd p)) (pars (snd p)) else snd p)) infos3)
      with (map (fun p => (fst p, h (snd p))) infos3).
    rewrite get_info_l_map. unfold infos3. rewrite fold_upd_l_get by exact Hid2.
    unfold infos2. rewrite fold_upd_l_get by exact Hid1. unfold infos1. rewrite get_info_l_filter.
    destruct (N.eqb_spec m n) as [->|Hmn].
    - destruct (memN n (pars ni)); destruct (memN n (kids ni)); reflexivity.
    - fold (get_info g m). destruct (get_info g m) as [i|] eqn:Gm; [|destruct (memN m (pars ni)); destruct (memN m (kids ni)); reflexivity].
      assert (Km : kids_of g m = kids i) by (unfold kids_of; rewrite Gm; reflexivity).
      assert (Pm : pars_of g m = pars i) by (unfold pars_of; rewrite Gm; reflexivity).
      assert (A : memN m (pars ni) = false -> removeN n (kids i) = kids i).
      { intros X. apply removeN_notin. rewrite <- Km. intros Y. apply Ws in Y. rewrite Pn in Y. apply memN_false in X. tauto. }
      assert (B : memN m (kids ni) = false -> removeN n (pars i) = pars i).
      { intros X. apply removeN_notin. rewrite <- Pm. intros Y. apply Ws in Y. rewrite Kn in Y. apply memN_false in X. tauto. }
      destruct (memN m (pars ni)) eqn:X1; destruct (memN m (kids ni)) eqn:X2; cbn [option_map]; unfold f1, f2; cbn [rank kids pars];
      try rewrite (A eq_refl); try rewrite (B eq_refl); try reflexivity; destruct i; reflexivity. }
  repeat split.
  - intros m. unfold live. rewrite GI. destruct (N.eqb m n); [reflexivity|]. destruct (get_info g m); reflexivity.
  - intros m. unfold kids_of. rewrite GI. destruct (N.eqb m n); [reflexivity|]. destruct (get_info g m) as [i|]; cbn; [|reflexivity].
    unfold h. cbn. destruct (N.ltb (rank ni) (rank i)); reflexivity.
  - intros m. unfold pars_of. rewrite GI. destruct (N.eqb m n); [reflexivity|]. destruct (get_info g m) as [i|]; cbn; [|reflexivity].
    unfold h. cbn. destruct (N.ltb (rank ni) (rank i)); reflexivity.
  - intros m Hmn. rewrite Rn. unfold rank_of. rewrite GI. destruct (N.eqb_spec m n); [congruence|].
    destruct (get_info g m) as [i|]; cbn; [|destruct (N.ltb (rank ni) 0); reflexivity].
    unfold h. cbn. destruct (N.ltb (rank ni) (rank i)); reflexivity.
  - intros u v. unfold g', get_edata. cbn [edata]. unfold ed3. rewrite fold_remove_pars. unfold ed2. rewrite fold_remove_kids.
    fold (get_edata g u v).
    destruct (N.eqb_spec v n) as [->|Hvn]; cbn.
    + rewrite orb_true_r. destruct (memN u (pars ni)) eqn:X; [reflexivity|].
      destruct (N.eqb u n && memN n (kids ni)); [reflexivity|].
      destruct (get_edata g u n) eqn:Y; [|reflexivity].
      assert (Z : get_edata g u n <> None) by congruence. apply We in Z. apply Ws in Z. rewrite Pn in Z. apply memN_false in X. tauto.
    + rewrite orb_false_r. destruct (N.eqb_spec u n) as [->|Hun]; cbn; [|reflexivity].
      destruct (memN v (kids ni)) eqn:X; [reflexivity|].
      destruct (get_edata g n v) eqn:Y; [|reflexivity].
      assert (Z : get_edata g n v <> None) by congruence. apply We in Z. rewrite Kn in Z. apply memN_false in X. tauto.
Qed.

End Views.

(* The DAG invariant WF and its preservation by add_node, remove_edge, remove_outgoing_edges_of_node and remove_node.
   (add_edge: DagAddEdge.v) *)
From Coq Require Import List NArith Bool Lia Permutation.
From PieV Require Import Model.Dag Proofs.DagLib.
Import ListNotations.
Open Scope N_scope.

Section WF.
Context {ED : Type}.
Implicit Types g : dag ED.

Record WF g : Prop := mkWF {
  wf_ids : NoDup (map fst (infos g));
  wf_kn : forall u, NoDup (kids_of g u);
  wf_pn : forall v, NoDup (pars_of g v);
  wf_sym : forall u v, In v (kids_of g u) <-> In u (pars_of g v);
  wf_closed : forall u v, In v (kids_of g u) -> live g u = true /\ live g v = true;
  wf_edata : forall u v, get_edata g u v <> None <-> In v (kids_of g u);
  wf_inj : forall u v, live g u = true -> live g v = true -> rank_of g u = rank_of g v -> u = v;
  wf_range : forall u, live g u = true -> 1 <= rank_of g u <= last g;
  wf_last : last g = N.of_nat (length (infos g));
  wf_topo : forall u v, In v (kids_of g u) -> rank_of g u < rank_of g v
}.

Lemma WF_empty : WF (@empty ED).
Proof.
  constructor; cbn; try (intros; constructor); try (intros; tauto); try discriminate;
  try (intros u v; split; [intros X; exfalso; apply X; reflexivity|intros []]).
Qed.

Lemma wf_noloop g u : WF g -> ~ In u (kids_of g u).
Proof. intros W X. apply (wf_topo g W) in X. lia. Qed.

(* ---------------- add_node_at ---------------- *)
Lemma get_info_add_node g id m :
  live g id = false ->
  get_info (add_node_at g id) m = if N.eqb m id then Some (mkNinfo (last g + 1) [] []) else get_info g m.
Proof.
  intros Hd. unfold get_info, add_node_at. cbn [infos]. rewrite get_info_l_app. cbn.
  destruct (N.eqb m id) eqn:X.
  - apply N.eqb_eq in X. subst m. unfold live, get_info in Hd.
    destruct (get_info_l (infos g) id); [discriminate|]. rewrite N.eqb_refl. reflexivity.
  - destruct (get_info_l (infos g) m); [reflexivity|]. rewrite N.eqb_sym, X. reflexivity.
Qed.

Lemma WF_add_node_at g id : WF g -> live g id = false -> WF (add_node_at g id).
Proof.
  intros W Hd.
  assert (GI := fun m => get_info_add_node g id m Hd).
  assert (LV : forall m, live (add_node_at g id) m = if N.eqb m id then true else live g m).
  { intros m. unfold live. rewrite GI. destruct (N.eqb m id); reflexivity. }
  assert (RK : forall m, rank_of (add_node_at g id) m = if N.eqb m id then last g + 1 else rank_of g m).
  { intros m. unfold rank_of. rewrite GI. destruct (N.eqb m id); reflexivity. }
  assert (KD : forall m, kids_of (add_node_at g id) m = kids_of g m).
  { intros m. unfold kids_of. rewrite GI. destruct (N.eqb m id) eqn:X; [|reflexivity].
    apply N.eqb_eq in X. subst. unfold live in Hd. destruct (get_info g id); [discriminate|reflexivity]. }
  assert (PR : forall m, pars_of (add_node_at g id) m = pars_of g m).
  { intros m. unfold pars_of. rewrite GI. destruct (N.eqb m id) eqn:X; [|reflexivity].
    apply N.eqb_eq in X. subst. unfold live in Hd. destruct (get_info g id); [discriminate|reflexivity]. }
  destruct W as [Wi Wk Wp Ws Wc We Wj Wr Wl Wt].
  constructor.
  - unfold add_node_at. cbn [infos]. rewrite map_app. cbn. apply NoDup_app_single; [exact Wi|].
    intros X. apply live_true_iff in X. congruence.
  - intros u. rewrite KD. apply Wk.
  - intros v. rewrite PR. apply Wp.
  - intros u v. rewrite KD, PR. apply Ws.
  - intros u v. rewrite KD, !LV. intros X. destruct (Wc u v X) as [A B]. rewrite A, B.
    destruct (N.eqb u id), (N.eqb v id); split; reflexivity.
  - intros u v. rewrite KD. apply We.
  - intros u v. rewrite !LV, !RK. destruct (N.eqb u id) eqn:X; destruct (N.eqb v id) eqn:Y; intros A B C.
    + apply N.eqb_eq in X, Y. congruence.
    + specialize (Wr v B). lia.
    + specialize (Wr u A). lia.
    + apply Wj; assumption.
  - intros u. rewrite LV, RK. unfold add_node_at. cbn [last]. destruct (N.eqb u id); intros A; [lia|].
    specialize (Wr u A). lia.
  - unfold add_node_at. cbn [last infos]. rewrite app_length. cbn. rewrite Wl. lia.
  - intros u v. rewrite KD, !RK. intros X. destruct (Wc u v X) as [A B].
    assert (u <> id) by (intros ->; congruence). assert (v <> id) by (intros ->; congruence).
    destruct (N.eqb u id) eqn:X1; [apply N.eqb_eq in X1; congruence|].
    destruct (N.eqb v id) eqn:X2; [apply N.eqb_eq in X2; congruence|]. apply Wt. exact X.
Qed.

Lemma WF_add_node g : WF g -> (forall n, live g n = true -> n < fresh g) -> WF (snd (add_node g)).
Proof.
  intros W F. apply WF_add_node_at; [exact W|].
  destruct (live g (fresh g)) eqn:X; [|reflexivity]. specialize (F _ X). lia.
Qed.

(* ---------------- remove_edge ---------------- *)
Lemma WF_remove_edge g s d : WF g -> WF (snd (remove_edge g s d)).
Proof.
  intros W. unfold remove_edge.
  destruct (negb (live g s) || negb (live g d)) eqn:L; [exact W|].
  destruct (negb (memN d (kids_of g s))) eqn:M; [exact W|].
  apply orb_false_iff in L. destruct L as [Ls Ld]. apply negb_false_iff in Ls, Ld.
  apply negb_false_iff in M. apply memN_In in M.
  cbn [snd].
  set (g1 := upd_info g s (fun i => mkNinfo (rank i) (removeN d (kids i)) (pars i))).
  set (g2 := upd_info g1 d (fun i => mkNinfo (rank i) (kids i) (removeN s (pars i)))).
  assert (Hsd : s <> d) by (intros ->; eapply wf_noloop; eassumption).
  assert (KD : forall m, kids_of (remove_edata g2 s d) m = if N.eqb m s then removeN d (kids_of g m) else kids_of g m).
  { intros m. unfold remove_edata, set_edata, kids_of, get_info. cbn [infos]. fold (get_info g2 m). unfold g2.
    rewrite get_info_upd. unfold g1. rewrite get_info_upd.
    destruct (N.eqb m d) eqn:X; destruct (N.eqb m s) eqn:Y;
    try (apply N.eqb_eq in X; apply N.eqb_eq in Y; congruence);
    fold (get_info g m); destruct (get_info g m); reflexivity. }
  assert (PR : forall m, pars_of (remove_edata g2 s d) m = if N.eqb m d then removeN s (pars_of g m) else pars_of g m).
  { intros m. unfold remove_edata, set_edata, pars_of, get_info. cbn [infos]. fold (get_info g2 m). unfold g2.
    rewrite get_info_upd. unfold g1. rewrite get_info_upd.
    destruct (N.eqb m d) eqn:X; destruct (N.eqb m s) eqn:Y;
    try (apply N.eqb_eq in X; apply N.eqb_eq in Y; congruence);
    fold (get_info g m); destruct (get_info g m); reflexivity. }
  assert (LV : forall m, live (remove_edata g2 s d) m = live g m).
  { intros m. unfold live, remove_edata, set_edata, get_info. cbn [infos]. fold (get_info g2 m). unfold g2.
    rewrite get_info_upd. unfold g1. rewrite get_info_upd.
    destruct (N.eqb m d); destruct (N.eqb m s); fold (get_info g m); destruct (get_info g m); reflexivity. }
  assert (RK : forall m, rank_of (remove_edata g2 s d) m = rank_of g m).
  { intros m. unfold rank_of, remove_edata, set_edata, get_info. cbn [infos]. fold (get_info g2 m). unfold g2.
    rewrite get_info_upd. unfold g1. rewrite get_info_upd.
    destruct (N.eqb m d); destruct (N.eqb m s); fold (get_info g m); destruct (get_info g m); reflexivity. }
  assert (EDT : forall u v, get_edata (remove_edata g2 s d) u v = if pair_eqb (s, d) (u, v) then None else get_edata g u v).
  { intros u v. rewrite get_edata_remove. reflexivity. }
  destruct W as [Wi Wk Wp Ws Wc We Wj Wr Wl Wt].
  constructor.
  - unfold remove_edata, set_edata. cbn [infos]. unfold g2. rewrite ids_upd. unfold g1. rewrite ids_upd. exact Wi.
  - intros u. rewrite KD. destruct (N.eqb u s); [apply NoDup_removeN|]; apply Wk.
  - intros v. rewrite PR. destruct (N.eqb v d); [apply NoDup_removeN|]; apply Wp.
  - intros u v. rewrite KD, PR.
    destruct (N.eqb_spec u s) as [->|Hus]; destruct (N.eqb_spec v d) as [->|Hvd]; rewrite ?In_removeN.
    + split; intros [_ X]; exfalso; apply X; reflexivity.
    + rewrite Ws. tauto.
    + rewrite Ws. tauto.
    + apply Ws.
  - intros u v. rewrite KD, !LV. intros X. apply Wc. destruct (N.eqb u s); [apply In_removeN in X; tauto|exact X].
  - intros u v. rewrite EDT, KD.
    destruct (pair_eqb (s, d) (u, v)) eqn:X.
    + apply pair_eqb_eq in X. inversion X; subst. rewrite N.eqb_refl, In_removeN. split; [congruence|tauto].
    + apply pair_eqb_neq in X. rewrite We. destruct (N.eqb u s) eqn:Y; [|tauto].
      apply N.eqb_eq in Y. subst. rewrite In_removeN. split; [|tauto]. intros Z. split; [exact Z|]. intros ->. apply X. reflexivity.
  - intros u v. rewrite !LV, !RK. apply Wj.
  - intros u. rewrite LV, RK. apply Wr.
  - unfold remove_edata, set_edata. cbn [last infos]. unfold g2. rewrite length_infos_upd. unfold g1. rewrite length_infos_upd. exact Wl.
  - intros u v. rewrite KD, !RK. intros X. apply Wt. destruct (N.eqb u s); [apply In_removeN in X; tauto|exact X].
Qed.

(* ---------------- remove_outgoing_edges_of_node ---------------- *)
Lemma removeN_idem x l : removeN x (removeN x l) = removeN x l.
Proof. apply removeN_notin. intros X. apply In_removeN in X. tauto. Qed.

Definition ro_step (s : node) (acc : list (node * ED) * dag ED) (c : node) : list (node * ED) * dag ED :=
  let '(out, gg) := acc in
  let gg1 := upd_info gg c (fun i => mkNinfo (rank i) (kids i) (removeN s (pars i))) in
  match get_edata gg1 s c with
  | Some e => (out ++ [(c, e)], remove_edata gg1 s c)
  | None => (out, gg1)
  end.

Lemma ro_step_view s out gg c :
  let gg' := snd (ro_step s (out, gg) c) in
  map fst (infos gg') = map fst (infos gg) /\ last gg' = last gg /\
  (forall m, live gg' m = live gg m) /\ (forall m, rank_of gg' m = rank_of gg m) /\ (forall m, kids_of gg' m = kids_of gg m) /\
  (forall m, pars_of gg' m = if N.eqb m c then removeN s (pars_of gg m) else pars_of gg m) /\
  (forall u v, get_edata gg' u v = if pair_eqb (s, c) (u, v) then None else get_edata gg u v).
Proof.
  cbn zeta. unfold ro_step.
  set (gg1 := upd_info gg c (fun i => mkNinfo (rank i) (kids i) (removeN s (pars i)))).
  assert (A1 : map fst (infos gg1) = map fst (infos gg)) by apply ids_upd.
  assert (A3 : forall m, live gg1 m = live gg m) by (intros; apply live_upd).
  assert (A4 : forall m, rank_of gg1 m = rank_of gg m).
  { intros m. unfold gg1. rewrite rank_of_upd. destruct (N.eqb m c); [|reflexivity]. unfold rank_of. destruct (get_info gg m); reflexivity. }
  assert (A5 : forall m, kids_of gg1 m = kids_of gg m).
  { intros m. unfold gg1. rewrite kids_of_upd. destruct (N.eqb m c); [|reflexivity]. unfold kids_of. destruct (get_info gg m); reflexivity. }
  assert (A6 : forall m, pars_of gg1 m = if N.eqb m c then removeN s (pars_of gg m) else pars_of gg m).
  { intros m. unfold gg1. rewrite pars_of_upd. destruct (N.eqb m c); [|reflexivity]. unfold pars_of. destruct (get_info gg m); reflexivity. }
  destruct (get_edata gg1 s c) as [e|] eqn:X; cbn [snd].
  - repeat split; try assumption; try reflexivity.
    intros u v. rewrite get_edata_remove. reflexivity.
  - repeat split; try assumption; try reflexivity.
    intros u v. destruct (pair_eqb (s, c) (u, v)) eqn:Y; [|reflexivity].
    apply pair_eqb_eq in Y. inversion Y; subst. exact X.
Qed.

Lemma ro_fold_view s cs : forall out gg,
  let gg' := snd (fold_left (ro_step s) cs (out, gg)) in
  map fst (infos gg') = map fst (infos gg) /\ last gg' = last gg /\
  (forall m, live gg' m = live gg m) /\ (forall m, rank_of gg' m = rank_of gg m) /\ (forall m, kids_of gg' m = kids_of gg m) /\
  (forall m, pars_of gg' m = if memN m cs then removeN s (pars_of gg m) else pars_of gg m) /\
  (forall u v, get_edata gg' u v = if N.eqb u s && memN v cs then None else get_edata gg u v).
Proof.
  induction cs as [|c tl IH]; intros out gg; cbn zeta.
  - cbn. repeat split; try reflexivity. intros u v. rewrite andb_false_r. reflexivity.
  - cbn [fold_left]. destruct (ro_step s (out, gg) c) as [out1 gg1] eqn:St.
    pose proof (ro_step_view s out gg c) as V. rewrite St in V. cbn [snd] in V.
    destruct V as [V1 [V2 [V3 [V4 [V5 [V6 V7]]]]]].
    specialize (IH out1 gg1). cbn zeta in IH. destruct IH as [I1 [I2 [I3 [I4 [I5 [I6 I7]]]]]].
    repeat split.
    + congruence.
    + congruence.
    + intros m. rewrite I3. apply V3.
    + intros m. rewrite I4. apply V4.
    + intros m. rewrite I5. apply V5.
    + intros m. rewrite I6, V6. cbn [memN existsb]. fold (memN m tl). rewrite (N.eqb_sym m c).
      destruct (N.eqb c m) eqn:X; destruct (memN m tl); cbn; try reflexivity. apply removeN_idem.
    + intros u v. rewrite I7, V7. cbn [memN existsb]. fold (memN v tl).
      destruct (N.eqb_spec u s) as [->|Hus]; cbn.
      * destruct (memN v tl); [rewrite orb_true_r; reflexivity|]. rewrite orb_false_r.
        unfold pair_eqb. cbn. rewrite N.eqb_refl. cbn. rewrite (N.eqb_sym c v). destruct (N.eqb v c); reflexivity.
      * unfold pair_eqb. cbn. destruct (N.eqb_spec s u) as [->|]; [congruence|]. reflexivity.
Qed.

Lemma remove_outgoing_snd g s :
  snd (remove_outgoing g s) =
  if negb (live g s) then g
  else match kids_of g s with
       | [] => upd_info g s (fun i => mkNinfo (rank i) [] (pars i))
       | _ => snd (fold_left (ro_step s) (kids_of g s) ([], upd_info g s (fun i => mkNinfo (rank i) [] (pars i))))
       end.
Proof.
  unfold remove_outgoing. destruct (negb (live g s)); [reflexivity|].
  destruct (kids_of g s) as [|c tl] eqn:K; [reflexivity|].
  match goal with |- snd (let '(out, g2) := fold_left ?f ?l ?a in _) = snd (fold_left ?f' ?l ?a) =>
    change f with f'; destruct (fold_left f' l a) end. reflexivity.
Qed.

Lemma WF_remove_outgoing g s : WF g -> WF (snd (remove_outgoing g s)).
Proof.
  intros W. rewrite remove_outgoing_snd. destruct (negb (live g s)) eqn:L; [exact W|].
  apply negb_false_iff in L.
  set (g1 := upd_info g s (fun i => mkNinfo (rank i) [] (pars i))).
  assert (B3 : forall m, live g1 m = live g m) by (intros; apply live_upd).
  assert (B4 : forall m, rank_of g1 m = rank_of g m).
  { intros m. unfold g1. rewrite rank_of_upd. destruct (N.eqb m s); [|reflexivity]. unfold rank_of. destruct (get_info g m); reflexivity. }
  assert (B5 : forall m, kids_of g1 m = if N.eqb m s then [] else kids_of g m).
  { intros m. unfold g1. rewrite kids_of_upd. destruct (N.eqb m s) eqn:X; [|reflexivity].
    apply N.eqb_eq in X. subst. unfold live in L. destruct (get_info g s); [reflexivity|discriminate]. }
  assert (B6 : forall m, pars_of g1 m = pars_of g m).
  { intros m. unfold g1. rewrite pars_of_upd. destruct (N.eqb m s); [|reflexivity]. unfold pars_of. destruct (get_info g m); reflexivity. }
  (* a uniform view of the result *)
  assert (V : exists g', snd (remove_outgoing g s) = g' /\
    map fst (infos g') = map fst (infos g) /\ last g' = last g /\
    (forall m, live g' m = live g m) /\ (forall m, rank_of g' m = rank_of g m) /\
    (forall m, kids_of g' m = if N.eqb m s then [] else kids_of g m) /\
    (forall m, pars_of g' m = removeN s (pars_of g m)) /\
    (forall u v, get_edata g' u v = if N.eqb u s then None else get_edata g u v)).
  { destruct W as [Wi Wk Wp Ws Wc We Wj Wr Wl Wt].
    eexists. split; [reflexivity|]. rewrite remove_outgoing_snd. rewrite L. cbn [negb].
    destruct (kids_of g s) as [|c tl] eqn:K.
    - fold g1. repeat split; try (unfold g1; rewrite ?ids_upd; reflexivity); try assumption.
      + intros m. rewrite B6. symmetry. apply removeN_notin. intros X. apply Ws in X. rewrite K in X. exact X.
      + intros u v. change (get_edata g1 u v) with (get_edata g u v).
        destruct (N.eqb_spec u s) as [->|]; [|reflexivity].
        destruct (get_edata g s v) eqn:X; [|reflexivity].
        assert (Y : get_edata g s v <> None) by congruence. apply We in Y. rewrite K in Y. destruct Y.
    - fold g1. rewrite <- K.
      pose proof (ro_fold_view s (kids_of g s) [] g1) as F. cbn zeta in F.
      destruct F as [F1 [F2 [F3 [F4 [F5 [F6 F7]]]]]].
      repeat split.
      + rewrite F1. unfold g1. apply ids_upd.
      + rewrite F2. reflexivity.
      + intros m. rewrite F3. apply B3.
      + intros m. rewrite F4. apply B4.
      + intros m. rewrite F5. apply B5.
      + intros m. rewrite F6, B6. destruct (memN m (kids_of g s)) eqn:X; [reflexivity|].
        symmetry. apply removeN_notin. intros Y. apply Ws in Y. apply memN_false in X. tauto.
      + intros u v. rewrite F7. change (get_edata g1 u v) with (get_edata g u v).
        destruct (N.eqb_spec u s) as [->|]; cbn; [|reflexivity].
        destruct (memN v (kids_of g s)) eqn:X; [reflexivity|].
        destruct (get_edata g s v) eqn:Y; [|reflexivity].
        assert (Z : get_edata g s v <> None) by congruence. apply We in Z. apply memN_false in X. tauto. }
  destruct V as [g' [Eg [V1 [V2 [V3 [V4 [V5 [V6 V7]]]]]]]].
  rewrite remove_outgoing_snd in Eg. rewrite L in Eg. cbn [negb] in Eg. fold g1 in Eg. rewrite Eg.
  destruct W as [Wi Wk Wp Ws Wc We Wj Wr Wl Wt].
  constructor.
  - rewrite V1. exact Wi.
  - intros u. rewrite V5. destruct (N.eqb u s); [constructor|apply Wk].
  - intros v. rewrite V6. apply NoDup_removeN. apply Wp.
  - intros u v. rewrite V5, V6, In_removeN. destruct (N.eqb_spec u s) as [->|Hus].
    + split; [intros []|]. intros [_ X]. apply X. reflexivity.
    + rewrite Ws. tauto.
  - intros u v. rewrite V5, !V3. destruct (N.eqb u s); [intros []|apply Wc].
  - intros u v. rewrite V7, V5. destruct (N.eqb u s); [split; [congruence|intros []]|apply We].
  - intros u v. rewrite !V3, !V4. apply Wj.
  - intros u. rewrite V3, V4, V2. apply Wr.
  - rewrite V2, Wl. f_equal. rewrite <- (map_length fst (infos g')), V1, map_length. reflexivity.
  - intros u v. rewrite V5, !V4. destruct (N.eqb u s); [intros []|apply Wt].
Qed.

(* ---------------- remove_node ---------------- *)
Lemma get_info_l_filter l n m :
  get_info_l (filter (fun p => negb (N.eqb (fst p) n)) l) m = if N.eqb m n then None else get_info_l l m.
Proof.
  induction l as [|[k i] tl IH]; cbn; [destruct (N.eqb m n); reflexivity|].
  destruct (N.eqb k n) eqn:Ekn; cbn.
  - rewrite IH. destruct (N.eqb m n) eqn:Emn; [reflexivity|].
    apply N.eqb_eq in Ekn. subst k. rewrite N.eqb_sym, Emn. reflexivity.
  - destruct (N.eqb k m) eqn:Ekm.
    + apply N.eqb_eq in Ekm. subst k. rewrite Ekn. reflexivity.
    + exact IH.
Qed.
Lemma get_info_l_map l (h : ninfo -> ninfo) m :
  get_info_l (map (fun p => (fst p, h (snd p))) l) m = option_map h (get_info_l l m).
Proof. induction l as [|[k i] tl IH]; cbn; [reflexivity|]. destruct (N.eqb k m); [reflexivity|exact IH]. Qed.

Lemma fold_upd_l_ids l (F : node -> ninfo -> ninfo) cs :
  map fst (fold_left (fun l c => upd_info_l l c (F c)) cs l) = map fst l.
Proof. revert l. induction cs as [|c tl IH]; intros l; cbn; [reflexivity|]. rewrite IH. apply map_fst_upd. Qed.

(* folding an update that only depends on membership: f applied iff the node is in cs (f idempotent) *)
Lemma fold_upd_l_get l (f : ninfo -> ninfo) cs m :
  (forall i, f (f i) = f i) ->
  get_info_l (fold_left (fun l c => upd_info_l l c f) cs l) m =
  if memN m cs then option_map f (get_info_l l m) else get_info_l l m.
Proof.
  intros Hid. revert l. induction cs as [|c tl IH]; intros l; cbn [fold_left]; [reflexivity|].
  rewrite IH. rewrite get_info_upd_l. cbn [memN existsb]. fold (memN m tl). rewrite (N.eqb_sym m c).
  destruct (N.eqb c m); destruct (memN m tl); cbn; try reflexivity.
  destruct (get_info_l l m); cbn; [rewrite Hid|]; reflexivity.
Qed.

Lemma fold_remove_kids (l : list ((node * node) * ED)) n cs u v :
  get_edata_l (fold_left (fun l c => remove_edata_l l (n, c)) cs l) (u, v) =
  if N.eqb u n && memN v cs then None else get_edata_l l (u, v).
Proof.
  revert l. induction cs as [|c tl IH]; intros l; cbn [fold_left]; [rewrite andb_false_r; reflexivity|].
  rewrite IH. cbn [memN existsb]. fold (memN v tl).
  destruct (N.eqb_spec u n) as [->|Hun]; cbn.
  - destruct (memN v tl); [rewrite orb_true_r; reflexivity|]. rewrite orb_false_r.
    destruct (N.eqb_spec v c) as [->|Hvc].
    + apply get_edata_l_remove_same.
    + apply get_edata_l_remove_other. intros X. inversion X. congruence.
  - apply get_edata_l_remove_other. intros X. inversion X. congruence.
Qed.
Lemma fold_remove_pars (l : list ((node * node) * ED)) n ps u v :
  get_edata_l (fold_left (fun l p => remove_edata_l l (p, n)) ps l) (u, v) =
  if N.eqb v n && memN u ps then None else get_edata_l l (u, v).
Proof.
  revert l. induction ps as [|c tl IH]; intros l; cbn [fold_left]; [rewrite andb_false_r; reflexivity|].
  rewrite IH. cbn [memN existsb]. fold (memN u tl).
  destruct (N.eqb v n) eqn:Evn; cbn.
  - apply N.eqb_eq in Evn. destruct (memN u tl); [rewrite orb_true_r; reflexivity|]. rewrite orb_false_r.
    destruct (N.eqb u c) eqn:Euc.
    + apply N.eqb_eq in Euc. rewrite Euc, Evn. apply get_edata_l_remove_same.
    + apply N.eqb_neq in Euc. apply get_edata_l_remove_other. intros X. inversion X. congruence.
  - apply N.eqb_neq in Evn. apply get_edata_l_remove_other. intros X. inversion X. congruence.
Qed.

Lemma map_fst_filter (l : list (node * ninfo)) n :
  map fst (filter (fun p => negb (N.eqb (fst p) n)) l) = filter (fun x => negb (N.eqb x n)) (map fst l).
Proof. induction l as [|[k i] tl IH]; cbn; [reflexivity|]. destruct (N.eqb k n); cbn; [exact IH|f_equal; exact IH]. Qed.
Lemma filter_neq_notin (l : list N) n : ~ In n l -> filter (fun x => negb (N.eqb x n)) l = l.
Proof.
  induction l as [|x tl IH]; cbn; [reflexivity|]. intros H.
  destruct (N.eqb_spec x n) as [->|]; [exfalso; apply H; left; reflexivity|]. cbn. f_equal. apply IH. tauto.
Qed.
Lemma length_filter_remove (l : list N) n :
  NoDup l -> In n l -> S (length (filter (fun x => negb (N.eqb x n)) l)) = length l.
Proof.
  induction l as [|x tl IH]; cbn; [tauto|]. intros Hn [->|Hin].
  - rewrite N.eqb_refl. cbn. inversion Hn; subst. rewrite filter_neq_notin by assumption. reflexivity.
  - inversion Hn; subst. destruct (N.eqb_spec x n) as [->|]; [tauto|]. cbn. f_equal. apply IH; assumption.
Qed.

Lemma WF_remove_node g n : WF g -> WF (snd (remove_node g n)).
Proof.
  intros W. unfold remove_node. destruct (get_info g n) as [ni|] eqn:Gn; [|exact W]. cbn [snd].
  assert (Ln : live g n = true) by (unfold live; rewrite Gn; reflexivity).
  assert (Kn : kids_of g n = kids ni) by (unfold kids_of; rewrite Gn; reflexivity).
  assert (Pn : pars_of g n = pars ni) by (unfold pars_of; rewrite Gn; reflexivity).
  assert (Rn : rank_of g n = rank ni) by (unfold rank_of; rewrite Gn; reflexivity).
  set (infos1 := filter (fun p => negb (N.eqb (fst p) n)) (infos g)).
  set (f1 := fun i => mkNinfo (rank i) (kids i) (removeN n (pars i))).
  set (infos2 := fold_left (fun l c => upd_info_l l c f1) (kids ni) infos1).
  set (f2 := fun i => mkNinfo (rank i) (removeN n (kids i)) (pars i)).
  set (infos3 := fold_left (fun l p => upd_info_l l p f2) (pars ni) infos2).
  set (h := fun i => if N.ltb (rank ni) (rank i) then mkNinfo (rank i - 1) (kids i) (pars i) else i).
  set (ed2 := fold_left (fun l c => remove_edata_l l (n, c)) (kids ni) (edata g)).
  set (ed3 := fold_left (fun l p => remove_edata_l l (p, n)) (pars ni) ed2).
  match goal with |- WF ?G => set (g' := G) end.
  destruct W as [Wi Wk Wp Ws Wc We Wj Wr Wl Wt].
  assert (Hid1 : forall i, f1 (f1 i) = f1 i) by (intros i; unfold f1; cbn [rank kids pars]; rewrite removeN_idem; reflexivity).
  assert (Hid2 : forall i, f2 (f2 i) = f2 i) by (intros i; unfold f2; cbn [rank kids pars]; rewrite removeN_idem; reflexivity).
  (* the info of every node in the result *)
  assert (GI : forall m, get_info g' m =
     if N.eqb m n then None else
     option_map (fun i => h (mkNinfo (rank i) (removeN n (kids i)) (removeN n (pars i)))) (get_info g m)).
  { intros m. unfold g', get_info. cbn [infos].
    change (map (fun p => (fst p, if N.ltb (rank ni) (rank (snd p)) then mkNinfo (rank (snd p) - 1) (kids (snd p)) (pars (snd p)) else snd p)) infos3)
      with (map (fun p => (fst p, h (snd p))) infos3).
    rewrite get_info_l_map. unfold infos3. rewrite fold_upd_l_get by exact Hid2.
    unfold infos2. rewrite fold_upd_l_get by exact Hid1. unfold infos1. rewrite get_info_l_filter.
    destruct (N.eqb_spec m n) as [->|Hmn].
    - destruct (memN n (pars ni)); destruct (memN n (kids ni)); reflexivity.
    - fold (get_info g m). destruct (get_info g m) as [i|] eqn:Gm; [|destruct (memN m (pars ni)); destruct (memN m (kids ni)); reflexivity].
      assert (Km : kids_of g m = kids i) by (unfold kids_of; rewrite Gm; reflexivity).
      assert (Pm : pars_of g m = pars i) by (unfold pars_of; rewrite Gm; reflexivity).
      (* m in pars n <-> n in kids m ; m in kids n <-> n in pars m *)
      assert (A : memN m (pars ni) = false -> removeN n (kids i) = kids i).
      { intros X. apply removeN_notin. rewrite <- Km. intros Y. apply Ws in Y. rewrite Pn in Y. apply memN_false in X. tauto. }
      assert (B : memN m (kids ni) = false -> removeN n (pars i) = pars i).
      { intros X. apply removeN_notin. rewrite <- Pm. intros Y. apply Ws in Y. rewrite Kn in Y. apply memN_false in X. tauto. }
      destruct (memN m (pars ni)) eqn:X1; destruct (memN m (kids ni)) eqn:X2; cbn [option_map]; unfold f1, f2; cbn [rank kids pars];
      try rewrite (A eq_refl); try rewrite (B eq_refl); try reflexivity; destruct i; reflexivity. }
  assert (LV : forall m, live g' m = if N.eqb m n then false else live g m).
  { intros m. unfold live. rewrite GI. destruct (N.eqb m n); [reflexivity|]. destruct (get_info g m); reflexivity. }
  assert (KD : forall m, kids_of g' m = if N.eqb m n then [] else removeN n (kids_of g m)).
  { intros m. unfold kids_of. rewrite GI. destruct (N.eqb m n); [reflexivity|]. destruct (get_info g m) as [i|]; cbn; [|reflexivity].
    unfold h. cbn. destruct (N.ltb (rank ni) (rank i)); reflexivity. }
  assert (PR : forall m, pars_of g' m = if N.eqb m n then [] else removeN n (pars_of g m)).
  { intros m. unfold pars_of. rewrite GI. destruct (N.eqb m n); [reflexivity|]. destruct (get_info g m) as [i|]; cbn; [|reflexivity].
    unfold h. cbn. destruct (N.ltb (rank ni) (rank i)); reflexivity. }
  assert (RK : forall m, m <> n -> rank_of g' m = if N.ltb (rank ni) (rank_of g m) then rank_of g m - 1 else rank_of g m).
  { intros m Hmn. unfold rank_of. rewrite GI. destruct (N.eqb_spec m n); [congruence|]. destruct (get_info g m) as [i|]; cbn; [|destruct (N.ltb (rank ni) 0); reflexivity].
    unfold h. cbn. destruct (N.ltb (rank ni) (rank i)); reflexivity. }
  assert (EDT : forall u v, get_edata g' u v = if N.eqb u n || N.eqb v n then None else get_edata g u v).
  { intros u v. unfold g', get_edata. cbn [edata]. unfold ed3. rewrite fold_remove_pars. unfold ed2. rewrite fold_remove_kids.
    fold (get_edata g u v).
    destruct (N.eqb_spec v n) as [->|Hvn]; cbn.
    - rewrite orb_true_r. destruct (memN u (pars ni)) eqn:X; [reflexivity|].
      destruct (N.eqb u n && memN n (kids ni)); [reflexivity|].
      destruct (get_edata g u n) eqn:Y; [|reflexivity].
      assert (Z : get_edata g u n <> None) by congruence. apply We in Z. apply Ws in Z. rewrite Pn in Z. apply memN_false in X. tauto.
    - rewrite orb_false_r. destruct (N.eqb_spec u n) as [->|Hun]; cbn; [|reflexivity].
      destruct (memN v (kids ni)) eqn:X; [reflexivity|].
      destruct (get_edata g n v) eqn:Y; [|reflexivity].
      assert (Z : get_edata g n v <> None) by congruence. apply We in Z. rewrite Kn in Z. apply memN_false in X. tauto. }
  assert (IDS : map fst (infos g') = filter (fun x => negb (N.eqb x n)) (map fst (infos g))).
  { unfold g'. cbn [infos]. rewrite map_map. cbn [fst]. change (map (fun x : node * ninfo => fst x) infos3) with (map fst infos3).
    unfold infos3. rewrite fold_upd_l_ids. unfold infos2. rewrite fold_upd_l_ids. unfold infos1. apply map_fst_filter. }
  assert (RKmono : forall a b, rank ni <> a -> rank ni <> b -> a < b ->
            (if N.ltb (rank ni) a then a - 1 else a) < (if N.ltb (rank ni) b then b - 1 else b)).
  { intros a b Ha Hb Hab. destruct (N.ltb_spec (rank ni) a); destruct (N.ltb_spec (rank ni) b); lia. }
  constructor.
  - rewrite IDS. apply NoDup_filter. exact Wi.
  - intros u. rewrite KD. destruct (N.eqb u n); [constructor|apply NoDup_removeN, Wk].
  - intros v. rewrite PR. destruct (N.eqb v n); [constructor|apply NoDup_removeN, Wp].
  - intros u v. rewrite KD, PR.
    destruct (N.eqb_spec u n) as [->|Hun]; destruct (N.eqb_spec v n) as [->|Hvn]; rewrite ?In_removeN.
    + tauto.
    + split; [intros []|]. intros [_ X]. apply X. reflexivity.
    + split; [|intros []]. intros [_ X]. apply X. reflexivity.
    + rewrite Ws. tauto.
  - intros u v. rewrite KD, !LV. destruct (N.eqb_spec u n) as [->|Hun]; [intros []|].
    rewrite In_removeN. intros [X Y]. destruct (N.eqb_spec v n); [congruence|]. apply Wc. exact X.
  - intros u v. rewrite EDT, KD.
    destruct (N.eqb_spec u n) as [->|Hun]; cbn; [split; [congruence|intros []]|].
    destruct (N.eqb_spec v n) as [->|Hvn]; rewrite In_removeN.
    + split; [congruence|]. intros [_ X]. exfalso. apply X. reflexivity.
    + rewrite We. tauto.
  - intros u v. rewrite !LV.
    destruct (N.eqb_spec u n) as [->|Hun]; [discriminate|]. destruct (N.eqb_spec v n) as [->|Hvn]; [discriminate|].
    intros Lu Lv. rewrite (RK u Hun), (RK v Hvn). intros X.
    assert (Au : rank ni <> rank_of g u) by (rewrite <- Rn; intros Y; apply Hun; apply Wj; congruence).
    assert (Av : rank ni <> rank_of g v) by (rewrite <- Rn; intros Y; apply Hvn; apply Wj; congruence).
    apply Wj; try assumption.
    destruct (N.ltb_spec (rank ni) (rank_of g u)); destruct (N.ltb_spec (rank ni) (rank_of g v)); lia.
  - intros u. rewrite LV. destruct (N.eqb_spec u n) as [->|Hun]; [discriminate|]. intros Lu. rewrite (RK u Hun).
    assert (Au : rank ni <> rank_of g u) by (rewrite <- Rn; intros Y; apply Hun; apply Wj; congruence).
    pose proof (Wr u Lu) as R1. pose proof (Wr n Ln) as R2. rewrite Rn in R2. unfold g'. cbn [last].
    destruct (N.ltb_spec (rank ni) (rank_of g u)); lia.
  - assert (X : S (length (infos g')) = length (infos g)).
    { rewrite <- (map_length fst (infos g')), IDS, <- (map_length fst (infos g)). apply length_filter_remove; [exact Wi|].
      apply live_true_iff. exact Ln. }
    change (last g - 1 = N.of_nat (length (infos g'))). rewrite Wl, <- X, Nat2N.inj_succ. lia.
  - intros u v. rewrite KD. destruct (N.eqb_spec u n) as [->|Hun]; [intros []|].
    rewrite In_removeN. intros [X Hvn]. rewrite (RK u Hun), (RK v Hvn).
    destruct (Wc u v X) as [Lu Lv].
    apply RKmono; [| |apply Wt; exact X].
    + rewrite <- Rn. intros Y. apply Hun. apply Wj; congruence.
    + rewrite <- Rn. intros Y. apply Hvn. apply Wj; congruence.
Qed.

End WF.

(* The two descendants queries never run out of the model's fuel on a well-formed graph: the out-of-fuel answer (a
   model-only outcome; the Rust loops have no bound) is unreachable, so C11's statements about them need no fuel premise. *)
From Coq Require Import List NArith Bool Lia Permutation Arith Sorted.
From PieV Require Import Model.Dag Proofs.DagLib Proofs.DagWF Proofs.DagPath Proofs.DagDfs Proofs.DagFuel Proofs.DagQueries.
Import ListNotations.
Open Scope N_scope.

Section NF3.
Context {ED : Type}.
Implicit Types g : dag ED.

Lemma okn_all g k : okn (kids_of g) (fun _ => true) k = kids_of g k.
Proof. unfold okn. induction (kids_of g k) as [|c tl IHl]; cbn; [reflexivity|f_equal; exact IHl]. Qed.

(* visiting k pays for the successors it pushes *)
Lemma visit_pays g k vis : NoDup (nodesG g) -> memN k vis = false ->
  (pot (kids_of g) (fun _ => true) (k :: vis) (nodesG g) + length (kids_of g k) <= pot (kids_of g) (fun _ => true) vis (nodesG g))%nat.
Proof.
  intros ND Hk. destruct (in_dec N.eq_dec k (nodesG g)) as [Hin|Hnin].
  - pose proof (pot_visit (kids_of g) (fun _ => true) vis k (nodesG g) ND Hin Hk) as PV. rewrite okn_all in PV. apply Nat.eq_le_incl. exact PV.
  - assert (Kd : kids_of g k = []).
    { apply kids_of_dead. destruct (live g k) eqn:L; [|reflexivity]. exfalso. apply Hnin. apply live_true_iff. exact L. }
    rewrite Kd. pose proof (pot_notin (kids_of g) (fun _ => true) vis k (nodesG g) Hnin) as PN. cbn [length]. rewrite Nat.add_0_r. apply Nat.eq_le_incl. exact PN.
Qed.

Lemma desc_unsorted_loop_fuel g : NoDup (nodesG g) -> forall fuel stack vis acc,
  (length stack + pot (kids_of g) (fun _ => true) vis (nodesG g) < fuel)%nat -> desc_unsorted_loop fuel g stack vis acc <> None.
Proof.
  intros ND. induction fuel as [|f IH]; intros stack vis acc Phi; [lia|]. cbn [desc_unsorted_loop].
  destruct stack as [|k st]; [discriminate|].
  destruct (memN k vis) eqn:Hk.
  - apply IH. cbn [length] in Phi. lia.
  - apply IH. rewrite app_length, rev_length. pose proof (visit_pays g k vis ND Hk) as VP. cbn [length] in Phi.
    unfold node in *. lia.
Qed.

Lemma remove_first_length m (l : list N) : In m l -> S (length (remove_first m l)) = length l.
Proof.
  induction l as [|y tl IH]; intros H; [destruct H|]. cbn [remove_first].
  destruct (N.eqb_spec m y) as [->|Hne]; [reflexivity|]. cbn [length]. f_equal. apply IH. destruct H as [E|H]; [congruence|exact H].
Qed.

Lemma desc_sorted_loop_fuel g : NoDup (nodesG g) -> forall fuel queue vis acc,
  (length queue + pot (kids_of g) (fun _ => true) vis (nodesG g) < fuel)%nat -> desc_sorted_loop fuel g queue vis acc <> None.
Proof.
  intros ND. induction fuel as [|f IH]; intros queue vis acc Phi; [lia|]. cbn [desc_sorted_loop].
  destruct queue as [|q0 qtl]; [discriminate|].
  destruct (heap_min_spec g qtl q0) as [Hm _].
  pose proof (remove_first_length _ _ Hm) as RL.
  destruct (memN (heap_min g q0 qtl) vis) eqn:Hk.
  - apply IH. cbn [length] in *. unfold node in *. lia.
  - apply IH. rewrite app_length. pose proof (visit_pays g _ vis ND Hk). cbn [length] in *. unfold node in *. lia.
Qed.

Lemma kids_le_nodes g n : WF g -> (length (kids_of g n) <= length (infos g))%nat.
Proof.
  intros W. rewrite <- (map_length fst (infos g)). apply NoDup_incl_length; [apply (wf_kn g W)|].
  intros c C. apply live_true_iff. apply (wf_closed g W n c C).
Qed.

Lemma start_potential g n : WF g ->
  (length (kids_of g n) + pot (kids_of g) (fun _ => true) [] (nodesG g) < walk_fuel g)%nat.
Proof.
  intros W. pose proof (kids_le_nodes g n W). pose proof (pot_le (kids_of g) (fun _ => true) [] (nodesG g)).
  pose proof (kids_sum g (WF_FW g W)). unfold walk_fuel. unfold node in *. lia.
Qed.

Theorem descendants_unsorted_answers g n : WF g -> descendants_unsorted g n <> AFuel.
Proof.
  intros W. unfold descendants_unsorted. destruct (negb (live g n)); [discriminate|].
  destruct (desc_unsorted_loop (walk_fuel g) g (rev (kids_of g n)) [] []) eqn:D; [discriminate|].
  exfalso. revert D. apply desc_unsorted_loop_fuel; [apply (wf_ids _ W)|]. rewrite rev_length. apply start_potential. exact W.
Qed.

Theorem descendants_answers g n : WF g -> descendants g n <> AFuel.
Proof.
  intros W. unfold descendants. destruct (negb (live g n)); [discriminate|].
  destruct (desc_sorted_loop (walk_fuel g) g (kids_of g n) [] []) eqn:D; [discriminate|].
  exfalso. revert D. apply desc_sorted_loop_fuel; [apply (wf_ids _ W)|]. apply start_potential. exact W.
Qed.

(* the full statements, without a fuel premise *)
Theorem descendants_unsorted_total g n : WF g -> live g n = true ->
  exists l, descendants_unsorted g n = AOk l /\
    NoDup (map snd l) /\ (forall x, In x (map snd l) <-> path g n x) /\ (forall r x, In (r, x) l -> r = rank_of g x).
Proof.
  intros W L. pose proof (descendants_unsorted_answers g n W) as NF.
  destruct (descendants_unsorted g n) as [l|er|] eqn:D; [|exfalso|congruence].
  - exists l. split; [reflexivity|]. apply (descendants_unsorted_spec g n l W D).
  - unfold descendants_unsorted in D. rewrite L in D. cbn [negb] in D. destruct (desc_unsorted_loop _ _ _ _ _); discriminate.
Qed.

Theorem descendants_total g n : WF g -> live g n = true ->
  exists l, descendants g n = AOk l /\
    NoDup l /\ (forall x, In x l <-> path g n x) /\ StronglySorted (fun a b => rank_of g a < rank_of g b) l.
Proof.
  intros W L. pose proof (descendants_answers g n W) as NF.
  destruct (descendants g n) as [l|er|] eqn:D; [|exfalso|congruence].
  - exists l. split; [reflexivity|]. apply (descendants_spec g n l W D).
  - unfold descendants in D. rewrite L in D. cbn [negb] in D. destruct (desc_sorted_loop _ _ _ _ _); discriminate.
Qed.
End NF3.

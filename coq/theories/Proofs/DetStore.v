(* C16, engine level: the store reaches the graph through one function that involves an unordered iteration, Store::add_dependency
   (= DAG::add_edge).  With the change sets of the order repair iterated in ANY order (add_edge_sh, Determinism.v), it returns the
   same answer and the same world in every world that satisfies the store invariant -- i.e. in every reachable world
   (C06_store_invariant_every_reachable_state).  Every other container of the engine is only probed for membership
   (consistent set, queue set, visited sets, the two key maps) or iterated in insertion order (adjacency lists), and the queue's
   vector is sorted by unique ranks before every pop (C16_queue_pop_independent_of_push_order). *)
From Coq Require Import List NArith ZArith Bool.
From PieV Require Import Model.Dag Model.Build Proofs.DagWF Proofs.StoreInv Proofs.Determinism.
Import ListNotations.
Open Scope N_scope.

Section DS.
Variables shf shb : dag dep -> list node -> list node.
Hypothesis shf_mem : forall g l x, In x (shf g l) <-> In x l.
Hypothesis shb_mem : forall g l x, In x (shb g l) <-> In x l.

Definition add_dependency_sh (w : world) (s d : node) (dp : dep) : addres * world :=
  match add_edge_sh shf shb (gr w) s d dp with
  | (AOk _, g') => (AddOk, set_gr w g')
  | (AErr CycleDetected, g') => (AddCycle, set_gr w g')
  | (AErr NodeMissing, g') => (AddBug, set_gr w g')
  | (AFuel, g') => (AddBug, set_gr w g')
  end.

Theorem add_dependency_iteration_order_independent w s d dp :
  StoreOK w -> add_dependency_sh w s d dp = add_dependency w s d dp.
Proof.
  intros [W _]. unfold add_dependency_sh, add_dependency.
  rewrite (add_edge_iteration_order_independent shf shb shf_mem shb_mem (gr w) s d dp W). reflexivity.
Qed.
End DS.

(* C16, the graph layer: the only unordered containers whose ITERATION order reaches the result of a graph operation are
   the two change sets of reorder_nodes (HashSets filled by the two searches of add_edge).  Whatever order -- and whatever
   multiplicity -- their iteration yields, add_edge returns the same answer and the same graph, and so does every operation
   sequence.  The iteration order is modelled by two ARBITRARY functions that may depend on the whole graph and need only
   keep the membership of the set they are handed. *)
From Coq Require Import List NArith Bool Lia Permutation Sorted.
From PieV Require Import Model.Dag Proofs.DagLib Proofs.DagWF Proofs.DagPath Proofs.DagDfs Proofs.Sorting Proofs.DagReorder
  Proofs.DagAddEdge Proofs.DagRun Proofs.DagFuel Proofs.DagNoFuel.
Import ListNotations.
Open Scope N_scope.

Section Det.
Context {ED : Type}.
Implicit Types g : dag ED.

Lemma NoDup_map_inj (key : node -> N) l :
  NoDup l -> (forall x y, In x l -> In y l -> key x = key y -> x = y) -> NoDup (map key l).
Proof.
  induction l as [|x tl IH]; intros Hn Hi; cbn; [constructor|]. inversion Hn; subst. constructor.
  - intros X. apply in_map_iff in X. destruct X as [y [E Y]].
    assert (y = x) by (apply Hi; [right; exact Y|left; reflexivity|exact E]). subst. tauto.
  - apply IH; [assumption|]. intros a b A B'. apply Hi; right; assumption.
Qed.

(* a set handed over in two different orders (possibly with repetitions) is sorted into the same list *)
Lemma sorted_set_independent (key : node -> N) l l' :
  (forall x, In x l <-> In x l') ->
  (forall x y, In x l -> In y l -> key x = key y -> x = y) ->
  sort_by key (nodupN l) = sort_by key (nodupN l').
Proof.
  intros M Inj. apply sort_by_order_independent.
  - apply NoDup_Permutation; [apply nodupN_NoDup|apply nodupN_NoDup|].
    intros x. rewrite !nodupN_In. apply M.
  - apply NoDup_map_inj; [apply nodupN_NoDup|].
    intros x y X Y. apply Inj; apply nodupN_In; assumption.
Qed.

Theorem reorder_nodes_set_independent g cf cf' cb cb' :
  (forall x, In x cf <-> In x cf') -> (forall x, In x cb <-> In x cb') ->
  (forall x y, In x cf -> In y cf -> rank_of g x = rank_of g y -> x = y) ->
  (forall x y, In x cb -> In y cb -> rank_of g x = rank_of g y -> x = y) ->
  reorder_nodes g cf cb = reorder_nodes g cf' cb'.
Proof.
  intros Mf Mb If Ib. unfold reorder_nodes.
  rewrite (sorted_set_independent (rank_of g) cf cf' Mf If), (sorted_set_independent (rank_of g) cb cb' Mb Ib).
  reflexivity.
Qed.

Variables shf shb : dag ED -> list node -> list node.
Hypothesis shf_mem : forall g l x, In x (shf g l) <-> In x l.
Hypothesis shb_mem : forall g l x, In x (shb g l) <-> In x l.

(* add_edge with the two change sets iterated in the order the shuffles dictate: the text of Model.Dag.add_edge with the one
   call of reorder_nodes changed *)
Definition add_edge_sh (g : dag ED) (s d : node) (e : ED) : ares bool * dag ED :=
  if negb (live g s) || negb (live g d) then (AErr NodeMissing, g)
  else if N.eqb s d then (AErr CycleDetected, g)
  else if memN d (kids_of g s) then (AOk false, g)
  else
    let '(no_prev1, kids') := lhs_insert d (kids_of g s) in
    let g1 := upd_info g s (fun i => mkNinfo (rank i) kids' (pars i)) in
    let ub := rank_of g1 s in
    let '(no_prev, g2) :=
      if no_prev1
      then let '(np2, pars') := lhs_insert s (pars_of g1 d) in
           (np2, upd_info g1 d (fun i => mkNinfo (rank i) (kids i) pars'))
      else (false, g1) in
    let lb := rank_of g2 d in
    if negb no_prev then (AOk false, g2)
    else
      let g3 := insert_edata g2 s d e in
      if N.ltb lb ub then
        match dfs_forward (dfs_fuel g3) g3 ub [d] [] [] with
        | DfsFuel => (AFuel, g3)
        | DfsCycle =>
          let g4 := upd_info g3 s (fun i => mkNinfo (rank i) (removeN d (kids i)) (pars i)) in
          let g5 := upd_info g4 d (fun i => mkNinfo (rank i) (kids i) (removeN s (pars i))) in
          (AErr CycleDetected, remove_edata g5 s d)
        | DfsOk cf visited =>
          match dfs_backward (dfs_fuel g3) g3 lb [s] visited [] with
          | DfsOk cb _ => (AOk true, reorder_nodes g3 (shf g3 cf) (shb g3 cb))
          | _ => (AFuel, g3)
          end
        end
      else (AOk true, g3).

Lemma add_edge_sh_early g s d e :
  (live g s = false \/ live g d = false \/ s = d \/ In d (kids_of g s)) ->
  add_edge_sh g s d e = add_edge g s d e.
Proof.
  intros H. unfold add_edge_sh, add_edge.
  destruct (live g s) eqn:Ls; cbn [negb orb]; [|reflexivity].
  destruct (live g d) eqn:Ld; cbn [negb orb]; [|reflexivity].
  destruct (N.eqb_spec s d) as [->|Hsd]; [reflexivity|].
  destruct H as [H|[H|[H|H]]]; try congruence.
  assert (M : memN d (kids_of g s) = true) by (apply memN_In; exact H). rewrite M. reflexivity.
Qed.

Lemma add_edge_sh_unfold g s d e :
  WF g -> live g s = true -> live g d = true -> s <> d -> ~ In d (kids_of g s) ->
  add_edge_sh g s d e =
  let g3 := pre_graph g s d e in
  let ub := rank_of g s in let lb := rank_of g d in
  if N.ltb lb ub then
    match dfs_forward (dfs_fuel g3) g3 ub [d] [] [] with
    | DfsFuel => (AFuel, g3)
    | DfsCycle =>
      (AErr CycleDetected,
       remove_edata (upd_info (upd_info g3 s (fun i => mkNinfo (rank i) (removeN d (kids i)) (pars i)))
                              d (fun i => mkNinfo (rank i) (kids i) (removeN s (pars i)))) s d)
    | DfsOk cf visited =>
      match dfs_backward (dfs_fuel g3) g3 lb [s] visited [] with
      | DfsOk cb _ => (AOk true, reorder_nodes g3 (shf g3 cf) (shb g3 cb))
      | _ => (AFuel, g3)
      end
    end
  else (AOk true, g3).
Proof.
  intros W Ls Ld Hsd Hnk. unfold add_edge_sh. rewrite Ls, Ld. cbn [negb orb].
  destruct (N.eqb_spec s d) as [|_]; [congruence|].
  assert (M : memN d (kids_of g s) = false) by (apply memN_false; exact Hnk). rewrite M.
  assert (Hnp : ~ In s (pars_of g d)) by (intros X; apply (wf_sym g W) in X; tauto).
  assert (M2 : memN s (pars_of g d) = false) by (apply memN_false; exact Hnp).
  destruct (lhs_insert d (kids_of g s)) as [np1 k'] eqn:L1.
  unfold lhs_insert in L1. rewrite M, (removeN_notin d _ Hnk) in L1. cbn [negb] in L1. inversion L1; subst np1 k'. clear L1.
  match goal with |- context [pars_of ?G d] =>
    assert (P1 : pars_of G d = pars_of g d) by (rewrite pars_of_upd; destruct (N.eqb_spec d s); [congruence|reflexivity]);
    rewrite P1; clear P1 end.
  destruct (lhs_insert s (pars_of g d)) as [np2 p'] eqn:L2.
  unfold lhs_insert in L2. rewrite M2, (removeN_notin s _ Hnp) in L2. cbn [negb] in L2. inversion L2; subst np2 p'. clear L2.
  cbn [negb].
  match goal with |- context [N.ltb (rank_of ?G2 d) (rank_of ?G1 s)] =>
    assert (R1 : rank_of G1 s = rank_of g s) by
      (rewrite rank_of_upd, N.eqb_refl; unfold rank_of; destruct (get_info g s); reflexivity);
    assert (R2 : rank_of G2 d = rank_of g d) by
      (rewrite rank_of_upd, N.eqb_refl, get_info_upd; destruct (N.eqb_spec d s); [congruence|]; unfold rank_of; destruct (get_info g d); reflexivity);
    rewrite R1, R2 end.
  cbn zeta. unfold pre_graph. reflexivity.
Qed.

(* the iteration order of the change sets does not reach the result: answer and graph are those of add_edge *)
Theorem add_edge_iteration_order_independent g s d e :
  WF g -> add_edge_sh g s d e = add_edge g s d e.
Proof.
  intros W.
  destruct (live g s) eqn:Ls; [|apply add_edge_sh_early; left; exact Ls].
  destruct (live g d) eqn:Ld; [|apply add_edge_sh_early; right; left; exact Ld].
  destruct (N.eq_dec s d) as [Hsd|Hsd]; [apply add_edge_sh_early; right; right; left; exact Hsd|].
  destruct (in_dec N.eq_dec d (kids_of g s)) as [Hk|Hnk]; [apply add_edge_sh_early; right; right; right; exact Hk|].
  rewrite (add_edge_sh_unfold g s d e W Ls Ld Hsd Hnk), (add_edge_unfold g s d e W Ls Ld Hsd Hnk). cbn zeta.
  destruct (pre_graph_view g s d e Ls Ld Hsd) as [_ [_ [_ [V4 [V5 _]]]]].
  destruct (N.ltb_spec (rank_of g d) (rank_of g s)) as [Hlt|Hge]; [|reflexivity].
  pose proof (dfs_forward_spec (dfs_fuel (pre_graph g s d e)) (pre_graph g s d e) (rank_of g s) d [d] []) as FS.
  assert (FI0 : FInv (pre_graph g s d e) (rank_of g s) d [d] []).
  { split; [intros x []|]. intros x [[<-|[]]|[]]. split; [left; reflexivity|]. rewrite V5. exact Hlt. }
  specialize (FS FI0).
  destruct (dfs_forward (dfs_fuel (pre_graph g s d e)) (pre_graph g s d e) (rank_of g s) [d] [] []) as [cf vis| |]; [|reflexivity|reflexivity].
  destruct FS as [-> [FI [_ Hd]]].
  pose proof (forward_closed_no_path g s d e cf W Ls Ld Hsd FI) as NoPath.
  assert (NC : ~ path g d s) by (intros X; eapply NoPath; [apply Hd; left; reflexivity|exact X]).
  pose proof (dfs_backward_spec (dfs_fuel (pre_graph g s d e)) (pre_graph g s d e) (rank_of g d) s cf) as BS.
  destruct (pre_graph_structure g s d e W Ls Ld Hsd Hnk) as [_ [_ [_ [S4 _]]]].
  assert (BI0 : BInv (pre_graph g s d e) (rank_of g d) s cf [s] []).
  { split; [intros x []|]. intros x [[<-|[]]|[]]. split; [left; reflexivity|]. rewrite V5. exact Hlt. }
  specialize (BS S4 [s] [] BI0). cbn [app] in BS.
  destruct (dfs_backward (dfs_fuel (pre_graph g s d e)) (pre_graph g s d e) (rank_of g d) [s] cf []) as [cb vis| |]; [|reflexivity|reflexivity].
  destruct BS as [_ [BI _]].
  f_equal. symmetry.
  (* members of both sets are live nodes of g, on which the ranks are injective *)
  assert (LiveF : forall x, In x cf -> live g x = true).
  { intros x X. destruct FI as [_ F3]. destruct (F3 x (or_intror X)) as [A _].
    destruct A as [A|A]; [subst x; exact Ld|]. apply pre_path in A; try assumption.
    destruct A as [A|[A|A]]; [apply (path_live g d x W A)|congruence|tauto]. }
  assert (LiveB : forall x, In x cb -> live g x = true).
  { intros x X. destruct BI as [_ B3]. destruct (B3 x (or_intror X)) as [A _].
    destruct A as [A|A]; [subst x; exact Ls|]. apply pre_path in A; try assumption.
    destruct A as [A|[A|A]]; [apply (path_live g x s W A)|subst x; exact Ls|apply (path_live g x s W A)]. }
  apply reorder_nodes_set_independent.
  - intros x. symmetry. apply shf_mem.
  - intros x. symmetry. apply shb_mem.
  - intros x y X Y E. rewrite !V5 in E. apply (wf_inj g W); [apply LiveF; exact X|apply LiveF; exact Y|exact E].
  - intros x y X Y E. rewrite !V5 in E. apply (wf_inj g W); [apply LiveB; exact X|apply LiveB; exact Y|exact E].
Qed.

(* operation sequences *)
Definition gstep_sh (g : dag ED) (o : gop ED) : dag ED :=
  match o with
  | GAddEdge s d e => snd (add_edge_sh g s d e)
  | _ => gstep g o
  end.
Definition grun_sh (ops : list (gop ED)) : dag ED := fold_left gstep_sh ops empty.

Theorem run_iteration_order_independent (ops : list (gop ED)) :
  forall g, WF g -> Fresh g -> fold_left gstep_sh ops g = fold_left gstep ops g.
Proof.
  induction ops as [|o tl IH]; intros g W Fr; cbn [fold_left]; [reflexivity|].
  assert (E : gstep_sh g o = gstep g o).
  { destruct o; try reflexivity. cbn [gstep_sh gstep]. rewrite add_edge_iteration_order_independent by exact W. reflexivity. }
  rewrite E.
  destruct (step_WF g o W Fr) as [W' F']; [destruct o; try exact I; apply add_edge_no_fuel; exact W|].
  apply IH; assumption.
Qed.

Theorem grun_iteration_order_independent (ops : list (gop ED)) : grun_sh ops = grun ops.
Proof. unfold grun_sh, grun. apply run_iteration_order_independent; [apply WF_empty|intros n []]. Qed.

End Det.

(* ---- the bottom-up queue: its Vec is re-sorted by unique topological ranks before every pop, so what is popped and what is
   left depend on the SET of queued tasks only, not on the order in which they were pushed ---- *)
From PieV Require Import Model.Build Proofs.Queue.

Lemma sort_queue_set_queue w q : sort_queue (set_queue w q) = sort_by (rank_t w) q.
Proof. reflexivity. Qed.

Theorem queue_pop_order_independent (w : world) (q' : list task) :
  Permutation (queue w) q' -> NoDup (map (rank_t w) (queue w)) ->
  queue_pop (set_queue w q') = queue_pop w.
Proof.
  intros Hp Hn. unfold queue_pop. rewrite sort_queue_set_queue.
  assert (E : sort_by (rank_t w) q' = sort_queue w).
  { unfold sort_queue. symmetry. apply sort_by_order_independent; assumption. }
  rewrite E. destruct (rev (sort_queue w)) as [|t tl]; reflexivity.
Qed.

Theorem pop_least_from_order_independent (w : world) (src : task) (q' : list task) :
  Permutation (queue w) q' -> NoDup (map (rank_t w) (queue w)) ->
  pop_least_from (set_queue w q') src = pop_least_from w src.
Proof.
  intros Hp Hn. unfold pop_least_from. rewrite sort_queue_set_queue.
  assert (E : sort_by (rank_t w) q' = sort_queue w).
  { unfold sort_queue. symmetry. apply sort_by_order_independent; assumption. }
  rewrite E.
  reflexivity.
Qed.

(* Frame lemmas: which adjacency lists each store operation can change (only those of the acting task's node), used by
   the execution-stack arguments (no re-entry, at most one execution per session, no internal errors). *)
From Coq Require Import List NArith ZArith Bool Lia.
From PieV Require Import Model.Dag Model.Build Proofs.DagLib Proofs.DagWF Proofs.DagPath Proofs.DagAddEdge Proofs.DagViews Proofs.StoreInv.
Import ListNotations.
Open Scope N_scope.

(* only node n's outgoing adjacency may change, and it can only grow *)
Definition grows_at (g g' : dag dep) (n : node) : Prop :=
  (forall m, m <> n -> kids_of g' m = kids_of g m) /\ (forall x, In x (kids_of g n) -> In x (kids_of g' n)) /\
  (forall m, live g m = true -> live g' m = true).
(* nothing about outgoing adjacency changes *)
Definition same_kids (g g' : dag dep) : Prop := (forall m, kids_of g' m = kids_of g m) /\ (forall m, live g m = true -> live g' m = true).

Lemma same_kids_refl g : same_kids g g. Proof. split; intros; [reflexivity|assumption]. Qed.
Lemma same_kids_trans g1 g2 g3 : same_kids g1 g2 -> same_kids g2 g3 -> same_kids g1 g3.
Proof. intros [A1 B1] [A2 B2]. split; intros; [rewrite A2, A1; reflexivity|apply B2, B1; assumption]. Qed.
Lemma same_grows g g' n : same_kids g g' -> grows_at g g' n.
Proof. intros [A B]. split; [intros; apply A|]. split; [intros x X; rewrite A; exact X|exact B]. Qed.
Lemma grows_refl g n : grows_at g g n. Proof. apply same_grows, same_kids_refl. Qed.
Lemma grows_trans g1 g2 g3 n : grows_at g1 g2 n -> grows_at g2 g3 n -> grows_at g1 g3 n.
Proof.
  intros [A1 [B1 C1]] [A2 [B2 C2]]. split; [intros m Hm; rewrite A2, A1 by exact Hm; reflexivity|].
  split; [intros x X; apply B2, B1; exact X|intros m L; apply C2, C1; exact L].
Qed.

Lemma add_node_same (g : dag dep) id : live g id = false -> same_kids g (add_node_at g id).
Proof.
  intros Hd. split.
  - intros m. unfold kids_of. rewrite (get_info_add_node g id m Hd). destruct (N.eqb_spec m id) as [->|]; [|reflexivity].
    unfold live in Hd. destruct (get_info g id); [discriminate|reflexivity].
  - intros m L. unfold live in *. rewrite (get_info_add_node g id m Hd). destruct (N.eqb m id); [reflexivity|exact L].
Qed.

Lemma add_edge_grows (g : dag dep) s d dp : WF g -> grows_at g (snd (add_edge g s d dp)) s.
Proof.
  intros W. pose proof (add_edge_view g s d dp W) as V.
  destruct (fst (add_edge g s d dp)) as [[|]|err|] eqn:R.
  - destruct V as [_ [VL [VK _]]]. split; [|split].
    + intros m Hm. rewrite VK. destruct (N.eqb_spec m s); [congruence|reflexivity].
    + intros x X. rewrite VK, N.eqb_refl. apply in_or_app. left. exact X.
    + intros m L. rewrite VL. exact L.
  - destruct V as [-> _]. apply grows_refl.
  - rewrite V. apply grows_refl.
  - (* fuel exhaustion of the model: the pre-graph; still only s grows *)
    destruct (live g s) eqn:Ls; [|rewrite (proj1 (add_edge_early g s d dp W (or_introl Ls))); apply grows_refl].
    destruct (live g d) eqn:Ld; [|rewrite (proj1 (add_edge_early g s d dp W (or_intror (or_introl Ld)))); apply grows_refl].
    destruct (N.eq_dec s d) as [Hsd|Hsd]; [rewrite (proj1 (add_edge_early g s d dp W (or_intror (or_intror (or_introl Hsd))))); apply grows_refl|].
    destruct (in_dec N.eq_dec d (kids_of g s)) as [Hk|Hnk]; [rewrite (proj1 (add_edge_early g s d dp W (or_intror (or_intror (or_intror Hk))))); apply grows_refl|].
    rewrite (add_edge_unfold g s d dp W Ls Ld Hsd Hnk) in *. cbn zeta in *.
    destruct (pre_graph_view g s d dp Ls Ld Hsd) as [_ [_ [_ [V4 [_ [V6 _]]]]]].
    assert (G3 : grows_at g (pre_graph g s d dp) s).
    { split; [|split].
      - intros m Hm. rewrite V6. destruct (N.eqb_spec m s); [congruence|reflexivity].
      - intros x X. rewrite V6, N.eqb_refl. apply in_or_app. left. exact X.
      - intros m L. rewrite V4. exact L. }
    destruct (N.ltb (rank_of g d) (rank_of g s)); [|cbn in R; discriminate].
    destruct (dfs_forward _ _ _ _ _ _) as [cf vis| |]; cbn [fst snd] in *; try discriminate; [|exact G3].
    destruct (dfs_backward _ _ _ _ _ _) as [cb vis2| |]; cbn [fst snd] in *; try discriminate; exact G3.
Qed.

Lemma add_dependency_grows w s d dp : WF (gr w) -> grows_at (gr w) (gr (snd (add_dependency w s d dp))) s.
Proof.
  intros W. unfold add_dependency. pose proof (add_edge_grows (gr w) s d dp W) as G.
  destruct (add_edge (gr w) s d dp) as [[b|[|]|] g']; exact G.
Qed.

Lemma insert_edata_same (g : dag dep) s d dp : same_kids g (insert_edata g s d dp).
Proof. split; intros; [reflexivity|assumption]. Qed.

Lemma remove_outgoing_other (g : dag dep) s : WF g -> (forall m, m <> s -> kids_of (snd (remove_outgoing g s)) m = kids_of g m) /\
  (forall m, live g m = true -> live (snd (remove_outgoing g s)) m = true) /\ kids_of (snd (remove_outgoing g s)) s = [].
Proof.
  intros W. destruct (live g s) eqn:L.
  - destruct (remove_outgoing_view g s W L) as [_ [_ [VL [_ [VK _]]]]]. split; [|split].
    + intros m Hm. rewrite VK. destruct (N.eqb_spec m s); [congruence|reflexivity].
    + intros m X. rewrite VL. exact X.
    + rewrite VK, N.eqb_refl. reflexivity.
  - rewrite remove_outgoing_snd, L. cbn. split; [|split]; [reflexivity|tauto|apply kids_of_dead; exact L].
Qed.

(* C17: "every task execution that really ran appears ... with the output it returned" -- the tracker's execution events and
   the stored outputs agree in EVERY reachable state of EVERY session (top-down requires and bottom-up builds in any mix,
   completed or aborted), for all programs, checkers and fuel:
     - if the latest execution event of a task in the session's stream is its END with output o, the store holds exactly o for it
       (the value every later require of the task returns from the cache);
     - if it is its START (the execution is still running, or was aborted), the task has no output.
   Invariant XI through the generic principle InvE.v (Inv.v with the two execution events tied to their store updates). *)
From Coq Require Import List NArith ZArith Bool Lia.
From PieV Require Import Model.Dag Model.Build Proofs.InvE Proofs.ExecInv.
Import ListNotations.
Open Scope N_scope.

Fixpoint last_exec (tr : list event) (t : task) : option (option Z) :=
  match tr with
  | [] => None
  | EExecStart t' :: tl => if N.eqb t' t then Some None else last_exec tl t
  | EExecEnd t' o :: tl => if N.eqb t' t then Some (Some o) else last_exec tl t
  | _ :: tl => last_exec tl t
  end.

Definition XI (w : world) : Prop := forall t,
  match last_exec (trace w) t with
  | Some (Some o) => get_task_output w t = Some o
  | Some None => get_task_output w t = None
  | None => True
  end.

Lemma last_exec_nonexec e tr t : nonexec e = true -> last_exec (e :: tr) t = last_exec tr t.
Proof. destruct e; cbn; try discriminate; reflexivity. Qed.
Lemma last_exec_app seg tr t : Forall (fun e => nonexec e = true) seg -> last_exec (seg ++ tr) t = last_exec tr t.
Proof. induction 1 as [|e seg He _ IH]; cbn [app]; [reflexivity|]. rewrite last_exec_nonexec by exact He. exact IH. Qed.

(* steps that add only non-execution events and leave the outputs alone *)
Definition quiet (w w' : world) : Prop :=
  (exists seg, trace w' = seg ++ trace w /\ Forall (fun e => nonexec e = true) seg) /\ outs w' = outs w.
Lemma quiet_refl w : quiet w w. Proof. split; [exists []; split; [reflexivity|constructor]|reflexivity]. Qed.
Lemma quiet_trans a b c : quiet a b -> quiet b c -> quiet a c.
Proof.
  intros [[s1 [T1 F1]] O1] [[s2 [T2 F2]] O2]. split; [|congruence].
  exists (s2 ++ s1). split; [rewrite T2, T1, app_assoc; reflexivity|apply Forall_app; split; assumption].
Qed.
Lemma quiet_same w w' : trace w' = trace w -> outs w' = outs w -> quiet w w'.
Proof. intros T O. split; [exists []; split; [exact T|constructor]|assumption]. Qed.
Lemma quiet_emit w e : nonexec e = true -> quiet w (emit w e).
Proof. intros H. split; [exists [e]; split; [reflexivity|constructor; [exact H|constructor]]|reflexivity]. Qed.
Lemma quiet_XI w w' : quiet w w' -> XI w -> XI w'.
Proof.
  intros [[s [T F]] O] H t. specialize (H t). rewrite T, last_exec_app by exact F.
  unfold get_task_output in *. rewrite O. exact H.
Qed.
Lemma quiet_goc_task w t : quiet w (get_or_create_task_node w t).
Proof. unfold get_or_create_task_node. destruct (live _ _); [apply quiet_refl|apply quiet_same; reflexivity]. Qed.
Lemma quiet_goc_res w r : quiet w (get_or_create_resource_node w r).
Proof. unfold get_or_create_resource_node. destruct (live _ _); [apply quiet_refl|apply quiet_same; reflexivity]. Qed.
Lemma quiet_add_dependency w s d dp : quiet w (snd (add_dependency w s d dp)).
Proof. unfold add_dependency. destruct (add_edge (gr w) s d dp) as [[b|[|]|] g']; apply quiet_same; reflexivity. Qed.
Lemma quiet_set_content w r v : quiet w (set_content w r v). Proof. destruct v; apply quiet_same; reflexivity. Qed.

Definition quietO {A} (w : world) (m : outcome A) : Prop := match m with Done _ w' | Abort _ w' => quiet w w' | OutOfFuel => True end.

Section EE.
Variable RC : rcid -> rchecker.
Variable OC : ocid -> ochecker.
Variable P : task -> prog.

Lemma quietO_ok {A} w (m : outcome A) : quietO w m -> XI w -> okO XI m.
Proof. destruct m; cbn; intros Q H; [eapply quiet_XI; eassumption|right; eapply quiet_XI; eassumption|exact Logic.I]. Qed.

Lemma sess_read_quiet w r c : quietO w (sess_read RC w r c).
Proof.
  unfold sess_read. destruct (cur w) as [t|]; [|apply quiet_refl].
  assert (Q2 : quiet w (get_or_create_resource_node (emit w (EReadStart r c)) r)).
  { eapply quiet_trans; [|apply quiet_goc_res]; [apply quiet_emit; reflexivity]. }
  set (w2 := get_or_create_resource_node (emit w (EReadStart r c)) r) in *.
  destruct (hidden_read_check w2 t r); [exact Q2|]. destruct (rc_stamp _ _ _ _) as [st|e]; [|exact Q2].
  assert (Q3 : quiet w (snd (add_dependency (emit w2 (EReadEnd r c st)) (tn t) (rn r) (DRead r c st)))).
  { eapply quiet_trans; [exact Q2|]. eapply quiet_trans; [|apply quiet_add_dependency]; [apply quiet_emit; reflexivity]. }
  destruct (add_dependency _ _ _ _) as [[| |] w4]; exact Q3.
Qed.
Lemma sess_write_quiet w r c v : quietO w (sess_write RC w r c v).
Proof.
  unfold sess_write. destruct (cur w) as [t|]; [|apply quiet_set_content].
  assert (Q2 : quiet w (get_or_create_resource_node (emit w (EWriteStart r c)) r)).
  { eapply quiet_trans; [|apply quiet_goc_res]; [apply quiet_emit; reflexivity]. }
  set (w2 := get_or_create_resource_node (emit w (EWriteStart r c)) r) in *.
  destruct (validate_write w2 t r); [exact Q2|].
  assert (Q3 : quiet w (set_content w2 r v)) by (eapply quiet_trans; [exact Q2|apply quiet_set_content]).
  destruct (rc_stamp _ _ _ _) as [st|e]; [|exact Q3].
  assert (Q4 : quiet w (snd (add_dependency (emit (set_content w2 r v) (EWriteEnd r c st)) (tn t) (rn r) (DWrite r c st)))).
  { eapply quiet_trans; [exact Q3|]. eapply quiet_trans; [|apply quiet_add_dependency]; [apply quiet_emit; reflexivity]. }
  destruct (add_dependency _ _ _ _) as [[| |] w4]; exact Q4.
Qed.
Lemma sess_written_to_quiet w r c v : quietO w (sess_written_to RC w r c v).
Proof.
  unfold sess_written_to.
  assert (Q0 : quiet w (set_content w r v)) by apply quiet_set_content.
  set (w0 := set_content w r v) in *.
  destruct (cur w0) as [t|]; [|exact Q0].
  assert (Q2 : quiet w (get_or_create_resource_node (emit w0 (EWriteStart r c)) r)).
  { eapply quiet_trans; [exact Q0|]. eapply quiet_trans; [|apply quiet_goc_res]; [apply quiet_emit; reflexivity]. }
  set (w2 := get_or_create_resource_node (emit w0 (EWriteStart r c)) r) in *.
  destruct (validate_write w2 t r); [exact Q2|].
  destruct (rc_stamp _ _ _ _) as [st|e]; [|exact Q2].
  assert (Q4 : quiet w (snd (add_dependency (emit w2 (EWriteEnd r c st)) (tn t) (rn r) (DWrite r c st)))).
  { eapply quiet_trans; [exact Q2|]. eapply quiet_trans; [|apply quiet_add_dependency]; [apply quiet_emit; reflexivity]. }
  destruct (add_dependency _ _ _ _) as [[| |] w4]; exact Q4.
Qed.
Lemma reserve_quiet w t : quietO w (reserve_require_dependency w t).
Proof.
  unfold reserve_require_dependency. destruct (cur w) as [s|]; [|apply quiet_refl].
  pose proof (quiet_add_dependency w (tn s) (tn t) DReserved) as Q. destruct (add_dependency _ _ _ _) as [[| |] w']; exact Q.
Qed.
Lemma update_quiet w t c st : quietO w (update_require_dependency w t c st).
Proof.
  unfold update_require_dependency. destruct (cur w) as [s|]; [|apply quiet_refl].
  destruct (get_edata _ _ _); [apply quiet_same; reflexivity|apply quiet_refl].
Qed.

Lemma XI_preserved : Preserved RC XI.
Proof.
  constructor.
  - intros w e He H. eapply quiet_XI; [apply quiet_emit; exact He|exact H].
  - intros w t H. eapply quiet_XI; [apply quiet_goc_task|exact H].
  - intros w t H. apply (quietO_ok w); [apply reserve_quiet|exact H].
  - intros w t c st H. apply (quietO_ok w); [apply update_quiet|exact H].
  - intros w r c H. apply (quietO_ok w); [apply sess_read_quiet|exact H].
  - intros w r c v H. apply (quietO_ok w); [apply sess_write_quiet|exact H].
  - intros w r c v H. apply (quietO_ok w); [apply sess_written_to_quiet|exact H].
  - (* execution start: output dropped, start event emitted *)
    intros w t H t'. specialize (H t'). cbn [trace emit set_cur reset_task set_gr set_outs last_exec].
    unfold get_task_output. cbn [outs emit set_cur reset_task set_gr set_outs].
    destruct (N.eqb_spec t t') as [->|Hne]; [apply alookup_aremove_eq|].
    rewrite alookup_aremove_other by congruence. exact H.
  - (* execution end: end event emitted, output stored *)
    intros w w0 t o H t'. specialize (H t'). cbn [trace emit set_cur set_task_output set_outs last_exec].
    unfold get_task_output. cbn [outs emit set_cur set_task_output set_outs].
    destruct (N.eqb_spec t t') as [->|Hne]; [apply alookup_aset_eq|].
    rewrite alookup_aset_other by congruence. exact H.
  - intros w t H. exact H.
  - intros w e H. exact H.
  - intros w q H. exact H.
  - intros w r H. eapply quiet_XI; [apply quiet_goc_res|exact H].
Qed.

Variable always : ocid.

Lemma XI_set_cur_none w : XI w -> XI (set_cur w None). Proof. intros H. exact H. Qed.
Lemma XI_new_session w : XI (new_session w). Proof. intros t. cbn. exact Logic.I. Qed.

(* every session operation, completed or aborted, from any world with XI *)
Theorem session_require_XI fuel w t : XI w -> okO XI (session_require RC OC P always fuel w t).
Proof. intros H. apply (session_require_ok RC OC P XI XI_preserved always XI_set_cur_none); exact H. Qed.
Theorem session_bottom_up_XI fuel w ch : XI w -> okO XI (session_bottom_up RC OC P fuel w ch).
Proof. intros H. apply (session_bottom_up_ok RC OC P XI XI_preserved XI_set_cur_none); exact H. Qed.

Lemma run_sop_XI fuel w o : XI w -> XI (snd (run_sop RC OC P always fuel w o)) \/
  (exists w', run_sop RC OC P always fuel w o = (RAbort (ABug 4), w')).
Proof.
  intros H. destruct o as [t|ch]; cbn [run_sop].
  - pose proof (session_require_XI fuel w t H) as X. destruct (session_require _ _ _ _ _ _ _) as [x w'|k w'|]; cbn in *; [left; exact X| |left; exact H].
    destruct X as [->|X]; [right; eexists; reflexivity|left; exact X].
  - pose proof (session_bottom_up_XI fuel w ch H) as X. destruct (session_bottom_up _ _ _ _ _ _) as [x w'|k w'|]; cbn in *; [left; exact X| |left; exact H].
    destruct X as [->|X]; [right; eexists; reflexivity|left; exact X].
Qed.

(* sessions: started by new_session, any list of operations; the model-only abort ABug 4 aside *)
Theorem run_session_XI fuel ops : forall w, XI w ->
  XI (snd (run_session RC OC P always fuel w ops)) \/ In (RAbort (ABug 4)) (fst (run_session RC OC P always fuel w ops)).
Proof.
  induction ops as [|o tl IH]; intros w H; cbn [run_session]; [left; exact H|].
  destruct (run_sop_XI fuel w o H) as [X|[w' X]].
  - destruct (run_sop RC OC P always fuel w o) as [[x| k|] w'] eqn:E; cbn [snd] in X.
    + destruct (IH w' X) as [Y|Y]; destruct (run_session RC OC P always fuel w' tl) as [rs w'']; cbn [fst snd] in *; [left; exact Y|right; right; exact Y].
    + left. exact X.
    + left. exact X.
  - rewrite X. right. left. reflexivity.
Qed.

End EE.

(* ---- every history from the empty instance ---- *)
From PieV Require Import Proofs.NoBug4 Proofs.NoBug4All.

Section EEH.
Variable RC : rcid -> rchecker.
Variable OC : ocid -> ochecker.
Variable P : task -> prog.
Variable always : ocid.

Lemma XI_set_content w r v : XI w -> XI (set_content w r v).
Proof. intros H. eapply quiet_XI; [apply quiet_set_content|exact H]. Qed.

Lemma run_step_XI fuel w s : XI w ->
  XI (snd (run_step RC OC P always fuel w s)) \/ In (RAbort (ABug 4)) (fst (run_step RC OC P always fuel w s)).
Proof.
  intros H. destruct s as [r v|f|ops]; cbn [run_step fst snd].
  - left. apply XI_set_content. exact H.
  - left. exact H.
  - apply run_session_XI. apply XI_new_session.
Qed.

Theorem run_history_XI fuel h : forall w, XI w ->
  XI (snd (run_history RC OC P always fuel w h)) \/
  Exists (fun rs => In (RAbort (ABug 4)) rs) (fst (run_history RC OC P always fuel w h)).
Proof.
  induction h as [|s tl IH]; intros w H; cbn [run_history]; [left; exact H|].
  destruct (run_step_XI fuel w s H) as [X|X]; destruct (run_step RC OC P always fuel w s) as [r w'] eqn:E; cbn [fst snd] in X.
  - destruct (IH w' X) as [Y|Y]; destruct (run_history RC OC P always fuel w' tl) as [rs w''] eqn:E2; cbn [fst snd] in *.
    + left. exact Y.
    + right. apply Exists_cons_tl. exact Y.
  - destruct (run_history RC OC P always fuel w' tl) as [rs w'']. cbn [fst]. right. apply Exists_cons_hd. exact X.
Qed.

Lemma XI_init : XI init_world. Proof. intros t. cbn. exact Logic.I. Qed.

(* the model-only abort is unreachable (NoBug4All.history_no_bug4), so: after EVERY history the latest execution event of every
   task in the last session's stream agrees with the store *)
Theorem exec_events_agree_with_outputs_any_history fuel h :
  XI (snd (run_history RC OC P always fuel init_world h)).
Proof.
  destruct (run_history_XI fuel h init_world XI_init) as [X|X]; [exact X|exfalso].
  destruct (history_no_bug4 RC OC P always fuel h) as [NB _]. apply NB.
  eapply Exists_impl; [|exact X]. intros rs Hin. apply Exists_exists. exists (RAbort (ABug 4)). split; [exact Hin|].
  cbn. reflexivity.
Qed.
End EEH.

(* The execution-stack argument for top-down builds, for all programs, checkers, worlds and fuel:
   - a task that is executing (or being validated) is never entered again (C07: no re-entry, any cycle length);
   - within a session every task is executed at most once, and only if it was not yet consistent (C02);
   - a nested build leaves the recorded dependencies and outputs of all tasks on the stack untouched (frame);
   - no internal-invariant error ("BUG" panics of the code: ABug 1, 2, 3, 5) can occur, also not in builds that start
     from the store an aborted build left behind (C19).
   The stack S is a ghost: the list of tasks whose make_task_consistent is in progress, innermost first. *)
From Coq Require Import List NArith ZArith Bool Lia.
From PieV Require Import Model.Dag Model.Build Proofs.DagLib Proofs.DagWF Proofs.DagPath Proofs.DagAddEdge Proofs.DagViews
  Proofs.Inv Proofs.StoreInv Proofs.Effects.
Import ListNotations.
Open Scope N_scope.

Definition edge (w : world) (a b : task) : Prop := In (tn b) (kids_of (gr w) (tn a)).
Fixpoint chain_ok (w : world) (S : list task) : Prop :=
  match S with
  | inner :: ((outer :: _) as tl) => edge w outer inner /\ chain_ok w tl
  | _ => True
  end.
Definition Chain (w : world) (S : list task) : Prop := NoDup S /\ chain_ok w S.
Definition entry_ok (w : world) (S : list task) (t : task) : Prop := match S with [] => True | top :: _ => edge w top t end.

Definition execs (seg : list event) : list task := flat_map (fun e => match e with EExecStart t => [t] | _ => [] end) seg.
Lemma execs_app a b : execs (a ++ b) = execs a ++ execs b. Proof. unfold execs. apply flat_map_app. Qed.

Definition cons_mono (w w' : world) : Prop := forall x, memN x (consistent w) = true -> memN x (consistent w') = true.

(* the second store invariant (beside StoreOK): a reserved require edge only leaves a task without output (executing,
   or aborted); a task marked consistent in the session has an output *)
Definition NoRes (w : world) : Prop := forall t d, get_edata (gr w) (tn t) d = Some DReserved -> get_task_output w t = None.
Definition ConsOut (w : world) : Prop := forall t, memN t (consistent w) = true -> get_task_output w t <> None.
Definition Inv2 (w : world) : Prop := NoRes w /\ ConsOut w.
Definition NoResAt (w : world) (t : task) : Prop := forall d, get_edata (gr w) (tn t) d <> Some DReserved.
(* aborts that exist for a user-level reason (task panic, cycle, hidden dependency, overlapping write) *)
Definition user_abort (k : akind) : Prop := match k with ABug _ => False | _ => True end.

(* what a (sub)computation did, relative to the stack S (recorded dependencies and outputs untouched) and the tasks G whose
   own dependency lists may have grown; pend = executed tasks that are not yet marked consistent at the end *)
Record Post (S G pend : list task) (w w' : world) (seg : list event) : Prop := mkPost {
  po_ok : StoreOK w';
  po_frame : forall s, In s S -> kids_of (gr w') (tn s) = kids_of (gr w) (tn s);
  po_grow : forall g x, In g G -> In x (kids_of (gr w) (tn g)) -> In x (kids_of (gr w') (tn g));
  po_live : forall m, live (gr w) m = true -> live (gr w') m = true;
  po_seg : trace w' = rev seg ++ trace w;
  po_nodup : NoDup (execs seg);
  po_fresh : forall x, In x (execs seg) -> ~ In x S /\ ~ In x G /\ memN x (consistent w) = false;
  po_mono : cons_mono w w';
  po_cons : forall x, In x (execs seg) -> memN x (consistent w') = true \/ In x pend;
  po_keep : forall s, In s S \/ In s G -> memN s (consistent w') = true -> memN s (consistent w) = true;
  po_eframe : forall s d, In s S -> get_edata (gr w') (tn s) d = get_edata (gr w) (tn s) d;
  po_oframe : forall s, In s S \/ In s G -> get_task_output w' s = get_task_output w s;
  po_inv : Inv2 w -> Inv2 w';
  po_others : forall m, ~ In m (execs seg) -> ~ In m G ->
    kids_of (gr w') (tn m) = kids_of (gr w) (tn m) /\
    (forall d, get_edata (gr w') (tn m) d = get_edata (gr w) (tn m) d) /\
    get_task_output w' m = get_task_output w m;
  (* a task becomes consistent only by being executed, or by being reused (then it had an output before) *)
  po_newcons : forall x, memN x (consistent w') = true ->
    memN x (consistent w) = true \/ In x (execs seg) \/ get_task_output w x <> None;
  po_pendex : forall x, In x pend -> In x (execs seg) \/ get_task_output w x <> None
}.

Lemma tn_inj a b : tn a = tn b -> a = b. Proof. unfold tn. lia. Qed.

(* ---- association lists ---- *)
Lemma alookup_aremove_other {V} (l : list (N * V)) k k' : k' <> k -> alookup (aremove l k) k' = alookup l k'.
Proof.
  intros Hne. induction l as [|[a v] tl IH]; cbn; [reflexivity|].
  destruct (N.eqb_spec a k) as [->|Ha]; cbn.
  - destruct (N.eqb_spec k k'); [congruence|exact IH].
  - destruct (N.eqb a k'); [reflexivity|exact IH].
Qed.
Lemma alookup_app_some {V} (l1 l2 : list (N * V)) k v : alookup l1 k = Some v -> alookup (l1 ++ l2) k = Some v.
Proof. induction l1 as [|[a x] tl IH]; cbn; [discriminate|]. destruct (N.eqb a k); [tauto|exact IH]. Qed.
Lemma alookup_app_none {V} (l1 l2 : list (N * V)) k : alookup l1 k = None -> alookup (l1 ++ l2) k = alookup l2 k.
Proof. induction l1 as [|[a x] tl IH]; cbn; [reflexivity|]. destruct (N.eqb a k); [discriminate|exact IH]. Qed.
Lemma alookup_aset_other {V} (l : list (N * V)) k v k' : k' <> k -> alookup (aset l k v) k' = alookup l k'.
Proof.
  intros Hne. unfold aset. destruct (alookup (aremove l k) k') as [x|] eqn:E.
  - rewrite (alookup_app_some _ _ _ _ E). rewrite <- E. apply alookup_aremove_other. exact Hne.
  - rewrite (alookup_app_none _ _ _ E). cbn. destruct (N.eqb_spec k k'); [congruence|]. rewrite <- E. apply alookup_aremove_other. exact Hne.
Qed.
Lemma alookup_aset_eq {V} (l : list (N * V)) k v : alookup (aset l k v) k = Some v.
Proof.
  unfold aset. assert (E : alookup (aremove l k) k = None).
  { induction l as [|[a x] tl IH]; cbn; [reflexivity|]. destruct (N.eqb a k) eqn:Z; cbn; [exact IH|rewrite Z; exact IH]. }
  rewrite (alookup_app_none _ _ _ E). cbn. rewrite N.eqb_refl. reflexivity.
Qed.
Lemma alookup_aremove_eq {V} (l : list (N * V)) k : alookup (aremove l k) k = None.
Proof. induction l as [|[a x] tl IH]; cbn; [reflexivity|]. destruct (N.eqb a k) eqn:Z; cbn; [exact IH|rewrite Z; exact IH]. Qed.

(* ---- chains ---- *)
Lemma chain_path w S s : chain_ok w S -> In s S -> forall top, hd_error S = Some top -> s = top \/ path (gr w) (tn s) (tn top).
Proof.
  induction S as [|a tl IH]; intros C Hs top Ht; [destruct Hs|]. cbn in Ht. inversion Ht; subst a.
  destruct Hs as [<-|Hs]; [left; reflexivity|]. right.
  destruct tl as [|b tl']; [destruct Hs|]. destruct C as [E C'].
  destruct (IH C' Hs b eq_refl) as [->|Pth]; [apply path1; exact E|eapply path_snoc; eassumption].
Qed.

Lemma entry_not_in w S t : WF (gr w) -> Chain w S -> entry_ok w S t -> ~ In t S.
Proof.
  intros W [_ C] E Hin. destruct S as [|top tl]; [destruct Hin|]. cbn in E.
  destruct (chain_path w (top :: tl) t C Hin top eq_refl) as [->|Pth].
  - eapply wf_noloop; eassumption.
  - eapply WF_acyclic; [exact W|]. eapply path_snoc; eassumption.
Qed.

Lemma chain_frame w w' S : chain_ok w S -> (forall s, In s S -> kids_of (gr w') (tn s) = kids_of (gr w) (tn s)) -> chain_ok w' S.
Proof.
  induction S as [|a tl IH]; intros C F; [exact I|]. destruct tl as [|b tl']; [exact I|]. destruct C as [E C']. split.
  - unfold edge in *. rewrite F by (right; left; reflexivity). exact E.
  - apply IH; [exact C'|]. intros s Hs. apply F. right. exact Hs.
Qed.
Lemma chain_grow w w' S g : chain_ok w (g :: S) ->
  (forall s, In s S -> kids_of (gr w') (tn s) = kids_of (gr w) (tn s)) -> chain_ok w' (g :: S).
Proof.
  intros C F. destruct S as [|b tl]; [exact I|]. destruct C as [E C']. split.
  - unfold edge in *. rewrite F by (left; reflexivity). exact E.
  - apply (chain_frame w w'); assumption.
Qed.

(* ---- Post algebra ---- *)
Lemma post_refl S G w : StoreOK w -> Post S G [] w w [].
Proof.
  intros H. constructor; try tauto; try (intros; reflexivity); cbn; try constructor; try tauto.
  intros x X; exact X.
Qed.

Lemma post_quiet S G w w' :
  StoreOK w' -> (forall m, kids_of (gr w') m = kids_of (gr w) m) -> (forall m, live (gr w) m = true -> live (gr w') m = true) ->
  trace w' = trace w -> consistent w' = consistent w -> (forall u v, get_edata (gr w') u v = get_edata (gr w) u v) -> outs w' = outs w ->
  Post S G [] w w' [].
Proof.
  intros H K L T M E O. constructor.
  - exact H.
  - intros s _. apply K.
  - intros g x _ X. rewrite K. exact X.
  - exact L.
  - exact T.
  - constructor.
  - intros x [].
  - intros x X. rewrite M. exact X.
  - intros x [].
  - intros s _ X. rewrite <- M. exact X.
  - intros s d _. apply E.
  - intros s _. unfold get_task_output. rewrite O. reflexivity.
  - intros [N C]. split.
    + intros t d X. rewrite E in X. unfold get_task_output. rewrite O. apply (N t d X).
    + intros t X. rewrite M in X. unfold get_task_output. rewrite O. apply (C t X).
  - intros m _ _. split; [apply K|]. split; [intros d; apply E|]. unfold get_task_output. rewrite O. reflexivity.
  - intros x X. left. rewrite <- M. exact X.
  - intros x [].
Qed.

Lemma post_seq S G pend w w1 w2 a b :
  Post S G [] w w1 a -> Post S G pend w1 w2 b -> Post S G pend w w2 (a ++ b).
Proof.
  intros [A1 A2 A3 A4 A5 A6 A7 A8 A9 A10 A11 A12 A13 A14 A15 A16] [B1 B2 B3 B4 B5 B6 B7 B8 B9 B10 B11 B12 B13 B14 B15 B16]. constructor.
  - exact B1.
  - intros s Hs. rewrite B2, A2 by exact Hs. reflexivity.
  - intros g x Hg X. apply B3; [exact Hg|]. apply A3; assumption.
  - intros m L. apply B4, A4. exact L.
  - rewrite B5, A5, rev_app_distr, app_assoc. reflexivity.
  - rewrite execs_app. apply NoDup_app_intro_t; try assumption.
    intros x X Y. destruct (A9 x X) as [Z|[]]. destruct (B7 x Y) as [_ [_ Z']]. congruence.
  - intros x X. rewrite execs_app in X. apply in_app_or in X. destruct X as [X|X]; [apply A7; exact X|].
    destruct (B7 x X) as [P1 [P2 P3]]. split; [exact P1|]. split; [exact P2|].
    destruct (memN x (consistent w)) eqn:Z; [|reflexivity]. apply A8 in Z. congruence.
  - intros x X. apply B8, A8. exact X.
  - intros x X. rewrite execs_app in X. apply in_app_or in X. destruct X as [X|X]; [|apply B9; exact X].
    destruct (A9 x X) as [Z|[]]. left. apply B8. exact Z.
  - intros s Hs X. apply A10; [exact Hs|]. apply B10; assumption.
  - intros s d Hs. rewrite B11, A11 by exact Hs. reflexivity.
  - intros s Hs. rewrite B12, A12 by exact Hs. reflexivity.
  - intros X. apply B13, A13. exact X.
  - intros m Hm Hg. rewrite execs_app in Hm.
    destruct (A14 m (fun X => Hm (in_or_app _ _ _ (or_introl X))) Hg) as [P1 [P2 P3]].
    destruct (B14 m (fun X => Hm (in_or_app _ _ _ (or_intror X))) Hg) as [Q1 [Q2 Q3]].
    split; [rewrite Q1, P1; reflexivity|]. split; [intros d; rewrite Q2, P2; reflexivity|rewrite Q3, P3; reflexivity].
  - intros x X. destruct (B15 x X) as [Y|[Y|Y]].
    + destruct (A15 x Y) as [Z|[Z|Z]]; [left; exact Z|right; left; rewrite execs_app; apply in_or_app; left; exact Z|right; right; exact Z].
    + right. left. rewrite execs_app. apply in_or_app. right. exact Y.
    + destruct (in_dec N.eq_dec x (execs a)) as [I|NI]; [right; left; rewrite execs_app; apply in_or_app; left; exact I|].
      right. right. destruct (in_dec N.eq_dec x G) as [IG|NG].
      * rewrite <- (A12 x (or_intror IG)). exact Y.
      * destruct (A14 x NI NG) as [_ [_ O]]. rewrite <- O. exact Y.
  - intros x X. destruct (B16 x X) as [Y|Y]; [left; rewrite execs_app; apply in_or_app; right; exact Y|].
    destruct (in_dec N.eq_dec x (execs a)) as [I|NI]; [left; rewrite execs_app; apply in_or_app; left; exact I|].
    right. destruct (in_dec N.eq_dec x G) as [IG|NG].
    + rewrite <- (A12 x (or_intror IG)). exact Y.
    + destruct (A14 x NI NG) as [_ [_ O]]. rewrite <- O. exact Y.
Qed.

(* weaker record for aborted computations: what was executed before the abort, and the invariants of the store left behind *)
Record PostA (S G : list task) (w w' : world) (seg : list event) : Prop := mkPostA {
  pa_ok : StoreOK w';
  pa_seg : trace w' = rev seg ++ trace w;
  pa_nodup : NoDup (execs seg);
  pa_fresh : forall x, In x (execs seg) -> ~ In x S /\ ~ In x G /\ memN x (consistent w) = false;
  pa_inv : Inv2 w -> Inv2 w'
}.
Lemma post_to_A S G pend w w' seg : Post S G pend w w' seg -> PostA S G w w' seg.
Proof. intros [A1 A2 A3 A4 A5 A6 A7 A8 A9 A10 A11 A12 A13 A14 A15 A16]. constructor; assumption. Qed.
Lemma postA_seq S G w w1 w2 a b : Post S G [] w w1 a -> PostA S G w1 w2 b -> PostA S G w w2 (a ++ b).
Proof.
  intros [A1 A2 A3 A4 A5 A6 A7 A8 A9 A10 A11 A12 A13 A14 A15 A16] [B1 B5 B6 B7 B13]. constructor.
  - exact B1.
  - rewrite B5, A5, rev_app_distr, app_assoc. reflexivity.
  - rewrite execs_app. apply NoDup_app_intro_t; try assumption.
    intros x X Y. destruct (A9 x X) as [Z|[]]. destruct (B7 x Y) as [_ [_ Z']]. congruence.
  - intros x X. rewrite execs_app in X. apply in_app_or in X. destruct X as [X|X]; [apply A7; exact X|].
    destruct (B7 x X) as [P1 [P2 P3]]. split; [exact P1|]. split; [exact P2|].
    destruct (memN x (consistent w)) eqn:Z; [|reflexivity]. apply A8 in Z. congruence.
  - intros X. apply B13, A13. exact X.
Qed.

Definition okP {A} (S G pend : list task) (w : world) (m : outcome A) (extra : A -> world -> Prop) : Prop :=
  match m with
  | Done a w' => (exists seg, Post S G pend w w' seg) /\ extra a w'
  | Abort k w' => k = ABug 4 \/ (user_abort k /\ exists seg, PostA S G w w' seg)
  | OutOfFuel => True
  end.

(* ---- leaf operations of an executing task t: only t's dependency list may grow; nothing is executed ---- *)
Record Leaf (t : task) (w w' : world) : Prop := mkLeaf {
  lf_ok : StoreOK w';
  lf_grows : grows_at (gr w) (gr w') (tn t);
  lf_seg : exists seg, trace w' = rev seg ++ trace w /\ execs seg = [];
  lf_cons : consistent w' = consistent w;
  lf_cur : cur w' = cur w;
  lf_eother : forall m d, m <> tn t -> get_edata (gr w') m d = get_edata (gr w) m d;
  lf_outs : outs w' = outs w
}.

Lemma leaf_refl t w : StoreOK w -> Leaf t w w.
Proof. intros H. constructor; [exact H|apply grows_refl|exists []; split; reflexivity|reflexivity|reflexivity|reflexivity|reflexivity]. Qed.
Lemma leaf_trans t w1 w2 w3 : Leaf t w1 w2 -> Leaf t w2 w3 -> Leaf t w1 w3.
Proof.
  intros [A1 A2 [sa [A3 A3']] A4 A5 A6 A7] [B1 B2 [sb [B3 B3']] B4 B5 B6 B7]. constructor.
  - exact B1. - eapply grows_trans; eassumption.
  - exists (sa ++ sb). split; [rewrite B3, A3, rev_app_distr, app_assoc; reflexivity|rewrite execs_app, A3', B3'; reflexivity].
  - congruence. - congruence.
  - intros m d Hm. rewrite B6, A6 by exact Hm. reflexivity.
  - congruence.
Qed.
Definition noexec (e : event) : Prop := match e with EExecStart _ => False | _ => True end.
Lemma leaf_emit t w e : StoreOK w -> noexec e -> Leaf t w (emit w e).
Proof.
  intros H N. constructor; [exact H|apply grows_refl| |reflexivity|reflexivity|reflexivity|reflexivity].
  exists [e]. split; [reflexivity|]. destruct e; try reflexivity. destruct N.
Qed.
Lemma leaf_goc_res t w r : StoreOK w -> Leaf t w (get_or_create_resource_node w r).
Proof.
  intros H. constructor.
  - apply goc_res_ok. exact H.
  - unfold get_or_create_resource_node. destruct (live (gr w) (rn r)) eqn:L; [apply grows_refl|].
    apply same_grows. apply add_node_same. exact L.
  - exists []. split; [|reflexivity]. unfold get_or_create_resource_node. destruct (live _ _); reflexivity.
  - unfold get_or_create_resource_node. destruct (live _ _); reflexivity.
  - unfold get_or_create_resource_node. destruct (live _ _); reflexivity.
  - intros m d _. unfold get_or_create_resource_node. destruct (live _ _); reflexivity.
  - unfold get_or_create_resource_node. destruct (live _ _); reflexivity.
Qed.
Lemma leaf_goc_task t w x : StoreOK w -> Leaf t w (get_or_create_task_node w x).
Proof.
  intros H. constructor.
  - apply goc_task_ok. exact H.
  - unfold get_or_create_task_node. destruct (live (gr w) (tn x)) eqn:L; [apply grows_refl|].
    apply same_grows. apply add_node_same. exact L.
  - exists []. split; [|reflexivity]. unfold get_or_create_task_node. destruct (live _ _); reflexivity.
  - unfold get_or_create_task_node. destruct (live _ _); reflexivity.
  - unfold get_or_create_task_node. destruct (live _ _); reflexivity.
  - intros m d _. unfold get_or_create_task_node. destruct (live _ _); reflexivity.
  - unfold get_or_create_task_node. destruct (live _ _); reflexivity.
Qed.
Lemma leaf_set_content t w r v : StoreOK w -> Leaf t w (set_content w r v).
Proof. intros H. destruct v; (constructor; [exact H|apply grows_refl|exists []; split; reflexivity|reflexivity|reflexivity|reflexivity|reflexivity]). Qed.

(* adding a dependency from the executing task *)
Lemma add_dependency_edata w s d dp :
  WF (gr w) ->
  match add_dependency w s d dp with
  | (AddBug, _) => True
  | (_, w') => forall m v, get_edata (gr w') m v = get_edata (gr w) m v \/
                           (m = s /\ v = d /\ get_edata (gr w) m v = None /\ get_edata (gr w') m v = Some dp)
  end.
Proof.
  intros W. unfold add_dependency. pose proof (add_edge_view (gr w) s d dp W) as V.
  destruct (add_edge (gr w) s d dp) as [[[|]|[|]|] g'] eqn:E; cbn [fst snd] in *; cbn [gr set_gr]; try exact I.
  - destruct V as [NK [_ [_ [_ VE]]]]. intros m v. rewrite VE. destruct (pair_eqb (s, d) (m, v)) eqn:Z; [|left; reflexivity].
    apply pair_eqb_eq in Z. inversion Z; subst. right. repeat split.
    destruct (get_edata (gr w) m v) eqn:X; [|reflexivity]. exfalso. apply NK. apply (wf_edata _ W). congruence.
  - destruct V as [-> _]. intros; left; reflexivity.
  - rewrite V. intros; left; reflexivity.
Qed.

Lemma leaf_add_dependency t w d dp :
  StoreOK w -> dep_target_ok d dp ->
  (is_write (Some dp) = true -> forall r, d = rn r -> writers (gr w) r = []) ->
  match add_dependency w (tn t) d dp with
  | (AddBug, _) => True
  | (_, w') => Leaf t w w'
  end.
Proof.
  intros H Hd Hw. pose proof (add_dependency_ok w (tn t) d dp H (tn_even t) Hd Hw) as A.
  pose proof (add_dependency_grows w (tn t) d dp (proj1 H)) as G.
  pose proof (add_dependency_edata w (tn t) d dp (proj1 H)) as ED.
  assert (T : forall w', snd (add_dependency w (tn t) d dp) = w' -> trace w' = trace w /\ consistent w' = consistent w /\ cur w' = cur w /\ outs w' = outs w).
  { intros w' <-. unfold add_dependency. destruct (add_edge _ _ _ _) as [[b|[|]|] g']; repeat split. }
  destruct (add_dependency w (tn t) d dp) as [[| |] w']; cbn [snd] in *; try exact I;
  destruct (T w' eq_refl) as [T1 [T2 [T3 T4]]];
  (constructor; [exact A|exact G|exists []; split; [exact T1|reflexivity]|exact T2|exact T3| |exact T4]);
  intros m v Hm; (destruct (ED m v) as [X|[X _]]; [exact X|congruence]).
Qed.

Lemma add_dependency_edge w s d dp w' :
  WF (gr w) -> add_dependency w s d dp = (AddOk, w') -> In d (kids_of (gr w') s).
Proof.
  intros W. unfold add_dependency. pose proof (add_edge_view (gr w) s d dp W) as V.
  destruct (add_edge (gr w) s d dp) as [[[|]|[|]|] g'] eqn:E; cbn [fst snd] in V; intros H; inversion H; subst; cbn [gr set_gr].
  - destruct V as [_ [_ [VK _]]]. rewrite VK, N.eqb_refl. apply in_or_app. right. left. reflexivity.
  - destruct V as [-> X]. exact X.
Qed.

(* a leaf step keeps the second invariant, provided the executing task has no output (it was reset) *)
Lemma leaf_inv t w w' : Leaf t w w' -> get_task_output w t = None -> Inv2 w -> Inv2 w'.
Proof.
  intros [A1 A2 A3 A4 A5 A6 A7] Ho [N C]. split.
  - intros t' d X. unfold get_task_output. rewrite A7. destruct (N.eq_dec t' t) as [->|Hne]; [exact Ho|].
    rewrite A6 in X by (intros E; apply tn_inj in E; contradiction). apply (N t' d X).
  - intros t' X. rewrite A4 in X. unfold get_task_output. rewrite A7. apply (C t' X).
Qed.
Lemma leaf_out t w w' x : Leaf t w w' -> get_task_output w' x = get_task_output w x.
Proof. intros L. unfold get_task_output. rewrite (lf_outs _ _ _ L). reflexivity. Qed.

Definition leafO {A} (t : task) (w : world) (m : outcome A) : Prop :=
  match m with Done _ w' => Leaf t w w' | Abort k w' => k = ABug 4 \/ (user_abort k /\ Leaf t w w') | OutOfFuel => True end.
(* the dependency data of the executing task after a read/write: nothing reserved is added *)
Definition noresO {A} (t : task) (m : outcome A) : Prop :=
  match m with Done _ w' => NoResAt w' t | Abort k w' => k = ABug 4 \/ NoResAt w' t | OutOfFuel => True end.

Lemma nores_add t w d dp : WF (gr w) -> dp <> DReserved -> NoResAt w t ->
  match add_dependency w (tn t) d dp with (AddBug, _) => True | (_, w') => NoResAt w' t end.
Proof.
  intros W Hdp Hn. pose proof (add_dependency_edata w (tn t) d dp W) as ED.
  destruct (add_dependency w (tn t) d dp) as [[| |] w']; try exact I;
  (intros v X; destruct (ED (tn t) v) as [Y|[_ [_ [_ Y]]]]; [rewrite Y in X; apply (Hn v X)|rewrite Y in X; inversion X; congruence]).
Qed.
Lemma nores_same t w w' : (forall u v, get_edata (gr w') u v = get_edata (gr w) u v) -> NoResAt w t -> NoResAt w' t.
Proof. intros E Hn d. rewrite E. apply Hn. Qed.
Lemma edata_goc_res w r u v : get_edata (gr (get_or_create_resource_node w r)) u v = get_edata (gr w) u v.
Proof. unfold get_or_create_resource_node. destruct (live _ _); reflexivity. Qed.
Lemma edata_goc_task w r u v : get_edata (gr (get_or_create_task_node w r)) u v = get_edata (gr w) u v.
Proof. unfold get_or_create_task_node. destruct (live _ _); reflexivity. Qed.
Lemma edata_set_content w r c u v : get_edata (gr (set_content w r c)) u v = get_edata (gr w) u v.
Proof. destruct c; reflexivity. Qed.

Section X.
Variable RC : rcid -> rchecker.
Variable OC : ocid -> ochecker.
Variable P : task -> prog.

Lemma sess_read_leaf w t r c : StoreOK w -> cur w = Some t -> leafO t w (sess_read RC w r c).
Proof.
  intros H Hc. unfold sess_read. rewrite Hc.
  assert (L2 : Leaf t w (get_or_create_resource_node (emit w (EReadStart r c)) r)).
  { eapply leaf_trans; [apply (leaf_emit t w (EReadStart r c) H Logic.I)|apply leaf_goc_res; exact H]. }
  set (w2 := get_or_create_resource_node (emit w (EReadStart r c)) r) in *.
  destruct (hidden_read_check w2 t r); [right; split; [exact Logic.I|exact L2]|].
  destruct (rc_stamp _ _ _ _) as [st|e]; [|exact L2].
  assert (L3 : Leaf t w (emit w2 (EReadEnd r c st))) by (eapply leaf_trans; [exact L2|apply leaf_emit; [apply L2|exact Logic.I]]).
  pose proof (leaf_add_dependency t (emit w2 (EReadEnd r c st)) (rn r) (DRead r c st) (lf_ok _ _ _ L3) eq_refl) as A.
  assert (Hw : is_write (Some (DRead r c st)) = true -> forall r0, rn r = rn r0 -> writers (gr (emit w2 (EReadEnd r c st))) r0 = []) by (intros X; discriminate).
  specialize (A Hw). destruct (add_dependency _ _ _ _) as [[| |] w4]; cbn [leafO].
  - eapply leaf_trans; eassumption. - eapply leaf_trans; eassumption. - left. reflexivity.
Qed.
Lemma sess_read_nores w t r c : StoreOK w -> cur w = Some t -> NoResAt w t -> noresO t (sess_read RC w r c).
Proof.
  intros H Hc Hn. unfold sess_read. rewrite Hc.
  set (w2 := get_or_create_resource_node (emit w (EReadStart r c)) r).
  assert (N2 : NoResAt w2 t) by (eapply nores_same; [|exact Hn]; intros u v; unfold w2; rewrite edata_goc_res; reflexivity).
  assert (W2 : WF (gr w2)) by (apply goc_res_ok; exact H).
  destruct (hidden_read_check w2 t r); [right; exact N2|].
  destruct (rc_stamp _ _ _ _) as [st|e]; [|exact N2].
  pose proof (nores_add t (emit w2 (EReadEnd r c st)) (rn r) (DRead r c st) W2 ltac:(discriminate) N2) as A.
  destruct (add_dependency _ _ _ _) as [[| |] w4]; cbn [noresO]; [exact A|exact A|left; reflexivity].
Qed.

Lemma validate_write_user w t r k : validate_write w t r = Some k -> user_abort k.
Proof. unfold validate_write. destruct (get_task_writing_to_resource w r); [intros X; inversion X; exact I|]. destruct (existsb _ _); intros X; inversion X. exact I. Qed.

Lemma sess_write_leaf w t r c v : StoreOK w -> cur w = Some t -> leafO t w (sess_write RC w r c v).
Proof.
  intros H Hc. unfold sess_write. rewrite Hc.
  assert (L2 : Leaf t w (get_or_create_resource_node (emit w (EWriteStart r c)) r)).
  { eapply leaf_trans; [apply (leaf_emit t w (EWriteStart r c) H Logic.I)|apply leaf_goc_res; exact H]. }
  set (w2 := get_or_create_resource_node (emit w (EWriteStart r c)) r) in *.
  destruct (validate_write w2 t r) as [k|] eqn:V; [right; split; [eapply validate_write_user; exact V|exact L2]|].
  assert (NW : get_task_writing_to_resource w2 r = None).
  { unfold validate_write in V. destruct (get_task_writing_to_resource w2 r); [discriminate|reflexivity]. }
  assert (L3 : Leaf t w (set_content w2 r v)) by (eapply leaf_trans; [exact L2|apply leaf_set_content; apply L2]).
  destruct (rc_stamp _ _ _ _) as [st|e]; [|exact L3].
  assert (L4 : Leaf t w (emit (set_content w2 r v) (EWriteEnd r c st))) by (eapply leaf_trans; [exact L3|apply leaf_emit; [apply L3|exact Logic.I]]).
  pose proof (leaf_add_dependency t (emit (set_content w2 r v) (EWriteEnd r c st)) (rn r) (DWrite r c st) (lf_ok _ _ _ L4) eq_refl) as A.
  assert (G : gr (emit (set_content w2 r v) (EWriteEnd r c st)) = gr w2) by (destruct v; reflexivity).
  assert (Hw : is_write (Some (DWrite r c st)) = true -> forall r0, rn r = rn r0 -> writers (gr (emit (set_content w2 r v) (EWriteEnd r c st))) r0 = []).
  { intros _ r0 E. assert (r = r0) by (unfold rn in E; lia). subst r0. rewrite G. apply writers_nil_of_none. exact NW. }
  specialize (A Hw). destruct (add_dependency _ _ _ _) as [[| |] w5]; cbn [leafO].
  - eapply leaf_trans; eassumption. - eapply leaf_trans; eassumption. - left. reflexivity.
Qed.
Lemma sess_write_nores w t r c v : StoreOK w -> cur w = Some t -> NoResAt w t -> noresO t (sess_write RC w r c v).
Proof.
  intros H Hc Hn. unfold sess_write. rewrite Hc.
  set (w2 := get_or_create_resource_node (emit w (EWriteStart r c)) r).
  assert (N2 : NoResAt w2 t) by (eapply nores_same; [|exact Hn]; intros u x; unfold w2; rewrite edata_goc_res; reflexivity).
  assert (W2 : WF (gr w2)) by (apply goc_res_ok; exact H).
  destruct (validate_write w2 t r) as [k|]; [right; exact N2|].
  assert (N3 : NoResAt (set_content w2 r v) t) by (eapply nores_same; [|exact N2]; intros u x; apply edata_set_content).
  destruct (rc_stamp _ _ _ _) as [st|e]; [|exact N3].
  assert (W3 : WF (gr (emit (set_content w2 r v) (EWriteEnd r c st)))) by (destruct v; exact W2).
  pose proof (nores_add t (emit (set_content w2 r v) (EWriteEnd r c st)) (rn r) (DWrite r c st) W3 ltac:(discriminate) N3) as A.
  destruct (add_dependency _ _ _ _) as [[| |] w4]; cbn [noresO]; [exact A|exact A|left; reflexivity].
Qed.

Lemma sess_written_to_leaf w0 t r c v : StoreOK w0 -> cur w0 = Some t -> leafO t w0 (sess_written_to RC w0 r c v).
Proof.
  intros H Hc. unfold sess_written_to.
  assert (L1 : Leaf t w0 (set_content w0 r v)) by (apply leaf_set_content; exact H).
  set (w := set_content w0 r v) in *.
  assert (Hc' : cur w = Some t) by (rewrite (lf_cur _ _ _ L1); exact Hc). rewrite Hc'.
  assert (L2 : Leaf t w0 (get_or_create_resource_node (emit w (EWriteStart r c)) r)).
  { eapply leaf_trans; [exact L1|]. eapply leaf_trans; [apply (leaf_emit t w (EWriteStart r c) (lf_ok _ _ _ L1) Logic.I)|apply leaf_goc_res; apply L1]. }
  set (w2 := get_or_create_resource_node (emit w (EWriteStart r c)) r) in *.
  destruct (validate_write w2 t r) as [k|] eqn:V; [right; split; [eapply validate_write_user; exact V|exact L2]|].
  assert (NW : get_task_writing_to_resource w2 r = None).
  { unfold validate_write in V. destruct (get_task_writing_to_resource w2 r); [discriminate|reflexivity]. }
  destruct (rc_stamp _ _ _ _) as [st|e]; [|exact L2].
  assert (L4 : Leaf t w0 (emit w2 (EWriteEnd r c st))) by (eapply leaf_trans; [exact L2|apply leaf_emit; [apply L2|exact Logic.I]]).
  pose proof (leaf_add_dependency t (emit w2 (EWriteEnd r c st)) (rn r) (DWrite r c st) (lf_ok _ _ _ L4) eq_refl) as A.
  assert (Hw : is_write (Some (DWrite r c st)) = true -> forall r0, rn r = rn r0 -> writers (gr (emit w2 (EWriteEnd r c st))) r0 = []).
  { intros _ r0 E. assert (r = r0) by (unfold rn in E; lia). subst r0. apply writers_nil_of_none. exact NW. }
  specialize (A Hw). destruct (add_dependency _ _ _ _) as [[| |] w5]; cbn [leafO].
  - eapply leaf_trans; eassumption. - eapply leaf_trans; eassumption. - left. reflexivity.
Qed.
Lemma sess_written_to_nores w0 t r c v : StoreOK w0 -> cur w0 = Some t -> NoResAt w0 t -> noresO t (sess_written_to RC w0 r c v).
Proof.
  intros H Hc Hn. unfold sess_written_to.
  set (w := set_content w0 r v).
  assert (Hc' : cur w = Some t) by (unfold w; destruct v; exact Hc). rewrite Hc'.
  set (w2 := get_or_create_resource_node (emit w (EWriteStart r c)) r).
  assert (N2 : NoResAt w2 t).
  { eapply nores_same; [|exact Hn]. intros u x. unfold w2. rewrite edata_goc_res. apply (edata_set_content w0 r v). }
  assert (W2 : WF (gr w2)) by (apply goc_res_ok; destruct v; exact H).
  destruct (validate_write w2 t r) as [k|]; [right; exact N2|].
  destruct (rc_stamp _ _ _ _) as [st|e]; [|exact N2].
  pose proof (nores_add t (emit w2 (EWriteEnd r c st)) (rn r) (DWrite r c st) W2 ltac:(discriminate) N2) as A.
  destruct (add_dependency _ _ _ _) as [[| |] w4]; cbn [noresO]; [exact A|exact A|left; reflexivity].
Qed.
End X.

(* a leaf step of the executing task t (which has no output: it was reset), seen from the stack t :: S *)
Lemma leaf_post S t (pend : list task) w w' : Leaf t w w' -> ~ In t S -> get_task_output w t = None -> exists seg, Post S [t] [] w w' seg.
Proof.
  intros L Ht Ho. pose proof (leaf_inv t w w' L Ho) as LI.
  destruct L as [A1 [G1 [G2 G3]] [seg [A3 A3']] A4 A5 A6 A7]. exists seg. constructor.
  - exact A1.
  - intros s Hs. apply G1. intros E. apply tn_inj in E. subst. tauto.
  - intros g x [<-|[]] X. apply G2. exact X.
  - exact G3.
  - exact A3.
  - rewrite A3'. constructor.
  - rewrite A3'. intros x [].
  - intros x X. rewrite A4. exact X.
  - rewrite A3'. intros x [].
  - intros s _ X. rewrite <- A4. exact X.
  - intros s d Hs. apply A6. intros E. apply tn_inj in E. subst. tauto.
  - intros s _. unfold get_task_output. rewrite A7. reflexivity.
  - exact LI.
  - intros m _ Hm. assert (Hne : tn m <> tn t) by (intros E; apply tn_inj in E; subst; apply Hm; left; reflexivity).
    split; [apply G1; exact Hne|]. split; [intros d; apply A6; exact Hne|]. unfold get_task_output. rewrite A7. reflexivity.
  - intros x X. left. rewrite <- A4. exact X.
  - intros x [].
Qed.
Lemma leaf_postA S t w w' : Leaf t w w' -> get_task_output w t = None -> exists seg, PostA S [t] w w' seg.
Proof.
  intros L Ho. pose proof (leaf_inv t w w' L Ho) as LI.
  destruct L as [A1 _ [seg [A3 A3']] _ _ _ _]. exists seg.
  constructor; [exact A1|exact A3|rewrite A3'; constructor|rewrite A3'; intros x []|exact LI].
Qed.

(* ---- more Post algebra ---- *)
Lemma post_shift S t pend w w' seg : Post (t :: S) [] pend w w' seg -> Post S [t] pend w w' seg.
Proof.
  intros [A1 A2 A3 A4 A5 A6 A7 A8 A9 A10 A11 A12 A13 A14 A15 A16]. constructor; try assumption.
  - intros s Hs. apply A2. right. exact Hs.
  - intros g x [<-|[]] X. rewrite A2 by (left; reflexivity). exact X.
  - intros x X. destruct (A7 x X) as [P1 [_ P3]]. split; [intros Y; apply P1; right; exact Y|].
    split; [intros [<-|[]]; apply P1; left; reflexivity|exact P3].
  - intros s [Hs|[<-|[]]]; apply A10; left; [right; exact Hs|left; reflexivity].
  - intros s d Hs. apply A11. right. exact Hs.
  - intros s [Hs|[<-|[]]]; apply A12; left; [right; exact Hs|left; reflexivity].
  - intros m X _. apply A14; [exact X|intros []].
Qed.
Lemma post_drop S t pend w w' seg : Post (t :: S) [] pend w w' seg -> Post S [] pend w w' seg.
Proof.
  intros [A1 A2 A3 A4 A5 A6 A7 A8 A9 A10 A11 A12 A13 A14 A15 A16]. constructor; try assumption.
  - intros s Hs. apply A2. right. exact Hs.
  - intros x X. destruct (A7 x X) as [P1 [_ P3]]. split; [intros Y; apply P1; right; exact Y|]. split; [intros []|exact P3].
  - intros s [Hs|[]]. apply A10. left. right. exact Hs.
  - intros s d Hs. apply A11. right. exact Hs.
  - intros s [Hs|[]]. apply A12. left. right. exact Hs.
Qed.
Lemma postA_shift S t w w' seg : PostA (t :: S) [] w w' seg -> PostA S [t] w w' seg.
Proof.
  intros [A1 A5 A6 A7 A13]. constructor; try assumption.
  intros x X. destruct (A7 x X) as [P1 [_ P3]]. split; [intros Y; apply P1; right; exact Y|].
  split; [intros [<-|[]]; apply P1; left; reflexivity|exact P3].
Qed.
Lemma postA_drop S t w w' seg : PostA (t :: S) [] w w' seg -> PostA S [] w w' seg.
Proof.
  intros [A1 A5 A6 A7 A13]. constructor; try assumption.
  intros x X. destruct (A7 x X) as [P1 [_ P3]]. split; [intros Y; apply P1; right; exact Y|]. split; [intros []|exact P3].
Qed.

Lemma post_emit S G w e : StoreOK w -> noexec e -> Post S G [] w (emit w e) [e].
Proof.
  intros H N. assert (E : execs [e] = []) by (destruct e; try reflexivity; destruct N).
  constructor.
  - exact H. - intros; reflexivity. - intros g x _ X; exact X. - intros m X; exact X. - reflexivity.
  - rewrite E. constructor. - rewrite E. intros x []. - intros x X; exact X. - rewrite E. intros x [].
  - intros s _ X; exact X. - intros; reflexivity. - intros; reflexivity. - intros X; exact X.
  - intros m _ _. repeat split.
  - intros x X. left. exact X.
  - intros x [].
Qed.
Lemma post_push_err S G w e : StoreOK w -> Post S G [] w (push_err w e) [].
Proof. intros H. apply post_quiet; try reflexivity; tauto. Qed.

Lemma memN_cons x t l : memN x (t :: l) = N.eqb x t || memN x l. Proof. reflexivity. Qed.
Lemma post_mark S G t w w' seg : Post S G [t] w w' seg -> ~ In t S -> ~ In t G -> get_task_output w' t <> None ->
  Post S G [] w (mark_consistent w' t) seg.
Proof.
  intros [A1 A2 A3 A4 A5 A6 A7 A8 A9 A10 A11 A12 A13 A14 A15 A16] HS HG Ho. constructor; try assumption.
  - intros x X. unfold mark_consistent. cbn [consistent set_consistent]. rewrite memN_cons, (A8 x X). apply orb_true_r.
  - intros x X. left. unfold mark_consistent. cbn [consistent set_consistent]. rewrite memN_cons.
    destruct (A9 x X) as [Z|[<-|[]]]; [rewrite Z; apply orb_true_r|rewrite N.eqb_refl; reflexivity].
  - intros s Hs X. unfold mark_consistent in X. cbn [consistent set_consistent] in X. rewrite memN_cons in X.
    destruct (N.eqb_spec s t) as [->|Hne]; [destruct Hs; tauto|]. apply A10; assumption.
  - intros X. destruct (A13 X) as [N C]. split; [exact N|].
    intros x Y. unfold mark_consistent in Y. cbn [consistent set_consistent] in Y. rewrite memN_cons in Y.
    change (get_task_output w' x <> None). destruct (N.eq_dec x t) as [E|Hne]; [subst x; exact Ho|].
    apply C. rewrite (proj2 (N.eqb_neq x t) Hne) in Y. exact Y.
  - intros x X. unfold mark_consistent in X. cbn [consistent set_consistent] in X. rewrite memN_cons in X.
    destruct (N.eq_dec x t) as [E|Hne]; [subst x; right; apply (A16 t); left; reflexivity|].
    rewrite (proj2 (N.eqb_neq x t) Hne) in X. apply A15. exact X.
  - intros x [].
Qed.
Lemma post_pend S G pend w w' seg : Post S G [] w w' seg -> (forall x, In x pend -> In x (execs seg) \/ get_task_output w x <> None) -> Post S G pend w w' seg.
Proof. intros [A1 A2 A3 A4 A5 A6 A7 A8 A9 A10 A11 A12 A13 A14 A15 A16] HP. constructor; try assumption. intros x X. destruct (A9 x X) as [Z|[]]. left. exact Z. Qed.

(* composition through outcomes *)
Lemma okP_pre {A} S G pend w w1 a (m : outcome A) extra :
  Post S G [] w w1 a -> okP S G pend w1 m extra -> okP S G pend w m extra.
Proof.
  intros P1. destruct m as [x w2|k w2|]; cbn; [| |tauto].
  - intros [[b P2] X]. split; [|exact X]. exists (a ++ b). eapply post_seq; eassumption.
  - intros [->|[U [b P2]]]; [left; reflexivity|right]. split; [exact U|]. exists (a ++ b). eapply postA_seq; eassumption.
Qed.
Lemma okP_bind {A B} S G pend w (m : outcome A) (f : A -> world -> outcome B) extraA extraB :
  okP S G [] w m extraA ->
  (forall a w1 seg, Post S G [] w w1 seg -> extraA a w1 -> okP S G pend w1 (f a w1) extraB) ->
  okP S G pend w (bind m f) extraB.
Proof.
  destruct m as [x w1|k w1|]; cbn; [| |tauto].
  - intros [[a P1] X] F. eapply okP_pre; [exact P1|]. eapply F; eassumption.
  - intros H _. exact H.
Qed.
Lemma okP_shift {A} S t pend w (m : outcome A) extra : okP (t :: S) [] pend w m extra -> okP S [t] pend w m extra.
Proof.
  destruct m as [x w1|k w1|]; cbn; [| |tauto].
  - intros [[a P1] X]. split; [exists a; apply post_shift; exact P1|exact X].
  - intros [->|[U [a P1]]]; [left; reflexivity|right; split; [exact U|]; exists a; apply postA_shift; exact P1].
Qed.
Lemma okP_drop {A} S t pend w (m : outcome A) extra : okP (t :: S) [] pend w m extra -> okP S [] pend w m extra.
Proof.
  destruct m as [x w1|k w1|]; cbn; [| |tauto].
  - intros [[a P1] X]. split; [exists a; apply (post_drop S t); exact P1|exact X].
  - intros [->|[U [a P1]]]; [left; reflexivity|right; split; [exact U|]; exists a; apply (postA_drop S t); exact P1].
Qed.
Lemma okP_extra {A} S G pend w (m : outcome A) (e1 e2 : A -> world -> Prop) :
  (forall a w', e1 a w' -> e2 a w') -> okP S G pend w m e1 -> okP S G pend w m e2.
Proof. intros F. destruct m; cbn; [|tauto|tauto]. intros [X Y]. split; [exact X|apply F; exact Y]. Qed.
Lemma okP_abort {A} S G pend w k extra : user_abort k -> StoreOK w -> okP S G pend w (@Abort A k w) extra.
Proof. intros U H. right. split; [exact U|]. exists []. apply (post_to_A S G []). apply post_refl. exact H. Qed.

Lemma okP_of_leafO {A} S t w (m : outcome A) :
  ~ In t S -> cur w = Some t -> get_task_output w t = None -> NoResAt w t -> leafO t w m -> noresO t m ->
  okP S [t] [] w m (fun _ w' => cur w' = Some t /\ NoResAt w' t).
Proof.
  intros Ht Hc Ho Hn. destruct m as [x w1|k w1|]; cbn; [| |tauto].
  - intros L N1. split; [apply (leaf_post S t [] w w1 L Ht Ho)|]. split; [rewrite (lf_cur _ _ _ L); exact Hc|exact N1].
  - intros [->|[U L]] _; [left; reflexivity|right]. split; [exact U|]. apply (leaf_postA S t w w1 L Ho).
Qed.

Lemma chain_post w w1 S t pend seg : Chain w (t :: S) -> Post S [t] pend w w1 seg -> Chain w1 (t :: S).
Proof. intros [N C] P1. split; [exact N|]. apply (chain_grow w w1); [exact C|apply (po_frame _ _ _ _ _ _ P1)]. Qed.
Lemma chain_post_all w w1 S pend seg : Chain w S -> Post S [] pend w w1 seg -> Chain w1 S.
Proof. intros [N C] P1. split; [exact N|]. apply (chain_frame w w1); [exact C|apply (po_frame _ _ _ _ _ _ P1)]. Qed.
Lemma chain_head_notin w S t : Chain w (t :: S) -> ~ In t S.
Proof. intros [N _]. inversion N; assumption. Qed.

(* ---- the interpreter under the ghost stack ---- *)
Section Y.
Variable RC : rcid -> rchecker.
Variable OC : ocid -> ochecker.
Variable P : task -> prog.

(* make_task_consistent entered for t below the stack S: nothing recorded for a stack task changes, nothing on the stack is
   executed or marked, every executed task was not consistent before and is consistent afterwards; the only aborts are
   user-level ones, and both invariants hold in the store that is left *)
Definition MCspec (mc : world -> task -> outcome Z) : Prop :=
  forall w t S, StoreOK w -> Inv2 w -> Chain w S -> entry_ok w S t ->
    okP S [] [] w (mc w t) (fun o w' => cur w' = cur w /\ memN t (consistent w') = true /\ get_task_output w' t = Some o).
Definition REQspec (t : task) (S : list task) (req : world -> task -> ocid -> outcome Z) : Prop :=
  forall w x c, StoreOK w -> Inv2 w -> Chain w (t :: S) -> cur w = Some t -> get_task_output w t = None -> NoResAt w t ->
    okP S [t] [] w (req w x c) (fun _ w' => cur w' = Some t /\ NoResAt w' t).

Lemma leaf_chain w w' S t : Chain w (t :: S) -> Leaf t w w' -> Chain w' (t :: S).
Proof.
  intros C L. pose proof (chain_head_notin _ _ _ C) as Ht. destruct C as [N C]. split; [exact N|].
  apply (chain_grow w w'); [exact C|]. intros s Hs. apply (lf_grows _ _ _ L). intros E. apply tn_inj in E. subst. tauto.
Qed.

Lemma require_with_spec mc t S : MCspec mc -> REQspec t S (require_with OC mc).
Proof.
  intros HM w x c H J C Hc Ho Hn. pose proof (chain_head_notin _ _ _ C) as Ht. unfold require_with.
  assert (L2 : Leaf t w (get_or_create_task_node (emit w (ERequireStart x c)) x)).
  { eapply leaf_trans; [apply (leaf_emit t w (ERequireStart x c) H Logic.I)|apply leaf_goc_task; exact H]. }
  set (w2 := get_or_create_task_node (emit w (ERequireStart x c)) x) in *.
  assert (Hc2 : cur w2 = Some t) by (rewrite (lf_cur _ _ _ L2); exact Hc).
  assert (N2 : NoResAt w2 t) by (eapply nores_same; [|exact Hn]; intros u v; unfold w2; rewrite edata_goc_task; reflexivity).
  unfold reserve_require_dependency. rewrite Hc2.
  pose proof (leaf_add_dependency t w2 (tn x) DReserved (lf_ok _ _ _ L2) (tn_even x)) as A.
  pose proof (add_dependency_edata w2 (tn t) (tn x) DReserved (proj1 (lf_ok _ _ _ L2))) as ED.
  assert (Hw : is_write (Some DReserved) = true -> forall r, tn x = rn r -> writers (gr w2) r = []) by (intros X; discriminate).
  specialize (A Hw).
  destruct (add_dependency w2 (tn t) (tn x) DReserved) as [[| |] w3] eqn:AD; cbn [bind].
  - assert (L3 : Leaf t w w3) by (eapply leaf_trans; eassumption).
    assert (E3 : edge w3 t x) by (eapply add_dependency_edge; [apply (lf_ok _ _ _ L2)|exact AD]).
    assert (Hc3 : cur w3 = Some t) by (rewrite (lf_cur _ _ _ L3); exact Hc).
    assert (Ho3 : get_task_output w3 t = None) by (rewrite (leaf_out t w w3 t L3); exact Ho).
    assert (D3 : get_edata (gr w3) (tn t) (tn x) <> None) by (apply (wf_edata _ (proj1 (lf_ok _ _ _ L3))); exact E3).
    assert (N3 : forall d, d <> tn x -> get_edata (gr w3) (tn t) d <> Some DReserved).
    { intros d Hd. destruct (ED (tn t) d) as [Y|[_ [Y _]]]; [rewrite Y; apply N2|congruence]. }
    destruct (leaf_post S t [] w w3 L3 Ht Ho) as [s03 P03]. eapply okP_pre; [exact P03|].
    pose proof (leaf_chain w w3 S t C L3) as C3. pose proof (po_inv _ _ _ _ _ _ P03 J) as J3.
    pose proof (HM w3 x (t :: S) (lf_ok _ _ _ L3) J3 C3 E3) as M.
    destruct (mc w3 x) as [o w4|k w4|]; cbn [bind]; [| |exact Logic.I].
    + destruct M as [[s4 P4] [Hc4 _]]. cbn beta in Hc4. rewrite Hc3 in Hc4.
      eapply okP_pre; [apply post_shift; exact P4|].
      pose proof (po_ok _ _ _ _ _ _ P4) as H4. pose proof (po_inv _ _ _ _ _ _ P4 J3) as J4.
      set (st := oc_stamp (OC c) o).
      set (w5 := emit w4 (ERequireEnd x c st o)).
      assert (P45 : Post S [t] [] w4 w5 [ERequireEnd x c st o]) by (apply post_emit; [exact H4|exact Logic.I]).
      eapply okP_pre; [exact P45|].
      pose proof (pr_update _ _ (StoreOK_preserved RC) w5 x c st H4) as U.
      assert (E5 : forall d, get_edata (gr w5) (tn t) d = get_edata (gr w3) (tn t) d).
      { intros d. change (gr w5) with (gr w4). apply (po_eframe _ _ _ _ _ _ P4). left. reflexivity. }
      assert (Ho5 : get_task_output w5 t = None).
      { change (get_task_output w4 t = None). rewrite (po_oframe _ _ _ _ _ _ P4) by (left; left; reflexivity). exact Ho3. }
      unfold update_require_dependency in *. change (cur w5) with (cur w4) in *. rewrite Hc4 in *.
      destruct (get_edata (gr w5) (tn t) (tn x)) as [dd|] eqn:X5; cbn [bind]; [|exfalso; rewrite E5 in X5; contradiction].
      cbn [Inv.okO] in U.
      set (w6 := set_gr w5 (insert_edata (gr w5) (tn t) (tn x) (DRequire x c st))) in *.
      assert (L6 : Leaf t w5 w6).
      { constructor; [exact U|apply same_grows; apply insert_edata_same|exists []; split; reflexivity|reflexivity|reflexivity| |reflexivity].
        intros m d Hm. unfold w6. cbn [gr set_gr]. rewrite get_edata_insert.
        destruct (pair_eqb (tn t, tn x) (m, d)) eqn:Z; [|reflexivity]. apply pair_eqb_eq in Z. inversion Z. congruence. }
      split; [apply (leaf_post S t [] w5 w6 L6 Ht Ho5)|]. split; [exact Hc4|].
      intros d. unfold w6. cbn [gr set_gr]. rewrite get_edata_insert.
      destruct (pair_eqb (tn t, tn x) (tn t, d)) eqn:Z; [discriminate|]. rewrite E5. apply N3.
      intros ->. rewrite (proj2 (pair_eqb_eq _ _) eq_refl) in Z. discriminate.
    + destruct M as [->|[U [s4 PA]]]; [left; reflexivity|right]. split; [exact U|]. exists s4. apply postA_shift. exact PA.
  - right. split; [exact Logic.I|]. apply (leaf_postA S t w w3); [eapply leaf_trans; eassumption|exact Ho].
  - left. reflexivity.
Qed.

Lemma exec_prog_spec t S req : REQspec t S req ->
  forall p w, StoreOK w -> Inv2 w -> Chain w (t :: S) -> cur w = Some t -> get_task_output w t = None -> NoResAt w t ->
    okP S [t] [] w (exec_prog RC OC req p w) (fun _ w' => cur w' = Some t /\ NoResAt w' t).
Proof.
  intros HR. induction p as [o| |x c k IH|r c k IH|r c v k IH|r c v k IH]; intros w H J C Hc Ho Hn; cbn [exec_prog];
    pose proof (chain_head_notin _ _ _ C) as Ht.
  - split; [exists []; apply post_refl; exact H|split; [exact Hc|exact Hn]].
  - apply okP_abort; [exact Logic.I|exact H].
  - eapply okP_bind; [apply HR; assumption|]. intros o w1 s1 P1 [Hc1 Hn1].
    apply IH; [apply (po_ok _ _ _ _ _ _ P1)|apply (po_inv _ _ _ _ _ _ P1 J)|eapply chain_post; eassumption|exact Hc1| |exact Hn1].
    rewrite (po_oframe _ _ _ _ _ _ P1) by (right; left; reflexivity). exact Ho.
  - eapply okP_bind; [apply okP_of_leafO; [exact Ht|exact Hc|exact Ho|exact Hn|apply (sess_read_leaf RC w t r c H Hc)|apply (sess_read_nores RC w t r c H Hc Hn)]|].
    intros o w1 s1 P1 [Hc1 Hn1].
    apply IH; [apply (po_ok _ _ _ _ _ _ P1)|apply (po_inv _ _ _ _ _ _ P1 J)|eapply chain_post; eassumption|exact Hc1| |exact Hn1].
    rewrite (po_oframe _ _ _ _ _ _ P1) by (right; left; reflexivity). exact Ho.
  - eapply okP_bind; [apply okP_of_leafO; [exact Ht|exact Hc|exact Ho|exact Hn|apply (sess_write_leaf RC w t r c v H Hc)|apply (sess_write_nores RC w t r c v H Hc Hn)]|].
    intros o w1 s1 P1 [Hc1 Hn1].
    apply IH; [apply (po_ok _ _ _ _ _ _ P1)|apply (po_inv _ _ _ _ _ _ P1 J)|eapply chain_post; eassumption|exact Hc1| |exact Hn1].
    rewrite (po_oframe _ _ _ _ _ _ P1) by (right; left; reflexivity). exact Ho.
  - eapply okP_bind; [apply okP_of_leafO; [exact Ht|exact Hc|exact Ho|exact Hn|apply (sess_written_to_leaf RC w t r c v H Hc)|apply (sess_written_to_nores RC w t r c v H Hc Hn)]|].
    intros o w1 s1 P1 [Hc1 Hn1].
    apply IH; [apply (po_ok _ _ _ _ _ _ P1)|apply (po_inv _ _ _ _ _ _ P1 J)|eapply chain_post; eassumption|exact Hc1| |exact Hn1].
    rewrite (po_oframe _ _ _ _ _ _ P1) by (right; left; reflexivity). exact Ho.
Qed.

Lemma reset_task_facts w t : StoreOK w ->
  StoreOK (reset_task w t) /\
  (forall m, m <> tn t -> kids_of (gr (reset_task w t)) m = kids_of (gr w) m) /\
  (forall m, live (gr w) m = true -> live (gr (reset_task w t)) m = true) /\
  trace (reset_task w t) = trace w /\ consistent (reset_task w t) = consistent w /\ cur (reset_task w t) = cur w /\
  (forall m d, m <> tn t -> get_edata (gr (reset_task w t)) m d = get_edata (gr w) m d) /\
  (forall d, get_edata (gr (reset_task w t)) (tn t) d = None) /\
  get_task_output (reset_task w t) t = None /\
  (forall s, s <> t -> get_task_output (reset_task w t) s = get_task_output w s).
Proof.
  intros H. destruct (remove_outgoing_other (gr w) (tn t) (proj1 H)) as [K [L K0]].
  assert (H1 : StoreOK (reset_task w t)) by (apply GOK_remove_outgoing; exact H).
  split; [exact H1|]. split; [exact K|]. split; [exact L|]. split; [reflexivity|]. split; [reflexivity|]. split; [reflexivity|].
  split; [|split; [|split]].
  - intros m d Hm. unfold reset_task. cbn [gr set_gr set_outs]. destruct (live (gr w) (tn t)) eqn:Lt.
    + destruct (remove_outgoing_view (gr w) (tn t) (proj1 H) Lt) as [_ [_ [_ [_ [_ [_ VE]]]]]]. rewrite VE.
      destruct (N.eqb_spec m (tn t)); [congruence|reflexivity].
    + rewrite remove_outgoing_snd, Lt. reflexivity.
  - intros d. destruct (get_edata (gr (reset_task w t)) (tn t) d) eqn:X; [|reflexivity]. exfalso.
    assert (Y : In d (kids_of (gr (reset_task w t)) (tn t))) by (apply (wf_edata _ (proj1 H1)); congruence).
    unfold reset_task in Y. cbn [gr set_gr set_outs] in Y. rewrite K0 in Y. destruct Y.
  - unfold get_task_output, reset_task. cbn [outs set_gr set_outs]. apply alookup_aremove_eq.
  - intros s Hs. unfold get_task_output, reset_task. cbn [outs set_gr set_outs]. apply alookup_aremove_other. exact Hs.
Qed.

Lemma execute_with_spec t S req : REQspec t S req ->
  forall w, StoreOK w -> Inv2 w -> Chain w (t :: S) -> memN t (consistent w) = false ->
    okP S [] [t] w (execute_with RC OC P req w t) (fun o w' => cur w' = cur w /\ get_task_output w' t = Some o).
Proof.
  intros HR w H J C Hn. pose proof (chain_head_notin _ _ _ C) as Ht. unfold execute_with.
  destruct (reset_task_facts w t H) as [H1 [K1 [L1 [T1 [C1 [U1 [E1 [E0 [O0 O1]]]]]]]]].
  set (w1 := reset_task w t) in *.
  set (w2 := emit (set_cur w1 (Some t)) (EExecStart t)).
  assert (H2 : StoreOK w2) by exact H1.
  assert (J1 : Inv2 w1).
  { destruct J as [N Co]. split.
    - intros t' d X. destruct (N.eq_dec t' t) as [->|Hne]; [exact O0|]. rewrite O1 by exact Hne.
      rewrite E1 in X by (intros E; apply tn_inj in E; contradiction). apply (N t' d X).
    - intros t' X. rewrite C1 in X. destruct (N.eq_dec t' t) as [->|Hne]; [congruence|]. rewrite O1 by exact Hne. apply (Co t' X). }
  assert (J2 : Inv2 w2) by exact J1.
  assert (Ch2 : Chain w2 (t :: S)).
  { destruct C as [N C]. split; [exact N|]. apply (chain_grow w w2); [exact C|].
    intros s Hs. apply K1. intros E. apply tn_inj in E. subst. tauto. }
  assert (N2 : NoResAt w2 t) by (intros d; change (gr w2) with (gr w1); rewrite E0; discriminate).
  pose proof (exec_prog_spec t S req HR (P t) w2 H2 J2 Ch2 eq_refl O0 N2) as B.
  destruct (exec_prog RC OC req (P t) w2) as [o w3|k w3|]; cbn [bind okP] in *; [| |exact Logic.I].
  - destruct B as [[body [A1 A2 A3 A4 A5 A6 A7 A8 A9 A10 A11 A12 A13 A14 A15 A16]] [Hc3 Hn3]].
    set (w4 := set_task_output (set_cur (emit w3 (EExecEnd t o)) (cur w1)) t o).
    split; [|split; [exact U1|apply alookup_aset_eq]].
    exists (EExecStart t :: body ++ [EExecEnd t o]).
    assert (EX : execs (EExecStart t :: body ++ [EExecEnd t o]) = t :: execs body).
    { change (EExecStart t :: body ++ [EExecEnd t o]) with ([EExecStart t] ++ body ++ [EExecEnd t o]).
      rewrite !execs_app. cbn. rewrite app_nil_r. reflexivity. }
    assert (O4 : forall s, s <> t -> get_task_output w4 s = get_task_output w3 s).
    { intros s Hs. unfold get_task_output, w4, set_task_output. cbn [outs set_outs set_cur emit]. apply alookup_aset_other. exact Hs. }
    constructor.
    + apply (pr_exec_end _ _ (StoreOK_preserved RC)). exact A1.
    + intros s Hs. change (kids_of (gr w3) (tn s) = kids_of (gr w) (tn s)). rewrite A2 by exact Hs. change (gr w2) with (gr w1).
      apply K1. intros E. apply tn_inj in E. subst. tauto.
    + intros g x [].
    + intros m Lm. change (live (gr w3) m = true). apply A4. apply L1. exact Lm.
    + change (EExecEnd t o :: trace w3 = rev (EExecStart t :: body ++ [EExecEnd t o]) ++ trace w).
      rewrite A5. change (trace w2) with (EExecStart t :: trace w1). rewrite T1.
      cbn [rev]. rewrite rev_app_distr. cbn [rev app]. rewrite <- !app_assoc. reflexivity.
    + rewrite EX. constructor; [|exact A6]. intros X. destruct (A7 t X) as [_ [Y _]]. apply Y. left. reflexivity.
    + rewrite EX. intros x [<-|X]; [split; [exact Ht|split; [intros []|exact Hn]]|].
      destruct (A7 x X) as [Q1 [Q2 Q3]]. split; [exact Q1|]. split; [intros []|]. change (consistent w2) with (consistent w1) in Q3. rewrite C1 in Q3. exact Q3.
    + intros x X. change (memN x (consistent w3) = true). apply A8. change (consistent w2) with (consistent w1). rewrite C1. exact X.
    + rewrite EX. intros x [<-|X]; [right; left; reflexivity|]. left. destruct (A9 x X) as [Z|[]]. exact Z.
    + intros s [Hs|[]] X. change (memN s (consistent w3) = true) in X. apply A10 in X; [|left; exact Hs].
      change (consistent w2) with (consistent w1) in X. rewrite C1 in X. exact X.
    + intros s d Hs. change (get_edata (gr w3) (tn s) d = get_edata (gr w) (tn s) d). rewrite A11 by exact Hs. change (gr w2) with (gr w1).
      apply E1. intros E. apply tn_inj in E. subst. tauto.
    + intros s [Hs|[]]. assert (s <> t) by (intros ->; tauto). rewrite O4 by assumption. rewrite A12 by (left; exact Hs).
      change (get_task_output w1 s = get_task_output w s). apply O1. assumption.
    + intros _. destruct (A13 J2) as [N3 Co3]. split.
      * intros t' d X. change (gr w4) with (gr w3) in X. destruct (N.eq_dec t' t) as [->|Hne]; [exfalso; apply (Hn3 d X)|].
        rewrite O4 by exact Hne. apply (N3 t' d X).
      * intros t' X. change (consistent w4) with (consistent w3) in X. destruct (N.eq_dec t' t) as [->|Hne].
        -- unfold w4, get_task_output, set_task_output. cbn [outs set_outs]. rewrite alookup_aset_eq. discriminate.
        -- rewrite O4 by exact Hne. apply (Co3 t' X).
    + rewrite EX. intros m Hm _. assert (Hne : m <> t) by (intros ->; apply Hm; left; reflexivity).
      assert (Hb : ~ In m (execs body)) by (intros X; apply Hm; right; exact X).
      assert (Hg : ~ In m [t]) by (intros [X|[]]; congruence).
      destruct (A14 m Hb Hg) as [Q1 [Q2 Q3]].
      split; [|split].
      * change (kids_of (gr w3) (tn m) = kids_of (gr w) (tn m)). rewrite Q1. change (gr w2) with (gr w1). apply K1. intros E; apply tn_inj in E; contradiction.
      * intros d. change (get_edata (gr w3) (tn m) d = get_edata (gr w) (tn m) d). rewrite Q2. change (gr w2) with (gr w1). apply E1. intros E; apply tn_inj in E; contradiction.
      * rewrite O4 by exact Hne. rewrite Q3. change (get_task_output w1 m = get_task_output w m). apply O1. exact Hne.
    + rewrite EX. intros x X. change (memN x (consistent w3) = true) in X. destruct (A15 x X) as [Y|[Y|Y]].
      * left. change (consistent w2) with (consistent w1) in Y. rewrite C1 in Y. exact Y.
      * right. left. right. exact Y.
      * right. right. change (get_task_output w1 x <> None) in Y. destruct (N.eq_dec x t) as [E|Hne]; [subst x; contradiction|]. rewrite <- (O1 x Hne). exact Y.
    + rewrite EX. intros x [<-|[]]. left. left. reflexivity.
  - destruct B as [->|[U [body [A1 A5 A6 A7 A13]]]]; [left; reflexivity|right]. split; [exact U|].
    exists (EExecStart t :: body).
    assert (EX : execs (EExecStart t :: body) = t :: execs body) by reflexivity.
    constructor.
    + exact A1.
    + rewrite A5. change (trace w2) with (EExecStart t :: trace w1). rewrite T1.
      cbn [rev]. rewrite <- app_assoc. reflexivity.
    + rewrite EX. constructor; [|exact A6]. intros X. destruct (A7 t X) as [_ [Y _]]. apply Y. left. reflexivity.
    + rewrite EX. intros x [<-|X]; [split; [exact Ht|split; [intros []|exact Hn]]|].
      destruct (A7 x X) as [Q1 [Q2 Q3]]. split; [exact Q1|]. split; [intros []|]. change (consistent w2) with (consistent w1) in Q3. rewrite C1 in Q3. exact Q3.
    + intros _. apply A13. exact J2.
Qed.

Lemma exec_mark_spec t S req : REQspec t S req ->
  forall w, StoreOK w -> Inv2 w -> Chain w (t :: S) -> memN t (consistent w) = false ->
    okP S [] [] w (bind (execute_with RC OC P req w t) (fun o w2 => Done o (mark_consistent w2 t)))
      (fun o w' => cur w' = cur w /\ memN t (consistent w') = true /\ get_task_output w' t = Some o).
Proof.
  intros HR w H J C Hn. pose proof (execute_with_spec t S req HR w H J C Hn) as E.
  destruct (execute_with RC OC P req w t) as [o w2|k w2|]; cbn [bind okP] in *; [| |exact Logic.I].
  - destruct E as [[seg Q] [Hc Ho]]. split; [|split; [exact Hc|split; [|exact Ho]]].
    2:{ unfold mark_consistent. cbn [consistent set_consistent]. rewrite memN_cons, N.eqb_refl. reflexivity. }
    exists seg.
    apply post_mark; [exact Q|eapply chain_head_notin; exact C|intros []|congruence].
  - exact E.
Qed.

(* the recorded dependencies of a task with an output: all carry data, none is a reservation, requires point along edges *)
Definition dep_ok (w : world) (t : task) (d : option dep) : Prop :=
  exists dp, d = Some dp /\ dp <> DReserved /\ forall x c st, dp = DRequire x c st -> edge w t x.
Lemma deps_ok w t o : StoreOK w -> Inv2 w -> get_task_output w t = Some o -> forall d, In d (deps_of_task w t) -> dep_ok w t d.
Proof.
  intros [W [T _]] [N _] Ho d Hin. unfold deps_of_task, get_outgoing_edges in Hin. rewrite map_map in Hin. cbn [snd] in Hin.
  apply in_map_iff in Hin. destruct Hin as [v [E Hv]].
  destruct (get_edata (gr w) (tn t) v) as [dp|] eqn:X; [|exfalso; apply (wf_edata _ W (tn t) v) in Hv; contradiction].
  subst d. exists dp. split; [reflexivity|]. split.
  - intros ->. rewrite (N t v X) in Ho. discriminate.
  - intros x c st ->. destruct (T _ _ _ X) as [_ Y]. cbn in Y. subst v. exact Hv.
Qed.

Lemma check_deps_spec mc t S : MCspec mc ->
  forall ds w, StoreOK w -> Inv2 w -> Chain w (t :: S) -> (forall d, In d ds -> dep_ok w t d) ->
    okP (t :: S) [] [] w (check_deps RC OC mc ds w) (fun _ w' => cur w' = cur w).
Proof.
  intros HM. induction ds as [|d tl IH]; intros w H J C HE; cbn [check_deps].
  - split; [exists []; apply post_refl; exact H|reflexivity].
  - destruct (HE d (or_introl eq_refl)) as [dp [-> [NR HX]]].
    assert (HE' : forall w', kids_of (gr w') (tn t) = kids_of (gr w) (tn t) -> forall d, In d tl -> dep_ok w' t d).
    { intros w' K d Hd. destruct (HE d (or_intror Hd)) as [dp' [-> [NR' HX']]]. exists dp'. split; [reflexivity|]. split; [exact NR'|].
      intros x c st E. unfold edge. rewrite K. apply (HX' x c st E). }
    destruct dp as [|x c st|r c st|r c st]; [congruence| | |].
    + set (w1 := emit w (ECheckTaskStart x c st)).
      assert (P1 : Post (t :: S) [] [] w w1 [ECheckTaskStart x c st]) by (apply post_emit; [exact H|exact Logic.I]).
      eapply okP_pre; [exact P1|].
      apply (okP_bind (t :: S) [] [] w1 (mc w1 x) _ (fun _ w' => cur w' = cur w1)).
      * eapply okP_extra; [|apply HM; [exact H|apply (po_inv _ _ _ _ _ _ P1 J)|apply (chain_post_all w w1 _ _ _ C P1)|]].
        -- intros a w' X. exact (proj1 X).
        -- cbn. apply (HX x c st eq_refl).
      * intros o w2 s2 P2 Hc2.
        set (w3 := emit w2 (ECheckTaskEnd x c st (negb (oc_check (OC c) o st)))).
        assert (P3 : Post (t :: S) [] [] w2 w3 [ECheckTaskEnd x c st (negb (oc_check (OC c) o st))]) by (apply post_emit; [apply (po_ok _ _ _ _ _ _ P2)|exact Logic.I]).
        eapply okP_pre; [exact P3|].
        destruct (oc_check (OC c) o st).
        -- eapply okP_extra; [|apply IH].
           ++ intros a w' X. cbn beta in *. rewrite X. exact Hc2.
           ++ apply (po_ok _ _ _ _ _ _ P3).
           ++ apply (po_inv _ _ _ _ _ _ P3). apply (po_inv _ _ _ _ _ _ P2). apply (po_inv _ _ _ _ _ _ P1 J).
           ++ eapply (chain_post_all w w3); [exact C|]. eapply (post_seq _ _ _ w w1 w3); [exact P1|]. eapply (post_seq _ _ _ w1 w2 w3); eassumption.
           ++ apply HE'. change (gr w3) with (gr w2). apply (po_frame _ _ _ _ _ _ P2). left. reflexivity.
        -- split; [exists []; apply post_refl; apply (po_ok _ _ _ _ _ _ P3)|exact Hc2].
    + unfold check_resource_td. cbv zeta.
      set (w1 := emit w (ECheckResStart r c st)).
      set (xx := rc_check (RC c) (env w1) r (get_content w1 r) st).
      set (w2 := emit w1 (ECheckResEnd r c st xx)).
      assert (P2 : Post (t :: S) [] [] w w2 ([ECheckResStart r c st] ++ [ECheckResEnd r c st xx])).
      { eapply post_seq; apply post_emit; try exact H; exact Logic.I. }
      destruct xx as [| |e]; cbv iota beta.
      * eapply okP_pre; [exact P2|]. eapply okP_extra; [|apply (IH w2); [exact H|apply (po_inv _ _ _ _ _ _ P2 J)|apply (chain_post_all w w2 _ _ _ C P2)|]].
        -- intros a w' X. exact X.
        -- apply HE'. reflexivity.
      * split; [eexists; exact P2|reflexivity].
      * split; [|reflexivity]. eexists. eapply post_seq; [exact P2|]. apply post_push_err. exact H.
    + unfold check_resource_td. cbv zeta.
      set (w1 := emit w (ECheckResStart r c st)).
      set (xx := rc_check (RC c) (env w1) r (get_content w1 r) st).
      set (w2 := emit w1 (ECheckResEnd r c st xx)).
      assert (P2 : Post (t :: S) [] [] w w2 ([ECheckResStart r c st] ++ [ECheckResEnd r c st xx])).
      { eapply post_seq; apply post_emit; try exact H; exact Logic.I. }
      destruct xx as [| |e]; cbv iota beta.
      * eapply okP_pre; [exact P2|]. eapply okP_extra; [|apply (IH w2); [exact H|apply (po_inv _ _ _ _ _ _ P2 J)|apply (chain_post_all w w2 _ _ _ C P2)|]].
        -- intros a w' X. exact X.
        -- apply HE'. reflexivity.
      * split; [eexists; exact P2|reflexivity].
      * split; [|reflexivity]. eexists. eapply post_seq; [exact P2|]. apply post_push_err. exact H.
Qed.

Lemma goc_task_post S w t : StoreOK w -> Post S [] [] w (get_or_create_task_node w t) [].
Proof.
  intros H. pose proof (leaf_goc_task t w t H) as [A1 [G1 [G2 G3]] _ A4 _ _ A7].
  assert (K : forall m, kids_of (gr (get_or_create_task_node w t)) m = kids_of (gr w) m).
  { intros m. unfold get_or_create_task_node. destruct (live (gr w) (tn t)) eqn:L; [reflexivity|]. apply (add_node_same _ _ L). }
  apply post_quiet; try assumption.
  - unfold get_or_create_task_node. destruct (live _ _); reflexivity.
  - intros u v. apply edata_goc_task.
Qed.

Theorem make_consistent_td_spec fuel : MCspec (make_consistent_td RC OC P fuel).
Proof.
  induction fuel as [|f IH]; intros w t S H J C E; cbn [make_consistent_td]; [exact Logic.I|].
  pose proof (goc_task_post S w t H) as P0.
  set (w0 := get_or_create_task_node w t) in *.
  assert (Hc0 : cur w0 = cur w) by (unfold w0, get_or_create_task_node; destruct (live _ _); reflexivity).
  eapply okP_pre; [exact P0|]. eapply okP_extra; [intros a w' X; rewrite <- Hc0; exact X|].
  cbv beta.
  pose proof (po_ok _ _ _ _ _ _ P0) as H0. pose proof (po_inv _ _ _ _ _ _ P0 J) as J0.
  pose proof (chain_post_all w w0 S [] [] C P0) as C0.
  assert (E0 : entry_ok w0 S t).
  { destruct S as [|top tl]; [exact Logic.I|]. cbn in *. unfold edge in *. rewrite (po_frame _ _ _ _ _ _ P0) by (left; reflexivity). exact E. }
  pose proof (entry_not_in w0 S t (proj1 H0) C0 E0) as Ht.
  assert (C1 : Chain w0 (t :: S)).
  { destruct C0 as [N0 K0]. split; [constructor; assumption|]. destruct S as [|top tl]; [exact Logic.I|]. split; [exact E0|exact K0]. }
  pose proof (require_with_spec (make_consistent_td RC OC P f) t S IH) as HR.
  destruct (memN t (consistent w0)) eqn:Hm.
  - destruct (get_task_output w0 t) eqn:Ho.
    + split; [exists []; apply post_refl; exact H0|split; [reflexivity|split; [exact Hm|exact Ho]]].
    + exfalso. apply (proj2 J0 t Hm). exact Ho.
  - destruct (get_task_output w0 t) as [o0|] eqn:Ho.
    + pose proof (check_deps_spec (make_consistent_td RC OC P f) t S IH (deps_of_task w0 t) w0 H0 J0 C1 (deps_ok w0 t o0 H0 J0 Ho)) as CD.
      destruct (check_deps RC OC (make_consistent_td RC OC P f) (deps_of_task w0 t) w0) as [ok w1|k w1|]; cbn [bind]; [| |exact Logic.I].
      * destruct CD as [[s1 P1] Hc1]. pose proof (post_drop _ _ _ _ _ _ P1) as P1'.
        eapply okP_pre; [exact P1'|]. eapply okP_extra; [intros a w' X; rewrite <- Hc1; exact X|]. cbv beta.
        assert (C1' : Chain w1 (t :: S)) by (eapply chain_post_all; eassumption).
        pose proof (po_inv _ _ _ _ _ _ P1 J0) as J1.
        assert (Hm1 : memN t (consistent w1) = false).
        { destruct (memN t (consistent w1)) eqn:Z; [|reflexivity]. apply (po_keep _ _ _ _ _ _ P1) in Z; [congruence|left; left; reflexivity]. }
        destruct (if ok then get_task_output w1 t else None) as [o|] eqn:Hok.
        -- assert (Ho1 : get_task_output w1 t = Some o) by (destruct ok; [exact Hok|discriminate]).
           split; [|split; [reflexivity|split; [|exact Ho1]]].
           2:{ unfold mark_consistent. cbn [consistent set_consistent]. rewrite memN_cons, N.eqb_refl. reflexivity. }
           exists []. apply post_mark; [|exact Ht|intros []|congruence].
           apply post_pend; [apply post_refl; apply (po_ok _ _ _ _ _ _ P1)|]. intros x [<-|[]]. right. congruence.
        -- apply exec_mark_spec; try assumption. apply (po_ok _ _ _ _ _ _ P1).
      * apply (okP_drop S t). exact CD.
    + apply exec_mark_spec; assumption.
Qed.

(* requiring a task that is on the stack (executing, or being validated below an executing task) is diagnosed as a cycle *)
Theorem require_on_stack_aborts mc w t S x c :
  StoreOK w -> Chain w (t :: S) -> cur w = Some t -> In x (t :: S) ->
  exists w', require_with OC mc w x c = Abort ACycle w' \/ require_with OC mc w x c = Abort (ABug 4) w'.
Proof.
  intros H C Hc Hx. unfold require_with.
  assert (L2 : Leaf t w (get_or_create_task_node (emit w (ERequireStart x c)) x)).
  { eapply leaf_trans; [apply (leaf_emit t w (ERequireStart x c) H Logic.I)|apply leaf_goc_task; exact H]. }
  set (w2 := get_or_create_task_node (emit w (ERequireStart x c)) x) in *.
  assert (Hc2 : cur w2 = Some t) by (rewrite (lf_cur _ _ _ L2); exact Hc).
  pose proof (leaf_chain w w2 S t C L2) as C2. pose proof (lf_ok _ _ _ L2) as H2.
  unfold reserve_require_dependency. rewrite Hc2. unfold add_dependency.
  assert (Cyc : tn t = tn x \/ path (gr w2) (tn x) (tn t)).
  { destruct (chain_path w2 (t :: S) x (proj2 C2) Hx t eq_refl) as [->|Pth]; [left; reflexivity|right; exact Pth]. }
  destruct (live (gr w2) (tn t)) eqn:Lt; [destruct (live (gr w2) (tn x)) eqn:Lx|].
  - pose proof (add_edge_cycle_iff (gr w2) (tn t) (tn x) DReserved (proj1 H2) Lt Lx) as I.
    destruct (add_edge (gr w2) (tn t) (tn x) DReserved) as [[b|[|]|] g'] eqn:AE; cbn [fst bind] in *.
    + exfalso. destruct (I ltac:(discriminate)) as [_ I2]. specialize (I2 Cyc). discriminate.
    + exfalso. destruct (I ltac:(discriminate)) as [_ I2]. specialize (I2 Cyc). discriminate.
    + eexists. left. reflexivity.
    + eexists. right. reflexivity.
  - exfalso. destruct Cyc as [Cyc|Cyc]; [rewrite Cyc in Lt; congruence|]. apply (path_live _ _ _ (proj1 H2)) in Cyc. destruct Cyc; congruence.
  - unfold add_edge. rewrite Lt. cbn [negb orb bind]. eexists. right. reflexivity.
Qed.
End Y.

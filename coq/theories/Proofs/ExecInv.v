(* The execution-stack argument for top-down builds, for all programs, checkers, worlds and fuel:
   - a task that is executing (or being validated) is never entered again (C07: no re-entry, any cycle length);
   - within a session every task is executed at most once, and only if it was not yet consistent (C02);
   - a nested build leaves the recorded dependencies of all tasks on the stack untouched (frame).
   The stack S is a ghost: the list of tasks whose make_task_consistent is in progress, innermost first. *)
From Coq Require Import List NArith ZArith Bool Lia.
From PieV Require Import Model.Dag Model.Build Proofs.DagLib Proofs.DagWF Proofs.DagPath Proofs.DagAddEdge Proofs.DagViews
  Proofs.Inv Proofs.StoreInv Proofs.Effects.
Import ListNotations.
Open Scope N_scope.

Definition edge (w : world) (a b : task) : Prop := In (tn b) (kids_of (gr w) (tn a)).
Fixpoint chain_ok (w : world) (S : list task) : Prop :=
  match S with
  | inner :: ((outer :: _) as tl) => edge w outer inner /\ chain_ok w tl
  | _ => True
  end.
Definition Chain (w : world) (S : list task) : Prop := NoDup S /\ chain_ok w S.
Definition entry_ok (w : world) (S : list task) (t : task) : Prop := match S with [] => True | top :: _ => edge w top t end.

Definition execs (seg : list event) : list task := flat_map (fun e => match e with EExecStart t => [t] | _ => [] end) seg.
Lemma execs_app a b : execs (a ++ b) = execs a ++ execs b. Proof. unfold execs. apply flat_map_app. Qed.

Definition cons_mono (w w' : world) : Prop := forall x, memN x (consistent w) = true -> memN x (consistent w') = true.

(* what a (sub)computation did, relative to the stack S (recorded dependencies untouched) and the tasks G whose own
   dependency lists may have grown; pend = executed tasks that are not yet marked consistent at the end *)
Record Post (S G pend : list task) (w w' : world) (seg : list event) : Prop := mkPost {
  po_ok : StoreOK w';
  po_frame : forall s, In s S -> kids_of (gr w') (tn s) = kids_of (gr w) (tn s);
  po_grow : forall g x, In g G -> In x (kids_of (gr w) (tn g)) -> In x (kids_of (gr w') (tn g));
  po_live : forall m, live (gr w) m = true -> live (gr w') m = true;
  po_seg : trace w' = rev seg ++ trace w;
  po_nodup : NoDup (execs seg);
  po_fresh : forall x, In x (execs seg) -> ~ In x S /\ ~ In x G /\ memN x (consistent w) = false;
  po_mono : cons_mono w w';
  po_cons : forall x, In x (execs seg) -> memN x (consistent w') = true \/ In x pend
}.

Lemma tn_inj a b : tn a = tn b -> a = b. Proof. unfold tn. lia. Qed.

(* ---- chains ---- *)
Lemma chain_path w S s : chain_ok w S -> In s S -> forall top, hd_error S = Some top -> s = top \/ path (gr w) (tn s) (tn top).
Proof.
  induction S as [|a tl IH]; intros C Hs top Ht; [destruct Hs|]. cbn in Ht. inversion Ht; subst a.
  destruct Hs as [<-|Hs]; [left; reflexivity|]. right.
  destruct tl as [|b tl']; [destruct Hs|]. destruct C as [E C'].
  destruct (IH C' Hs b eq_refl) as [->|Pth]; [apply path1; exact E|eapply path_snoc; eassumption].
Qed.

Lemma entry_not_in w S t : WF (gr w) -> Chain w S -> entry_ok w S t -> ~ In t S.
Proof.
  intros W [_ C] E Hin. destruct S as [|top tl]; [destruct Hin|]. cbn in E.
  destruct (chain_path w (top :: tl) t C Hin top eq_refl) as [->|Pth].
  - eapply wf_noloop; eassumption.
  - eapply WF_acyclic; [exact W|]. eapply path_snoc; eassumption.
Qed.

Lemma chain_frame w w' S : chain_ok w S -> (forall s, In s S -> kids_of (gr w') (tn s) = kids_of (gr w) (tn s)) -> chain_ok w' S.
Proof.
  induction S as [|a tl IH]; intros C F; [exact I|]. destruct tl as [|b tl']; [exact I|]. destruct C as [E C']. split.
  - unfold edge in *. rewrite F by (right; left; reflexivity). exact E.
  - apply IH; [exact C'|]. intros s Hs. apply F. right. exact Hs.
Qed.
Lemma chain_grow w w' S g : chain_ok w (g :: S) ->
  (forall s, In s S -> kids_of (gr w') (tn s) = kids_of (gr w) (tn s)) -> chain_ok w' (g :: S).
Proof.
  intros C F. destruct S as [|b tl]; [exact I|]. destruct C as [E C']. split.
  - unfold edge in *. rewrite F by (left; reflexivity). exact E.
  - apply (chain_frame w w'); assumption.
Qed.

(* ---- Post algebra ---- *)
Lemma post_refl S G w : StoreOK w -> Post S G [] w w [].
Proof. intros H. constructor; try tauto; try (intros; reflexivity); cbn; try constructor; try tauto. intros x X; exact X. Qed.

Lemma post_quiet S G w w' :
  StoreOK w' -> (forall m, kids_of (gr w') m = kids_of (gr w) m) -> (forall m, live (gr w) m = true -> live (gr w') m = true) ->
  trace w' = trace w -> cons_mono w w' -> Post S G [] w w' [].
Proof.
  intros H K L T M. constructor; try assumption; cbn; try constructor; try tauto.
  - intros s _. apply K. - intros g x _ X. rewrite K. exact X.
Qed.

Lemma post_seq S G pend w w1 w2 a b :
  Post S G [] w w1 a -> Post S G pend w1 w2 b -> Post S G pend w w2 (a ++ b).
Proof.
  intros [A1 A2 A3 A4 A5 A6 A7 A8 A9] [B1 B2 B3 B4 B5 B6 B7 B8 B9]. constructor.
  - exact B1.
  - intros s Hs. rewrite B2, A2 by exact Hs. reflexivity.
  - intros g x Hg X. apply B3; [exact Hg|]. apply A3; assumption.
  - intros m L. apply B4, A4. exact L.
  - rewrite B5, A5, rev_app_distr, app_assoc. reflexivity.
  - rewrite execs_app. apply NoDup_app_intro_t; try assumption.
    intros x X Y. destruct (A9 x X) as [Z|[]]. destruct (B7 x Y) as [_ [_ Z']]. congruence.
  - intros x X. rewrite execs_app in X. apply in_app_or in X. destruct X as [X|X]; [apply A7; exact X|].
    destruct (B7 x X) as [P1 [P2 P3]]. split; [exact P1|]. split; [exact P2|].
    destruct (memN x (consistent w)) eqn:Z; [|reflexivity]. apply A8 in Z. congruence.
  - intros x X. apply B8, A8. exact X.
  - intros x X. rewrite execs_app in X. apply in_app_or in X. destruct X as [X|X]; [|apply B9; exact X].
    destruct (A9 x X) as [Z|[]]. left. apply B8. exact Z.
Qed.

(* weaker record for aborted computations: what matters is what was executed before the abort *)
Record PostA (S G : list task) (w w' : world) (seg : list event) : Prop := mkPostA {
  pa_ok : StoreOK w';
  pa_seg : trace w' = rev seg ++ trace w;
  pa_nodup : NoDup (execs seg);
  pa_fresh : forall x, In x (execs seg) -> ~ In x S /\ ~ In x G /\ memN x (consistent w) = false
}.
Lemma post_to_A S G pend w w' seg : Post S G pend w w' seg -> PostA S G w w' seg.
Proof. intros [A1 A2 A3 A4 A5 A6 A7 A8 A9]. constructor; assumption. Qed.
Lemma postA_seq S G w w1 w2 a b : Post S G [] w w1 a -> PostA S G w1 w2 b -> PostA S G w w2 (a ++ b).
Proof.
  intros [A1 A2 A3 A4 A5 A6 A7 A8 A9] [B1 B5 B6 B7]. constructor.
  - exact B1.
  - rewrite B5, A5, rev_app_distr, app_assoc. reflexivity.
  - rewrite execs_app. apply NoDup_app_intro_t; try assumption.
    intros x X Y. destruct (A9 x X) as [Z|[]]. destruct (B7 x Y) as [_ [_ Z']]. congruence.
  - intros x X. rewrite execs_app in X. apply in_app_or in X. destruct X as [X|X]; [apply A7; exact X|].
    destruct (B7 x X) as [P1 [P2 P3]]. split; [exact P1|]. split; [exact P2|].
    destruct (memN x (consistent w)) eqn:Z; [|reflexivity]. apply A8 in Z. congruence.
Qed.

Definition okP {A} (S G pend : list task) (w : world) (m : outcome A) (extra : A -> world -> Prop) : Prop :=
  match m with
  | Done a w' => (exists seg, Post S G pend w w' seg) /\ extra a w'
  | Abort k w' => k = ABug 4 \/ exists seg, PostA S G w w' seg
  | OutOfFuel => True
  end.

(* ---- leaf operations of an executing task t: only t's dependency list may grow; nothing is executed ---- *)
Record Leaf (t : task) (w w' : world) : Prop := mkLeaf {
  lf_ok : StoreOK w';
  lf_grows : grows_at (gr w) (gr w') (tn t);
  lf_seg : exists seg, trace w' = rev seg ++ trace w /\ execs seg = [];
  lf_cons : consistent w' = consistent w;
  lf_cur : cur w' = cur w
}.

Lemma leaf_refl t w : StoreOK w -> Leaf t w w.
Proof. intros H. constructor; [exact H|apply grows_refl|exists []; split; reflexivity|reflexivity|reflexivity]. Qed.
Lemma leaf_trans t w1 w2 w3 : Leaf t w1 w2 -> Leaf t w2 w3 -> Leaf t w1 w3.
Proof.
  intros [A1 A2 [sa [A3 A3']] A4 A5] [B1 B2 [sb [B3 B3']] B4 B5]. constructor.
  - exact B1. - eapply grows_trans; eassumption.
  - exists (sa ++ sb). split; [rewrite B3, A3, rev_app_distr, app_assoc; reflexivity|rewrite execs_app, A3', B3'; reflexivity].
  - congruence. - congruence.
Qed.
Definition noexec (e : event) : Prop := match e with EExecStart _ => False | _ => True end.
Lemma leaf_emit t w e : StoreOK w -> noexec e -> Leaf t w (emit w e).
Proof.
  intros H N. constructor; [exact H|apply grows_refl| |reflexivity|reflexivity].
  exists [e]. split; [reflexivity|]. destruct e; try reflexivity. destruct N.
Qed.
Lemma leaf_goc_res t w r : StoreOK w -> Leaf t w (get_or_create_resource_node w r).
Proof.
  intros H. constructor.
  - apply goc_res_ok. exact H.
  - unfold get_or_create_resource_node. destruct (live (gr w) (rn r)) eqn:L; [apply grows_refl|].
    apply same_grows. apply add_node_same. exact L.
  - exists []. split; [|reflexivity]. unfold get_or_create_resource_node. destruct (live _ _); reflexivity.
  - unfold get_or_create_resource_node. destruct (live _ _); reflexivity.
  - unfold get_or_create_resource_node. destruct (live _ _); reflexivity.
Qed.
Lemma leaf_goc_task t w x : StoreOK w -> Leaf t w (get_or_create_task_node w x).
Proof.
  intros H. constructor.
  - apply goc_task_ok. exact H.
  - unfold get_or_create_task_node. destruct (live (gr w) (tn x)) eqn:L; [apply grows_refl|].
    apply same_grows. apply add_node_same. exact L.
  - exists []. split; [|reflexivity]. unfold get_or_create_task_node. destruct (live _ _); reflexivity.
  - unfold get_or_create_task_node. destruct (live _ _); reflexivity.
  - unfold get_or_create_task_node. destruct (live _ _); reflexivity.
Qed.
Lemma leaf_set_content t w r v : StoreOK w -> Leaf t w (set_content w r v).
Proof. intros H. destruct v; (constructor; [exact H|apply grows_refl|exists []; split; reflexivity|reflexivity|reflexivity]). Qed.

(* adding a dependency from the executing task *)
Lemma leaf_add_dependency t w d dp :
  StoreOK w -> dep_target_ok d dp ->
  (is_write (Some dp) = true -> forall r, d = rn r -> writers (gr w) r = []) ->
  match add_dependency w (tn t) d dp with
  | (AddBug, _) => True
  | (_, w') => Leaf t w w'
  end.
Proof.
  intros H Hd Hw. pose proof (add_dependency_ok w (tn t) d dp H (tn_even t) Hd Hw) as A.
  pose proof (add_dependency_grows w (tn t) d dp (proj1 H)) as G.
  assert (T : forall w', snd (add_dependency w (tn t) d dp) = w' -> trace w' = trace w /\ consistent w' = consistent w /\ cur w' = cur w).
  { intros w' <-. unfold add_dependency. destruct (add_edge _ _ _ _) as [[b|[|]|] g']; repeat split. }
  destruct (add_dependency w (tn t) d dp) as [[| |] w']; cbn [snd] in *; try exact I;
  destruct (T w' eq_refl) as [T1 [T2 T3]];
  (constructor; [exact A|exact G|exists []; split; [exact T1|reflexivity]|exact T2|exact T3]).
Qed.

Lemma add_dependency_edge w s d dp w' :
  WF (gr w) -> add_dependency w s d dp = (AddOk, w') -> In d (kids_of (gr w') s).
Proof.
  intros W. unfold add_dependency. pose proof (add_edge_view (gr w) s d dp W) as V.
  destruct (add_edge (gr w) s d dp) as [[[|]|[|]|] g'] eqn:E; cbn [fst snd] in V; intros H; inversion H; subst; cbn [gr set_gr].
  - destruct V as [_ [_ [VK _]]]. rewrite VK, N.eqb_refl. apply in_or_app. right. left. reflexivity.
  - destruct V as [-> X]. exact X.
Qed.

Section X.
Variable RC : rcid -> rchecker.
Variable OC : ocid -> ochecker.
Variable P : task -> prog.

Lemma sess_read_leaf w t r c : StoreOK w -> cur w = Some t ->
  match sess_read RC w r c with
  | Done _ w' => Leaf t w w'
  | Abort k w' => k = ABug 4 \/ Leaf t w w'
  | OutOfFuel => True
  end.
Proof.
  intros H Hc. unfold sess_read. rewrite Hc.
  assert (L2 : Leaf t w (get_or_create_resource_node (emit w (EReadStart r c)) r)).
  { eapply leaf_trans; [apply (leaf_emit t w (EReadStart r c) H Logic.I)|apply leaf_goc_res; exact H]. }
  set (w2 := get_or_create_resource_node (emit w (EReadStart r c)) r) in *.
  destruct (hidden_read_check w2 t r); [right; exact L2|].
  destruct (rc_stamp _ _ _ _) as [st|e]; [|exact L2].
  assert (L3 : Leaf t w (emit w2 (EReadEnd r c st))) by (eapply leaf_trans; [exact L2|apply leaf_emit; [apply L2|exact Logic.I]]).
  pose proof (leaf_add_dependency t (emit w2 (EReadEnd r c st)) (rn r) (DRead r c st) (lf_ok _ _ _ L3) eq_refl) as A.
  assert (Hw : is_write (Some (DRead r c st)) = true -> forall r0, rn r = rn r0 -> writers (gr (emit w2 (EReadEnd r c st))) r0 = []) by (intros X; discriminate).
  specialize (A Hw). destruct (add_dependency _ _ _ _) as [[| |] w4].
  - eapply leaf_trans; eassumption. - eapply leaf_trans; eassumption. - left. reflexivity.
Qed.

Lemma sess_write_leaf w t r c v : StoreOK w -> cur w = Some t ->
  match sess_write RC w r c v with
  | Done _ w' => Leaf t w w'
  | Abort k w' => k = ABug 4 \/ Leaf t w w'
  | OutOfFuel => True
  end.
Proof.
  intros H Hc. unfold sess_write. rewrite Hc.
  assert (L2 : Leaf t w (get_or_create_resource_node (emit w (EWriteStart r c)) r)).
  { eapply leaf_trans; [apply (leaf_emit t w (EWriteStart r c) H Logic.I)|apply leaf_goc_res; exact H]. }
  set (w2 := get_or_create_resource_node (emit w (EWriteStart r c)) r) in *.
  destruct (validate_write w2 t r) as [k|] eqn:V; [right; exact L2|].
  assert (NW : get_task_writing_to_resource w2 r = None).
  { unfold validate_write in V. destruct (get_task_writing_to_resource w2 r); [discriminate|reflexivity]. }
  assert (L3 : Leaf t w (set_content w2 r v)) by (eapply leaf_trans; [exact L2|apply leaf_set_content; apply L2]).
  destruct (rc_stamp _ _ _ _) as [st|e]; [|exact L3].
  assert (L4 : Leaf t w (emit (set_content w2 r v) (EWriteEnd r c st))) by (eapply leaf_trans; [exact L3|apply leaf_emit; [apply L3|exact Logic.I]]).
  pose proof (leaf_add_dependency t (emit (set_content w2 r v) (EWriteEnd r c st)) (rn r) (DWrite r c st) (lf_ok _ _ _ L4) eq_refl) as A.
  assert (G : gr (emit (set_content w2 r v) (EWriteEnd r c st)) = gr w2) by (destruct v; reflexivity).
  assert (Hw : is_write (Some (DWrite r c st)) = true -> forall r0, rn r = rn r0 -> writers (gr (emit (set_content w2 r v) (EWriteEnd r c st))) r0 = []).
  { intros _ r0 E. assert (r = r0) by (unfold rn in E; lia). subst r0. rewrite G. apply writers_nil_of_none. exact NW. }
  specialize (A Hw). destruct (add_dependency _ _ _ _) as [[| |] w5].
  - eapply leaf_trans; eassumption. - eapply leaf_trans; eassumption. - left. reflexivity.
Qed.

Lemma sess_written_to_leaf w0 t r c v : StoreOK w0 -> cur w0 = Some t ->
  match sess_written_to RC w0 r c v with
  | Done _ w' => Leaf t w0 w'
  | Abort k w' => k = ABug 4 \/ Leaf t w0 w'
  | OutOfFuel => True
  end.
Proof.
  intros H Hc. unfold sess_written_to.
  assert (L1 : Leaf t w0 (set_content w0 r v)) by (apply leaf_set_content; exact H).
  set (w := set_content w0 r v) in *.
  assert (Hc' : cur w = Some t) by (rewrite (lf_cur _ _ _ L1); exact Hc). rewrite Hc'.
  assert (L2 : Leaf t w0 (get_or_create_resource_node (emit w (EWriteStart r c)) r)).
  { eapply leaf_trans; [exact L1|]. eapply leaf_trans; [apply (leaf_emit t w (EWriteStart r c) (lf_ok _ _ _ L1) Logic.I)|apply leaf_goc_res; apply L1]. }
  set (w2 := get_or_create_resource_node (emit w (EWriteStart r c)) r) in *.
  destruct (validate_write w2 t r) as [k|] eqn:V; [right; exact L2|].
  assert (NW : get_task_writing_to_resource w2 r = None).
  { unfold validate_write in V. destruct (get_task_writing_to_resource w2 r); [discriminate|reflexivity]. }
  destruct (rc_stamp _ _ _ _) as [st|e]; [|exact L2].
  assert (L4 : Leaf t w0 (emit w2 (EWriteEnd r c st))) by (eapply leaf_trans; [exact L2|apply leaf_emit; [apply L2|exact Logic.I]]).
  pose proof (leaf_add_dependency t (emit w2 (EWriteEnd r c st)) (rn r) (DWrite r c st) (lf_ok _ _ _ L4) eq_refl) as A.
  assert (Hw : is_write (Some (DWrite r c st)) = true -> forall r0, rn r = rn r0 -> writers (gr (emit w2 (EWriteEnd r c st))) r0 = []).
  { intros _ r0 E. assert (r = r0) by (unfold rn in E; lia). subst r0. apply writers_nil_of_none. exact NW. }
  specialize (A Hw). destruct (add_dependency _ _ _ _) as [[| |] w5].
  - eapply leaf_trans; eassumption. - eapply leaf_trans; eassumption. - left. reflexivity.
Qed.

(* a leaf step of the executing task t, seen from the stack t :: S *)
Lemma leaf_post S t pend w w' : Leaf t w w' -> ~ In t S -> exists seg, Post S [t] pend w w' seg.
Proof.
  intros [A1 [G1 [G2 G3]] [seg [A3 A3']] A4 A5] Ht. exists seg. constructor.
  - exact A1.
  - intros s Hs. apply G1. intros E. apply tn_inj in E. subst. tauto.
  - intros g x [<-|[]] X. apply G2. exact X.
  - exact G3.
  - exact A3.
  - rewrite A3'. constructor.
  - rewrite A3'. intros x [].
  - intros x X. rewrite A4. exact X.
  - rewrite A3'. intros x [].
Qed.
Lemma leaf_postA S t w w' : Leaf t w w' -> exists seg, PostA S [t] w w' seg.
Proof.
  intros [A1 _ [seg [A3 A3']] _ _]. exists seg. constructor; [exact A1|exact A3|rewrite A3'; constructor|rewrite A3'; intros x []].
Qed.

End X.

(* C02 / C04 / C09, global form of "every execution is justified", for EVERY session (top-down requires and bottom-up builds in
   any mix, completed or aborted, from any store, for all programs and checkers).  In the event stream of the session, the start
   of an execution of t
     - comes directly after the end of a top-down dependency check whose checker did NOT say "consistent" (validation of t's
       recorded dependencies failed: TdForward.v shows the started task is the owner), or
     - t was scheduled earlier in the session (bottom-up; by SJ a scheduling comes directly after a check of t that did not say
       "consistent"), or
     - t had no output when the session began (it never completed before), or
     - an execution of t started earlier in this session (a task without output because it is executing: ruled out by C07).
   Contrapositive: a task that completed before and none of whose dependency checks reports an inconsistency is never executed;
   a dependency whose checker reports consistency never causes re-execution. *)
From Coq Require Import List NArith ZArith Bool Lia.
From PieV Require Import Model.Dag Model.Build Proofs.Sorting Proofs.ExecInv Proofs.BuJust.
From PieV Require Proofs.TdForward.
Notation failing := TdForward.failing.
Import ListNotations.
Open Scope N_scope.

Lemma In_removeN2 t x l : In x (removeN t l) -> In x l.
Proof. unfold removeN. intros X. apply filter_In in X. exact (proj1 X). Qed.

Definition head_failing (tr : list event) : Prop := match tr with e :: _ => failing e = true | [] => False end.

Section XJ.
Variable o0 : list (task * Z).       (* the task outputs when the session started *)

(* newest first *)
Fixpoint XJ (tr : list event) : Prop :=
  match tr with
  | [] => True
  | EExecStart t :: rest =>
      (head_failing rest \/ In (ESchedTask t) rest \/ alookup o0 t = None \/ In (EExecStart t) rest) /\ XJ rest
  | _ :: rest => XJ rest
  end.
Lemma XJ_plain e tr : plain e = true -> XJ tr -> XJ (e :: tr).
Proof. destruct e; cbn; try discriminate; intros _ H; exact H. Qed.
Lemma XJ_sched t tr : XJ tr -> XJ (ESchedTask t :: tr). Proof. intros H. exact H. Qed.
Lemma XJ_app seg tr : Forall (fun e => plain e = true) seg -> XJ tr -> XJ (seg ++ tr).
Proof. induction 1 as [|e seg He _ IH]; intros H; cbn [app]; [exact H|apply XJ_plain; [exact He|apply IH; exact H]]. Qed.

Record E (w : world) : Prop := mkE {
  e_queue : forall t, In t (queue w) -> In (ESchedTask t) (trace w);
  e_out : forall t, get_task_output w t = None -> alookup o0 t = None \/ In (EExecStart t) (trace w);
  e_xj : XJ (trace w);
  e_sj : SJ (trace w)
}.
Definition okE {A} (m : outcome A) : Prop := match m with Done _ w' | Abort _ w' => E w' | OutOfFuel => True end.
Lemma bind_E {A B} (m : outcome A) (f : A -> world -> outcome B) : okE m -> (forall a w, E w -> okE (f a w)) -> okE (bind m f).
Proof. destruct m; cbn; intros H F; [apply F; exact H|exact H|exact Logic.I]. Qed.

Lemma quiet_E w w' : quiet w w' -> E w -> E w'.
Proof.
  intros [[s [T F]] [Q O]] [A2 A4 A3 A5]. constructor.
  - intros t X. rewrite Q in X. rewrite T. apply in_or_app. right. apply A2. exact X.
  - intros t X. unfold get_task_output in *. rewrite O in X. rewrite T. destruct (A4 t X) as [Y|Y]; [left; exact Y|right; apply in_or_app; right; exact Y].
  - rewrite T. apply XJ_app; assumption.
  - rewrite T. apply SJ_app; assumption.
Qed.
Lemma quietO_E {A} w (m : outcome A) : quietO w m -> E w -> okE m.
Proof. destruct m; cbn; intros Q H; [eapply quiet_E; eassumption|eapply quiet_E; eassumption|exact Logic.I]. Qed.

Section I.
Variable RC : rcid -> rchecker.
Variable OC : ocid -> ochecker.
Variable P : task -> prog.

Definition EREQ (req : world -> task -> ocid -> outcome Z) : Prop := forall w t c, E w -> okE (req w t c).
Definition EMC (mc : world -> task -> outcome Z) : Prop := forall w t, E w -> okE (mc w t).

Lemma exec_prog_E req : EREQ req -> forall p w, E w -> okE (exec_prog RC OC req p w).
Proof.
  intros Hreq. induction p as [o| |t c k IH|r c k IH|r c v k IH|r c v k IH]; intros w Hw; cbn [exec_prog].
  - exact Hw.
  - exact Hw.
  - apply bind_E; [apply Hreq; exact Hw|]. intros o w' Hw'. apply IH. exact Hw'.
  - apply bind_E; [apply (quietO_E w); [apply sess_read_quiet|exact Hw]|]. intros x w' Hw'. apply IH. exact Hw'.
  - apply bind_E; [apply (quietO_E w); [apply sess_write_quiet|exact Hw]|]. intros x w' Hw'. apply IH. exact Hw'.
  - apply bind_E; [apply (quietO_E w); [apply sess_written_to_quiet|exact Hw]|]. intros x w' Hw'. apply IH. exact Hw'.
Qed.

(* the justification of an execution of t in world w *)
Definition Just (w : world) (t : task) : Prop :=
  head_failing (trace w) \/ In (ESchedTask t) (trace w) \/ get_task_output w t = None.

Lemma exec_start_E w t : E w -> Just w t -> E (emit (set_cur (reset_task w t) (Some t)) (EExecStart t)).
Proof.
  intros [A2 A4 A3 A5] HJ. constructor.
  - intros x X. right. apply A2. exact X.
  - intros x X. destruct (N.eq_dec x t) as [->|Hx]; [right; left; reflexivity|].
    change (alookup (aremove (outs w) t) x = None) in X. rewrite (alookup_aremove_other _ _ _ Hx) in X.
    destruct (A4 x X) as [Y|Y]; [left; exact Y|right; right; exact Y].
  - change (XJ (EExecStart t :: trace w)). cbn [XJ]. split; [|exact A3].
    destruct HJ as [Y|[Y|Y]]; [left; exact Y|right; left; exact Y|].
    destruct (A4 t Y) as [Z|Z]; [right; right; left; exact Z|right; right; right; exact Z].
  - exact A5.
Qed.

Lemma exec_end_E w t o c : E w -> E (set_task_output (set_cur (emit w (EExecEnd t o)) c) t o).
Proof.
  intros [A2 A4 A3 A5]. constructor.
  - intros x X. right. apply A2. exact X.
  - intros x X. change (alookup (aset (outs w) t o) x = None) in X. destruct (N.eq_dec x t) as [->|Hx]; [rewrite alookup_aset_eq in X; discriminate|].
    rewrite (alookup_aset_other _ _ _ _ Hx) in X. destruct (A4 x X) as [Y|Y]; [left; exact Y|right; right; exact Y].
  - exact A3.
  - exact A5.
Qed.

Lemma execute_with_E req w t : EREQ req -> E w -> Just w t -> okE (execute_with RC OC P req w t).
Proof.
  intros Hreq Hw HJ. unfold execute_with. apply bind_E.
  - apply exec_prog_E; [exact Hreq|]. apply exec_start_E; assumption.
  - intros o w3 H3. cbn. apply exec_end_E. exact H3.
Qed.

Lemma require_with_E mc : EMC mc -> EREQ (require_with OC mc).
Proof.
  intros Hmc w t c Hw. unfold require_with.
  assert (H2 : E (get_or_create_task_node (emit w (ERequireStart t c)) t)).
  { eapply quiet_E; [|exact Hw]. eapply quiet_trans; [|apply quiet_goc_task]; [apply quiet_emit; reflexivity]. }
  apply bind_E; [apply (quietO_E _ _ (reserve_quiet _ t) H2)|]. intros _ w3 H3.
  apply bind_E; [apply Hmc; exact H3|]. intros o w4 H4.
  assert (H5 : E (emit w4 (ERequireEnd t c (oc_stamp (OC c) o) o))) by (eapply quiet_E; [apply quiet_emit; reflexivity|exact H4]).
  apply bind_E; [apply (quietO_E _ _ (update_quiet _ t c _) H5)|]. intros _ w6 H6. exact H6.
Qed.

Lemma mark_E w t : E w -> E (mark_consistent w t).
Proof. apply quiet_E. apply quiet_same; reflexivity. Qed.

(* ---- top-down validation ---- *)
Definition okC (m : outcome bool) : Prop :=
  match m with Done true w' => E w' | Done false w' => E w' /\ head_failing (trace w') | Abort _ w' => E w' | OutOfFuel => True end.

Lemma check_resource_E w r c st : E w ->
  match check_resource_td RC w r c st with (Consistent, w1) => E w1 | (CErr e, w1) => E (push_err w1 e) /\ head_failing (trace (push_err w1 e)) | (_, w1) => E w1 /\ head_failing (trace w1) end.
Proof.
  intros Hw. unfold check_resource_td. cbv zeta.
  set (w1 := emit w (ECheckResStart r c st)).
  assert (H1 : E w1) by (eapply quiet_E; [apply quiet_emit; reflexivity|exact Hw]).
  destruct (rc_check (RC c) (env w1) r (get_content w1 r) st) as [| |e] eqn:X.
  - eapply quiet_E; [apply quiet_emit; reflexivity|exact H1].
  - split; [eapply quiet_E; [apply quiet_emit; reflexivity|exact H1]|reflexivity].
  - split; [|reflexivity]. eapply quiet_E; [|exact H1].
    eapply quiet_trans; [apply (quiet_emit w1 (ECheckResEnd r c st (CErr e))); reflexivity|apply quiet_same; reflexivity].
Qed.

Lemma check_deps_E mc : EMC mc -> forall ds w, E w -> okC (check_deps RC OC mc ds w).
Proof.
  intros Hmc. induction ds as [|d tl IH]; intros w Hw; cbn [check_deps]; [exact Hw|].
  destruct d as [[|t c st|r c st|r c st]|]; try exact Hw.
  - assert (H1 : E (emit w (ECheckTaskStart t c st))) by (eapply quiet_E; [apply quiet_emit; reflexivity|exact Hw]).
    specialize (Hmc _ t H1). destruct (mc (emit w (ECheckTaskStart t c st)) t) as [o w2|k w2|]; cbn [bind okE okC] in *; [|exact Hmc|exact Logic.I].
    destruct (oc_check (OC c) o st) eqn:OK; cbn [negb].
    + apply IH. eapply quiet_E; [apply quiet_emit; reflexivity|exact Hmc].
    + split; [eapply quiet_E; [apply quiet_emit; reflexivity|exact Hmc]|reflexivity].
  - pose proof (check_resource_E w r c st Hw) as X. destruct (check_resource_td RC w r c st) as [[| |e] w1]; [apply IH; exact X|exact X|exact X].
  - pose proof (check_resource_E w r c st Hw) as X. destruct (check_resource_td RC w r c st) as [[| |e] w1]; [apply IH; exact X|exact X|exact X].
Qed.

Theorem make_consistent_td_E fuel : EMC (make_consistent_td RC OC P fuel).
Proof.
  induction fuel as [|f IH]; intros w t Hw; cbn [make_consistent_td]; [exact Logic.I|].
  assert (H0 : E (get_or_create_task_node w t)) by (eapply quiet_E; [apply quiet_goc_task|exact Hw]).
  set (w0 := get_or_create_task_node w t) in *.
  destruct (memN t (consistent w0)); [destruct (get_task_output w0 t); exact H0|].
  assert (Hreq : EREQ (require_with OC (make_consistent_td RC OC P f))) by (apply require_with_E; exact IH).
  destruct (get_task_output w0 t) eqn:Ho.
  - pose proof (check_deps_E _ IH (deps_of_task w0 t) w0 H0) as X.
    destruct (check_deps RC OC (make_consistent_td RC OC P f) (deps_of_task w0 t) w0) as [[|] w1|k w1|]; cbn [bind okC] in *; [| |exact X|exact Logic.I].
    + destruct (get_task_output w1 t) eqn:Ho1.
      * apply mark_E. exact X.
      * apply bind_E; [apply execute_with_E; [exact Hreq|exact X|right; right; exact Ho1]|]. intros o w2 H2. apply mark_E. exact H2.
    + destruct X as [X1 X2]. apply bind_E; [apply execute_with_E; [exact Hreq|exact X1|left; exact X2]|]. intros o w2 H2. apply mark_E. exact H2.
  - apply bind_E; [apply execute_with_E; [exact Hreq|exact H0|right; right; exact Ho]|]. intros o w2 H2. apply mark_E. exact H2.
Qed.

(* ---- bottom-up ---- *)
Lemma require_bu_with_E mc : EMC mc -> EREQ (require_bu_with OC mc).
Proof.
  intros Hmc w t c Hw. unfold require_bu_with. apply bind_E; [apply require_with_E; assumption|].
  intros o w' H'. cbn. apply mark_E. exact H'.
Qed.

Lemma sched_E w w2 t e :
  E w -> plain e = true -> incons_end t e -> trace w2 = e :: trace w -> queue w2 = queue w -> outs w2 = outs w ->
  E (queue_add (emit w2 (ESchedTask t)) t).
Proof.
  intros [A2 A4 A3 A5] Pe He T Q O.
  assert (TQ : trace (queue_add (emit w2 (ESchedTask t)) t) = ESchedTask t :: e :: trace w).
  { unfold queue_add. destruct (memN _ _); cbn; rewrite T; reflexivity. }
  assert (OQ : outs (queue_add (emit w2 (ESchedTask t)) t) = outs w).
  { unfold queue_add. destruct (memN _ _); cbn; exact O. }
  constructor.
  - intros x X. rewrite TQ. unfold queue_add in X. cbn [queue emit] in X.
    assert (Y : In x (queue w) \/ x = t).
    { destruct (memN t (queue w2)); cbn in X; [left; rewrite <- Q; exact X|].
      apply in_app_or in X. destruct X as [X|[X|[]]]; [left; rewrite <- Q; exact X|right; symmetry; exact X]. }
    destruct Y as [Y| ->]; [right; right; apply A2; exact Y|left; reflexivity].
  - intros x X. rewrite TQ. unfold get_task_output in *. rewrite OQ in X. destruct (A4 x X) as [Y|Y]; [left; exact Y|right; right; right; exact Y].
  - rewrite TQ. apply XJ_sched. apply XJ_plain; assumption.
  - rewrite TQ. cbn [SJ]. split; [exact He|]. apply SJ_plain; assumption.
Qed.

Lemma try_schedule_E w t r c st : E w -> E (try_schedule RC w t r c st).
Proof.
  intros Hw. unfold try_schedule. cbv zeta.
  set (w1 := emit w (ECheckReadResStart t c st)).
  assert (H1 : E w1) by (eapply quiet_E; [apply quiet_emit; reflexivity|exact Hw]).
  destruct (rc_check (RC c) (env w1) r (get_content w1 r) st) as [| |e] eqn:X.
  - eapply quiet_E; [apply quiet_emit; reflexivity|exact H1].
  - apply (sched_E w1 _ t (ECheckReadResEnd t c st Inconsistent)); [exact H1|reflexivity|split; [reflexivity|discriminate]|reflexivity|reflexivity|reflexivity].
  - apply (sched_E w1 _ t (ECheckReadResEnd t c st (CErr e))); [exact H1|reflexivity|split; [reflexivity|discriminate]|reflexivity|reflexivity|reflexivity].
Qed.
Lemma try_schedule_edge_E b w p : E w -> E (try_schedule_edge RC b w p).
Proof.
  intros Hw. unfold try_schedule_edge. destruct (snd p) as [[|t c st|r c st|r c st]|]; try exact Hw.
  - apply try_schedule_E; exact Hw.
  - destruct b; [exact Hw|apply try_schedule_E; exact Hw].
Qed.
Lemma fold_E {X} (f : world -> X -> world) l : (forall w x, E w -> E (f w x)) -> forall w, E w -> E (fold_left f l w).
Proof. intros Hf. induction l as [|x tl IH]; intros w Hw; cbn [fold_left]; [exact Hw|apply IH, Hf; exact Hw]. Qed.
Lemma schedule_tasks_affected_by_E w r : E w -> E (schedule_tasks_affected_by RC w r).
Proof.
  intros Hw. unfold schedule_tasks_affected_by. cbv zeta.
  eapply quiet_E; [apply quiet_emit; reflexivity|]. apply fold_E; [intros; apply try_schedule_edge_E; assumption|].
  eapply quiet_E; [|exact Hw]. eapply quiet_trans; [|apply quiet_goc_res]; [apply quiet_emit; reflexivity].
Qed.
Lemma schedule_by_written_E w r : E w -> E (schedule_by_written RC w r).
Proof.
  intros Hw. unfold schedule_by_written. cbv zeta.
  eapply quiet_E; [apply quiet_emit; reflexivity|]. apply fold_E; [intros; apply try_schedule_edge_E; assumption|].
  eapply quiet_E; [apply quiet_emit; reflexivity|exact Hw].
Qed.
Lemma schedule_requirer_E o w p : E w -> E (schedule_requirer OC o w p).
Proof.
  intros Hw. unfold schedule_requirer. destruct (snd p) as [[|t c st|r c st|r c st]|]; try exact Hw. cbv zeta.
  set (rq := un (fst p)). set (w1 := emit w (ECheckReqTaskStart rq c st)).
  assert (H1 : E w1) by (eapply quiet_E; [apply quiet_emit; reflexivity|exact Hw]).
  destruct (oc_check (OC c) o st).
  - eapply quiet_E; [apply quiet_emit; reflexivity|exact H1].
  - apply (sched_E w1 _ rq (ECheckReqTaskEnd rq c st (negb false))); [exact H1|reflexivity|split; reflexivity|reflexivity|reflexivity|reflexivity].
Qed.
Lemma schedule_after_E w t o : E w -> E (schedule_after RC OC w t o).
Proof.
  intros Hw. unfold schedule_after. cbv zeta. apply mark_E.
  eapply quiet_E; [apply quiet_emit; reflexivity|]. apply fold_E; [intros; apply schedule_requirer_E; assumption|].
  eapply quiet_E; [apply quiet_emit; reflexivity|]. apply fold_E; [intros; apply schedule_by_written_E; assumption|exact Hw].
Qed.

Lemma pop_E w (q : list task) : (forall x, In x q -> In x (queue w)) -> E w -> E (set_queue w q).
Proof.
  intros Hq [A2 A4 A3 A5]. constructor; [|exact A4|exact A3|exact A5].
  intros x X. apply A2. apply Hq. exact X.
Qed.
Lemma queue_pop_E w t w' : E w -> queue_pop w = Some (t, w') -> E w' /\ Just w' t.
Proof.
  unfold queue_pop. intros Hw. destruct (rev (sort_queue w)) as [|x tl] eqn:X; [discriminate|]. intros H. inversion H; subst x w'. clear H.
  assert (Xt : In t (queue w)). { apply sort_queue_In'. apply in_rev. rewrite X. left. reflexivity. }
  split; [apply pop_E; [intros y Y; apply sort_queue_In'; eapply In_removeN2; exact Y|exact Hw]|].
  right. left. apply (e_queue _ Hw). exact Xt.
Qed.
Lemma pop_least_E w s t w' : E w -> pop_least_from w s = Some (t, w') -> E w' /\ Just w' t.
Proof.
  unfold pop_least_from. intros Hw. destruct (find _ _) as [x|] eqn:X; [|discriminate]. intros H. inversion H; subst x w'. clear H.
  assert (Xt : In t (queue w)). { apply sort_queue_In'. apply in_rev. apply (find_some _ _ X). }
  split; [apply pop_E; [intros y Y; apply sort_queue_In'; eapply In_removeN2; exact Y|exact Hw]|].
  right. left. apply (e_queue _ Hw). exact Xt.
Qed.

Theorem bottom_up_E fuel :
  (forall w t, E w -> Just w t -> okE (bu_execute_and_schedule RC OC P fuel w t)) /\
  EMC (bu_make_consistent RC OC P fuel) /\
  (forall w t, E w -> okE (bu_require_scheduled_now RC OC P fuel w t)).
Proof.
  induction fuel as [|f [IH1 [IH2 IH3]]]; [repeat split; intros; exact Logic.I|].
  assert (Hreq : EREQ (require_bu_with OC (bu_make_consistent RC OC P f))) by (apply require_bu_with_E; exact IH2).
  split; [|split].
  - intros w t Hw HJ. cbn [bu_execute_and_schedule]. apply bind_E; [apply execute_with_E; assumption|].
    intros o w1 H1. cbn [okE]. apply schedule_after_E. exact H1.
  - intros w t Hw. cbn [bu_make_consistent]. destruct (memN t (consistent w)).
    + destruct (get_task_output w t); exact Hw.
    + destruct (get_task_output w t) as [o|] eqn:Ho; cbn [andb].
      * apply bind_E; [apply IH3; exact Hw|]. intros r w1 H1. destruct r; [exact H1|]. destruct (get_task_output w1 t); exact H1.
      * destruct (negb (memN t (queue w))).
        -- apply execute_with_E; [exact Hreq|exact Hw|]. right. right. exact Ho.
        -- apply bind_E; [apply IH3; exact Hw|]. intros r w1 H1. destruct r; [exact H1|]. destruct (get_task_output w1 t); exact H1.
  - intros w t Hw. cbn [bu_require_scheduled_now]. destruct (queue w); [exact Hw|].
    destruct (pop_least_from w t) as [[m w1]|] eqn:X; [|exact Hw].
    destruct (pop_least_E w t m w1 Hw X) as [H1 J1].
    apply bind_E; [apply IH1; assumption|]. intros o w2 H2. destruct (N.eqb m t); [exact H2|apply IH3; exact H2].
Qed.

Theorem execute_scheduled_E fuel : forall w, E w -> okE (execute_scheduled RC OC P fuel w).
Proof.
  induction fuel as [|f IH]; intros w Hw; cbn [execute_scheduled]; [exact Logic.I|].
  destruct (queue_pop w) as [[t w1]|] eqn:X; [|exact Hw].
  destruct (queue_pop_E w t w1 Hw X) as [H1 J1].
  apply bind_E; [apply (proj1 (bottom_up_E f)); assumption|]. intros _ w2 H2. apply IH. exact H2.
Qed.

(* ---- sessions ---- *)
Variable always : ocid.

Theorem session_require_E fuel w t : E w -> okE (session_require RC OC P always fuel w t).
Proof.
  intros Hw. unfold session_require, require_td.
  apply bind_E; [apply require_with_E; [apply make_consistent_td_E|]|].
  - eapply quiet_E; [|exact Hw]. eapply quiet_trans; [apply (quiet_same w (set_cur w None)); reflexivity|apply quiet_emit; reflexivity].
  - intros o w2 H2. cbn. eapply quiet_E; [apply quiet_emit; reflexivity|exact H2].
Qed.

Theorem session_bottom_up_E fuel w ch : E w -> okE (session_bottom_up RC OC P fuel w ch).
Proof.
  intros Hw. unfold session_bottom_up. cbv zeta.
  set (w1 := fold_left (schedule_tasks_affected_by RC) ch (set_queue w [])).
  assert (H1 : E w1) by (apply fold_E; [intros; apply schedule_tasks_affected_by_E; assumption|apply pop_E; [intros x []|exact Hw]]).
  apply bind_E; [apply execute_scheduled_E|].
  - eapply quiet_E; [|exact H1]. eapply quiet_trans; [apply (quiet_same w1 (set_cur w1 None)); reflexivity|apply quiet_emit; reflexivity].
  - intros _ w3 H3. cbn. eapply quiet_E; [apply quiet_emit; reflexivity|exact H3].
Qed.

Lemma run_sop_E fuel w o : E w -> E (snd (run_sop RC OC P always fuel w o)).
Proof.
  intros Hw. destruct o as [t|ch]; cbn [run_sop].
  - pose proof (session_require_E fuel w t Hw) as X. destruct (session_require RC OC P always fuel w t); cbn in *; [exact X|exact X|exact Hw].
  - pose proof (session_bottom_up_E fuel w ch Hw) as X. destruct (session_bottom_up RC OC P fuel w ch); cbn in *; [exact X|exact X|exact Hw].
Qed.
Lemma run_session_E fuel ops : forall w, E w -> E (snd (run_session RC OC P always fuel w ops)).
Proof.
  induction ops as [|o tl IH]; intros w Hw; cbn [run_session]; [exact Hw|].
  pose proof (run_sop_E fuel w o Hw) as X. destruct (run_sop RC OC P always fuel w o) as [[x|k|] w']; cbn [snd] in *; [|exact X|exact X].
  specialize (IH w' X). destruct (run_session RC OC P always fuel w' tl) as [rs w'']. exact IH.
Qed.

End I.
End XJ.

(* readable form of XJ *)
Lemma XJ_spec o0 tr : XJ o0 tr -> forall post t pre, tr = post ++ EExecStart t :: pre ->
  head_failing pre \/ In (ESchedTask t) pre \/ alookup o0 t = None \/ In (EExecStart t) pre.
Proof.
  intros H post. revert tr H. induction post as [|e post IH]; intros tr H t pre E0; subst tr; cbn [app] in H.
  - apply H.
  - apply (IH (post ++ EExecStart t :: pre)); [|reflexivity]. destruct e; cbn in H; try exact H. apply H.
Qed.
Lemma SJ_spec tr : SJ tr -> forall post t pre, tr = post ++ ESchedTask t :: pre -> exists e pre', pre = e :: pre' /\ incons_end t e.
Proof.
  intros H post. revert tr H. induction post as [|e post IH]; intros tr H t pre E0; subst tr; cbn [app] in H.
  - destruct H as [H _]. destruct pre as [|e pre']; [contradiction|]. exists e, pre'. split; [reflexivity|exact H].
  - apply (IH (post ++ ESchedTask t :: pre)); [|reflexivity]. destruct e; cbn in H; try exact H. apply H.
Qed.

Section Top.
Variable RC : rcid -> rchecker.
Variable OC : ocid -> ochecker.
Variable P : task -> prog.
Variable always : ocid.

Lemma E_new_session w : E (outs w) (new_session w).
Proof. constructor; [intros t []|intros t X; left; exact X|exact Logic.I|exact Logic.I]. Qed.

(* EVERY session, from any store, completed or aborted (events newest first: [pre] is what happened before) *)
Theorem session_executions_justified fuel w ops :
  let tr := trace (snd (run_session RC OC P always fuel (new_session w) ops)) in
  (forall post t pre, tr = post ++ EExecStart t :: pre ->
     head_failing pre \/ In (ESchedTask t) pre \/ get_task_output w t = None \/ In (EExecStart t) pre) /\
  (forall post t pre, tr = post ++ ESchedTask t :: pre -> exists e pre', pre = e :: pre' /\ incons_end t e).
Proof.
  intros tr. pose proof (run_session_E (outs w) RC OC P always fuel ops (new_session w) (E_new_session w)) as [_ _ X S].
  split; [apply (XJ_spec _ _ X)|apply (SJ_spec _ S)].
Qed.

(* contrapositive: a task that completed before (it has an output when the session begins) is not executed in a session in which
   no dependency check reports an inconsistency or fails *)
Corollary consistent_checks_never_execute fuel w ops t o :
  get_task_output w t = Some o ->
  let tr := trace (snd (run_session RC OC P always fuel (new_session w) ops)) in
  (forall e, In e tr -> failing e = false) ->
  (forall e t', In e tr -> ~ incons_end t' e) ->
  ~ In (EExecStart t) tr.
Proof.
  intros Ho tr NF NI. destruct (session_executions_justified fuel w ops) as [X S]. fold tr in X, S.
  assert (NS : forall t', ~ In (ESchedTask t') tr).
  { intros t' Hin. apply in_split in Hin. destruct Hin as [post [pre E0]]. destruct (S post t' pre E0) as [e [pre' [-> Hi]]].
    apply (NI e t'); [|exact Hi]. rewrite E0. apply in_or_app. right. right. left. reflexivity. }
  (* the OLDEST start of t *)
  assert (G : forall pre post, tr = post ++ pre -> ~ In (EExecStart t) pre).
  { induction pre as [|e pre IH]; intros post E0 Hin; [contradiction|].
    assert (E1 : tr = (post ++ [e]) ++ pre) by (rewrite <- app_assoc; exact E0).
    destruct Hin as [->|Hin]; [|exact (IH _ E1 Hin)].
    destruct (X post t pre E0) as [Y|[Y|[Y|Y]]].
    - destruct pre as [|f pre']; [contradiction|]. cbn in Y. rewrite NF in Y; [discriminate|]. rewrite E0. apply in_or_app. right. right. left. reflexivity.
    - apply (NS t). rewrite E0. apply in_or_app. right. right. exact Y.
    - congruence.
    - exact (IH _ E1 Y). }
  apply (G tr []). reflexivity.
Qed.

End Top.

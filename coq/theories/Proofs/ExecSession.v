(* Session- and history-level consequences of the execution-stack argument (ExecInv.v), for top-down sessions:
   in any session of requires, from any store satisfying the two store invariants, no task is executed twice, and every
   executed task was not yet consistent; a require that returns leaves all executed tasks consistent; the only aborts are
   user-level ones (task panic, cycle, hidden dependency, overlapping write) -- never an internal-invariant error --
   and the invariants hold again in the store an abort leaves behind, so the same is true of every later session (C19).
   ABug 4 (the model's graph-search fuel) is excluded as everywhere. *)
From Coq Require Import List NArith ZArith Bool Lia.
From PieV Require Import Model.Dag Model.Build Proofs.DagLib Proofs.DagWF Proofs.DagPath Proofs.Inv Proofs.StoreInv Proofs.History
  Proofs.Effects Proofs.ExecInv.
Import ListNotations.
Open Scope N_scope.

Definition J (w : world) : Prop := StoreOK w /\ Inv2 w.
Lemma J_init : J init_world.
Proof. split; [exact GOK_empty|]. split; [intros t d X; discriminate|intros t X; discriminate]. Qed.
Lemma J_new_session w : J w -> J (new_session w).
Proof. intros [H [N C]]. split; [exact H|]. split; [exact N|intros t X; discriminate]. Qed.
Lemma J_set_content w r v : J w -> J (set_content w r v).
Proof. intros X. destruct v; exact X. Qed.
Lemma J_set_env w f : J w -> J (set_env w f). Proof. intros X. exact X. Qed.

Definition good_res (r : sres) : Prop := match r with RAbort k => user_abort k | _ => True end.

Section Z.
Variable RC : rcid -> rchecker.
Variable OC : ocid -> ochecker.
Variable P : task -> prog.
Variable always : ocid.

Lemma chain_nil w : Chain w []. Proof. split; [constructor|exact I]. Qed.

Lemma require_with_top mc w t c : MCspec mc -> StoreOK w -> Inv2 w -> cur w = None ->
  okP [] [] [] w (require_with OC mc w t c) (fun _ w' => cur w' = None).
Proof.
  intros HM H J0 Hc. unfold require_with.
  set (w1 := emit w (ERequireStart t c)). set (w2 := get_or_create_task_node w1 t).
  assert (P2 : Post [] [] [] w w2 ([ERequireStart t c] ++ [])).
  { eapply post_seq; [apply post_emit; [exact H|exact I]|apply goc_task_post; exact H]. }
  assert (Hc2 : cur w2 = None) by (unfold w2, get_or_create_task_node; destruct (live _ _); exact Hc).
  unfold reserve_require_dependency. rewrite Hc2. cbn [bind].
  eapply okP_pre; [exact P2|].
  apply (okP_bind [] [] [] w2 (mc w2 t) _ (fun _ w' => cur w' = None)).
  - eapply okP_extra; [|apply (HM w2 t []); [apply (po_ok _ _ _ _ _ _ P2)|apply (po_inv _ _ _ _ _ _ P2 J0)|apply chain_nil|exact I]].
    intros a w' X. cbn beta in X. rewrite (proj1 X). exact Hc2.
  - intros o w4 s4 P4 Hc4. unfold update_require_dependency.
    change (cur (emit w4 (ERequireEnd t c (oc_stamp (OC c) o) o))) with (cur w4). rewrite Hc4. cbn [bind].
    split; [|exact Hc4]. eexists. apply post_emit; [apply (po_ok _ _ _ _ _ _ P4)|exact I].
Qed.

Theorem session_require_spec fuel w t : StoreOK w -> Inv2 w ->
  okP [] [] [] w (session_require RC OC P always fuel w t) (fun _ _ => True).
Proof.
  intros H J0. unfold session_require, require_td.
  set (w1 := emit (set_cur w None) EBuildStart).
  assert (P1 : Post [] [] [] w w1 ([] ++ [EBuildStart])).
  { eapply (post_seq _ _ _ w (set_cur w None)); [apply post_quiet; try reflexivity; [exact H|tauto]|apply post_emit; [exact H|exact I]]. }
  eapply okP_pre; [exact P1|].
  eapply okP_bind; [apply require_with_top; [apply make_consistent_td_spec|exact H|apply (po_inv _ _ _ _ _ _ P1 J0)|reflexivity]|].
  intros o w2 s2 P2 _. split; [|exact I]. eexists. apply post_emit; [apply (po_ok _ _ _ _ _ _ P2)|exact I].
Qed.

(* what a session prefix did *)
Record Ran (w w' : world) (seg : list event) : Prop := mkRan {
  ran_ok : J w';
  ran_seg : trace w' = rev seg ++ trace w;
  ran_nodup : NoDup (execs seg);
  ran_fresh : forall x, In x (execs seg) -> memN x (consistent w) = false
}.

Fixpoint td_only (ops : list sop) : Prop :=
  match ops with [] => True | SRequire _ :: tl => td_only tl | SBottomUp _ :: _ => False end.

Theorem session_td_ran fuel ops : forall w, td_only ops -> J w ->
  Exists bug4 (fst (run_session RC OC P always fuel w ops)) \/
  (Forall good_res (fst (run_session RC OC P always fuel w ops)) /\
   exists seg, Ran w (snd (run_session RC OC P always fuel w ops)) seg).
Proof.
  induction ops as [|o tl IH]; intros w TD [H J0]; cbn [run_session] in *.
  - right. split; [constructor|]. exists []. constructor; [split; assumption|reflexivity|constructor|intros x []].
  - destruct o as [t|ch]; [|destruct TD]. cbn [td_only] in TD. cbn [run_sop] in *.
    pose proof (session_require_spec fuel w t H J0) as SP.
    destruct (session_require RC OC P always fuel w t) as [x w1|k w1|]; cbn [okP] in SP.
    + destruct SP as [[s1 P1] _]. specialize (IH w1 TD (conj (po_ok _ _ _ _ _ _ P1) (po_inv _ _ _ _ _ _ P1 J0))).
      destruct (run_session RC OC P always fuel w1 tl) as [rs w2] eqn:RS. cbn [fst snd] in *.
      destruct IH as [IH|[G [s2 [B1 B2 B3 B4]]]]; [left; right; exact IH|right].
      split; [constructor; [exact I|exact G]|].
      destruct P1 as [A1 A2 A3 A4 A5 A6 A7 A8 A9 A10 A11 A12 A13].
      exists (s1 ++ s2). constructor.
      * exact B1.
      * rewrite B2, A5, rev_app_distr, app_assoc. reflexivity.
      * rewrite execs_app. apply NoDup_app_intro_t; try assumption.
        intros y Y1 Y2. destruct (A9 y Y1) as [Z|[]]. rewrite (B4 y Y2) in Z. discriminate.
      * intros y Y. rewrite execs_app in Y. apply in_app_or in Y. destruct Y as [Y|Y]; [apply (A7 y Y)|].
        destruct (memN y (consistent w)) eqn:Z; [|reflexivity]. apply A8 in Z. rewrite (B4 y Y) in Z. discriminate.
    + cbn [fst snd] in *. destruct SP as [->|[U [s1 [A1 A2 A3 A4 A5]]]]; [left; left; reflexivity|right].
      split; [constructor; [exact U|constructor]|]. exists s1. constructor; [split; [exact A1|apply A5; exact J0]|exact A2|exact A3|].
      intros x X. apply (A4 x X).
    + cbn [fst snd]. right. split; [constructor; [exact I|constructor]|].
      exists []. constructor; [split; assumption|reflexivity|constructor|intros x []].
Qed.

(* the statement on the session's own event stream (a session starts with an empty stream) *)
Theorem session_td_at_most_once fuel w ops : J w -> td_only ops ->
  ~ Exists bug4 (fst (run_session RC OC P always fuel (new_session w) ops)) ->
  NoDup (execs (rev (trace (snd (run_session RC OC P always fuel (new_session w) ops))))).
Proof.
  intros H TD NB. destruct (session_td_ran fuel ops (new_session w) TD (J_new_session w H)) as [X|[_ [seg [_ B2 B3 _]]]]; [contradiction|].
  rewrite B2. cbn [new_session trace]. rewrite app_nil_r, rev_involutive. exact B3.
Qed.

(* every executed task was inconsistent (not yet checked or executed in this session) when the operation started, and a
   require that returns leaves every executed task consistent, so that it is not executed again in the session *)
Theorem session_require_execs fuel w t : J w ->
  match session_require RC OC P always fuel w t with
  | Done _ w' => J w' /\ exists seg, trace w' = rev seg ++ trace w /\ NoDup (execs seg) /\
                   forall x, In x (execs seg) -> memN x (consistent w) = false /\ memN x (consistent w') = true
  | Abort k w' => k = ABug 4 \/ (user_abort k /\ J w' /\ exists seg, trace w' = rev seg ++ trace w /\ NoDup (execs seg) /\
                   forall x, In x (execs seg) -> memN x (consistent w) = false)
  | OutOfFuel => True
  end.
Proof.
  intros [H J0]. pose proof (session_require_spec fuel w t H J0) as SP.
  destruct (session_require RC OC P always fuel w t) as [x w1|k w1|]; cbn [okP] in SP; [| |exact I].
  - destruct SP as [[s1 [A1 A2 A3 A4 A5 A6 A7 A8 A9 A10 A11 A12 A13]] _]. split; [split; [exact A1|apply A13; exact J0]|].
    exists s1. split; [exact A5|]. split; [exact A6|].
    intros y Y. split; [apply (A7 y Y)|]. destruct (A9 y Y) as [Z|[]]. exact Z.
  - destruct SP as [->|[U [s1 [A1 A2 A3 A4 A5]]]]; [left; reflexivity|right]. split; [exact U|]. split; [split; [exact A1|apply A5; exact J0]|].
    exists s1. split; [exact A2|]. split; [exact A3|]. intros y Y. apply (A4 y Y).
Qed.

(* ---- whole histories of top-down sessions and external changes ---- *)
Fixpoint td_hist (h : list step) : Prop :=
  match h with
  | [] => True
  | HSession ops :: tl => td_only ops /\ td_hist tl
  | _ :: tl => td_hist tl
  end.

Theorem history_td_sound fuel h : forall w, td_hist h -> J w ->
  Exists (Exists bug4) (fst (run_history RC OC P always fuel w h)) \/
  (Forall (Forall good_res) (fst (run_history RC OC P always fuel w h)) /\ J (snd (run_history RC OC P always fuel w h))).
Proof.
  induction h as [|s tl IH]; intros w TD Jw; cbn [run_history]; [right; split; [constructor|exact Jw]|].
  assert (X : Exists bug4 (fst (run_step RC OC P always fuel w s)) \/
              (Forall good_res (fst (run_step RC OC P always fuel w s)) /\ J (snd (run_step RC OC P always fuel w s)))).
  { destruct s as [r v|f|ops]; cbn [run_step fst snd].
    - right. split; [constructor|apply J_set_content; exact Jw].
    - right. split; [constructor|exact Jw].
    - destruct TD as [TD _]. destruct (session_td_ran fuel ops (new_session w) TD (J_new_session w Jw)) as [B|[G [seg R]]]; [left; exact B|right].
      split; [exact G|apply (ran_ok _ _ _ R)]. }
  assert (TD' : td_hist tl) by (destruct s; [exact TD|exact TD|exact (proj2 TD)]).
  destruct (run_step RC OC P always fuel w s) as [r w']. cbn [fst snd] in X.
  destruct X as [X|[G Jw']].
  - destruct (run_history RC OC P always fuel w' tl) as [rs w'']. cbn [fst]. left. left. exact X.
  - specialize (IH w' TD' Jw'). destruct (run_history RC OC P always fuel w' tl) as [rs w'']. cbn [fst snd] in *.
    destruct IH as [IH|[G' Jw'']]; [left; right; exact IH|right]. split; [constructor; assumption|exact Jw''].
Qed.

(* from the empty store: every result of every session of every history is a value, a user-level abort or out-of-fuel --
   never an internal-invariant error -- and the final store satisfies both invariants *)
Theorem history_td_no_internal_error fuel h : td_hist h ->
  ~ Exists (Exists bug4) (fst (run_history RC OC P always fuel init_world h)) ->
  Forall (Forall good_res) (fst (run_history RC OC P always fuel init_world h)) /\ J (snd (run_history RC OC P always fuel init_world h)).
Proof. intros TD NB. destruct (history_td_sound fuel h init_world TD J_init) as [X|X]; [contradiction|exact X]. Qed.

End Z.

(* Session-level consequences of the execution-stack argument (ExecInv.v), for top-down sessions:
   in any session of requires, from any store satisfying the store invariant (every reachable store does, History.v),
   no task is executed twice, and every executed task was not yet consistent; a require that returns leaves all
   executed tasks consistent.  ABug 4 (the model's graph-search fuel) is excluded as everywhere. *)
From Coq Require Import List NArith ZArith Bool Lia.
From PieV Require Import Model.Dag Model.Build Proofs.DagLib Proofs.DagWF Proofs.DagPath Proofs.Inv Proofs.StoreInv Proofs.History
  Proofs.Effects Proofs.ExecInv.
Import ListNotations.
Open Scope N_scope.

Section Z.
Variable RC : rcid -> rchecker.
Variable OC : ocid -> ochecker.
Variable P : task -> prog.
Variable always : ocid.

Lemma chain_nil w : Chain w []. Proof. split; [constructor|exact I]. Qed.

Lemma require_with_top mc w t c : MCspec mc -> StoreOK w -> cur w = None ->
  okP [] [] [] w (require_with OC mc w t c) (fun _ w' => cur w' = None).
Proof.
  intros HM H Hc. unfold require_with.
  set (w1 := emit w (ERequireStart t c)). set (w2 := get_or_create_task_node w1 t).
  assert (P2 : Post [] [] [] w w2 ([ERequireStart t c] ++ [])).
  { eapply post_seq; [apply post_emit; [exact H|exact I]|apply goc_task_post; exact H]. }
  assert (Hc2 : cur w2 = None) by (unfold w2, get_or_create_task_node; destruct (live _ _); exact Hc).
  unfold reserve_require_dependency. rewrite Hc2. cbn [bind].
  eapply okP_pre; [exact P2|].
  apply (okP_bind [] [] [] w2 (mc w2 t) _ (fun _ w' => cur w' = None)).
  - eapply okP_extra; [|apply (HM w2 t []); [apply (po_ok _ _ _ _ _ _ P2)|apply chain_nil|exact I]].
    intros a w' X. cbn beta in X. rewrite X. exact Hc2.
  - intros o w4 s4 P4 Hc4. unfold update_require_dependency.
    change (cur (emit w4 (ERequireEnd t c (oc_stamp (OC c) o) o))) with (cur w4). rewrite Hc4. cbn [bind].
    split; [|exact Hc4]. eexists. apply post_emit; [apply (po_ok _ _ _ _ _ _ P4)|exact I].
Qed.

Theorem session_require_spec fuel w t : StoreOK w ->
  okP [] [] [] w (session_require RC OC P always fuel w t) (fun _ _ => True).
Proof.
  intros H. unfold session_require, require_td.
  set (w1 := emit (set_cur w None) EBuildStart).
  assert (P1 : Post [] [] [] w w1 ([] ++ [EBuildStart])).
  { eapply (post_seq _ _ _ w (set_cur w None)); [apply post_quiet; try reflexivity; [exact H|tauto]|apply post_emit; [exact H|exact I]]. }
  eapply okP_pre; [exact P1|].
  eapply okP_bind; [apply require_with_top; [apply make_consistent_td_spec|exact H|reflexivity]|].
  intros o w2 s2 P2 _. split; [|exact I]. eexists. apply post_emit; [apply (po_ok _ _ _ _ _ _ P2)|exact I].
Qed.

(* what a session prefix did *)
Record Ran (w w' : world) (seg : list event) : Prop := mkRan {
  ran_ok : StoreOK w';
  ran_seg : trace w' = rev seg ++ trace w;
  ran_nodup : NoDup (execs seg);
  ran_fresh : forall x, In x (execs seg) -> memN x (consistent w) = false
}.
Lemma ran_of_postA w w' seg : PostA [] [] w w' seg -> Ran w w' seg.
Proof. intros [A1 A2 A3 A4]. constructor; try assumption. intros x X. apply (A4 x X). Qed.

Fixpoint td_only (ops : list sop) : Prop :=
  match ops with [] => True | SRequire _ :: tl => td_only tl | SBottomUp _ :: _ => False end.

Theorem session_td_ran fuel ops : forall w, td_only ops -> StoreOK w ->
  ~ Exists bug4 (fst (run_session RC OC P always fuel w ops)) ->
  exists seg, Ran w (snd (run_session RC OC P always fuel w ops)) seg.
Proof.
  induction ops as [|o tl IH]; intros w TD H NB; cbn [run_session] in *.
  - exists []. constructor; [exact H|reflexivity|constructor|intros x []].
  - destruct o as [t|ch]; [|destruct TD]. cbn [td_only] in TD. cbn [run_sop] in *.
    pose proof (session_require_spec fuel w t H) as SP.
    destruct (session_require RC OC P always fuel w t) as [x w1|k w1|]; cbn [okP] in SP.
    + destruct SP as [[s1 P1] _]. specialize (IH w1 TD (po_ok _ _ _ _ _ _ P1)).
      destruct (run_session RC OC P always fuel w1 tl) as [rs w2] eqn:RS. cbn [fst snd] in *.
      destruct IH as [s2 [B1 B2 B3 B4]]; [intros X; apply NB; right; exact X|].
      destruct P1 as [A1 A2 A3 A4 A5 A6 A7 A8 A9 A10].
      exists (s1 ++ s2). constructor.
      * exact B1.
      * rewrite B2, A5, rev_app_distr, app_assoc. reflexivity.
      * rewrite execs_app. apply NoDup_app_intro_t; try assumption.
        intros y Y1 Y2. destruct (A9 y Y1) as [Z|[]]. rewrite (B4 y Y2) in Z. discriminate.
      * intros y Y. rewrite execs_app in Y. apply in_app_or in Y. destruct Y as [Y|Y]; [apply (A7 y Y)|].
        destruct (memN y (consistent w)) eqn:Z; [|reflexivity]. apply A8 in Z. rewrite (B4 y Y) in Z. discriminate.
    + cbn [fst snd] in *. destruct SP as [->|[s1 PA]]; [exfalso; apply NB; left; reflexivity|].
      exists s1. apply ran_of_postA. exact PA.
    + cbn [fst snd]. exists []. constructor; [exact H|reflexivity|constructor|intros x []].
Qed.

(* the statement on the session's own event stream (a session starts with an empty stream) *)
Theorem session_td_at_most_once fuel w ops : StoreOK w -> td_only ops ->
  ~ Exists bug4 (fst (run_session RC OC P always fuel (new_session w) ops)) ->
  NoDup (execs (rev (trace (snd (run_session RC OC P always fuel (new_session w) ops))))).
Proof.
  intros H TD NB. destruct (session_td_ran fuel ops (new_session w) TD (StoreOK_new_session w H) NB) as [seg [_ B2 B3 _]].
  rewrite B2. cbn [new_session trace]. rewrite app_nil_r, rev_involutive. exact B3.
Qed.

(* every executed task was inconsistent (not yet checked or executed in this session) when the operation started, and a
   require that returns leaves every executed task consistent, so that it is not executed again in the session *)
Theorem session_require_execs fuel w t : StoreOK w ->
  match session_require RC OC P always fuel w t with
  | Done _ w' => exists seg, trace w' = rev seg ++ trace w /\ NoDup (execs seg) /\
                   forall x, In x (execs seg) -> memN x (consistent w) = false /\ memN x (consistent w') = true
  | Abort k w' => k = ABug 4 \/ exists seg, trace w' = rev seg ++ trace w /\ NoDup (execs seg) /\
                   forall x, In x (execs seg) -> memN x (consistent w) = false
  | OutOfFuel => True
  end.
Proof.
  intros H. pose proof (session_require_spec fuel w t H) as SP.
  destruct (session_require RC OC P always fuel w t) as [x w1|k w1|]; cbn [okP] in SP; [| |exact I].
  - destruct SP as [[s1 [A1 A2 A3 A4 A5 A6 A7 A8 A9 A10]] _]. exists s1. split; [exact A5|]. split; [exact A6|].
    intros y Y. split; [apply (A7 y Y)|]. destruct (A9 y Y) as [Z|[]]. exact Z.
  - destruct SP as [->|[s1 [A1 A2 A3 A4]]]; [left; reflexivity|right]. exists s1. split; [exact A2|]. split; [exact A3|].
    intros y Y. apply (A4 y Y).
Qed.

End Z.

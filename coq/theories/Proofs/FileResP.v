(* C13: stamp routes agree; untouched => consistent; a differing observed aspect => inconsistent; stamp_reader leaves the reader
   at the start; open_write creates/truncates files and refuses directories.  For all path states. *)
From Coq Require Import List NArith Bool Lia.
From PieV Require Import Model.FileRes.
Import ListNotations.
Open Scope N_scope.

Section P.
Variable H : Type.
Variable sha : bytes -> H.
Variable eqH : H -> H -> bool.
Hypothesis eqH_spec : forall a b, eqH a b = true <-> a = b.
Hypothesis sha_inj : forall a b, sha a = sha b -> a = b.      (* collision freeness of SHA-256: assumed *)

Lemma optN_eqb_spec a b : optN_eqb a b = true <-> a = b.
Proof.
  destruct a, b; cbn; try (split; [discriminate|intros X; inversion X]); try tauto.
  rewrite N.eqb_eq. split; intros X; [subst; reflexivity|inversion X; reflexivity].
Qed.
Lemma optH_eqb_spec a b : optH_eqb H eqH a b = true <-> a = b.
Proof.
  destruct a, b; cbn; try (split; [discriminate|intros X; inversion X]); try tauto.
  rewrite eqH_spec. split; intros X; [subst; reflexivity|inversion X; reflexivity].
Qed.

(* ---- routes agree: from the path, from a fresh reader, from a just-used writer (in the state the writer left) ---- *)
Theorem routes_agree_reader s :
  ex_stamp s = ex_stamp_reader (open_read s) /\
  mo_stamp s = mo_stamp_reader (open_read s) /\
  ha_stamp H sha s = fst (ha_stamp_reader H sha s (open_read s)).
Proof. destruct s; cbn; repeat split; reflexivity. Qed.

Theorem routes_agree_writer s b now s' :
  open_write s now = Some s' ->
  let f := write_bytes s' b now in
  ex_stamp_writer f = ex_stamp f /\ mo_stamp_writer f = mo_stamp f /\ ha_stamp_writer H sha f = ha_stamp H sha f.
Proof.
  destruct s; cbn; intros X; inversion X; subst; cbn; repeat split; reflexivity.
Qed.

(* ---- untouched => consistent ---- *)
Theorem untouched_consistent s :
  ex_check s (ex_stamp s) = false /\ mo_check s (mo_stamp s) = false /\ ha_check H sha eqH s (ha_stamp H sha s) = false.
Proof.
  unfold ex_check, mo_check, ha_check. rewrite !negb_false_iff. split; [apply eqb_reflx|].
  split; [apply optN_eqb_spec; reflexivity|apply optH_eqb_spec; reflexivity].
Qed.

(* ---- the observed aspect differs <=> inconsistent ---- *)
Theorem exists_decides s1 s2 : ex_check s2 (ex_stamp s1) = true <-> p_exists s1 <> p_exists s2.
Proof.
  unfold ex_check, ex_stamp. rewrite negb_true_iff. destruct (p_exists s1), (p_exists s2); cbn; split; intros X; congruence.
Qed.
Theorem modified_decides s1 s2 : mo_check s2 (mo_stamp s1) = true <-> p_modified s1 <> p_modified s2.
Proof.
  unfold mo_check, mo_stamp. rewrite negb_true_iff. split.
  - intros E X. rewrite X in E. assert (Y : optN_eqb (p_modified s2) (p_modified s2) = true) by (apply optN_eqb_spec; reflexivity). congruence.
  - intros X. destruct (optN_eqb (p_modified s2) (p_modified s1)) eqn:E; [|reflexivity]. apply optN_eqb_spec in E. congruence.
Qed.
Theorem hash_decides s1 s2 : ha_check H sha eqH s2 (ha_stamp H sha s1) = true <-> ha_stamp H sha s1 <> ha_stamp H sha s2.
Proof.
  unfold ha_check. rewrite negb_true_iff. split.
  - intros E X. rewrite X in E. assert (Y : optH_eqb H eqH (ha_stamp H sha s2) (ha_stamp H sha s2) = true) by (apply optH_eqb_spec; reflexivity). congruence.
  - intros X. destruct (optH_eqb H eqH (ha_stamp H sha s2) (ha_stamp H sha s1)) eqn:E; [|reflexivity]. apply optH_eqb_spec in E. congruence.
Qed.

(* hash checker on files: content differs <=> inconsistent; existence change => inconsistent *)
Theorem hash_file_detects c1 m1 c2 m2 : ha_check H sha eqH (PFile c2 m2) (ha_stamp H sha (PFile c1 m1)) = true <-> c1 <> c2.
Proof.
  rewrite hash_decides. cbn. split.
  - intros X E. subst. apply X. reflexivity.
  - intros X E. inversion E as [E']. apply sha_inj in E'. congruence.
Qed.
Theorem hash_exists_detects s1 s2 : p_exists s1 <> p_exists s2 -> ha_check H sha eqH s2 (ha_stamp H sha s1) = true.
Proof. intros X. apply hash_decides. destruct s1, s2; cbn in *; try congruence; discriminate. Qed.

(* ---- stamp_reader leaves the reader at the start: the task reads the full content, for all three checkers ---- *)
Theorem reader_rewound c m :
  reader_rest (snd (ha_stamp_reader H sha (PFile c m) (open_read (PFile c m)))) = c /\
  reader_rest (open_read (PFile c m)) = c.          (* Exists / Modified checkers never touch the reader *)
Proof. cbn. split; reflexivity. Qed.

(* ---- opening for writing creates or truncates a file and refuses directories ---- *)
Theorem open_write_spec s now :
  match s with
  | PDir _ _ => open_write s now = None
  | _ => open_write s now = Some (PFile [] now)
  end.
Proof. destruct s; reflexivity. Qed.

End P.

(* ---- directories: entry names never contain NUL, each is NUL-terminated in the hashed stream, so the stream determines the
   listing; hence different name sets give different stamps (under sha_inj) ---- *)
Definition nul_free (names : list bytes) : Prop := forall n, In n names -> ~ In 0 n.

Lemma terminated_prefix a b x y :
  ~ In 0 a -> ~ In 0 b -> (a ++ [0]) ++ x = (b ++ [0]) ++ y -> a = b /\ x = y.
Proof.
  revert b. induction a as [|c a IH]; intros b Ha Hb E.
  - destruct b as [|d b]; cbn in E.
    + inversion E. split; reflexivity.
    + inversion E; subst. exfalso. apply Hb. left. reflexivity.
  - destruct b as [|d b]; cbn in E.
    + inversion E; subst. exfalso. apply Ha. left. reflexivity.
    + inversion E; subst. destruct (IH b) as [A B].
      * intros X. apply Ha. right. exact X.
      * intros X. apply Hb. right. exact X.
      * assumption.
      * subst. split; reflexivity.
Qed.

Theorem dir_stream_inj l1 l2 : nul_free l1 -> nul_free l2 -> dir_stream l1 = dir_stream l2 -> l1 = l2.
Proof.
  revert l2. induction l1 as [|a l1 IH]; intros l2 H1 H2 E.
  - destruct l2 as [|b l2]; [reflexivity|]. unfold dir_stream in E. cbn in E. destruct b; discriminate.
  - destruct l2 as [|b l2].
    + unfold dir_stream in E. cbn in E. destruct a; discriminate.
    + unfold dir_stream in E. cbn [map concat] in E.
      destruct (terminated_prefix a b _ _ (H1 a (or_introl eq_refl)) (H2 b (or_introl eq_refl)) E) as [A B].
      subst. f_equal. apply IH; [intros n X; apply H1; right; exact X|intros n X; apply H2; right; exact X|exact B].
Qed.

Section Dir.
Variable H : Type.
Variable sha : bytes -> H.
Variable eqH : H -> H -> bool.
Hypothesis eqH_spec : forall a b, eqH a b = true <-> a = b.
Hypothesis sha_inj : forall a b, sha a = sha b -> a = b.

(* a different set of entry names => inconsistent (and an untouched directory is consistent by untouched_consistent) *)
Theorem hash_dir_detects n1 m1 n2 m2 :
  nul_free n1 -> nul_free n2 -> ~ (forall x, In x n1 <-> In x n2) ->
  ha_check H sha eqH (PDir n2 m2) (ha_stamp H sha (PDir n1 m1)) = true.
Proof.
  intros F1 F2 Hne. apply (hash_decides H sha eqH eqH_spec). cbn. intros E. inversion E as [E'].
  apply sha_inj in E'. apply dir_stream_inj in E'; try assumption. subst. apply Hne. tauto.
Qed.
End Dir.

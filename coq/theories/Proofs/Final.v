(* The history theorems without the model-only premise "no ABug 4": by NoBug4.v it never occurs in top-down histories. *)
From Coq Require Import List NArith ZArith Bool Lia.
From PieV Require Import Model.Dag Model.Build Proofs.StoreInv Proofs.History Proofs.ExecInv Proofs.ExecSession Proofs.Cert Proofs.Stable
  Proofs.NoBug4 Proofs.Sim Proofs.NoAbort.
Import ListNotations.
Open Scope N_scope.

Section F.
Variable RC : rcid -> rchecker.
Variable OC : ocid -> ochecker.
Variable P : task -> prog.
Variable always : ocid.

(* C02 / C07: in a session of requires no task is executed twice, from every store satisfying the invariants *)
Theorem session_at_most_once fuel w ops : J w -> td_only ops ->
  NoDup (execs (rev (trace (snd (run_session RC OC P always fuel (new_session w) ops))))).
Proof.
  intros Jw TD. apply session_td_at_most_once; [exact Jw|exact TD|].
  apply (session_td_no_bug4 RC OC P always fuel ops (new_session w) TD (J_new_session w Jw)).
Qed.

(* C19: every result of every session of every top-down history is a value, a user-level abort or out-of-fuel, and the
   invariants hold in the final store *)
Theorem history_sound fuel h : td_hist h ->
  Forall (Forall good_res) (fst (run_history RC OC P always fuel init_world h)) /\ J (snd (run_history RC OC P always fuel init_world h)).
Proof. intros TD. apply history_td_no_internal_error; [exact TD|]. apply (history_td_no_bug4 RC OC P always fuel h init_world TD J_init). Qed.

(* every reachable store satisfies the invariants, so the session theorems apply to it *)
Theorem history_J fuel h : td_hist h -> J (snd (run_history RC OC P always fuel init_world h)).
Proof. intros TD. apply (history_sound fuel h TD). Qed.

Section Cls.
Variable gen : res -> option task.
Variable wck : rcid -> Prop.
Variable sf : rcid -> res -> content -> Z.
Hypothesis HS : forall c env r v, rc_stamp (RC c) env r v = inl (sf c r v).
Hypothesis HWF : forall t, WFP gen wck t [] (P t).
Hypothesis HC : forall c env r v v', rc_check (RC c) env r v' (sf c r v) = Consistent -> rc_view (RC c) v' = rc_view (RC c) v.
Hypothesis HW : forall c env r v v', wck c -> rc_check (RC c) env r v' (sf c r v) = Consistent -> v' = v.
Hypothesis HOC : forall c o o', oc_check (OC c) o' (oc_stamp (OC c) o) = true -> oc_view (OC c) o' = oc_view (OC c) o.

(* C01 *)
Theorem incremental_equals_scratch_all fuel fuel0 h ops :
  td_hist h -> td_only ops ->
  let w := snd (run_history RC OC P always fuel init_world h) in
  let ra := run_session RC OC P always fuel (new_session w) ops in
  let rb := run_session RC OC P always fuel0 (new_session (fresh_of w)) ops in
  Forall is_done (fst ra) -> Forall is_done (fst rb) ->
  fst ra = fst rb /\ forall r, get_content (snd ra) r = get_content (snd rb) r.
Proof.
  intros TH TO. apply (incremental_equals_scratch gen wck RC OC P sf HS HWF HC HW HOC always fuel fuel0 h ops TH TO).
  apply (history_td_no_bug4 RC OC P always fuel h init_world TH J_init).
Qed.
(* C02, last clause *)
Theorem incremental_executes_subset_all fuel fuel0 h ops :
  td_hist h -> td_only ops ->
  let w := snd (run_history RC OC P always fuel init_world h) in
  let ra := run_session RC OC P always fuel (new_session w) ops in
  let rb := run_session RC OC P always fuel0 (new_session (fresh_of w)) ops in
  Forall is_done (fst ra) -> Forall is_done (fst rb) ->
  forall x, In x (execs (rev (trace (snd ra)))) -> In x (execs (rev (trace (snd rb)))).
Proof.
  intros TH TO. apply (incremental_executes_subset gen wck RC OC P sf HS HWF HC HW HOC always fuel fuel0 h ops TH TO).
  apply (history_td_no_bug4 RC OC P always fuel h init_world TH J_init).
Qed.
End Cls.

Section Cls2.
Variable sf : rcid -> res -> content -> Z.
Hypothesis HS : forall c env r v, rc_stamp (RC c) env r v = inl (sf c r v).
Hypothesis HNR : forall t, NR [] (P t).
(* C08 *)
Theorem exact_record_all fuel h : td_hist h ->
  forall t o, get_task_output (snd (run_history RC OC P always fuel init_world h)) t = Some o ->
    Rep RC OC sf (row (snd (run_history RC OC P always fuel init_world h)) t) (P t) [] o (kidsT (snd (run_history RC OC P always fuel init_world h)) t).
Proof.
  intros TD. apply (history_td_exact_record RC OC P sf HS HNR always fuel h TD).
  apply (history_td_no_bug4 RC OC P always fuel h init_world TD J_init).
Qed.
End Cls2.

(* ---- the static class: nothing aborts, everything returns ---- *)
Section Tot.
Variable gen : res -> option task.
Variable wck : rcid -> Prop.
Variable ord : task -> nat.
Variable sf : rcid -> res -> content -> Z.
Hypothesis HS : forall c env r v, rc_stamp (RC c) env r v = inl (sf c r v).
Hypothesis HWF : forall t, WFP gen wck t [] (P t).
Hypothesis HWO : forall t, WFO ord t (P t).

(* C20 (first clause): for well-formed programs no session of any history aborts -- neither with a cycle, hidden-dependency or
   overlapping-write diagnosis, nor otherwise -- and every require returns, given fuel above the height of the roots *)
Theorem static_class_never_aborts fuel h : hist_below ord fuel h ->
  Forall (Forall is_done) (fst (run_history RC OC P always fuel init_world h)).
Proof.
  intros HB. apply (history_returns gen wck ord RC OC P sf HS HWF HWO always fuel h init_world HB J_init (Q_init gen ord)).
Qed.

(* C05, the "Hence" clause, inside the static class: in every reachable store every recorded reader of a resource directly
   requires the task recorded as its writer (so it is a transitive dependency), also for executing and aborted tasks *)
Theorem static_class_readers_require_writer fuel h : hist_below ord fuel h ->
  let w := snd (run_history RC OC P always fuel init_world h) in
  forall rd g r dp dp', row w rd (rn r) = Some dp -> is_read (Some dp) = true -> row w g (rn r) = Some dp' -> is_write (Some dp') = true ->
    In (tn g) (kidsT w rd) /\ contains_transitive_task_dependency w rd g = Some true.
Proof.
  intros HB w rd g r dp dp' R1 I1 R2 I2.
  destruct (history_returns gen wck ord RC OC P sf HS HWF HWO always fuel h init_world HB J_init (Q_init gen ord)) as [_ [Jw Qw]]. fold w in Jw, Qw.
  pose proof (proj1 (proj2 (Qw g)) r dp' R2 I2) as G.
  destruct (proj2 (proj2 (Qw rd)) r dp R1 I1) as [E|[g' [E I']]]; [congruence|]. rewrite G in E. inversion E; subst g'.
  split; [exact (before_in _ _ _ I')|]. apply cte_edge; [apply Jw|exact (before_in _ _ _ I')].
Qed.

Hypothesis HC : forall c env r v v', rc_check (RC c) env r v' (sf c r v) = Consistent -> rc_view (RC c) v' = rc_view (RC c) v.
Hypothesis HW : forall c env r v v', wck c -> rc_check (RC c) env r v' (sf c r v) = Consistent -> v' = v.
Hypothesis HOC : forall c o o', oc_check (OC c) o' (oc_stamp (OC c) o) = true -> oc_view (OC c) o' = oc_view (OC c) o.

(* C01, total: both sessions return, with equal outputs and equal resource contents *)
Theorem incremental_equals_scratch_total fuel fuel0 h ops :
  hist_below ord fuel h -> roots_below ord fuel ops -> roots_below ord fuel0 ops ->
  let w := snd (run_history RC OC P always fuel init_world h) in
  let ra := run_session RC OC P always fuel (new_session w) ops in
  let rb := run_session RC OC P always fuel0 (new_session (fresh_of w)) ops in
  Forall is_done (fst ra) /\ Forall is_done (fst rb) /\ fst ra = fst rb /\ forall r, get_content (snd ra) r = get_content (snd rb) r.
Proof.
  intros HB RA RB w ra rb.
  destruct (history_returns gen wck ord RC OC P sf HS HWF HWO always fuel h init_world HB J_init (Q_init gen ord)) as [_ [Jw Qw]]. fold w in Jw, Qw.
  destruct (session_returns gen wck ord RC OC P sf HS HWF HWO always fuel ops (new_session w) RA (J_new_session w Jw)
              ltac:(apply (Q_same gen ord w); [reflexivity|exact Qw])) as [DA _].
  assert (Jf : J (new_session (fresh_of w))) by (split; [exact GOK_empty|split; [intros t d X; discriminate|intros t X; discriminate]]).
  assert (Qf : Q gen ord (new_session (fresh_of w))) by (intros a; apply QR_empty; reflexivity).
  destruct (session_returns gen wck ord RC OC P sf HS HWF HWO always fuel0 ops (new_session (fresh_of w)) RB Jf Qf) as [DB _].
  split; [exact DA|]. split; [exact DB|].
  eapply incremental_equals_scratch_all; try eassumption; [eapply hist_td; eassumption|eapply roots_td; eassumption].
Qed.
End Tot.
End F.

(* Witnesses, evaluated on the faithful model by vm_compute, of the recorded findings: universal statements that the
   code (and therefore the model) does NOT satisfy.  Each witness is also a case in the corpus replayed on the real code. *)
From Coq Require Import List NArith ZArith Bool.
From PieV Require Import Model.Dag Model.Build Model.Dsl.
Import ListNotations.
Open Scope N_scope.

Definition executed (w : world) : list task :=
  rev (flat_map (fun e => match e with EExecStart t => [t] | _ => [] end) (trace w)).

Definition is_done (r : sres) : bool := match r with RDone _ => true | _ => false end.
Definition all_done (rs : list (list sres)) : bool := forallb is_done (concat rs).
Definition FUEL : nat := 200.
Definition EXACT : rcid := 0.  Definition EQ : ocid := 0.  Definition ALWAYS : ocid := 2.

(* ---- C03 (O4): a top-down build between a change and its bottom-up report re-executes a dependency of a task it did
   not reach; the bottom-up build then schedules nothing and leaves that task stale. *)
Definition tb_O4 : table := [(2, CReq 1 EQ CDone); (1, CRead 1 EXACT CDone)].
Definition h_O4 : list step :=
  [HEdit 1 (Some 1%Z); HSession [SRequire 2]; HEdit 1 (Some 2%Z); HSession [SRequire 1]; HSession [SBottomUp [1]]; HSession [SRequire 2]].
Lemma C03_mixed_refuted :
  executed (snd (dsl_run_history tb_O4 FUEL init_world h_O4)) = [2] /\
  (* the bottom-up build itself executed nothing *)
  executed (snd (dsl_run_history tb_O4 FUEL init_world (firstn 5 h_O4))) = [].
Proof. vm_compute. split; reflexivity. Qed.

(* ---- C08 (O7): the same task required twice with different checkers keeps only the last checker *)
Definition tb_O7 : table := [(0, CReq 1 EQ (CReq 1 ALWAYS CDone)); (1, CRead 0 EXACT CDone)].
Definition h_O7 : list step := [HEdit 0 (Some 1%Z); HSession [SRequire 0]; HEdit 0 (Some 2%Z); HSession [SRequire 0]].
Lemma C08_general_refuted :
  (* after the first build the store holds ONE require dependency of task 0, with the second checker *)
  map snd (get_outgoing_edges (gr (snd (dsl_run_history tb_O7 FUEL init_world (firstn 2 h_O7)))) (tn 0)) = [Some (DRequire 1 ALWAYS 0%Z)] /\
  (* and the changed output of task 1 does not re-execute task 0 *)
  executed (snd (dsl_run_history tb_O7 FUEL init_world h_O7)) = [1].
Proof. vm_compute. split; reflexivity. Qed.

(* ---- C05 "Hence" clause (O6): R requires X requires W; W writes r5; R reads r5.  X drops the require of W but returns the
   same output: the build returns with R a recorded reader of r5 without a path to the recorded writer W. *)
Definition tb_O6 : table :=
  [(0, CReq 1 EQ (CRead 5 EXACT CDone));                                   (* R *)
   (1, CRead 0 EXACT (CIf (CLastEq 2) (CReq 2 ALWAYS (CRet (EConst 7))) (CRet (EConst 7))));   (* X *)
   (2, CWrite 5 EXACT (EConst 3) CDone)].                                   (* W *)
Definition h_O6 : list step := [HEdit 0 (Some 1%Z); HSession [SRequire 0]; HEdit 0 (Some 2%Z); HSession [SRequire 0]].
Lemma C05_final_store_refuted :
  let w := snd (dsl_run_history tb_O6 FUEL init_world h_O6) in
  all_done (fst (dsl_run_history tb_O6 FUEL init_world h_O6)) = true /\
  get_task_writing_to_resource w 5 = Some 2 /\ existsb (N.eqb 0) (get_tasks_reading_from_resource w 5) = true /\
  contains_transitive_task_dependency w 0 2 = Some false.
Proof. vm_compute. repeat split; reflexivity. Qed.

(* ---- C20 (O5a): the writer role moves from T1 to T2 and T2 is built first: spurious "Overlapping write" *)
Definition on0 (view : Z) (th el : code) : code := CRead 0 EXACT (CIf (CLastEq view) th el).
Definition tb_O5a : table := [(1, on0 1 (CWrite 10 EXACT (EConst 5) CDone) CDone); (2, on0 2 (CWrite 10 EXACT (EConst 6) CDone) CDone)].
Lemma C20_dynamic_refuted_overlap :
  List.last (fst (dsl_run_history tb_O5a FUEL init_world [HEdit 0 (Some 0%Z); HSession [SRequire 1]; HEdit 0 (Some 1%Z); HSession [SRequire 2]]))
    [] = [RAbort AOverlap] /\
  (* a from-scratch build of both tasks in the current state succeeds in either order *)
  all_done (fst (dsl_run_history tb_O5a FUEL init_world [HEdit 0 (Some 1%Z); HSession [SRequire 1; SRequire 2]])) = true /\
  all_done (fst (dsl_run_history tb_O5a FUEL init_world [HEdit 0 (Some 1%Z); HSession [SRequire 2; SRequire 1]])) = true.
Proof. vm_compute. repeat split; reflexivity. Qed.

(* ---- C20 (O5a, bottom-up form): GEN writes product 10 while source 0 holds 0, USE then requires GEN and reads it; while the
   source holds 1 GEN writes nothing and USE writes the product itself, without requiring GEN.  After a round trip 0 -> 1 -> 0,
   each change reported to a bottom-up build, no recorded dependency relates the two tasks any more; the build that is told about
   the switch back runs them in the order of their stale ranks, GEN (the new writer) first: spurious "Overlapping write" *)
Definition tb_O5a_bu : table :=
  [(1, on0 1 (CWrite 10 EXACT (EConst 5) (CRet EAcc)) (CRet EAcc));
   (2, on0 1 (CReq 1 0 (CRead 10 EXACT (CRet EAcc))) (CWrite 10 EXACT (EConst 6) (CRet EAcc)))].
Lemma C20_dynamic_refuted_overlap_bottom_up :
  List.last (fst (dsl_run_history tb_O5a_bu FUEL init_world
      [HEdit 0 (Some 0%Z); HSession [SRequire 2]; HEdit 0 (Some 1%Z); HSession [SBottomUp [0]]; HEdit 0 (Some 0%Z); HSession [SBottomUp [0]]]))
    [] = [RAbort AOverlap] /\
  (* the build told about the first switch succeeds *)
  all_done (fst (dsl_run_history tb_O5a_bu FUEL init_world
      [HEdit 0 (Some 0%Z); HSession [SRequire 2]; HEdit 0 (Some 1%Z); HSession [SBottomUp [0]]])) = true /\
  (* a from-scratch build of both tasks in the current state succeeds in either order *)
  all_done (fst (dsl_run_history tb_O5a_bu FUEL init_world [HEdit 0 (Some 0%Z); HSession [SRequire 1; SRequire 2]])) = true /\
  all_done (fst (dsl_run_history tb_O5a_bu FUEL init_world [HEdit 0 (Some 0%Z); HSession [SRequire 2; SRequire 1]])) = true.
Proof. vm_compute. repeat split; reflexivity. Qed.

(* ---- C20 (O5b): the require direction flips and the new requirer is built first: spurious "Cyclic task dependency" *)
Definition tb_O5b : table := [(1, on0 1 (CReq 2 EQ CDone) CDone); (2, on0 2 (CReq 1 EQ CDone) CDone)].
Lemma C20_dynamic_refuted_cycle :
  List.last (fst (dsl_run_history tb_O5b FUEL init_world [HEdit 0 (Some 0%Z); HSession [SRequire 1]; HEdit 0 (Some 1%Z); HSession [SRequire 2]])) []
    = [RAbort ACycle] /\
  forallb (fun r => match r with RDone _ => true | _ => false end)
    (List.last (fst (dsl_run_history tb_O5b FUEL init_world [HEdit 0 (Some 1%Z); HSession [SRequire 2; SRequire 1]])) []) = true /\
  forallb (fun r => match r with RDone _ => true | _ => false end)
    (List.last (fst (dsl_run_history tb_O5b FUEL init_world [HEdit 0 (Some 1%Z); HSession [SRequire 1; SRequire 2]])) []) = true.
Proof. vm_compute. repeat split; reflexivity. Qed.

(* ---- C20 (O5c): a stale reader edge and a new writer built first: spurious "Hidden dependency" *)
Definition tb_O5c : table := [(3, on0 1 (CRead 10 EXACT CDone) CDone); (1, on0 2 (CWrite 10 EXACT (EConst 7) CDone) CDone)].
Lemma C20_dynamic_refuted_hidden :
  List.last (fst (dsl_run_history tb_O5c FUEL init_world [HEdit 0 (Some 0%Z); HSession [SRequire 3]; HEdit 0 (Some 1%Z); HSession [SRequire 1]])) []
    = [RAbort AHidden] /\
  forallb (fun r => match r with RDone _ => true | _ => false end)
    (List.last (fst (dsl_run_history tb_O5c FUEL init_world [HEdit 0 (Some 1%Z); HSession [SRequire 1; SRequire 3]])) []) = true /\
  forallb (fun r => match r with RDone _ => true | _ => false end)
    (List.last (fst (dsl_run_history tb_O5c FUEL init_world [HEdit 0 (Some 1%Z); HSession [SRequire 3; SRequire 1]])) []) = true.
Proof. vm_compute. repeat split; reflexivity. Qed.

(* ---- C19 (O13): a diagnosed cycle A -> B -> A is repaired (A stops requiring B); requiring B first then aborts with a spurious
   "Cyclic task dependency": the aborted A still holds its reserved edge A -> B.  From-scratch builds succeed in either order. *)
Definition tb_O13 : table := [(1, on0 2 (CReq 2 EQ CDone) CDone); (2, CReq 1 EQ CDone)].
Lemma C19_spurious_cycle_after_abort_refuted :
  fst (dsl_run_history tb_O13 FUEL init_world [HEdit 0 (Some 1%Z); HSession [SRequire 1]; HEdit 0 (Some 2%Z); HSession [SRequire 2]])
    = [[]; [RAbort ACycle]; []; [RAbort ACycle]] /\
  all_done (fst (dsl_run_history tb_O13 FUEL init_world [HEdit 0 (Some 2%Z); HSession [SRequire 2; SRequire 1]])) = true /\
  all_done (fst (dsl_run_history tb_O13 FUEL init_world [HEdit 0 (Some 2%Z); HSession [SRequire 1; SRequire 2]])) = true.
Proof. vm_compute. repeat split; reflexivity. Qed.

(* ---- observation (not a finding: the session contract is broken): a resource changes while a Session is alive.  One session
   requires Read(0) top-down; its source r50 and the marker r51 change; both are reported to a bottom-up build of that session.
   Top(2), scheduled through the marker, requires Read (answered from the session's consistent set with the OLD output) and then
   Lower(1) -> Read, which executes Read nested; Read's new output reschedules the still executing Top, which runs a SECOND time.
   The end state is right (C03), the price is a double execution inside one bottom-up build. *)
Definition tb_mid : table :=
  [(0, CRead 50 EXACT CDone); (1, CReq 0 EQ CDone); (2, CRead 51 EXACT (CIf (CLastEq 0) CDone (CReq 0 EQ (CReq 1 EQ CDone))))].
Definition h_mid : list step := [HEdit 50 (Some 1%Z); HSession [SRequire 1; SRequire 2]].
Definition m_mid : list mop := [MSop (SRequire 0); MEdit 50 (Some 2%Z); MEdit 51 (Some 1%Z); MSop (SBottomUp [50; 51])].
Lemma mid_session_edit_double_execution :
  let w := snd (dsl_run_history tb_mid FUEL init_world h_mid) in
  let r := dsl_run_msession tb_mid FUEL (new_session w) m_mid in
  forallb is_done (fst r) = true /\ executed (snd r) = [2; 0; 1; 2].
Proof. vm_compute. split; reflexivity. Qed.

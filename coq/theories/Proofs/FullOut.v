(* "Every task known to the Pie instance has an output": a store/trace invariant of every build, for ALL programs and checkers.
   A task node is live only if the task has an output, or its execution is open, or a require of it is in progress (the ghost
   list S).  Task nodes are created only by a require, which either ends with the task's output stored or aborts; an execution
   removes the output only while it is open.  Hence after ANY history in which no build aborted -- in particular after any history
   of the static class (NoAbortAll.v) -- every task that has a node has an output: "known to the instance" (C03) and "has a cached
   output" coincide. *)
From Coq Require Import List NArith ZArith Bool Lia Permutation.
From PieV Require Import Model.Dag Model.Build Proofs.DagLib Proofs.DagWF Proofs.DagPath Proofs.DagQueries Proofs.DagViews Proofs.DagNoFuel Proofs.StoreInv
  Proofs.Sorting Proofs.Effects Proofs.Inv Proofs.History Proofs.ExecInv Proofs.ExecSession Proofs.Cert Proofs.NoBug4 Proofs.NoBug4All Proofs.Trace
  Proofs.BuJust Proofs.BuOnce Proofs.NoReentry Proofs.NoBugAll Proofs.CertAll Proofs.HasOut.
Import ListNotations.
Open Scope N_scope.

Definition FO (S : list task) (w : world) : Prop :=
  forall t, live (gr w) (tn t) = true -> get_task_output w t <> None \/ opn w t \/ In t S.
(* steps that create no task node, store or remove no output, start and end no execution *)
Definition fq (w w' : world) : Prop :=
  (forall t, live (gr w') (tn t) = true -> live (gr w) (tn t) = true) /\ outs w' = outs w /\ opens (trace w') = opens (trace w).

Lemma fq_refl w : fq w w. Proof. split; [trivial|split; reflexivity]. Qed.
Lemma fq_trans a b c : fq a b -> fq b c -> fq a c.
Proof. intros [A1 [A2 A3]] [B1 [B2 B3]]. split; [intros t X; apply A1, B1, X|split; congruence]. Qed.
Lemma FO_fq S w w' : fq w w' -> FO S w -> FO S w'.
Proof. intros [A1 [A2 A3]] H t X. unfold get_task_output, opn. rewrite A2, A3. apply (H t). apply A1. exact X. Qed.
Lemma fq_same w w' : gr w' = gr w -> outs w' = outs w -> opens (trace w') = opens (trace w) -> fq w w'.
Proof. intros G O T. split; [intros t; rewrite G; trivial|split; assumption]. Qed.
Lemma fq_emit w e : ev3 e = true -> fq w (emit w e).
Proof. intros H. apply fq_same; [reflexivity|reflexivity|apply opens_ev3; exact H]. Qed.
Lemma fq_set_content w r v : fq w (set_content w r v). Proof. apply fq_same; destruct v; reflexivity. Qed.
Lemma fq_queue_add w t : fq w (queue_add w t). Proof. unfold queue_add. destruct (memN _ _); [apply fq_refl|apply fq_same; reflexivity]. Qed.
Lemma fq_mark w t : fq w (mark_consistent w t). Proof. apply fq_same; reflexivity. Qed.
Lemma tn_rn' t r : tn t <> rn r. Proof. unfold tn, rn. lia. Qed.
Lemma live_add_node_other (g : dag dep) id m : live g id = false -> m <> id -> live (add_node_at g id) m = live g m.
Proof. intros Hd Hm. unfold live. rewrite (get_info_add_node g id m Hd). destruct (N.eqb_spec m id); [contradiction|reflexivity]. Qed.
Lemma fq_goc_res w r : fq w (get_or_create_resource_node w r).
Proof.
  unfold get_or_create_resource_node. destruct (live (gr w) (rn r)) eqn:E; [apply fq_refl|].
  split; [|split; reflexivity]. intros t X. cbn [gr set_gr] in X. rewrite live_add_node_other in X; [exact X|exact E|apply tn_rn'].
Qed.
Lemma FO_goc_task S w t : In t S -> FO S w -> FO S (get_or_create_task_node w t).
Proof.
  intros Ht H x X. unfold get_or_create_task_node in *. destruct (live (gr w) (tn t)) eqn:E; [apply H; exact X|].
  cbn [gr set_gr] in X. destruct (N.eq_dec x t) as [->|Hx]; [right; right; exact Ht|].
  rewrite live_add_node_other in X; [|exact E|intros Z; apply tn_inj in Z; contradiction].
  change (get_task_output w x <> None \/ opn w x \/ In x S). apply H. exact X.
Qed.
Lemma fq_add_dependency w s d dp : WF (gr w) -> fq w (snd (add_dependency w s d dp)).
Proof.
  intros W. unfold add_dependency. pose proof (add_edge_view (gr w) s d dp W) as V. pose proof (add_edge_no_fuel (gr w) s d dp W) as NF.
  destruct (add_edge (gr w) s d dp) as [[b|[|]|] g'] eqn:E; cbn [fst snd] in *.
  - destruct b.
    + destruct V as [_ [LV _]]. split; [intros t X; cbn [gr set_gr] in X; rewrite LV in X; exact X|split; reflexivity].
    + destruct V as [V _]. subst g'. apply fq_same; [destruct w; reflexivity|reflexivity|reflexivity].
  - subst g'. apply fq_same; [destruct w; reflexivity|reflexivity|reflexivity].
  - subst g'. apply fq_same; [destruct w; reflexivity|reflexivity|reflexivity].
  - contradiction NF; reflexivity.
Qed.
Lemma FO_weaken S S' w : incl S S' -> FO S w -> FO S' w.
Proof. intros I H t X. destruct (H t X) as [A|[A|A]]; [left; exact A|right; left; exact A|right; right; apply I; exact A]. Qed.
Lemma FO_drop S t w : get_task_output w t <> None -> FO (t :: S) w -> FO S w.
Proof. intros Ho H x X. destruct (H x X) as [A|[A|[<-|A]]]; [left; exact A|right; left; exact A|left; exact Ho|right; right; exact A]. Qed.

Lemma FO_start S w t : StoreOK w -> FO S w -> FO S (emit (set_cur (reset_task w t) (Some t)) (EExecStart t)).
Proof.
  intros HS H x X. destruct (reset_task_facts w t HS) as [_ [_ [R3 [R4 [_ [_ [_ [_ [_ R10]]]]]]]]].
  unfold opn. change (opens (trace (emit (set_cur (reset_task w t) (Some t)) (EExecStart t)))) with (t :: opens (trace (reset_task w t))). rewrite R4.
  destruct (N.eq_dec x t) as [->|Hx]; [right; left; left; reflexivity|].
  change (get_task_output (reset_task w t) x <> None \/ In x (t :: opens (trace w)) \/ In x S). rewrite (R10 x Hx).
  assert (Lx : live (gr w) (tn x) = true).
  { change (live (gr (reset_task w t)) (tn x) = true) in X. unfold reset_task in X. cbn [gr set_gr set_outs] in X.
    destruct (live (gr w) (tn t)) eqn:Lt.
    - destruct (remove_outgoing_view (gr w) (tn t) (proj1 HS) Lt) as [_ [_ [LV _]]]. rewrite LV in X. exact X.
    - rewrite remove_outgoing_snd in X. rewrite Lt in X. cbn [negb] in X. exact X. }
  destruct (H x Lx) as [A|[A|A]]; [left; exact A|right; left; right; exact A|right; right; exact A].
Qed.
Lemma FO_end S w t o c : FO S w -> FO S (set_task_output (set_cur (emit w (EExecEnd t o)) c) t o).
Proof.
  intros H x X. change (live (gr w) (tn x) = true) in X.
  destruct (N.eq_dec x t) as [->|Hx].
  - left. change (alookup (aset (outs w) t o) t <> None). rewrite alookup_aset_eq. discriminate.
  - change (alookup (aset (outs w) t o) x <> None \/ In x (removeN t (opens (trace w))) \/ In x S). rewrite alookup_aset_other by exact Hx.
    destruct (H x X) as [A|[A|A]]; [left; exact A|right; left; apply In_removeN_other'; assumption|right; right; exact A].
Qed.

Definition okF {A} (S : list task) (m : outcome A) : Prop := match m with Done _ w' => FO S w' | _ => True end.
Lemma bind_F {A B} S w (m : outcome A) (f : A -> world -> outcome B) :
  okR w m -> okF S m -> (forall a w1, L w1 -> mono w w1 -> FO S w1 -> okF S (f a w1)) -> okF S (bind m f).
Proof. destruct m as [a w1|k w1|]; cbn; intros R H F; [apply F; [apply R|apply R|exact H]|exact Logic.I|exact Logic.I]. Qed.
Definition fqO {A} (w : world) (m : outcome A) : Prop := match m with Done _ w' => fq w w' | _ => True end.
Lemma fqO_F {A} S w (m : outcome A) : fqO w m -> FO S w -> okF S m.
Proof. destruct m; cbn; intros Q H; [eapply FO_fq; eassumption|exact Logic.I|exact Logic.I]. Qed.

Section FOS.
Variable RC : rcid -> rchecker.
Variable OC : ocid -> ochecker.
Variable P : task -> prog.

Lemma sess_read_fq w r c : L w -> fqO w (sess_read RC w r c).
Proof.
  intros HL. unfold sess_read. destruct (cur w) as [t|]; [|apply fq_refl]. cbv zeta.
  set (w1 := emit w (EReadStart r c)). set (w2 := get_or_create_resource_node w1 r).
  assert (Q2 : fq w w2) by (eapply fq_trans; [apply (fq_emit w (EReadStart r c)); reflexivity|apply fq_goc_res]).
  assert (L2 : L w2) by (apply goc_res_L, L_emit; exact HL).
  destruct (hidden_read_check w2 t r); [exact Logic.I|].
  destruct (rc_stamp (RC c) (env w2) r (get_content w r)) as [st|e]; [|exact Q2].
  set (w3 := emit w2 (EReadEnd r c st)).
  pose proof (fq_add_dependency w3 (tn t) (rn r) (DRead r c st) (proj1 (proj1 L2))) as X.
  destruct (add_dependency w3 (tn t) (rn r) (DRead r c st)) as [[| |] w4]; cbn [fst snd fqO] in *; [| |exact Logic.I];
    (eapply fq_trans; [exact Q2|]; eapply fq_trans; [apply (fq_emit w2 (EReadEnd r c st)); reflexivity|exact X]).
Qed.
Lemma sess_write_fq w r c v : L w -> fqO w (sess_write RC w r c v).
Proof.
  intros HL. unfold sess_write. destruct (cur w) as [t|]; [|apply fq_set_content]. cbv zeta.
  set (w1 := emit w (EWriteStart r c)). set (w2 := get_or_create_resource_node w1 r).
  assert (Q2 : fq w w2) by (eapply fq_trans; [apply (fq_emit w (EWriteStart r c)); reflexivity|apply fq_goc_res]).
  assert (L2 : L w2) by (apply goc_res_L, L_emit; exact HL).
  destruct (validate_write w2 t r); [exact Logic.I|].
  set (w3 := set_content w2 r v). assert (Q3 : fq w w3) by (eapply fq_trans; [exact Q2|apply fq_set_content]).
  assert (L3 : L w3) by (apply L_set_content; exact L2).
  destruct (rc_stamp (RC c) (env w3) r (get_content w3 r)) as [st|e]; [|exact Q3].
  set (w4 := emit w3 (EWriteEnd r c st)).
  pose proof (fq_add_dependency w4 (tn t) (rn r) (DWrite r c st) (proj1 (proj1 L3))) as X.
  destruct (add_dependency w4 (tn t) (rn r) (DWrite r c st)) as [[| |] w5]; cbn [fst snd fqO] in *; [| |exact Logic.I];
    (eapply fq_trans; [exact Q3|]; eapply fq_trans; [apply (fq_emit w3 (EWriteEnd r c st)); reflexivity|exact X]).
Qed.
Lemma sess_written_to_fq w0 r c v : L w0 -> fqO w0 (sess_written_to RC w0 r c v).
Proof.
  intros HL0. unfold sess_written_to. cbv zeta. set (w := set_content w0 r v).
  assert (Q0 : fq w0 w) by apply fq_set_content. assert (HL : L w) by (apply L_set_content; exact HL0).
  destruct (cur w) as [t|]; [|exact Q0].
  set (w1 := emit w (EWriteStart r c)). set (w2 := get_or_create_resource_node w1 r).
  assert (Q2 : fq w0 w2) by (eapply fq_trans; [exact Q0|]; eapply fq_trans; [apply (fq_emit w (EWriteStart r c)); reflexivity|apply fq_goc_res]).
  assert (L2 : L w2) by (apply goc_res_L, L_emit; exact HL).
  destruct (validate_write w2 t r); [exact Logic.I|].
  destruct (rc_stamp (RC c) (env w2) r (get_content w2 r)) as [st|e]; [|exact Q2].
  set (w3 := emit w2 (EWriteEnd r c st)).
  pose proof (fq_add_dependency w3 (tn t) (rn r) (DWrite r c st) (proj1 (proj1 L2))) as X.
  destruct (add_dependency w3 (tn t) (rn r) (DWrite r c st)) as [[| |] w4]; cbn [fst snd fqO] in *; [| |exact Logic.I];
    (eapply fq_trans; [exact Q2|]; eapply fq_trans; [apply (fq_emit w2 (EWriteEnd r c st)); reflexivity|exact X]).
Qed.

Definition FREQ (req : world -> task -> ocid -> outcome Z) : Prop := forall S w t c, L w -> FO S w -> okF S (req w t c).
Definition FMC (mc : world -> task -> outcome Z) : Prop := forall S w t, L w -> live (gr w) (tn t) = true -> In t S -> FO S w -> okF S (mc w t).

Lemma exec_prog_F req : RREQ req -> FREQ req -> forall S p w, L w -> FO S w -> okF S (exec_prog RC OC req p w).
Proof.
  intros HR HH S. induction p as [o| |t c k IH|r c k IH|r c v k IH|r c v k IH]; intros w HL Hw; cbn [exec_prog].
  - exact Hw.
  - exact Logic.I.
  - apply (bind_F S w); [apply HR; exact HL|apply HH; assumption|]. intros o w1 L1 _ H1. apply IH; assumption.
  - apply (bind_F S w); [apply sess_read_R; exact HL|apply (fqO_F S w); [apply sess_read_fq; exact HL|exact Hw]|]. intros o w1 L1 _ H1. apply IH; assumption.
  - apply (bind_F S w); [apply sess_write_R; exact HL|apply (fqO_F S w); [apply sess_write_fq; exact HL|exact Hw]|]. intros o w1 L1 _ H1. apply IH; assumption.
  - apply (bind_F S w); [apply sess_written_to_R; exact HL|apply (fqO_F S w); [apply sess_written_to_fq; exact HL|exact Hw]|]. intros o w1 L1 _ H1. apply IH; assumption.
Qed.

Lemma execute_with_F req S w t : RREQ req -> FREQ req -> L w -> live (gr w) (tn t) = true -> FO S w -> okF S (execute_with RC OC P req w t).
Proof.
  intros HR HH HL Lt Hw. unfold execute_with.
  destruct (reset_task_facts w t (proj1 HL)) as [R1 [_ [R3 _]]].
  set (ws := emit (set_cur (reset_task w t) (Some t)) (EExecStart t)).
  assert (Ls : L ws).
  { split; [exact R1|]. split; [intros x X; cbn in X; inversion X; subst x; apply R3; exact Lt|intros x X; apply R3; apply (proj2 (proj2 HL)); exact X]. }
  pose proof (exec_prog_F req HR HH S (P t) ws Ls (FO_start S w t (proj1 HL) Hw)) as X.
  destruct (exec_prog RC OC req (P t) ws) as [o w3|k w3|]; cbn [bind okF] in *; [|exact Logic.I|exact Logic.I].
  apply FO_end. exact X.
Qed.

Lemma require_with_F mc : RMC mc -> FMC mc -> (forall w t, outIs t (mc w t)) -> FREQ (require_with OC mc).
Proof.
  intros HR HH HO S w t c HL Hw. unfold require_with.
  set (w1 := emit w (ERequireStart t c)). set (w2 := get_or_create_task_node w1 t).
  assert (H2 : FO (t :: S) w2).
  { apply FO_goc_task; [left; reflexivity|]. apply (FO_fq _ w); [apply fq_emit; reflexivity|]. apply (FO_weaken S); [intros x X; right; exact X|exact Hw]. }
  assert (L2 : L w2) by (apply goc_task_L, L_emit; exact HL).
  assert (Lt : live (gr w2) (tn t) = true) by apply live_goc_task.
  pose proof (reserve_R RC w2 t L2 Lt) as RR.
  assert (RQ : fqO w2 (reserve_require_dependency w2 t)).
  { unfold reserve_require_dependency. destruct (cur w2) as [s|]; [|apply fq_refl].
    pose proof (fq_add_dependency w2 (tn s) (tn t) DReserved (proj1 (proj1 L2))) as X.
    destruct (add_dependency w2 (tn s) (tn t) DReserved) as [[| |] w3]; cbn [fst snd fqO] in *; [exact X|exact Logic.I|exact Logic.I]. }
  destruct (reserve_require_dependency w2 t) as [[] w3|k w3|]; cbn [bind okF fqO okR] in *; [|exact Logic.I|exact Logic.I].
  destruct RR as [L3 M3].
  assert (H3 : FO (t :: S) w3) by (eapply FO_fq; [exact RQ|exact H2]).
  pose proof (HR w3 t L3 (M3 _ Lt)) as MR. pose proof (HH (t :: S) w3 t L3 (M3 _ Lt) (or_introl eq_refl) H3) as MH. pose proof (HO w3 t) as MO.
  destruct (mc w3 t) as [o w4|k w4|]; cbn [bind okF okR outIs] in *; [|exact Logic.I|exact Logic.I].
  assert (H4 : FO S w4) by (apply (FO_drop S t); [rewrite MO; discriminate|exact MH]).
  unfold update_require_dependency. cbn [cur emit gr]. destruct (cur w4) as [s|]; [|cbn; apply (FO_fq _ w4); [apply fq_emit; reflexivity|exact H4]].
  destruct (get_edata (gr w4) (tn s) (tn t)); cbn [bind okF]; [|exact Logic.I].
  apply (FO_fq _ w4); [|exact H4]. split; [|split; reflexivity]. intros x X. exact X.
Qed.

Lemma check_deps_F mc : RMC mc -> FMC mc -> (forall w t, outIs t (mc w t)) -> forall S ds w, L w -> DL w ds -> FO S w -> okF S (check_deps RC OC mc ds w).
Proof.
  intros HR HH HO S. induction ds as [|d tl IH]; intros w HL HD Hw; cbn [check_deps]; [exact Hw|].
  destruct d as [[|t c st|r c st|r c st]|]; try exact Logic.I.
  - set (w1 := emit w (ECheckTaskStart t c st)).
    assert (L1 : L w1) by (apply L_emit; exact HL).
    assert (Lt : live (gr w1) (tn t) = true) by (apply (HD t c st); left; reflexivity).
    assert (H1 : FO (t :: S) w1) by (apply (FO_fq _ w); [apply fq_emit; reflexivity|apply (FO_weaken S); [intros x X; right; exact X|exact Hw]]).
    pose proof (HR w1 t L1 Lt) as MR. pose proof (HH (t :: S) w1 t L1 Lt (or_introl eq_refl) H1) as MH. pose proof (HO w1 t) as MO.
    destruct (mc w1 t) as [o w2|k w2|]; cbn [bind okF okR outIs] in *; [|exact Logic.I|exact Logic.I].
    destruct MR as [L2 M2].
    assert (H2 : FO S w2) by (apply (FO_drop S t); [rewrite MO; discriminate|exact MH]).
    assert (H3 : forall b, FO S (emit w2 (ECheckTaskEnd t c st b))) by (intros b; apply (FO_fq _ w2); [apply fq_emit; reflexivity|exact H2]).
    destruct (oc_check (OC c) o st); [|apply H3].
    apply IH; [apply L_emit; exact L2| |apply H3].
    intros t' c' st' X. change (live (gr w2) (tn t') = true). apply M2. apply (HD t' c' st'). right. exact X.
  - destruct (check_resource_td_L RC w r c st HL) as [X M].
    assert (Q : fq w (snd (check_resource_td RC w r c st))) by (unfold check_resource_td; cbn [snd]; eapply fq_trans; apply fq_emit; reflexivity).
    destruct (check_resource_td RC w r c st) as [[| |e] w1]; cbn [snd] in X, M, Q.
    + apply IH; [exact X| |eapply FO_fq; eassumption]. intros t' c' st' Y. apply M. apply (HD t' c' st'). right. exact Y.
    + eapply FO_fq; eassumption.
    + apply (FO_fq _ w1); [apply fq_same; reflexivity|eapply FO_fq; eassumption].
  - destruct (check_resource_td_L RC w r c st HL) as [X M].
    assert (Q : fq w (snd (check_resource_td RC w r c st))) by (unfold check_resource_td; cbn [snd]; eapply fq_trans; apply fq_emit; reflexivity).
    destruct (check_resource_td RC w r c st) as [[| |e] w1]; cbn [snd] in X, M, Q.
    + apply IH; [exact X| |eapply FO_fq; eassumption]. intros t' c' st' Y. apply M. apply (HD t' c' st'). right. exact Y.
    + eapply FO_fq; eassumption.
    + apply (FO_fq _ w1); [apply fq_same; reflexivity|eapply FO_fq; eassumption].
Qed.

Theorem make_consistent_td_F fuel : FMC (make_consistent_td RC OC P fuel).
Proof.
  induction fuel as [|f IH]; intros S w t HL Lt Ht Hw; cbn [make_consistent_td]; [exact Logic.I|].
  set (w0 := get_or_create_task_node w t).
  assert (L0 : L w0) by (apply goc_task_L; exact HL).
  assert (H0 : FO S w0) by (apply FO_goc_task; assumption).
  assert (Lt0 : live (gr w0) (tn t) = true) by apply live_goc_task.
  destruct (memN t (consistent w0)); [destruct (get_task_output w0 t); [exact H0|exact Logic.I]|].
  pose proof (make_consistent_td_R RC OC P f) as IR.
  assert (HreqR : RREQ (require_with OC (make_consistent_td RC OC P f))) by (apply (require_with_R RC); exact IR).
  assert (HreqF : FREQ (require_with OC (make_consistent_td RC OC P f))) by (apply require_with_F; [exact IR|exact IH|apply td_out]).
  assert (EX : forall w1, L w1 -> live (gr w1) (tn t) = true -> FO S w1 ->
            okF S (bind (execute_with RC OC P (require_with OC (make_consistent_td RC OC P f)) w1 t) (fun o w2 => Done o (mark_consistent w2 t)))).
  { intros w1 L1 Lt1 H1. apply (bind_F S w1); [apply execute_with_R; assumption|apply execute_with_F; assumption|].
    intros o w2 L2 _ H2. apply (FO_fq _ w2); [apply fq_mark|exact H2]. }
  destruct (get_task_output w0 t); [|apply EX; assumption].
  apply (bind_F S w0); [apply check_deps_R; [exact IR|exact L0|apply deps_DL; apply L0]|apply check_deps_F; [exact IR|exact IH|apply td_out|exact L0|apply deps_DL; apply L0|exact H0]|].
  intros ok w1 L1 M1 H1. destruct (if ok then get_task_output w1 t else None).
  - apply (FO_fq _ w1); [apply fq_mark|exact H1].
  - apply EX; [exact L1|apply M1; exact Lt0|exact H1].
Qed.

(* ---- bottom-up ---- *)
Lemma require_bu_with_F mc : RMC mc -> FMC mc -> (forall w t, outIs t (mc w t)) -> FREQ (require_bu_with OC mc).
Proof.
  intros HR HH HO S w t c HL Hw. unfold require_bu_with.
  apply (bind_F S w); [apply (require_with_R RC); [exact HR|exact HL]|apply require_with_F; assumption|].
  intros o w1 L1 _ H1. apply (FO_fq _ w1); [apply fq_mark|exact H1].
Qed.

Lemma try_schedule_fq w t r c st : fq w (try_schedule RC w t r c st).
Proof.
  unfold try_schedule. cbv zeta. destruct (rc_check _ _ _ _ _) as [| |e].
  - eapply fq_trans; apply fq_emit; reflexivity.
  - eapply fq_trans; [|apply fq_queue_add]. eapply fq_trans; [|apply fq_emit; reflexivity]. eapply fq_trans; apply fq_emit; reflexivity.
  - eapply fq_trans; [|apply fq_queue_add]. eapply fq_trans; [|apply fq_emit; reflexivity].
    eapply fq_trans; [|apply fq_same; reflexivity]. eapply fq_trans; apply fq_emit; reflexivity.
Qed.
Lemma try_schedule_edge_fq b w p : fq w (try_schedule_edge RC b w p).
Proof.
  unfold try_schedule_edge. destruct (snd p) as [[|t c st|r c st|r c st]|]; try apply fq_refl; [apply try_schedule_fq|].
  destruct b; [apply fq_refl|apply try_schedule_fq].
Qed.
Lemma fold_fq {X} (f : world -> X -> world) l : (forall w x, fq w (f w x)) -> forall w, fq w (fold_left f l w).
Proof. intros Hf. induction l as [|x tl IH]; intros w; cbn [fold_left]; [apply fq_refl|eapply fq_trans; [apply Hf|apply IH]]. Qed.
Lemma schedule_tasks_affected_by_fq w r : fq w (schedule_tasks_affected_by RC w r).
Proof.
  unfold schedule_tasks_affected_by. cbv zeta. eapply fq_trans; [|apply fq_emit; reflexivity].
  eapply fq_trans; [|apply fold_fq; intros; apply try_schedule_edge_fq]. eapply fq_trans; [|apply fq_goc_res]. apply fq_emit; reflexivity.
Qed.
Lemma schedule_by_written_fq w r : fq w (schedule_by_written RC w r).
Proof.
  unfold schedule_by_written. cbv zeta. eapply fq_trans; [|apply fq_emit; reflexivity].
  eapply fq_trans; [|apply fold_fq; intros; apply try_schedule_edge_fq]. apply fq_emit; reflexivity.
Qed.
Lemma schedule_requirer_fq o w p : fq w (schedule_requirer OC o w p).
Proof.
  unfold schedule_requirer. destruct (snd p) as [[|t c st|r c st|r c st]|]; try apply fq_refl. cbv zeta.
  destruct (oc_check (OC c) o st).
  - eapply fq_trans; apply fq_emit; reflexivity.
  - eapply fq_trans; [|apply fq_queue_add]. eapply fq_trans; [|apply fq_emit; reflexivity]. eapply fq_trans; apply fq_emit; reflexivity.
Qed.
Lemma schedule_after_fq w t o : fq w (schedule_after RC OC w t o).
Proof.
  unfold schedule_after. cbv zeta. eapply fq_trans; [|apply fq_mark]. eapply fq_trans; [|apply fq_emit; reflexivity].
  eapply fq_trans; [|apply fold_fq; intros; apply schedule_requirer_fq]. eapply fq_trans; [|apply fq_emit; reflexivity].
  apply fold_fq; intros; apply schedule_by_written_fq.
Qed.

Definition FBU (fuel : nat) : Prop :=
  (forall S w t, L w -> live (gr w) (tn t) = true -> FO S w -> okF S (bu_execute_and_schedule RC OC P fuel w t)) /\
  (forall S w t, L w -> live (gr w) (tn t) = true -> FO S w -> okF S (bu_make_consistent RC OC P fuel w t)) /\
  (forall S w t, L w -> FO S w -> okF S (bu_require_scheduled_now RC OC P fuel w t)).

Theorem bottom_up_F fuel : FBU fuel.
Proof.
  induction fuel as [|f [IH1 [IH2 IH3]]]; [repeat split; intros; exact Logic.I|].
  destruct (bottom_up_R RC OC P f) as [BR1 [BR2 BR3]].
  assert (HreqR : RREQ (require_bu_with OC (bu_make_consistent RC OC P f))) by (apply (require_bu_with_R RC); exact BR2).
  assert (HreqF : FREQ (require_bu_with OC (bu_make_consistent RC OC P f))).
  { apply require_bu_with_F; [exact BR2| |apply (bu_out RC OC P f)]. intros S w t HL Lt _ Hw. apply IH2; assumption. }
  split; [|split].
  - intros S w t HL Lt Hw. rewrite bes_S. apply (bind_F S w); [apply execute_with_R; assumption|apply execute_with_F; assumption|].
    intros o w1 L1 _ H1. apply (FO_fq _ w1); [apply schedule_after_fq|exact H1].
  - intros S w t HL Lt Hw. rewrite bmc_S. destruct (memN t (consistent w)); [destruct (get_task_output w t); [exact Hw|exact Logic.I]|].
    destruct ((match get_task_output w t with None => true | Some _ => false end) && negb (memN t (queue w)))%bool; [apply execute_with_F; assumption|].
    apply (bind_F S w); [apply BR3; exact HL|apply IH3; assumption|]. intros r w1 L1 _ H1.
    destruct r; [exact H1|]. destruct (get_task_output w1 t); [exact H1|exact Logic.I].
  - intros S w t HL Hw. rewrite rsn_S. destruct (queue w); [exact Hw|].
    destruct (pop_least_from w t) as [[m w1]|] eqn:X; [|exact Hw].
    destruct (pop_least_L RC OC P w t m w1 HL X) as [L1 [G1 Lm]].
    assert (W1 : w1 = set_queue w (removeN m (sort_queue w))) by (unfold pop_least_from in X; destruct (find _ _); inversion X; reflexivity).
    assert (H1 : FO S w1) by (apply (FO_fq _ w); [rewrite W1; apply fq_same; reflexivity|exact Hw]).
    apply (bind_F S w1); [apply BR1; [exact L1|rewrite G1; exact Lm]|apply IH1; [exact L1|rewrite G1; exact Lm|exact H1]|].
    intros o w2 L2 _ H2. destruct (N.eqb m t); [exact H2|apply IH3; assumption].
Qed.

Theorem execute_scheduled_F fuel : forall S w, L w -> FO S w -> okF S (execute_scheduled RC OC P fuel w).
Proof.
  induction fuel as [|f IH]; intros S w HL Hw; [exact Logic.I|]. rewrite es_S.
  destruct (queue_pop w) as [[t w1]|] eqn:X; [|exact Hw].
  destruct (queue_pop_L RC OC P w t w1 HL X) as [L1 [G1 Lt]].
  assert (W1 : w1 = set_queue w (removeN t (sort_queue w))) by (unfold queue_pop in X; destruct (rev (sort_queue w)); [discriminate|inversion X; reflexivity]).
  assert (H1 : FO S w1) by (apply (FO_fq _ w); [rewrite W1; apply fq_same; reflexivity|exact Hw]).
  apply (bind_F S w1); [apply (proj1 (bottom_up_R RC OC P f)); [exact L1|rewrite G1; exact Lt]|apply (proj1 (bottom_up_F f)); [exact L1|rewrite G1; exact Lt|exact H1]|].
  intros _ w2 L2 _ H2. apply IH; assumption.
Qed.

(* ---- sessions and histories ---- *)
Variable always : ocid.

Lemma session_require_F fuel w t : L w -> FO [] w -> okF [] (session_require RC OC P always fuel w t).
Proof.
  intros HL Hw. unfold session_require, require_td.
  set (w1 := emit (set_cur w None) EBuildStart).
  assert (L1 : L w1) by (apply L_emit, L_set_cur_none; exact HL).
  assert (H1 : FO [] w1) by (apply (FO_fq _ w); [apply fq_same; reflexivity|exact Hw]).
  apply (bind_F [] w1); [apply (require_with_R RC); [apply make_consistent_td_R|exact L1]|
                      apply require_with_F; [apply make_consistent_td_R|apply make_consistent_td_F|apply td_out|exact L1|exact H1]|].
  intros o w2 L2 _ H2. apply (FO_fq _ w2); [apply fq_emit; reflexivity|exact H2].
Qed.

Lemma session_bottom_up_F fuel w ch : L w -> FO [] w -> okF [] (session_bottom_up RC OC P fuel w ch).
Proof.
  intros HL Hw. unfold session_bottom_up. cbv zeta.
  assert (L0 : L (set_queue w [])). { destruct HL as [H1 [H2 H3]]. split; [exact H1|]. split; [exact H2|intros x []]. }
  destruct (fold_affected_L RC ch _ L0) as [L1 M1]. set (w1 := fold_left (schedule_tasks_affected_by RC) ch (set_queue w [])) in *.
  assert (H1 : FO [] w1).
  { apply (FO_fq _ w); [|exact Hw]. eapply fq_trans; [apply (fq_same w (set_queue w [])); reflexivity|apply fold_fq; intros; apply schedule_tasks_affected_by_fq]. }
  set (w2 := emit (set_cur w1 None) EBuildStart).
  assert (L2 : L w2) by (apply L_emit, L_set_cur_none; exact L1).
  assert (H2 : FO [] w2) by (apply (FO_fq _ w1); [apply fq_same; reflexivity|exact H1]).
  apply (bind_F [] w2); [apply execute_scheduled_R; exact L2|apply execute_scheduled_F; assumption|].
  intros _ w3 L3 _ H3. apply (FO_fq _ w3); [apply fq_emit; reflexivity|exact H3].
Qed.

(* at the end of a session that did not abort, no execution is open (NoReentry.SPre), so every known task has an output *)
Definition Full (w : world) : Prop := forall t, live (gr w) (tn t) = true -> get_task_output w t <> None.
Definition noab (r : sres) : Prop := forall k, r <> RAbort k.

Lemma Full_FO_new_session w : Full w -> FO [] (new_session w).
Proof. intros H t X. left. apply H. exact X. Qed.
Lemma FO_Full w : FO [] w -> opens (trace w) = [] -> Full w.
Proof. intros H O t X. destruct (H t X) as [A|[A|[]]]; [exact A|]. unfold opn in A. rewrite O in A. destruct A. Qed.

Lemma run_session_Full fuel ops : forall w, SPre w -> FO [] w -> Forall noab (fst (run_session RC OC P always fuel w ops)) ->
  let w' := snd (run_session RC OC P always fuel w ops) in L w' /\ FO [] w' /\ opens (trace w') = [].
Proof.
  induction ops as [|o tl IH]; intros w Hw Hf NA; cbn [run_session] in *; [split; [apply Hw|split; [exact Hf|apply Hw]]|].
  assert (X : match run_sop RC OC P always fuel w o with (RDone _, w') => SPre w' /\ FO [] w' | (RAbort _, _) => True | (RFuel, w') => w' = w end).
  { destruct o as [t|ch]; cbn [run_sop].
    - pose proof (session_require_N RC OC P always fuel w t Hw) as Y. pose proof (session_require_F fuel w t (proj1 (proj1 Hw)) Hf) as Z.
      destruct (session_require RC OC P always fuel w t); cbn in *; [split; assumption|exact Logic.I|reflexivity].
    - pose proof (session_bottom_up_N RC OC P fuel w ch Hw) as Y. pose proof (session_bottom_up_F fuel w ch (proj1 (proj1 Hw)) Hf) as Z.
      destruct (session_bottom_up RC OC P fuel w ch); cbn in *; [split; assumption|exact Logic.I|reflexivity]. }
  destruct (run_sop RC OC P always fuel w o) as [[x|k|] w'].
  - destruct X as [X1 X2]. specialize (IH w' X1 X2). destruct (run_session RC OC P always fuel w' tl) as [rs w'']. cbn [fst snd] in *.
    apply IH. inversion NA; assumption.
  - cbn [fst] in NA. inversion NA as [|r0 l0 N0 _]. exfalso. exact (N0 k eq_refl).
  - subst w'. cbn [snd]. split; [apply Hw|split; [exact Hf|apply Hw]].
Qed.

(* EVERY history in which no build aborts, for all programs and checkers: every task that has a node has an output *)
Theorem full_outputs_any_history fuel h : forall w, L w -> Full w ->
  Forall (Forall noab) (fst (run_history RC OC P always fuel w h)) ->
  L (snd (run_history RC OC P always fuel w h)) /\ Full (snd (run_history RC OC P always fuel w h)).
Proof.
  induction h as [|s tl IH]; intros w HL Hf NA; cbn [run_history] in *; [split; assumption|].
  assert (X : Forall noab (fst (run_step RC OC P always fuel w s)) -> L (snd (run_step RC OC P always fuel w s)) /\ Full (snd (run_step RC OC P always fuel w s))).
  { destruct s as [r v|e|ops]; cbn [run_step fst snd]; intros NS.
    - split; [apply L_set_content; exact HL|]. intros t X. change (live (gr (set_content w r v)) (tn t) = true) in X.
      assert (G : gr (set_content w r v) = gr w) by (destruct v; reflexivity). assert (O : outs (set_content w r v) = outs w) by (destruct v; reflexivity).
      unfold get_task_output. rewrite O. apply Hf. rewrite <- G. exact X.
    - split; [apply L_set_env; exact HL|exact Hf].
    - destruct (run_session_Full fuel ops (new_session w) (SPre_new_session w HL) (Full_FO_new_session w Hf) NS) as [A [B C]].
      split; [exact A|apply FO_Full; assumption]. }
  destruct (run_step RC OC P always fuel w s) as [r w'] eqn:E. cbn [fst snd] in X.
  destruct (run_history RC OC P always fuel w' tl) as [rs w''] eqn:E2. cbn [fst snd] in *.
  inversion NA as [|r0 l0 N0 N1]; subst. destruct (X N0) as [L1 F1].
  specialize (IH w' L1 F1). rewrite E2 in IH. cbn [fst snd] in IH. apply IH. exact N1.
Qed.

Lemma Full_init : Full init_world.
Proof. intros t X. discriminate X. Qed.

End FOS.

(* ---- the static class: no build of any history aborts (NoAbortAll.v), hence after ANY history every known task has an output ---- *)
From PieV Require Import Proofs.Stable Proofs.NoAbort Proofs.NoAbortAll.
Section Static.
Variable gen : res -> option task.
Variable wck : rcid -> Prop.
Variable ord : task -> nat.
Variable RC : rcid -> rchecker.
Variable OC : ocid -> ochecker.
Variable P : task -> prog.
Variable sf : rcid -> res -> content -> Z.
Variable always : ocid.
Hypothesis HS : forall c env r v, rc_stamp (RC c) env r v = inl (sf c r v).
Hypothesis HWF : forall t, WFP gen wck t [] (P t).
Hypothesis HWO : forall t, WFO ord t (P t).

Theorem static_class_every_known_task_has_an_output fuel h :
  let w := snd (run_history RC OC P always fuel init_world h) in
  forall t, live (gr w) (tn t) = true -> get_task_output w t <> None.
Proof.
  intros w. apply (full_outputs_any_history RC OC P always fuel h init_world L_init Full_init).
  pose proof (static_class_never_aborts_any_history gen wck ord RC OC P sf HS HWF HWO always fuel h) as X.
  eapply Forall_impl; [|exact X]. intros l Hl. eapply Forall_impl; [|exact Hl]. intros r Hr k E. subst r. exact Hr.
Qed.
End Static.

(* The premise of the C03 theorems ("all known tasks were last consistent": AllValid) is an invariant of the histories a client
   produces when it (1) builds its tasks once, top-down, on an empty instance and then (2) reacts to every batch of external
   changes with a bottom-up build that is told about every changed resource:  static class, reflexive checkers. *)
From Coq Require Import List NArith ZArith Bool Lia Permutation.
From PieV Require Import Model.Dag Model.Build Proofs.DagLib Proofs.DagWF Proofs.DagPath Proofs.DagQueries Proofs.StoreInv
  Proofs.Sorting Proofs.Effects Proofs.Inv Proofs.History Proofs.ExecInv Proofs.ExecSession Proofs.Cert Proofs.Stable Proofs.NoBug4 Proofs.NoAbort
  Proofs.NoBug4All Proofs.NoReentry Proofs.NoBugAll Proofs.CertAll Proofs.NoAbortAll Proofs.HasOut Proofs.Sim Proofs.Valid Proofs.Idem Proofs.OnceAll Proofs.UpToDate.
Import ListNotations.
Open Scope N_scope.

Section GH.
Variable gen : res -> option task.
Variable wck : rcid -> Prop.
Variable ord : task -> nat.
Variable RC : rcid -> rchecker.
Variable OC : ocid -> ochecker.
Variable P : task -> prog.
Variable sf : rcid -> res -> content -> Z.
Variable always : ocid.
Hypothesis HS : forall c env r v, rc_stamp (RC c) env r v = inl (sf c r v).
Hypothesis HWF : forall t, WFP gen wck t [] (P t).
Hypothesis HWO : forall t, WFO ord t (P t).
Hypothesis HRefl : forall c env r v, rc_check (RC c) env r v (sf c r v) = Consistent.
Hypothesis HReflO : forall c o, oc_check (OC c) o (oc_stamp (OC c) o) = true.

Lemma run_history_app fuel h1 : forall w h2,
  snd (run_history RC OC P always fuel w (h1 ++ h2)) = snd (run_history RC OC P always fuel (snd (run_history RC OC P always fuel w h1)) h2).
Proof.
  induction h1 as [|s tl IH]; intros w h2; cbn [app run_history]; [reflexivity|].
  destruct (run_step RC OC P always fuel w s) as [r w']. specialize (IH w' h2).
  destruct (run_history RC OC P always fuel w' (tl ++ h2)) as [rs w'']. destruct (run_history RC OC P always fuel w' tl) as [rs1 w1]. cbn [snd] in *. exact IH.
Qed.

(* (1) the first build: a session of requires on an instance that has built nothing yet *)
Theorem first_session_AllValid fuel edits ops : roots_below ord fuel ops ->
  AllValid RC OC (snd (run_history RC OC P always fuel init_world (edits_of edits ++ [HSession ops]))).
Proof.
  intros RB. rewrite run_history_app. set (w0 := snd (run_history RC OC P always fuel init_world (edits_of edits))).
  destruct (edits_same RC OC P always fuel edits init_world) as [G0 [O0 E0]]. fold w0 in G0, O0, E0.
  cbn [run_history run_step snd]. set (w := new_session w0).
  assert (Jw : ExecSession.J w) by (split; [unfold StoreOK; change (gr w) with (gr w0); rewrite G0; exact GOK_empty|split; [intros t d X; unfold w in X; cbn [new_session gr] in X; rewrite G0 in X; discriminate|intros t X; discriminate]]).
  assert (Qw : Q gen ord w) by (intros a; apply QR_empty; [unfold kidsT; change (gr w) with (gr w0); rewrite G0; reflexivity|intros d; unfold row; change (gr w) with (gr w0); rewrite G0; reflexivity]).
  assert (V0 : VC RC OC w) by (intros x Xx; discriminate).
  destruct (session_V gen wck ord RC OC P sf HS HWF HWO HRefl HReflO always fuel ops w RB Jw Qw V0) as [VCv _].
  destruct (session_returns gen wck ord RC OC P sf HS HWF HWO always fuel ops w RB Jw Qw) as [DA _].
  destruct (session_post RC OC P always fuel ops w (roots_td ord OC always fuel ops RB) Jw DA) as [seg PS].
  destruct (run_session RC OC P always fuel w ops) as [rs v]. cbn [fst snd] in *.
  intros x Ox d dp R.
  assert (Ix : In x (execs seg)).
  { destruct (in_dec N.eq_dec x (execs seg)) as [I|NI]; [exact I|]. exfalso. destruct (po_others _ _ _ _ _ _ PS x NI ltac:(intros [])) as [_ [_ Oo]].
    apply Ox. rewrite Oo. unfold get_task_output. change (outs w) with (outs w0). rewrite O0. reflexivity. }
  destruct (po_cons _ _ _ _ _ _ PS x Ix) as [Cx|[]].
  pose proof (VCv x Cx d dp R) as D. destruct dp as [|y c st|r c st|r c st]; cbn in D |- *; [exact D|destruct D as [_ D]; exact D|exact D|exact D].
Qed.

(* (2) each batch of external changes followed by a bottom-up build that is told about every changed resource *)
Theorem change_then_bottom_up_keeps_AllValid fuel h edits ch :
  let wh := snd (run_history RC OC P always fuel init_world h) in
  let w1 := snd (run_history RC OC P always fuel wh (edits_of edits)) in
  AllValid RC OC wh -> (forall r, get_content w1 r <> get_content wh r -> In r ch) ->
  (exists u w', session_bottom_up RC OC P fuel (new_session w1) ch = Done u w') ->
  AllValid RC OC (snd (run_history RC OC P always fuel init_world (h ++ edits_of edits ++ [HSession [SBottomUp ch]]))).
Proof.
  intros wh w1 AV Hch [u [w' E]]. rewrite run_history_app. fold wh. rewrite run_history_app. fold w1.
  cbn [run_history run_step run_session run_sop snd]. rewrite E. cbn [snd].
  pose proof (bottom_up_restores_validity gen wck ord RC OC P sf HS HWF HWO HRefl HReflO always fuel h edits ch AV Hch) as X. fold wh w1 in X. rewrite E in X. apply X.
Qed.
(* (3) a session that requires known tasks in a store where everything is consistent changes nothing the premise looks at *)
Theorem requires_of_known_tasks_keep_AllValid fuel h ops :
  let wh := snd (run_history RC OC P always fuel init_world h) in
  AllValid RC OC wh -> roots_below ord fuel ops -> (forall t, In t (roots ops) -> get_task_output wh t <> None) ->
  AllValid RC OC (snd (run_history RC OC P always fuel init_world (h ++ [HSession ops]))).
Proof.
  intros wh AV RB HX. rewrite run_history_app. fold wh.
  destruct (run_history_HBs gen wck ord RC OC P sf HS HWF HWO always fuel h init_world) as [Jh [_ [Qh _]]]; [split; [apply L_init|intros x d X; discriminate]|apply K_init|apply Q_init|apply HBs_init|].
  fold wh in Jh, Qh.
  set (X := map fst (outs wh)).
  assert (VX : ValidX RC OC X (new_session wh)).
  { intros x Ix. apply alookup_in in Ix. change (get_task_output wh x <> None) in Ix. split.
    - destruct (get_task_output wh x) as [o|] eqn:E0; [exists o; exact E0|contradiction Ix; reflexivity].
    - intros d dp R. change (row wh x d = Some dp) in R. pose proof (AV x Ix d dp R) as G.
      destruct dp as [|y c st|r0 c st|r0 c st]; cbn [UpToDate.DepGood DepOKX] in *; [exact G| |exact G|exact G].
      destruct G as [oy [Oy Cy]]. split; [apply alookup_in; change (get_task_output wh y <> None); rewrite Oy; discriminate|exists oy; split; assumption]. }
  destruct (idem_session gen ord RC OC P always X fuel ops (new_session wh) VX (proj1 (proj1 Jh)) ltac:(apply (Q_same gen ord wh); [reflexivity|exact Qh]) RB
              ltac:(intros t It; apply alookup_in; apply HX; exact It)) as [Qt _].
  cbn [run_history run_step]. destruct (run_session RC OC P always fuel (new_session wh) ops) as [rs v]. cbn [snd] in *.
  intros x Ox d dp R. unfold get_task_output in Ox. rewrite (qt_outs _ _ Qt) in Ox.
  rewrite (proj2 (qt_rows _ _ Qt x) d) in R. pose proof (AV x Ox d dp R) as G.
  destruct dp as [|y c st|r0 c st|r0 c st]; cbn [UpToDate.DepGood] in *; [exact G| | |].
  - unfold get_task_output. rewrite (qt_outs _ _ Qt). exact G.
  - rewrite (qt_content _ _ Qt), (qt_env _ _ Qt). exact G.
  - rewrite (qt_content _ _ Qt), (qt_env _ _ Qt). exact G.
Qed.
End GH.

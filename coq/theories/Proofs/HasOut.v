(* A store/trace invariant of every build, for ALL programs and checkers: a RECORDED require dependency (edge data DRequire, i.e.
   not a reservation) always points to a task that has an output or whose execution is open.  It is established when the
   dependency is recorded (the required task has just returned its output), survives the reset at the start of an execution
   (the task becomes open) and its end (the output is stored).  With no aborts (static class, NoAbortAll.v) no execution stays
   open at the end of a session, so after ANY history every recorded require dependency points to a task with an output. *)
From Coq Require Import List NArith ZArith Bool Lia Permutation.
From PieV Require Import Model.Dag Model.Build Proofs.DagLib Proofs.DagWF Proofs.DagPath Proofs.DagQueries Proofs.StoreInv
  Proofs.Sorting Proofs.Effects Proofs.Inv Proofs.History Proofs.ExecInv Proofs.ExecSession Proofs.Cert Proofs.NoBug4 Proofs.NoBug4All Proofs.Trace
  Proofs.BuJust Proofs.BuOnce Proofs.NoReentry Proofs.NoBugAll Proofs.CertAll.
Import ListNotations.
Open Scope N_scope.

Definition opn (w : world) (x : task) : Prop := In x (opens (trace w)).
Definition HB (w : world) : Prop :=
  forall x y c st, row w x (tn y) = Some (DRequire y c st) -> get_task_output w y <> None \/ opn w y.
(* steps that record no require dependency, start and end no execution and store no output *)
Definition hq (w w' : world) : Prop :=
  outs w' = outs w /\ opens (trace w') = opens (trace w) /\
  forall x y c st, row w' x (tn y) = Some (DRequire y c st) -> row w x (tn y) = Some (DRequire y c st).

Lemma hq_refl w : hq w w. Proof. split; [reflexivity|split; [reflexivity|trivial]]. Qed.
Lemma hq_trans a b c : hq a b -> hq b c -> hq a c.
Proof. intros [A1 [A2 A3]] [B1 [B2 B3]]. split; [congruence|split; [congruence|intros x y k st X; apply A3, B3, X]]. Qed.
Lemma HB_hq w w' : hq w w' -> HB w -> HB w'.
Proof.
  intros [A1 [A2 A3]] H x y c st X. unfold get_task_output, opn. rewrite A1, A2. apply (H x y c st). apply A3. exact X.
Qed.
Lemma hq_same w w' : gr w' = gr w -> outs w' = outs w -> opens (trace w') = opens (trace w) -> hq w w'.
Proof. intros G O T. split; [exact O|split; [exact T|]]. intros x y c st. unfold row. rewrite G. trivial. Qed.
Lemma hq_emit w e : ev3 e = true -> hq w (emit w e).
Proof. intros H. apply hq_same; [reflexivity|reflexivity|apply opens_ev3; exact H]. Qed.
Lemma hq_geq w w' : geq w w' -> outs w' = outs w -> opens (trace w') = opens (trace w) -> hq w w'.
Proof. intros G O T. split; [exact O|split; [exact T|]]. intros x y c st. unfold row. rewrite (proj2 (G (tn x))). trivial. Qed.
Lemma hq_goc_task w t : hq w (get_or_create_task_node w t).
Proof. apply hq_geq; [apply geq_goc_task| |]; unfold get_or_create_task_node; destruct (live _ _); reflexivity. Qed.
Lemma hq_goc_res w r : hq w (get_or_create_resource_node w r).
Proof. apply hq_geq; [apply geq_goc_res| |]; unfold get_or_create_resource_node; destruct (live _ _); reflexivity. Qed.
Lemma hq_add_dependency w s d dp : WF (gr w) -> (forall y c st, dp <> DRequire y c st) -> fst (add_dependency w s d dp) <> AddBug ->
  hq w (snd (add_dependency w s d dp)).
Proof.
  intros W Hd NB. pose proof (add_dependency_edata w s d dp W) as ED.
  assert (O : outs (snd (add_dependency w s d dp)) = outs w) by (unfold add_dependency; destruct (add_edge (gr w) s d dp) as [[b|[|]|] g']; reflexivity).
  split; [exact O|]. split; [rewrite trace_add_dependency; reflexivity|].
  destruct (add_dependency w s d dp) as [[| |] w']; cbn [fst snd] in *; try (contradiction NB; reflexivity);
    intros x y c st X; unfold row in *; (destruct (ED (tn x) (tn y)) as [E|[_ [_ [_ E]]]]; [rewrite <- E; exact X|rewrite E in X; inversion X; exfalso; eapply Hd; eassumption]).
Qed.
Lemma hq_set_content w r v : hq w (set_content w r v). Proof. apply hq_same; destruct v; reflexivity. Qed.
Lemma hq_queue_add w t : hq w (queue_add w t). Proof. unfold queue_add. destruct (memN _ _); [apply hq_refl|apply hq_same; reflexivity]. Qed.

Lemma HB_start w t : StoreOK w -> HB w -> HB (emit (set_cur (reset_task w t) (Some t)) (EExecStart t)).
Proof.
  intros HS H x y c st X. destruct (reset_task_facts w t HS) as [_ [_ [_ [R4 [_ [_ [R7 [R8 [R9 R10]]]]]]]]].
  unfold row in X. change (get_edata (gr (reset_task w t)) (tn x) (tn y) = Some (DRequire y c st)) in X.
  destruct (N.eq_dec x t) as [->|Hx]; [rewrite R8 in X; discriminate|].
  rewrite R7 in X by (intros E; apply tn_inj in E; contradiction).
  unfold opn. change (opens (trace (emit (set_cur (reset_task w t) (Some t)) (EExecStart t)))) with (t :: opens (trace (reset_task w t))). rewrite R4.
  destruct (N.eq_dec y t) as [->|Hy]; [right; left; reflexivity|].
  change (get_task_output (reset_task w t) y <> None \/ In y (t :: opens (trace w))). rewrite (R10 y Hy).
  destruct (H x y c st X) as [A|A]; [left; exact A|right; right; exact A].
Qed.
Lemma HB_end w t o c : HB w -> HB (set_task_output (set_cur (emit w (EExecEnd t o)) c) t o).
Proof.
  intros H x y k st X. change (row w x (tn y) = Some (DRequire y k st)) in X.
  destruct (N.eq_dec y t) as [->|Hy].
  - left. change (alookup (aset (outs w) t o) t <> None). rewrite alookup_aset_eq. discriminate.
  - change (alookup (aset (outs w) t o) y <> None \/ In y (removeN t (opens (trace w)))). rewrite alookup_aset_other by exact Hy.
    destruct (H x y k st X) as [A|A]; [left; exact A|right; apply In_removeN_other'; assumption].
Qed.

Definition okH {A} (m : outcome A) : Prop := match m with Done _ w' => HB w' | _ => True end.
Lemma bind_H {A B} w (m : outcome A) (f : A -> world -> outcome B) :
  okR w m -> okH m -> (forall a w1, L w1 -> mono w w1 -> HB w1 -> okH (f a w1)) -> okH (bind m f).
Proof. destruct m as [a w1|k w1|]; cbn; intros R H F; [apply F; [apply R|apply R|exact H]|exact Logic.I|exact Logic.I]. Qed.
Definition hqO {A} (w : world) (m : outcome A) : Prop := match m with Done _ w' => hq w w' | _ => True end.
Lemma hqO_H {A} w (m : outcome A) : hqO w m -> HB w -> okH m.
Proof. destruct m; cbn; intros Q H; [eapply HB_hq; eassumption|exact Logic.I|exact Logic.I]. Qed.

Section HO.
Variable RC : rcid -> rchecker.
Variable OC : ocid -> ochecker.
Variable P : task -> prog.

Lemma sess_read_hq w r c : L w -> hqO w (sess_read RC w r c).
Proof.
  intros HL. unfold sess_read. destruct (cur w) as [t|]; [|apply hq_refl]. cbv zeta.
  set (w1 := emit w (EReadStart r c)). set (w2 := get_or_create_resource_node w1 r).
  assert (Q2 : hq w w2) by (eapply hq_trans; [apply (hq_emit w (EReadStart r c)); reflexivity|apply hq_goc_res]).
  assert (L2 : L w2) by (apply goc_res_L, L_emit; exact HL).
  destruct (hidden_read_check w2 t r); [exact Logic.I|].
  destruct (rc_stamp (RC c) (env w2) r (get_content w r)) as [st|e]; [|exact Q2].
  set (w3 := emit w2 (EReadEnd r c st)).
  pose proof (hq_add_dependency w3 (tn t) (rn r) (DRead r c st) (proj1 (proj1 L2)) ltac:(intros; discriminate)) as X.
  destruct (add_dependency w3 (tn t) (rn r) (DRead r c st)) as [[| |] w4]; cbn [fst snd hqO] in *; [| |exact Logic.I];
    (eapply hq_trans; [exact Q2|]; eapply hq_trans; [apply (hq_emit w2 (EReadEnd r c st)); reflexivity|apply X; discriminate]).
Qed.
Lemma sess_write_hq w r c v : L w -> hqO w (sess_write RC w r c v).
Proof.
  intros HL. unfold sess_write. destruct (cur w) as [t|]; [|apply hq_set_content]. cbv zeta.
  set (w1 := emit w (EWriteStart r c)). set (w2 := get_or_create_resource_node w1 r).
  assert (Q2 : hq w w2) by (eapply hq_trans; [apply (hq_emit w (EWriteStart r c)); reflexivity|apply hq_goc_res]).
  assert (L2 : L w2) by (apply goc_res_L, L_emit; exact HL).
  destruct (validate_write w2 t r); [exact Logic.I|].
  set (w3 := set_content w2 r v). assert (Q3 : hq w w3) by (eapply hq_trans; [exact Q2|apply hq_set_content]).
  assert (L3 : L w3) by (apply L_set_content; exact L2).
  destruct (rc_stamp (RC c) (env w3) r (get_content w3 r)) as [st|e]; [|exact Q3].
  set (w4 := emit w3 (EWriteEnd r c st)).
  pose proof (hq_add_dependency w4 (tn t) (rn r) (DWrite r c st) (proj1 (proj1 L3)) ltac:(intros; discriminate)) as X.
  destruct (add_dependency w4 (tn t) (rn r) (DWrite r c st)) as [[| |] w5]; cbn [fst snd hqO] in *; [| |exact Logic.I];
    (eapply hq_trans; [exact Q3|]; eapply hq_trans; [apply (hq_emit w3 (EWriteEnd r c st)); reflexivity|apply X; discriminate]).
Qed.
Lemma sess_written_to_hq w0 r c v : L w0 -> hqO w0 (sess_written_to RC w0 r c v).
Proof.
  intros HL0. unfold sess_written_to. cbv zeta. set (w := set_content w0 r v).
  assert (Q0 : hq w0 w) by apply hq_set_content. assert (HL : L w) by (apply L_set_content; exact HL0).
  destruct (cur w) as [t|]; [|exact Q0].
  set (w1 := emit w (EWriteStart r c)). set (w2 := get_or_create_resource_node w1 r).
  assert (Q2 : hq w0 w2) by (eapply hq_trans; [exact Q0|]; eapply hq_trans; [apply (hq_emit w (EWriteStart r c)); reflexivity|apply hq_goc_res]).
  assert (L2 : L w2) by (apply goc_res_L, L_emit; exact HL).
  destruct (validate_write w2 t r); [exact Logic.I|].
  destruct (rc_stamp (RC c) (env w2) r (get_content w2 r)) as [st|e]; [|exact Q2].
  set (w3 := emit w2 (EWriteEnd r c st)).
  pose proof (hq_add_dependency w3 (tn t) (rn r) (DWrite r c st) (proj1 (proj1 L2)) ltac:(intros; discriminate)) as X.
  destruct (add_dependency w3 (tn t) (rn r) (DWrite r c st)) as [[| |] w4]; cbn [fst snd hqO] in *; [| |exact Logic.I];
    (eapply hq_trans; [exact Q2|]; eapply hq_trans; [apply (hq_emit w2 (EWriteEnd r c st)); reflexivity|apply X; discriminate]).
Qed.

Definition HREQ (req : world -> task -> ocid -> outcome Z) : Prop := forall w t c, L w -> HB w -> okH (req w t c).
Definition HMC (mc : world -> task -> outcome Z) : Prop := forall w t, L w -> live (gr w) (tn t) = true -> HB w -> okH (mc w t).

Lemma exec_prog_H req : RREQ req -> HREQ req -> forall p w, L w -> HB w -> okH (exec_prog RC OC req p w).
Proof.
  intros HR HH. induction p as [o| |t c k IH|r c k IH|r c v k IH|r c v k IH]; intros w HL Hw; cbn [exec_prog].
  - exact Hw.
  - exact Logic.I.
  - apply (bind_H w); [apply HR; exact HL|apply HH; assumption|]. intros o w1 L1 _ H1. apply IH; assumption.
  - apply (bind_H w); [apply sess_read_R; exact HL|apply (hqO_H w); [apply sess_read_hq; exact HL|exact Hw]|]. intros o w1 L1 _ H1. apply IH; assumption.
  - apply (bind_H w); [apply sess_write_R; exact HL|apply (hqO_H w); [apply sess_write_hq; exact HL|exact Hw]|]. intros o w1 L1 _ H1. apply IH; assumption.
  - apply (bind_H w); [apply sess_written_to_R; exact HL|apply (hqO_H w); [apply sess_written_to_hq; exact HL|exact Hw]|]. intros o w1 L1 _ H1. apply IH; assumption.
Qed.

Lemma execute_with_H req w t : RREQ req -> HREQ req -> L w -> live (gr w) (tn t) = true -> HB w -> okH (execute_with RC OC P req w t).
Proof.
  intros HR HH HL Lt Hw. unfold execute_with.
  destruct (reset_task_facts w t (proj1 HL)) as [R1 [_ [R3 _]]].
  set (ws := emit (set_cur (reset_task w t) (Some t)) (EExecStart t)).
  assert (Ls : L ws).
  { split; [exact R1|]. split; [intros x X; cbn in X; inversion X; subst x; apply R3; exact Lt|intros x X; apply R3; apply (proj2 (proj2 HL)); exact X]. }
  pose proof (exec_prog_H req HR HH (P t) ws Ls (HB_start w t (proj1 HL) Hw)) as X.
  destruct (exec_prog RC OC req (P t) ws) as [o w3|k w3|]; cbn [bind okH] in *; [|exact Logic.I|exact Logic.I].
  apply HB_end. exact X.
Qed.

Lemma require_with_H mc : RMC mc -> HMC mc -> (forall w t, outIs t (mc w t)) -> HREQ (require_with OC mc).
Proof.
  intros HR HH HO w t c HL Hw. unfold require_with.
  set (w1 := emit w (ERequireStart t c)). set (w2 := get_or_create_task_node w1 t).
  assert (Q2 : hq w w2) by (eapply hq_trans; [apply (hq_emit w (ERequireStart t c)); reflexivity|apply hq_goc_task]).
  assert (L2 : L w2) by (apply goc_task_L, L_emit; exact HL).
  assert (Lt : live (gr w2) (tn t) = true) by apply live_goc_task.
  pose proof (reserve_R RC w2 t L2 Lt) as RR.
  assert (RQ : hqO w2 (reserve_require_dependency w2 t)).
  { unfold reserve_require_dependency. destruct (cur w2) as [s|]; [|apply hq_refl].
    pose proof (hq_add_dependency w2 (tn s) (tn t) DReserved (proj1 (proj1 L2)) ltac:(intros; discriminate)) as X.
    destruct (add_dependency w2 (tn s) (tn t) DReserved) as [[| |] w3]; cbn [fst snd hqO] in *; [apply X; discriminate|exact Logic.I|exact Logic.I]. }
  destruct (reserve_require_dependency w2 t) as [[] w3|k w3|]; cbn [bind okH hqO okR] in *; [|exact Logic.I|exact Logic.I].
  destruct RR as [L3 M3].
  assert (H3 : HB w3) by (eapply HB_hq; [eapply hq_trans; [exact Q2|exact RQ]|exact Hw]).
  pose proof (HR w3 t L3 (M3 _ Lt)) as MR. pose proof (HH w3 t L3 (M3 _ Lt) H3) as MH. pose proof (HO w3 t) as MO.
  destruct (mc w3 t) as [o w4|k w4|]; cbn [bind okH okR outIs] in *; [|exact Logic.I|exact Logic.I].
  unfold update_require_dependency. cbn [cur emit gr]. destruct (cur w4) as [s|]; [|cbn; apply (HB_hq w4); [apply hq_emit; reflexivity|exact MH]].
  destruct (get_edata (gr w4) (tn s) (tn t)); cbn [bind okH]; [|exact Logic.I].
  intros x y k st X. unfold row in X. cbn [gr set_gr emit] in X. rewrite get_edata_insert in X.
  change (get_task_output w4 y <> None \/ In y (opens (trace w4))).
  destruct (pair_eqb (tn s, tn t) (tn x, tn y)) eqn:Z.
  - apply pair_eqb_eq in Z. inversion Z as [[Z1 Z2]]. apply tn_inj in Z2. subst y. left. rewrite MO. discriminate.
  - apply (MH x y k st). exact X.
Qed.

Lemma check_deps_H mc : RMC mc -> HMC mc -> forall ds w, L w -> DL w ds -> HB w -> okH (check_deps RC OC mc ds w).
Proof.
  intros HR HH. induction ds as [|d tl IH]; intros w HL HD Hw; cbn [check_deps]; [exact Hw|].
  destruct d as [[|t c st|r c st|r c st]|]; try exact Logic.I.
  - set (w1 := emit w (ECheckTaskStart t c st)).
    assert (L1 : L w1) by (apply L_emit; exact HL).
    assert (Lt : live (gr w1) (tn t) = true) by (apply (HD t c st); left; reflexivity).
    assert (H1 : HB w1) by (apply (HB_hq w); [apply hq_emit; reflexivity|exact Hw]).
    apply (bind_H w1); [apply HR; assumption|apply HH; assumption|]. intros o w2 L2 M2 H2.
    assert (H3 : forall b, HB (emit w2 (ECheckTaskEnd t c st b))) by (intros b; apply (HB_hq w2); [apply hq_emit; reflexivity|exact H2]).
    destruct (oc_check (OC c) o st); [|apply H3].
    apply IH; [apply L_emit; exact L2| |apply H3].
    intros t' c' st' X. change (live (gr w2) (tn t') = true). apply M2. apply (HD t' c' st'). right. exact X.
  - destruct (check_resource_td_L RC w r c st HL) as [X M].
    assert (Q : hq w (snd (check_resource_td RC w r c st))) by (unfold check_resource_td; cbn [snd]; eapply hq_trans; apply hq_emit; reflexivity).
    destruct (check_resource_td RC w r c st) as [[| |e] w1]; cbn [snd] in X, M, Q.
    + apply IH; [exact X| |eapply HB_hq; eassumption]. intros t' c' st' Y. apply M. apply (HD t' c' st'). right. exact Y.
    + eapply HB_hq; eassumption.
    + apply (HB_hq w1); [apply hq_same; reflexivity|eapply HB_hq; eassumption].
  - destruct (check_resource_td_L RC w r c st HL) as [X M].
    assert (Q : hq w (snd (check_resource_td RC w r c st))) by (unfold check_resource_td; cbn [snd]; eapply hq_trans; apply hq_emit; reflexivity).
    destruct (check_resource_td RC w r c st) as [[| |e] w1]; cbn [snd] in X, M, Q.
    + apply IH; [exact X| |eapply HB_hq; eassumption]. intros t' c' st' Y. apply M. apply (HD t' c' st'). right. exact Y.
    + eapply HB_hq; eassumption.
    + apply (HB_hq w1); [apply hq_same; reflexivity|eapply HB_hq; eassumption].
Qed.

Lemma td_out fuel : forall w t, outIs t (make_consistent_td RC OC P fuel w t).
Proof.
  destruct fuel as [|f]; intros w t; cbn [make_consistent_td]; [exact Logic.I|].
  set (w0 := get_or_create_task_node w t).
  destruct (memN t (consistent w0)); [destruct (get_task_output w0 t) eqn:E; cbn; [exact E|exact Logic.I]|].
  assert (EX : forall w1, outIs t (bind (execute_with RC OC P (require_with OC (make_consistent_td RC OC P f)) w1 t) (fun o w2 => Done o (mark_consistent w2 t)))).
  { intros w1. pose proof (execute_with_out RC OC P (require_with OC (make_consistent_td RC OC P f)) w1 t) as X.
    destruct (execute_with _ _ _ _ _ _) as [o w2|k w2|]; cbn [bind outIs] in *; try exact Logic.I. exact X. }
  destruct (get_task_output w0 t); [|apply EX].
  destruct (check_deps RC OC (make_consistent_td RC OC P f) (deps_of_task w0 t) w0) as [ok w1|k w1|]; cbn [bind outIs]; try exact Logic.I.
  destruct ok; [|apply EX]. destruct (get_task_output w1 t) eqn:E; [cbn; exact E|apply EX].
Qed.

Lemma hq_mark w t : hq w (mark_consistent w t). Proof. apply hq_same; reflexivity. Qed.

Theorem make_consistent_td_H fuel : HMC (make_consistent_td RC OC P fuel).
Proof.
  induction fuel as [|f IH]; intros w t HL Lt Hw; cbn [make_consistent_td]; [exact Logic.I|].
  set (w0 := get_or_create_task_node w t).
  assert (L0 : L w0) by (apply goc_task_L; exact HL).
  assert (H0 : HB w0) by (apply (HB_hq w); [apply hq_goc_task|exact Hw]).
  assert (Lt0 : live (gr w0) (tn t) = true) by apply live_goc_task.
  destruct (memN t (consistent w0)); [destruct (get_task_output w0 t); [exact H0|exact Logic.I]|].
  pose proof (make_consistent_td_R RC OC P f) as IR.
  assert (HreqR : RREQ (require_with OC (make_consistent_td RC OC P f))) by (apply (require_with_R RC); exact IR).
  assert (HreqH : HREQ (require_with OC (make_consistent_td RC OC P f))) by (apply require_with_H; [exact IR|exact IH|apply td_out]).
  assert (EX : forall w1, L w1 -> live (gr w1) (tn t) = true -> HB w1 ->
            okH (bind (execute_with RC OC P (require_with OC (make_consistent_td RC OC P f)) w1 t) (fun o w2 => Done o (mark_consistent w2 t)))).
  { intros w1 L1 Lt1 H1. apply (bind_H w1); [apply execute_with_R; assumption|apply execute_with_H; assumption|].
    intros o w2 L2 _ H2. apply (HB_hq w2); [apply hq_mark|exact H2]. }
  destruct (get_task_output w0 t); [|apply EX; assumption].
  apply (bind_H w0); [apply check_deps_R; [exact IR|exact L0|apply deps_DL; apply L0]|apply check_deps_H; [exact IR|exact IH|exact L0|apply deps_DL; apply L0|exact H0]|].
  intros ok w1 L1 M1 H1. destruct (if ok then get_task_output w1 t else None).
  - apply (HB_hq w1); [apply hq_mark|exact H1].
  - apply EX; [exact L1|apply M1; exact Lt0|exact H1].
Qed.

(* ---- bottom-up ---- *)
Lemma require_bu_with_H mc : RMC mc -> HMC mc -> (forall w t, outIs t (mc w t)) -> HREQ (require_bu_with OC mc).
Proof.
  intros HR HH HO w t c HL Hw. unfold require_bu_with.
  apply (bind_H w); [apply (require_with_R RC); [exact HR|exact HL]|apply require_with_H; assumption|].
  intros o w1 L1 _ H1. apply (HB_hq w1); [apply hq_mark|exact H1].
Qed.

Lemma try_schedule_hq w t r c st : hq w (try_schedule RC w t r c st).
Proof.
  unfold try_schedule. cbv zeta. destruct (rc_check _ _ _ _ _) as [| |e].
  - eapply hq_trans; apply hq_emit; reflexivity.
  - eapply hq_trans; [|apply hq_queue_add]. eapply hq_trans; [|apply hq_emit; reflexivity]. eapply hq_trans; apply hq_emit; reflexivity.
  - eapply hq_trans; [|apply hq_queue_add]. eapply hq_trans; [|apply hq_emit; reflexivity].
    eapply hq_trans; [|apply hq_same; reflexivity]. eapply hq_trans; apply hq_emit; reflexivity.
Qed.
Lemma try_schedule_edge_hq b w p : hq w (try_schedule_edge RC b w p).
Proof.
  unfold try_schedule_edge. destruct (snd p) as [[|t c st|r c st|r c st]|]; try apply hq_refl; [apply try_schedule_hq|].
  destruct b; [apply hq_refl|apply try_schedule_hq].
Qed.
Lemma fold_hq {X} (f : world -> X -> world) l : (forall w x, hq w (f w x)) -> forall w, hq w (fold_left f l w).
Proof. intros Hf. induction l as [|x tl IH]; intros w; cbn [fold_left]; [apply hq_refl|eapply hq_trans; [apply Hf|apply IH]]. Qed.
Lemma schedule_tasks_affected_by_hq w r : hq w (schedule_tasks_affected_by RC w r).
Proof.
  unfold schedule_tasks_affected_by. cbv zeta. eapply hq_trans; [|apply hq_emit; reflexivity].
  eapply hq_trans; [|apply fold_hq; intros; apply try_schedule_edge_hq]. eapply hq_trans; [|apply hq_goc_res]. apply hq_emit; reflexivity.
Qed.
Lemma schedule_by_written_hq w r : hq w (schedule_by_written RC w r).
Proof.
  unfold schedule_by_written. cbv zeta. eapply hq_trans; [|apply hq_emit; reflexivity].
  eapply hq_trans; [|apply fold_hq; intros; apply try_schedule_edge_hq]. apply hq_emit; reflexivity.
Qed.
Lemma schedule_requirer_hq o w p : hq w (schedule_requirer OC o w p).
Proof.
  unfold schedule_requirer. destruct (snd p) as [[|t c st|r c st|r c st]|]; try apply hq_refl. cbv zeta.
  destruct (oc_check (OC c) o st).
  - eapply hq_trans; apply hq_emit; reflexivity.
  - eapply hq_trans; [|apply hq_queue_add]. eapply hq_trans; [|apply hq_emit; reflexivity]. eapply hq_trans; apply hq_emit; reflexivity.
Qed.
Lemma schedule_after_hq w t o : hq w (schedule_after RC OC w t o).
Proof.
  unfold schedule_after. cbv zeta. eapply hq_trans; [|apply hq_mark]. eapply hq_trans; [|apply hq_emit; reflexivity].
  eapply hq_trans; [|apply fold_hq; intros; apply schedule_requirer_hq]. eapply hq_trans; [|apply hq_emit; reflexivity].
  apply fold_hq; intros; apply schedule_by_written_hq.
Qed.

Definition HBU (fuel : nat) : Prop :=
  (forall w t, L w -> live (gr w) (tn t) = true -> HB w -> okH (bu_execute_and_schedule RC OC P fuel w t)) /\
  HMC (bu_make_consistent RC OC P fuel) /\
  (forall w t, L w -> HB w -> okH (bu_require_scheduled_now RC OC P fuel w t)).

Theorem bottom_up_H fuel : HBU fuel.
Proof.
  induction fuel as [|f [IH1 [IH2 IH3]]]; [repeat split; intros; exact Logic.I|].
  destruct (bottom_up_R RC OC P f) as [BR1 [BR2 BR3]].
  assert (HreqR : RREQ (require_bu_with OC (bu_make_consistent RC OC P f))) by (apply (require_bu_with_R RC); exact BR2).
  assert (HreqH : HREQ (require_bu_with OC (bu_make_consistent RC OC P f))) by (apply require_bu_with_H; [exact BR2|exact IH2|apply (bu_out RC OC P f)]).
  split; [|split].
  - intros w t HL Lt Hw. rewrite bes_S. apply (bind_H w); [apply execute_with_R; assumption|apply execute_with_H; assumption|].
    intros o w1 L1 _ H1. apply (HB_hq w1); [apply schedule_after_hq|exact H1].
  - intros w t HL Lt Hw. rewrite bmc_S. destruct (memN t (consistent w)); [destruct (get_task_output w t); [exact Hw|exact Logic.I]|].
    destruct ((match get_task_output w t with None => true | Some _ => false end) && negb (memN t (queue w)))%bool; [apply execute_with_H; assumption|].
    apply (bind_H w); [apply BR3; exact HL|apply IH3; assumption|]. intros r w1 L1 _ H1.
    destruct r; [exact H1|]. destruct (get_task_output w1 t); [exact H1|exact Logic.I].
  - intros w t HL Hw. rewrite rsn_S. destruct (queue w); [exact Hw|].
    destruct (pop_least_from w t) as [[m w1]|] eqn:X; [|exact Hw].
    destruct (pop_least_L RC OC P w t m w1 HL X) as [L1 [G1 Lm]].
    assert (W1 : w1 = set_queue w (removeN m (sort_queue w))) by (unfold pop_least_from in X; destruct (find _ _); inversion X; reflexivity).
    assert (H1 : HB w1) by (apply (HB_hq w); [rewrite W1; apply hq_same; reflexivity|exact Hw]).
    apply (bind_H w1); [apply BR1; [exact L1|rewrite G1; exact Lm]|apply IH1; [exact L1|rewrite G1; exact Lm|exact H1]|].
    intros o w2 L2 _ H2. destruct (N.eqb m t); [exact H2|apply IH3; assumption].
Qed.

Theorem execute_scheduled_H fuel : forall w, L w -> HB w -> okH (execute_scheduled RC OC P fuel w).
Proof.
  induction fuel as [|f IH]; intros w HL Hw; [exact Logic.I|]. rewrite es_S.
  destruct (queue_pop w) as [[t w1]|] eqn:X; [|exact Hw].
  destruct (queue_pop_L RC OC P w t w1 HL X) as [L1 [G1 Lt]].
  assert (W1 : w1 = set_queue w (removeN t (sort_queue w))) by (unfold queue_pop in X; destruct (rev (sort_queue w)); [discriminate|inversion X; reflexivity]).
  assert (H1 : HB w1) by (apply (HB_hq w); [rewrite W1; apply hq_same; reflexivity|exact Hw]).
  apply (bind_H w1); [apply (proj1 (bottom_up_R RC OC P f)); [exact L1|rewrite G1; exact Lt]|apply (proj1 (bottom_up_H f)); [exact L1|rewrite G1; exact Lt|exact H1]|].
  intros _ w2 L2 _ H2. apply IH; assumption.
Qed.

(* ---- sessions ---- *)
Variable always : ocid.

Lemma session_require_H fuel w t : L w -> HB w -> okH (session_require RC OC P always fuel w t).
Proof.
  intros HL Hw. unfold session_require, require_td.
  set (w1 := emit (set_cur w None) EBuildStart).
  assert (L1 : L w1) by (apply L_emit, L_set_cur_none; exact HL).
  assert (H1 : HB w1) by (apply (HB_hq w); [apply hq_same; reflexivity|exact Hw]).
  apply (bind_H w1); [apply (require_with_R RC); [apply make_consistent_td_R|exact L1]|
                      apply require_with_H; [apply make_consistent_td_R|apply make_consistent_td_H|apply td_out|exact L1|exact H1]|].
  intros o w2 L2 _ H2. apply (HB_hq w2); [apply hq_emit; reflexivity|exact H2].
Qed.

Lemma session_bottom_up_H fuel w ch : L w -> HB w -> okH (session_bottom_up RC OC P fuel w ch).
Proof.
  intros HL Hw. unfold session_bottom_up. cbv zeta.
  assert (L0 : L (set_queue w [])). { destruct HL as [H1 [H2 H3]]. split; [exact H1|]. split; [exact H2|intros x []]. }
  destruct (fold_affected_L RC ch _ L0) as [L1 M1]. set (w1 := fold_left (schedule_tasks_affected_by RC) ch (set_queue w [])) in *.
  assert (H1 : HB w1).
  { apply (HB_hq w); [|exact Hw]. eapply hq_trans; [apply (hq_same w (set_queue w [])); reflexivity|apply fold_hq; intros; apply schedule_tasks_affected_by_hq]. }
  set (w2 := emit (set_cur w1 None) EBuildStart).
  assert (L2 : L w2) by (apply L_emit, L_set_cur_none; exact L1).
  assert (H2 : HB w2) by (apply (HB_hq w1); [apply hq_same; reflexivity|exact H1]).
  apply (bind_H w2); [apply execute_scheduled_R; exact L2|apply execute_scheduled_H; assumption|].
  intros _ w3 L3 _ H3. apply (HB_hq w3); [apply hq_emit; reflexivity|exact H3].
Qed.
End HO.

(* Invariants over whole histories (external edits, checker-environment switches, sessions of top-down requires and
   bottom-up builds): the store invariant holds in every world a history can reach, including worlds left behind by aborts. *)
From Coq Require Import List NArith ZArith Bool Lia.
From PieV Require Import Model.Dag Model.Build Proofs.DagWF Proofs.DagPath Proofs.Inv Proofs.StoreInv.
Import ListNotations.
Open Scope N_scope.

Definition bug4 (r : sres) : Prop := r = RAbort (ABug 4).

Section H.
Variable RC : rcid -> rchecker.
Variable OC : ocid -> ochecker.
Variable Pt : task -> prog.
Variable always : ocid.

Lemma StoreOK_new_session w : StoreOK w -> StoreOK (new_session w). Proof. intros H. exact H. Qed.
Lemma StoreOK_set_cur w c : StoreOK w -> StoreOK (set_cur w c). Proof. intros H. exact H. Qed.
Lemma StoreOK_set_content w r v : StoreOK w -> StoreOK (set_content w r v). Proof. intros H. destruct v; exact H. Qed.

Lemma run_sop_ok fuel w o : StoreOK w -> bug4 (fst (run_sop RC OC Pt always fuel w o)) \/ StoreOK (snd (run_sop RC OC Pt always fuel w o)).
Proof.
  intros H. unfold run_sop. destruct o as [t|ch].
  - pose proof (session_require_ok RC OC Pt StoreOK (StoreOK_preserved RC) always (fun w => StoreOK_set_cur w None) fuel w t H) as X.
    destruct (session_require RC OC Pt always fuel w t) as [x w'|k w'|]; cbn in *.
    + right. exact X. + destruct X as [->|X]; [left; reflexivity|right; exact X]. + right. exact H.
  - pose proof (session_bottom_up_ok RC OC Pt StoreOK (StoreOK_preserved RC) (fun w => StoreOK_set_cur w None) fuel w ch H) as X.
    destruct (session_bottom_up RC OC Pt fuel w ch) as [x w'|k w'|]; cbn in *.
    + right. exact X. + destruct X as [->|X]; [left; reflexivity|right; exact X]. + right. exact H.
Qed.

Lemma run_session_ok fuel ops : forall w, StoreOK w ->
  Exists bug4 (fst (run_session RC OC Pt always fuel w ops)) \/ StoreOK (snd (run_session RC OC Pt always fuel w ops)).
Proof.
  induction ops as [|o tl IH]; intros w H; cbn [run_session]; [right; exact H|].
  pose proof (run_sop_ok fuel w o H) as X. destruct (run_sop RC OC Pt always fuel w o) as [r w'] eqn:E. cbn [fst snd] in X.
  destruct r as [x|k|].
  - destruct X as [X|X]; [discriminate|]. specialize (IH w' X). destruct (run_session RC OC Pt always fuel w' tl) as [rs w'']. cbn [fst snd] in *.
    destruct IH as [IH|IH]; [left; right; exact IH|right; exact IH].
  - cbn [fst snd]. destruct X as [X|X]; [left; left; exact X|right; exact X].
  - cbn [fst snd]. destruct X as [X|X]; [discriminate|right; exact X].
Qed.

Theorem run_history_ok fuel h : forall w, StoreOK w ->
  Exists (Exists bug4) (fst (run_history RC OC Pt always fuel w h)) \/ StoreOK (snd (run_history RC OC Pt always fuel w h)).
Proof.
  induction h as [|s tl IH]; intros w H; cbn [run_history]; [right; exact H|].
  assert (X : Exists bug4 (fst (run_step RC OC Pt always fuel w s)) \/ StoreOK (snd (run_step RC OC Pt always fuel w s))).
  { destruct s as [r v|f|ops]; cbn [run_step fst snd].
    - right. apply StoreOK_set_content. exact H.
    - right. exact H.
    - apply run_session_ok. apply StoreOK_new_session. exact H. }
  destruct (run_step RC OC Pt always fuel w s) as [r w']. cbn [fst snd] in X.
  destruct X as [X|X].
  - destruct (run_history RC OC Pt always fuel w' tl) as [rs w'']. cbn [fst]. left. left. exact X.
  - specialize (IH w' X). destruct (run_history RC OC Pt always fuel w' tl) as [rs w'']. cbn [fst snd] in *.
    destruct IH as [IH|IH]; [left; right; exact IH|right; exact IH].
Qed.

Theorem reachable_store_ok fuel h :
  ~ Exists (Exists bug4) (fst (run_history RC OC Pt always fuel init_world h)) -> StoreOK (snd (run_history RC OC Pt always fuel init_world h)).
Proof. intros N. destruct (run_history_ok fuel h init_world GOK_empty) as [X|X]; [tauto|exact X]. Qed.

End H.

(* consequences for every reachable store *)
Theorem store_single_writer w r t1 t2 :
  StoreOK w -> In t1 (writers (gr w) r) -> In t2 (writers (gr w) r) -> t1 = t2.
Proof.
  intros [_ [_ S]] H1 H2. specialize (S r). destruct (writers (gr w) r) as [|a [|b tl]]; cbn in *.
  - destruct H1.
  - destruct H1 as [<-|[]]. destruct H2 as [<-|[]]. reflexivity.
  - lia.
Qed.
Theorem store_acyclic w u : StoreOK w -> ~ path (gr w) u u.
Proof. intros [W _]. apply WF_acyclic. exact W. Qed.

(* C02, idempotence: a second session with nothing changed executes nothing and returns the same outputs.
   ValidX X w: every task of X has an output and all its recorded dependencies are accepted by their own checkers in the
   current state, requires pointing into X.  From such a world make_task_consistent of a task of X returns its cached output
   after validating (no execution, no change of store, outputs, resources); Valid.v provides ValidX at the end of every
   returning session of the static class (for the set of tasks the session made consistent). *)
From Coq Require Import List NArith ZArith Bool Lia.
From PieV Require Import Model.Dag Model.Build Proofs.DagLib Proofs.DagWF Proofs.DagPath Proofs.Inv Proofs.StoreInv Proofs.History
  Proofs.Effects Proofs.Local Proofs.Local2 Proofs.ExecInv Proofs.ExecSession Proofs.Cert Proofs.Stable Proofs.NoBug4 Proofs.Sim Proofs.NoAbort Proofs.Valid.
Import ListNotations.
Open Scope N_scope.

Section I.
Variable gen : res -> option task.
Variable ord : task -> nat.
Variable RC : rcid -> rchecker.
Variable OC : ocid -> ochecker.
Variable P : task -> prog.
Notation mc := (make_consistent_td RC OC P).

Definition DepOKX (X : list task) (w : world) (dp : dep) : Prop :=
  match dp with
  | DReserved => False
  | DRequire y c st => In y X /\ exists oy, get_task_output w y = Some oy /\ oc_check (OC c) oy st = true
  | DRead r c st | DWrite r c st => rc_check (RC c) (env w) r (get_content w r) st = Consistent
  end.
Definition ValidX (X : list task) (w : world) : Prop :=
  forall x, In x X -> (exists o, get_task_output w x = Some o) /\ forall d dp, row w x d = Some dp -> DepOKX X w dp.

(* nothing but the session memo, the event stream (no execution) and possibly fresh graph nodes changes *)
Record Quiet (w w' : world) : Prop := mkQuiet {
  qt_rows : forall a, kidsT w' a = kidsT w a /\ forall d, row w' a d = row w a d;
  qt_outs : outs w' = outs w;
  qt_content : forall r, get_content w' r = get_content w r;
  qt_env : env w' = env w;
  qt_ok : StoreOK w';
  qt_seg : exists seg, trace w' = rev seg ++ trace w /\ execs seg = [];
  qt_mono : cons_mono w w'
}.
Lemma quiet_refl w : StoreOK w -> Quiet w w.
Proof. intros H. constructor; try reflexivity; [intros a; split; reflexivity|exact H|exists []; split; reflexivity|intros x X; exact X]. Qed.
Lemma quiet_trans w1 w2 w3 : Quiet w1 w2 -> Quiet w2 w3 -> Quiet w1 w3.
Proof.
  intros [A1 A2 A3 A4 A5 [sa [A6 A6']] A7] [B1 B2 B3 B4 B5 [sb [B6 B6']] B7]. constructor.
  - intros a. destruct (A1 a) as [X Y]. destruct (B1 a) as [X' Y']. split; [congruence|intros d; rewrite Y', Y; reflexivity].
  - congruence. - intros r. rewrite B3. apply A3. - congruence. - exact B5.
  - exists (sa ++ sb). split; [rewrite B6, A6, rev_app_distr, app_assoc; reflexivity|rewrite execs_app, A6', B6'; reflexivity].
  - intros x X. apply B7, A7. exact X.
Qed.
Lemma quiet_struct w w' : gr w' = gr w -> outs w' = outs w -> rstate w' = rstate w -> env w' = env w -> StoreOK w ->
  (exists seg, trace w' = rev seg ++ trace w /\ execs seg = []) -> cons_mono w w' -> Quiet w w'.
Proof.
  intros G O R E H T M. constructor; try assumption.
  - intros a. unfold kidsT, row. rewrite G. split; reflexivity.
  - intros r. unfold get_content. rewrite R. reflexivity.
  - unfold StoreOK. rewrite G. exact H.
Qed.
Lemma quiet_goc_task w t : StoreOK w -> Quiet w (get_or_create_task_node w t).
Proof.
  intros H. constructor.
  - intros a. apply (goc_task_row w t a).
  - unfold get_or_create_task_node. destruct (live _ _); reflexivity.
  - intros r. apply content_goc_task.
  - apply env_goc_task.
  - apply goc_task_ok. exact H.
  - exists []. split; [unfold get_or_create_task_node; destruct (live _ _); reflexivity|reflexivity].
  - intros x X. unfold get_or_create_task_node. destruct (live _ _); exact X.
Qed.
Lemma quiet_emit w e : StoreOK w -> noexec e -> Quiet w (emit w e).
Proof.
  intros H N. apply quiet_struct; try reflexivity; [exact H| |intros x X; exact X].
  exists [e]. split; [reflexivity|]. destruct e; try reflexivity. destruct N.
Qed.

Lemma validx_quiet X w w' : Quiet w w' -> ValidX X w -> ValidX X w'.
Proof.
  intros Qt V x Hx. destruct (V x Hx) as [[o Ho] RV]. split.
  - exists o. unfold get_task_output. rewrite (qt_outs _ _ Qt). exact Ho.
  - intros d dp R'. rewrite (proj2 (qt_rows _ _ Qt x)) in R'. specialize (RV d dp R').
    destruct dp as [|y c st|r c st|r c st]; cbn [DepOKX] in *; try exact RV.
    + destruct RV as [A [oy [B C]]]. split; [exact A|]. exists oy. split; [unfold get_task_output; rewrite (qt_outs _ _ Qt); exact B|exact C].
    + rewrite (qt_env _ _ Qt), (qt_content _ _ Qt). exact RV.
    + rewrite (qt_env _ _ Qt), (qt_content _ _ Qt). exact RV.
Qed.

Definition IDEM (f : nat) : Prop :=
  forall X w t, ValidX X w -> In t X -> StoreOK w -> Q gen ord w -> (ord t < f)%nat ->
    exists o w', mc f w t = Done o w' /\ get_task_output w t = Some o /\ Quiet w w' /\ cur w' = cur w.

Lemma idem_chk f X t : IDEM f -> (ord t <= f)%nat ->
  forall l w, ValidX X w -> StoreOK w -> Q gen ord w -> In t X ->
    (forall d, In d l -> In d (kidsT w t)) ->
    exists w', check_deps RC OC (mc f) (map (row w t) l) w = Done true w' /\ Quiet w w' /\ cur w' = cur w.
Proof.
  intros IH Hf. induction l as [|d l' IHl]; intros w V H Hq Ht Hl; cbn [map check_deps].
  - exists w. split; [reflexivity|split; [apply quiet_refl; exact H|reflexivity]].
  - assert (Kd : In d (kidsT w t)) by (apply Hl; left; reflexivity).
    pose proof Kd as Ed. apply (wf_edata _ (proj1 H)) in Ed. unfold kidsT in Ed.
    destruct (row w t d) as [dp|] eqn:R; [|unfold row in R; contradiction].
    pose proof (proj2 (V t Ht) d dp R) as D.
    assert (NEXT : forall w1, Quiet w w1 -> cur w1 = cur w -> exists w', check_deps RC OC (mc f) (map (row w t) l') w1 = Done true w' /\ Quiet w w' /\ cur w' = cur w).
    { intros w1 Q1 Hc1.
      assert (E1 : map (row w t) l' = map (row w1 t) l') by (apply map_ext; intros d0; symmetry; apply (proj2 (qt_rows _ _ Q1 t))).
      rewrite E1.
      destruct (IHl w1 (validx_quiet X w w1 Q1 V) (qt_ok _ _ Q1)) as [w' [A [B Cc]]].
      - intros a. destruct (qt_rows _ _ Q1 a) as [KK RR]. apply (QR_same gen ord w); [exact KK|exact RR|apply Hq].
      - exact Ht.
      - intros d0 I0. rewrite (proj1 (qt_rows _ _ Q1 t)). apply Hl. right. exact I0.
      - exists w'. split; [exact A|split; [eapply quiet_trans; eassumption|congruence]]. }
    destruct dp as [|y c st|r c st|r c st]; cbn [DepOKX] in D; [contradiction| | |].
    + destruct D as [Hy [oy [Oy Ck]]].
      assert (Oyt : (ord y < ord t)%nat).
      { apply (proj1 (Hq t)). destruct H as [W [T Sw]]. destruct (T _ _ _ R) as [_ TG]. cbn in TG. subst d. exact Kd. }
      set (w1 := emit w (ECheckTaskStart y c st)).
      assert (Q1 : Quiet w w1) by (apply quiet_emit; [exact H|exact I]).
      destruct (IH X w1 y (validx_quiet X w w1 Q1 V) Hy (qt_ok _ _ Q1)) as [o2 [w2 [M2 [O2 [Q2 Hc2]]]]].
      { intros a. destruct (qt_rows _ _ Q1 a) as [KK RR]. apply (QR_same gen ord w); [exact KK|exact RR|apply Hq]. }
      { lia. }
      rewrite M2. cbn [bind].
      assert (Eo : o2 = oy).
      { change (get_task_output w y = Some o2) in O2. rewrite Oy in O2. inversion O2. reflexivity. }
      subst o2.
      rewrite Ck. cbn [negb].
      set (w3 := emit w2 (ECheckTaskEnd y c st false)).
      assert (Q3 : Quiet w w3).
      { eapply quiet_trans; [exact Q1|]. eapply quiet_trans; [exact Q2|]. apply quiet_emit; [apply (qt_ok _ _ Q2)|exact I]. }
      apply (NEXT w3 Q3). change (cur w2 = cur w). rewrite Hc2. reflexivity.
    + unfold check_resource_td. cbv zeta.
      change (env (emit w (ECheckResStart r c st))) with (env w). change (get_content (emit w (ECheckResStart r c st)) r) with (get_content w r).
      rewrite D. cbv iota beta.
      apply NEXT; [eapply quiet_trans; apply quiet_emit; try exact H; exact I|reflexivity].
    + unfold check_resource_td. cbv zeta.
      change (env (emit w (ECheckResStart r c st))) with (env w). change (get_content (emit w (ECheckResStart r c st)) r) with (get_content w r).
      rewrite D. cbv iota beta.
      apply NEXT; [eapply quiet_trans; apply quiet_emit; try exact H; exact I|reflexivity].
Qed.

Theorem idem_mc : forall f, IDEM f.
Proof.
  induction f as [|f IH]; intros X w t V Ht H Hq Hf; [lia|]. cbn [make_consistent_td].
  pose proof (quiet_goc_task w t H) as Q0. set (w0 := get_or_create_task_node w t) in *.
  pose proof (validx_quiet X w w0 Q0 V) as V0.
  destruct (proj1 (V0 t Ht)) as [o0 Ho0].
  assert (Ho : get_task_output w t = Some o0) by (unfold get_task_output in *; rewrite <- (qt_outs _ _ Q0); exact Ho0).
  destruct (memN t (consistent w0)).
  - rewrite Ho0. exists o0, w0. split; [reflexivity|split; [exact Ho|split; [exact Q0|]]]. unfold w0, get_or_create_task_node. destruct (live _ _); reflexivity.
  - rewrite Ho0. rewrite deps_of_task_map.
    assert (Q0q : Q gen ord w0) by (intros a; destruct (qt_rows _ _ Q0 a) as [KK RR]; apply (QR_same gen ord w); [exact KK|exact RR|apply Hq]).
    destruct (idem_chk f X t IH ltac:(lia) (kidsT w0 t) w0 V0 (qt_ok _ _ Q0) Q0q Ht ltac:(intros d I0; exact I0)) as [w1 [CD [Q1 Hc1]]].
    change (kids_of (gr w0) (tn t)) with (kidsT w0 t). change (fun d => get_edata (gr w0) (tn t) d) with (row w0 t).
    rewrite CD. cbn [bind].
    assert (Ho1 : get_task_output w1 t = Some o0) by (unfold get_task_output in *; rewrite (qt_outs _ _ Q1); exact Ho0).
    rewrite Ho1. exists o0, (mark_consistent w1 t). split; [reflexivity|]. split; [exact Ho|]. split.
    + eapply quiet_trans; [exact Q0|]. eapply quiet_trans; [exact Q1|].
      apply quiet_struct; try reflexivity; [apply (qt_ok _ _ Q1)|exists []; split; reflexivity|].
      intros x Xx. unfold mark_consistent. cbn [consistent set_consistent]. rewrite memN_cons, Xx. apply orb_true_r.
    + change (cur w1 = cur w). rewrite Hc1. unfold w0, get_or_create_task_node. destruct (live _ _); reflexivity.
Qed.

Variable always : ocid.

Lemma idem_session_require X fuel v t : ValidX X v -> In t X -> StoreOK v -> Q gen ord v -> (ord t < fuel)%nat ->
  exists o v', session_require RC OC P always fuel v t = Done o v' /\ get_task_output v t = Some o /\ Quiet v v'.
Proof.
  intros V Ht H Hq Hf. unfold session_require, require_td, require_with.
  set (v1 := emit (set_cur v None) EBuildStart).
  assert (Q1 : Quiet v v1).
  { apply quiet_struct; try reflexivity; [exact H|exists [EBuildStart]; split; reflexivity|intros x Xx; exact Xx]. }
  set (v1' := emit v1 (ERequireStart t always)).
  assert (Q1' : Quiet v v1') by (eapply quiet_trans; [exact Q1|apply quiet_emit; [apply (qt_ok _ _ Q1)|exact I]]).
  set (v2 := get_or_create_task_node v1' t).
  assert (Q2 : Quiet v v2) by (eapply quiet_trans; [exact Q1'|apply quiet_goc_task; apply (qt_ok _ _ Q1')]).
  assert (Hc2 : cur v2 = None) by (unfold v2, get_or_create_task_node; destruct (live _ _); reflexivity).
  unfold reserve_require_dependency. rewrite Hc2. cbn [bind].
  destruct (idem_mc fuel X v2 t (validx_quiet X v v2 Q2 V) Ht (qt_ok _ _ Q2)) as [o [v4 [M [O [Q4 Hc4']]]]].
  { intros a. destruct (qt_rows _ _ Q2 a) as [KK RR]. apply (QR_same gen ord v); [exact KK|exact RR|apply Hq]. }
  { exact Hf. }
  rewrite M. cbn [bind]. unfold update_require_dependency.
  assert (Hc4 : cur v4 = None) by (rewrite Hc4'; exact Hc2).
  change (cur (emit v4 (ERequireEnd t always (oc_stamp (OC always) o) o))) with (cur v4). rewrite Hc4. cbn [bind].
  exists o. eexists. split; [reflexivity|]. split.
  - unfold get_task_output in *. rewrite <- (qt_outs _ _ Q2). exact O.
  - eapply quiet_trans; [exact Q2|]. eapply quiet_trans; [exact Q4|].
    pose proof (quiet_emit v4 (ERequireEnd t always (oc_stamp (OC always) o) o) (qt_ok _ _ Q4) I) as Q5.
    eapply quiet_trans; [exact Q5|]. apply (quiet_emit _ EBuildEnd (qt_ok _ _ Q5) I).
Qed.

(* a whole session of requires of tasks in X *)
Theorem idem_session X fuel ops : forall v, ValidX X v -> StoreOK v -> Q gen ord v -> roots_below ord fuel ops -> (forall t, In t (roots ops) -> In t X) ->
  let r := run_session RC OC P always fuel v ops in
  Quiet v (snd r) /\ fst r = map (fun t => RDone (get_task_output v t)) (roots ops).
Proof.
  induction ops as [|op tl IH]; intros v V H Hq RB HX; cbn [run_session roots map].
  - split; [apply quiet_refl; exact H|reflexivity].
  - destruct op as [t|ch]; [|destruct RB]. destruct RB as [Hf RB]. cbn [run_sop roots map].
    destruct (idem_session_require X fuel v t V (HX t (or_introl eq_refl)) H Hq Hf) as [o [v1 [SR [O Q1]]]]. rewrite SR.
    assert (Q1q : Q gen ord v1) by (intros a; destruct (qt_rows _ _ Q1 a) as [KK RR]; apply (QR_same gen ord v); [exact KK|exact RR|apply Hq]).
    specialize (IH v1 (validx_quiet X v v1 Q1 V) (qt_ok _ _ Q1) Q1q RB (fun t0 I0 => HX t0 (or_intror I0))). cbv zeta in IH.
    destruct (run_session RC OC P always fuel v1 tl) as [rs v2]. cbn [fst snd] in *. destruct IH as [Q2 E2].
    split; [eapply quiet_trans; eassumption|]. rewrite O, E2. f_equal. apply map_ext_in. intros t0 _.
    unfold get_task_output. rewrite (qt_outs _ _ Q1). reflexivity.
Qed.
End I.

(* ---- the theorem: a second session with nothing changed executes nothing ---- *)
Section Top.
Variable gen : res -> option task.
Variable wck : rcid -> Prop.
Variable ord : task -> nat.
Variable RC : rcid -> rchecker.
Variable OC : ocid -> ochecker.
Variable P : task -> prog.
Variable sf : rcid -> res -> content -> Z.
Variable always : ocid.
Hypothesis HS : forall c env r v, rc_stamp (RC c) env r v = inl (sf c r v).
Hypothesis HWF : forall t, WFP gen wck t [] (P t).
Hypothesis HWO : forall t, WFO ord t (P t).
Hypothesis HRefl : forall c env r v, rc_check (RC c) env r v (sf c r v) = Consistent.
Hypothesis HReflO : forall c o, oc_check (OC c) o (oc_stamp (OC c) o) = true.

Lemma VC_ValidX w : J w -> VC RC OC w -> ValidX RC OC (consistent w) (new_session w).
Proof.
  intros [H [_ Co]] V x Hx. apply memN_In in Hx. split.
  - destruct (get_task_output w x) as [o|] eqn:O; [exists o; exact O|]. exfalso. apply (Co x Hx). exact O.
  - intros d dp R. pose proof (V x Hx d dp R) as D.
    destruct dp as [|y c st|r c st|r c st]; cbn [DepOK DepOKX] in *; try exact D.
    destruct D as [Y Z]. split; [apply memN_In; exact Y|exact Z].
Qed.

Theorem second_session_executes_nothing fuel h ops : hist_below ord fuel h -> roots_below ord fuel ops ->
  let w := snd (run_history RC OC P always fuel init_world h) in
  let r1 := run_session RC OC P always fuel (new_session w) ops in
  let r2 := run_session RC OC P always fuel (new_session (snd r1)) ops in
  fst r2 = fst r1 /\ execs (rev (trace (snd r2))) = [] /\ forall r, get_content (snd r2) r = get_content (snd r1) r.
Proof.
  intros HB RB w r1 r2.
  destruct (history_returns gen wck ord RC OC P sf HS HWF HWO always fuel h init_world HB J_init (Q_init gen ord)) as [_ [Jw Qw]]. fold w in Jw, Qw.
  assert (V0 : VC RC OC (new_session w)) by (intros x Xx; discriminate).
  destruct (session_V gen wck ord RC OC P sf HS HWF HWO HRefl HReflO always fuel ops (new_session w) RB (J_new_session w Jw)
              ltac:(apply (Q_same gen ord w); [reflexivity|exact Qw]) V0) as [V1 [J1 [Q1 [_ [_ [outs_ [E1 [L1 R1]]]]]]]].
  fold r1 in V1, J1, Q1, E1, R1.
  assert (HX : forall t, In t (roots ops) -> In t (consistent (snd r1))).
  { intros t It. destruct (In_nth_error _ _ It) as [i Ei].
    assert (Li : (i < length outs_)%nat) by (rewrite L1; apply nth_error_Some; congruence).
    destruct (nth_error outs_ i) as [o|] eqn:Eo; [|apply nth_error_None in Eo; lia].
    apply memN_In. apply (R1 i t o Ei Eo). }
  destruct (idem_session gen ord RC OC P always (consistent (snd r1)) fuel ops (new_session (snd r1)) (VC_ValidX (snd r1) J1 V1)
              (proj1 J1) ltac:(apply (Q_same gen ord (snd r1)); [reflexivity|exact Q1]) RB HX) as [Qt E2].
  fold r2 in Qt, E2.
  split; [|split].
  - rewrite E2, E1. clear - L1 R1. revert outs_ L1 R1. generalize (roots ops). intros l. induction l as [|t tl IH]; intros outs_ L1 R1.
    + destruct outs_; [reflexivity|discriminate].
    + destruct outs_ as [|o outs_]; [discriminate|]. cbn [map]. f_equal.
      * destruct (R1 0%nat t o eq_refl eq_refl) as [_ O]. change (get_task_output (new_session (snd r1)) t) with (get_task_output (snd r1) t). rewrite O. reflexivity.
      * apply IH; [cbn in L1; lia|]. intros i t0 o0 A B. apply (R1 (S i) t0 o0 A B).
  - destruct (qt_seg _ _ Qt) as [seg [T Ex]]. rewrite T. cbn [new_session trace]. rewrite app_nil_r, rev_involutive. exact Ex.
  - intros r. rewrite (qt_content _ _ Qt). reflexivity.
Qed.
End Top.

(* Inv.v for invariants that mention the execution events of the trace: the same principle, except that the emission of an
   event is a primitive only for the events other than EExecStart / EExecEnd (those two occur inside pr_exec_start / pr_exec_end).
   A generic invariant principle for the build interpreters: a predicate on worlds that is preserved by the primitive
   operations of the session is preserved by every top-down require, every bottom-up build, every session and every
   history -- for Done AND for Abort outcomes (the world an abort leaves behind), for all programs, checkers and fuel.
   Aborts with ABug 4 (the model's "graph search fuel exhausted / missing node") are excluded: they do not exist in the code. *)
From Coq Require Import List NArith ZArith Bool Lia.
From PieV Require Import Model.Dag Model.Build.
Import ListNotations.
Open Scope N_scope.

(* the events whose emission is a primitive of its own (everything except the two execution events, which are part of
   pr_exec_start / pr_exec_end) *)
Definition nonexec (e : event) : bool := match e with EExecStart _ | EExecEnd _ _ => false | _ => true end.

Section InvE.
Variable RC : rcid -> rchecker.
Variable OC : ocid -> ochecker.
Variable P : task -> prog.
Variable I : world -> Prop.

Definition okO {A} (m : outcome A) : Prop :=
  match m with Done _ w => I w | Abort k w => k = ABug 4 \/ I w | OutOfFuel => True end.

Record Preserved : Prop := {
  pr_emit : forall w e, nonexec e = true -> I w -> I (emit w e);
  pr_goc_task : forall w t, I w -> I (get_or_create_task_node w t);
  pr_reserve : forall w t, I w -> okO (reserve_require_dependency w t);
  pr_update : forall w t c st, I w -> okO (update_require_dependency w t c st);
  pr_read : forall w r c, I w -> okO (sess_read RC w r c);
  pr_write : forall w r c v, I w -> okO (sess_write RC w r c v);
  pr_written_to : forall w r c v, I w -> okO (sess_written_to RC w r c v);
  pr_exec_start : forall w t, I w -> I (emit (set_cur (reset_task w t) (Some t)) (EExecStart t));
  pr_exec_end : forall w w0 t o, I w -> I (set_task_output (set_cur (emit w (EExecEnd t o)) (cur (reset_task w0 t))) t o);
  pr_mark : forall w t, I w -> I (mark_consistent w t);
  pr_push_err : forall w e, I w -> I (push_err w e);
  pr_queue : forall w q, I w -> I (set_queue w q);
  pr_goc_res : forall w r, I w -> I (get_or_create_resource_node w r)
}.
Hypothesis HP : Preserved.
Ltac emitI := apply (pr_emit HP); [reflexivity|].

Lemma bind_ok {A B} (m : outcome A) (f : A -> world -> outcome B) :
  okO m -> (forall a w, I w -> okO (f a w)) -> okO (bind m f).
Proof. destruct m; cbn; intros H F; [apply F; exact H|exact H|exact Coq.Init.Logic.I]. Qed.

Lemma exec_prog_ok req :
  (forall w t c, I w -> okO (req w t c)) -> forall p w, I w -> okO (exec_prog RC OC req p w).
Proof.
  intros Hreq. induction p as [o| |t c k IH|r c k IH|r c v k IH|r c v k IH]; intros w Hw; cbn [exec_prog].
  - exact Hw.
  - right. exact Hw.
  - apply bind_ok; [apply Hreq; exact Hw|]. intros o w' Hw'. apply IH. exact Hw'.
  - apply bind_ok; [apply (pr_read HP); exact Hw|]. intros x w' Hw'. apply IH. exact Hw'.
  - apply bind_ok; [apply (pr_write HP); exact Hw|]. intros x w' Hw'. apply IH. exact Hw'.
  - apply bind_ok; [apply (pr_written_to HP); exact Hw|]. intros x w' Hw'. apply IH. exact Hw'.
Qed.

Lemma execute_with_ok req w t :
  (forall w t c, I w -> okO (req w t c)) -> I w -> okO (execute_with RC OC P req w t).
Proof.
  intros Hreq Hw. unfold execute_with. apply bind_ok.
  - apply exec_prog_ok; [exact Hreq|]. apply (pr_exec_start HP). exact Hw.
  - intros o w3 Hw3. cbn. change (cur (reset_task w t)) with (cur (reset_task w t)). apply (pr_exec_end HP). exact Hw3.
Qed.

Lemma require_with_ok mc w t c :
  (forall w t, I w -> okO (mc w t)) -> I w -> okO (require_with OC mc w t c).
Proof.
  intros Hmc Hw. unfold require_with. apply bind_ok.
  - apply (pr_reserve HP). apply (pr_goc_task HP). emitI. exact Hw.
  - intros _ w3 Hw3. apply bind_ok; [apply Hmc; exact Hw3|]. intros o w4 Hw4. apply bind_ok.
    + apply (pr_update HP). emitI. exact Hw4.
    + intros _ w6 Hw6. exact Hw6.
Qed.

Lemma check_resource_td_ok w r c st : I w -> I (snd (check_resource_td RC w r c st)).
Proof. intros Hw. unfold check_resource_td. cbn. emitI. emitI. exact Hw. Qed.

Lemma check_deps_ok mc :
  (forall w t, I w -> okO (mc w t)) -> forall ds w, I w -> okO (check_deps RC OC mc ds w).
Proof.
  intros Hmc. induction ds as [|d tl IH]; intros w Hw; cbn [check_deps]; [exact Hw|].
  destruct d as [[|t c st|r c st|r c st]|]; try (right; exact Hw).
  - apply bind_ok; [apply Hmc; emitI; exact Hw|]. intros o w2 Hw2.
    destruct (oc_check (OC c) o st); [apply IH|]; emitI; exact Hw2.
  - pose proof (check_resource_td_ok w r c st Hw) as X. destruct (check_resource_td RC w r c st) as [[| |e] w1]; cbn in X.
    + apply IH. exact X. + exact X. + apply (pr_push_err HP). exact X.
  - pose proof (check_resource_td_ok w r c st Hw) as X. destruct (check_resource_td RC w r c st) as [[| |e] w1]; cbn in X.
    + apply IH. exact X. + exact X. + apply (pr_push_err HP). exact X.
Qed.

Theorem make_consistent_td_ok fuel : forall w t, I w -> okO (make_consistent_td RC OC P fuel w t).
Proof.
  induction fuel as [|f IH]; intros w t Hw; cbn [make_consistent_td]; [exact Coq.Init.Logic.I|].
  assert (H0 : I (get_or_create_task_node w t)) by (apply (pr_goc_task HP); exact Hw).
  set (w0 := get_or_create_task_node w t) in *.
  destruct (memN t (consistent w0)).
  - destruct (get_task_output w0 t); [exact H0|right; exact H0].
  - assert (Hreq : forall w t c, I w -> okO (require_with OC (make_consistent_td RC OC P f) w t c)).
    { intros w' t' c' Hw'. apply require_with_ok; [exact IH|exact Hw']. }
    destruct (get_task_output w0 t).
    + apply bind_ok; [apply check_deps_ok; [exact IH|exact H0]|]. intros ok w1 Hw1.
      destruct (if ok then get_task_output w1 t else None).
      * apply (pr_mark HP). exact Hw1.
      * apply bind_ok; [apply execute_with_ok; assumption|]. intros o w2 Hw2. apply (pr_mark HP). exact Hw2.
    + apply bind_ok; [apply execute_with_ok; assumption|]. intros o w2 Hw2. apply (pr_mark HP). exact Hw2.
Qed.

Theorem require_td_ok fuel w t c : I w -> okO (require_td RC OC P fuel w t c).
Proof. intros Hw. unfold require_td. apply require_with_ok; [apply make_consistent_td_ok|exact Hw]. Qed.

(* ---- bottom-up ---- *)
Lemma queue_add_ok w t : I w -> I (queue_add w t).
Proof. intros Hw. unfold queue_add. destruct (memN t (queue w)); [exact Hw|apply (pr_queue HP); exact Hw]. Qed.

Lemma try_schedule_ok w t r c st : I w -> I (try_schedule RC w t r c st).
Proof.
  intros Hw. unfold try_schedule. destruct (rc_check _ _ _ _ _).
  - emitI. emitI. exact Hw.
  - apply queue_add_ok. repeat emitI. exact Hw.
  - apply queue_add_ok. emitI. apply (pr_push_err HP). repeat emitI. exact Hw.
Qed.

Lemma try_schedule_edge_ok b w p : I w -> I (try_schedule_edge RC b w p).
Proof.
  intros Hw. unfold try_schedule_edge. destruct (snd p) as [[| | |]|]; try exact Hw.
  - apply try_schedule_ok. exact Hw.
  - destruct b; [exact Hw|apply try_schedule_ok; exact Hw].
Qed.
Lemma fold_try_ok b l : forall w, I w -> I (fold_left (try_schedule_edge RC b) l w).
Proof. induction l as [|p tl IH]; intros w Hw; cbn; [exact Hw|]. apply IH. apply try_schedule_edge_ok. exact Hw. Qed.

Lemma schedule_tasks_affected_by_ok w r : I w -> I (schedule_tasks_affected_by RC w r).
Proof.
  intros Hw. unfold schedule_tasks_affected_by. emitI. apply fold_try_ok. apply (pr_goc_res HP). emitI. exact Hw.
Qed.

Lemma schedule_after_ok w t o : I w -> I (schedule_after RC OC w t o).
Proof.
  intros Hw. unfold schedule_after. apply (pr_mark HP). emitI.
  assert (A : forall l w', I w' -> I (fold_left (schedule_requirer OC o) l w')).
  { induction l as [|p tl IH]; intros w' Hw'; cbn; [exact Hw'|]. apply IH. unfold schedule_requirer.
    destruct (snd p) as [[| | |]|]; try exact Hw'. destruct (oc_check _ _ _).
    - repeat emitI. exact Hw'.
    - apply queue_add_ok. repeat emitI. exact Hw'. }
  apply A. emitI.
  assert (B : forall l w', I w' -> I (fold_left (schedule_by_written RC) l w')).
  { induction l as [|r tl IH]; intros w' Hw'; cbn; [exact Hw'|]. apply IH. unfold schedule_by_written.
    emitI. apply fold_try_ok. emitI. exact Hw'. }
  apply B. exact Hw.
Qed.

Lemma require_bu_with_ok mc w t c :
  (forall w t, I w -> okO (mc w t)) -> I w -> okO (require_bu_with OC mc w t c).
Proof.
  intros Hmc Hw. unfold require_bu_with. apply bind_ok; [apply require_with_ok; assumption|].
  intros o w' Hw'. apply (pr_mark HP). exact Hw'.
Qed.

Lemma queue_pop_ok w t w' : I w -> queue_pop w = Some (t, w') -> I w'.
Proof. unfold queue_pop. destruct (rev (sort_queue w)); [discriminate|]. intros Hw H. inversion H; subst. apply (pr_queue HP). exact Hw. Qed.
Lemma pop_least_ok w s t w' : I w -> pop_least_from w s = Some (t, w') -> I w'.
Proof. unfold pop_least_from. destruct (find _ _); [|discriminate]. intros Hw H. inversion H; subst. apply (pr_queue HP). exact Hw. Qed.

Theorem bottom_up_ok fuel :
  (forall w t, I w -> okO (bu_execute_and_schedule RC OC P fuel w t)) /\
  (forall w t, I w -> okO (bu_make_consistent RC OC P fuel w t)) /\
  (forall w t, I w -> okO (bu_require_scheduled_now RC OC P fuel w t)).
Proof.
  induction fuel as [|f [IH1 [IH2 IH3]]]; [repeat split; intros; exact Coq.Init.Logic.I|].
  assert (Hreq : forall w t c, I w -> okO (require_bu_with OC (bu_make_consistent RC OC P f) w t c)).
  { intros w t c Hw. apply require_bu_with_ok; assumption. }
  repeat split; intros w t Hw.
  - cbn [bu_execute_and_schedule]. apply bind_ok; [apply execute_with_ok; assumption|].
    intros o w1 Hw1. apply schedule_after_ok. exact Hw1.
  - cbn [bu_make_consistent]. destruct (memN t (consistent w)).
    + destruct (get_task_output w t); [exact Hw|right; exact Hw].
    + destruct ((match get_task_output w t with None => true | Some _ => false end) && negb (memN t (queue w)))%bool;
        [apply execute_with_ok; assumption|].
      apply bind_ok; [apply IH3; exact Hw|]. intros r w1 Hw1. destruct r; [exact Hw1|].
      destruct (get_task_output w1 t); [exact Hw1|right; exact Hw1].
  - cbn [bu_require_scheduled_now]. destruct (queue w); [exact Hw|].
    destruct (pop_least_from w t) as [[m w1]|] eqn:X; [|exact Hw].
    apply bind_ok; [apply IH1; eapply pop_least_ok; eassumption|]. intros o w2 Hw2.
    destruct (N.eqb m t); [exact Hw2|apply IH3; exact Hw2].
Qed.

Theorem execute_scheduled_ok fuel : forall w, I w -> okO (execute_scheduled RC OC P fuel w).
Proof.
  induction fuel as [|f IH]; intros w Hw; cbn [execute_scheduled]; [exact Coq.Init.Logic.I|].
  destruct (queue_pop w) as [[t w1]|] eqn:X; [|exact Hw].
  apply bind_ok; [apply (proj1 (bottom_up_ok f)); eapply queue_pop_ok; eassumption|].
  intros _ w2 Hw2. apply IH. exact Hw2.
Qed.

(* ---- sessions ---- *)
Variable always : ocid.
Hypothesis pr_set_cur_none : forall w, I w -> I (set_cur w None).
Hypothesis pr_new_session : forall w, I w -> I (new_session w).

Theorem session_require_ok fuel w t : I w -> okO (session_require RC OC P always fuel w t).
Proof.
  intros Hw. unfold session_require. apply bind_ok.
  - apply require_td_ok. emitI. apply pr_set_cur_none. exact Hw.
  - intros o w2 Hw2. emitI. exact Hw2.
Qed.

Theorem session_bottom_up_ok fuel w ch : I w -> okO (session_bottom_up RC OC P fuel w ch).
Proof.
  intros Hw. unfold session_bottom_up. apply bind_ok.
  - apply execute_scheduled_ok. emitI. apply pr_set_cur_none.
    assert (A : forall l w', I w' -> I (fold_left (schedule_tasks_affected_by RC) l w')).
    { induction l as [|r tl IH]; intros w' Hw'; cbn; [exact Hw'|]. apply IH. apply schedule_tasks_affected_by_ok. exact Hw'. }
    apply A. apply (pr_queue HP). exact Hw.
  - intros _ w3 Hw3. emitI. exact Hw3.
Qed.

End InvE.

(* C02, justification of executions in top-down builds, for all programs, checkers and stores satisfying the invariants:
   - a task that has an output and whose recorded dependencies all validate is reused: it is NOT executed (the tasks
     executed meanwhile are nested ones, never the task itself), its cached output is returned;
   - validation answers "inconsistent" only directly after the dependency's own checker reported so for one of the
     recorded dependencies (the failing end event is the last event of the stream).
   Together with the shape of make_task_consistent: a task is executed only if it has no output (new, or its last
   execution aborted) or a dependency recorded by its last execution was reported inconsistent by its own checker. *)
From Coq Require Import List NArith ZArith Bool Lia.
From PieV Require Import Model.Dag Model.Build Proofs.DagLib Proofs.DagWF Proofs.DagPath Proofs.Inv Proofs.StoreInv
  Proofs.Effects Proofs.ExecInv Proofs.ExecSession.
Import ListNotations.
Open Scope N_scope.

Definition failed (d : option dep) (e : event) : Prop :=
  match d with
  | Some (DRequire x c st) => e = ECheckTaskEnd x c st true
  | Some (DRead r c st) | Some (DWrite r c st) => exists xx, xx <> Consistent /\ e = ECheckResEnd r c st xx
  | _ => False
  end.

Section Jf.
Variable RC : rcid -> rchecker.
Variable OC : ocid -> ochecker.
Variable P : task -> prog.

Lemma check_deps_false mc ds : forall w w', check_deps RC OC mc ds w = Done false w' ->
  exists d e, In d ds /\ failed d e /\ hd_error (trace w') = Some e.
Proof.
  induction ds as [|d tl IH]; intros w w' H; cbn [check_deps] in H; [discriminate|].
  destruct d as [[|x c st|r c st|r c st]|]; try discriminate.
  - destruct (mc (emit w (ECheckTaskStart x c st)) x) as [o w2|k w2|]; cbn [bind] in H; try discriminate.
    destruct (oc_check (OC c) o st) eqn:OK.
    + destruct (IH _ _ H) as [d [e [A [B C]]]]. exists d, e. split; [right; exact A|split; assumption].
    + inversion H; subst. exists (Some (DRequire x c st)), (ECheckTaskEnd x c st true). split; [left; reflexivity|]. split; reflexivity.
  - unfold check_resource_td in H. cbv zeta in H.
    destruct (rc_check (RC c) (env (emit w (ECheckResStart r c st))) r (get_content (emit w (ECheckResStart r c st)) r) st) as [| |e] eqn:X.
    + destruct (IH _ _ H) as [d [e [A [B C]]]]. exists d, e. split; [right; exact A|split; assumption].
    + inversion H; subst. exists (Some (DRead r c st)), (ECheckResEnd r c st Inconsistent).
      split; [left; reflexivity|]. split; [exists Inconsistent; split; [discriminate|reflexivity]|reflexivity].
    + inversion H; subst. exists (Some (DRead r c st)), (ECheckResEnd r c st (CErr e)).
      split; [left; reflexivity|]. split; [exists (CErr e); split; [discriminate|reflexivity]|reflexivity].
  - unfold check_resource_td in H. cbv zeta in H.
    destruct (rc_check (RC c) (env (emit w (ECheckResStart r c st))) r (get_content (emit w (ECheckResStart r c st)) r) st) as [| |e] eqn:X.
    + destruct (IH _ _ H) as [d [e [A [B C]]]]. exists d, e. split; [right; exact A|split; assumption].
    + inversion H; subst. exists (Some (DWrite r c st)), (ECheckResEnd r c st Inconsistent).
      split; [left; reflexivity|]. split; [exists Inconsistent; split; [discriminate|reflexivity]|reflexivity].
    + inversion H; subst. exists (Some (DWrite r c st)), (ECheckResEnd r c st (CErr e)).
      split; [left; reflexivity|]. split; [exists (CErr e); split; [discriminate|reflexivity]|reflexivity].
Qed.

(* reuse: all recorded dependencies validate => cached output returned, the task itself is not executed *)
Theorem mc_reuse f w t St o0 w1 :
  StoreOK w -> Inv2 w -> Chain w St -> entry_ok w St t ->
  let w0 := get_or_create_task_node w t in
  memN t (consistent w0) = false -> get_task_output w0 t = Some o0 ->
  check_deps RC OC (make_consistent_td RC OC P f) (deps_of_task w0 t) w0 = Done true w1 ->
  make_consistent_td RC OC P (Datatypes.S f) w t = Done o0 (mark_consistent w1 t) /\
  exists seg, trace w1 = rev seg ++ trace w /\ ~ In t (execs seg).
Proof.
  intros H J0 C E w0 Hm Ho CD.
  pose proof (goc_task_post St w t H) as P0. fold w0 in P0.
  pose proof (po_ok _ _ _ _ _ _ P0) as H0. pose proof (po_inv _ _ _ _ _ _ P0 J0) as J1.
  pose proof (chain_post_all w w0 St [] [] C P0) as C0.
  assert (E0 : entry_ok w0 St t).
  { destruct St as [|top tl]; [exact I|]. cbn in *. unfold edge in *. rewrite (po_frame _ _ _ _ _ _ P0) by (left; reflexivity). exact E. }
  pose proof (entry_not_in w0 St t (proj1 H0) C0 E0) as Ht.
  assert (C1 : Chain w0 (t :: St)).
  { destruct C0 as [N0 K0]. split; [constructor; assumption|]. destruct St as [|top tl]; [exact I|]. split; [exact E0|exact K0]. }
  pose proof (check_deps_spec RC OC (make_consistent_td RC OC P f) t St (make_consistent_td_spec RC OC P f)
                (deps_of_task w0 t) w0 H0 J1 C1 (deps_ok w0 t o0 H0 J1 Ho)) as SP.
  rewrite CD in SP. cbn [okP] in SP. destruct SP as [[s1 P1] _].
  assert (Ho1 : get_task_output w1 t = Some o0).
  { rewrite (po_oframe _ _ _ _ _ _ P1) by (left; left; reflexivity). exact Ho. }
  split.
  - cbn [make_consistent_td]. fold w0. rewrite Hm, Ho, CD. cbn [bind]. rewrite Ho1. reflexivity.
  - exists s1. split.
    + rewrite (po_seg _ _ _ _ _ _ P1). rewrite (po_seg _ _ _ _ _ _ P0). cbn [rev app]. reflexivity.
    + intros X. destruct (po_fresh _ _ _ _ _ _ P1 t X) as [Y _]. apply Y. left. reflexivity.
Qed.
End Jf.

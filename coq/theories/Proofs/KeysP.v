(* C15: the store maps keys to nodes as an injective function of (concrete type, value), whatever the hashes do. *)
From Coq Require Import List NArith Bool Lia.
From PieV Require Import Model.Keys.
Import ListNotations.
Open Scope N_scope.

Lemma eq_any_spec a b : eq_any a b = true <-> a = b.
Proof.
  unfold eq_any. destruct a, b; cbn. rewrite andb_true_iff, !N.eqb_eq.
  split; [intros [A B]; subst; reflexivity|intros H; inversion H; split; reflexivity].
Qed.
Lemma eq_any_refl a : eq_any a a = true. Proof. apply eq_any_spec. reflexivity. Qed.

Lemma bucket_set_same m h b : bucket (set_bucket m h b) h = b.
Proof.
  induction m as [|[h' b'] tl IH]; cbn; [rewrite N.eqb_refl; reflexivity|].
  destruct (N.eqb h' h) eqn:E; cbn; [rewrite N.eqb_refl; reflexivity|]. rewrite E. exact IH.
Qed.
Lemma bucket_set_other m h h' b : h <> h' -> bucket (set_bucket m h b) h' = bucket m h'.
Proof.
  intros Hne. induction m as [|[h0 b0] tl IH]; cbn.
  - destruct (N.eqb h h') eqn:E; [apply N.eqb_eq in E; congruence|reflexivity].
  - destruct (N.eqb h0 h) eqn:E; cbn.
    + apply N.eqb_eq in E. subst h0. destruct (N.eqb h h') eqn:E2; [apply N.eqb_eq in E2; congruence|reflexivity].
    + destruct (N.eqb h0 h'); [reflexivity|exact IH].
Qed.

Lemma find_app_none {A} (f : A -> bool) l1 l2 : find f l1 = None -> find f (l1 ++ l2) = find f l2.
Proof. induction l1 as [|a tl IH]; cbn; [reflexivity|]. destruct (f a); [discriminate|exact IH]. Qed.
Lemma find_app_some {A} (f : A -> bool) l1 l2 x : find f l1 = Some x -> find f (l1 ++ l2) = Some x.
Proof. induction l1 as [|a tl IH]; cbn; [discriminate|]. destruct (f a); [tauto|exact IH]. Qed.

(* inserting a key that is not present: that key now maps to the node, every other key is unaffected --
   also when the other key has the same hash (same value, different type) *)
Lemma klookup_insert m k n k' :
  klookup m k = None ->
  klookup (kinsert m k n) k' = if eq_any k k' then Some n else klookup m k'.
Proof.
  intros Hnone. unfold klookup, kinsert in *.
  destruct (N.eq_dec (hash_obj k) (hash_obj k')) as [Hh|Hh].
  - rewrite <- Hh. rewrite bucket_set_same.
    destruct (find (fun p => eq_any (fst p) k') (bucket m (hash_obj k))) as [p|] eqn:Ef.
    + rewrite (find_app_some _ _ _ _ Ef).
      destruct (eq_any k k') eqn:Ek; [|reflexivity].
      apply eq_any_spec in Ek. subst k'. rewrite Ef in Hnone. discriminate.
    + rewrite find_app_none by exact Ef. cbn.
      destruct (eq_any k k'); reflexivity.
  - rewrite bucket_set_other by exact Hh.
    destruct (eq_any k k') eqn:Ek; [|reflexivity].
    apply eq_any_spec in Ek. subst k'. congruence.
Qed.

(* store invariant: nodes are below the counter, and two keys share a node only if they are the same (type, value) *)
Definition KInv (s : kmap * N) : Prop :=
  (forall k n, klookup (fst s) k = Some n -> n < snd s) /\
  (forall k k' n, klookup (fst s) k = Some n -> klookup (fst s) k' = Some n -> k = k').

Lemma KInv_init : KInv ([], 0).
Proof. split; intros; cbn in *; discriminate. Qed.

Lemma get_or_create_spec s k : KInv s ->
  let '(n, s') := get_or_create s k in
  KInv s' /\ klookup (fst s') k = Some n /\ snd s <= snd s' /\
  (forall k' n', klookup (fst s) k' = Some n' -> klookup (fst s') k' = Some n') /\
  (klookup (fst s) k = None -> n = snd s).
Proof.
  intros [Hlt Hinj]. unfold get_or_create. destruct (klookup (fst s) k) as [n|] eqn:E.
  - split; [split; assumption|]. split; [exact E|]. split; [lia|]. split; [tauto|discriminate].
  - unfold KInv. cbn [fst snd]. split.
    + split.
      * intros k' n' H. rewrite klookup_insert in H by exact E.
        destruct (eq_any k k'); [inversion H; lia|]. specialize (Hlt _ _ H). lia.
      * intros k1 k2 n' H1 H2. rewrite klookup_insert in H1, H2 by exact E.
        destruct (eq_any k k1) eqn:E1; destruct (eq_any k k2) eqn:E2.
        -- apply eq_any_spec in E1, E2. congruence.
        -- inversion H1; subst. specialize (Hlt _ _ H2). lia.
        -- inversion H2; subst. specialize (Hlt _ _ H1). lia.
        -- eapply Hinj; eassumption.
    + split; [rewrite klookup_insert by exact E; rewrite eq_any_refl; reflexivity|].
      split; [lia|]. split; [|reflexivity].
      intros k' n' H. rewrite klookup_insert by exact E.
      destruct (eq_any k k') eqn:Ek; [|exact H]. apply eq_any_spec in Ek. subst. congruence.
Qed.

(* the node handed out for every key of a sequence is recorded, and stays recorded *)
Lemma assign_from_spec ks : forall s, KInv s ->
  forall i k, nth_error ks i = Some k ->
  exists n, nth_error (assign_from s ks) i = Some n /\
            (forall n0, klookup (fst s) k = Some n0 -> n = n0) /\
            (klookup (fst s) k = None -> snd s <= n).
Proof.
  induction ks as [|k0 tl IH]; intros s HI i k Hi; [destruct i; discriminate|].
  cbn [assign_from]. pose proof (get_or_create_spec s k0 HI) as Hs.
  destruct (get_or_create s k0) as [n0 s'] eqn:Eg. destruct Hs as [HI' [Hk0 [Hle [Hmono Hnew]]]].
  destruct i as [|i]; cbn in *.
  - inversion Hi; subst k0. exists n0. split; [reflexivity|]. split.
    + intros n1 H1. specialize (Hmono _ _ H1). congruence.
    + intros Hn. rewrite (Hnew Hn). lia.
  - destruct (IH s' HI' i k Hi) as [n [Hn [Hsame Hfresh]]]. exists n. split; [exact Hn|]. split.
    + intros n1 H1. apply Hsame. apply Hmono. exact H1.
    + intros Hnone. destruct (klookup (fst s') k) as [n1|] eqn:E1.
      * rewrite (Hsame n1 eq_refl).
        (* k was created by k0's step *)
        destruct (klookup (fst s) k0) as [x|] eqn:E0.
        -- unfold get_or_create in Eg. rewrite E0 in Eg. inversion Eg; subst. congruence.
        -- unfold get_or_create in Eg. rewrite E0 in Eg. inversion Eg; subst. cbn in E1.
           rewrite klookup_insert in E1 by exact E0. destruct (eq_any k0 k); [inversion E1; lia|congruence].
      * specialize (Hfresh eq_refl). lia.
Qed.

(* MAIN: two positions of a key sequence get the same node exactly when the keys have the same type and value *)
Theorem assign_same_iff ks : forall s, KInv s -> forall i j ki kj ni nj,
  nth_error ks i = Some ki -> nth_error ks j = Some kj ->
  nth_error (assign_from s ks) i = Some ni -> nth_error (assign_from s ks) j = Some nj ->
  (ni = nj <-> ki = kj).
Proof.
  induction ks as [|k0 tl IH]; intros s HI i j ki kj ni nj Hi Hj Hni Hnj; [destruct i; discriminate|].
  cbn [assign_from] in *. pose proof (get_or_create_spec s k0 HI) as Hs.
  destruct (get_or_create s k0) as [n0 s'] eqn:Eg. destruct Hs as [HI' [Hk0 [Hle [Hmono Hnew]]]].
  assert (Hhead : forall m km nm, nth_error tl m = Some km -> nth_error (assign_from s' tl) m = Some nm -> (n0 = nm <-> k0 = km)).
  { intros m km nm Hm Hnm. destruct (assign_from_spec tl s' HI' m km Hm) as [n [Hn [Hsame Hfresh]]].
    rewrite Hn in Hnm. inversion Hnm; subst nm. split.
    - intros ->. destruct (klookup (fst s') km) as [x|] eqn:E.
      + rewrite (Hsame x eq_refl) in *. destruct HI' as [_ Hinj]. eapply Hinj; eassumption.
      + specialize (Hfresh eq_refl). destruct HI' as [Hlt _]. specialize (Hlt _ _ Hk0). lia.
    - intros <-. symmetry. apply Hsame. exact Hk0. }
  destruct i as [|i]; destruct j as [|j]; cbn in *.
  - inversion Hi; inversion Hj; inversion Hni; inversion Hnj; subst. tauto.
  - inversion Hi; inversion Hni; subst. eapply Hhead; eassumption.
  - inversion Hj; inversion Hnj; subst. split; intros H; symmetry; eapply Hhead; try eassumption; symmetry; exact H.
  - eapply IH; eassumption.
Qed.

(* Operation-level theorems about the pie model: what each context operation decides, for ALL worlds, checkers and
   programs (no induction over executions here; see Inv.v for invariants over whole builds). *)
From Coq Require Import List NArith ZArith Bool Lia.
From PieV Require Import Model.Dag Model.Build.
Import ListNotations.
Open Scope N_scope.

Section Local.
Variable RC : rcid -> rchecker.
Variable OC : ocid -> ochecker.
Variable P : task -> prog.

(* the world in which a read / write is validated: start event emitted, resource node created *)
Definition at_read (w : world) (r : res) (c : rcid) : world := get_or_create_resource_node (emit w (EReadStart r c)) r.
Definition at_write (w : world) (r : res) (c : rcid) : world := get_or_create_resource_node (emit w (EWriteStart r c)) r.

Lemma rstate_goc w r : rstate (get_or_create_resource_node w r) = rstate w.
Proof. unfold get_or_create_resource_node. destruct (live _ _); reflexivity. Qed.
Lemma cur_goc w r : cur (get_or_create_resource_node w r) = cur w.
Proof. unfold get_or_create_resource_node. destruct (live _ _); reflexivity. Qed.
Lemma env_goc w r : env (get_or_create_resource_node w r) = env w.
Proof. unfold get_or_create_resource_node. destruct (live _ _); reflexivity. Qed.
Lemma outs_goc w r : outs (get_or_create_resource_node w r) = outs w.
Proof. unfold get_or_create_resource_node. destruct (live _ _); reflexivity. Qed.

(* ---------- C05: hidden dependencies ---------- *)
Lemma sess_read_hidden w t r c wr :
  cur w = Some t ->
  get_task_writing_to_resource (at_read w r c) r = Some wr ->
  contains_transitive_task_dependency (at_read w r c) t wr <> Some true ->
  sess_read RC w r c = Abort AHidden (at_read w r c) /\ rstate (at_read w r c) = rstate w /\ outs (at_read w r c) = outs w.
Proof.
  intros Hc Hw Hn. unfold sess_read. rewrite Hc. fold (at_read w r c).
  unfold hidden_read_check. rewrite Hw.
  destruct (contains_transitive_task_dependency (at_read w r c) t wr) as [[|]|] eqn:E; try congruence;
  (split; [reflexivity|]; unfold at_read; rewrite rstate_goc, outs_goc; split; reflexivity).
Qed.

(* and conversely a read aborts with a hidden dependency only for that reason *)
Lemma sess_read_hidden_only w r c w' :
  sess_read RC w r c = Abort AHidden w' ->
  exists t wr, cur w = Some t /\ get_task_writing_to_resource (at_read w r c) r = Some wr /\
               contains_transitive_task_dependency (at_read w r c) t wr <> Some true.
Proof.
  unfold sess_read. destruct (cur w) as [t|] eqn:Hc; [|discriminate].
  fold (at_read w r c). unfold hidden_read_check.
  destruct (get_task_writing_to_resource (at_read w r c) r) as [wr|] eqn:Hw.
  - destruct (contains_transitive_task_dependency (at_read w r c) t wr) as [[|]|] eqn:E.
    + destruct (rc_stamp _ _ _ _); [|discriminate].
      destruct (add_dependency _ _ _ _) as [[| |] ?]; discriminate.
    + intros _. exists t, wr. repeat split; congruence.
    + intros _. exists t, wr. repeat split; congruence.
  - destruct (rc_stamp _ _ _ _); [|discriminate].
    destruct (add_dependency _ _ _ _) as [[| |] ?]; discriminate.
Qed.

Lemma validate_write_overlap w t r wr :
  get_task_writing_to_resource w r = Some wr -> validate_write w t r = Some AOverlap.
Proof. intros H. unfold validate_write. rewrite H. reflexivity. Qed.

Lemma validate_write_hidden w t r rd :
  get_task_writing_to_resource w r = None ->
  In rd (get_tasks_reading_from_resource w r) ->
  contains_transitive_task_dependency w rd t <> Some true ->
  validate_write w t r = Some AHidden.
Proof.
  intros Hw Hin Hn. unfold validate_write. rewrite Hw.
  assert (E : existsb (fun rd0 => match contains_transitive_task_dependency w rd0 t with Some true => false | _ => true end)
                      (get_tasks_reading_from_resource w r) = true).
  { apply existsb_exists. exists rd. split; [exact Hin|].
    destruct (contains_transitive_task_dependency w rd t) as [[|]|]; congruence. }
  rewrite E. reflexivity.
Qed.

Lemma validate_write_none w t r :
  validate_write w t r = None <->
  get_task_writing_to_resource w r = None /\
  forall rd, In rd (get_tasks_reading_from_resource w r) -> contains_transitive_task_dependency w rd t = Some true.
Proof.
  unfold validate_write. destruct (get_task_writing_to_resource w r) as [wr|].
  - split; [discriminate|intros [H _]; discriminate].
  - destruct (existsb _ _) eqn:E.
    + split; [discriminate|]. intros [_ H]. apply existsb_exists in E. destruct E as [rd [Hin Hb]].
      rewrite (H rd Hin) in Hb. discriminate.
    + split; [|reflexivity]. intros _. split; [reflexivity|]. intros rd Hin.
      destruct (contains_transitive_task_dependency w rd t) as [[|]|] eqn:E2; try reflexivity;
      (assert (X : existsb (fun rd0 => match contains_transitive_task_dependency w rd0 t with Some true => false | _ => true end)
                          (get_tasks_reading_from_resource w r) = true)
        by (apply existsb_exists; exists rd; split; [exact Hin|rewrite E2; reflexivity]); congruence).
Qed.

(* a rejected Context::write leaves the resource untouched *)
Lemma sess_write_rejected w t r c v k :
  cur w = Some t -> validate_write (at_write w r c) t r = Some k ->
  sess_write RC w r c v = Abort k (at_write w r c) /\ rstate (at_write w r c) = rstate w.
Proof.
  intros Hc Hv. unfold sess_write. rewrite Hc. fold (at_write w r c). rewrite Hv.
  split; [reflexivity|]. unfold at_write. rewrite rstate_goc. reflexivity.
Qed.

Lemma sess_written_to_rejected w t r c v k :
  cur w = Some t -> validate_write (at_write (set_content w r v) r c) t r = Some k ->
  sess_written_to RC w r c v = Abort k (at_write (set_content w r v) r c).
Proof.
  intros Hc Hv. unfold sess_written_to.
  assert (Hc' : cur (set_content w r v) = Some t) by (destruct v; exact Hc).
  rewrite Hc'. fold (at_write (set_content w r v) r c). rewrite Hv. reflexivity.
Qed.

(* a write aborts with overlap / hidden only when validate_write says so *)
Lemma sess_write_abort_only w r c v k w' :
  sess_write RC w r c v = Abort k w' -> k = AOverlap \/ k = AHidden ->
  exists t, cur w = Some t /\ validate_write (at_write w r c) t r = Some k.
Proof.
  unfold sess_write. destruct (cur w) as [t|] eqn:Hc; [|discriminate].
  fold (at_write w r c). destruct (validate_write (at_write w r c) t r) as [k'|] eqn:Hv.
  - intros H _. inversion H; subst. exists t. split; [reflexivity|exact Hv].
  - destruct (rc_stamp _ _ _ _); [|discriminate].
    destruct (add_dependency _ _ _ _) as [[| |] ?]; intros H [K|K]; inversion H; subst; discriminate.
Qed.

(* ---------- C07: a cycle is diagnosed at reservation, before make_task_consistent is entered ---------- *)
Definition at_require (w : world) (t : task) (c : ocid) : world := get_or_create_task_node (emit w (ERequireStart t c)) t.

Lemma require_cycle_aborts mc w src t c :
  cur w = Some src ->
  fst (add_edge (gr (at_require w t c)) (tn src) (tn t) DReserved) = AErr CycleDetected ->
  require_with OC mc w t c =
  Abort ACycle (set_gr (at_require w t c) (snd (add_edge (gr (at_require w t c)) (tn src) (tn t) DReserved))).
Proof.
  intros Hc He. unfold require_with. fold (at_require w t c).
  unfold reserve_require_dependency.
  assert (Hc' : cur (at_require w t c) = Some src).
  { unfold at_require, get_or_create_task_node. destruct (live _ _); exact Hc. }
  rewrite Hc'. unfold add_dependency.
  destruct (add_edge (gr (at_require w t c)) (tn src) (tn t) DReserved) as [r g'] eqn:E.
  cbn [fst snd] in *. subst r. reflexivity.
Qed.

(* ---------- C18: checker errors during validation ---------- *)
Lemma check_deps_app mc ds1 ds2 w w1 :
  check_deps RC OC mc ds1 w = Done true w1 ->
  check_deps RC OC mc (ds1 ++ ds2) w = check_deps RC OC mc ds2 w1.
Proof.
  revert w. induction ds1 as [|d tl IH]; intros w H.
  - cbn in H. inversion H. reflexivity.
  - cbn [app]. cbn [check_deps] in *.
    destruct d as [[|t c st|r c st|r c st]|]; try discriminate.
    + unfold bind in *. destruct (mc (emit w (ECheckTaskStart t c st)) t) as [o w2| |]; try discriminate.
      destruct (oc_check (OC c) o st); [|discriminate]. apply IH. exact H.
    + destruct (check_resource_td RC w r c st) as [[| |e] w2]; try discriminate. apply IH. exact H.
    + destruct (check_resource_td RC w r c st) as [[| |e] w2]; try discriminate. apply IH. exact H.
Qed.

Lemma check_resource_td_eq w r c st :
  check_resource_td RC w r c st =
  (rc_check (RC c) (env w) r (get_content w r) st,
   emit (emit w (ECheckResStart r c st)) (ECheckResEnd r c st (rc_check (RC c) (env w) r (get_content w r) st))).
Proof. reflexivity. Qed.

Definition res_dep (d : dep) : option (res * rcid * Z) :=
  match d with DRead r c st | DWrite r c st => Some (r, c, st) | _ => None end.

(* a resource dependency whose checker errs: validation stops with "inconsistent", the error is reported, no abort *)
Lemma check_deps_error mc d r c st tl w e :
  res_dep d = Some (r, c, st) ->
  rc_check (RC c) (env w) r (get_content w r) st = CErr e ->
  check_deps RC OC mc (Some d :: tl) w =
  Done false (push_err (emit (emit w (ECheckResStart r c st)) (ECheckResEnd r c st (CErr e))) e).
Proof.
  intros Hd He. destruct d; cbn in Hd; inversion Hd; subst;
  cbn [check_deps]; rewrite check_resource_td_eq, He; reflexivity.
Qed.

Lemma check_deps_inconsistent mc d r c st tl w :
  res_dep d = Some (r, c, st) ->
  rc_check (RC c) (env w) r (get_content w r) st = Inconsistent ->
  check_deps RC OC mc (Some d :: tl) w =
  Done false (emit (emit w (ECheckResStart r c st)) (ECheckResEnd r c st Inconsistent)).
Proof.
  intros Hd He. destruct d; cbn in Hd; inversion Hd; subst;
  cbn [check_deps]; rewrite check_resource_td_eq, He; reflexivity.
Qed.

Lemma check_deps_consistent mc d r c st tl w :
  res_dep d = Some (r, c, st) ->
  rc_check (RC c) (env w) r (get_content w r) st = Consistent ->
  check_deps RC OC mc (Some d :: tl) w =
  check_deps RC OC mc tl (emit (emit w (ECheckResStart r c st)) (ECheckResEnd r c st Consistent)).
Proof.
  intros Hd He. destruct d; cbn in Hd; inversion Hd; subst;
  cbn [check_deps]; rewrite check_resource_td_eq, He; reflexivity.
Qed.

(* bottom-up scheduling: an erring or inconsistent dependency schedules its task, a consistent one does not *)
Lemma try_schedule_error w t r c st e :
  rc_check (RC c) (env w) r (get_content w r) st = CErr e ->
  try_schedule RC w t r c st =
  queue_add (emit (push_err (emit (emit w (ECheckReadResStart t c st)) (ECheckReadResEnd t c st (CErr e))) e) (ESchedTask t)) t.
Proof.
  intros H. unfold try_schedule.
  change (env (emit w (ECheckReadResStart t c st))) with (env w).
  change (get_content (emit w (ECheckReadResStart t c st)) r) with (get_content w r).
  rewrite H. reflexivity.
Qed.

Lemma try_schedule_inconsistent w t r c st :
  rc_check (RC c) (env w) r (get_content w r) st = Inconsistent ->
  try_schedule RC w t r c st =
  queue_add (emit (emit (emit w (ECheckReadResStart t c st)) (ECheckReadResEnd t c st Inconsistent)) (ESchedTask t)) t.
Proof.
  intros H. unfold try_schedule.
  change (env (emit w (ECheckReadResStart t c st))) with (env w).
  change (get_content (emit w (ECheckReadResStart t c st)) r) with (get_content w r).
  rewrite H. reflexivity.
Qed.

Lemma try_schedule_consistent w t r c st :
  rc_check (RC c) (env w) r (get_content w r) st = Consistent ->
  try_schedule RC w t r c st = emit (emit w (ECheckReadResStart t c st)) (ECheckReadResEnd t c st Consistent).
Proof.
  intros H. unfold try_schedule.
  change (env (emit w (ECheckReadResStart t c st))) with (env w).
  change (get_content (emit w (ECheckReadResStart t c st)) r) with (get_content w r).
  rewrite H. reflexivity.
Qed.

Lemma queue_add_in w t : In t (queue (queue_add w t)).
Proof.
  unfold queue_add. destruct (memN t (queue w)) eqn:E.
  - unfold memN in E. apply existsb_exists in E. destruct E as [x [Hin Hx]]. apply N.eqb_eq in Hx. subst. exact Hin.
  - cbn. apply in_or_app. right. left. reflexivity.
Qed.

(* ---------- C02 / C19: memoisation, and tasks without output are executed without looking at their dependencies ---------- *)
Lemma make_consistent_memo f w t o :
  live (gr w) (tn t) = true -> memN t (consistent w) = true -> get_task_output w t = Some o ->
  make_consistent_td RC OC P (S f) w t = Done o w.
Proof.
  intros Hl Hm Ho. cbn [make_consistent_td]. unfold get_or_create_task_node. rewrite Hl. rewrite Hm, Ho. reflexivity.
Qed.

Lemma make_consistent_no_output f w t :
  live (gr w) (tn t) = true -> memN t (consistent w) = false -> get_task_output w t = None ->
  make_consistent_td RC OC P (S f) w t =
  bind (execute_with RC OC P (require_with OC (make_consistent_td RC OC P f)) w t) (fun o w2 => Done o (mark_consistent w2 t)).
Proof.
  intros Hl Hm Ho. cbn [make_consistent_td]. unfold get_or_create_task_node. rewrite Hl. rewrite Hm, Ho. reflexivity.
Qed.

(* ---------- C04: early cut-off ---------- *)
Lemma schedule_requirer_cutoff o w n t c st :
  oc_check (OC c) o st = true ->
  schedule_requirer OC o w (n, Some (DRequire t c st)) =
  emit (emit w (ECheckReqTaskStart (un n) c st)) (ECheckReqTaskEnd (un n) c st false).
Proof. intros H. unfold schedule_requirer. cbn [snd fst]. rewrite H. reflexivity. Qed.

Lemma schedule_requirer_schedules o w n t c st :
  oc_check (OC c) o st = false ->
  In (un n) (queue (schedule_requirer OC o w (n, Some (DRequire t c st)))).
Proof. intros H. unfold schedule_requirer. cbn [snd fst]. rewrite H. cbn [negb]. apply queue_add_in. Qed.

End Local.

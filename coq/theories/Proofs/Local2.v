(* More operation-level theorems: stamp timing (C09), returned output = cached output (C01), reset (C08),
   completeness of bottom-up scheduling for one resource (C03). *)
From Coq Require Import List NArith ZArith Bool Lia.
From PieV Require Import Model.Dag Model.Build Proofs.Local.
Import ListNotations.
Open Scope N_scope.

Lemma alookup_app_not {V} (l1 l2 : list (N * V)) k :
  alookup l1 k = None -> alookup (l1 ++ l2) k = alookup l2 k.
Proof.
  induction l1 as [|[k' v] tl IH]; cbn; [reflexivity|].
  destruct (N.eqb k' k); [discriminate|exact IH].
Qed.
Lemma alookup_aremove_same {V} (l : list (N * V)) k : alookup (aremove l k) k = None.
Proof.
  induction l as [|[k' v] tl IH]; cbn; [reflexivity|].
  destruct (N.eqb k' k) eqn:E; cbn; [exact IH|]. rewrite E. exact IH.
Qed.
Lemma alookup_aset_same {V} (l : list (N * V)) k v : alookup (aset l k v) k = Some v.
Proof.
  unfold aset. rewrite alookup_app_not by apply alookup_aremove_same. cbn. rewrite N.eqb_refl. reflexivity.
Qed.

Lemma get_content_set_content w r v : get_content (set_content w r v) r = v.
Proof.
  unfold get_content, set_content. destruct v as [z|]; cbn.
  - apply alookup_aset_same.
  - apply alookup_aremove_same.
Qed.

Section Local2.
Variable RC : rcid -> rchecker.
Variable OC : ocid -> ochecker.
Variable P : task -> prog.

(* ---------- C09: what is stamped, and when ---------- *)
(* read: the stamp is taken from the very content the task's view is computed from, before the task continues;
   a failing stamp returns the error to the task and records nothing *)
Lemma sess_read_done w t r c x w' :
  cur w = Some t -> sess_read RC w r c = Done x w' ->
  (exists st, rc_stamp (RC c) (env w) r (get_content w r) = inl st /\
              x = inl (rc_view (RC c) (get_content w r)) /\
              w' = snd (add_dependency (emit (at_read w r c) (EReadEnd r c st)) (tn t) (rn r) (DRead r c st)))
  \/ (exists e, rc_stamp (RC c) (env w) r (get_content w r) = inr e /\ x = inr e /\ w' = at_read w r c).
Proof.
  intros Hc. unfold sess_read. rewrite Hc. fold (at_read w r c).
  destruct (hidden_read_check (at_read w r c) t r); [discriminate|].
  assert (He : env (at_read w r c) = env w) by (unfold at_read; rewrite env_goc; reflexivity).
  rewrite He.
  destruct (rc_stamp (RC c) (env w) r (get_content w r)) as [st|e] eqn:Es.
  - destruct (add_dependency (emit (at_read w r c) (EReadEnd r c st)) (tn t) (rn r) (DRead r c st)) as [[| |] w4] eqn:Ea;
    intros H; inversion H; subst; left; exists st; (split; [reflexivity|]); (split; [reflexivity|]); rewrite Ea; reflexivity.
  - intros H; inversion H; subst. right. exists e. repeat split; reflexivity.
Qed.

(* write: the stamp is taken from the content AFTER the task's write function has run *)
Lemma sess_write_done w t r c v x w' :
  cur w = Some t -> sess_write RC w r c v = Done x w' ->
  validate_write (at_write w r c) t r = None /\
  ((exists st, rc_stamp (RC c) (env w) r v = inl st /\ x = inl tt /\
               w' = snd (add_dependency (emit (set_content (at_write w r c) r v) (EWriteEnd r c st)) (tn t) (rn r) (DWrite r c st)))
   \/ (exists e, rc_stamp (RC c) (env w) r v = inr e /\ x = inr e /\ w' = set_content (at_write w r c) r v)).
Proof.
  intros Hc. unfold sess_write. rewrite Hc. fold (at_write w r c).
  destruct (validate_write (at_write w r c) t r); [discriminate|].
  rewrite get_content_set_content.
  assert (He : env (set_content (at_write w r c) r v) = env w).
  { unfold at_write. destruct v; cbn; rewrite env_goc; reflexivity. }
  rewrite He.
  destruct (rc_stamp (RC c) (env w) r v) as [st|e] eqn:Es.
  - destruct (add_dependency _ _ _ _) as [[| |] w5] eqn:Ea; intros H; inversion H; subst;
    (split; [reflexivity|]); left; exists st; (split; [reflexivity|]); (split; [reflexivity|]); rewrite Ea; reflexivity.
  - intros H; inversion H; subst. split; [reflexivity|]. right. exists e. repeat split; reflexivity.
Qed.

(* require: the value handed to the caller is the one make_task_consistent returned; the require-end event carries it;
   the dependency is updated with the output checker's stamp of that very output *)
Lemma require_with_done mc w t c o w' :
  require_with OC mc w t c = Done o w' ->
  exists w3 w4, mc w3 t = Done o w4 /\
    update_require_dependency (emit w4 (ERequireEnd t c (oc_stamp (OC c) o) o)) t c (oc_stamp (OC c) o) = Done tt w'.
Proof.
  unfold require_with, bind.
  destruct (reserve_require_dependency _ t) as [[] w3| |] eqn:Er; try discriminate.
  destruct (mc w3 t) as [o' w4| |] eqn:Em; try discriminate.
  destruct (update_require_dependency _ t c _) as [[] w6| |] eqn:Eu; try discriminate.
  intros H. inversion H; subst. exists w3, w4. split; [exact Em|exact Eu].
Qed.

Lemma update_require_dependency_done w src t c st w' :
  cur w = Some src -> update_require_dependency w t c st = Done tt w' ->
  w' = set_gr w (insert_edata (gr w) (tn src) (tn t) (DRequire t c st)).
Proof.
  intros Hc. unfold update_require_dependency. rewrite Hc.
  destruct (get_edata _ _ _); [|discriminate]. intros H. inversion H. reflexivity.
Qed.

(* ---------- C01 (partial): the value a top-down make_task_consistent returns is the cached output, and the task is
   marked consistent ---------- *)
Lemma get_task_output_set w t o : get_task_output (set_task_output w t o) t = Some o.
Proof. unfold get_task_output, set_task_output. cbn. apply alookup_aset_same. Qed.

Lemma execute_with_output req w t o w' :
  execute_with RC OC P req w t = Done o w' -> get_task_output w' t = Some o.
Proof.
  unfold execute_with, bind. destruct (exec_prog _ _ _ _ _) as [o' w3| |]; try discriminate.
  intros H. inversion H; subst. apply get_task_output_set.
Qed.

Lemma make_consistent_returns_cached fuel w t o w' :
  make_consistent_td RC OC P fuel w t = Done o w' ->
  get_task_output w' t = Some o /\ memN t (consistent w') = true.
Proof.
  destruct fuel as [|f]; [discriminate|]. cbn [make_consistent_td].
  set (w0 := get_or_create_task_node w t).
  destruct (memN t (consistent w0)) eqn:Hm.
  - destruct (get_task_output w0 t) eqn:Ho; [|discriminate]. intros H. inversion H; subst. split; assumption.
  - assert (Hmark : forall w2, memN t (consistent (mark_consistent w2 t)) = true).
    { intros w2. unfold mark_consistent. cbn. rewrite N.eqb_refl. reflexivity. }
    assert (Hout : forall w2, get_task_output (mark_consistent w2 t) t = get_task_output w2 t) by reflexivity.
    destruct (get_task_output w0 t) eqn:Ho.
    + unfold bind. destruct (check_deps _ _ _ _ _) as [ok w1| |]; try discriminate.
      destruct (if ok then get_task_output w1 t else None) eqn:Hr.
      * intros H. inversion H; subst. split; [|apply Hmark]. rewrite Hout.
        destruct ok; [exact Hr|discriminate].
      * destruct (execute_with _ _ _ _ w1 t) as [o2 w2| |] eqn:He; try discriminate.
        intros H. inversion H; subst. split; [|apply Hmark]. rewrite Hout. eapply execute_with_output. exact He.
    + unfold bind. destruct (execute_with _ _ _ _ w0 t) as [o2 w2| |] eqn:He; try discriminate.
      intros H. inversion H; subst. split; [|apply Hmark]. rewrite Hout. eapply execute_with_output. exact He.
Qed.

(* ---------- C03 (partial): scheduling for one reported resource is complete and exact ---------- *)
Lemma queue_add_env w t : env (queue_add w t) = env w /\ rstate (queue_add w t) = rstate w.
Proof. unfold queue_add. destruct (memN t (queue w)); split; reflexivity. Qed.

Lemma try_schedule_env w t r c st : env (try_schedule RC w t r c st) = env w /\ rstate (try_schedule RC w t r c st) = rstate w.
Proof.
  unfold try_schedule. destruct (rc_check _ _ _ _ _).
  - split; reflexivity.
  - match goal with |- env (queue_add ?X _) = _ /\ _ => destruct (queue_add_env X t) as [A B] end.
    split; [rewrite A|rewrite B]; reflexivity.
  - match goal with |- env (queue_add ?X _) = _ /\ _ => destruct (queue_add_env X t) as [A B] end.
    split; [rewrite A|rewrite B]; reflexivity.
Qed.

Lemma queue_add_mono w t x : In x (queue w) -> In x (queue (queue_add w t)).
Proof. unfold queue_add. destruct (memN t (queue w)); cbn; [tauto|]. intros H. apply in_or_app. left. exact H. Qed.

Lemma try_schedule_mono w t r c st x : In x (queue w) -> In x (queue (try_schedule RC w t r c st)).
Proof.
  intros H. unfold try_schedule. destruct (rc_check _ _ _ _ _); [exact H| |]; apply queue_add_mono; exact H.
Qed.

Lemma try_schedule_edge_mono b w p x : In x (queue w) -> In x (queue (try_schedule_edge RC b w p)).
Proof.
  intros H. unfold try_schedule_edge. destruct (snd p) as [[| | |]|]; try exact H.
  - apply try_schedule_mono; exact H.
  - destruct b; [exact H|apply try_schedule_mono; exact H].
Qed.

Lemma try_schedule_edge_env b w p :
  env (try_schedule_edge RC b w p) = env w /\ rstate (try_schedule_edge RC b w p) = rstate w.
Proof.
  unfold try_schedule_edge. destruct (snd p) as [[| | |]|]; try (split; reflexivity).
  - apply try_schedule_env.
  - destruct b; [split; reflexivity|apply try_schedule_env].
Qed.

Lemma fold_try_mono b l w x : In x (queue w) -> In x (queue (fold_left (try_schedule_edge RC b) l w)).
Proof. revert w. induction l as [|p tl IH]; intros w H; cbn; [exact H|]. apply IH. apply try_schedule_edge_mono. exact H. Qed.

Lemma fold_try_env b l w :
  env (fold_left (try_schedule_edge RC b) l w) = env w /\ rstate (fold_left (try_schedule_edge RC b) l w) = rstate w.
Proof.
  revert w. induction l as [|p tl IH]; intros w; cbn; [split; reflexivity|].
  destruct (IH (try_schedule_edge RC b w p)) as [A B]. destruct (try_schedule_edge_env b w p) as [C D].
  split; congruence.
Qed.

(* every recorded read/write dependency on r whose checker does not report Consistent gets its task queued *)
Lemma fold_try_complete l w n r c st (is_w : bool) :
  In (n, Some (if is_w then DWrite r c st else DRead r c st)) l ->
  rc_check (RC c) (env w) r (get_content w r) st <> Consistent ->
  In (un n) (queue (fold_left (try_schedule_edge RC false) l w)).
Proof.
  revert w. induction l as [|p tl IH]; intros w Hin Hne; [destruct Hin|].
  cbn [fold_left]. destruct Hin as [Heq|Hin].
  - subst p. apply fold_try_mono.
    unfold try_schedule_edge. cbn [snd fst].
    assert (Q : In (un n) (queue (try_schedule RC w (un n) r c st))).
    { unfold try_schedule.
      change (env (emit w (ECheckReadResStart (un n) c st))) with (env w).
      change (get_content (emit w (ECheckReadResStart (un n) c st)) r) with (get_content w r).
      destruct (rc_check (RC c) (env w) r (get_content w r) st); [congruence| |]; apply queue_add_in. }
    destruct is_w; exact Q.
  - apply IH; [exact Hin|].
    destruct (try_schedule_edge_env false w p) as [A B]. unfold get_content in *. rewrite A, B. exact Hne.
Qed.

Lemma schedule_affected_complete w r n c st (is_w : bool) :
  In (n, Some (if is_w then DWrite r c st else DRead r c st))
     (incoming (get_or_create_resource_node (emit w (ESchedByResStart r)) r) (rn r)) ->
  rc_check (RC c) (env w) r (get_content w r) st <> Consistent ->
  In (un n) (queue (schedule_tasks_affected_by RC w r)).
Proof.
  intros Hin Hne. unfold schedule_tasks_affected_by. cbn [queue emit].
  eapply fold_try_complete; [exact Hin|].
  rewrite env_goc. unfold get_content. rewrite rstate_goc. exact Hne.
Qed.

End Local2.

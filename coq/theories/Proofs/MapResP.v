(* C14: the map resource gives read-your-writes with per-type isolation; the equality checker's routes agree and it is
   consistent exactly when the current value (or absence) equals the stamped one. *)
From Coq Require Import List NArith ZArith Bool Lia.
From PieV Require Import Model.MapRes.
Import ListNotations.
Open Scope N_scope.

Lemma tm_get_app_not m1 m2 r : tm_get m1 r = None -> tm_get (m1 ++ m2) r = tm_get m2 r.
Proof. induction m1 as [|[r' b] tl IH]; cbn; [reflexivity|]. destruct (N.eqb r' r); [discriminate|exact IH]. Qed.
Lemma tm_get_remove_same m r : tm_get (tm_remove m r) r = None.
Proof.
  induction m as [|[r' b] tl IH]; cbn; [reflexivity|].
  destruct (N.eqb r' r) eqn:E; cbn; [exact IH|]. rewrite E. exact IH.
Qed.
Lemma tm_get_remove_other m r r' : r <> r' -> tm_get (tm_remove m r) r' = tm_get m r'.
Proof.
  intros Hne. induction m as [|[r0 b] tl IH]; cbn; [reflexivity|].
  destruct (N.eqb r0 r) eqn:E; cbn.
  - apply N.eqb_eq in E. subst r0. destruct (N.eqb r r') eqn:E2; [apply N.eqb_eq in E2; congruence|exact IH].
  - destruct (N.eqb r0 r'); [reflexivity|exact IH].
Qed.
Lemma tm_get_set_same m r b : tm_get (tm_set m r b) r = Some b.
Proof. unfold tm_set. rewrite tm_get_app_not by apply tm_get_remove_same. cbn. rewrite N.eqb_refl. reflexivity. Qed.
Lemma tm_get_set_other m r r' b : r <> r' -> tm_get (tm_set m r b) r' = tm_get m r'.
Proof.
  intros Hne. unfold tm_set.
  destruct (tm_get (tm_remove m r) r') eqn:E.
  - rewrite <- (tm_get_remove_other m r r' Hne), E.
    clear -E. induction (tm_remove m r) as [|[r0 bx] tl IH]; cbn in *; [discriminate|].
    destruct (N.eqb r0 r'); [exact E|apply IH; exact E].
  - rewrite tm_get_app_not by exact E. cbn.
    destruct (N.eqb r r') eqn:E2; [apply N.eqb_eq in E2; congruence|].
    rewrite <- (tm_get_remove_other m r r' Hne). symmetry. exact E.
Qed.

Lemma al_get_app_not l1 l2 k : al_get l1 k = None -> al_get (l1 ++ l2) k = al_get l2 k.
Proof. induction l1 as [|[k' v] tl IH]; cbn; [reflexivity|]. destruct (N.eqb k' k); [discriminate|exact IH]. Qed.
Lemma al_get_remove_same l k : al_get (al_remove l k) k = None.
Proof.
  induction l as [|[k' v] tl IH]; cbn; [reflexivity|].
  destruct (N.eqb k' k) eqn:E; cbn; [exact IH|]. rewrite E. exact IH.
Qed.
Lemma al_get_remove_other l k k' : k <> k' -> al_get (al_remove l k) k' = al_get l k'.
Proof.
  intros Hne. induction l as [|[k0 v] tl IH]; cbn; [reflexivity|].
  destruct (N.eqb k0 k) eqn:E; cbn.
  - apply N.eqb_eq in E. subst k0. destruct (N.eqb k k') eqn:E2; [apply N.eqb_eq in E2; congruence|exact IH].
  - destruct (N.eqb k0 k'); [reflexivity|exact IH].
Qed.
Lemma al_get_set_same l k v : al_get (al_set l k v) k = Some v.
Proof. unfold al_set. rewrite al_get_app_not by apply al_get_remove_same. cbn. rewrite N.eqb_refl. reflexivity. Qed.
Lemma al_get_set_other l k k' v : k <> k' -> al_get (al_set l k v) k' = al_get l k'.
Proof.
  intros Hne. unfold al_set.
  destruct (al_get (al_remove l k) k') eqn:E.
  - rewrite <- (al_get_remove_other l k k' Hne), E.
    clear -E. induction (al_remove l k) as [|[k0 vx] tl IH]; cbn in *; [discriminate|].
    destruct (N.eqb k0 k'); [exact E|apply IH; exact E].
  - rewrite al_get_app_not by exact E. cbn.
    destruct (N.eqb k k') eqn:E2; [apply N.eqb_eq in E2; congruence|].
    rewrite <- (al_get_remove_other l k k' Hne). symmetry. exact E.
Qed.

(* typed state access *)
Lemma rs_get_set_same m r s v : rs_get (rs_set m r s v) r s = Some v.
Proof. unfold rs_get, rs_set. rewrite tm_get_set_same. cbn. rewrite N.eqb_refl. reflexivity. Qed.
Lemma rs_get_set_other m r r' s s' v : r <> r' -> rs_get (rs_set m r s v) r' s' = rs_get m r' s'.
Proof. intros H. unfold rs_get, rs_set. rewrite tm_get_set_other by exact H. reflexivity. Qed.

(* the abstract value of key k of key type kt: what a read returns (a read never changes what later reads return) *)
Definition lookup (m : tymap) (kt : tyid) (k : N) : option Z :=
  match rs_get m kt (hm kt) with Some g => al_get g k | None => None end.

Lemma map_read_spec m kt k : fst (map_read m kt k) = lookup m kt k /\
  forall kt' k', lookup (snd (map_read m kt k)) kt' k' = lookup m kt' k'.
Proof.
  unfold map_read, lookup, rs_get_or_set_default.
  destruct (rs_get m kt (hm kt)) as [g|] eqn:E; cbn [fst snd].
  - split; [reflexivity|]. intros; reflexivity.
  - split; [reflexivity|]. intros kt' k'.
    destruct (N.eq_dec kt kt') as [->|Hne].
    + rewrite rs_get_set_same, E. reflexivity.
    + rewrite rs_get_set_other by exact Hne. reflexivity.
Qed.

(* read-your-writes, and nothing else changes: other keys of the same type and all keys of other types keep their value *)
Theorem insert_lookup m kt k v kt' k' :
  lookup (map_insert m kt k v) kt' k' = if N.eqb kt kt' && N.eqb k k' then Some v else lookup m kt' k'.
Proof.
  unfold map_insert, rs_get_or_set_default, lookup.
  destruct (N.eq_dec kt kt') as [->|Hne].
  - rewrite N.eqb_refl. cbn [andb].
    destruct (rs_get m kt' (hm kt')) as [g|] eqn:E; rewrite rs_get_set_same.
    + destruct (N.eqb k k') eqn:E2.
      * apply N.eqb_eq in E2. subst. apply al_get_set_same.
      * apply al_get_set_other. intros H. subst. rewrite N.eqb_refl in E2. discriminate.
    + destruct (N.eqb k k') eqn:E2.
      * apply N.eqb_eq in E2. subst. apply al_get_set_same.
      * rewrite al_get_set_other; [reflexivity|]. intros H. subst. rewrite N.eqb_refl in E2. discriminate.
  - assert (En : N.eqb kt kt' = false) by (apply N.eqb_neq; exact Hne). rewrite En. cbn [andb].
    destruct (rs_get m kt (hm kt)) as [g|] eqn:E; repeat rewrite rs_get_set_other by exact Hne; reflexivity.
Qed.

Theorem remove_lookup m kt k kt' k' :
  lookup (map_remove m kt k) kt' k' = if N.eqb kt kt' && N.eqb k k' then None else lookup m kt' k'.
Proof.
  unfold map_remove, rs_get_or_set_default, lookup.
  destruct (N.eq_dec kt kt') as [->|Hne].
  - rewrite N.eqb_refl. cbn [andb].
    destruct (rs_get m kt' (hm kt')) as [g|] eqn:E; rewrite rs_get_set_same.
    + destruct (N.eqb k k') eqn:E2.
      * apply N.eqb_eq in E2. subst. apply al_get_remove_same.
      * apply al_get_remove_other. intros H. subst. rewrite N.eqb_refl in E2. discriminate.
    + destruct (N.eqb k k') eqn:E2; reflexivity.
  - assert (En : N.eqb kt kt' = false) by (apply N.eqb_neq; exact Hne). rewrite En. cbn [andb].
    destruct (rs_get m kt (hm kt)) as [g|] eqn:E; repeat rewrite rs_get_set_other by exact Hne; reflexivity.
Qed.

(* state stored for one resource type is invisible to, and untouched by, accesses for another resource type *)
Theorem typed_access_isolated m r s r' s' :
  r <> r' -> rs_get (snd (rs_get_or_set_default m r s)) r' s' = rs_get m r' s'.
Proof.
  intros Hne. unfold rs_get_or_set_default. destruct (rs_get m r s); cbn; [reflexivity|].
  apply rs_get_set_other. exact Hne.
Qed.

(* equality checker: the three stamp routes agree, and check is consistent exactly when current = stamped *)
Lemma opt_eqb_spec a b : opt_eqb a b = true <-> a = b.
Proof.
  destruct a, b; cbn; try (split; [discriminate|intros H; inversion H]); try tauto.
  rewrite Z.eqb_eq. split; intros H; [subst; reflexivity|inversion H; reflexivity].
Qed.

Theorem routes_agree m kt k :
  let '(s1, m1) := meq_stamp m kt k in
  let '(rd, m2) := map_read m1 kt k in
  let '(s3, m3) := meq_stamp_writer m2 kt k in
  s1 = lookup m kt k /\ meq_stamp_reader rd = lookup m kt k /\ s3 = lookup m kt k.
Proof.
  unfold meq_stamp, meq_stamp_writer, meq_stamp_reader.
  destruct (map_read m kt k) as [s1 m1] eqn:E1.
  destruct (map_read m1 kt k) as [rd m2] eqn:E2.
  destruct (map_read m2 kt k) as [s3 m3] eqn:E3.
  destruct (map_read_spec m kt k) as [A1 B1]. rewrite E1 in A1, B1. cbn in A1, B1.
  destruct (map_read_spec m1 kt k) as [A2 B2]. rewrite E2 in A2, B2. cbn in A2, B2.
  destruct (map_read_spec m2 kt k) as [A3 B3]. rewrite E3 in A3, B3. cbn in A3, B3.
  repeat split; congruence.
Qed.

Theorem check_decides m kt k st :
  fst (meq_check m kt k st) = false <-> lookup m kt k = st.
Proof.
  unfold meq_check. destruct (map_read m kt k) as [v m'] eqn:E. cbn.
  destruct (map_read_spec m kt k) as [A _]. rewrite E in A. cbn in A. subst v.
  rewrite negb_false_iff. apply opt_eqb_spec.
Qed.

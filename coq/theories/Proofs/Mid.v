(* Sessions during which resources change from outside (Build.run_msession), and sessions that are used on after a caught abort
   (Build.run_zsession): the model of what the correspondence runs explore
   when the session contract "no external change while a Session is alive" is broken.
   - conservative: without edits it is run_session (so every theorem about sessions applies to the edit-free case);
   - the store invariants and the event-stream theorems that do not depend on resource contents survive such edits: no "node
     missing" internal error and a well-formed store; a failing top-down check is directly followed by an execution start; every
     execution start is justified; every checker error is reported. *)
From Coq Require Import List NArith ZArith Bool Lia.
From PieV Require Import Model.Dag Model.Build Proofs.History Proofs.NoBug4All Proofs.BuJust.
From PieV Require Proofs.TdForward Proofs.ExecJust Proofs.ErrRep.
Import ListNotations.
Open Scope N_scope.

Section Mid.
Variable RC : rcid -> rchecker.
Variable OC : ocid -> ochecker.
Variable P : task -> prog.
Variable always : ocid.

Theorem run_msession_plain fuel ops : forall w,
  run_msession RC OC P always fuel w (map MSop ops) = run_session RC OC P always fuel w ops.
Proof.
  induction ops as [|o tl IH]; intros w; cbn [map run_msession run_session]; [reflexivity|].
  destruct (run_sop RC OC P always fuel w o) as [[x|k|] w']; [rewrite IH; reflexivity|reflexivity|reflexivity].
Qed.

(* generic: a predicate on worlds kept by every session operation and by an edit is kept by run_msession *)
Lemma run_msession_inv (I : world -> Prop) fuel :
  (forall w o, I w -> I (snd (run_sop RC OC P always fuel w o))) -> (forall w r v, I w -> I (set_content w r v)) ->
  forall ops w, I w -> I (snd (run_msession RC OC P always fuel w ops)).
Proof.
  intros Hs He. induction ops as [|o tl IH]; intros w Hw; cbn [run_msession]; [exact Hw|].
  destruct o as [o|r v]; [|apply IH, He; exact Hw].
  pose proof (Hs w o Hw) as X. destruct (run_sop RC OC P always fuel w o) as [[x|k|] w']; cbn [snd] in *; [|exact X|exact X].
  specialize (IH w' X). destruct (run_msession RC OC P always fuel w' tl) as [rs w'']. exact IH.
Qed.

Theorem msession_store_invariants fuel ops w : L w -> L (snd (run_msession RC OC P always fuel (new_session w) ops)).
Proof.
  intros HL. apply (run_msession_inv L fuel); [intros w0 o H; apply (run_sop_R RC OC P always fuel w0 o H)|intros; apply L_set_content; assumption|apply L_new_session; exact HL].
Qed.

Lemma set_content_trace w r v : trace (set_content w r v) = trace w. Proof. destruct v; reflexivity. Qed.
Lemma set_content_errs w r v : errs (set_content w r v) = errs w. Proof. destruct v; reflexivity. Qed.

Theorem msession_failed_check_then_execution fuel w ops :
  let w' := snd (run_msession RC OC P always fuel (new_session w) ops) in
  forall post e pre, trace w' = post ++ e :: pre -> TdForward.failing e = true ->
    exists post' t, post = post' ++ [EExecStart t].
Proof.
  intros w' post e pre T He.
  assert (X : TdForward.R w').
  { apply (run_msession_inv TdForward.R fuel); [intros; apply TdForward.run_sop_R; assumption| |split; exact Logic.I].
    intros w0 r v H. unfold TdForward.R. rewrite set_content_trace. exact H. }
  destruct X as [X1 X2]. rewrite T in X1, X2.
  destruct (TdForward.FJ_split post e pre X1 He) as [E|E]; [|exact E]. subst post. cbn in X2. congruence.
Qed.

Theorem msession_executions_justified fuel w ops :
  let tr := trace (snd (run_msession RC OC P always fuel (new_session w) ops)) in
  (forall post t pre, tr = post ++ EExecStart t :: pre ->
     ExecJust.head_failing pre \/ In (ESchedTask t) pre \/ get_task_output w t = None \/ In (EExecStart t) pre) /\
  (forall post t pre, tr = post ++ ESchedTask t :: pre -> exists e pre', pre = e :: pre' /\ incons_end t e).
Proof.
  intros tr.
  assert (X : ExecJust.E (outs w) (snd (run_msession RC OC P always fuel (new_session w) ops))).
  { apply (run_msession_inv (ExecJust.E (outs w)) fuel); [intros; apply ExecJust.run_sop_E; assumption| |apply ExecJust.E_new_session].
    intros w0 r v H. eapply ExecJust.quiet_E; [apply quiet_set_content|exact H]. }
  destruct X as [_ _ X S]. split; [apply (ExecJust.XJ_spec _ _ X)|apply (ExecJust.SJ_spec _ S)].
Qed.

Theorem msession_errors_reported fuel w ops :
  let w' := snd (run_msession RC OC P always fuel (new_session w) ops) in
  forall ev x, In ev (trace w') -> ErrRep.errev ev = Some x -> In x (errs w').
Proof.
  apply (run_msession_inv ErrRep.R fuel); [intros; apply ErrRep.run_sop_R; assumption| |intros ev x []].
  intros w0 r v H ev x. rewrite set_content_trace, set_content_errs. apply H.
Qed.

(* ---- the same Session used again after a caught abort (Build.run_zsession) ---- *)
Lemma run_zsession_inv (I : world -> Prop) fuel :
  (forall w o, I w -> I (snd (run_sop RC OC P always fuel w o))) -> (forall w r v, I w -> I (set_content w r v)) ->
  forall ops w, I w -> I (snd (run_zsession RC OC P always fuel w ops)).
Proof.
  intros Hs He. induction ops as [|o tl IH]; intros w Hw; cbn [run_zsession]; [exact Hw|].
  destruct o as [o|r v]; [|apply IH, He; exact Hw].
  pose proof (Hs w o Hw) as X. destruct (run_sop RC OC P always fuel w o) as [[x|k|] w']; cbn [snd] in *; [| |exact X];
    (specialize (IH w' X); destruct (run_zsession RC OC P always fuel w' tl) as [rs w'']; exact IH).
Qed.

(* as long as no build aborts, using the session on is the ordinary session *)
Theorem run_zsession_plain fuel ops : forall w, Forall (fun r => exists x, r = RDone x) (fst (run_session RC OC P always fuel w ops)) ->
  run_zsession RC OC P always fuel w (map MSop ops) = run_session RC OC P always fuel w ops.
Proof.
  induction ops as [|o tl IH]; intros w H; cbn [map run_zsession run_session] in *; [reflexivity|].
  destruct (run_sop RC OC P always fuel w o) as [[x|k|] w'].
  - destruct (run_session RC OC P always fuel w' tl) as [rs w''] eqn:E. cbn [fst] in H. inversion H; subst.
    rewrite IH; [rewrite E; reflexivity|rewrite E; assumption].
  - cbn [fst] in H. inversion H as [|r0 l0 [y Y] _]; discriminate.
  - reflexivity.
Qed.

Theorem zsession_store_invariants fuel ops w : L w -> L (snd (run_zsession RC OC P always fuel (new_session w) ops)).
Proof.
  intros HL. apply (run_zsession_inv L fuel); [intros w0 o H; apply (run_sop_R RC OC P always fuel w0 o H)|intros; apply L_set_content; assumption|apply L_new_session; exact HL].
Qed.

Theorem zsession_failed_check_then_execution fuel w ops :
  let w' := snd (run_zsession RC OC P always fuel (new_session w) ops) in
  forall post e pre, trace w' = post ++ e :: pre -> TdForward.failing e = true ->
    exists post' t, post = post' ++ [EExecStart t].
Proof.
  intros w' post e pre T He.
  assert (X : TdForward.R w').
  { apply (run_zsession_inv TdForward.R fuel); [intros; apply TdForward.run_sop_R; assumption| |split; exact Logic.I].
    intros w0 r v H. unfold TdForward.R. rewrite set_content_trace. exact H. }
  destruct X as [X1 X2]. rewrite T in X1, X2.
  destruct (TdForward.FJ_split post e pre X1 He) as [E|E]; [|exact E]. subst post. cbn in X2. congruence.
Qed.

Theorem zsession_executions_justified fuel w ops :
  let tr := trace (snd (run_zsession RC OC P always fuel (new_session w) ops)) in
  (forall post t pre, tr = post ++ EExecStart t :: pre ->
     ExecJust.head_failing pre \/ In (ESchedTask t) pre \/ get_task_output w t = None \/ In (EExecStart t) pre) /\
  (forall post t pre, tr = post ++ ESchedTask t :: pre -> exists e pre', pre = e :: pre' /\ incons_end t e).
Proof.
  intros tr.
  assert (X : ExecJust.E (outs w) (snd (run_zsession RC OC P always fuel (new_session w) ops))).
  { apply (run_zsession_inv (ExecJust.E (outs w)) fuel); [intros; apply ExecJust.run_sop_E; assumption| |apply ExecJust.E_new_session].
    intros w0 r v H. eapply ExecJust.quiet_E; [apply quiet_set_content|exact H]. }
  destruct X as [_ _ X S]. split; [apply (ExecJust.XJ_spec _ _ X)|apply (ExecJust.SJ_spec _ S)].
Qed.

Theorem zsession_errors_reported fuel w ops :
  let w' := snd (run_zsession RC OC P always fuel (new_session w) ops) in
  forall ev x, In ev (trace w') -> ErrRep.errev ev = Some x -> In x (errs w').
Proof.
  apply (run_zsession_inv ErrRep.R fuel); [intros; apply ErrRep.run_sop_R; assumption| |intros ev x []].
  intros w0 r v H ev x. rewrite set_content_trace, set_content_errs. apply H.
Qed.

End Mid.

(* C04, at most once, for sessions that mix the two kinds of build: a session of top-down requires followed by a bottom-up build
   -- static class, reflexive checkers, after ANY history -- executes no task twice IN THE WHOLE SESSION (so in particular the
   bottom-up build executes no task twice, and none that a require of the session already executed).
   The top-down part leaves a consistent set that is closed under dependencies and whose recorded dependencies are all
   accepted by their checkers (Valid.v: VC); the initial scheduling of the bottom-up build queues only tasks with a rejected
   resource dependency, hence none of them: the invariant Om of OnceAll.v holds when the build starts. *)
From Coq Require Import List NArith ZArith Bool Lia Permutation.
From PieV Require Import Model.Dag Model.Build Proofs.DagLib Proofs.DagWF Proofs.DagPath Proofs.DagQueries Proofs.StoreInv
  Proofs.Sorting Proofs.Effects Proofs.Inv Proofs.History Proofs.ExecInv Proofs.ExecSession Proofs.Cert Proofs.Stable Proofs.NoBug4 Proofs.NoAbort
  Proofs.NoBug4All Proofs.Trace Proofs.Queue Proofs.BuJust Proofs.BuOnce Proofs.NoReentry Proofs.NoBugAll Proofs.CertAll Proofs.NoAbortAll Proofs.HasOut
  Proofs.Sim Proofs.Valid Proofs.Idem Proofs.OnceAll Proofs.UpToDate.
Import ListNotations.
Open Scope N_scope.

Lemma execs_rev l : execs (rev l) = rev (execs l).
Proof. induction l as [|e l IH]; [reflexivity|]. cbn [rev]. rewrite execs_app, IH. unfold execs at 2 3. cbn [flat_map]. destruct e; cbn; try (rewrite app_nil_r; reflexivity); reflexivity. Qed.

Section MO.
Variable gen : res -> option task.
Variable wck : rcid -> Prop.
Variable ord : task -> nat.
Variable RC : rcid -> rchecker.
Variable OC : ocid -> ochecker.
Variable P : task -> prog.
Variable sf : rcid -> res -> content -> Z.
Variable always : ocid.
Hypothesis HS : forall c env r v, rc_stamp (RC c) env r v = inl (sf c r v).
Hypothesis HWF : forall t, WFP gen wck t [] (P t).
Hypothesis HWO : forall t, WFO ord t (P t).
Hypothesis HRefl : forall c env r v, rc_check (RC c) env r v (sf c r v) = Consistent.
Hypothesis HReflO : forall c o, oc_check (OC c) o (oc_stamp (OC c) o) = true.
Let HNR : forall t, NR [] (P t). Proof. intros t. eapply WFP_NR. apply HWF. Qed.
Notation K := (K RC OC P sf).
Notation Q := (Q gen ord).

Lemma run_session_B fuel ops : forall w, VS w -> K w -> Q w -> HB w -> Forall is_done (fst (run_session RC OC P always fuel w ops)) ->
  let v := snd (run_session RC OC P always fuel w ops) in VS v /\ K v /\ Q v /\ HB v.
Proof.
  induction ops as [|o tl IH]; intros w Hw Kw Hq Hh DA; cbn [run_session] in *; [split; [exact Hw|split; [exact Kw|split; assumption]]|].
  assert (X : match run_sop RC OC P always fuel w o with (RDone _, w') => VS w' /\ K w' /\ Q w' /\ HB w' | _ => True end).
  { destruct o as [t|ch]; cbn [run_sop].
    - pose proof (NoBugAll.session_require_V RC OC P always fuel w t Hw) as Y. pose proof (CertAll.session_require_Q RC OC P sf HS HNR always fuel w t Hw Kw) as Z.
      pose proof (NoAbortAll.session_require_A gen wck ord RC OC P sf HS HWF HWO always fuel w t Hw Kw Hq) as A0.
      pose proof (HasOut.session_require_H RC OC P always fuel w t (proj1 (proj1 (proj1 Hw))) Hh) as H0.
      destruct (session_require RC OC P always fuel w t); cbn in *; [split; [exact Y|split; [exact Z|split; assumption]]|exact Logic.I|exact Logic.I].
    - pose proof (NoBugAll.session_bottom_up_V RC OC P fuel w ch Hw) as Y. pose proof (CertAll.session_bottom_up_Q RC OC P sf HS HNR fuel w ch Hw Kw) as Z.
      pose proof (NoAbortAll.session_bottom_up_A gen wck ord RC OC P sf HS HWF HWO fuel w ch Hw Kw Hq) as A0.
      pose proof (HasOut.session_bottom_up_H RC OC P fuel w ch (proj1 (proj1 (proj1 Hw))) Hh) as H0.
      destruct (session_bottom_up RC OC P fuel w ch); cbn in *; [split; [exact Y|split; [exact Z|split; assumption]]|exact Logic.I|exact Logic.I]. }
  destruct (run_sop RC OC P always fuel w o) as [[x|k|] w'].
  - destruct X as [X1 [X2 [X3 X4]]]. specialize (IH w' X1 X2 X3 X4). destruct (run_session RC OC P always fuel w' tl) as [rs w'']. cbn [fst snd] in *.
    apply IH. inversion DA; assumption.
  - cbn [fst] in DA. inversion DA as [|r0 l0 [y Y] _]; discriminate.
  - cbn [fst] in DA. inversion DA as [|r0 l0 [y Y] _]; discriminate.
Qed.

(* the consistent set of a top-down session is closed under recorded dependencies *)
Lemma reach_closed v c x : StoreOK v -> VC RC OC v -> isC v c -> RT v c x -> isC v x.
Proof.
  intros HS0 HV Hc [<-|Pth]; [exact Hc|].
  assert (Gen : forall u z, path (gr v) u z -> forall a, u = tn a -> isC v a -> forall y, z = tn y -> isC v y).
  { intros u z Pz. induction Pz as [u z E|u m z E Pz IH]; intros a -> Ca y ->.
    - pose proof (proj2 (wf_edata _ (proj1 HS0) (tn a) (tn y)) E) as X. destruct (get_edata (gr v) (tn a) (tn y)) as [dp|] eqn:Ed; [|contradiction].
      pose proof (HV a Ca (tn y) dp Ed) as D. destruct (proj1 (proj2 HS0) _ _ _ Ed) as [_ Dd].
      destruct dp as [|y' c' st|r c' st|r c' st]; cbn in D, Dd; [contradiction| |exfalso; exact (tn_rn _ _ Dd)|exfalso; exact (tn_rn _ _ Dd)].
      apply tn_inj in Dd. subst y'. apply D.
    - pose proof (OnceAll.path_src_task (gr v) m (tn y) HS0 Pz) as Tm. apply even_tn' in Tm. rewrite Tm in E.
      apply (IH (un m) Tm); [|reflexivity].
      pose proof (proj2 (wf_edata _ (proj1 HS0) (tn a) (tn (un m))) E) as X. destruct (get_edata (gr v) (tn a) (tn (un m))) as [dp|] eqn:Ed; [|contradiction].
      pose proof (HV a Ca (tn (un m)) dp Ed) as D. destruct (proj1 (proj2 HS0) _ _ _ Ed) as [_ Dd].
      destruct dp as [|y' c' st|r c' st|r c' st]; cbn in D, Dd; [contradiction| |exfalso; exact (tn_rn _ _ Dd)|exfalso; exact (tn_rn _ _ Dd)].
      apply tn_inj in Dd. subst y'. apply D. }
  apply (Gen _ _ Pth c eq_refl Hc x eq_refl).
Qed.

(* what the initial scheduling queues: tasks with a rejected recorded resource dependency *)
Definition Bad (v : world) (x : task) : Prop :=
  exists d dp r c st, row v x d = Some dp /\ (dp = DRead r c st \/ dp = DWrite r c st) /\ rc_check (RC c) (env v) r (get_content v r) st <> Consistent.
Lemma try_schedule_bad v w x r c st : keep v w -> (exists d dp, row v x d = Some dp /\ (dp = DRead r c st \/ dp = DWrite r c st)) ->
  (forall y, In y (queue w) -> Bad v y) -> forall y, In y (queue (try_schedule RC w x r c st)) -> Bad v y.
Proof.
  intros [K1 [K2 _]] [d [dp [R Hd]]] HQ y. unfold try_schedule. cbv zeta. cbn [env emit].
  change (get_content (emit w (ECheckReadResStart x c st)) r) with (get_content w r). rewrite K1, K2.
  destruct (rc_check (RC c) (env v) r (get_content v r) st) eqn:Ck; [apply HQ| |];
    (unfold queue_add; cbn [queue emit push_err]; destruct (memN x (queue w)); [apply HQ|]; cbn; intros X; apply in_app_or in X;
     destruct X as [X|[<-|[]]]; [apply HQ; exact X|]; exists d, dp, r, c, st; split; [exact R|split; [exact Hd|rewrite Ck; discriminate]]).
Qed.
Lemma initial_queue_bad v ch : StoreOK v -> forall y, In y (queue (fold_left (schedule_tasks_affected_by RC) ch (set_queue v []))) -> Bad v y.
Proof.
  intros HS0. set (v0 := set_queue v []).
  assert (Gen : forall l w, qg v0 w -> (forall y, In y (queue w) -> Bad v y) ->
            qg v0 (fold_left (schedule_tasks_affected_by RC) l w) /\ forall y, In y (queue (fold_left (schedule_tasks_affected_by RC) l w)) -> Bad v y).
  { induction l as [|r tl IH]; intros w Hq HB0; cbn [fold_left]; [split; assumption|]. apply IH.
    - eapply qg_trans; [exact Hq|apply schedule_tasks_affected_by_qg].
    - unfold schedule_tasks_affected_by. cbv zeta. set (w1 := emit w (ESchedByResStart r)). set (w2 := get_or_create_resource_node w1 r).
      assert (Q2 : qg v0 w2) by (eapply qg_trans; [exact Hq|]; eapply qg_trans; [apply (qg_emit w (ESchedByResStart r)); reflexivity|apply qg_goc_res]).
      rewrite (proj2 Q2 (rn r)). change (incoming v0 (rn r)) with (incoming v (rn r)).
      assert (G2 : forall l' w', qg v0 w' -> (forall p, In p l' -> In p (incoming v (rn r))) -> (forall y, In y (queue w') -> Bad v y) ->
                forall y, In y (queue (fold_left (try_schedule_edge RC false) l' w')) -> Bad v y).
      { induction l' as [|p l' IH']; intros w' Hq' Hin HB'; cbn [fold_left]; [exact HB'|]. apply IH'.
        - eapply qg_trans; [exact Hq'|apply try_schedule_edge_qg].
        - intros q X. apply Hin. right. exact X.
        - assert (Ip : In p (incoming v (rn r))) by (apply Hin; left; reflexivity). unfold incoming in Ip. destruct p as [u e].
          destruct (proj2 (incoming_spec (gr v) (rn r) (proj1 HS0)) u e Ip) as [E _].
          assert (Qv : keep v w') by (eapply keep_trans; [apply (keep_same v v0); reflexivity|apply (proj1 (proj2 (proj1 Hq')))]).
          unfold try_schedule_edge. cbn [fst snd]. destruct e as [[|y' c st|r' c st|r' c st]|]; try exact HB'.
          + symmetry in E. destruct (proj1 (proj2 HS0) _ _ _ E) as [Tu Dd]. cbn in Dd. assert (r' = r) by (unfold rn in Dd; lia). subst r'.
            rewrite (even_tn' u Tu) in E. apply (try_schedule_bad v w' (un u) r c st Qv); [|exact HB']. exists (rn r), (DRead r c st). split; [exact E|left; reflexivity].
          + symmetry in E. destruct (proj1 (proj2 HS0) _ _ _ E) as [Tu Dd]. cbn in Dd. assert (r' = r) by (unfold rn in Dd; lia). subst r'.
            rewrite (even_tn' u Tu) in E. apply (try_schedule_bad v w' (un u) r c st Qv); [|exact HB']. exists (rn r), (DWrite r c st). split; [exact E|right; reflexivity]. }
      intros y. change (queue (emit (fold_left (try_schedule_edge RC false) (incoming v (rn r)) w2) (ESchedByResEnd r))) with (queue (fold_left (try_schedule_edge RC false) (incoming v (rn r)) w2)).
      apply (G2 _ w2 Q2); [trivial|]. intros z Z. apply HB0. unfold w2, w1, get_or_create_resource_node in Z. destruct (live _ _) in Z; exact Z. }
  apply (Gen ch v0 (qg_refl v0)). intros y [].
Qed.
Theorem requires_then_bottom_up_at_most_once fuel h tdops ch : roots_below ord fuel tdops ->
  let w := new_session (snd (run_history RC OC P always fuel init_world h)) in
  let v := snd (run_session RC OC P always fuel w tdops) in
  match session_bottom_up RC OC P fuel v ch with
  | Done _ w' => NoDup (execs (trace w'))
  | Abort _ _ => False
  | OutOfFuel => True
  end.
Proof.
  intros RB w v.
  destruct (run_history_HBs gen wck ord RC OC P sf HS HWF HWO always fuel h init_world) as [Jh [Kh [Qh Hh]]]; [split; [apply L_init|intros x d X; discriminate]|apply K_init|apply Q_init|apply HBs_init|].
  set (wh := snd (run_history RC OC P always fuel init_world h)) in *.
  assert (VSw : VS w) by (apply VS_new_session; exact Jh).
  assert (Kw : K w) by (apply (geq_K RC OC P sf wh); [apply geq_same; reflexivity|reflexivity|exact Kh]).
  assert (Qw : Q w) by (apply (Q_same gen ord wh); [reflexivity|exact Qh]).
  assert (Hhw : HB w) by (apply HBs_new_session; exact Hh).
  assert (Jw : ExecSession.J w) by (split; [apply Jh|split; [apply Jh|intros t X; discriminate]]).
  destruct (session_returns gen wck ord RC OC P sf HS HWF HWO always fuel tdops w RB Jw Qw) as [DA _].
  destruct (run_session_B fuel tdops w VSw Kw Qw Hhw DA) as [VSv [Kv [Qv Hv]]]. fold v in VSv, Kv, Qv, Hv.
  assert (V0 : VC RC OC w) by (intros x Xx; discriminate).
  destruct (session_V gen wck ord RC OC P sf HS HWF HWO HRefl HReflO always fuel tdops w RB Jw Qw V0) as [VCv [Jv _]]. fold v in VCv, Jv.
  destruct (session_post RC OC P always fuel tdops w (roots_td ord OC always fuel tdops RB) Jw DA) as [seg PS]. fold v in PS.
  assert (Tv : trace v = rev seg) by (rewrite (po_seg _ _ _ _ _ _ PS); cbn [new_session trace]; apply app_nil_r).
  pose proof (session_bottom_up_A gen wck ord RC OC P sf HS HWF HWO fuel v ch VSv Kv Qv) as NA.
  destruct VSv as [[Hw Hc] HV]. unfold session_bottom_up in *. cbv zeta in *.
  assert (L0 : L (set_queue v [])). { destruct (proj1 Hw) as [X1 [X2 X3]]. split; [exact X1|]. split; [exact X2|intros x []]. }
  destruct (fold_affected_L RC ch _ L0) as [L1 M1]. set (wf := fold_left (schedule_tasks_affected_by RC) ch (set_queue v [])) in *.
  assert (V0' : V (set_queue v [])) by (apply pop_V; exact HV).
  assert (Q01 : lv (set_queue v []) wf) by (apply fold_lv; intros; apply schedule_tasks_affected_by_lv).
  assert (V1 : V wf) by (eapply lv_V; eassumption).
  assert (KQ1 : K wf /\ Q wf).
  { unfold wf. assert (KF : forall l w0', K w0' /\ Q w0' -> K (fold_left (schedule_tasks_affected_by RC) l w0') /\ Q (fold_left (schedule_tasks_affected_by RC) l w0')).
    { induction l as [|r tl IH]; intros w0' K0; cbn [fold_left]; [exact K0|apply IH; split; [apply schedule_tasks_affected_by_K; apply K0|apply (schedule_tasks_affected_by_Q gen ord); apply K0]]. }
    apply KF. split; [apply (geq_K RC OC P sf v); [apply geq_same; reflexivity|reflexivity|exact Kv]|apply (Q_same gen ord v); [reflexivity|exact Qv]]. }
  assert (Hf : HB wf).
  { apply (HB_hq v); [|exact Hv]. eapply hq_trans; [apply (hq_same v (set_queue v [])); reflexivity|apply fold_hq; intros; apply schedule_tasks_affected_by_hq]. }
  set (w2 := emit (set_cur wf None) EBuildStart) in *.
  assert (C1 : cur wf = None) by (rewrite (proj2 (proj2 (proj1 Q01))); exact Hc).
  assert (Q12 : lv wf w2).
  { eapply lv_trans; [apply (lv_same wf (set_cur wf None)); try reflexivity; [cbn; symmetry; exact C1|trivial]|apply lv_emit; reflexivity]. }
  assert (L2 : L w2) by (apply L_emit, L_set_cur_none; exact L1).
  assert (P2 : VPre None w2).
  { split; [|eapply lv_V; eassumption]. eapply q3_Pre; [apply Q12|exact L2|]. eapply q3_Pre; [apply Q01|exact L1|].
    split; [exact L0|split; [apply Hw|apply Hw]]. }
  assert (K2 : K w2) by (apply (geq_K RC OC P sf wf); [apply geq_same; reflexivity|reflexivity|apply KQ1]).
  assert (Qq2 : Q w2) by (apply (Q_same gen ord wf); [reflexivity|apply KQ1]).
  assert (H2 : HB w2) by (apply (HB_hq wf); [apply hq_same; reflexivity|exact Hf]).
  assert (LV : lv (set_queue v []) w2) by (eapply lv_trans; eassumption).
  assert (Cs2 : consistent w2 = consistent v) by (rewrite (proj1 (proj2 (proj2 LV))); reflexivity).
  assert (Op2 : opens (trace w2) = []) by (rewrite (lv_opens _ _ LV); apply Hw).
  assert (Ex2 : execs (trace w2) = execs (trace v)).
  { destruct (proj1 (proj1 LV)) as [s0 [T0 F0]]. rewrite T0, execs_app, (execs_ev3 s0 F0). reflexivity. }
  assert (QG : qg (set_queue v []) wf).
  { assert (G : forall l w0', qg (set_queue v []) w0' -> qg (set_queue v []) (fold_left (schedule_tasks_affected_by RC) l w0')).
    { induction l as [|r tl IH]; intros w0' Hq; cbn [fold_left]; [exact Hq|apply IH; eapply qg_trans; [exact Hq|apply schedule_tasks_affected_by_qg]]. }
    apply G. apply qg_refl. }
  assert (RTv : forall c x, RT w2 c x -> RT v c x).
  { intros c x R. apply (geq_RT (set_queue v []) w2 c x); [|exact R]. eapply geq_trans; [apply (proj1 (proj1 QG))|apply geq_same; reflexivity]. }
  assert (O2 : Om gen w2).
  { split; [|split]; [|intros x y Ox; unfold opn in Ox; rewrite Op2 in Ox; destruct Ox|intros x Ox; unfold opn in Ox; rewrite Op2 in Ox; destruct Ox].
    intros c x Hcc R. unfold isC in Hcc. rewrite Cs2 in Hcc. split; [unfold opn; rewrite Op2; intros []|].
    intros Ix. change (In x (queue wf)) in Ix. destruct (initial_queue_bad v ch (proj1 (proj1 Hw)) x Ix) as [d [dp [r [c0 [st [R0 [Hd Bd]]]]]]].
    pose proof (reach_closed v c x (proj1 (proj1 Hw)) VCv Hcc (RTv c x R)) as Cx. pose proof (VCv x Cx d dp R0) as D.
    destruct Hd as [->| ->]; cbn in D; exact (Bd D). }
  assert (T2 : TT None w2).
  { unfold TT, isC. rewrite Ex2, Cs2, Tv, execs_rev. split; [apply NoDup_rev; apply (po_nodup _ _ _ _ _ _ PS)|].
    intros x X. apply in_rev in X. destruct (po_cons _ _ _ _ _ _ PS x X) as [Y|[]]. left. exact Y. }
  pose proof (execute_scheduled_O gen wck ord RC OC P sf HS HWF HWO fuel w2 (conj P2 (conj K2 (conj Qq2 H2))) O2 T2) as X.
  destruct (execute_scheduled RC OC P fuel w2) as [u w3|k w3|]; cbn [bind okO okA] in *; [|exact NA|exact Logic.I].
  change (execs (trace (emit w3 EBuildEnd))) with (execs (trace w3)). apply X.
Qed.
End MO.

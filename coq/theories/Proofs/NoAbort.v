(* C20 (first clause) and the totality of C01: inside the static program class -- WFP (Stable.v) plus a well-founded require
   order [ord] and no panicking task -- a top-down build NEVER aborts: the cycle, hidden-dependency and overlapping-write
   diagnoses cannot fire, whatever the store has recorded in earlier states, and the build returns with fuel > ord(root).
   Invariant Q, per task a (also for executing and aborted tasks): required tasks are smaller in [ord]; written resources
   are a's own products; a generated resource that a read is recorded for has its generator among a's recorded requires. *)
From Coq Require Import List NArith ZArith Bool Lia.
From PieV Require Import Model.Dag Model.Build Proofs.DagLib Proofs.DagWF Proofs.DagPath Proofs.DagAddEdge Proofs.DagViews Proofs.DagQueries
  Proofs.DagNoFuel Proofs.Inv Proofs.StoreInv Proofs.History Proofs.Effects Proofs.Local Proofs.Local2 Proofs.ExecInv Proofs.ExecSession
  Proofs.Cert Proofs.Stable Proofs.NoBug4 Proofs.Sim.
Import ListNotations.
Open Scope N_scope.

Section Cl.
Variable gen : res -> option task.
Variable wck : rcid -> Prop.
Variable ord : task -> nat.

(* requires go down in [ord]; no Panic *)
Inductive WFO (t : task) : prog -> Prop :=
| WFO_ret o : WFO t (Ret o)
| WFO_req x c k : (ord x < ord t)%nat -> (forall v, WFO t (k v)) -> WFO t (Req x c k)
| WFO_read r c k : (forall v, WFO t (k v)) -> WFO t (Read r c k)
| WFO_write r c v k : (forall x, WFO t (k x)) -> WFO t (Write r c v k)
| WFO_wto r c v k : (forall x, WFO t (k x)) -> WFO t (WrittenTo r c v k).

(* x occurs in l strictly before (an occurrence of) y *)
Definition before (x y : node) (l : list node) : Prop := exists l1 l2, l = l1 ++ y :: l2 /\ In x l1.
Lemma before_in x y l : before x y l -> In x l.
Proof. intros [l1 [l2 [-> I]]]. apply in_or_app. left. exact I. Qed.
Lemma before_app x y l d : before x y l -> before x y (l ++ [d]).
Proof. intros [l1 [l2 [-> I]]]. exists l1, (l2 ++ [d]). split; [rewrite <- app_assoc; reflexivity|exact I]. Qed.

Definition QR (w : world) (a : task) : Prop :=
  (forall b, In (tn b) (kidsT w a) -> (ord b < ord a)%nat) /\
  (forall r dp, row w a (rn r) = Some dp -> is_write (Some dp) = true -> gen r = Some a) /\
  (forall r dp, row w a (rn r) = Some dp -> is_read (Some dp) = true ->
     gen r = None \/ exists g, gen r = Some g /\ before (tn g) (rn r) (kidsT w a)).
Definition Q (w : world) : Prop := forall a, QR w a.

Lemma QR_same w w' a : kidsT w' a = kidsT w a -> (forall d, row w' a d = row w a d) -> QR w a -> QR w' a.
Proof. intros K R [A [B C]]. unfold QR. rewrite K. split; [exact A|]. split; intros r dp X; rewrite R in X; [apply (B r dp X)|apply (C r dp X)]. Qed.
Lemma Q_same w w' : gr w' = gr w -> Q w -> Q w'.
Proof. intros G H a. apply (QR_same w); [unfold kidsT; rewrite G; reflexivity|intros d; unfold row; rewrite G; reflexivity|apply H]. Qed.
Lemma Q_leaf_other t w w' a : Leaf t w w' -> a <> t -> QR w a -> QR w' a.
Proof.
  intros L Hne. assert (X : tn a <> tn t) by (intros E; apply tn_inj in E; contradiction).
  apply QR_same; [apply (lf_grows _ _ _ L); exact X|intros d; apply (lf_eother _ _ _ L); exact X].
Qed.
Lemma QR_empty w a : kidsT w a = [] -> (forall d, row w a d = None) -> QR w a.
Proof. intros K R. unfold QR. rewrite K. split; [intros b []|]. split; intros r dp X; rewrite R in X; discriminate. Qed.
(* one more recorded dependency *)
Lemma QR_step t w w' d dp : RowStep t w w' d dp -> QR w t ->
  (forall x, d = tn x -> (ord x < ord t)%nat) ->
  (forall r, d = rn r -> is_write (Some dp) = true -> gen r = Some t) ->
  (forall r, d = rn r -> is_read (Some dp) = true -> gen r = None \/ exists g, gen r = Some g /\ In (tn g) (kidsT w t)) ->
  QR w' t.
Proof.
  intros [K [R1 R2]] [A [B C]] H1 H2 H3. unfold QR. rewrite K. split; [|split].
  - intros b Hb. apply in_app_or in Hb. destruct Hb as [Hb|[Hb|[]]]; [apply A; exact Hb|apply H1; exact Hb].
  - intros r dp' X W. destruct (N.eq_dec (rn r) d) as [E|Hne].
    + rewrite E, R1 in X. inversion X; subst dp'. apply (H2 r (eq_sym E) W).
    + rewrite R2 in X by exact Hne. apply (B r dp' X W).
  - intros r dp' X W. destruct (N.eq_dec (rn r) d) as [E|Hne].
    + rewrite E, R1 in X. inversion X; subst dp'. destruct (H3 r (eq_sym E) W) as [Y|[g [Y Z]]]; [left; exact Y|right; exists g; split; [exact Y|]].
      exists (kidsT w t), []. split; [rewrite E; reflexivity|exact Z].
    + rewrite R2 in X by exact Hne. destruct (C r dp' X W) as [Y|[g [Y Z]]]; [left; exact Y|right; exists g; split; [exact Y|apply before_app; exact Z]].
Qed.

(* ---- the three diagnoses cannot fire ---- *)
Lemma even_tn n : is_tn n = true -> n = tn (un n).
Proof. unfold is_tn, tn, un. intros H. apply N.even_spec in H. destruct H as [m ->]. rewrite N.div2_double. reflexivity. Qed.
Lemma un_tn t : un (tn t) = t. Proof. unfold un, tn. apply N.div2_double. Qed.

Lemma path_src_task w u v : StoreOK w -> path (gr w) u v -> is_tn u = true.
Proof.
  intros [W [T _]] Pth. assert (X : exists c, In c (kids_of (gr w) u)) by (destruct Pth; eexists; eassumption).
  destruct X as [c X]. apply (wf_edata _ W) in X. destruct (get_edata (gr w) u c) as [dp|] eqn:E; [|contradiction].
  apply (T _ _ _ E).
Qed.
Lemma path_ord w : StoreOK w -> Q w -> forall u v, path (gr w) u v -> forall a b, u = tn a -> v = tn b -> (ord b < ord a)%nat.
Proof.
  intros H Hq u v Pth. induction Pth as [u v E|u m v E Pth IH]; intros a b -> ->.
  - apply (proj1 (Hq a)). exact E.
  - pose proof (path_src_task w m (tn b) H Pth) as Tm. apply even_tn in Tm.
    assert (A1 : (ord (un m) < ord a)%nat) by (apply (proj1 (Hq a)); rewrite <- Tm; exact E).
    specialize (IH (un m) b Tm eq_refl). lia.
Qed.

Lemma no_cycle w t x dp : StoreOK w -> Q w -> (ord x < ord t)%nat -> fst (add_dependency w (tn t) (tn x) dp) <> AddCycle.
Proof.
  intros H Hq Ho. unfold add_dependency.
  destruct (live (gr w) (tn t)) eqn:Lt; [destruct (live (gr w) (tn x)) eqn:Lx|].
  - pose proof (add_edge_cycle_iff (gr w) (tn t) (tn x) dp (proj1 H) Lt Lx (add_edge_no_fuel _ _ _ _ (proj1 H))) as I.
    destruct (add_edge (gr w) (tn t) (tn x) dp) as [[b|[|]|] g'] eqn:AE; cbn [fst] in *; try discriminate.
    exfalso. destruct (proj1 I eq_refl) as [E|Pth]; [apply tn_inj in E; subst; lia|].
    pose proof (path_ord w H Hq _ _ Pth x t eq_refl eq_refl). lia.
  - unfold add_edge. rewrite Lt, Lx. cbn. discriminate.
  - unfold add_edge. rewrite Lt. cbn. discriminate.
Qed.

Lemma cte_edge w a b : StoreOK w -> In (tn b) (kids_of (gr w) (tn a)) -> contains_transitive_task_dependency w a b = Some true.
Proof.
  intros H E. unfold contains_transitive_task_dependency.
  destruct (contains_transitive_edge (gr w) (tn a) (tn b)) as [bb|] eqn:X; [|exfalso; exact (contains_transitive_edge_answers _ _ _ (proj1 H) X)].
  f_equal. apply (contains_transitive_edge_spec _ _ _ _ (proj1 H) X). apply path1. exact E.
Qed.

(* the recorded writer / readers of a resource, read off the incoming edges *)
Lemma writer_edge w r wr : StoreOK w -> get_task_writing_to_resource w r = Some wr ->
  exists dp, row w wr (rn r) = Some dp /\ is_write (Some dp) = true.
Proof.
  intros [W [T _]]. unfold get_task_writing_to_resource, incoming, get_incoming_edges.
  destruct (filter _ _) as [|[n d] tl] eqn:F; [discriminate|]. intros X. inversion X; subst wr.
  assert (I : In (n, d) (filter (fun p => is_write (snd p)) (map (fun p => (p, get_edata (gr w) p (rn r))) (pars_of (gr w) (rn r))))) by (rewrite F; left; reflexivity).
  apply filter_In in I. destruct I as [I Wd]. apply in_map_iff in I. destruct I as [p [E _]]. inversion E; subst n d. cbn [snd] in Wd.
  destruct (get_edata (gr w) p (rn r)) as [dp|] eqn:G; [|discriminate]. destruct (T _ _ _ G) as [Tp _]. apply even_tn in Tp.
  exists dp. split; [unfold row; rewrite <- Tp; exact G|exact Wd].
Qed.
Lemma reader_edge w r rd : StoreOK w -> In rd (get_tasks_reading_from_resource w r) ->
  exists dp, row w rd (rn r) = Some dp /\ is_read (Some dp) = true.
Proof.
  intros [W [T _]]. unfold get_tasks_reading_from_resource, incoming, get_incoming_edges. intros I.
  apply in_map_iff in I. destruct I as [[n d] [E I]]. cbn [fst] in E. subst rd.
  apply filter_In in I. destruct I as [I Rd]. apply in_map_iff in I. destruct I as [p [E _]]. inversion E; subst n d. cbn [snd] in Rd.
  destruct (get_edata (gr w) p (rn r)) as [dp|] eqn:G; [|discriminate]. destruct (T _ _ _ G) as [Tp _]. apply even_tn in Tp.
  exists dp. split; [unfold row; rewrite <- Tp; exact G|exact Rd].
Qed.

Lemma hidden_read_false w t r : StoreOK w -> Q w ->
  (gen r = None \/ exists g, gen r = Some g /\ In (tn g) (kidsT w t)) -> hidden_read_check w t r = false.
Proof.
  intros H Hq Hg. unfold hidden_read_check. destruct (get_task_writing_to_resource w r) as [wr|] eqn:Wr; [|reflexivity].
  destruct (writer_edge w r wr H Wr) as [dp [R Wd]]. pose proof (proj1 (proj2 (Hq wr)) r dp R Wd) as G.
  destruct Hg as [E|[g [E I]]]; [congruence|]. rewrite G in E. inversion E; subst g.
  rewrite (cte_edge w t wr H I). reflexivity.
Qed.

Lemma validate_write_none_class w t r : StoreOK w -> Q w -> gen r = Some t -> ~ In (rn r) (kidsT w t) -> validate_write w t r = None.
Proof.
  intros H Hq Hg Hn. unfold validate_write.
  assert (NoRow : forall dp, row w t (rn r) = Some dp -> False).
  { intros dp R. apply Hn. apply (wf_edata _ (proj1 H)). unfold row in R. congruence. }
  destruct (get_task_writing_to_resource w r) as [wr|] eqn:Wr.
  - exfalso. destruct (writer_edge w r wr H Wr) as [dp [R Wd]]. pose proof (proj1 (proj2 (Hq wr)) r dp R Wd) as G.
    rewrite Hg in G. inversion G; subst wr. exact (NoRow dp R).
  - destruct (existsb _ (get_tasks_reading_from_resource w r)) eqn:Ex; [|reflexivity]. exfalso.
    apply existsb_exists in Ex. destruct Ex as [rd [I X]].
    destruct (reader_edge w r rd H I) as [dp [R Rd]].
    destruct (proj2 (proj2 (Hq rd)) r dp R Rd) as [E|[g [E Ig]]]; [congruence|]. rewrite Hg in E. inversion E; subst g.
    rewrite (cte_edge w rd t H (before_in _ _ _ Ig)) in X. discriminate.
Qed.

Lemma QR_same_res w w' a : kidsT w' a = kidsT w a -> (forall r, row w' a (rn r) = row w a (rn r)) -> QR w a -> QR w' a.
Proof. intros K R [A [B C]]. unfold QR. rewrite K. split; [exact A|]. split; intros r dp X; rewrite R in X; [apply (B r dp X)|apply (C r dp X)]. Qed.
Lemma Q_goc_res w r : Q w -> Q (get_or_create_resource_node w r).
Proof. intros H a. destruct (goc_res_row w r a) as [A B]. apply (QR_same w); [exact A|exact B|apply H]. Qed.
Lemma Q_goc_task w x : Q w -> Q (get_or_create_task_node w x).
Proof. intros H a. destruct (goc_task_row w x a) as [A B]. apply (QR_same w); [exact A|exact B|apply H]. Qed.

Section Pass.
Variable RC : rcid -> rchecker.
Variable OC : ocid -> ochecker.
Variable P : task -> prog.
Variable sf : rcid -> res -> content -> Z.
Hypothesis HS : forall c env r v, rc_stamp (RC c) env r v = inl (sf c r v).
Hypothesis HWF : forall t, WFP gen wck t [] (P t).
Hypothesis HWO : forall t, WFO t (P t).
Let HNR : forall t, NR [] (P t). Proof. intros t. eapply WFP_NR. apply HWF. Qed.

(* the computation returns, in a world satisfying Q *)
Definition ret {A} (m : outcome A) : Prop := match m with Done _ w' => Q w' | _ => False end.

Lemma kids_goc_res w r t : kidsT (get_or_create_resource_node w r) t = kidsT w t.
Proof. apply (proj1 (goc_res_row w r t)). Qed.

Lemma sess_read_ret w t r c : StoreOK w -> cur w = Some t -> live (gr w) (tn t) = true -> Q w ->
  (gen r = None \/ exists g, gen r = Some g /\ In (tn g) (kidsT w t)) -> exists x w', sess_read RC w r c = Done x w'.
Proof.
  intros H Hc Lt Hq Hg. unfold sess_read. rewrite Hc.
  set (w2 := get_or_create_resource_node (emit w (EReadStart r c)) r).
  assert (H2 : StoreOK w2) by (apply goc_res_ok; exact H).
  assert (Q2 : Q w2) by (apply Q_goc_res; apply (Q_same w); [reflexivity|exact Hq]).
  assert (Hg2 : gen r = None \/ exists g, gen r = Some g /\ In (tn g) (kidsT w2 t)).
  { unfold w2. rewrite kids_goc_res. exact Hg. }
  rewrite (hidden_read_false w2 t r H2 Q2 Hg2). rewrite HS.
  assert (Lt2 : live (gr w2) (tn t) = true) by (apply (lf_grows _ _ _ (leaf_goc_res t (emit w (EReadStart r c)) r H)); exact Lt).
  pose proof (add_dep_not_bug (emit w2 (EReadEnd r c (sf c r (get_content w r)))) (tn t) (rn r) (DRead r c (sf c r (get_content w r))) (proj1 H2) Lt2 (live_goc_res _ r)) as NBg.
  destruct (add_dependency _ _ _ _) as [[| |] w4]; cbn [fst] in NBg; [eexists; eexists; reflexivity|eexists; eexists; reflexivity|congruence].
Qed.

Lemma sess_write_ret w t r c v : StoreOK w -> cur w = Some t -> live (gr w) (tn t) = true -> Q w ->
  gen r = Some t -> ~ In (rn r) (kidsT w t) -> exists x w', sess_write RC w r c v = Done x w'.
Proof.
  intros H Hc Lt Hq Hg Hn. unfold sess_write. rewrite Hc.
  set (w2 := get_or_create_resource_node (emit w (EWriteStart r c)) r).
  assert (H2 : StoreOK w2) by (apply goc_res_ok; exact H).
  assert (Q2 : Q w2) by (apply Q_goc_res; apply (Q_same w); [reflexivity|exact Hq]).
  assert (Hn2 : ~ In (rn r) (kidsT w2 t)) by (unfold w2; rewrite kids_goc_res; exact Hn).
  rewrite (validate_write_none_class w2 t r H2 Q2 Hg Hn2). rewrite HS.
  assert (Lt2 : live (gr w2) (tn t) = true) by (apply (lf_grows _ _ _ (leaf_goc_res t (emit w (EWriteStart r c)) r H)); exact Lt).
  set (st := sf c r (get_content (set_content w2 r v) r)).
  assert (G3 : gr (emit (set_content w2 r v) (EWriteEnd r c st)) = gr w2) by (destruct v; reflexivity).
  pose proof (add_dep_not_bug (emit (set_content w2 r v) (EWriteEnd r c st)) (tn t) (rn r) (DWrite r c st)
                ltac:(rewrite G3; exact (proj1 H2)) ltac:(rewrite G3; exact Lt2) ltac:(rewrite G3; apply live_goc_res)) as NBg.
  destruct (add_dependency _ _ _ _) as [[| |] w4]; cbn [fst] in NBg; [eexists; eexists; reflexivity|eexists; eexists; reflexivity|congruence].
Qed.

Lemma sess_written_to_ret w0 t r c v : StoreOK w0 -> cur w0 = Some t -> live (gr w0) (tn t) = true -> Q w0 ->
  gen r = Some t -> ~ In (rn r) (kidsT w0 t) -> exists x w', sess_written_to RC w0 r c v = Done x w'.
Proof.
  intros H Hc Lt Hq Hg Hn. unfold sess_written_to.
  set (w := set_content w0 r v).
  assert (G0 : gr w = gr w0) by (unfold w; destruct v; reflexivity).
  assert (Hc' : cur w = Some t) by (unfold w; destruct v; exact Hc). rewrite Hc'.
  set (w2 := get_or_create_resource_node (emit w (EWriteStart r c)) r).
  assert (Hw : StoreOK (emit w (EWriteStart r c))) by (unfold StoreOK; cbn [gr emit]; rewrite G0; exact H).
  assert (H2 : StoreOK w2) by (apply goc_res_ok; exact Hw).
  assert (Q2 : Q w2) by (apply Q_goc_res; apply (Q_same w0); [cbn [gr emit]; exact G0|exact Hq]).
  assert (Hn2 : ~ In (rn r) (kidsT w2 t)).
  { unfold w2. rewrite kids_goc_res. unfold kidsT. cbn [gr emit]. rewrite G0. exact Hn. }
  rewrite (validate_write_none_class w2 t r H2 Q2 Hg Hn2). rewrite HS.
  assert (Lt2 : live (gr w2) (tn t) = true).
  { apply (lf_grows _ _ _ (leaf_goc_res t (emit w (EWriteStart r c)) r Hw)). cbn [gr emit]. rewrite G0. exact Lt. }
  set (st := sf c r (get_content w2 r)).
  pose proof (add_dep_not_bug (emit w2 (EWriteEnd r c st)) (tn t) (rn r) (DWrite r c st) (proj1 H2) Lt2 (live_goc_res _ r)) as NBg.
  destruct (add_dependency _ _ _ _) as [[| |] w4]; cbn [fst] in NBg; [eexists; eexists; reflexivity|eexists; eexists; reflexivity|congruence].
Qed.

Definition QMC (mc : world -> task -> outcome Z) (f : nat) : Prop :=
  forall w t S, StoreOK w -> Inv2 w -> Chain w S -> entry_ok w S t -> Q w -> (ord t < f)%nat -> ret (mc w t).
Definition QREQ (t : task) (S : list task) (req : world -> task -> ocid -> outcome Z) : Prop :=
  forall w x c, Pre t S w -> live (gr w) (tn t) = true -> Q w -> (ord x < ord t)%nat -> ~ In (tn x) (kidsT w t) -> ret (req w x c).

Lemma require_with_Q mc f t S : MCspec mc -> QMC mc f -> (ord t <= f)%nat -> QREQ t S (require_with OC mc).
Proof.
  intros HM HQ Hf w x c PR Lt Hq Ho Hnew. pose proof (require_prefix RC OC P t S w x c PR) as RP. cbv zeta in RP.
  destruct PR as [H J0 C Hc Hout Hn]. unfold require_with.
  set (w2 := get_or_create_task_node (emit w (ERequireStart x c)) x) in *.
  destruct RP as [L2 [Hc2 RP]]. unfold reserve_require_dependency. rewrite Hc2.
  destruct (goc_task_row (emit w (ERequireStart x c)) x t) as [K2 R2]. fold w2 in K2, R2.
  assert (Q2 : Q w2) by (apply Q_goc_task; apply (Q_same w); [reflexivity|exact Hq]).
  assert (Lt2 : live (gr w2) (tn t) = true) by (apply (lf_grows _ _ _ L2); exact Lt).
  pose proof (add_dep_not_bug w2 (tn t) (tn x) DReserved (proj1 (lf_ok _ _ _ L2)) Lt2 (live_goc_task _ x)) as NBg.
  pose proof (no_cycle w2 t x DReserved (lf_ok _ _ _ L2) Q2 Ho) as NCy.
  destruct (add_dependency w2 (tn t) (tn x) DReserved) as [[| |] w3] eqn:AD; cbn [fst bind] in *; try congruence.
  destruct RP as [L3 [E3 [C3 [J3 [Ho3 Hc3]]]]].
  assert (Hn2 : ~ In (tn x) (kids_of (gr w2) (tn t))) by (unfold kidsT in *; rewrite K2; exact Hnew).
  destruct (add_dep_new w2 (tn t) (tn x) DReserved w3 (proj1 (lf_ok _ _ _ L2)) Hn2 AD) as [A3 [B3 D3]].
  assert (Q3 : Q w3).
  { intros a. destruct (N.eq_dec a t) as [->|Hne]; [|apply (Q_leaf_other t w w3 a L3 Hne); apply Hq].
    apply (QR_step t w w3 (tn x) DReserved); [|apply Hq| | |].
    - unfold RowStep, kidsT, row. split; [rewrite A3; f_equal; exact K2|]. split; [exact B3|]. intros d' Hd. rewrite D3 by exact Hd. apply R2.
    - intros y E. apply tn_inj in E. subst y. exact Ho.
    - intros r E. exfalso. exact (tn_rn _ _ E).
    - intros r E. exfalso. exact (tn_rn _ _ E). }
  pose proof (HM w3 x (t :: S) (lf_ok _ _ _ L3) J3 C3 E3) as M.
  pose proof (HQ w3 x (t :: S) (lf_ok _ _ _ L3) J3 C3 E3 Q3 ltac:(lia)) as MQ.
  destruct (mc w3 x) as [o w4|k w4|]; cbn [bind ret okP] in *; try contradiction.
  destruct M as [[s4 P4] [Hc4 _]]. rewrite Hc3 in Hc4.
  set (st := oc_stamp (OC c) o). set (w5 := emit w4 (ERequireEnd x c st o)).
  unfold update_require_dependency. change (cur w5) with (cur w4). rewrite Hc4.
  assert (E5 : get_edata (gr w5) (tn t) (tn x) <> None).
  { change (gr w5) with (gr w4). rewrite (po_eframe _ _ _ _ _ _ P4) by (left; reflexivity). unfold row in B3. congruence. }
  destruct (get_edata (gr w5) (tn t) (tn x)) as [dd|]; [|contradiction]. cbn [bind ret].
  intros a. apply (QR_same_res w4); [reflexivity| |apply MQ].
  intros r. unfold row. cbn [gr set_gr]. rewrite get_edata_insert.
  destruct (pair_eqb (tn t, tn x) (tn a, rn r)) eqn:Z; [|reflexivity]. apply pair_eqb_eq in Z. inversion Z as [[Z1 Z2]]. exfalso. exact (tn_rn _ _ Z2).
Qed.

Lemma exec_prog_Q t S req : REQspec t S req -> QREQ t S req -> ROWREQ OC t S req ->
  forall p w, Pre t S w -> live (gr w) (tn t) = true -> Q w -> WFP gen wck t (kidsT w t) p -> WFO t p -> ret (exec_prog RC OC req p w).
Proof.
  intros HR HQ HRow. induction p as [o| |x c k IH|r c k IH|r c v k IH|r c v k IH]; intros w PR Lt Hq HW HO; cbn [exec_prog].
  - exact Hq.
  - inversion HO.
  - inversion HW as [| |sn x' c' k' Hx Hk| | |]; subst. inversion HO as [|x' c' k' Hox Hok| | |]; subst.
    pose proof (HR w x c (pre_ok _ _ _ PR) (pre_inv _ _ _ PR) (pre_chain _ _ _ PR) (pre_cur _ _ _ PR) (pre_out _ _ _ PR) (pre_nores _ _ _ PR)) as SP.
    pose proof (HQ w x c PR Lt Hq Hox Hx) as RQ. pose proof (HRow w x c) as RW.
    destruct (req w x c) as [ox w1|k1 w1|]; cbn [bind ret] in *; try contradiction.
    destruct (RW ox w1 PR Hx eq_refl) as [A _].
    apply IH; [eapply (pre_step t S w); eassumption|eapply (step_live t S w); eassumption|exact RQ|rewrite A; apply Hk|apply Hok].
  - inversion HW as [| | |sn r' c' k' Hx Hg Hk| |]; subst. inversion HO as [| |r' c' k' Hok| |]; subst.
    destruct (sess_read_ret w t r c (pre_ok _ _ _ PR) (pre_cur _ _ _ PR) Lt Hq Hg) as [xv [w1 Eq]].
    pose proof (sess_read_leaf RC w t r c (pre_ok _ _ _ PR) (pre_cur _ _ _ PR)) as LF.
    pose proof (sess_read_nores RC w t r c (pre_ok _ _ _ PR) (pre_cur _ _ _ PR) (pre_nores _ _ _ PR)) as NRs.
    pose proof (okP_of_leafO S t w (sess_read RC w r c) (chain_head_notin _ _ _ (pre_chain _ _ _ PR)) (pre_cur _ _ _ PR) (pre_out _ _ _ PR) (pre_nores _ _ _ PR) LF NRs) as SP.
    destruct (sess_read_row RC sf HS w t r c xv w1 (pre_ok _ _ _ PR) (pre_cur _ _ _ PR) Hx Eq) as [_ RS].
    rewrite Eq in *. cbn [bind leafO] in *.
    apply IH; [eapply (pre_step t S w); eassumption|eapply (step_live t S w); eassumption| |rewrite (proj1 RS); apply Hk|apply Hok].
    intros a. destruct (N.eq_dec a t) as [->|Hne]; [|apply (Q_leaf_other t w w1 a LF Hne); apply Hq].
    apply (QR_step t w w1 _ _ RS (Hq t)).
    + intros y E. exfalso. symmetry in E. exact (tn_rn _ _ E).
    + intros r0 _ X. discriminate.
    + intros r0 E _. assert (r0 = r) by (unfold rn in E; lia). subst r0. exact Hg.
  - inversion HW as [| | | |sn r' c' v' k' Hx Hg Hwc Hk|]; subst. inversion HO as [| | |r' c' v' k' Hok|]; subst.
    destruct (sess_write_ret w t r c v (pre_ok _ _ _ PR) (pre_cur _ _ _ PR) Lt Hq Hg Hx) as [xv [w1 Eq]].
    pose proof (sess_write_leaf RC w t r c v (pre_ok _ _ _ PR) (pre_cur _ _ _ PR)) as LF.
    pose proof (sess_write_nores RC w t r c v (pre_ok _ _ _ PR) (pre_cur _ _ _ PR) (pre_nores _ _ _ PR)) as NRs.
    pose proof (okP_of_leafO S t w (sess_write RC w r c v) (chain_head_notin _ _ _ (pre_chain _ _ _ PR)) (pre_cur _ _ _ PR) (pre_out _ _ _ PR) (pre_nores _ _ _ PR) LF NRs) as SP.
    destruct (sess_write_row RC sf HS w t r c v xv w1 (pre_ok _ _ _ PR) (pre_cur _ _ _ PR) Hx Eq) as [_ RS].
    rewrite Eq in *. cbn [bind leafO] in *.
    apply IH; [eapply (pre_step t S w); eassumption|eapply (step_live t S w); eassumption| |rewrite (proj1 RS); apply Hk|apply Hok].
    intros a. destruct (N.eq_dec a t) as [->|Hne]; [|apply (Q_leaf_other t w w1 a LF Hne); apply Hq].
    apply (QR_step t w w1 _ _ RS (Hq t)).
    + intros y E. exfalso. symmetry in E. exact (tn_rn _ _ E).
    + intros r0 E _. assert (r0 = r) by (unfold rn in E; lia). subst r0. exact Hg.
    + intros r0 _ X. discriminate.
  - inversion HW as [| | | | |sn r' c' v' k' Hx Hg Hwc Hk]; subst. inversion HO as [| | | |r' c' v' k' Hok]; subst.
    destruct (sess_written_to_ret w t r c v (pre_ok _ _ _ PR) (pre_cur _ _ _ PR) Lt Hq Hg Hx) as [xv [w1 Eq]].
    pose proof (sess_written_to_leaf RC w t r c v (pre_ok _ _ _ PR) (pre_cur _ _ _ PR)) as LF.
    pose proof (sess_written_to_nores RC w t r c v (pre_ok _ _ _ PR) (pre_cur _ _ _ PR) (pre_nores _ _ _ PR)) as NRs.
    pose proof (okP_of_leafO S t w (sess_written_to RC w r c v) (chain_head_notin _ _ _ (pre_chain _ _ _ PR)) (pre_cur _ _ _ PR) (pre_out _ _ _ PR) (pre_nores _ _ _ PR) LF NRs) as SP.
    destruct (sess_written_to_row RC sf HS w t r c v xv w1 (pre_ok _ _ _ PR) (pre_cur _ _ _ PR) Hx Eq) as [_ RS].
    rewrite Eq in *. cbn [bind leafO] in *.
    apply IH; [eapply (pre_step t S w); eassumption|eapply (step_live t S w); eassumption| |rewrite (proj1 RS); apply Hk|apply Hok].
    intros a. destruct (N.eq_dec a t) as [->|Hne]; [|apply (Q_leaf_other t w w1 a LF Hne); apply Hq].
    apply (QR_step t w w1 _ _ RS (Hq t)).
    + intros y E. exfalso. symmetry in E. exact (tn_rn _ _ E).
    + intros r0 E _. assert (r0 = r) by (unfold rn in E; lia). subst r0. exact Hg.
    + intros r0 _ X. discriminate.
Qed.

Lemma execute_with_Q t S req : REQspec t S req -> QREQ t S req -> ROWREQ OC t S req ->
  forall w, StoreOK w -> Inv2 w -> Chain w (t :: S) -> memN t (consistent w) = false -> live (gr w) (tn t) = true -> Q w ->
  ret (execute_with RC OC P req w t).
Proof.
  intros HR HQ HRow w H J0 C Hn Lt Hq. destruct (exec_start_pre OC t S w H J0 C Hn) as [PR2 [_ [KT2 _]]]. unfold execute_with.
  set (w2 := emit (set_cur (reset_task w t) (Some t)) (EExecStart t)) in *.
  destruct (reset_task_facts w t H) as [_ [K1 [L1 [_ [_ [_ [E1 [E0 _]]]]]]]].
  assert (Lt2 : live (gr w2) (tn t) = true) by (apply L1; exact Lt).
  assert (Q2 : Q w2).
  { intros a. destruct (N.eq_dec a t) as [->|Hne].
    - apply QR_empty; [exact KT2|intros d; apply E0].
    - assert (X : tn a <> tn t) by (intros E; apply tn_inj in E; contradiction).
      apply (QR_same w); [apply K1; exact X|intros d; apply E1; exact X|apply Hq]. }
  pose proof (exec_prog_Q t S req HR HQ HRow (P t) w2 PR2 Lt2 Q2) as X. rewrite KT2 in X. specialize (X (HWF t) (HWO t)).
  destruct (exec_prog RC OC req (P t) w2) as [o w3|k w3|]; cbn [bind ret] in *; try contradiction.
  apply (Q_same w3); [reflexivity|exact X].
Qed.

Lemma check_deps_Q mc f t S : MCspec mc -> QMC mc f -> (ord t <= f)%nat ->
  forall ds w, StoreOK w -> Inv2 w -> Chain w (t :: S) -> (forall d, In d ds -> dep_ok w t d) -> Q w ->
  ret (check_deps RC OC mc ds w).
Proof.
  intros HM HQ Hf. induction ds as [|d tl IH]; intros w H J0 C HE Hq; cbn [check_deps]; [exact Hq|].
  destruct (HE d (or_introl eq_refl)) as [dp [-> [NRs HX]]].
  assert (HE' : forall w', kids_of (gr w') (tn t) = kids_of (gr w) (tn t) -> forall d, In d tl -> dep_ok w' t d).
  { intros w' Kk d Hd. destruct (HE d (or_intror Hd)) as [dp' [-> [NR' HX']]]. exists dp'. split; [reflexivity|]. split; [exact NR'|].
    intros x c st E. unfold edge. rewrite Kk. apply (HX' x c st E). }
  destruct dp as [|x c st|r c st|r c st]; [congruence| | |].
  - set (w1 := emit w (ECheckTaskStart x c st)).
    assert (P1 : Post (t :: S) [] [] w w1 [ECheckTaskStart x c st]) by (apply post_emit; [exact H|exact Logic.I]).
    assert (C1 : Chain w1 (t :: S)) by (apply (chain_post_all w w1 _ _ _ C P1)).
    assert (E1 : entry_ok w1 (t :: S) x) by (cbn; apply (HX x c st eq_refl)).
    assert (Ox : (ord x < ord t)%nat) by (apply (proj1 (Hq t)); apply (HX x c st eq_refl)).
    pose proof (HM w1 x (t :: S) H (po_inv _ _ _ _ _ _ P1 J0) C1 E1) as M.
    pose proof (HQ w1 x (t :: S) H (po_inv _ _ _ _ _ _ P1 J0) C1 E1 ltac:(apply (Q_same w); [reflexivity|exact Hq]) ltac:(lia)) as MQ.
    destruct (mc w1 x) as [o w2|k w2|]; cbn [bind ret okP] in *; try contradiction.
    destruct M as [[s2 P2] _].
    destruct (oc_check (OC c) o st); [|apply (Q_same w2); [reflexivity|exact MQ]].
    apply IH.
    + apply (po_ok _ _ _ _ _ _ P2).
    + apply (po_inv _ _ _ _ _ _ P2). apply (po_inv _ _ _ _ _ _ P1 J0).
    + pose proof (chain_post_all w1 w2 (t :: S) [] s2 C1 P2) as [N2 C2']. split; [exact N2|].
      apply (chain_frame w2 _); [exact C2'|]. intros; reflexivity.
    + apply HE'. cbn [gr emit]. apply (po_frame _ _ _ _ _ _ P2). left. reflexivity.
    + apply (Q_same w2); [reflexivity|exact MQ].
  - unfold check_resource_td. cbv zeta.
    destruct (rc_check _ _ _ _ _); cbv iota beta; cbn [ret]; [|apply (Q_same w); [reflexivity|exact Hq]|apply (Q_same w); [reflexivity|exact Hq]].
    apply IH; [exact H|exact J0| |apply HE'; reflexivity|apply (Q_same w); [reflexivity|exact Hq]].
    destruct C as [N C]. split; [exact N|]. apply (chain_frame w _); [exact C|]. intros; reflexivity.
  - unfold check_resource_td. cbv zeta.
    destruct (rc_check _ _ _ _ _); cbv iota beta; cbn [ret]; [|apply (Q_same w); [reflexivity|exact Hq]|apply (Q_same w); [reflexivity|exact Hq]].
    apply IH; [exact H|exact J0| |apply HE'; reflexivity|apply (Q_same w); [reflexivity|exact Hq]].
    destruct C as [N C]. split; [exact N|]. apply (chain_frame w _); [exact C|]. intros; reflexivity.
Qed.

(* make_task_consistent returns whenever the fuel exceeds the task's height in the require order *)
Theorem make_consistent_td_Q fuel : QMC (make_consistent_td RC OC P fuel) fuel.
Proof.
  induction fuel as [|f IH]; intros w t S H J0 C E Hq Hf; [lia|]. cbn [make_consistent_td].
  pose proof (goc_task_post S w t H) as P0.
  set (w0 := get_or_create_task_node w t) in *.
  assert (Q0 : Q w0) by (apply Q_goc_task; exact Hq).
  pose proof (po_ok _ _ _ _ _ _ P0) as H0. pose proof (po_inv _ _ _ _ _ _ P0 J0) as J1.
  pose proof (chain_post_all w w0 S [] [] C P0) as C0.
  assert (E0 : entry_ok w0 S t).
  { destruct S as [|top tl]; [exact Logic.I|]. cbn in *. unfold edge in *. rewrite (po_frame _ _ _ _ _ _ P0) by (left; reflexivity). exact E. }
  pose proof (entry_not_in w0 S t (proj1 H0) C0 E0) as Ht.
  assert (C1 : Chain w0 (t :: S)).
  { destruct C0 as [N0 K0']. split; [constructor; assumption|]. destruct S as [|top tl]; [exact Logic.I|]. split; [exact E0|exact K0']. }
  assert (Lt0 : live (gr w0) (tn t) = true) by apply live_goc_task.
  pose proof (make_consistent_td_spec RC OC P f) as HM.
  pose proof (require_with_spec RC OC P (make_consistent_td RC OC P f) t S HM) as HR.
  pose proof (require_with_Q (make_consistent_td RC OC P f) f t S HM IH ltac:(lia)) as HQq.
  pose proof (require_with_row RC OC P (make_consistent_td RC OC P f) t S HM) as HRow.
  assert (EM : forall w', StoreOK w' -> Inv2 w' -> Chain w' (t :: S) -> memN t (consistent w') = false -> live (gr w') (tn t) = true -> Q w' ->
               ret (bind (execute_with RC OC P (require_with OC (make_consistent_td RC OC P f)) w' t) (fun o w2 => Done o (mark_consistent w2 t)))).
  { intros w' A1 A2 A3 A4 A5 A6. pose proof (execute_with_Q t S _ HR HQq HRow w' A1 A2 A3 A4 A5 A6) as X.
    destruct (execute_with RC OC P (require_with OC (make_consistent_td RC OC P f)) w' t) as [o w2|k w2|]; cbn [bind ret] in *; try contradiction.
    apply (Q_same w2); [reflexivity|exact X]. }
  destruct (memN t (consistent w0)) eqn:Hm.
  - destruct (get_task_output w0 t) eqn:Ho; cbn [ret]; [exact Q0|]. apply (proj2 J1 t Hm). exact Ho.
  - destruct (get_task_output w0 t) as [o0|] eqn:Ho.
    + pose proof (check_deps_spec RC OC (make_consistent_td RC OC P f) t S HM (deps_of_task w0 t) w0 H0 J1 C1 (deps_ok w0 t o0 H0 J1 Ho)) as CD.
      pose proof (check_deps_Q (make_consistent_td RC OC P f) f t S HM IH ltac:(lia) (deps_of_task w0 t) w0 H0 J1 C1 (deps_ok w0 t o0 H0 J1 Ho) Q0) as CQ.
      destruct (check_deps RC OC (make_consistent_td RC OC P f) (deps_of_task w0 t) w0) as [ok w1|k w1|]; cbn [bind ret okP] in *; try contradiction.
      destruct CD as [[s1 P1] _].
      destruct (if ok then get_task_output w1 t else None); cbn [ret]; [apply (Q_same w1); [reflexivity|exact CQ]|].
      apply EM; [apply (po_ok _ _ _ _ _ _ P1)|apply (po_inv _ _ _ _ _ _ P1 J1)|eapply chain_post_all; eassumption| |apply (po_live _ _ _ _ _ _ P1); exact Lt0|exact CQ].
      destruct (memN t (consistent w1)) eqn:Z; [|reflexivity]. apply (po_keep _ _ _ _ _ _ P1) in Z; [congruence|left; left; reflexivity].
    + apply EM; assumption.
Qed.

(* ---- sessions and histories ---- *)
Variable always : ocid.
Lemma Q_init : Q init_world.
Proof. intros a. apply QR_empty; reflexivity. Qed.

Lemma session_require_Q fuel w t : StoreOK w -> Inv2 w -> Q w -> (ord t < fuel)%nat -> ret (session_require RC OC P always fuel w t).
Proof.
  intros H J0 Hq Hf. unfold session_require, require_td, require_with.
  set (w1 := emit (set_cur w None) EBuildStart).
  set (w2 := get_or_create_task_node (emit w1 (ERequireStart t always)) t).
  assert (P2 : Post [] [] [] w1 w2 ([ERequireStart t always] ++ [])).
  { eapply post_seq; [apply post_emit; [exact H|exact Logic.I]|apply goc_task_post; exact H]. }
  assert (Hc2 : cur w2 = None) by (unfold w2, get_or_create_task_node; destruct (live _ _); reflexivity).
  assert (Q2 : Q w2) by (apply Q_goc_task; apply (Q_same w); [reflexivity|exact Hq]).
  unfold reserve_require_dependency. rewrite Hc2. cbn [bind].
  pose proof (make_consistent_td_spec RC OC P fuel w2 t [] (po_ok _ _ _ _ _ _ P2) (po_inv _ _ _ _ _ _ P2 J0) (chain_nil w2) Logic.I) as M.
  pose proof (make_consistent_td_Q fuel w2 t [] (po_ok _ _ _ _ _ _ P2) (po_inv _ _ _ _ _ _ P2 J0) (chain_nil w2) Logic.I Q2 Hf) as MQ.
  destruct (make_consistent_td RC OC P fuel w2 t) as [o w4|k w4|]; cbn [bind ret okP] in *; try contradiction.
  destruct M as [_ [Hc4 _]]. unfold update_require_dependency.
  change (cur (emit w4 (ERequireEnd t always (oc_stamp (OC always) o) o))) with (cur w4). rewrite Hc4, Hc2. cbn [bind ret].
  apply (Q_same w4); [reflexivity|exact MQ].
Qed.

(* the roots a session requires *)
Fixpoint roots_below (fuel : nat) (ops : list sop) : Prop :=
  match ops with [] => True | SRequire t :: tl => (ord t < fuel)%nat /\ roots_below fuel tl | SBottomUp _ :: _ => False end.
Lemma roots_td fuel ops : roots_below fuel ops -> td_only ops.
Proof. induction ops as [|[t|ch] tl IH]; cbn; [tauto|intros [_ X]; apply IH; exact X|tauto]. Qed.

Theorem session_returns fuel ops : forall w, roots_below fuel ops -> J w -> Q w ->
  Forall Sim.is_done (fst (run_session RC OC P always fuel w ops)) /\ J (snd (run_session RC OC P always fuel w ops)) /\ Q (snd (run_session RC OC P always fuel w ops)).
Proof.
  induction ops as [|o tl IH]; intros w RB Jw Hq; cbn [run_session]; [split; [constructor|split; assumption]|].
  destruct o as [t|ch]; [|destruct RB]. destruct RB as [Hf RB]. cbn [run_sop].
  pose proof (session_require_Q fuel w t (proj1 Jw) (proj2 Jw) Hq Hf) as SQ.
  pose proof (session_require_execs RC OC P always fuel w t Jw) as SE.
  destruct (session_require RC OC P always fuel w t) as [x w1|k w1|]; cbn [ret] in SQ; try contradiction.
  destruct SE as [J1 _]. specialize (IH w1 RB J1 SQ).
  destruct (run_session RC OC P always fuel w1 tl) as [rs w2]. cbn [fst snd] in *.
  destruct IH as [A [B C]]. split; [constructor; [eexists; reflexivity|exact A]|split; assumption].
Qed.

Fixpoint hist_below (fuel : nat) (h : list step) : Prop :=
  match h with [] => True | HSession ops :: tl => roots_below fuel ops /\ hist_below fuel tl | _ :: tl => hist_below fuel tl end.
Lemma hist_td fuel h : hist_below fuel h -> td_hist h.
Proof. induction h as [|[r v|f|ops] tl IH]; cbn; [tauto|exact IH|exact IH|intros [A B]; split; [eapply roots_td; exact A|apply IH; exact B]]. Qed.

(* C20, first clause: in the static class no session of any history aborts, for any reason; every require returns *)
Theorem history_returns fuel h : forall w, hist_below fuel h -> J w -> Q w ->
  Forall (Forall Sim.is_done) (fst (run_history RC OC P always fuel w h)) /\
  J (snd (run_history RC OC P always fuel w h)) /\ Q (snd (run_history RC OC P always fuel w h)).
Proof.
  induction h as [|s tl IH]; intros w HB Jw Hq; cbn [run_history]; [split; [constructor|split; assumption]|].
  assert (X : Forall Sim.is_done (fst (run_step RC OC P always fuel w s)) /\ J (snd (run_step RC OC P always fuel w s)) /\ Q (snd (run_step RC OC P always fuel w s))).
  { destruct s as [r v|f|ops]; cbn [run_step fst snd].
    - split; [constructor|]. split; [apply J_set_content; exact Jw|apply (Q_same w); [destruct v; reflexivity|exact Hq]].
    - split; [constructor|]. split; [exact Jw|apply (Q_same w); [reflexivity|exact Hq]].
    - destruct HB as [RB _]. apply session_returns; [exact RB|apply J_new_session; exact Jw|apply (Q_same w); [reflexivity|exact Hq]]. }
  assert (HB' : hist_below fuel tl) by (destruct s; [exact HB|exact HB|exact (proj2 HB)]).
  destruct (run_step RC OC P always fuel w s) as [r w']. cbn [fst snd] in X. destruct X as [A [B C]].
  specialize (IH w' HB' B C). destruct (run_history RC OC P always fuel w' tl) as [rs w'']. cbn [fst snd] in *.
  destruct IH as [A' [B' C']]. split; [constructor; assumption|split; assumption].
Qed.
End Pass.
End Cl.

(* C20 (first clause) for EVERY history: inside the static program class -- WFP (a generated resource is read only after a
   direct require of its generator; tasks write only their own products) plus a well-founded require order [ord] and no
   panicking task -- NO build ever aborts: top-down, bottom-up and mixed sessions, whatever was built before.
   (The cycle, hidden-dependency and overlapping-write diagnoses cannot fire; internal errors: NoBugAll.v.)
   Anchor-style pass carrying the bundle VPre (NoBugAll) /\ K (CertAll) /\ Q (NoAbort.v). *)
From Coq Require Import List NArith ZArith Bool Lia Permutation.
From PieV Require Import Model.Dag Model.Build Proofs.DagLib Proofs.DagWF Proofs.DagPath Proofs.DagQueries Proofs.StoreInv
  Proofs.Sorting Proofs.Effects Proofs.Inv Proofs.History Proofs.ExecInv Proofs.ExecSession Proofs.Cert Proofs.Stable Proofs.NoBug4 Proofs.NoAbort
  Proofs.NoBug4All Proofs.Trace Proofs.BuJust Proofs.BuOnce Proofs.NoReentry Proofs.NoBugAll Proofs.CertAll.
Import ListNotations.
Open Scope N_scope.

Section NA.
Variable gen : res -> option task.
Variable wck : rcid -> Prop.
Variable ord : task -> nat.
Variable RC : rcid -> rchecker.
Variable OC : ocid -> ochecker.
Variable P : task -> prog.
Variable sf : rcid -> res -> content -> Z.
Hypothesis HS : forall c env r v, rc_stamp (RC c) env r v = inl (sf c r v).
Hypothesis HWF : forall t, WFP gen wck t [] (P t).
Hypothesis HWO : forall t, WFO ord t (P t).
Let HNR : forall t, NR [] (P t). Proof. intros t. eapply WFP_NR. apply HWF. Qed.

Notation K := (K RC OC P sf).
Notation Q := (Q gen ord).
Notation QR := (QR gen ord).

Definition okA {A} (m : outcome A) : Prop := match m with Done _ w' => Q w' | Abort _ _ => False | OutOfFuel => True end.

Definition AREQ (req : world -> task -> ocid -> outcome Z) : Prop :=
  forall w x c, VPre (cur w) w -> K w -> Q w -> (forall t, cur w = Some t -> (ord x < ord t)%nat /\ ~ In (tn x) (kidsT w t)) -> okA (req w x c).
Definition AMC (mc : world -> task -> outcome Z) : Prop :=
  forall a w t, VPre a w -> live (gr w) (tn t) = true -> reach a w t -> K w -> Q w -> okA (mc w t).

Lemma geq_Q w w' : geq w w' -> Q w -> Q w'.
Proof. intros G H a. apply (QR_same gen ord w); [apply G|intros d; apply G|apply H]. Qed.

Lemma cur_live a w t : VPre a w -> cur w = Some t -> live (gr w) (tn t) = true.
Proof. intros Hw Hc. apply (proj1 (proj2 (proj1 (proj1 Hw)))). exact Hc. Qed.

Lemma exec_prog_A req t : VREQ req -> QREQ RC OC P sf req -> AREQ req ->
  forall p w, VPre (Some t) w -> cur w = Some t -> K w -> Q w -> WFP gen wck t (kidsT w t) p -> WFO ord t p -> okA (exec_prog RC OC req p w).
Proof.
  intros [[HreqR HreqN] HreqV] [HQ HRow] HA. induction p as [o| |x c k IH|r c k IH|r c v k IH|r c v k IH]; intros w Hw Hc Kw Hq HW HO; cbn [exec_prog].
  - exact Hq.
  - inversion HO.
  - inversion HW as [| |sn x' c' k' Hx Hk| | |]; subst. inversion HO as [|x' c' k' Hox Hok| | |]; subst.
    assert (Hw' : VPre (cur w) w) by (rewrite Hc; exact Hw).
    pose proof (HQ w x c Hw' Kw) as KQ. pose proof (HRow w x c t) as RQ.
    pose proof (HA w x c Hw' Kw Hq ltac:(intros t' X; rewrite Hc in X; inversion X; subst t'; split; assumption)) as AQ.
    pose proof (step_pre (cur w) w (req w x c)) as SP.
    specialize (SP) with (1 := Hw') (2 := HreqR w x c (proj1 (proj1 Hw))) (3 := HreqN w x c (proj1 Hw')) (4 := HreqV w x c Hw').
    destruct (req w x c) as [ox w1|k1 w1|]; cbn [bind outQ okA] in *; [|exact AQ|exact Logic.I].
    destruct (SP ox w1 eq_refl) as [P1 [C1 _]]. rewrite Hc in P1, C1. destruct KQ as [K1 _].
    destruct (RQ ox w1 Hw' Kw Hc Hx eq_refl) as [A _].
    apply IH; [exact P1|exact C1|exact K1|exact AQ|rewrite A; apply Hk|apply Hok].
  - inversion HW as [| | |sn r' c' k' Hx Hg Hk| |]; subst. inversion HO as [| |r' c' k' Hok| |]; subst.
    destruct (sess_read_ret gen ord RC sf HS w t r c (proj1 (proj1 (proj1 Hw))) Hc (cur_live _ w t Hw Hc) Hq Hg) as [xv [w1 Eq]].
    pose proof (sess_read_leaf RC w t r c (proj1 (proj1 (proj1 Hw))) Hc) as LF.
    pose proof (step_pre (Some t) w (sess_read RC w r c)) as SP.
    specialize (SP) with (1 := Hw) (2 := sess_read_R RC w r c (proj1 (proj1 Hw))) (3 := q3O_okN (Some t) w _ (sess_read_q3 RC w r c (proj1 (proj1 Hw))) (proj2 (proj2 (proj1 Hw))))
                         (4 := lvO_okV (Some t) w _ (sess_read_lv RC w r c (proj1 (proj1 Hw))) (proj2 Hw)).
    destruct (sess_read_row RC sf HS w t r c xv w1 (proj1 (proj1 (proj1 Hw))) Hc Hx Eq) as [_ RS].
    rewrite Eq in *. cbn [bind leafO] in *. destruct (SP xv w1 eq_refl) as [P1 [C1 _]]. rewrite Hc in C1.
    apply IH; [exact P1|exact C1|apply (leaf_K RC OC P sf t w w1 LF (cur_no_output _ w t Hw Hc) Kw)| |rewrite (proj1 RS); apply Hk|apply Hok].
    intros a. destruct (N.eq_dec a t) as [->|Hne]; [|apply (Q_leaf_other gen ord t w w1 a LF Hne); apply Hq].
    apply (QR_step gen ord t w w1 _ _ RS (Hq t)).
    + intros y E. exfalso. symmetry in E. exact (tn_rn _ _ E).
    + intros r0 _ X. discriminate.
    + intros r0 E _. assert (r0 = r) by (unfold rn in E; lia). subst r0. exact Hg.
  - inversion HW as [| | | |sn r' c' v' k' Hx Hg Hwc Hk|]; subst. inversion HO as [| | |r' c' v' k' Hok|]; subst.
    destruct (sess_write_ret gen ord RC sf HS w t r c v (proj1 (proj1 (proj1 Hw))) Hc (cur_live _ w t Hw Hc) Hq Hg Hx) as [xv [w1 Eq]].
    pose proof (sess_write_leaf RC w t r c v (proj1 (proj1 (proj1 Hw))) Hc) as LF.
    pose proof (step_pre (Some t) w (sess_write RC w r c v)) as SP.
    specialize (SP) with (1 := Hw) (2 := sess_write_R RC w r c v (proj1 (proj1 Hw))) (3 := q3O_okN (Some t) w _ (sess_write_q3 RC w r c v (proj1 (proj1 Hw))) (proj2 (proj2 (proj1 Hw))))
                         (4 := lvO_okV (Some t) w _ (sess_write_lv RC w r c v (proj1 (proj1 Hw))) (proj2 Hw)).
    destruct (sess_write_row RC sf HS w t r c v xv w1 (proj1 (proj1 (proj1 Hw))) Hc Hx Eq) as [_ RS].
    rewrite Eq in *. cbn [bind leafO] in *. destruct (SP xv w1 eq_refl) as [P1 [C1 _]]. rewrite Hc in C1.
    apply IH; [exact P1|exact C1|apply (leaf_K RC OC P sf t w w1 LF (cur_no_output _ w t Hw Hc) Kw)| |rewrite (proj1 RS); apply Hk|apply Hok].
    intros a. destruct (N.eq_dec a t) as [->|Hne]; [|apply (Q_leaf_other gen ord t w w1 a LF Hne); apply Hq].
    apply (QR_step gen ord t w w1 _ _ RS (Hq t)).
    + intros y E. exfalso. symmetry in E. exact (tn_rn _ _ E).
    + intros r0 E _. assert (r0 = r) by (unfold rn in E; lia). subst r0. exact Hg.
    + intros r0 _ X. discriminate.
  - inversion HW as [| | | | |sn r' c' v' k' Hx Hg Hwc Hk]; subst. inversion HO as [| | | |r' c' v' k' Hok]; subst.
    destruct (sess_written_to_ret gen ord RC sf HS w t r c v (proj1 (proj1 (proj1 Hw))) Hc (cur_live _ w t Hw Hc) Hq Hg Hx) as [xv [w1 Eq]].
    pose proof (sess_written_to_leaf RC w t r c v (proj1 (proj1 (proj1 Hw))) Hc) as LF.
    pose proof (step_pre (Some t) w (sess_written_to RC w r c v)) as SP.
    specialize (SP) with (1 := Hw) (2 := sess_written_to_R RC w r c v (proj1 (proj1 Hw))) (3 := q3O_okN (Some t) w _ (sess_written_to_q3 RC w r c v (proj1 (proj1 Hw))) (proj2 (proj2 (proj1 Hw))))
                         (4 := lvO_okV (Some t) w _ (sess_written_to_lv RC w r c v (proj1 (proj1 Hw))) (proj2 Hw)).
    destruct (sess_written_to_row RC sf HS w t r c v xv w1 (proj1 (proj1 (proj1 Hw))) Hc Hx Eq) as [_ RS].
    rewrite Eq in *. cbn [bind leafO] in *. destruct (SP xv w1 eq_refl) as [P1 [C1 _]]. rewrite Hc in C1.
    apply IH; [exact P1|exact C1|apply (leaf_K RC OC P sf t w w1 LF (cur_no_output _ w t Hw Hc) Kw)| |rewrite (proj1 RS); apply Hk|apply Hok].
    intros a. destruct (N.eq_dec a t) as [->|Hne]; [|apply (Q_leaf_other gen ord t w w1 a LF Hne); apply Hq].
    apply (QR_step gen ord t w w1 _ _ RS (Hq t)).
    + intros y E. exfalso. symmetry in E. exact (tn_rn _ _ E).
    + intros r0 E _. assert (r0 = r) by (unfold rn in E; lia). subst r0. exact Hg.
    + intros r0 _ X. discriminate.
Qed.


Lemma execute_with_A req a w t : VREQ req -> QREQ RC OC P sf req -> AREQ req ->
  VPre a w -> live (gr w) (tn t) = true -> reach a w t -> K w -> Q w -> okA (execute_with RC OC P req w t).
Proof.
  intros Hreq HQ HA Hw Lt R Kw Hq. unfold execute_with.
  destruct (exec_start_facts a w t (proj1 Hw) Lt R) as [Hnot [P2 PR]].
  destruct (reset_task_facts w t (proj1 (proj1 (proj1 Hw)))) as [R1 [R2 [R3 [R4 [R5 [R6 [R7 [R8 [R9 R10]]]]]]]]].
  set (w2 := emit (set_cur (reset_task w t) (Some t)) (EExecStart t)) in *.
  assert (V2 : V w2).
  { destruct Hw as [_ [N0 [Co0 [Oo0 Cu0]]]].
    assert (Op2 : opens (trace w2) = t :: opens (trace w)) by (change (t :: opens (trace (reset_task w t)) = t :: opens (trace w)); rewrite R4; reflexivity).
    split; [|split; [|split]].
    - intros s d X. change (get_edata (gr (reset_task w t)) (tn s) d = Some DReserved) in X. change (get_task_output (reset_task w t) s = None).
      destruct (N.eq_dec s t) as [->|Hs]; [exact R9|]. rewrite (R10 s Hs). apply (N0 s d). rewrite <- (R7 (tn s) d); [exact X|].
      intros E. apply Hs. apply tn_inj. exact E.
    - intros x X. change (memN x (consistent (reset_task w t)) = true) in X. rewrite R5 in X. rewrite Op2.
      destruct (N.eq_dec x t) as [->|Hx]; [right; left; reflexivity|]. change (get_task_output (reset_task w t) x <> None \/ In x (t :: opens (trace w))).
      rewrite (R10 x Hx). destruct (Co0 x X) as [Y|Y]; [left; exact Y|right; right; exact Y].
    - intros x X. rewrite Op2 in X. change (get_task_output (reset_task w t) x = None). destruct X as [<-|X]; [exact R9|].
      assert (Hx : x <> t) by (intros ->; contradiction). rewrite (R10 x Hx). apply Oo0. exact X.
    - intros s X. cbn in X. inversion X; subst s. rewrite Op2. left. reflexivity. }
  assert (K2 : K w2).
  { apply (K_frame RC OC P sf w); [|exact Kw]. intros y Hy. change (get_task_output (reset_task w t) y <> None) in Hy.
    assert (Hne : y <> t) by (intros ->; contradiction).
    split; [apply R10; exact Hne|]. unfold kidsT, row. change (gr w2) with (gr (reset_task w t)).
    split; [apply R2|intros d; apply R7]; intros E; apply tn_inj in E; contradiction. }
  assert (KT2 : kidsT w2 t = []).
  { unfold kidsT. change (gr w2) with (gr (reset_task w t)). destruct (kids_of (gr (reset_task w t)) (tn t)) as [|v tl] eqn:E; [reflexivity|]. exfalso.
    assert (X : get_edata (gr (reset_task w t)) (tn t) v <> None) by (apply (wf_edata _ (proj1 R1)); rewrite E; left; reflexivity).
    rewrite R8 in X. contradiction. }
  assert (Q2 : Q w2).
  { intros x. destruct (N.eq_dec x t) as [->|Hne].
    - apply QR_empty; [exact KT2|intros d; apply R8].
    - assert (X : tn x <> tn t) by (intros E; apply tn_inj in E; contradiction).
      apply (QR_same gen ord w); [apply R2; exact X|intros d; apply R7; exact X|apply Hq]. }
  pose proof (exec_prog_A req t Hreq HQ HA (P t) w2 (conj P2 V2) eq_refl K2 Q2) as X. rewrite KT2 in X. specialize (X (HWF t) (HWO t)).
  destruct (exec_prog RC OC req (P t) w2) as [o w3|k w3|]; cbn [bind okA] in *; [|exact X|exact Logic.I].
  apply (Q_same gen ord w3); [reflexivity|exact X].
Qed.

Lemma require_with_A mc : VMC mc -> CertAll.QMC RC OC P sf mc -> AMC mc -> AREQ (require_with OC mc).
Proof.
  intros [Hmc HmcV] HQ HA w t c [Hw HV] Kw Hq Hord. unfold require_with.
  set (w1 := emit w (ERequireStart t c)). set (w2 := get_or_create_task_node w1 t).
  assert (Q2l : lv w w2) by (eapply lv_trans; [apply (lv_emit w (ERequireStart t c)); reflexivity|apply lv_goc_task]).
  assert (G2 : geq w w2) by (eapply geq_trans; [apply (geq_same w w1); reflexivity|apply geq_goc_task]).
  assert (L2 : L w2) by (apply goc_task_L; apply L_emit; apply Hw).
  assert (C2 : cur w2 = cur w) by apply Q2l.
  assert (P2 : VPre (cur w) w2) by (eapply lv_VPre; [exact Q2l|exact L2|split; assumption]).
  assert (K2 : K w2) by (apply (geq_K RC OC P sf w); [exact G2|apply Q2l|exact Kw]).
  assert (Q2 : Q w2) by (apply (geq_Q w); assumption).
  assert (Lt : live (gr w2) (tn t) = true) by apply live_goc_task.
  pose proof (reserve_R RC w2 t L2 Lt) as RR. pose proof (reserve_q3 w2 t L2) as RQ.
  unfold reserve_require_dependency in *.
  destruct (cur w) as [s|] eqn:Hc.
  2:{ rewrite C2 in *. cbn [bind].
      pose proof (HA None w2 t P2 Lt ltac:(intros c' X; discriminate) K2 Q2) as MA.
      destruct (HmcV None w2 t P2 Lt ltac:(intros c' X; discriminate)) as [MV _].
      pose proof (step_pre None w2 (mc w2 t)) as SP. specialize (SP) with (1 := P2) (2 := proj1 Hmc w2 t L2 Lt) (3 := proj2 Hmc None w2 t (proj1 P2) Lt ltac:(intros c' X; discriminate)) (4 := MV).
      destruct (mc w2 t) as [o w4|k w4|]; cbn [bind okA] in *; [|exact MA|exact Logic.I].
      destruct (SP o w4 eq_refl) as [_ [C4 _]]. unfold update_require_dependency. cbn [cur emit]. rewrite C4, C2. cbn [bind okA].
      apply (Q_same gen ord w4); [reflexivity|exact MA]. }
  rewrite C2 in *. destruct (Hord s eq_refl) as [Ho Hnew].
  destruct (add_dependency w2 (tn s) (tn t) DReserved) as [ar w3] eqn:E.
  assert (NB : ar <> AddBug). { destruct ar; try discriminate. exfalso. cbn in RR. apply (proj1 RR). reflexivity. }
  pose proof (no_cycle gen ord w2 s t DReserved (proj1 L2) Q2 Ho) as NCy. rewrite E in NCy. cbn [fst] in NCy.
  destruct (reserve_V w2 t s w3 ar L2 (proj2 P2) C2 E NB) as [V3 [O3 [Co3 [Qu3 [T3 [C3 RES3]]]]]].
  destruct ar; [|contradiction NCy; reflexivity|contradiction NB; reflexivity].
  cbn [bind]. cbn [okR q3O] in RR, RQ. destruct RR as [L3 M3].
  assert (NoOut : get_task_output w2 s = None) by (apply (cur_no_output (Some s) w2 s P2 C2)).
  assert (K3 : K w3).
  { apply (K_frame RC OC P sf w2); [|exact K2]. intros y Hy. unfold get_task_output in *. rewrite O3 in *.
    assert (Hne : tn y <> tn s) by (intros X; apply tn_inj in X; subst y; contradiction).
    split; [reflexivity|]. apply (add_dep_rows w2 (tn s) (tn t) DReserved w3 AddOk (proj1 (proj1 L2)) E NB (tn y) Hne). }
  destruct (goc_task_row w1 t s) as [KK2 RR2]. fold w2 in KK2, RR2.
  assert (Hn2 : ~ In (tn t) (kids_of (gr w2) (tn s))) by (unfold kidsT in *; rewrite KK2; exact Hnew).
  destruct (add_dep_new w2 (tn s) (tn t) DReserved w3 (proj1 (proj1 L2)) Hn2 E) as [A3 [B3 D3]].
  assert (Q3 : Q w3).
  { intros x. destruct (N.eq_dec x s) as [->|Hne].
    - apply (QR_step gen ord s w2 w3 (tn t) DReserved); [|apply Q2| | |].
      + unfold RowStep, kidsT, row. split; [exact A3|]. split; [exact B3|exact D3].
      + intros y Ey. apply tn_inj in Ey. subst y. exact Ho.
      + intros r Er. exfalso. exact (tn_rn _ _ Er).
      + intros r Er. exfalso. exact (tn_rn _ _ Er).
    - assert (X : tn x <> tn s) by (intros Ex; apply tn_inj in Ex; contradiction).
      destruct (add_dep_rows w2 (tn s) (tn t) DReserved w3 AddOk (proj1 (proj1 L2)) E NB (tn x) X) as [Y1 Y2].
      apply (QR_same gen ord w2); [exact Y1|exact Y2|apply Q2]. }
  assert (P3 : Pre (Some s) w3) by (eapply q3_Pre; [exact RQ|exact L3|apply P2]).
  assert (Edge : In (tn t) (kids_of (gr w3) (tn s))) by (apply (add_dependency_edge w2 (tn s) (tn t) DReserved w3 (proj1 (proj1 L2)) E)).
  assert (R3 : reach (Some s) w3 t) by (intros c' X; inversion X; subst c'; apply path1; exact Edge).
  assert (Lt3 : live (gr w3) (tn t) = true) by (apply M3; exact Lt).
  pose proof (HA (Some s) w3 t (conj P3 V3) Lt3 R3 K3 Q3) as MA.
  destruct (HmcV (Some s) w3 t (conj P3 V3) Lt3 R3) as [MV _].
  pose proof (step_pre (Some s) w3 (mc w3 t)) as SP. specialize (SP) with (1 := conj P3 V3) (2 := proj1 Hmc w3 t L3 Lt3) (3 := proj2 Hmc (Some s) w3 t P3 Lt3 R3) (4 := MV).
  destruct (mc w3 t) as [o w4|k w4|]; cbn [bind okA] in *; [|exact MA|exact Logic.I].
  destruct (SP o w4 eq_refl) as [P4 [C4 [M4 [F4 _]]]].
  set (w5 := emit w4 (ERequireEnd t c (oc_stamp (OC c) o) o)).
  unfold update_require_dependency. change (cur w5) with (cur w4). rewrite C4, C3, C2.
  assert (Edge4 : In (tn t) (kids_of (gr w4) (tn s))) by (apply F4; [left; reflexivity|exact Edge]).
  change (gr w5) with (gr w4).
  destruct (get_edata (gr w4) (tn s) (tn t)) as [old|] eqn:ED4; [|exfalso; apply (wf_edata _ (proj1 (proj1 (proj1 (proj1 P4)))) (tn s) (tn t)) in Edge4; contradiction].
  cbn [bind okA]. intros x. apply (QR_same_res gen ord w4); [reflexivity| |apply MA].
  intros r. unfold row. cbn [gr set_gr]. rewrite get_edata_insert.
  destruct (pair_eqb (tn s, tn t) (tn x, rn r)) eqn:Z; [|reflexivity]. apply pair_eqb_eq in Z. inversion Z as [[Z1 Z2]]. exfalso. exact (tn_rn _ _ Z2).
Qed.

Lemma check_deps_A mc t0 : VMC mc -> CertAll.QMC RC OC P sf mc -> AMC mc ->
  forall ds w, VPre (Some t0) w -> DL w ds -> DR t0 w ds -> DGood ds -> K w -> Q w -> okA (check_deps RC OC mc ds w).
Proof.
  intros [Hmc HmcV] HQ HA. induction ds as [|d tl IH]; intros w Hw HD HR HG Kw Hq; cbn [check_deps]; [exact Hq|].
  assert (HGtl : DGood tl) by (intros x X; apply HG; right; exact X).
  destruct d as [[|t c st|r c st|r c st]|].
  - destruct (HG (Some DReserved) (or_introl eq_refl)) as [_ X]. apply X. reflexivity.
  - set (w1 := emit w (ECheckTaskStart t c st)).
    assert (L1 : L w1) by (apply L_emit; apply Hw).
    assert (P1 : VPre (Some t0) w1) by (eapply lv_VPre; [apply (lv_emit w); reflexivity|exact L1|exact Hw]).
    assert (Lt : live (gr w1) (tn t) = true) by (apply (HD t c st); left; reflexivity).
    assert (R1 : reach (Some t0) w1 t) by (intros s Hs; inversion Hs; subst s; apply path1; apply (HR t c st); left; reflexivity).
    assert (K1 : K w1) by (apply (geq_K RC OC P sf w); [apply geq_same; reflexivity|reflexivity|exact Kw]).
    assert (Q1 : Q w1) by (apply (Q_same gen ord w); [reflexivity|exact Hq]).
    pose proof (HQ (Some t0) w1 t P1 Lt R1 K1) as MQ. pose proof (HA (Some t0) w1 t P1 Lt R1 K1 Q1) as MA. destruct (HmcV (Some t0) w1 t P1 Lt R1) as [MV _].
    pose proof (step_pre (Some t0) w1 (mc w1 t)) as SP. specialize (SP) with (1 := P1) (2 := proj1 Hmc w1 t L1 Lt) (3 := proj2 Hmc (Some t0) w1 t (proj1 P1) Lt R1) (4 := MV).
    destruct (mc w1 t) as [o w2|k w2|]; cbn [bind outQ okA] in *; [|exact MA|exact Logic.I].
    destruct (SP o w2 eq_refl) as [P2 [C2 [M2 [F2 _]]]]. destruct MQ as [K2 E2].
    destruct (oc_check (OC c) o st).
    + apply IH.
      * eapply lv_VPre; [apply (lv_emit w2); reflexivity|apply L_emit; apply P2|exact P2].
      * intros t' c' st' X. apply M2. apply (HD t' c' st'). right. exact X.
      * intros d' c' st' X. change (In (tn d') (kids_of (gr w2) (tn t0))). apply F2; [left; reflexivity|]. apply (HR d' c' st'). right. exact X.
      * exact HGtl.
      * apply (geq_K RC OC P sf w2); [apply geq_same; reflexivity|reflexivity|exact K2].
      * apply (Q_same gen ord w2); [reflexivity|exact MA].
    + apply (Q_same gen ord w2); [reflexivity|exact MA].
  - pose proof (check_resource_lv RC w r c st) as Ql. destruct (check_resource_td_L RC w r c st (proj1 (proj1 Hw))) as [X M].
    assert (G : geq w (snd (check_resource_td RC w r c st))) by (apply geq_same; reflexivity).
    destruct (check_resource_td RC w r c st) as [[| |e] w1]; cbn [snd] in X, M, Ql, G.
    + apply IH; [eapply lv_VPre; eassumption| | |exact HGtl|apply (lv_geq_K RC OC P sf w); assumption|apply (geq_Q w); assumption].
      * intros t' c' st' Y. apply M. apply (HD t' c' st'). right. exact Y.
      * intros d' c' st' Y. apply Ql. apply (HR d' c' st'). right. exact Y.
    + apply (geq_Q w); assumption.
    + apply (Q_same gen ord w1); [reflexivity|apply (geq_Q w); assumption].
  - pose proof (check_resource_lv RC w r c st) as Ql. destruct (check_resource_td_L RC w r c st (proj1 (proj1 Hw))) as [X M].
    assert (G : geq w (snd (check_resource_td RC w r c st))) by (apply geq_same; reflexivity).
    destruct (check_resource_td RC w r c st) as [[| |e] w1]; cbn [snd] in X, M, Ql, G.
    + apply IH; [eapply lv_VPre; eassumption| | |exact HGtl|apply (lv_geq_K RC OC P sf w); assumption|apply (geq_Q w); assumption].
      * intros t' c' st' Y. apply M. apply (HD t' c' st'). right. exact Y.
      * intros d' c' st' Y. apply Ql. apply (HR d' c' st'). right. exact Y.
    + apply (geq_Q w); assumption.
    + apply (Q_same gen ord w1); [reflexivity|apply (geq_Q w); assumption].
  - destruct (HG None (or_introl eq_refl)) as [X _]. apply X. reflexivity.
Qed.

Theorem make_consistent_td_A fuel : AMC (make_consistent_td RC OC P fuel).
Proof.
  induction fuel as [|f IH]; intros a w t Hw Lt R Kw Hq; cbn [make_consistent_td]; [exact Logic.I|].
  pose proof (make_consistent_td_V RC OC P f) as IHV. pose proof (make_consistent_td_Q RC OC P sf HS HNR f) as IHQ.
  set (w0 := get_or_create_task_node w t).
  assert (Q0l : lv w w0) by apply lv_goc_task.
  assert (G0 : geq w w0) by apply geq_goc_task.
  assert (L0 : L w0) by (apply goc_task_L; apply Hw).
  assert (P0 : VPre a w0) by (eapply lv_VPre; eassumption).
  assert (R0 : reach a w0 t) by (eapply reach_kgrow; [exact R|apply Q0l]).
  assert (Lt0 : live (gr w0) (tn t) = true) by apply live_goc_task.
  assert (K0 : K w0) by (apply (lv_geq_K RC OC P sf w); assumption).
  assert (Q0 : Q w0) by (apply (geq_Q w); assumption).
  assert (NotOpen : ~ In t (opens (trace w0))) by (apply (reach_acyclic a); [apply L0|apply P0|exact R0]).
  destruct (memN t (consistent w0)) eqn:Mc.
  { destruct (get_task_output w0 t) as [o|] eqn:Ho; [exact Q0|].
    destruct (proj1 (proj2 (proj2 P0)) t Mc) as [X|X]; [apply X; exact Ho|contradiction]. }
  assert (HreqV : VREQ (require_with OC (make_consistent_td RC OC P f))) by (apply (require_with_V RC); exact IHV).
  assert (HreqQ : QREQ RC OC P sf (require_with OC (make_consistent_td RC OC P f))) by (apply (require_with_Q RC OC P sf); [exact IHV|exact IHQ]).
  assert (HreqA : AREQ (require_with OC (make_consistent_td RC OC P f))) by (apply require_with_A; [exact IHV|exact IHQ|exact IH]).
  assert (EX : forall w1, VPre a w1 -> reach a w1 t -> live (gr w1) (tn t) = true -> K w1 -> Q w1 ->
            okA (bind (execute_with RC OC P (require_with OC (make_consistent_td RC OC P f)) w1 t) (fun o w2 => Done o (mark_consistent w2 t)))).
  { intros w1 P1 R1 Lt1 K1 Q1. pose proof (execute_with_A _ a w1 t HreqV HreqQ HreqA P1 Lt1 R1 K1 Q1) as X.
    destruct (execute_with RC OC P (require_with OC (make_consistent_td RC OC P f)) w1 t) as [o w2|k w2|]; cbn [bind okA] in *; [|exact X|exact Logic.I].
    apply (Q_same gen ord w2); [reflexivity|exact X]. }
  destruct (get_task_output w0 t) as [o0|] eqn:Ho; [|apply EX; assumption].
  assert (PS : VPre (Some t) w0) by (split; [split; [exact L0|split; [eapply OI_strengthen; [apply P0|exact R0]|apply P0]]|apply P0]).
  pose proof (check_deps_A _ t IHV IHQ IH (deps_of_task w0 t) w0 PS (deps_DL w0 t (proj1 L0)) (deps_DR w0 t (proj1 L0)) (deps_good w0 t o0 (proj1 L0) (proj1 (proj2 P0)) Ho) K0 Q0) as CA.
  pose proof (check_deps_Q RC OC P sf _ t IHV IHQ (deps_of_task w0 t) w0 PS (deps_DL w0 t (proj1 L0)) (deps_DR w0 t (proj1 L0)) (deps_good w0 t o0 (proj1 L0) (proj1 (proj2 P0)) Ho) K0) as CQ.
  pose proof (check_deps_R RC OC _ (proj1 (proj1 IHV)) (deps_of_task w0 t) w0 L0 (deps_DL w0 t (proj1 L0))) as CR.
  pose proof (check_deps_N RC OC _ t (proj1 IHV) (deps_of_task w0 t) w0 (proj1 PS) (deps_DL w0 t (proj1 L0)) (deps_DR w0 t (proj1 L0))) as CN.
  pose proof (check_deps_V RC OC _ t IHV (deps_of_task w0 t) w0 PS (deps_DL w0 t (proj1 L0)) (deps_DR w0 t (proj1 L0)) (deps_good w0 t o0 (proj1 L0) (proj1 (proj2 P0)) Ho)) as CV.
  destruct (check_deps RC OC (make_consistent_td RC OC P f) (deps_of_task w0 t) w0) as [ok w1|k w1|]; cbn [bind outQ okA] in *; [|exact CA|exact Logic.I].
  destruct CR as [L1 M1]. destruct CN as [C1 [F1 [O1 N1]]]. destruct CV as [G1 V1]. destruct CQ as [K1 _].
  assert (Fa : FrameO a w0 w1) by (eapply FrameO_weaken; eassumption).
  assert (P1 : VPre a w1) by (split; [split; [exact L1|split; [eapply OI_pres; [apply P0|exact Fa|exact O1]|exact N1]]|exact V1]).
  assert (R1 : reach a w1 t) by (eapply reach_pres; eassumption).
  destruct (if ok then get_task_output w1 t else None) as [o|].
  - apply (Q_same gen ord w1); [reflexivity|exact CA].
  - apply EX; [exact P1|exact R1|apply M1; exact Lt0|exact K1|exact CA].
Qed.

(* ---- bottom-up ---- *)
Lemma require_bu_with_A mc : VMC mc -> CertAll.QMC RC OC P sf mc -> AMC mc -> AREQ (require_bu_with OC mc).
Proof.
  intros HV HQ HA w x c Hw Kw Hq Hord. unfold require_bu_with. pose proof (require_with_A mc HV HQ HA w x c Hw Kw Hq Hord) as X.
  destruct (require_with OC mc w x c) as [o w'|k w'|]; cbn [bind okA] in *; [|exact X|exact Logic.I].
  apply (Q_same gen ord w'); [reflexivity|exact X].
Qed.

Definition ABU (fuel : nat) : Prop :=
  (forall a w t, VPre a w -> live (gr w) (tn t) = true -> reach a w t -> K w -> Q w -> okA (bu_execute_and_schedule RC OC P fuel w t)) /\
  AMC (bu_make_consistent RC OC P fuel) /\
  (forall a w t, VPre a w -> reach a w t -> K w -> Q w -> okA (bu_require_scheduled_now RC OC P fuel w t)).

Theorem bottom_up_A fuel : ABU fuel.
Proof.
  induction fuel as [|f [IH1 [IH2 IH3]]]; [repeat split; intros; exact Logic.I|].
  destruct (bottom_up_R RC OC P f) as [BR1 [BR2 BR3]]. destruct (bottom_up_N RC OC P f) as [BN1 [BN2 BN3]]. destruct (bottom_up_V RC OC P f) as [BV1 [BV2 BV3]].
  destruct (bottom_up_Q RC OC P sf HS HNR f) as [BQ1 [BQ2 BQ3]].
  assert (HmcV : VMC (bu_make_consistent RC OC P f)) by (split; [split; [exact BR2|exact BN2]|exact BV2]).
  assert (HreqV : VREQ (require_bu_with OC (bu_make_consistent RC OC P f))) by (apply (require_bu_with_V RC); [exact HmcV|apply (bu_out RC OC P f)]).
  assert (HreqQ : QREQ RC OC P sf (require_bu_with OC (bu_make_consistent RC OC P f))) by (apply (require_bu_with_Q RC OC P sf); [exact HmcV|exact BQ2]).
  assert (HreqA : AREQ (require_bu_with OC (bu_make_consistent RC OC P f))) by (apply require_bu_with_A; [exact HmcV|exact BQ2|exact IH2]).
  assert (E1 : forall a w t, VPre a w -> live (gr w) (tn t) = true -> reach a w t -> K w -> Q w -> okA (bu_execute_and_schedule RC OC P (S f) w t)).
  { intros a w t Hw Lt R Kw Hq. rewrite bes_S. pose proof (execute_with_A _ a w t HreqV HreqQ HreqA Hw Lt R Kw Hq) as X.
    destruct (execute_with RC OC P (require_bu_with OC (bu_make_consistent RC OC P f)) w t) as [o w1|k w1|]; cbn [bind okA] in *; [|exact X|exact Logic.I].
    apply (geq_Q w1); [apply schedule_after_geq|exact X]. }
  split; [exact E1|]. split.
  - intros a w t Hw Lt R Kw Hq. rewrite bmc_S.
    assert (NotOpen : ~ In t (opens (trace w))) by (apply (reach_acyclic a); [apply Hw|apply Hw|exact R]).
    destruct (memN t (consistent w)) eqn:Mc.
    { destruct (get_task_output w t) as [o|] eqn:Ho; [exact Hq|].
      destruct (proj1 (proj2 (proj2 Hw)) t Mc) as [X|X]; [apply X; exact Ho|contradiction]. }
    destruct ((match get_task_output w t with None => true | Some _ => false end) && negb (memN t (queue w)))%bool eqn:Cond;
      [apply (execute_with_A _ a w t HreqV HreqQ HreqA Hw Lt R Kw Hq)|].
    pose proof (IH3 a w t Hw R Kw Hq) as X. destruct (BV3 a w t Hw R) as [XV XO].
    destruct (bu_require_scheduled_now RC OC P f w t) as [r w1|k w1|]; cbn [bind okA rsnOut] in *; [|exact X|exact Logic.I].
    destruct r as [o|]; [exact X|]. destruct XO as [Y1 Y2].
    destruct (get_task_output w1 t) as [o|] eqn:Ho1; [exact X|].
    assert (Hw0 : get_task_output w t = None) by (first [symmetry; exact Y1|rewrite <- Y1; exact Ho1]).
    rewrite Hw0 in Cond. cbn in Cond. apply memN_false in Y2. rewrite Y2 in Cond. discriminate.
  - intros a w t Hw R Kw Hq. rewrite rsn_S. destruct (queue w); [exact Hq|].
    destruct (pop_least_from w t) as [[m w1]|] eqn:X; [|exact Hq].
    destruct (pop_least_L RC OC P w t m w1 (proj1 (proj1 Hw)) X) as [L1 [G1 Lm]].
    assert (W1 : w1 = set_queue w (removeN m (sort_queue w))) by (unfold pop_least_from in X; destruct (find _ _); inversion X; reflexivity).
    assert (Q1 : q3 w w1) by (apply q3_same; [eapply trace_pop_least; exact X|exact G1|rewrite W1; reflexivity]).
    assert (Lm1 : live (gr w1) (tn m) = true) by (rewrite G1; exact Lm).
    assert (R1 : reach a w1 t) by (eapply reach_kgrow; [exact R|apply Q1]).
    assert (P1 : VPre a w1) by (split; [eapply q3_Pre; [exact Q1|exact L1|apply Hw]|rewrite W1; apply pop_V; apply Hw]).
    assert (K1 : K w1) by (apply (geq_K RC OC P sf w); [apply geq_same; exact G1|rewrite W1; reflexivity|exact Kw]).
    assert (Qq1 : Q w1) by (apply (Q_same gen ord w); [exact G1|exact Hq]).
    destruct (pop_least_reach w t m w1 (proj1 (proj1 (proj1 Hw))) X) as [Em|Pm].
    + subst m. rewrite N.eqb_refl. pose proof (IH1 a w1 t P1 Lm1 R1 K1 Qq1) as Y.
      destruct (bu_execute_and_schedule RC OC P f w1 t) as [o w2|k w2|]; cbn [bind okA] in *; [exact Y|exact Y|exact Logic.I].
    + assert (Hmt : m <> t) by (intros ->; exact (WF_acyclic (gr w) (tn t) (proj1 (proj1 (proj1 (proj1 Hw)))) Pm)).
      destruct (N.eqb_spec m t) as [|_]; [contradiction|].
      assert (Pm1 : path (gr w1) (tn t) (tn m)) by (rewrite G1; exact Pm).
      assert (PS : VPre (Some t) w1) by (split; [split; [exact L1|split; [eapply OI_strengthen; [apply P1|exact R1]|apply P1]]|apply P1]).
      assert (RS : reach (Some t) w1 m) by (intros c Hc; inversion Hc; subst c; exact Pm1).
      pose proof (IH1 (Some t) w1 m PS Lm1 RS K1 Qq1) as Y. pose proof (BQ1 (Some t) w1 m PS Lm1 RS K1) as YQ. destruct (BV1 (Some t) w1 m PS Lm1 RS) as [YV _].
      pose proof (step_pre (Some t) w1 (bu_execute_and_schedule RC OC P f w1 m)) as SP.
      specialize (SP) with (1 := PS) (2 := BR1 w1 m L1 Lm1) (3 := BN1 (Some t) w1 m (proj1 PS) Lm1 RS) (4 := YV).
      destruct (bu_execute_and_schedule RC OC P f w1 m) as [o w2|k w2|]; cbn [bind okA outQ] in *; [|exact Y|exact Logic.I].
      destruct (SP o w2 eq_refl) as [P2s [C2 [M2 [F2 O2]]]].
      assert (Fa : FrameO a w1 w2) by (eapply FrameO_weaken; eassumption).
      assert (P2 : VPre a w2) by (split; [split; [apply P2s|split; [eapply OI_pres; [apply P1|exact Fa|exact O2]|apply P2s]]|apply P2s]).
      assert (R2 : reach a w2 t) by (eapply reach_pres; eassumption).
      apply (IH3 a w2 t P2 R2 (proj1 YQ) Y).
Qed.

Theorem execute_scheduled_A fuel : forall w, VPre None w -> K w -> Q w -> okA (execute_scheduled RC OC P fuel w).
Proof.
  induction fuel as [|f IH]; intros w Hw Kw Hq; [exact Logic.I|]. rewrite es_S.
  destruct (queue_pop w) as [[t w1]|] eqn:X; [|exact Hq].
  destruct (queue_pop_L RC OC P w t w1 (proj1 (proj1 Hw)) X) as [L1 [G1 Lt]].
  assert (W1 : w1 = set_queue w (removeN t (sort_queue w))) by (unfold queue_pop in X; destruct (rev (sort_queue w)); [discriminate|inversion X; reflexivity]).
  assert (Q1 : q3 w w1) by (apply q3_same; [eapply trace_queue_pop; exact X|exact G1|rewrite W1; reflexivity]).
  assert (P1 : VPre None w1) by (split; [eapply q3_Pre; [exact Q1|exact L1|apply Hw]|rewrite W1; apply pop_V; apply Hw]).
  assert (Lt1 : live (gr w1) (tn t) = true) by (rewrite G1; exact Lt).
  assert (R1 : reach None w1 t) by (intros c Hc; discriminate).
  assert (K1 : K w1) by (apply (geq_K RC OC P sf w); [apply geq_same; exact G1|rewrite W1; reflexivity|exact Kw]).
  assert (Qq1 : Q w1) by (apply (Q_same gen ord w); [exact G1|exact Hq]).
  pose proof (proj1 (bottom_up_A f) None w1 t P1 Lt1 R1 K1 Qq1) as Y.
  pose proof (proj1 (bottom_up_Q RC OC P sf HS HNR f) None w1 t P1 Lt1 R1 K1) as YQ.
  destruct (proj1 (bottom_up_V RC OC P f) None w1 t P1 Lt1 R1) as [YV _].
  pose proof (step_pre None w1 (bu_execute_and_schedule RC OC P f w1 t)) as SP.
  specialize (SP) with (1 := P1) (2 := proj1 (bottom_up_R RC OC P f) w1 t L1 Lt1) (3 := proj1 (bottom_up_N RC OC P f) None w1 t (proj1 P1) Lt1 R1) (4 := YV).
  destruct (bu_execute_and_schedule RC OC P f w1 t) as [o w2|k w2|]; cbn [bind okA outQ] in *; [|exact Y|exact Logic.I].
  destruct (SP o w2 eq_refl) as [P2 _]. apply IH; [exact P2|apply YQ|exact Y].
Qed.

(* ---- sessions and histories ---- *)
Variable always : ocid.

Lemma session_require_A fuel w t : VS w -> K w -> Q w -> okA (session_require RC OC P always fuel w t).
Proof.
  intros [[Hw Hc] HV] Kw Hq. unfold session_require, require_td.
  set (w1 := emit (set_cur w None) EBuildStart).
  assert (Q1l : lv w w1).
  { eapply lv_trans; [apply (lv_same w (set_cur w None)); try reflexivity; [cbn; symmetry; exact Hc|trivial]|apply lv_emit; reflexivity]. }
  assert (L1 : L w1) by (apply L_emit, L_set_cur_none; apply Hw).
  assert (P1 : VPre None w1) by (eapply lv_VPre; [exact Q1l|exact L1|split; assumption]).
  assert (K1 : K w1) by (apply (geq_K RC OC P sf w); [apply geq_same; reflexivity|reflexivity|exact Kw]).
  assert (Qq1 : Q w1) by (apply (Q_same gen ord w); [reflexivity|exact Hq]).
  pose proof (require_with_A _ (make_consistent_td_V RC OC P fuel) (make_consistent_td_Q RC OC P sf HS HNR fuel) (make_consistent_td_A fuel) w1 t always P1 K1 Qq1
               ltac:(intros t' X; discriminate)) as X.
  destruct (require_with OC (make_consistent_td RC OC P fuel) w1 t always) as [o w2|k w2|]; cbn [bind okA] in *; [|exact X|exact Logic.I].
  apply (Q_same gen ord w2); [reflexivity|exact X].
Qed.

Lemma schedule_tasks_affected_by_Q w r : Q w -> Q (schedule_tasks_affected_by RC w r).
Proof.
  intros Hq. unfold schedule_tasks_affected_by. cbv zeta.
  assert (TS : forall w0 t0 r0 c0 st0, gr (try_schedule RC w0 t0 r0 c0 st0) = gr w0).
  { intros. unfold try_schedule. cbv zeta. destruct (rc_check _ _ _ _ _); cbn; try reflexivity; unfold queue_add; destruct (memN _ _); reflexivity. }
  assert (TE : forall b w0 p, gr (try_schedule_edge RC b w0 p) = gr w0).
  { intros. unfold try_schedule_edge. destruct (snd p) as [[| | |]|]; try reflexivity; [apply TS|destruct b; [reflexivity|apply TS]]. }
  assert (FE : forall b l w0, gr (fold_left (try_schedule_edge RC b) l w0) = gr w0).
  { intros b l. induction l as [|p tl IH]; intros w0; cbn [fold_left]; [reflexivity|rewrite IH; apply TE]. }
  apply (Q_same gen ord (get_or_create_resource_node (emit w (ESchedByResStart r)) r)); [cbn [gr emit]; apply FE|].
  apply Q_goc_res. apply (Q_same gen ord w); [reflexivity|exact Hq].
Qed.

Lemma session_bottom_up_A fuel w ch : VS w -> K w -> Q w -> okA (session_bottom_up RC OC P fuel w ch).
Proof.
  intros [[Hw Hc] HV] Kw Hq. unfold session_bottom_up. cbv zeta.
  assert (L0 : L (set_queue w [])). { destruct (proj1 Hw) as [H1 [H2 H3]]. split; [exact H1|]. split; [exact H2|intros x []]. }
  destruct (fold_affected_L RC ch _ L0) as [L1 M1]. set (w1 := fold_left (schedule_tasks_affected_by RC) ch (set_queue w [])) in *.
  assert (V0 : V (set_queue w [])) by (apply pop_V; exact HV).
  assert (Q01 : lv (set_queue w []) w1) by (apply fold_lv; intros; apply schedule_tasks_affected_by_lv).
  assert (V1 : V w1) by (eapply lv_V; eassumption).
  assert (KQ1 : K w1 /\ Q w1).
  { unfold w1. assert (KF : forall l w0, K w0 /\ Q w0 -> K (fold_left (schedule_tasks_affected_by RC) l w0) /\ Q (fold_left (schedule_tasks_affected_by RC) l w0)).
    { induction l as [|r tl IH]; intros w0 K0; cbn [fold_left]; [exact K0|apply IH; split; [apply schedule_tasks_affected_by_K; apply K0|apply schedule_tasks_affected_by_Q; apply K0]]. }
    apply KF. split; [apply (geq_K RC OC P sf w); [apply geq_same; reflexivity|reflexivity|exact Kw]|apply (Q_same gen ord w); [reflexivity|exact Hq]]. }
  set (w2 := emit (set_cur w1 None) EBuildStart).
  assert (C1 : cur w1 = None) by (rewrite (proj2 (proj2 (proj1 Q01))); exact Hc).
  assert (Q12 : lv w1 w2).
  { eapply lv_trans; [apply (lv_same w1 (set_cur w1 None)); try reflexivity; [cbn; symmetry; exact C1|trivial]|apply lv_emit; reflexivity]. }
  assert (L2 : L w2) by (apply L_emit, L_set_cur_none; exact L1).
  assert (P2 : VPre None w2).
  { split; [|eapply lv_V; eassumption]. eapply q3_Pre; [apply Q12|exact L2|]. eapply q3_Pre; [apply Q01|exact L1|].
    split; [exact L0|split; [apply Hw|apply Hw]]. }
  assert (K2 : K w2) by (apply (geq_K RC OC P sf w1); [apply geq_same; reflexivity|reflexivity|apply KQ1]).
  assert (Qq2 : Q w2) by (apply (Q_same gen ord w1); [reflexivity|apply KQ1]).
  pose proof (execute_scheduled_A fuel w2 P2 K2 Qq2) as X.
  destruct (execute_scheduled RC OC P fuel w2) as [u w3|k w3|]; cbn [bind okA] in *; [|exact X|exact Logic.I].
  apply (Q_same gen ord w3); [reflexivity|exact X].
Qed.

Definition no_abort (r : sres) : Prop := match r with RAbort _ => False | _ => True end.

Lemma run_session_A fuel ops : forall w, VS w -> K w -> Q w ->
  Forall no_abort (fst (run_session RC OC P always fuel w ops)) /\ Q (snd (run_session RC OC P always fuel w ops)).
Proof.
  induction ops as [|o tl IH]; intros w Hw Kw Hq; cbn [run_session]; [split; [constructor|exact Hq]|].
  assert (X : match run_sop RC OC P always fuel w o with (RDone _, w') => VS w' /\ K w' /\ Q w' | (RAbort _, _) => False | (RFuel, w') => Q w' end).
  { destruct o as [t|ch]; cbn [run_sop].
    - pose proof (session_require_V RC OC P always fuel w t Hw) as Y. pose proof (session_require_Q RC OC P sf HS HNR always fuel w t Hw Kw) as Z.
      pose proof (session_require_A fuel w t Hw Kw Hq) as A.
      destruct (session_require RC OC P always fuel w t); cbn in *; [split; [exact Y|split; assumption]|exact A|exact Hq].
    - pose proof (session_bottom_up_V RC OC P fuel w ch Hw) as Y. pose proof (session_bottom_up_Q RC OC P sf HS HNR fuel w ch Hw Kw) as Z.
      pose proof (session_bottom_up_A fuel w ch Hw Kw Hq) as A.
      destruct (session_bottom_up RC OC P fuel w ch); cbn in *; [split; [exact Y|split; assumption]|exact A|exact Hq]. }
  destruct (run_sop RC OC P always fuel w o) as [[x|k|] w']; [|contradiction|].
  - destruct X as [X1 [X2 X3]]. specialize (IH w' X1 X2 X3). destruct (run_session RC OC P always fuel w' tl) as [rs w'']. cbn [fst snd] in *.
    split; [constructor; [exact Logic.I|apply IH]|apply IH].
  - cbn [fst snd]. split; [constructor; [exact Logic.I|constructor]|exact X].
Qed.

Theorem run_history_A fuel h : forall w, Hinv w -> K w -> Q w ->
  Forall (Forall no_abort) (fst (run_history RC OC P always fuel w h)).
Proof.
  induction h as [|s tl IH]; intros w Hw Kw Hq; cbn [run_history]; [constructor|].
  assert (X : Forall no_abort (fst (run_step RC OC P always fuel w s)) /\ Hinv (snd (run_step RC OC P always fuel w s)) /\
              K (snd (run_step RC OC P always fuel w s)) /\ Q (snd (run_step RC OC P always fuel w s))).
  { assert (HI : Hinv (snd (run_step RC OC P always fuel w s))).
    { pose proof (run_history_V RC OC P always fuel [s] w Hw) as Y. cbn [run_history] in Y. destruct (run_step RC OC P always fuel w s) as [r w']. exact (proj2 Y). }
    assert (HK : K (snd (run_step RC OC P always fuel w s))).
    { pose proof (run_history_Q RC OC P sf HS HNR always fuel [s] w Hw Kw) as Y. cbn [run_history] in Y. destruct (run_step RC OC P always fuel w s) as [r w']. exact Y. }
    split; [|split; [exact HI|split; [exact HK|]]].
    - destruct s as [r v|e|ops]; cbn [run_step fst]; [constructor|constructor|].
      apply run_session_A; [apply VS_new_session; exact Hw|apply (geq_K RC OC P sf w); [apply geq_same; reflexivity|reflexivity|exact Kw]|apply (Q_same gen ord w); [reflexivity|exact Hq]].
    - destruct s as [r v|e|ops]; cbn [run_step snd].
      + apply (Q_same gen ord w); [destruct v; reflexivity|exact Hq].
      + apply (Q_same gen ord w); [reflexivity|exact Hq].
      + apply run_session_A; [apply VS_new_session; exact Hw|apply (geq_K RC OC P sf w); [apply geq_same; reflexivity|reflexivity|exact Kw]|apply (Q_same gen ord w); [reflexivity|exact Hq]]. }
  destruct (run_step RC OC P always fuel w s) as [r w']. cbn [fst snd] in X. destruct X as [X1 [X2 [X3 X4]]].
  specialize (IH w' X2 X3 X4). destruct (run_history RC OC P always fuel w' tl) as [rs w'']. cbn [fst snd] in *.
  constructor; assumption.
Qed.

Theorem run_history_AQ fuel h : forall w, Hinv w -> K w -> Q w ->
  Hinv (snd (run_history RC OC P always fuel w h)) /\ Q (snd (run_history RC OC P always fuel w h)).
Proof.
  induction h as [|s tl IH]; intros w Hw Kw Hq; cbn [run_history]; [split; assumption|].
  assert (X : Hinv (snd (run_step RC OC P always fuel w s)) /\ K (snd (run_step RC OC P always fuel w s)) /\ Q (snd (run_step RC OC P always fuel w s))).
  { split; [|split].
    - pose proof (run_history_V RC OC P always fuel [s] w Hw) as Y. cbn [run_history] in Y. destruct (run_step RC OC P always fuel w s) as [r w']. exact (proj2 Y).
    - pose proof (run_history_Q RC OC P sf HS HNR always fuel [s] w Hw Kw) as Y. cbn [run_history] in Y. destruct (run_step RC OC P always fuel w s) as [r w']. exact Y.
    - destruct s as [r v|e|ops]; cbn [run_step snd].
      + apply (Q_same gen ord w); [destruct v; reflexivity|exact Hq].
      + apply (Q_same gen ord w); [reflexivity|exact Hq].
      + apply run_session_A; [apply VS_new_session; exact Hw|apply (geq_K RC OC P sf w); [apply geq_same; reflexivity|reflexivity|exact Kw]|apply (Q_same gen ord w); [reflexivity|exact Hq]]. }
  destruct (run_step RC OC P always fuel w s) as [r w']. cbn [snd] in X. destruct X as [X2 [X3 X4]].
  specialize (IH w' X2 X3 X4). destruct (run_history RC OC P always fuel w' tl) as [rs w'']. exact IH.
Qed.

(* C05, the "Hence" clause, in the static class, for EVERY history: in every reachable store every recorded reader of a resource
   directly requires the task recorded as its writer (so it is a transitive dependency) *)
Theorem static_class_readers_require_writer_any_history fuel h :
  let w := snd (run_history RC OC P always fuel init_world h) in
  forall rd g r dp dp', row w rd (rn r) = Some dp -> is_read (Some dp) = true -> row w g (rn r) = Some dp' -> is_write (Some dp') = true ->
    In (tn g) (kidsT w rd) /\ contains_transitive_task_dependency w rd g = Some true.
Proof.
  intros w rd g r dp dp' R1 I1 R2 I2.
  destruct (run_history_AQ fuel h init_world) as [Jw Qw]; [split; [apply L_init|intros x d X; discriminate]|apply K_init|apply Q_init|]. fold w in Jw, Qw.
  pose proof (proj1 (proj2 (Qw g)) r dp' R2 I2) as G.
  destruct (proj2 (proj2 (Qw rd)) r dp R1 I1) as [E|[g' [E I']]]; [congruence|]. rewrite G in E. inversion E; subst g'.
  split; [exact (before_in _ _ _ I')|]. apply cte_edge; [apply Jw|exact (before_in _ _ _ I')].
Qed.

(* EVERY history in the static class (top-down, bottom-up and mixed sessions): no build aborts *)
Theorem static_class_never_aborts_any_history fuel h :
  Forall (Forall no_abort) (fst (run_history RC OC P always fuel init_world h)).
Proof.
  apply run_history_A; [split; [apply L_init|intros x d X; discriminate]|apply K_init|apply Q_init].
Qed.

End NA.

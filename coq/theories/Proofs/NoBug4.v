(* The model-only abort ABug 4 (graph search out of fuel, or a dependency added between nodes that are not in the graph) never
   occurs in top-down builds: the searches always terminate within their fuel (DagNoFuel.v) and every dependency is added between
   nodes that were created before.  This removes the premise "no bug4" from the history theorems. *)
From Coq Require Import List NArith ZArith Bool Lia.
From PieV Require Import Model.Dag Model.Build Proofs.DagLib Proofs.DagWF Proofs.DagPath Proofs.DagAddEdge Proofs.DagNoFuel
  Proofs.Inv Proofs.StoreInv Proofs.History Proofs.Effects Proofs.ExecInv Proofs.ExecSession Proofs.Cert Proofs.Stable.
Import ListNotations.
Open Scope N_scope.

Lemma add_edge_not_missing {ED} (g : dag ED) s d e : WF g -> live g s = true -> live g d = true -> fst (add_edge g s d e) <> AErr NodeMissing.
Proof.
  intros W Ls Ld.
  destruct (N.eq_dec s d) as [Hsd|Hsd].
  { destruct (add_edge_early g s d e W (or_intror (or_intror (or_introl Hsd)))) as [_ [_ X]]. intros Y.
    assert (Z : fst (add_edge g s d e) = AErr CycleDetected) by (apply X; repeat split; assumption). congruence. }
  destruct (in_dec N.eq_dec d (kids_of g s)) as [Hk|Hnk].
  { unfold add_edge. rewrite Ls, Ld. cbn [negb orb]. destruct (N.eqb_spec s d); [contradiction|].
    rewrite (proj2 (memN_In d (kids_of g s)) Hk). cbn. discriminate. }
  rewrite (add_edge_unfold g s d e W Ls Ld Hsd Hnk). cbn zeta.
  destruct (N.ltb _ _); [|cbn; discriminate].
  destruct (dfs_forward _ _ _ _ _ _); [|cbn; discriminate|cbn; discriminate].
  destruct (dfs_backward _ _ _ _ _ _); cbn; discriminate.
Qed.

Lemma add_dep_not_bug w s d dp : WF (gr w) -> live (gr w) s = true -> live (gr w) d = true -> fst (add_dependency w s d dp) <> AddBug.
Proof.
  intros W Ls Ld. unfold add_dependency.
  pose proof (add_edge_no_fuel (gr w) s d dp W) as NF. pose proof (add_edge_not_missing (gr w) s d dp W Ls Ld) as NM.
  destruct (add_edge (gr w) s d dp) as [[b|[|]|] g']; cbn [fst] in *; try discriminate; congruence.
Qed.

Lemma live_goc_task w x : live (gr (get_or_create_task_node w x)) (tn x) = true.
Proof.
  unfold get_or_create_task_node. destruct (live (gr w) (tn x)) eqn:L; [exact L|]. cbn [gr set_gr].
  apply live_true_iff. unfold add_node_at. cbn [infos]. rewrite map_app. apply in_or_app. right. left. reflexivity.
Qed.
Lemma live_goc_res w r : live (gr (get_or_create_resource_node w r)) (rn r) = true.
Proof.
  unfold get_or_create_resource_node. destruct (live (gr w) (rn r)) eqn:L; [exact L|]. cbn [gr set_gr].
  apply live_true_iff. unfold add_node_at. cbn [infos]. rewrite map_app. apply in_or_app. right. left. reflexivity.
Qed.
Definition notB4 {A} (m : outcome A) : Prop := forall w', m <> Abort (ABug 4) w'.

Lemma notB4_bind {A B} (m : outcome A) (f : A -> world -> outcome B) :
  notB4 m -> (forall a w1, m = Done a w1 -> notB4 (f a w1)) -> notB4 (bind m f).
Proof.
  intros H F. destruct m as [a w1|k w1|]; cbn [bind]; [apply (F a w1 eq_refl)| |intros w' X; discriminate].
  intros w' X. inversion X; subst. exact (H w' eq_refl).
Qed.
Lemma notB4_done {A} (a : A) w : notB4 (Done a w). Proof. intros w' X. discriminate. Qed.
Lemma notB4_abort {A} k w : k <> ABug 4 -> notB4 (@Abort A k w). Proof. intros H w' X. inversion X. congruence. Qed.

Section NB.
Variable RC : rcid -> rchecker.
Variable OC : ocid -> ochecker.
Variable P : task -> prog.

Definition NBMC (mc : world -> task -> outcome Z) : Prop :=
  forall w t S, StoreOK w -> Inv2 w -> Chain w S -> entry_ok w S t -> notB4 (mc w t).
Definition NBREQ (t : task) (S : list task) (req : world -> task -> ocid -> outcome Z) : Prop :=
  forall w x c, Pre t S w -> live (gr w) (tn t) = true -> notB4 (req w x c).

Lemma require_with_NB mc t S : MCspec mc -> NBMC mc -> NBREQ t S (require_with OC mc).
Proof.
  intros HM HN w x c PR Lt. pose proof (require_prefix RC OC P t S w x c PR) as RP. cbv zeta in RP.
  destruct PR as [H J0 C Hc Ho Hn]. unfold require_with.
  set (w2 := get_or_create_task_node (emit w (ERequireStart x c)) x) in *.
  destruct RP as [L2 [Hc2 RP]]. unfold reserve_require_dependency. rewrite Hc2.
  assert (Lt2 : live (gr w2) (tn t) = true) by (apply (lf_grows _ _ _ L2); exact Lt).
  assert (Lx2 : live (gr w2) (tn x) = true) by apply live_goc_task.
  pose proof (add_dep_not_bug w2 (tn t) (tn x) DReserved (proj1 (lf_ok _ _ _ L2)) Lt2 Lx2) as NBg.
  destruct (add_dependency w2 (tn t) (tn x) DReserved) as [[| |] w3] eqn:AD; cbn [fst bind] in *; [| |congruence].
  - destruct RP as [L3 [E3 [C3 [J3 [Ho3 Hc3]]]]].
    apply notB4_bind; [apply (HN w3 x (t :: S) (lf_ok _ _ _ L3) J3 C3 E3)|]. intros o w4 Eq.
    unfold update_require_dependency. destruct (cur (emit w4 (ERequireEnd x c (oc_stamp (OC c) o) o))) as [src|]; [|cbn [bind]; apply notB4_done].
    destruct (get_edata _ _ _); cbn [bind]; [apply notB4_done|apply notB4_abort; discriminate].
  - apply notB4_abort. discriminate.
Qed.

Lemma sess_read_NB w t r c : StoreOK w -> cur w = Some t -> live (gr w) (tn t) = true -> notB4 (sess_read RC w r c).
Proof.
  intros H Hc Lt. unfold sess_read. rewrite Hc.
  set (w2 := get_or_create_resource_node (emit w (EReadStart r c)) r).
  assert (H2 : StoreOK w2) by (apply goc_res_ok; exact H).
  assert (Lt2 : live (gr w2) (tn t) = true) by (apply (lf_grows _ _ _ (leaf_goc_res t (emit w (EReadStart r c)) r H)); exact Lt).
  destruct (hidden_read_check w2 t r); [apply notB4_abort; discriminate|].
  destruct (rc_stamp _ _ _ _) as [st|e]; [|apply notB4_done].
  pose proof (add_dep_not_bug (emit w2 (EReadEnd r c st)) (tn t) (rn r) (DRead r c st) (proj1 H2) Lt2 (live_goc_res _ r)) as NBg.
  destruct (add_dependency _ _ _ _) as [[| |] w4]; cbn [fst] in NBg; [apply notB4_done|apply notB4_done|congruence].
Qed.
Lemma sess_write_NB w t r c v : StoreOK w -> cur w = Some t -> live (gr w) (tn t) = true -> notB4 (sess_write RC w r c v).
Proof.
  intros H Hc Lt. unfold sess_write. rewrite Hc.
  set (w2 := get_or_create_resource_node (emit w (EWriteStart r c)) r).
  assert (H2 : StoreOK w2) by (apply goc_res_ok; exact H).
  assert (Lt2 : live (gr w2) (tn t) = true) by (apply (lf_grows _ _ _ (leaf_goc_res t (emit w (EWriteStart r c)) r H)); exact Lt).
  destruct (validate_write w2 t r) as [k|] eqn:V; [apply notB4_abort; unfold validate_write in V; intros ->|].
  { destruct (get_task_writing_to_resource w2 r); [discriminate|destruct (existsb _ _); discriminate]. }
  destruct (rc_stamp _ _ _ _) as [st|e]; [|apply notB4_done].
  assert (G3 : gr (emit (set_content w2 r v) (EWriteEnd r c st)) = gr w2) by (destruct v; reflexivity).
  pose proof (add_dep_not_bug (emit (set_content w2 r v) (EWriteEnd r c st)) (tn t) (rn r) (DWrite r c st)
                ltac:(rewrite G3; exact (proj1 H2)) ltac:(rewrite G3; exact Lt2) ltac:(rewrite G3; apply live_goc_res)) as NBg.
  destruct (add_dependency _ _ _ _) as [[| |] w4]; cbn [fst] in NBg; [apply notB4_done|apply notB4_done|congruence].
Qed.
Lemma sess_written_to_NB w0 t r c v : StoreOK w0 -> cur w0 = Some t -> live (gr w0) (tn t) = true -> notB4 (sess_written_to RC w0 r c v).
Proof.
  intros H Hc Lt. unfold sess_written_to.
  set (w := set_content w0 r v).
  assert (G0 : gr w = gr w0) by (unfold w; destruct v; reflexivity).
  assert (Hc' : cur w = Some t) by (unfold w; destruct v; exact Hc). rewrite Hc'.
  set (w2 := get_or_create_resource_node (emit w (EWriteStart r c)) r).
  assert (Hw : StoreOK (emit w (EWriteStart r c))) by (unfold StoreOK; cbn [gr emit]; rewrite G0; exact H).
  assert (H2 : StoreOK w2) by (apply goc_res_ok; exact Hw).
  assert (Lt2 : live (gr w2) (tn t) = true).
  { apply (lf_grows _ _ _ (leaf_goc_res t (emit w (EWriteStart r c)) r Hw)). cbn [gr emit]. rewrite G0. exact Lt. }
  destruct (validate_write w2 t r) as [k|] eqn:V; [apply notB4_abort; unfold validate_write in V; intros ->|].
  { destruct (get_task_writing_to_resource w2 r); [discriminate|destruct (existsb _ _); discriminate]. }
  destruct (rc_stamp _ _ _ _) as [st|e]; [|apply notB4_done].
  pose proof (add_dep_not_bug (emit w2 (EWriteEnd r c st)) (tn t) (rn r) (DWrite r c st) (proj1 H2) Lt2 (live_goc_res _ r)) as NBg.
  destruct (add_dependency _ _ _ _) as [[| |] w4]; cbn [fst] in NBg; [apply notB4_done|apply notB4_done|congruence].
Qed.

Lemma step_live {A} t S w (a : A) w1 extra : okP S [t] [] w (Done a w1) extra -> live (gr w) (tn t) = true -> live (gr w1) (tn t) = true.
Proof. intros [[seg P1] _] L. apply (po_live _ _ _ _ _ _ P1). exact L. Qed.

Lemma exec_prog_NB t S req : REQspec t S req -> NBREQ t S req ->
  forall p w, Pre t S w -> live (gr w) (tn t) = true -> notB4 (exec_prog RC OC req p w).
Proof.
  intros HR HN. induction p as [o| |x c k IH|r c k IH|r c v k IH|r c v k IH]; intros w PR Lt; cbn [exec_prog].
  - apply notB4_done.
  - apply notB4_abort. discriminate.
  - apply notB4_bind; [apply HN; assumption|]. intros o w1 Eq.
    pose proof (HR w x c (pre_ok _ _ _ PR) (pre_inv _ _ _ PR) (pre_chain _ _ _ PR) (pre_cur _ _ _ PR) (pre_out _ _ _ PR) (pre_nores _ _ _ PR)) as SP.
    rewrite Eq in SP. apply IH; [eapply (pre_step t S w); eassumption|eapply (step_live t S w); eassumption].
  - apply notB4_bind; [apply (sess_read_NB w t r c (pre_ok _ _ _ PR) (pre_cur _ _ _ PR) Lt)|]. intros xv w1 Eq.
    pose proof (sess_read_leaf RC w t r c (pre_ok _ _ _ PR) (pre_cur _ _ _ PR)) as LF.
    pose proof (sess_read_nores RC w t r c (pre_ok _ _ _ PR) (pre_cur _ _ _ PR) (pre_nores _ _ _ PR)) as NRs.
    pose proof (okP_of_leafO S t w (sess_read RC w r c) (chain_head_notin _ _ _ (pre_chain _ _ _ PR)) (pre_cur _ _ _ PR) (pre_out _ _ _ PR) (pre_nores _ _ _ PR) LF NRs) as SP.
    rewrite Eq in SP. apply IH; [eapply (pre_step t S w); eassumption|eapply (step_live t S w); eassumption].
  - apply notB4_bind; [apply (sess_write_NB w t r c v (pre_ok _ _ _ PR) (pre_cur _ _ _ PR) Lt)|]. intros xv w1 Eq.
    pose proof (sess_write_leaf RC w t r c v (pre_ok _ _ _ PR) (pre_cur _ _ _ PR)) as LF.
    pose proof (sess_write_nores RC w t r c v (pre_ok _ _ _ PR) (pre_cur _ _ _ PR) (pre_nores _ _ _ PR)) as NRs.
    pose proof (okP_of_leafO S t w (sess_write RC w r c v) (chain_head_notin _ _ _ (pre_chain _ _ _ PR)) (pre_cur _ _ _ PR) (pre_out _ _ _ PR) (pre_nores _ _ _ PR) LF NRs) as SP.
    rewrite Eq in SP. apply IH; [eapply (pre_step t S w); eassumption|eapply (step_live t S w); eassumption].
  - apply notB4_bind; [apply (sess_written_to_NB w t r c v (pre_ok _ _ _ PR) (pre_cur _ _ _ PR) Lt)|]. intros xv w1 Eq.
    pose proof (sess_written_to_leaf RC w t r c v (pre_ok _ _ _ PR) (pre_cur _ _ _ PR)) as LF.
    pose proof (sess_written_to_nores RC w t r c v (pre_ok _ _ _ PR) (pre_cur _ _ _ PR) (pre_nores _ _ _ PR)) as NRs.
    pose proof (okP_of_leafO S t w (sess_written_to RC w r c v) (chain_head_notin _ _ _ (pre_chain _ _ _ PR)) (pre_cur _ _ _ PR) (pre_out _ _ _ PR) (pre_nores _ _ _ PR) LF NRs) as SP.
    rewrite Eq in SP. apply IH; [eapply (pre_step t S w); eassumption|eapply (step_live t S w); eassumption].
Qed.

Lemma execute_with_NB t S req : REQspec t S req -> NBREQ t S req ->
  forall w, StoreOK w -> Inv2 w -> Chain w (t :: S) -> memN t (consistent w) = false -> live (gr w) (tn t) = true ->
  notB4 (execute_with RC OC P req w t).
Proof.
  intros HR HN w H J0 C Hn Lt. destruct (exec_start_pre OC t S w H J0 C Hn) as [PR2 _]. unfold execute_with.
  set (w2 := emit (set_cur (reset_task w t) (Some t)) (EExecStart t)) in *.
  assert (Lt2 : live (gr w2) (tn t) = true).
  { destruct (reset_task_facts w t H) as [_ [_ [L1 _]]]. apply L1. exact Lt. }
  apply notB4_bind; [apply (exec_prog_NB t S req HR HN (P t) w2 PR2 Lt2)|]. intros o w3 _. apply notB4_done.
Qed.

Lemma check_deps_NB mc t S : MCspec mc -> NBMC mc ->
  forall ds w, StoreOK w -> Inv2 w -> Chain w (t :: S) -> (forall d, In d ds -> dep_ok w t d) ->
  notB4 (check_deps RC OC mc ds w).
Proof.
  intros HM HN. induction ds as [|d tl IH]; intros w H J0 C HE; cbn [check_deps]; [apply notB4_done|].
  destruct (HE d (or_introl eq_refl)) as [dp [-> [NRs HX]]].
  assert (HE' : forall w', kids_of (gr w') (tn t) = kids_of (gr w) (tn t) -> forall d, In d tl -> dep_ok w' t d).
  { intros w' Kk d Hd. destruct (HE d (or_intror Hd)) as [dp' [-> [NR' HX']]]. exists dp'. split; [reflexivity|]. split; [exact NR'|].
    intros x c st E. unfold edge. rewrite Kk. apply (HX' x c st E). }
  destruct dp as [|x c st|r c st|r c st]; [congruence| | |].
  - set (w1 := emit w (ECheckTaskStart x c st)).
    assert (P1 : Post (t :: S) [] [] w w1 [ECheckTaskStart x c st]) by (apply post_emit; [exact H|exact Logic.I]).
    assert (C1 : Chain w1 (t :: S)) by (apply (chain_post_all w w1 _ _ _ C P1)).
    assert (E1 : entry_ok w1 (t :: S) x) by (cbn; apply (HX x c st eq_refl)).
    apply notB4_bind; [apply (HN w1 x (t :: S) H (po_inv _ _ _ _ _ _ P1 J0) C1 E1)|]. intros o w2 Eq.
    pose proof (HM w1 x (t :: S) H (po_inv _ _ _ _ _ _ P1 J0) C1 E1) as M. rewrite Eq in M. destruct M as [[s2 P2] _].
    destruct (oc_check (OC c) o st); [|apply notB4_done].
    apply IH.
    + apply (po_ok _ _ _ _ _ _ P2).
    + apply (po_inv _ _ _ _ _ _ P2). apply (po_inv _ _ _ _ _ _ P1 J0).
    + pose proof (chain_post_all w1 w2 (t :: S) [] s2 C1 P2) as [N2 C2']. split; [exact N2|].
      apply (chain_frame w2 _); [exact C2'|]. intros; reflexivity.
    + apply HE'. cbn [gr emit]. apply (po_frame _ _ _ _ _ _ P2). left. reflexivity.
  - unfold check_resource_td. cbv zeta.
    destruct (rc_check _ _ _ _ _); cbv iota beta; [|apply notB4_done|apply notB4_done].
    apply IH; [exact H|exact J0| |apply HE'; reflexivity].
    destruct C as [N C]. split; [exact N|]. apply (chain_frame w _); [exact C|]. intros; reflexivity.
  - unfold check_resource_td. cbv zeta.
    destruct (rc_check _ _ _ _ _); cbv iota beta; [|apply notB4_done|apply notB4_done].
    apply IH; [exact H|exact J0| |apply HE'; reflexivity].
    destruct C as [N C]. split; [exact N|]. apply (chain_frame w _); [exact C|]. intros; reflexivity.
Qed.

Theorem make_consistent_td_NB fuel : NBMC (make_consistent_td RC OC P fuel).
Proof.
  induction fuel as [|f IH]; intros w t S H J0 C E; cbn [make_consistent_td]; [intros w' X; discriminate|].
  pose proof (goc_task_post S w t H) as P0.
  set (w0 := get_or_create_task_node w t) in *.
  pose proof (po_ok _ _ _ _ _ _ P0) as H0. pose proof (po_inv _ _ _ _ _ _ P0 J0) as J1.
  pose proof (chain_post_all w w0 S [] [] C P0) as C0.
  assert (E0 : entry_ok w0 S t).
  { destruct S as [|top tl]; [exact Logic.I|]. cbn in *. unfold edge in *. rewrite (po_frame _ _ _ _ _ _ P0) by (left; reflexivity). exact E. }
  pose proof (entry_not_in w0 S t (proj1 H0) C0 E0) as Ht.
  assert (C1 : Chain w0 (t :: S)).
  { destruct C0 as [N0 K0']. split; [constructor; assumption|]. destruct S as [|top tl]; [exact Logic.I|]. split; [exact E0|exact K0']. }
  assert (Lt0 : live (gr w0) (tn t) = true) by apply live_goc_task.
  pose proof (make_consistent_td_spec RC OC P f) as HM.
  pose proof (require_with_spec RC OC P (make_consistent_td RC OC P f) t S HM) as HR.
  pose proof (require_with_NB (make_consistent_td RC OC P f) t S HM IH) as HNq.
  assert (EM : forall w', StoreOK w' -> Inv2 w' -> Chain w' (t :: S) -> memN t (consistent w') = false -> live (gr w') (tn t) = true ->
               notB4 (bind (execute_with RC OC P (require_with OC (make_consistent_td RC OC P f)) w' t) (fun o w2 => Done o (mark_consistent w2 t)))).
  { intros w' A1 A2 A3 A4 A5. apply notB4_bind; [apply (execute_with_NB t S _ HR HNq w' A1 A2 A3 A4 A5)|]. intros; apply notB4_done. }
  destruct (memN t (consistent w0)) eqn:Hm.
  - destruct (get_task_output w0 t); [apply notB4_done|apply notB4_abort; discriminate].
  - destruct (get_task_output w0 t) as [o0|] eqn:Ho.
    + apply notB4_bind; [apply (check_deps_NB (make_consistent_td RC OC P f) t S HM IH (deps_of_task w0 t) w0 H0 J1 C1 (deps_ok w0 t o0 H0 J1 Ho))|].
      intros ok w1 Eq.
      pose proof (check_deps_spec RC OC (make_consistent_td RC OC P f) t S HM (deps_of_task w0 t) w0 H0 J1 C1 (deps_ok w0 t o0 H0 J1 Ho)) as CD.
      rewrite Eq in CD. destruct CD as [[s1 P1] _].
      destruct (if ok then get_task_output w1 t else None); [apply notB4_done|].
      apply EM; [apply (po_ok _ _ _ _ _ _ P1)|apply (po_inv _ _ _ _ _ _ P1 J1)|eapply chain_post_all; eassumption| |apply (po_live _ _ _ _ _ _ P1); exact Lt0].
      destruct (memN t (consistent w1)) eqn:Z; [|reflexivity]. apply (po_keep _ _ _ _ _ _ P1) in Z; [congruence|left; left; reflexivity].
    + apply EM; assumption.
Qed.

(* ---- sessions and histories ---- *)
Variable always : ocid.

Lemma session_require_NB fuel w t : StoreOK w -> Inv2 w -> notB4 (session_require RC OC P always fuel w t).
Proof.
  intros H J0. unfold session_require, require_td, require_with.
  set (w1 := emit (set_cur w None) EBuildStart).
  set (w2 := get_or_create_task_node (emit w1 (ERequireStart t always)) t).
  assert (P2 : Post [] [] [] w1 w2 ([ERequireStart t always] ++ [])).
  { eapply post_seq; [apply post_emit; [exact H|exact Logic.I]|apply goc_task_post; exact H]. }
  assert (Hc2 : cur w2 = None) by (unfold w2, get_or_create_task_node; destruct (live _ _); reflexivity).
  unfold reserve_require_dependency. rewrite Hc2. cbn [bind].
  apply notB4_bind; [|intros; apply notB4_done].
  apply notB4_bind; [apply (make_consistent_td_NB fuel w2 t [] (po_ok _ _ _ _ _ _ P2) (po_inv _ _ _ _ _ _ P2 J0) (chain_nil w2) Logic.I)|].
  intros o w4 Eq. unfold update_require_dependency. destruct (cur (emit w4 (ERequireEnd t always (oc_stamp (OC always) o) o))) as [src|]; [|cbn [bind]; apply notB4_done].
  destruct (get_edata _ _ _); cbn [bind]; [apply notB4_done|apply notB4_abort; discriminate].
Qed.

Theorem session_td_no_bug4 fuel ops : forall w, td_only ops -> J w -> ~ Exists bug4 (fst (run_session RC OC P always fuel w ops)).
Proof.
  induction ops as [|o tl IH]; intros w TD Jw; cbn [run_session]; [intros X; inversion X|].
  destruct o as [t|ch]; [|destruct TD]. cbn [td_only] in TD. cbn [run_sop].
  pose proof (session_require_NB fuel w t (proj1 Jw) (proj2 Jw)) as NB.
  pose proof (session_require_execs RC OC P always fuel w t Jw) as SE.
  destruct (session_require RC OC P always fuel w t) as [x w1|k w1|] eqn:SR.
  - destruct SE as [J1 _]. specialize (IH w1 TD J1). destruct (run_session RC OC P always fuel w1 tl) as [rs w2]. cbn [fst] in *.
    intros X. inversion X as [? ? B|? ? B]; subst; [discriminate B|exact (IH B)].
  - cbn [fst]. intros X. inversion X as [? ? B|? ? B]; subst; [|inversion B]. unfold bug4 in B. inversion B; subst k. exact (NB w1 eq_refl).
  - cbn [fst]. intros X. inversion X as [? ? B|? ? B]; subst; [discriminate B|inversion B].
Qed.

Theorem history_td_no_bug4 fuel h : forall w, td_hist h -> J w -> ~ Exists (Exists bug4) (fst (run_history RC OC P always fuel w h)).
Proof.
  induction h as [|s tl IH]; intros w TD Jw; cbn [run_history]; [intros X; inversion X|].
  assert (TD' : td_hist tl) by (destruct s; [exact TD|exact TD|exact (proj2 TD)]).
  assert (X1 : ~ Exists bug4 (fst (run_step RC OC P always fuel w s)) /\ J (snd (run_step RC OC P always fuel w s))).
  { destruct s as [r v|f|ops]; cbn [run_step fst snd].
    - split; [intros X; inversion X|apply J_set_content; exact Jw].
    - split; [intros X; inversion X|exact Jw].
    - destruct TD as [TD _]. split; [apply session_td_no_bug4; [exact TD|apply J_new_session; exact Jw]|].
      destruct (session_td_ran RC OC P always fuel ops (new_session w) TD (J_new_session w Jw)) as [B|[_ [seg R]]]; [|apply (ran_ok _ _ _ R)].
      exfalso. exact (session_td_no_bug4 fuel ops (new_session w) TD (J_new_session w Jw) B). }
  destruct (run_step RC OC P always fuel w s) as [r w']. cbn [fst snd] in X1. destruct X1 as [NB Jw'].
  specialize (IH w' TD' Jw'). destruct (run_history RC OC P always fuel w' tl) as [rs w'']. cbn [fst] in *.
  intros X. inversion X as [? ? B|? ? B]; subst; [exact (NB B)|exact (IH B)].
Qed.
End NB.

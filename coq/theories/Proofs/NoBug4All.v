(* "Node missing" / graph-search-fuel aborts (ABug 4) never happen -- in ANY session: top-down, bottom-up or mixed, after
   any number of aborted builds, for all programs and checkers.  Together with the preservation theorems of History.v this
   makes the store invariants (well-formed acyclic graph with gap-free ranks, typed edges, single writer) unconditional facts
   of every reachable state.

   The invariant L carries, besides StoreOK, the two liveness facts the code relies on implicitly: the node of the currently
   executing task exists, and every task in the bottom-up queue has a node.  Results are relational (nodes are never removed). *)
From Coq Require Import List NArith ZArith Bool Lia.
From PieV Require Import Model.Dag Model.Build Proofs.DagLib Proofs.DagWF Proofs.DagPath Proofs.DagQueries Proofs.StoreInv
  Proofs.Sorting Proofs.Effects Proofs.Inv Proofs.History Proofs.ExecInv Proofs.NoBug4.
Import ListNotations.
Open Scope N_scope.

Definition mono (w w' : world) : Prop := forall n, live (gr w) n = true -> live (gr w') n = true.
Definition CL (w : world) : Prop := forall t, cur w = Some t -> live (gr w) (tn t) = true.
Definition QL (w : world) : Prop := forall t, In t (queue w) -> live (gr w) (tn t) = true.
Definition L (w : world) : Prop := StoreOK w /\ CL w /\ QL w.

Lemma mono_refl w : mono w w. Proof. intros n H. exact H. Qed.
Ltac mr := let n := fresh "n" in let X := fresh "X" in intros n X; exact X.
Lemma mono_trans a b c : mono a b -> mono b c -> mono a c. Proof. intros X Y n H. apply Y, X, H. Qed.

Definition okR {A} (w : world) (m : outcome A) : Prop :=
  match m with
  | Done _ w' => L w' /\ mono w w'
  | Abort k w' => k <> ABug 4 /\ L w' /\ mono w w'
  | OutOfFuel => True
  end.

Lemma bind_R {A B} w (m : outcome A) (f : A -> world -> outcome B) :
  okR w m -> (forall a w1, L w1 -> mono w w1 -> okR w1 (f a w1)) -> okR w (bind m f).
Proof.
  destruct m as [a w1|k w1|]; cbn; intros H F; [|exact H|exact Logic.I].
  destruct H as [H1 H2]. specialize (F a w1 H1 H2). destruct (f a w1) as [b w2|k w2|]; cbn in *.
  - destruct F as [F1 F2]. split; [exact F1|eapply mono_trans; eassumption].
  - destruct F as [F0 [F1 F2]]. split; [exact F0|]. split; [exact F1|eapply mono_trans; eassumption].
  - exact Logic.I.
Qed.

Lemma okR_pre {A} w0 w (m : outcome A) : mono w0 w -> okR w m -> okR w0 m.
Proof.
  intros M. destruct m as [a w1|k w1|]; cbn; [intros [H1 H2]|intros [H0 [H1 H2]]|trivial].
  - split; [exact H1|eapply mono_trans; eassumption].
  - split; [exact H0|]. split; [exact H1|eapply mono_trans; eassumption].
Qed.

(* ---- worlds that differ only outside graph / cur / queue ---- *)
Lemma L_same w w' : gr w' = gr w -> cur w' = cur w -> queue w' = queue w -> L w -> L w' /\ mono w w'.
Proof.
  intros G C Q [H1 [H2 H3]]. split; [|intros n; rewrite G; trivial].
  split; [unfold StoreOK; rewrite G; exact H1|]. split; [intros t; rewrite C, G; apply H2|intros t; rewrite Q, G; apply H3].
Qed.
Lemma L_emit w e : L w -> L (emit w e). Proof. intros H. apply (L_same w (emit w e)); auto. Qed.
Lemma L_push_err w e : L w -> L (push_err w e). Proof. intros H. apply (L_same w (push_err w e)); auto. Qed.
Lemma L_mark w t : L w -> L (mark_consistent w t). Proof. intros H. apply (L_same w (mark_consistent w t)); auto. Qed.
Lemma L_set_content w r v : L w -> L (set_content w r v).
Proof. intros H. apply (L_same w (set_content w r v)); destruct v; auto. Qed.
Lemma L_set_env w e : L w -> L (set_env w e). Proof. intros H. apply (L_same w (set_env w e)); auto. Qed.
Lemma L_set_cur_none w : L w -> L (set_cur w None).
Proof. intros [H1 [H2 H3]]. split; [exact H1|]. split; [intros t X; discriminate|exact H3]. Qed.

(* a graph step that keeps StoreOK and nodes *)
Lemma L_graph w w' : StoreOK w' -> mono w w' -> cur w' = cur w -> queue w' = queue w -> L w -> L w'.
Proof.
  intros S M C Q [_ [H2 H3]]. split; [exact S|]. split; [intros t X; rewrite C in X; apply M, H2, X|intros t X; rewrite Q in X; apply M, H3, X].
Qed.

Lemma goc_task_L w t : L w -> L (get_or_create_task_node w t) /\ mono w (get_or_create_task_node w t).
Proof.
  intros H. assert (M : mono w (get_or_create_task_node w t)).
  { unfold get_or_create_task_node. destruct (live (gr w) (tn t)) eqn:E; [mr|]. intros n X. apply (add_node_same (gr w) (tn t) E). exact X. }
  split; [|exact M]. apply (L_graph w); [apply goc_task_ok; apply H|exact M| | |exact H];
    unfold get_or_create_task_node; destruct (live _ _); reflexivity.
Qed.
Lemma goc_res_L w r : L w -> L (get_or_create_resource_node w r) /\ mono w (get_or_create_resource_node w r).
Proof.
  intros H. assert (M : mono w (get_or_create_resource_node w r)).
  { unfold get_or_create_resource_node. destruct (live (gr w) (rn r)) eqn:E; [mr|]. intros n X. apply (add_node_same (gr w) (rn r) E). exact X. }
  split; [|exact M]. apply (L_graph w); [apply goc_res_ok; apply H|exact M| | |exact H];
    unfold get_or_create_resource_node; destruct (live _ _); reflexivity.
Qed.

Lemma add_dependency_cq w s d dp : cur (snd (add_dependency w s d dp)) = cur w /\ queue (snd (add_dependency w s d dp)) = queue w.
Proof. unfold add_dependency. destruct (add_edge (gr w) s d dp) as [[b|[|]|] g']; split; reflexivity. Qed.

Section NBA.
Variable RC : rcid -> rchecker.
Variable OC : ocid -> ochecker.
Variable P : task -> prog.

Notation SP := (StoreOK_preserved RC).

(* ---- leaf operations ---- *)
Lemma leaf_mono t w w' : Leaf t w w' -> mono w w'.
Proof. intros LF. destruct (lf_grows _ _ _ LF) as [_ [_ M]]. exact M. Qed.

Lemma leaf_R {A} t w (m : outcome A) :
  L w -> cur w = Some t -> leafO t w m -> notB4 m ->
  (match m with Done _ w' | Abort _ w' => queue w' = queue w | OutOfFuel => True end) -> okR w m.
Proof.
  intros HL Hc LF NB Q. destruct m as [a w'|k w'|]; cbn in *; [| |exact Logic.I].
  - split; [|apply (leaf_mono t); exact LF]. apply (L_graph w); [apply LF|apply (leaf_mono t); exact LF|apply LF|exact Q|exact HL].
  - assert (K : k <> ABug 4) by (intros ->; apply (NB w'); reflexivity).
    destruct LF as [->|[_ LF]]; [contradiction|]. split; [exact K|].
    split; [|apply (leaf_mono t); exact LF]. apply (L_graph w); [apply LF|apply (leaf_mono t); exact LF|apply LF|exact Q|exact HL].
Qed.

Lemma sess_read_q w r c : match sess_read RC w r c with Done _ w' | Abort _ w' => queue w' = queue w | OutOfFuel => True end.
Proof.
  unfold sess_read. destruct (cur w) as [t|]; [|reflexivity].
  set (w2 := get_or_create_resource_node (emit w (EReadStart r c)) r).
  assert (Q2 : queue w2 = queue w) by (unfold w2, get_or_create_resource_node; destruct (live _ _); reflexivity).
  destruct (hidden_read_check w2 t r); [exact Q2|]. destruct (rc_stamp _ _ _ _) as [st|e]; [|exact Q2].
  pose proof (add_dependency_cq (emit w2 (EReadEnd r c st)) (tn t) (rn r) (DRead r c st)) as [_ X].
  destruct (add_dependency _ _ _ _) as [[| |] w4]; cbn [snd] in X; rewrite X; exact Q2.
Qed.
Lemma sess_write_q w r c v : match sess_write RC w r c v with Done _ w' | Abort _ w' => queue w' = queue w | OutOfFuel => True end.
Proof.
  unfold sess_write. destruct (cur w) as [t|]; [|destruct v; reflexivity].
  set (w2 := get_or_create_resource_node (emit w (EWriteStart r c)) r).
  assert (Q2 : queue w2 = queue w) by (unfold w2, get_or_create_resource_node; destruct (live _ _); reflexivity).
  destruct (validate_write w2 t r); [exact Q2|].
  assert (Q3 : queue (set_content w2 r v) = queue w) by (destruct v; exact Q2).
  destruct (rc_stamp _ _ _ _) as [st|e]; [|exact Q3].
  pose proof (add_dependency_cq (emit (set_content w2 r v) (EWriteEnd r c st)) (tn t) (rn r) (DWrite r c st)) as [_ X].
  destruct (add_dependency _ _ _ _) as [[| |] w4]; cbn [snd] in X; rewrite X; exact Q3.
Qed.
Lemma sess_written_to_q w r c v : match sess_written_to RC w r c v with Done _ w' | Abort _ w' => queue w' = queue w | OutOfFuel => True end.
Proof.
  unfold sess_written_to.
  assert (Q0 : queue (set_content w r v) = queue w) by (destruct v; reflexivity).
  set (w0 := set_content w r v) in *.
  destruct (cur w0) as [t|]; [|exact Q0].
  set (w2 := get_or_create_resource_node (emit w0 (EWriteStart r c)) r).
  assert (Q2 : queue w2 = queue w) by (unfold w2, get_or_create_resource_node; destruct (live _ _); exact Q0).
  destruct (validate_write w2 t r); [exact Q2|].
  destruct (rc_stamp _ _ _ _) as [st|e]; [|exact Q2].
  pose proof (add_dependency_cq (emit w2 (EWriteEnd r c st)) (tn t) (rn r) (DWrite r c st)) as [_ X].
  destruct (add_dependency _ _ _ _) as [[| |] w4]; cbn [snd] in X; rewrite X; exact Q2.
Qed.

Lemma sess_read_R w r c : L w -> okR w (sess_read RC w r c).
Proof.
  intros HL. destruct (cur w) as [t|] eqn:Hc.
  - apply (leaf_R t); [exact HL|exact Hc|apply sess_read_leaf; [apply HL|exact Hc]|apply (sess_read_NB RC w t); [apply HL|exact Hc|apply (proj1 (proj2 HL)); exact Hc]|apply sess_read_q].
  - unfold sess_read. rewrite Hc. cbn. split; [exact HL|mr].
Qed.
Lemma sess_write_R w r c v : L w -> okR w (sess_write RC w r c v).
Proof.
  intros HL. destruct (cur w) as [t|] eqn:Hc.
  - apply (leaf_R t); [exact HL|exact Hc|apply sess_write_leaf; [apply HL|exact Hc]|apply (sess_write_NB RC w t); [apply HL|exact Hc|apply (proj1 (proj2 HL)); exact Hc]|apply sess_write_q].
  - unfold sess_write. rewrite Hc. cbn. apply (L_same w (set_content w r v)); [destruct v; reflexivity..|exact HL].
Qed.
Lemma sess_written_to_R w r c v : L w -> okR w (sess_written_to RC w r c v).
Proof.
  intros HL. destruct (cur w) as [t|] eqn:Hc.
  - apply (leaf_R t); [exact HL|exact Hc|apply sess_written_to_leaf; [apply HL|exact Hc]|apply (sess_written_to_NB RC w t); [apply HL|exact Hc|apply (proj1 (proj2 HL)); exact Hc]|apply sess_written_to_q].
  - unfold sess_written_to. assert (X : cur (set_content w r v) = None) by (destruct v; exact Hc). rewrite X. cbn.
    apply (L_same w (set_content w r v)); [destruct v; reflexivity..|exact HL].
Qed.

Lemma reserve_R w t : L w -> live (gr w) (tn t) = true -> okR w (reserve_require_dependency w t).
Proof.
  intros HL Lt. pose proof (pr_reserve _ _ SP w t (proj1 HL)) as S. unfold reserve_require_dependency in *.
  destruct (cur w) as [s|] eqn:Hc; [|cbn; split; [exact HL|mr]].
  pose proof (add_dep_not_bug w (tn s) (tn t) DReserved (proj1 (proj1 HL)) (proj1 (proj2 HL) s Hc) Lt) as NB.
  pose proof (add_dependency_grows w (tn s) (tn t) DReserved (proj1 (proj1 HL))) as [_ [_ M]].
  pose proof (add_dependency_cq w (tn s) (tn t) DReserved) as [C Q].
  destruct (add_dependency w (tn s) (tn t) DReserved) as [[| |] w']; cbn [fst snd okO okR] in *.
  - split; [|exact M]. apply (L_graph w); assumption.
  - split; [discriminate|]. destruct S as [S|S]; [discriminate|]. split; [|exact M]. apply (L_graph w); assumption.
  - contradiction NB; reflexivity.
Qed.

Lemma update_R w t c st : L w -> okR w (update_require_dependency w t c st).
Proof.
  intros HL. pose proof (pr_update _ _ SP w t c st (proj1 HL)) as S. unfold update_require_dependency in *.
  destruct (cur w) as [s|]; [|cbn; split; [exact HL|mr]].
  destruct (get_edata (gr w) (tn s) (tn t)); cbn [okO okR] in *.
  - assert (M : mono w (set_gr w (insert_edata (gr w) (tn s) (tn t) (DRequire t c st)))) by (intros n X; exact X).
    split; [|exact M]. apply (L_graph w); [exact S|exact M|reflexivity|reflexivity|exact HL].
  - split; [discriminate|]. split; [exact HL|mr].
Qed.

(* ---- the interpreters ---- *)
Definition RREQ (req : world -> task -> ocid -> outcome Z) : Prop := forall w t c, L w -> okR w (req w t c).
Definition RMC (mc : world -> task -> outcome Z) : Prop := forall w t, L w -> live (gr w) (tn t) = true -> okR w (mc w t).

Lemma exec_prog_R req : RREQ req -> forall p w, L w -> okR w (exec_prog RC OC req p w).
Proof.
  intros Hreq. induction p as [o| |t c k IH|r c k IH|r c v k IH|r c v k IH]; intros w Hw; cbn [exec_prog].
  - split; [exact Hw|mr].
  - split; [discriminate|]. split; [exact Hw|mr].
  - apply bind_R; [apply Hreq; exact Hw|]. intros o w' Hw' _. apply IH. exact Hw'.
  - apply bind_R; [apply sess_read_R; exact Hw|]. intros x w' Hw' _. apply IH. exact Hw'.
  - apply bind_R; [apply sess_write_R; exact Hw|]. intros x w' Hw' _. apply IH. exact Hw'.
  - apply bind_R; [apply sess_written_to_R; exact Hw|]. intros x w' Hw' _. apply IH. exact Hw'.
Qed.

Lemma reset_queue w t : queue (reset_task w t) = queue w. Proof. reflexivity. Qed.

Lemma execute_with_R req w t : RREQ req -> L w -> live (gr w) (tn t) = true -> okR w (execute_with RC OC P req w t).
Proof.
  intros Hreq HL Lt. unfold execute_with.
  destruct (reset_task_facts w t (proj1 HL)) as [R1 [_ [R3 [_ [_ [R6 _]]]]]].
  set (ws := emit (set_cur (reset_task w t) (Some t)) (EExecStart t)).
  assert (Ms : mono w ws) by exact R3.
  assert (Ls : L ws).
  { split; [exact R1|]. split; [intros x X; cbn in X; inversion X; subst x; apply R3; exact Lt|intros x X; apply R3; apply (proj2 (proj2 HL)); exact X]. }
  eapply okR_pre; [exact Ms|]. apply bind_R; [apply exec_prog_R; assumption|].
  intros o w3 L3 M3. cbn [okR]. split; [|intros n X; exact X].
  split; [apply (pr_exec_end _ _ SP); apply L3|]. split.
  - intros x X. cbn in X. apply M3, Ms. apply (proj1 (proj2 HL)). exact X.
  - intros x X. apply (proj2 (proj2 L3)). exact X.
Qed.

Lemma require_with_R mc : RMC mc -> RREQ (require_with OC mc).
Proof.
  intros Hmc w t c HL. unfold require_with.
  set (w1 := emit w (ERequireStart t c)).
  destruct (goc_task_L w1 t (L_emit w _ HL)) as [L2 M2]. set (w2 := get_or_create_task_node w1 t) in *.
  assert (Lt : live (gr w2) (tn t) = true) by apply live_goc_task.
  eapply (okR_pre w w2); [exact M2|].
  apply bind_R; [apply reserve_R; assumption|]. intros _ w3 L3 M3.
  apply bind_R; [apply Hmc; [exact L3|apply M3; exact Lt]|]. intros o w4 L4 M4.
  eapply (okR_pre w4 (emit w4 _)); [intros n X; exact X|].
  apply bind_R; [apply update_R; apply L_emit; exact L4|]. intros _ w6 L6 M6. cbn. split; [exact L6|mr].
Qed.

Lemma check_resource_td_L w r c st : L w -> L (snd (check_resource_td RC w r c st)) /\ mono w (snd (check_resource_td RC w r c st)).
Proof. intros HL. unfold check_resource_td. cbn. split; [apply L_emit, L_emit; exact HL|mr]. Qed.

Definition DL (w : world) (ds : list (option dep)) : Prop := forall t c st, In (Some (DRequire t c st)) ds -> live (gr w) (tn t) = true.

Lemma check_deps_R mc : RMC mc -> forall ds w, L w -> DL w ds -> okR w (check_deps RC OC mc ds w).
Proof.
  intros Hmc. induction ds as [|d tl IH]; intros w HL HD; cbn [check_deps]; [split; [exact HL|mr]|].
  assert (HDtl : forall w', mono w w' -> DL w' tl). { intros w' M t c st X. apply M. apply (HD t c st). right. exact X. }
  destruct d as [[|t c st|r c st|r c st]|]; try (split; [discriminate|]; split; [exact HL|mr]).
  - apply (okR_pre w (emit w (ECheckTaskStart t c st))); [mr|].
    apply bind_R; [apply Hmc; [apply L_emit; exact HL|apply (HD t c st); left; reflexivity]|]. intros o w2 L2 M2.
    destruct (oc_check (OC c) o st).
    + apply (okR_pre w2 (emit w2 (ECheckTaskEnd t c st (negb true)))); [mr|].
      apply IH; [apply L_emit; exact L2|apply HDtl; intros n X; apply M2; exact X].
    + split; [apply L_emit; exact L2|mr].
  - destruct (check_resource_td_L w r c st HL) as [X M]. destruct (check_resource_td RC w r c st) as [[| |e] w1]; cbn [snd] in X, M.
    + eapply okR_pre; [exact M|]. apply IH; [exact X|apply HDtl; exact M].
    + split; [exact X|exact M]. + split; [apply L_push_err; exact X|exact M].
  - destruct (check_resource_td_L w r c st HL) as [X M]. destruct (check_resource_td RC w r c st) as [[| |e] w1]; cbn [snd] in X, M.
    + eapply okR_pre; [exact M|]. apply IH; [exact X|apply HDtl; exact M].
    + split; [exact X|exact M]. + split; [apply L_push_err; exact X|exact M].
Qed.

Lemma deps_DL w t : StoreOK w -> DL w (deps_of_task w t).
Proof.
  intros [W [T _]] t' c st X. unfold deps_of_task, get_outgoing_edges in X. rewrite map_map in X. cbn [snd] in X.
  apply in_map_iff in X. destruct X as [d [E Hd]]. destruct (T _ _ _ E) as [_ D]. cbn in D. subst d.
  apply (wf_closed _ W _ _ Hd).
Qed.

Theorem make_consistent_td_R fuel : RMC (make_consistent_td RC OC P fuel).
Proof.
  induction fuel as [|f IH]; intros w t HL Lt; cbn [make_consistent_td]; [exact Logic.I|].
  destruct (goc_task_L w t HL) as [L0 M0]. set (w0 := get_or_create_task_node w t) in *.
  assert (Lt0 : live (gr w0) (tn t) = true) by apply live_goc_task.
  eapply okR_pre; [exact M0|].
  destruct (memN t (consistent w0)).
  - destruct (get_task_output w0 t); [split; [exact L0|mr]|split; [discriminate|split; [exact L0|mr]]].
  - assert (Hreq : RREQ (require_with OC (make_consistent_td RC OC P f))) by (apply require_with_R; exact IH).
    assert (EX : forall w1, L w1 -> mono w0 w1 ->
              okR w1 (bind (execute_with RC OC P (require_with OC (make_consistent_td RC OC P f)) w1 t) (fun o w2 => Done o (mark_consistent w2 t)))).
    { intros w1 L1 M1. apply bind_R; [apply execute_with_R; [exact Hreq|exact L1|apply M1; exact Lt0]|]. intros o w2 L2 _.
      split; [apply L_mark; exact L2|mr]. }
    destruct (get_task_output w0 t).
    + apply bind_R; [apply check_deps_R; [exact IH|exact L0|apply deps_DL; apply L0]|]. intros ok w1 L1 M1.
      destruct (if ok then get_task_output w1 t else None).
      * split; [apply L_mark; exact L1|mr].
      * apply EX; assumption.
    + apply EX; [exact L0|mr].
Qed.

(* ---- bottom-up ---- *)
Lemma queue_add_L w t : L w -> live (gr w) (tn t) = true -> L (queue_add w t).
Proof.
  intros HL Lt. unfold queue_add. destruct (memN t (queue w)); [exact HL|].
  destruct HL as [H1 [H2 H3]]. split; [exact H1|]. split; [exact H2|]. intros x X. cbn in X. apply in_app_or in X.
  destruct X as [X|[<-|[]]]; [apply H3; exact X|exact Lt].
Qed.
Lemma queue_add_gr w t : gr (queue_add w t) = gr w.
Proof. unfold queue_add. destruct (memN t (queue w)); reflexivity. Qed.

Lemma try_schedule_L w t r c st : L w -> live (gr w) (tn t) = true -> L (try_schedule RC w t r c st) /\ gr (try_schedule RC w t r c st) = gr w.
Proof.
  intros HL Lt. unfold try_schedule. cbv zeta. destruct (rc_check _ _ _ _ _) as [| |e].
  - split; [apply L_emit, L_emit; exact HL|reflexivity].
  - split; [apply queue_add_L; [apply L_emit, L_emit, L_emit; exact HL|exact Lt]|rewrite queue_add_gr; reflexivity].
  - split; [apply queue_add_L; [apply L_emit, L_push_err, L_emit, L_emit; exact HL|exact Lt]|rewrite queue_add_gr; reflexivity].
Qed.

Lemma even_tn' n : is_tn n = true -> n = tn (un n).
Proof. unfold is_tn, tn, un. intros E. destruct (N.Even_or_Odd n) as [[k ->]|[k ->]].
  - rewrite N.div2_double. reflexivity.
  - rewrite N.even_add, N.even_mul in E. discriminate.
Qed.

(* sources of incoming edges are live task nodes *)
Lemma incoming_src w n p : StoreOK w -> In p (incoming w n) -> snd p <> None -> live (gr w) (tn (un (fst p))) = true.
Proof.
  intros [W [T _]] Hin _. unfold incoming in Hin. destruct p as [u e].
  destruct (proj2 (incoming_spec (gr w) n W) u e Hin) as [E NE]. cbn [fst snd].
  destruct e as [dp|]; [|contradiction NE; reflexivity]. symmetry in E. destruct (T _ _ _ E) as [Tu _].
  rewrite <- (even_tn' u Tu). apply (wf_closed _ W u n). apply (wf_edata _ W). rewrite E. discriminate.
Qed.

Lemma try_schedule_edge_L b w g p : L w -> gr w = g -> (snd p <> None -> live g (tn (un (fst p))) = true) ->
  L (try_schedule_edge RC b w p) /\ gr (try_schedule_edge RC b w p) = g.
Proof.
  intros HL G Lp. unfold try_schedule_edge. destruct (snd p) as [[|t c st|r c st|r c st]|] eqn:E; try (split; [exact HL|exact G]).
  - destruct (try_schedule_L w (un (fst p)) r c st HL) as [X Y]; [rewrite G; apply Lp; discriminate|]. split; [exact X|rewrite Y; exact G].
  - destruct b; [split; [exact HL|exact G]|].
    destruct (try_schedule_L w (un (fst p)) r c st HL) as [X Y]; [rewrite G; apply Lp; discriminate|]. split; [exact X|rewrite Y; exact G].
Qed.

Lemma fold_try_L b g l : (forall p, In p l -> snd p <> None -> live g (tn (un (fst p))) = true) ->
  forall w, L w -> gr w = g -> L (fold_left (try_schedule_edge RC b) l w) /\ gr (fold_left (try_schedule_edge RC b) l w) = g.
Proof.
  induction l as [|p tl IH]; intros Hl w HL G; cbn [fold_left]; [split; assumption|].
  destruct (try_schedule_edge_L b w g p HL G) as [X Y]; [apply Hl; left; reflexivity|].
  apply IH; [intros q Hq; apply Hl; right; exact Hq|exact X|exact Y].
Qed.

Lemma schedule_tasks_affected_by_L w r : L w -> L (schedule_tasks_affected_by RC w r) /\ mono w (schedule_tasks_affected_by RC w r).
Proof.
  intros HL. unfold schedule_tasks_affected_by. cbv zeta.
  destruct (goc_res_L (emit w (ESchedByResStart r)) r (L_emit w _ HL)) as [L2 M2].
  set (w2 := get_or_create_resource_node (emit w (ESchedByResStart r)) r) in *.
  destruct (fold_try_L false (gr w2) (incoming w2 (rn r))) with (w := w2) as [X Y]; [intros p Hp; apply (incoming_src w2 (rn r) p (proj1 L2) Hp)|exact L2|reflexivity|].
  split; [apply L_emit; exact X|]. intros n Hn. cbn. rewrite Y. apply M2. exact Hn.
Qed.

Lemma schedule_by_written_L w r : L w -> L (schedule_by_written RC w r) /\ gr (schedule_by_written RC w r) = gr w.
Proof.
  intros HL. unfold schedule_by_written. cbv zeta.
  set (w1 := emit w (ESchedByResStart r)).
  destruct (fold_try_L true (gr w1) (incoming w1 (rn r))) with (w := w1) as [X Y]; [intros p Hp; apply (incoming_src w1 (rn r) p (proj1 (L_emit w _ HL)) Hp)|apply L_emit; exact HL|reflexivity|].
  split; [apply L_emit; exact X|cbn; rewrite Y; reflexivity].
Qed.

Lemma schedule_requirer_L o w g p : L w -> gr w = g -> (snd p <> None -> live g (tn (un (fst p))) = true) ->
  L (schedule_requirer OC o w p) /\ gr (schedule_requirer OC o w p) = g.
Proof.
  intros HL G Lp. unfold schedule_requirer. destruct (snd p) as [[|t c st|r c st|r c st]|] eqn:E; try (split; [exact HL|exact G]).
  cbv zeta. destruct (oc_check (OC c) o st).
  - split; [apply L_emit, L_emit; exact HL|exact G].
  - split; [apply queue_add_L; [apply L_emit, L_emit, L_emit; exact HL|cbn; rewrite G; apply Lp; discriminate]|rewrite queue_add_gr; exact G].
Qed.

Lemma fold_requirer_L o g l : (forall p, In p l -> snd p <> None -> live g (tn (un (fst p))) = true) ->
  forall w, L w -> gr w = g -> L (fold_left (schedule_requirer OC o) l w) /\ gr (fold_left (schedule_requirer OC o) l w) = g.
Proof.
  induction l as [|p tl IH]; intros Hl w HL G; cbn [fold_left]; [split; assumption|].
  destruct (schedule_requirer_L o w g p HL G) as [X Y]; [apply Hl; left; reflexivity|].
  apply IH; [intros q Hq; apply Hl; right; exact Hq|exact X|exact Y].
Qed.

Lemma fold_written_L l : forall w, L w -> L (fold_left (schedule_by_written RC) l w) /\ gr (fold_left (schedule_by_written RC) l w) = gr w.
Proof.
  induction l as [|r tl IH]; intros w HL; cbn [fold_left]; [split; [exact HL|reflexivity]|].
  destruct (schedule_by_written_L w r HL) as [X Y]. destruct (IH _ X) as [X' Y']. split; [exact X'|rewrite Y', Y; reflexivity].
Qed.

Lemma schedule_after_L w t o : L w -> L (schedule_after RC OC w t o) /\ mono w (schedule_after RC OC w t o).
Proof.
  intros HL. unfold schedule_after. cbv zeta.
  destruct (fold_written_L (resources_written_by w t) w HL) as [L1 G1].
  set (w1 := fold_left (schedule_by_written RC) (resources_written_by w t) w) in *.
  set (w2 := emit w1 (ESchedByTaskStart t)).
  destruct (fold_requirer_L o (gr w2) (incoming w2 (tn t))) with (w := w2) as [X Y];
    [intros p Hp; apply (incoming_src w2 (tn t) p (proj1 (L_emit w1 _ L1)) Hp)|apply L_emit; exact L1|reflexivity|].
  split; [apply L_mark, L_emit; exact X|]. intros n Hn.
  change (live (gr (fold_left (schedule_requirer OC o) (incoming w2 (tn t)) w2)) n = true). rewrite Y.
  change (live (gr w1) n = true). rewrite G1. exact Hn.
Qed.

Lemma require_bu_with_R mc : RMC mc -> RREQ (require_bu_with OC mc).
Proof.
  intros Hmc w t c HL. unfold require_bu_with. apply bind_R; [apply require_with_R; assumption|].
  intros o w' L' _. split; [apply L_mark; exact L'|mr].
Qed.

Lemma In_removeN t x l : In x (removeN t l) -> In x l.
Proof. unfold removeN. intros X. apply filter_In in X. tauto. Qed.

Lemma sort_queue_In w x : In x (sort_queue w) -> In x (queue w).
Proof. unfold sort_queue. apply Permutation.Permutation_in. apply sort_by_perm. Qed.

Lemma queue_pop_L w t w' : L w -> queue_pop w = Some (t, w') -> L w' /\ gr w' = gr w /\ live (gr w) (tn t) = true.
Proof.
  unfold queue_pop. intros HL. destruct (rev (sort_queue w)) as [|x tl] eqn:E; [discriminate|]. intros H. inversion H; subst x w'. clear H.
  assert (Xt : In t (queue w)). { apply sort_queue_In. apply in_rev. rewrite E. left. reflexivity. }
  split; [|split; [reflexivity|apply (proj2 (proj2 HL)); exact Xt]].
  destruct HL as [H1 [H2 H3]]. split; [exact H1|]. split; [exact H2|]. intros y Y. cbn in Y. apply H3. apply sort_queue_In. eapply In_removeN. exact Y.
Qed.

Lemma pop_least_L w s t w' : L w -> pop_least_from w s = Some (t, w') -> L w' /\ gr w' = gr w /\ live (gr w) (tn t) = true.
Proof.
  unfold pop_least_from. intros HL. destruct (find _ _) as [x|] eqn:E; [|discriminate]. intros H. inversion H; subst x w'. clear H.
  assert (Xt : In t (queue w)). { apply sort_queue_In. apply in_rev. apply (find_some _ _ E). }
  split; [|split; [reflexivity|apply (proj2 (proj2 HL)); exact Xt]].
  destruct HL as [H1 [H2 H3]]. split; [exact H1|]. split; [exact H2|]. intros y Y. cbn in Y. apply H3. apply sort_queue_In. eapply In_removeN. exact Y.
Qed.

Theorem bottom_up_R fuel :
  (forall w t, L w -> live (gr w) (tn t) = true -> okR w (bu_execute_and_schedule RC OC P fuel w t)) /\
  RMC (bu_make_consistent RC OC P fuel) /\
  (forall w t, L w -> okR w (bu_require_scheduled_now RC OC P fuel w t)).
Proof.
  induction fuel as [|f [IH1 [IH2 IH3]]]; [repeat split; intros; exact Logic.I|].
  assert (Hreq : RREQ (require_bu_with OC (bu_make_consistent RC OC P f))) by (apply require_bu_with_R; exact IH2).
  split; [|split].
  - intros w t HL Lt. cbn [bu_execute_and_schedule]. apply bind_R; [apply execute_with_R; assumption|].
    intros o w1 L1 _. cbn [okR]. apply schedule_after_L. exact L1.
  - intros w t HL Lt. cbn [bu_make_consistent]. destruct (memN t (consistent w)).
    + destruct (get_task_output w t); [split; [exact HL|mr]|split; [discriminate|split; [exact HL|mr]]].
    + destruct ((match get_task_output w t with None => true | Some _ => false end) && negb (memN t (queue w)))%bool;
        [apply execute_with_R; assumption|].
      apply bind_R; [apply IH3; exact HL|]. intros r w1 L1 _. destruct r; [split; [exact L1|mr]|].
      destruct (get_task_output w1 t); [split; [exact L1|mr]|split; [discriminate|split; [exact L1|mr]]].
  - intros w t HL. cbn [bu_require_scheduled_now]. destruct (queue w) eqn:Q; [split; [exact HL|mr]|].
    destruct (pop_least_from w t) as [[m w1]|] eqn:X; [|split; [exact HL|mr]].
    destruct (pop_least_L w t m w1 HL X) as [L1 [G1 Lm]].
    assert (M1 : mono w w1) by (intros n; rewrite G1; trivial).
    eapply okR_pre; [exact M1|]. apply bind_R; [apply IH1; [exact L1|rewrite G1; exact Lm]|]. intros o w2 L2 _.
    destruct (N.eqb m t); [split; [exact L2|mr]|apply IH3; exact L2].
Qed.

Theorem execute_scheduled_R fuel : forall w, L w -> okR w (execute_scheduled RC OC P fuel w).
Proof.
  induction fuel as [|f IH]; intros w HL; cbn [execute_scheduled]; [exact Logic.I|].
  destruct (queue_pop w) as [[t w1]|] eqn:X; [|split; [exact HL|mr]].
  destruct (queue_pop_L w t w1 HL X) as [L1 [G1 Lt]].
  assert (M1 : mono w w1) by (intros n; rewrite G1; trivial).
  eapply okR_pre; [exact M1|]. apply bind_R; [apply (proj1 (bottom_up_R f)); [exact L1|rewrite G1; exact Lt]|].
  intros _ w2 L2 _. apply IH. exact L2.
Qed.

(* ---- sessions and histories ---- *)
Variable always : ocid.

Theorem session_require_R fuel w t : L w -> okR w (session_require RC OC P always fuel w t).
Proof.
  intros HL. unfold session_require, require_td.
  assert (L1 : L (emit (set_cur w None) EBuildStart)) by (apply L_emit, L_set_cur_none; exact HL).
  eapply (okR_pre w (emit (set_cur w None) EBuildStart)); [intros n X; exact X|].
  apply bind_R; [apply require_with_R; [apply make_consistent_td_R|exact L1]|]. intros o w2 L2 _.
  split; [apply L_emit; exact L2|mr].
Qed.

Lemma fold_affected_L l : forall w, L w -> L (fold_left (schedule_tasks_affected_by RC) l w) /\ mono w (fold_left (schedule_tasks_affected_by RC) l w).
Proof.
  induction l as [|r tl IH]; intros w HL; cbn [fold_left]; [split; [exact HL|mr]|].
  destruct (schedule_tasks_affected_by_L w r HL) as [X Y]. destruct (IH _ X) as [X' Y']. split; [exact X'|eapply mono_trans; eassumption].
Qed.

Theorem session_bottom_up_R fuel w ch : L w -> okR w (session_bottom_up RC OC P fuel w ch).
Proof.
  intros HL. unfold session_bottom_up. cbv zeta.
  assert (L0 : L (set_queue w [])). { destruct HL as [H1 [H2 H3]]. split; [exact H1|]. split; [exact H2|intros x []]. }
  destruct (fold_affected_L ch _ L0) as [L1 M1]. set (w1 := fold_left (schedule_tasks_affected_by RC) ch (set_queue w [])) in *.
  assert (L2 : L (emit (set_cur w1 None) EBuildStart)) by (apply L_emit, L_set_cur_none; exact L1).
  eapply (okR_pre w (emit (set_cur w1 None) EBuildStart)); [intros n X; apply M1; exact X|].
  apply bind_R; [apply execute_scheduled_R; exact L2|]. intros _ w3 L3 _. split; [apply L_emit; exact L3|mr].
Qed.

Lemma run_sop_R fuel w o : L w -> ~ bug4 (fst (run_sop RC OC P always fuel w o)) /\ L (snd (run_sop RC OC P always fuel w o)).
Proof.
  intros HL. destruct o as [t|ch]; cbn [run_sop].
  - pose proof (session_require_R fuel w t HL) as X. destruct (session_require RC OC P always fuel w t) as [x w'|k w'|]; cbn in *.
    + split; [intros E; discriminate E|apply X].
    + split; [intros E; inversion E; apply (proj1 X); assumption|apply X].
    + split; [intros E; discriminate E|exact HL].
  - pose proof (session_bottom_up_R fuel w ch HL) as X. destruct (session_bottom_up RC OC P fuel w ch) as [x w'|k w'|]; cbn in *.
    + split; [intros E; discriminate E|apply X].
    + split; [intros E; inversion E; apply (proj1 X); assumption|apply X].
    + split; [intros E; discriminate E|exact HL].
Qed.

Lemma run_session_R fuel ops : forall w, L w ->
  ~ Exists bug4 (fst (run_session RC OC P always fuel w ops)) /\ L (snd (run_session RC OC P always fuel w ops)).
Proof.
  induction ops as [|o tl IH]; intros w HL; cbn [run_session]; [split; [intros X; inversion X|exact HL]|].
  destruct (run_sop_R fuel w o HL) as [N1 L1]. destruct (run_sop RC OC P always fuel w o) as [[x|k|] w'] eqn:E; cbn [fst snd] in *.
  - destruct (IH w' L1) as [N2 L2]. destruct (run_session RC OC P always fuel w' tl) as [rs w'']. cbn [fst snd] in *.
    split; [intros X; inversion X; subst; [cbn in *; tauto|contradiction]|exact L2].
  - split; [intros X; inversion X; subst; [contradiction|]; match goal with H : Exists _ [] |- _ => inversion H end|exact L1].
  - split; [intros X; inversion X; subst; [cbn in *; tauto|]; match goal with H : Exists _ [] |- _ => inversion H end|exact L1].
Qed.

Lemma L_new_session w : L w -> L (new_session w).
Proof. intros [H1 _]. split; [exact H1|]. split; [intros t X; discriminate|intros t []]. Qed.

Theorem run_history_R fuel h : forall w, L w ->
  ~ Exists (Exists bug4) (fst (run_history RC OC P always fuel w h)) /\ L (snd (run_history RC OC P always fuel w h)).
Proof.
  induction h as [|s tl IH]; intros w HL; cbn [run_history]; [split; [intros X; inversion X|exact HL]|].
  assert (X : ~ Exists bug4 (fst (run_step RC OC P always fuel w s)) /\ L (snd (run_step RC OC P always fuel w s))).
  { destruct s as [r v|e|ops]; cbn [run_step fst snd].
    - split; [intros X; inversion X|apply L_set_content; exact HL].
    - split; [intros X; inversion X|apply L_set_env; exact HL].
    - apply run_session_R. apply L_new_session. exact HL. }
  destruct (run_step RC OC P always fuel w s) as [r w']. cbn [fst snd] in X. destruct X as [N1 L1].
  destruct (IH w' L1) as [N2 L2]. destruct (run_history RC OC P always fuel w' tl) as [rs w'']. cbn [fst snd] in *.
  split; [intros X; inversion X; subst; contradiction|exact L2].
Qed.

Lemma L_init : L init_world.
Proof. split; [exact GOK_empty|]. split; [intros t X; discriminate|intros t []]. Qed.

(* every state reachable by ANY history (top-down, bottom-up, mixed; completed or aborted sessions) satisfies the store
   invariants, and no session of it ever ends with the "node missing" internal error *)
Theorem history_no_bug4 fuel h :
  ~ Exists (Exists bug4) (fst (run_history RC OC P always fuel init_world h)) /\
  StoreOK (snd (run_history RC OC P always fuel init_world h)).
Proof. destruct (run_history_R fuel h init_world L_init) as [A [B _]]. split; assumption. Qed.

End NBA.

(* C19 for EVERY history: no build ever ends with an internal error ("BUG: ..." panics of the implementation: consistency check
   of a reserved dependency, no output for a consistent task, no dependency found at update, edge without data, no output for an
   unaffected task) -- top-down, bottom-up and mixed sessions, after any number of aborted builds.  Built on NoReentry.v's
   anchor argument; adds frames for outputs, reserved edges and queue membership of the protected tasks, and the state invariant V. *)
From Coq Require Import List NArith ZArith Bool Lia Permutation.
From PieV Require Import Model.Dag Model.Build Proofs.DagLib Proofs.DagWF Proofs.DagPath Proofs.DagQueries Proofs.StoreInv
  Proofs.Sorting Proofs.Effects Proofs.Inv Proofs.History Proofs.ExecInv Proofs.ExecSession Proofs.NoBug4 Proofs.NoBug4All Proofs.Trace
  Proofs.BuJust Proofs.BuOnce Proofs.NoReentry.
Import ListNotations.
Open Scope N_scope.

(* ---- state invariant ---- *)
Definition ConsO (w : world) : Prop := forall t, memN t (consistent w) = true -> get_task_output w t <> None \/ In t (opens (trace w)).
Definition OpenOut (w : world) : Prop := forall t, In t (opens (trace w)) -> get_task_output w t = None.
Definition CurOpen (w : world) : Prop := forall s, cur w = Some s -> In s (opens (trace w)).
Definition V (w : world) : Prop := NoRes w /\ ConsO w /\ OpenOut w /\ CurOpen w.

(* ---- frames for the protected tasks ---- *)
Definition outF (c : task) (w w' : world) : Prop := forall t, Anc (gr w) c (tn t) -> get_task_output w' t = get_task_output w t.
Definition resF (c : task) (w w' : world) : Prop :=
  forall n, Anc (gr w) c n -> forall e, get_edata (gr w') n e = Some DReserved -> get_edata (gr w) n e = Some DReserved.
Definition quF (c : task) (w w' : world) : Prop := forall t, Anc (gr w) c (tn t) -> In t (queue w) -> In t (queue w').
Definition G (a : option task) (w w' : world) : Prop :=
  match a with None => True | Some c => outF c w w' /\ resF c w w' /\ quF c w w' end.

Lemma G_refl a w : G a w w.
Proof. destruct a as [c|]; [|exact Logic.I]. split; [intros t _; reflexivity|split; [intros n _ e X; exact X|intros t _ X; exact X]]. Qed.
Lemma G_trans a w1 w2 w3 : FrameO a w1 w2 -> G a w1 w2 -> G a w2 w3 -> G a w1 w3.
Proof.
  destruct a as [c|]; [|trivial]. intros F [O1 [R1 Q1]] [O2 [R2 Q2]]. split; [|split].
  - intros t A. rewrite (O2 t (anc_pres c w1 w2 _ F A)). apply O1. exact A.
  - intros n A e X. apply (R1 n A). apply (R2 n (anc_pres c w1 w2 _ F A)). exact X.
  - intros t A X. apply (Q2 t (anc_pres c w1 w2 _ F A)). apply (Q1 t A). exact X.
Qed.
Lemma G_weaken a t w w' : reach a w t -> G (Some t) w w' -> G a w w'.
Proof.
  intros R [O1 [R1 Q1]]. destruct a as [c|]; [|exact Logic.I]. specialize (R c eq_refl).
  assert (Sub : forall n, Anc (gr w) c n -> Anc (gr w) t n) by (intros n [->|A]; right; [exact R|eapply path_trans; eassumption]).
  split; [intros x A; apply O1, Sub, A|split; [intros n A; apply R1, Sub, A|intros x A; apply Q1, Sub, A]].
Qed.

(* ---- ordinary steps: no execution start/end, outputs and consistent set unchanged, queue members kept, no new reserved edge ---- *)
Definition lv (w w' : world) : Prop :=
  q3 w w' /\ outs w' = outs w /\ consistent w' = consistent w /\ (forall t, In t (queue w) -> In t (queue w')) /\
  (forall n e, get_edata (gr w') n e = Some DReserved -> get_edata (gr w) n e = Some DReserved).
Lemma lv_refl w : lv w w.
Proof. split; [apply q3_refl|]. split; [reflexivity|]. split; [reflexivity|]. split; [trivial|trivial]. Qed.
Lemma lv_trans a b c : lv a b -> lv b c -> lv a c.
Proof.
  intros [Q1 [O1 [C1 [U1 R1]]]] [Q2 [O2 [C2 [U2 R2]]]]. split; [eapply q3_trans; eassumption|].
  split; [congruence|]. split; [congruence|]. split; [intros t X; apply U2, U1, X|intros n e X; apply R1, R2, X].
Qed.
Lemma lv_same w w' : trace w' = trace w -> gr w' = gr w -> cur w' = cur w -> outs w' = outs w -> consistent w' = consistent w ->
  (forall t, In t (queue w) -> In t (queue w')) -> lv w w'.
Proof. intros T Gr C O Co Q. split; [apply q3_same; assumption|]. split; [exact O|]. split; [exact Co|]. split; [exact Q|intros n e; rewrite Gr; trivial]. Qed.
Lemma lv_emit w e : ev3 e = true -> lv w (emit w e).
Proof. intros H. split; [apply q3_emit; exact H|]. split; [reflexivity|]. split; [reflexivity|]. split; [trivial|trivial]. Qed.
Lemma lv_G a w w' : lv w w' -> G a w w'.
Proof.
  intros [_ [O [_ [U R]]]]. destruct a as [c|]; [|exact Logic.I]. split; [intros t _; unfold get_task_output; rewrite O; reflexivity|].
  split; [intros n _ e X; apply R; exact X|intros t _ X; apply U; exact X].
Qed.
Lemma lv_opens w w' : lv w w' -> opens (trace w') = opens (trace w).
Proof. intros [[[s [T F]] _] _]. rewrite T. apply opens_app3. exact F. Qed.
Lemma lv_V w w' : lv w w' -> V w -> V w'.
Proof.
  intros Hl [N [Co [Oo Cu]]]. pose proof (lv_opens w w' Hl) as Op. destruct Hl as [[_ [_ C]] [O [Cs [_ R]]]].
  split; [|split; [|split]].
  - intros t d X. unfold get_task_output. rewrite O. apply (N t d). apply R. exact X.
  - intros t X. rewrite Cs in X. unfold get_task_output. rewrite O, Op. apply Co. exact X.
  - intros t X. rewrite Op in X. unfold get_task_output. rewrite O. apply Oo. exact X.
  - intros s X. rewrite C in X. rewrite Op. apply Cu. exact X.
Qed.

Lemma lv_goc_task w t : lv w (get_or_create_task_node w t).
Proof.
  split; [apply q3_goc_task|]. unfold get_or_create_task_node. destruct (live _ _); (split; [reflexivity|]; split; [reflexivity|]; split; [trivial|trivial]).
Qed.
Lemma lv_goc_res w r : lv w (get_or_create_resource_node w r).
Proof.
  split; [apply q3_goc_res|]. unfold get_or_create_resource_node. destruct (live _ _); (split; [reflexivity|]; split; [reflexivity|]; split; [trivial|trivial]).
Qed.
Lemma lv_set_content w r v : lv w (set_content w r v). Proof. apply lv_same; destruct v; try reflexivity; trivial. Qed.
Lemma lv_push_err w e : lv w (push_err w e). Proof. apply lv_same; try reflexivity; trivial. Qed.
Lemma lv_queue_add w t : lv w (queue_add w t).
Proof.
  unfold queue_add. destruct (memN _ _); [apply lv_refl|]. apply lv_same; try reflexivity. intros x X. cbn. apply in_or_app. left. exact X.
Qed.
(* adding a dependency that is not a reservation *)
Lemma lv_add_dependency w s d dp : WF (gr w) -> dp <> DReserved -> fst (add_dependency w s d dp) <> AddBug -> lv w (snd (add_dependency w s d dp)).
Proof.
  intros W Hd NB. split; [apply q3_add_dependency; exact W|].
  pose proof (add_dependency_edata w s d dp W) as ED. destruct (add_dependency_cq w s d dp) as [_ Q].
  assert (O : outs (snd (add_dependency w s d dp)) = outs w /\ consistent (snd (add_dependency w s d dp)) = consistent w).
  { unfold add_dependency. destruct (add_edge (gr w) s d dp) as [[b|[|]|] g']; split; reflexivity. }
  split; [apply O|]. split; [apply O|]. split; [intros t X; rewrite Q; exact X|].
  destruct (add_dependency w s d dp) as [[| |] w']; cbn [fst snd] in *; try (contradiction NB; reflexivity);
    intros n e X; (destruct (ED n e) as [E|[_ [_ [_ E]]]]; [rewrite <- E; exact X|rewrite E in X; inversion X; congruence]).
Qed.

(* ---- the specification ---- *)
Definition VPre (a : option task) (w : world) : Prop := Pre a w /\ V w.
Definition okV {A} (a : option task) (w : world) (m : outcome A) : Prop :=
  match m with
  | Done _ w' => G a w w' /\ V w'
  | Abort k w' => user_abort k /\ NoRes w'
  | OutOfFuel => True
  end.

Lemma lv_okV {A} a w w' (x : A) : lv w w' -> V w -> okV a w (Done x w').
Proof. intros Hl HV. split; [apply lv_G; exact Hl|eapply lv_V; eassumption]. Qed.
Lemma lv_okV_abort {A} a w w' k : user_abort k -> lv w w' -> V w -> okV a w (@Abort A k w').
Proof. intros Hk Hl HV. split; [exact Hk|]. apply (lv_V w w' Hl HV). Qed.

Lemma bind_V {A B} a w (m : outcome A) (f : A -> world -> outcome B) :
  VPre a w -> okR w m -> okN a w m -> okV a w m ->
  (forall x w1, VPre a w1 -> cur w1 = cur w -> mono w w1 -> FrameO a w w1 -> G a w w1 -> okV a w1 (f x w1)) -> okV a w (bind m f).
Proof.
  intros [[HL [HO HN]] HV] R N Vm F. destruct m as [x w1|k w1|]; cbn [bind]; [|exact Vm|exact Logic.I].
  destruct R as [L1 M1]. destruct N as [C1 [F1 [O1 N1]]]. destruct Vm as [G1 V1].
  assert (P1 : VPre a w1) by (split; [split; [exact L1|split; [eapply OI_pres; eassumption|exact N1]]|exact V1]).
  specialize (F x w1 P1 C1 M1 F1 G1). destruct (f x w1) as [y w2|k w2|]; cbn in *; [|exact F|exact Logic.I].
  destruct F as [G2 V2]. split; [eapply G_trans; eassumption|exact V2].
Qed.
(* peel an ordinary prefix *)
Lemma okV_pre {A} a w w2 (m : outcome A) : lv w w2 -> okV a w2 m -> okV a w m.
Proof.
  intros Hl Hm. destruct m as [x w'|k w'|]; cbn in *; [|exact Hm|exact Logic.I]. destruct Hm as [G2 V2].
  split; [|exact V2]. eapply G_trans; [apply kgrow_FrameO; apply Hl|apply lv_G; exact Hl|exact G2].
Qed.
Lemma lv_VPre a w w' : lv w w' -> L w' -> VPre a w -> VPre a w'.
Proof. intros Hl L' [P HV]. split; [eapply q3_Pre; [apply Hl|exact L'|exact P]|eapply lv_V; eassumption]. Qed.

Section NBA.
Variable RC : rcid -> rchecker.
Variable OC : ocid -> ochecker.
Variable P : task -> prog.

(* ---- leaf operations of the executing task ---- *)
Lemma user_hidden : user_abort AHidden. Proof. exact Logic.I. Qed.

Lemma sess_read_lv w r c : L w -> match sess_read RC w r c with Done _ w' => lv w w' | Abort k w' => user_abort k /\ lv w w' | OutOfFuel => True end.
Proof.
  intros HL. pose proof (sess_read_R RC w r c HL) as RR. unfold sess_read in *. destruct (cur w) as [t|] eqn:Hc; [|apply lv_refl].
  set (w2 := get_or_create_resource_node (emit w (EReadStart r c)) r) in *.
  assert (Q2 : lv w w2) by (eapply lv_trans; [apply (lv_emit w (EReadStart r c)); reflexivity|apply lv_goc_res]).
  destruct (hidden_read_check w2 t r); [split; [exact Logic.I|exact Q2]|]. destruct (rc_stamp _ _ _ _) as [st|e]; [|exact Q2].
  set (w3 := emit w2 (EReadEnd r c st)) in *.
  assert (W3 : WF (gr w3)) by (apply (goc_res_ok (emit w (EReadStart r c)) r); apply HL).
  pose proof (lv_add_dependency w3 (tn t) (rn r) (DRead r c st) W3 ltac:(discriminate)) as X.
  destruct (add_dependency w3 (tn t) (rn r) (DRead r c st)) as [[| |] w4]; cbn [fst snd] in *.
  - eapply lv_trans; [exact Q2|]. eapply lv_trans; [apply (lv_emit w2 (EReadEnd r c st)); reflexivity|apply X; discriminate].
  - eapply lv_trans; [exact Q2|]. eapply lv_trans; [apply (lv_emit w2 (EReadEnd r c st)); reflexivity|apply X; discriminate].
  - destruct RR as [RR _]. contradiction RR; reflexivity.
Qed.
Lemma sess_write_lv w r c v : L w -> match sess_write RC w r c v with Done _ w' => lv w w' | Abort k w' => user_abort k /\ lv w w' | OutOfFuel => True end.
Proof.
  intros HL. pose proof (sess_write_R RC w r c v HL) as RR. unfold sess_write in *. destruct (cur w) as [t|] eqn:Hc; [|apply lv_set_content].
  set (w2 := get_or_create_resource_node (emit w (EWriteStart r c)) r) in *.
  assert (Q2 : lv w w2) by (eapply lv_trans; [apply (lv_emit w (EWriteStart r c)); reflexivity|apply lv_goc_res]).
  destruct (validate_write w2 t r) as [k|] eqn:VW; [split; [eapply validate_write_user; exact VW|exact Q2]|].
  assert (Q3 : lv w (set_content w2 r v)) by (eapply lv_trans; [exact Q2|apply lv_set_content]).
  destruct (rc_stamp _ _ _ _) as [st|e]; [|exact Q3].
  set (w4 := emit (set_content w2 r v) (EWriteEnd r c st)) in *.
  assert (W4 : WF (gr w4)). { assert (S2 : StoreOK w2) by (apply (goc_res_ok (emit w (EWriteStart r c)) r); apply HL). destruct v; apply S2. }
  pose proof (lv_add_dependency w4 (tn t) (rn r) (DWrite r c st) W4 ltac:(discriminate)) as X.
  destruct (add_dependency w4 (tn t) (rn r) (DWrite r c st)) as [[| |] w5]; cbn [fst snd] in *.
  - eapply lv_trans; [exact Q3|]. eapply lv_trans; [apply (lv_emit _ (EWriteEnd r c st)); reflexivity|apply X; discriminate].
  - eapply lv_trans; [exact Q3|]. eapply lv_trans; [apply (lv_emit _ (EWriteEnd r c st)); reflexivity|apply X; discriminate].
  - destruct RR as [RR _]. contradiction RR; reflexivity.
Qed.
Lemma sess_written_to_lv w r c v : L w -> match sess_written_to RC w r c v with Done _ w' => lv w w' | Abort k w' => user_abort k /\ lv w w' | OutOfFuel => True end.
Proof.
  intros HL. pose proof (sess_written_to_R RC w r c v HL) as RR. unfold sess_written_to in *.
  assert (Q0 : lv w (set_content w r v)) by apply lv_set_content.
  set (w0 := set_content w r v) in *.
  destruct (cur w0) as [t|] eqn:Hc; [|exact Q0].
  set (w2 := get_or_create_resource_node (emit w0 (EWriteStart r c)) r) in *.
  assert (Q2 : lv w w2) by (eapply lv_trans; [exact Q0|]; eapply lv_trans; [apply (lv_emit w0 (EWriteStart r c)); reflexivity|apply lv_goc_res]).
  destruct (validate_write w2 t r) as [k|] eqn:VW; [split; [eapply validate_write_user; exact VW|exact Q2]|].
  destruct (rc_stamp _ _ _ _) as [st|e]; [|exact Q2].
  set (w4 := emit w2 (EWriteEnd r c st)) in *.
  assert (W4 : WF (gr w4)). { apply (goc_res_ok (emit w0 (EWriteStart r c)) r). destruct v; apply HL. }
  pose proof (lv_add_dependency w4 (tn t) (rn r) (DWrite r c st) W4 ltac:(discriminate)) as X.
  destruct (add_dependency w4 (tn t) (rn r) (DWrite r c st)) as [[| |] w5]; cbn [fst snd] in *.
  - eapply lv_trans; [exact Q2|]. eapply lv_trans; [apply (lv_emit w2 (EWriteEnd r c st)); reflexivity|apply X; discriminate].
  - eapply lv_trans; [exact Q2|]. eapply lv_trans; [apply (lv_emit w2 (EWriteEnd r c st)); reflexivity|apply X; discriminate].
  - destruct RR as [RR _]. contradiction RR; reflexivity.
Qed.

Lemma lvO_okV {A} a w (m : outcome A) :
  match m with Done _ w' => lv w w' | Abort k w' => user_abort k /\ lv w w' | OutOfFuel => True end -> V w -> okV a w m.
Proof. destruct m; cbn; intros H HV; [split; [apply lv_G; exact H|eapply lv_V; eassumption]|destruct H as [Hk Hl]; split; [exact Hk|apply (lv_V _ _ Hl HV)]|exact Logic.I]. Qed.


(* ---- interpreters ---- *)
Definition VREQ (req : world -> task -> ocid -> outcome Z) : Prop :=
  NREQ req /\ (forall w t c, VPre (cur w) w -> okV (cur w) w (req w t c)).
Definition outIs (t : task) (m : outcome Z) : Prop := match m with Done o w' => get_task_output w' t = Some o | _ => True end.
Definition VMC (mc : world -> task -> outcome Z) : Prop :=
  NMC mc /\ (forall a w t, VPre a w -> live (gr w) (tn t) = true -> reach a w t -> okV a w (mc w t) /\ outIs t (mc w t)).

Lemma exec_prog_V req : VREQ req -> forall p w, VPre (cur w) w -> okV (cur w) w (exec_prog RC OC req p w).
Proof.
  intros [[HreqR HreqN] HreqV]. induction p as [o| |t c k IH|r c k IH|r c v k IH|r c v k IH]; intros w Hw; cbn [exec_prog].
  - apply lv_okV; [apply lv_refl|apply Hw].
  - split; [exact Logic.I|apply Hw].
  - apply bind_V; [exact Hw|apply HreqR; apply Hw|apply HreqN; apply Hw|apply HreqV; exact Hw|].
    intros o w1 P1 C1 _ _ _. rewrite <- C1. apply IH. rewrite C1. exact P1.
  - apply bind_V; [exact Hw|apply sess_read_R; apply Hw|apply q3O_okN; [apply sess_read_q3; apply Hw|apply Hw]|apply lvO_okV; [apply sess_read_lv; apply Hw|apply Hw]|].
    intros o w1 P1 C1 _ _ _. rewrite <- C1. apply IH. rewrite C1. exact P1.
  - apply bind_V; [exact Hw|apply sess_write_R; apply Hw|apply q3O_okN; [apply sess_write_q3; apply Hw|apply Hw]|apply lvO_okV; [apply sess_write_lv; apply Hw|apply Hw]|].
    intros o w1 P1 C1 _ _ _. rewrite <- C1. apply IH. rewrite C1. exact P1.
  - apply bind_V; [exact Hw|apply sess_written_to_R; apply Hw|apply q3O_okN; [apply sess_written_to_q3; apply Hw|apply Hw]|apply lvO_okV; [apply sess_written_to_lv; apply Hw|apply Hw]|].
    intros o w1 P1 C1 _ _ _. rewrite <- C1. apply IH. rewrite C1. exact P1.
Qed.

Lemma execute_with_V req a w t : VREQ req -> VPre a w -> live (gr w) (tn t) = true -> reach a w t ->
  okV a w (execute_with RC OC P req w t) /\ outIs t (execute_with RC OC P req w t).
Proof.
  intros Hreq [Hw [N0 [Co0 [Oo0 Cu0]]]] Lt R. unfold execute_with.
  destruct (exec_start_facts a w t Hw Lt R) as [Hnot [P2 PR]].
  destruct (reset_task_facts w t (proj1 (proj1 Hw))) as [R1 [R2 [R3 [R4 [R5 [R6 [R7 [R8 [R9 R10]]]]]]]]].
  set (w2 := emit (set_cur (reset_task w t) (Some t)) (EExecStart t)) in *.
  assert (Op2 : opens (trace w2) = t :: opens (trace w)) by (change (t :: opens (trace (reset_task w t)) = t :: opens (trace w)); rewrite R4; reflexivity).
  assert (V2 : V w2).
  { split; [|split; [|split]].
    - intros s d X. change (get_edata (gr (reset_task w t)) (tn s) d = Some DReserved) in X. change (get_task_output (reset_task w t) s = None).
      destruct (N.eq_dec s t) as [->|Hs]; [exact R9|]. rewrite (R10 s Hs). apply (N0 s d). rewrite <- (R7 (tn s) d); [exact X|].
      intros E. apply Hs. unfold tn in E. lia.
    - intros x X. change (memN x (consistent (reset_task w t)) = true) in X. rewrite R5 in X. rewrite Op2.
      destruct (N.eq_dec x t) as [->|Hx]; [right; left; reflexivity|]. change (get_task_output (reset_task w t) x <> None \/ In x (t :: opens (trace w))).
      rewrite (R10 x Hx). destruct (Co0 x X) as [Y|Y]; [left; exact Y|right; right; exact Y].
    - intros x X. rewrite Op2 in X. change (get_task_output (reset_task w t) x = None). destruct X as [<-|X]; [exact R9|].
      assert (Hx : x <> t) by (intros ->; contradiction). rewrite (R10 x Hx). apply Oo0. exact X.
    - intros s X. cbn in X. inversion X; subst s. rewrite Op2. left. reflexivity. }
  pose proof (exec_prog_V req Hreq (P t) w2 (conj P2 V2)) as XV.
  pose proof (exec_prog_N RC OC req (proj1 Hreq) (P t) w2 P2) as XN.
  change (cur w2) with (Some t) in XV, XN.
  destruct (exec_prog RC OC req (P t) w2) as [o w3|k w3|]; cbn [bind okV outIs] in *; [|split; [exact XV|exact Logic.I]|split; exact Logic.I].
  destruct XN as [C3 [F3 [O3 N3]]]. destruct XV as [[Of3 [Rf3 Qf3]] [N3' [Co3 [Oo3 Cu3]]]].
  set (wf := set_task_output (set_cur (emit w3 (EExecEnd t o)) (cur (reset_task w t))) t o).
  assert (Outf : forall x, get_task_output wf x = if N.eqb x t then Some o else get_task_output w3 x).
  { intros x. change (alookup (aset (outs w3) t o) x = if N.eqb x t then Some o else alookup (outs w3) x).
    destruct (N.eqb_spec x t) as [->|Hx]; [apply alookup_aset_eq|apply alookup_aset_other; exact Hx]. }
  assert (Opf : opens (trace wf) = opens (trace w)).
  { change (removeN t (opens (trace w3)) = opens (trace w)). rewrite O3, Op2. unfold removeN. cbn [filter]. rewrite N.eqb_refl. cbn [negb].
    apply removeN_notin. exact Hnot. }
  split; [|rewrite Outf, N.eqb_refl; reflexivity].
  split.
  - (* frames for the caller's anchor *)
    destruct a as [c|]; [|exact Logic.I]. specialize (R c eq_refl).
    assert (W : WF (gr w)) by apply Hw.
    assert (NotT : forall n, Anc (gr w) c n -> n <> tn t).
    { intros n A ->. apply (WF_acyclic (gr w) (tn t) W). destruct A as [E|Pth]; [replace (tn t) with (tn c) at 1 by (symmetry; exact E); exact R|eapply path_trans; eassumption]. }
    assert (Up : forall n, Anc (gr w) c n -> Anc (gr w2) t n).
    { intros n A. right. apply PR. destruct A as [->|Pth]; [exact R|eapply path_trans; eassumption]. }
    split; [|split].
    + intros x A. rewrite Outf. assert (Hx : x <> t) by (intros ->; exact (NotT _ A eq_refl)).
      destruct (N.eqb_spec x t); [contradiction|]. rewrite (Of3 x (Up _ A)). apply (R10 x Hx).
    + intros n A e X. change (get_edata (gr w3) n e = Some DReserved) in X. apply (Rf3 n (Up n A)) in X.
      change (get_edata (gr (reset_task w t)) n e = Some DReserved) in X. rewrite (R7 n e (NotT n A)) in X. exact X.
    + intros x A X. change (In x (queue w3)). apply (Qf3 x (Up _ A)). exact X.
  - (* the state invariant after the execution *)
    split; [|split; [|split]].
    + intros s d X. change (get_edata (gr w3) (tn s) d = Some DReserved) in X. rewrite Outf.
      destruct (N.eqb_spec s t) as [->|Hs]; [|apply (N3' s d X)].
      exfalso. apply (Rf3 (tn t) (or_introl eq_refl)) in X. change (get_edata (gr (reset_task w t)) (tn t) d = Some DReserved) in X. rewrite R8 in X. discriminate.
    + intros x X. change (memN x (consistent w3) = true) in X. rewrite Outf, Opf. destruct (N.eqb_spec x t) as [->|Hx]; [left; discriminate|].
      destruct (Co3 x X) as [Y|Y]; [left; exact Y|right]. rewrite O3, Op2 in Y. destruct Y as [Y|Y]; [congruence|exact Y].
    + intros x X. rewrite Opf in X. rewrite Outf. assert (Hx : x <> t) by (intros ->; contradiction). destruct (N.eqb_spec x t); [contradiction|].
      apply Oo3. rewrite O3, Op2. right. exact X.
    + intros s X. change (cur (reset_task w t) = Some s) in X. rewrite R6 in X. rewrite Opf. apply Cu0. exact X.
Qed.

Lemma pair_eqb_true a b c d : pair_eqb (a, b) (c, d) = true -> a = c /\ b = d.
Proof. unfold pair_eqb. cbn. intros H. apply andb_true_iff in H. destruct H as [H1 H2]. apply N.eqb_eq in H1, H2. split; assumption. Qed.

Lemma tn_inj s t : tn s = tn t -> s = t. Proof. unfold tn. lia. Qed.

(* the reservation: V is kept (the source is open, so it has no output); all other facts are frames *)
Lemma reserve_V w t s w3 ar : L w -> V w -> cur w = Some s -> add_dependency w (tn s) (tn t) DReserved = (ar, w3) -> ar <> AddBug ->
  V w3 /\ outs w3 = outs w /\ consistent w3 = consistent w /\ queue w3 = queue w /\ trace w3 = trace w /\ cur w3 = cur w /\
  (forall n e, get_edata (gr w3) n e = Some DReserved -> get_edata (gr w) n e = Some DReserved \/ (n = tn s /\ e = tn t)).
Proof.
  intros HL [N0 [Co0 [Oo0 Cu0]]] Hc E NB.
  pose proof (add_dependency_edata w (tn s) (tn t) DReserved (proj1 (proj1 HL))) as ED. rewrite E in ED.
  destruct (add_dependency_cq w (tn s) (tn t) DReserved) as [C Q]. rewrite E in C, Q. cbn [snd] in C, Q.
  pose proof (trace_add_dependency w (tn s) (tn t) DReserved) as T. rewrite E in T. cbn [snd] in T.
  assert (O : outs w3 = outs w /\ consistent w3 = consistent w).
  { unfold add_dependency in E. destruct (add_edge (gr w) (tn s) (tn t) DReserved) as [[b|[|]|] g']; inversion E; split; reflexivity. }
  assert (ED' : forall n e, get_edata (gr w3) n e = get_edata (gr w) n e \/ (n = tn s /\ e = tn t /\ get_edata (gr w) n e = None /\ get_edata (gr w3) n e = Some DReserved)).
  { destruct ar; [exact ED|exact ED|contradiction NB; reflexivity]. }
  assert (RES : forall n e, get_edata (gr w3) n e = Some DReserved -> get_edata (gr w) n e = Some DReserved \/ (n = tn s /\ e = tn t)).
  { intros n e X. destruct (ED' n e) as [Y|[Y1 [Y2 _]]]; [left; rewrite <- Y; exact X|right; split; assumption]. }
  split; [|split; [apply O|split; [apply O|split; [exact Q|split; [exact T|split; [exact C|exact RES]]]]]].
  split; [|split; [|split]].
  - intros x d X. unfold get_task_output. rewrite (proj1 O). destruct (RES _ _ X) as [Y|[Y1 Y2]]; [apply (N0 x d Y)|].
    apply tn_inj in Y1. subst x. apply Oo0. apply Cu0. exact Hc.
  - intros x X. rewrite (proj2 O) in X. unfold get_task_output. rewrite (proj1 O), T. apply Co0. exact X.
  - intros x X. rewrite T in X. unfold get_task_output. rewrite (proj1 O). apply Oo0. exact X.
  - intros x X. rewrite C in X. rewrite T. apply Cu0. exact X.
Qed.

Lemma require_with_V mc : VMC mc -> VREQ (require_with OC mc).
Proof.
  intros [Hmc HmcV]. split; [apply (require_with_N RC); exact Hmc|].
  intros w t c [Hw HV]. unfold require_with.
  set (w1 := emit w (ERequireStart t c)). set (w2 := get_or_create_task_node w1 t).
  assert (Q2 : lv w w2) by (eapply lv_trans; [apply (lv_emit w (ERequireStart t c)); reflexivity|apply lv_goc_task]).
  assert (L2 : L w2) by (apply goc_task_L; apply L_emit; apply Hw).
  assert (C2 : cur w2 = cur w) by apply Q2.
  assert (P2 : VPre (cur w) w2) by (eapply lv_VPre; [exact Q2|exact L2|split; assumption]).
  assert (Lt : live (gr w2) (tn t) = true) by apply live_goc_task.
  apply (okV_pre _ w w2); [exact Q2|].
  pose proof (reserve_R RC w2 t L2 Lt) as RR. pose proof (reserve_q3 w2 t L2) as RQ.
  unfold reserve_require_dependency in *.
  destruct (cur w) as [s|] eqn:Hc.
  2:{ (* top level: no requirer, no edge *)
    rewrite C2 in *. cbn [bind].
    destruct (HmcV None w2 t P2 Lt ltac:(intros c' X; discriminate)) as [MV MO].
    apply bind_V; [exact P2|apply (proj1 Hmc); assumption|apply (proj2 Hmc); [apply P2|exact Lt|intros c' X; discriminate]|exact MV|].
    intros o w4 P4 C4 _ _ _. apply (okV_pre _ w4 (emit w4 (ERequireEnd t c (oc_stamp (OC c) o) o))); [apply lv_emit; reflexivity|].
    unfold update_require_dependency. cbn [cur emit]. rewrite C4, C2. cbn [bind]. apply lv_okV; [apply lv_refl|].
    eapply lv_V; [apply (lv_emit w4); reflexivity|apply P4]. }
  rewrite C2 in *.
  destruct (add_dependency w2 (tn s) (tn t) DReserved) as [ar w3] eqn:E.
  assert (NB : ar <> AddBug). { destruct ar; try discriminate. exfalso. cbn in RR. apply (proj1 RR). reflexivity. }
  destruct (reserve_V w2 t s w3 ar L2 (proj2 P2) C2 E NB) as [V3 [O3 [Co3 [Qu3 [T3 [C3 RES3]]]]]].
  destruct ar; [|cbn [bind]; split; [exact Logic.I|apply V3]|contradiction NB; reflexivity].
  cbn [bind]. cbn [okR q3O] in RR, RQ. destruct RR as [L3 M3].
  assert (P3 : Pre (Some s) w3) by (eapply q3_Pre; [exact RQ|exact L3|apply P2]).
  assert (Edge : In (tn t) (kids_of (gr w3) (tn s))) by (apply (add_dependency_edge w2 (tn s) (tn t) DReserved w3 (proj1 (proj1 L2)) E)).
  assert (R3 : reach (Some s) w3 t) by (intros c' X; inversion X; subst c'; apply path1; exact Edge).
  assert (Lt3 : live (gr w3) (tn t) = true) by (apply M3; exact Lt).
  destruct (HmcV (Some s) w3 t (conj P3 V3) Lt3 R3) as [MV MO].
  pose proof (proj1 Hmc w3 t L3 Lt3) as MR. pose proof (proj2 Hmc (Some s) w3 t P3 Lt3 R3) as MN.
  destruct (mc w3 t) as [o w4|k w4|]; cbn [bind okV outIs] in *; [|exact MV|exact Logic.I].
  destruct MR as [L4 M4]. destruct MN as [C4 [F4 [Op4 N4]]]. destruct MV as [[Of4 [Rf4 Qf4]] V4].
  set (w5 := emit w4 (ERequireEnd t c (oc_stamp (OC c) o) o)).
  unfold update_require_dependency. change (cur w5) with (cur w4). rewrite C4, C3, C2.
  (* the reserved edge is still there: no "no dependency found" *)
  assert (Edge4 : In (tn t) (kids_of (gr w4) (tn s))) by (apply F4; [left; reflexivity|exact Edge]).
  change (gr w5) with (gr w4).
  destruct (get_edata (gr w4) (tn s) (tn t)) as [old|] eqn:ED4; [|exfalso; apply (wf_edata _ (proj1 (proj1 L4)) (tn s) (tn t)) in Edge4; contradiction].
  cbn [bind]. set (w6 := set_gr w5 (insert_edata (gr w4) (tn s) (tn t) (DRequire t c (oc_stamp (OC c) o)))).
  assert (ED6 : forall n e, get_edata (gr w6) n e = Some DReserved -> get_edata (gr w4) n e = Some DReserved /\ ~ (n = tn s /\ e = tn t)).
  { intros n e X. change (get_edata (insert_edata (gr w4) (tn s) (tn t) (DRequire t c (oc_stamp (OC c) o))) n e = Some DReserved) in X.
    rewrite get_edata_insert in X. destruct (pair_eqb (tn s, tn t) (n, e)) eqn:PE; [discriminate|]. split; [exact X|].
    intros [-> ->]. unfold pair_eqb in PE. cbn in PE. rewrite !N.eqb_refl in PE. discriminate. }
  destruct V4 as [N4' [Co4 [Oo4 Cu4]]].
  split.
  - (* frames from w2 to w6 for the anchor s *)
    assert (A23 : forall n, Anc (gr w2) s n -> Anc (gr w3) s n) by (intros n A; eapply anc_pres; [|exact A]; intros m _ x X; apply RQ; exact X).
    split; [|split].
    + intros x A. change (get_task_output w4 x = get_task_output w2 x). rewrite (Of4 x (A23 _ A)). unfold get_task_output. rewrite O3. reflexivity.
    + intros n A e X. destruct (ED6 n e X) as [X4 NE]. apply (Rf4 n (A23 n A)) in X4. destruct (RES3 n e X4) as [Y|Y]; [exact Y|contradiction].
    + intros x A X. change (In x (queue w4)). apply (Qf4 x (A23 _ A)). rewrite Qu3. exact X.
  - split; [|split; [|split]].
    + intros x d X. destruct (ED6 _ _ X) as [X4 _]. change (get_task_output w4 x = None). apply (N4' x d X4).
    + exact Co4.
    + exact Oo4.
    + exact Cu4.
Qed.

Lemma bind_V2 {A B} a t w (m : outcome A) (f : A -> world -> outcome B) :
  VPre a w -> reach a w t -> okR w m -> okN (Some t) w m -> okV (Some t) w m ->
  (forall x w1, VPre a w1 -> reach a w1 t -> cur w1 = cur w -> mono w w1 -> G (Some t) w w1 -> okV a w1 (f x w1)) -> okV a w (bind m f).
Proof.
  intros [[HL [HO HN]] HV] R RR N Vm F. destruct m as [x w1|k w1|]; cbn [bind]; [|exact Vm|exact Logic.I].
  destruct RR as [L1 M1]. destruct N as [C1 [F1 [O1 N1]]]. destruct Vm as [G1 V1].
  assert (Fa : FrameO a w w1) by (eapply FrameO_weaken; eassumption).
  assert (P1 : VPre a w1) by (split; [split; [exact L1|split; [eapply OI_pres; eassumption|exact N1]]|exact V1]).
  specialize (F x w1 P1 (reach_pres a t w w1 R F1) C1 M1 G1). destruct (f x w1) as [y w2|k w2|]; cbn in *; [|exact F|exact Logic.I].
  destruct F as [G2 V2]. split; [eapply G_trans; [exact Fa|eapply G_weaken; eassumption|exact G2]|exact V2].
Qed.
Lemma okV_weaken {A} a t w (m : outcome A) : reach a w t -> okV (Some t) w m -> okV a w m.
Proof. intros R Hm. destruct m as [x w'|k w'|]; cbn in *; [|exact Hm|exact Logic.I]. destruct Hm as [G1 V1]. split; [eapply G_weaken; eassumption|exact V1]. Qed.

Lemma mark_G a w t : G a w (mark_consistent w t).
Proof. destruct a as [c|]; [|exact Logic.I]. split; [intros x _; reflexivity|split; [intros n _ e X; exact X|intros x _ X; exact X]]. Qed.
Lemma mark_V w t : V w -> get_task_output w t <> None -> V (mark_consistent w t).
Proof.
  intros [N0 [Co0 [Oo0 Cu0]]] Ho. split; [exact N0|]. split; [|split; [exact Oo0|exact Cu0]].
  intros x X. cbn [consistent mark_consistent set_consistent] in X. rewrite memN_cons in X. apply orb_true_iff in X.
  destruct X as [X|X]; [apply N.eqb_eq in X; subst x; left; exact Ho|apply Co0; exact X].
Qed.
Lemma mark_okV a w t (o : Z) : V w -> get_task_output w t <> None -> okV a w (Done o (mark_consistent w t)).
Proof. intros HV Ho. split; [apply mark_G|apply mark_V; assumption]. Qed.

Definition DGood (ds : list (option dep)) : Prop := forall d, In d ds -> d <> None /\ d <> Some DReserved.

Lemma check_resource_lv w r c st : lv w (snd (check_resource_td RC w r c st)).
Proof. unfold check_resource_td. cbn [snd]. eapply lv_trans; apply lv_emit; reflexivity. Qed.

Lemma check_deps_V mc t0 : VMC mc -> forall ds w, VPre (Some t0) w -> DL w ds -> DR t0 w ds -> DGood ds ->
  okV (Some t0) w (check_deps RC OC mc ds w).
Proof.
  intros [Hmc HmcV]. induction ds as [|d tl IH]; intros w Hw HD HR HG; cbn [check_deps]; [apply lv_okV; [apply lv_refl|apply Hw]|].
  assert (HGtl : DGood tl) by (intros x X; apply HG; right; exact X).
  destruct d as [[|t c st|r c st|r c st]|].
  - exfalso. destruct (HG (Some DReserved) (or_introl eq_refl)) as [_ X]. apply X. reflexivity.
  - set (w1 := emit w (ECheckTaskStart t c st)).
    assert (L1 : L w1) by (apply L_emit; apply Hw).
    assert (P1 : VPre (Some t0) w1) by (eapply lv_VPre; [apply (lv_emit w); reflexivity|exact L1|exact Hw]).
    assert (Lt : live (gr w1) (tn t) = true) by (apply (HD t c st); left; reflexivity).
    assert (R1 : reach (Some t0) w1 t) by (intros s Hs; inversion Hs; subst s; apply path1; apply (HR t c st); left; reflexivity).
    apply (okV_pre _ w w1); [apply lv_emit; reflexivity|].
    destruct (HmcV (Some t0) w1 t P1 Lt R1) as [MV _].
    apply bind_V; [exact P1|apply (proj1 Hmc); assumption|apply (proj2 Hmc); [apply P1|exact Lt|exact R1]|exact MV|].
    intros o w2 P2 C2 M2 F2 G2. destruct (oc_check (OC c) o st).
    + set (w3 := emit w2 (ECheckTaskEnd t c st (negb true))).
      apply (okV_pre _ w2 w3); [apply lv_emit; reflexivity|]. apply IH.
      * eapply lv_VPre; [apply (lv_emit w2); reflexivity|apply L_emit; apply P2|exact P2].
      * intros t' c' st' X. apply M2. apply (HD t' c' st'). right. exact X.
      * intros d' c' st' X. change (In (tn d') (kids_of (gr w2) (tn t0))). apply F2; [left; reflexivity|]. apply (HR d' c' st'). right. exact X.
      * exact HGtl.
    + apply lv_okV; [apply lv_emit; reflexivity|apply P2].
  - pose proof (check_resource_lv w r c st) as Q. destruct (check_resource_td_L RC w r c st (proj1 (proj1 Hw))) as [X M].
    destruct (check_resource_td RC w r c st) as [[| |e] w1]; cbn [snd] in X, M, Q.
    + apply (okV_pre _ w w1); [exact Q|]. apply IH; [eapply lv_VPre; eassumption| | |exact HGtl].
      * intros t' c' st' Y. apply M. apply (HD t' c' st'). right. exact Y.
      * intros d' c' st' Y. apply Q. apply (HR d' c' st'). right. exact Y.
    + apply lv_okV; [exact Q|apply Hw].
    + apply lv_okV; [eapply lv_trans; [exact Q|apply lv_push_err]|apply Hw].
  - pose proof (check_resource_lv w r c st) as Q. destruct (check_resource_td_L RC w r c st (proj1 (proj1 Hw))) as [X M].
    destruct (check_resource_td RC w r c st) as [[| |e] w1]; cbn [snd] in X, M, Q.
    + apply (okV_pre _ w w1); [exact Q|]. apply IH; [eapply lv_VPre; eassumption| | |exact HGtl].
      * intros t' c' st' Y. apply M. apply (HD t' c' st'). right. exact Y.
      * intros d' c' st' Y. apply Q. apply (HR d' c' st'). right. exact Y.
    + apply lv_okV; [exact Q|apply Hw].
    + apply lv_okV; [eapply lv_trans; [exact Q|apply lv_push_err]|apply Hw].
  - exfalso. destruct (HG None (or_introl eq_refl)) as [X _]. apply X. reflexivity.
Qed.

Lemma deps_good w t o : StoreOK w -> NoRes w -> get_task_output w t = Some o -> DGood (deps_of_task w t).
Proof.
  intros [W _] N Ho d Hin. unfold deps_of_task, get_outgoing_edges in Hin. rewrite map_map in Hin. cbn [snd] in Hin.
  apply in_map_iff in Hin. destruct Hin as [v [E Hv]]. subst d. split.
  - apply (wf_edata _ W (tn t) v). exact Hv.
  - intros X. rewrite (N t v X) in Ho. discriminate.
Qed.

Theorem make_consistent_td_V fuel : VMC (make_consistent_td RC OC P fuel).
Proof.
  induction fuel as [|f IH]; (split; [apply make_consistent_td_N|]); intros a w t Hw Lt R; cbn [make_consistent_td]; [split; exact Logic.I|].
  set (w0 := get_or_create_task_node w t).
  assert (Q0 : lv w w0) by apply lv_goc_task.
  assert (L0 : L w0) by (apply goc_task_L; apply Hw).
  assert (P0 : VPre a w0) by (eapply lv_VPre; eassumption).
  assert (R0 : reach a w0 t) by (eapply reach_kgrow; [exact R|apply Q0]).
  assert (Lt0 : live (gr w0) (tn t) = true) by apply live_goc_task.
  assert (K : forall m : outcome Z, okV a w0 m /\ outIs t m -> okV a w m /\ outIs t m) by (intros m [X Y]; split; [eapply okV_pre; eassumption|exact Y]).
  apply K.
  assert (NotOpen : ~ In t (opens (trace w0))) by (apply (reach_acyclic a); [apply L0|apply P0|exact R0]).
  destruct (memN t (consistent w0)) eqn:Mc.
  { destruct (get_task_output w0 t) as [o|] eqn:Ho; [split; [apply lv_okV; [apply lv_refl|apply P0]|exact Ho]|].
    exfalso. destruct (proj1 (proj2 (proj2 P0)) t Mc) as [X|X]; [apply X; exact Ho|contradiction]. }
  assert (Hreq : VREQ (require_with OC (make_consistent_td RC OC P f))) by (apply require_with_V; exact IH).
  assert (EX : forall w1, VPre a w1 -> reach a w1 t -> live (gr w1) (tn t) = true ->
            okV a w1 (bind (execute_with RC OC P (require_with OC (make_consistent_td RC OC P f)) w1 t) (fun o w2 => Done o (mark_consistent w2 t))) /\
            outIs t (bind (execute_with RC OC P (require_with OC (make_consistent_td RC OC P f)) w1 t) (fun o w2 => Done o (mark_consistent w2 t)))).
  { intros w1 P1 R1 Lt1. destruct (execute_with_V _ a w1 t Hreq P1 Lt1 R1) as [XV XO].
    pose proof (execute_with_R RC OC P _ w1 t (proj1 (proj1 Hreq)) (proj1 (proj1 P1)) Lt1) as XR.
    pose proof (execute_with_N RC OC P _ a w1 t (proj1 Hreq) (proj1 P1) Lt1 R1) as XN.
    destruct (execute_with RC OC P (require_with OC (make_consistent_td RC OC P f)) w1 t) as [o w2|k w2|]; cbn [bind okV outIs] in *; [|split; [exact XV|exact Logic.I]|split; exact Logic.I].
    split; [|exact XO]. destruct XV as [G2 V2]. split; [eapply G_trans; [apply XN|exact G2|apply mark_G]|apply mark_V; [exact V2|rewrite XO; discriminate]]. }
  destruct (get_task_output w0 t) as [o0|] eqn:Ho; [|apply EX; assumption].
  assert (PS : VPre (Some t) w0) by (split; [split; [exact L0|split; [eapply OI_strengthen; [apply P0|exact R0]|apply P0]]|apply P0]).
  pose proof (check_deps_R RC OC _ (proj1 (proj1 IH)) (deps_of_task w0 t) w0 L0 (deps_DL w0 t (proj1 L0))) as CR.
  pose proof (check_deps_N RC OC _ t (proj1 IH) (deps_of_task w0 t) w0 (proj1 PS) (deps_DL w0 t (proj1 L0)) (deps_DR w0 t (proj1 L0))) as CN.
  pose proof (check_deps_V _ t IH (deps_of_task w0 t) w0 PS (deps_DL w0 t (proj1 L0)) (deps_DR w0 t (proj1 L0)) (deps_good w0 t o0 (proj1 L0) (proj1 (proj2 P0)) Ho)) as CV.
  destruct (check_deps RC OC (make_consistent_td RC OC P f) (deps_of_task w0 t) w0) as [ok w1|k w1|]; cbn [bind];
    [|split; [eapply okV_weaken; eassumption|exact Logic.I]|split; exact Logic.I].
  destruct CR as [L1 M1]. destruct CN as [C1 [F1 [O1 N1]]]. destruct CV as [G1 V1].
  assert (Fa : FrameO a w0 w1) by (eapply FrameO_weaken; eassumption).
  assert (P1 : VPre a w1) by (split; [split; [exact L1|split; [eapply OI_pres; [apply P0|exact Fa|exact O1]|exact N1]]|exact V1]).
  assert (R1 : reach a w1 t) by (eapply reach_pres; eassumption).
  assert (Ga : G a w0 w1) by (eapply G_weaken; eassumption).
  assert (K2 : forall m : outcome Z, okV a w1 m /\ outIs t m -> okV a w0 m /\ outIs t m).
  { intros m [X Y]. split; [|exact Y]. destruct m as [x w'|k w'|]; cbn in *; [|exact X|exact Logic.I]. destruct X as [G2 V2]. split; [eapply G_trans; eassumption|exact V2]. }
  apply K2.
  destruct (if ok then get_task_output w1 t else None) as [o|] eqn:Hc.
  - assert (Ho1 : get_task_output w1 t = Some o) by (destruct ok; [exact Hc|discriminate]).
    split; [apply mark_okV; [exact V1|rewrite Ho1; discriminate]|exact Ho1].
  - apply EX; [exact P1|exact R1|apply M1; exact Lt0].
Qed.

(* ---- bottom-up ---- *)
Lemma try_schedule_lv w t r c st : lv w (try_schedule RC w t r c st).
Proof.
  unfold try_schedule. cbv zeta. destruct (rc_check _ _ _ _ _) as [| |e].
  - eapply lv_trans; apply lv_emit; reflexivity.
  - eapply lv_trans; [|apply lv_queue_add]. eapply lv_trans; [|apply lv_emit; reflexivity]. eapply lv_trans; apply lv_emit; reflexivity.
  - eapply lv_trans; [|apply lv_queue_add]. eapply lv_trans; [|apply lv_emit; reflexivity].
    eapply lv_trans; [|apply lv_push_err]. eapply lv_trans; apply lv_emit; reflexivity.
Qed.
Lemma try_schedule_edge_lv b w p : lv w (try_schedule_edge RC b w p).
Proof.
  unfold try_schedule_edge. destruct (snd p) as [[|t c st|r c st|r c st]|]; try apply lv_refl; [apply try_schedule_lv|].
  destruct b; [apply lv_refl|apply try_schedule_lv].
Qed.
Lemma fold_lv {X} (f : world -> X -> world) l : (forall w x, lv w (f w x)) -> forall w, lv w (fold_left f l w).
Proof. intros Hf. induction l as [|x tl IH]; intros w; cbn [fold_left]; [apply lv_refl|eapply lv_trans; [apply Hf|apply IH]]. Qed.
Lemma schedule_tasks_affected_by_lv w r : lv w (schedule_tasks_affected_by RC w r).
Proof.
  unfold schedule_tasks_affected_by. cbv zeta. eapply lv_trans; [|apply lv_emit; reflexivity].
  eapply lv_trans; [|apply fold_lv; intros; apply try_schedule_edge_lv]. eapply lv_trans; [|apply lv_goc_res]. apply lv_emit; reflexivity.
Qed.
Lemma schedule_by_written_lv w r : lv w (schedule_by_written RC w r).
Proof.
  unfold schedule_by_written. cbv zeta. eapply lv_trans; [|apply lv_emit; reflexivity].
  eapply lv_trans; [|apply fold_lv; intros; apply try_schedule_edge_lv]. apply lv_emit; reflexivity.
Qed.
Lemma schedule_requirer_lv o w p : lv w (schedule_requirer OC o w p).
Proof.
  unfold schedule_requirer. destruct (snd p) as [[|t c st|r c st|r c st]|]; try apply lv_refl. cbv zeta.
  destruct (oc_check (OC c) o st).
  - eapply lv_trans; apply lv_emit; reflexivity.
  - eapply lv_trans; [|apply lv_queue_add]. eapply lv_trans; [|apply lv_emit; reflexivity]. eapply lv_trans; apply lv_emit; reflexivity.
Qed.
(* schedule_after = ordinary steps, then the executed task is marked consistent *)
Lemma schedule_after_split w t o : exists wm, lv w wm /\ schedule_after RC OC w t o = mark_consistent wm t.
Proof.
  unfold schedule_after. cbv zeta. eexists. split; [|reflexivity].
  eapply lv_trans; [|apply lv_emit; reflexivity]. eapply lv_trans; [|apply fold_lv; intros; apply schedule_requirer_lv].
  eapply lv_trans; [|apply lv_emit; reflexivity]. apply fold_lv; intros; apply schedule_by_written_lv.
Qed.
Lemma schedule_after_okV a w t (o : Z) : V w -> get_task_output w t <> None -> okV a w (Done o (schedule_after RC OC w t o)).
Proof.
  intros HV Ho. destruct (schedule_after_split w t o) as [wm [Hl E]]. rewrite E.
  split; [eapply G_trans; [apply kgrow_FrameO; apply Hl|apply lv_G; exact Hl|apply mark_G]|].
  apply mark_V; [eapply lv_V; eassumption|]. unfold get_task_output. rewrite (proj1 (proj2 Hl)). exact Ho.
Qed.
Lemma schedule_after_out w t o x : get_task_output (schedule_after RC OC w t o) x = get_task_output w x.
Proof. destruct (schedule_after_split w t o) as [wm [Hl E]]. rewrite E. unfold get_task_output. cbn. rewrite (proj1 (proj2 Hl)). reflexivity. Qed.

(* the result of make_task_consistent / require is the stored output: by construction, no invariant needed *)
Lemma execute_with_out req w t : outIs t (execute_with RC OC P req w t).
Proof.
  unfold execute_with. destruct (exec_prog _ _ _ _ _) as [o w3|k w3|]; cbn; try exact Logic.I.
  change (alookup (aset (outs w3) t o) t = Some o). apply alookup_aset_eq.
Qed.
Lemma require_with_out mc w t c : (forall w', outIs t (mc w' t)) -> outIs t (require_with OC mc w t c).
Proof.
  intros Hmc. unfold require_with. destruct (reserve_require_dependency _ _) as [[] w3|k w3|]; cbn [bind outIs]; try exact Logic.I.
  specialize (Hmc w3). destruct (mc w3 t) as [o w4|k w4|]; cbn [bind outIs] in *; try exact Logic.I.
  unfold update_require_dependency. cbn [cur emit]. destruct (cur w4); [|exact Hmc]. cbn [gr emit].
  destruct (get_edata _ _ _); cbn [bind outIs]; [exact Hmc|exact Logic.I].
Qed.

Lemma require_bu_with_V mc : VMC mc -> (forall w t, outIs t (mc w t)) -> VREQ (require_bu_with OC mc).
Proof.
  intros Hmc Hout. split; [apply (require_bu_with_N RC); apply Hmc|].
  intros w t c Hw. unfold require_bu_with.
  destruct (require_with_V mc Hmc) as [[RR RN] RV].
  pose proof (require_with_out mc w t c (fun w' => Hout w' t)) as RO.
  pose proof (RR w t c (proj1 (proj1 Hw))) as XR. pose proof (RN w t c (proj1 Hw)) as XN. pose proof (RV w t c Hw) as XV.
  destruct (require_with OC mc w t c) as [o w'|k w'|]; cbn [bind okV outIs] in *; [|exact XV|exact Logic.I].
  destruct XV as [G1 V1]. split; [eapply G_trans; [apply XN|exact G1|apply mark_G]|apply mark_V; [exact V1|rewrite RO; discriminate]].
Qed.

Definition rsnOut (t : task) (w : world) (m : outcome (option Z)) : Prop :=
  match m with
  | Done (Some o) w' => get_task_output w' t = Some o
  | Done None w' => get_task_output w' t = get_task_output w t /\ ~ In t (queue w)
  | _ => True
  end.

Lemma In_removeN_other' t x l : In x l -> x <> t -> In x (removeN t l).
Proof. intros X Hx. unfold removeN. apply filter_In. split; [exact X|]. destruct (N.eqb_spec t x); [congruence|reflexivity]. Qed.
Lemma sort_queue_In3 w x : In x (queue w) -> In x (sort_queue w).
Proof. unfold sort_queue. apply Permutation_in. apply Permutation_sym. apply sort_by_perm. Qed.

(* popping m, which is reached from the anchor (so it is not protected) *)
Lemma pop_lv_G a w m : (forall c, a = Some c -> ~ Anc (gr w) c (tn m)) ->
  G a w (set_queue w (removeN m (sort_queue w))) /\ V w -> G a w (set_queue w (removeN m (sort_queue w))) /\ V (set_queue w (removeN m (sort_queue w))).
Proof. intros _ [X [N0 [Co0 [Oo0 Cu0]]]]. split; [exact X|]. split; [exact N0|split; [exact Co0|split; [exact Oo0|exact Cu0]]]. Qed.
Lemma pop_G a w m : (forall c, a = Some c -> ~ Anc (gr w) c (tn m)) -> G a w (set_queue w (removeN m (sort_queue w))).
Proof.
  intros NA. destruct a as [c|]; [|exact Logic.I]. split; [intros x _; reflexivity|split; [intros n _ e X; exact X|]].
  intros x A X. cbn. apply In_removeN_other'; [apply sort_queue_In3; exact X|]. intros ->. exact (NA c eq_refl A).
Qed.
Lemma pop_V w q : V w -> V (set_queue w q).
Proof. intros [N0 [Co0 [Oo0 Cu0]]]. split; [exact N0|split; [exact Co0|split; [exact Oo0|exact Cu0]]]. Qed.

Lemma reach_not_anc a w m : StoreOK w -> reach a w m -> forall c, a = Some c -> ~ Anc (gr w) c (tn m).
Proof.
  intros [W _] R c Hc A. specialize (R c Hc). apply (WF_acyclic (gr w) (tn m) W).
  destruct A as [E|Pth]; [replace (tn m) with (tn c) at 1 by (symmetry; exact E); exact R|eapply path_trans; eassumption].
Qed.

Definition VBU (fuel : nat) : Prop :=
  (forall a w t, VPre a w -> live (gr w) (tn t) = true -> reach a w t ->
     okV a w (bu_execute_and_schedule RC OC P fuel w t) /\ outIs t (bu_execute_and_schedule RC OC P fuel w t)) /\
  (forall a w t, VPre a w -> live (gr w) (tn t) = true -> reach a w t ->
     okV a w (bu_make_consistent RC OC P fuel w t) /\ outIs t (bu_make_consistent RC OC P fuel w t)) /\
  (forall a w t, VPre a w -> reach a w t ->
     okV a w (bu_require_scheduled_now RC OC P fuel w t) /\ rsnOut t w (bu_require_scheduled_now RC OC P fuel w t)).

(* unfolding equations (keep the recursive calls folded) *)
Lemma bes_S f w t : bu_execute_and_schedule RC OC P (S f) w t =
  bind (execute_with RC OC P (require_bu_with OC (bu_make_consistent RC OC P f)) w t) (fun o w1 => Done o (schedule_after RC OC w1 t o)).
Proof. reflexivity. Qed.
Lemma bmc_S f w t : bu_make_consistent RC OC P (S f) w t =
  if memN t (consistent w) then match get_task_output w t with Some o => Done o w | None => Abort (ABug 2) w end
  else if (match get_task_output w t with None => true | Some _ => false end) && negb (memN t (queue w)) then
    execute_with RC OC P (require_bu_with OC (bu_make_consistent RC OC P f)) w t
  else bind (bu_require_scheduled_now RC OC P f w t) (fun r w1 =>
    match r with Some o => Done o w1 | None => match get_task_output w1 t with Some o => Done o w1 | None => Abort (ABug 6) w1 end end).
Proof. reflexivity. Qed.
Lemma rsn_S f w t : bu_require_scheduled_now RC OC P (S f) w t =
  match queue w with
  | [] => Done None w
  | _ => match pop_least_from w t with
         | None => Done None w
         | Some (m, w1) => bind (bu_execute_and_schedule RC OC P f w1 m) (fun o w2 =>
             if N.eqb m t then Done (Some o) w2 else bu_require_scheduled_now RC OC P f w2 t)
         end
  end.
Proof. reflexivity. Qed.

(* unconditional: make_task_consistent returns the stored output *)
Lemma bu_out fuel :
  (forall w t, outIs t (bu_execute_and_schedule RC OC P fuel w t)) /\
  (forall w t, outIs t (bu_make_consistent RC OC P fuel w t)) /\
  (forall w t, match bu_require_scheduled_now RC OC P fuel w t with Done (Some o) w' => get_task_output w' t = Some o | _ => True end).
Proof.
  induction fuel as [|f [IH1 [IH2 IH3]]]; [repeat split; intros; exact Logic.I|].
  assert (E1 : forall w t, outIs t (bu_execute_and_schedule RC OC P (S f) w t)).
  { intros w t. rewrite bes_S. pose proof (execute_with_out (require_bu_with OC (bu_make_consistent RC OC P f)) w t) as X.
    destruct (execute_with _ _ _ _ _ _) as [o w1|k w1|]; cbn [bind outIs] in *; try exact Logic.I. rewrite schedule_after_out. exact X. }
  split; [exact E1|]. split.
  - intros w t. rewrite bmc_S. destruct (memN t (consistent w)).
    + destruct (get_task_output w t) eqn:Ho; cbn; [exact Ho|exact Logic.I].
    + destruct ((match get_task_output w t with None => true | Some _ => false end) && negb (memN t (queue w)))%bool; [apply execute_with_out|].
      specialize (IH3 w t). destruct (bu_require_scheduled_now RC OC P f w t) as [[o|] w1|k w1|]; cbn [bind outIs]; try exact Logic.I; [exact IH3|].
      destruct (get_task_output w1 t) eqn:Ho; cbn; [exact Ho|exact Logic.I].
  - intros w t. rewrite rsn_S. destruct (queue w); [exact Logic.I|].
    destruct (pop_least_from w t) as [[m w1]|]; [|exact Logic.I].
    specialize (IH1 w1 m). destruct (bu_execute_and_schedule RC OC P f w1 m) as [o w2|k w2|]; cbn [bind] in *; try exact Logic.I.
    destruct (N.eqb_spec m t) as [->|Hm]; [exact IH1|apply IH3].
Qed.

Theorem bottom_up_V fuel : VBU fuel.
Proof.
  induction fuel as [|f [IH1 [IH2 IH3]]]; [repeat split; intros; exact Logic.I|].
  destruct (bottom_up_R RC OC P f) as [BR1 [BR2 BR3]]. destruct (bottom_up_N RC OC P f) as [BN1 [BN2 BN3]].
  assert (Hmc : VMC (bu_make_consistent RC OC P f)) by (split; [split; [exact BR2|exact BN2]|exact IH2]).
  assert (Hreq : VREQ (require_bu_with OC (bu_make_consistent RC OC P f))) by (apply require_bu_with_V; [exact Hmc|apply (bu_out f)]).
  assert (E1 : forall a w t, VPre a w -> live (gr w) (tn t) = true -> reach a w t ->
     okV a w (bu_execute_and_schedule RC OC P (S f) w t) /\ outIs t (bu_execute_and_schedule RC OC P (S f) w t)).
  { intros a w t Hw Lt R. split; [|apply (bu_out (S f))]. rewrite bes_S.
    destruct (execute_with_V _ a w t Hreq Hw Lt R) as [XV XO].
    pose proof (execute_with_N RC OC P _ a w t (proj1 Hreq) (proj1 Hw) Lt R) as XN.
    destruct (execute_with RC OC P (require_bu_with OC (bu_make_consistent RC OC P f)) w t) as [o w1|k w1|]; cbn [bind okV outIs] in *; [|exact XV|exact Logic.I].
    destruct XV as [G1 V1]. pose proof (schedule_after_okV a w1 t o V1 ltac:(rewrite XO; discriminate)) as [G2 V2].
    split; [eapply G_trans; [apply XN|exact G1|exact G2]|exact V2]. }
  destruct (bottom_up_R RC OC P (S f)) as [SR1 [SR2 SR3]]. destruct (bottom_up_N RC OC P (S f)) as [SN1 [SN2 SN3]].
  assert (E3 : forall a w t, VPre a w -> reach a w t ->
     okV a w (bu_require_scheduled_now RC OC P (S f) w t) /\ rsnOut t w (bu_require_scheduled_now RC OC P (S f) w t)).
  { intros a w t Hw R. rewrite rsn_S. destruct (queue w) as [|q0 qs] eqn:Qe; [split; [apply lv_okV; [apply lv_refl|apply Hw]|split; [reflexivity|rewrite Qe; intros []]]|].
    clear Qe q0 qs.
    destruct (pop_least_from w t) as [[m w1]|] eqn:X.
    2:{ split; [apply lv_okV; [apply lv_refl|apply Hw]|]. split; [reflexivity|]. intros Hin. unfold pop_least_from in X.
        match type of X with match find ?p ?l with _ => _ end = _ => destruct (find p l) eqn:Fd end; [discriminate|].
        assert (Hr : In t (rev (sort_queue w))) by (apply -> in_rev; apply sort_queue_In3; exact Hin).
        pose proof (find_none _ _ Fd t Hr) as Z. cbn beta in Z. rewrite N.eqb_refl in Z. discriminate. }
    destruct (pop_least_L RC OC P w t m w1 (proj1 (proj1 Hw)) X) as [L1 [G1 Lm]].
    assert (W1 : w1 = set_queue w (removeN m (sort_queue w))) by (unfold pop_least_from in X; destruct (find _ _); inversion X; reflexivity).
    assert (Q1 : q3 w w1) by (apply q3_same; [eapply trace_pop_least; exact X|exact G1|rewrite W1; reflexivity]).
    assert (Lm1 : live (gr w1) (tn m) = true) by (rewrite G1; exact Lm).
    assert (R1 : reach a w1 t) by (eapply reach_kgrow; [exact R|apply Q1]).
    destruct (pop_least_reach w t m w1 (proj1 (proj1 (proj1 Hw))) X) as [Em|Pm].
    - subst m. rewrite N.eqb_refl.
      assert (GP : G a w w1) by (rewrite W1; apply pop_G; apply reach_not_anc; [apply Hw|exact R]).
      assert (P1 : VPre a w1) by (split; [eapply q3_Pre; [exact Q1|exact L1|apply Hw]|rewrite W1; apply pop_V; apply Hw]).
      destruct (IH1 a w1 t P1 Lm1 R1) as [XV XO].
      pose proof (BN1 a w1 t (proj1 P1) Lm1 R1) as XN.
      destruct (bu_execute_and_schedule RC OC P f w1 t) as [o w2|k w2|]; cbn [bind okV rsnOut outIs] in *; [|split; [exact XV|exact Logic.I]|split; exact Logic.I].
      split; [|exact XO]. destruct XV as [G2 V2]. split; [eapply G_trans; [apply kgrow_FrameO; apply Q1|exact GP|exact G2]|exact V2].
    - assert (Hmt : m <> t) by (intros ->; exact (WF_acyclic (gr w) (tn t) (proj1 (proj1 (proj1 (proj1 Hw)))) Pm)).
      destruct (N.eqb_spec m t) as [|_]; [contradiction|].
      assert (Pm1 : path (gr w1) (tn t) (tn m)) by (rewrite G1; exact Pm).
      assert (Rm : reach a w m) by (intros c Hc; eapply path_trans; [apply R; exact Hc|exact Pm]).
      assert (GP : G a w w1) by (rewrite W1; apply pop_G; apply reach_not_anc; [apply Hw|exact Rm]).
      assert (GPt : G (Some t) w w1).
      { rewrite W1. apply pop_G. intros c Hc A. inversion Hc; subst c. apply (WF_acyclic (gr w) (tn m) (proj1 (proj1 (proj1 (proj1 Hw))))).
        destruct A as [E|Pth]; [replace (tn m) with (tn t) at 1 by (symmetry; exact E); exact Pm|eapply path_trans; eassumption]. }
      assert (P1 : VPre a w1) by (split; [eapply q3_Pre; [exact Q1|exact L1|apply Hw]|rewrite W1; apply pop_V; apply Hw]).
      assert (PS : VPre (Some t) w1) by (split; [split; [exact L1|split; [eapply OI_strengthen; [apply P1|exact R1]|apply P1]]|apply P1]).
      assert (RS : reach (Some t) w1 m) by (intros c Hc; inversion Hc; subst c; exact Pm1).
      destruct (IH1 (Some t) w1 m PS Lm1 RS) as [XV _].
      pose proof (BR1 w1 m L1 Lm1) as XR. pose proof (BN1 (Some t) w1 m (proj1 PS) Lm1 RS) as XN.
      destruct (bu_execute_and_schedule RC OC P f w1 m) as [o w2|k w2|]; cbn [bind];
        [|split; [exact XV|exact Logic.I]|split; exact Logic.I].
      destruct XR as [L2 M2]. destruct XN as [C2 [F2 [O2 N2]]]. destruct XV as [[Of2 [Rf2 Qf2]] V2].
      assert (Fa : FrameO a w1 w2) by (eapply FrameO_weaken; eassumption).
      assert (P2 : VPre a w2) by (split; [split; [exact L2|split; [eapply OI_pres; [apply P1|exact Fa|exact O2]|exact N2]]|exact V2]).
      assert (R2 : reach a w2 t) by (eapply reach_pres; eassumption).
      destruct (IH3 a w2 t P2 R2) as [YV YO].
      destruct (bu_require_scheduled_now RC OC P f w2 t) as [r w3|k w3|]; cbn [okV rsnOut] in *; [|split; [exact YV|exact Logic.I]|split; exact Logic.I].
      split.
      + destruct YV as [G3 V3]. split; [|exact V3].
        eapply G_trans; [apply kgrow_FrameO; apply Q1|exact GP|]. eapply G_trans; [exact Fa|eapply G_weaken; [exact R1|split; [exact Of2|split; [exact Rf2|exact Qf2]]]|exact G3].
      + destruct r as [o'|]; [exact YO|]. destruct YO as [Y1 Y2]. split.
        * rewrite Y1. rewrite (Of2 t (or_introl eq_refl)). rewrite W1. reflexivity.
        * intros Hin. apply Y2. apply (Qf2 t (or_introl eq_refl)). rewrite W1. cbn. apply In_removeN_other'; [apply sort_queue_In3; exact Hin|congruence]. }
  split; [exact E1|]. split; [|exact E3].
  intros a w t Hw Lt R. split; [|apply (bu_out (S f))]. rewrite bmc_S.
  assert (NotOpen : ~ In t (opens (trace w))) by (apply (reach_acyclic a); [apply Hw|apply Hw|exact R]).
  destruct (memN t (consistent w)) eqn:Mc.
  { destruct (get_task_output w t) as [o|] eqn:Ho; [apply lv_okV; [apply lv_refl|apply Hw]|].
    exfalso. destruct (proj1 (proj2 (proj2 Hw)) t Mc) as [X|X]; [apply X; exact Ho|contradiction]. }
  destruct ((match get_task_output w t with None => true | Some _ => false end) && negb (memN t (queue w)))%bool eqn:Cond;
    [apply (execute_with_V _ a w t Hreq Hw Lt R)|].
  destruct (IH3 a w t Hw R) as [XV XO]. pose proof (BR3 w t (proj1 (proj1 Hw))) as XR. pose proof (BN3 a w t (proj1 Hw) R) as XN.
  destruct (bu_require_scheduled_now RC OC P f w t) as [r w1|k w1|]; cbn [bind okV rsnOut] in *; [|exact XV|exact Logic.I].
  destruct r as [o|]; [exact XV|]. destruct XO as [Y1 Y2].
  destruct (get_task_output w1 t) as [o|] eqn:Ho1; [exact XV|]. exfalso.
  assert (Hw0 : get_task_output w t = None) by (first [symmetry; exact Y1|rewrite <- Y1; exact Ho1]).
  rewrite Hw0 in Cond. cbn in Cond. apply memN_false in Y2. rewrite Y2 in Cond. discriminate.
Qed.

Lemma es_S f w : execute_scheduled RC OC P (S f) w =
  match queue_pop w with None => Done tt w | Some (t, w1) => bind (bu_execute_and_schedule RC OC P f w1 t) (fun _ w2 => execute_scheduled RC OC P f w2) end.
Proof. reflexivity. Qed.

Theorem execute_scheduled_V fuel : forall w, VPre None w -> okV None w (execute_scheduled RC OC P fuel w).
Proof.
  induction fuel as [|f IH]; intros w Hw; [exact Logic.I|]. rewrite es_S.
  destruct (queue_pop w) as [[t w1]|] eqn:X; [|apply lv_okV; [apply lv_refl|apply Hw]].
  destruct (queue_pop_L RC OC P w t w1 (proj1 (proj1 Hw)) X) as [L1 [G1 Lt]].
  assert (W1 : w1 = set_queue w (removeN t (sort_queue w))) by (unfold queue_pop in X; destruct (rev (sort_queue w)); [discriminate|inversion X; reflexivity]).
  assert (Q1 : q3 w w1) by (apply q3_same; [eapply trace_queue_pop; exact X|exact G1|rewrite W1; reflexivity]).
  assert (P1 : VPre None w1) by (split; [eapply q3_Pre; [exact Q1|exact L1|apply Hw]|rewrite W1; apply pop_V; apply Hw]).
  assert (Lt1 : live (gr w1) (tn t) = true) by (rewrite G1; exact Lt).
  assert (R1 : reach None w1 t) by (intros c Hc; discriminate).
  destruct (proj1 (bottom_up_V f) None w1 t P1 Lt1 R1) as [XV _].
  pose proof (proj1 (bottom_up_R RC OC P f) w1 t L1 Lt1) as XR. pose proof (proj1 (bottom_up_N RC OC P f) None w1 t (proj1 P1) Lt1 R1) as XN.
  destruct (bu_execute_and_schedule RC OC P f w1 t) as [o w2|k w2|]; cbn [bind okV] in *; [|exact XV|exact Logic.I].
  destruct XR as [L2 _]. destruct XN as [C2 [_ [O2 N2]]]. destruct XV as [_ V2].
  assert (P2 : VPre None w2) by (split; [split; [exact L2|split; [cbn; rewrite O2; apply P1|exact N2]]|exact V2]).
  specialize (IH w2 P2). destruct (execute_scheduled RC OC P f w2) as [u w3|k w3|]; cbn in *; [split; [exact Logic.I|apply IH]|exact IH|exact Logic.I].
Qed.

(* ---- sessions and histories ---- *)
Variable always : ocid.

Definition VS (w : world) : Prop := SPre w /\ V w.
Definition okVS {A} (m : outcome A) : Prop :=
  match m with Done _ w' => VS w' | Abort k w' => user_abort k /\ L w' /\ NoRes w' | OutOfFuel => True end.

Lemma session_require_V fuel w t : VS w -> okVS (session_require RC OC P always fuel w t).
Proof.
  intros [[Hw Hc] HV]. pose proof (session_require_N RC OC P always fuel w t (conj Hw Hc)) as SN.
  pose proof (session_require_R RC OC P always fuel w t (proj1 Hw)) as SR.
  unfold session_require, require_td in *.
  set (w1 := emit (set_cur w None) EBuildStart) in *.
  assert (Q1 : lv w w1).
  { eapply lv_trans; [apply (lv_same w (set_cur w None)); try reflexivity; [cbn; symmetry; exact Hc|trivial]|apply lv_emit; reflexivity]. }
  assert (L1 : L w1) by (apply L_emit, L_set_cur_none; apply Hw).
  assert (P1 : VPre None w1) by (eapply lv_VPre; [exact Q1|exact L1|split; assumption]).
  pose proof (proj2 (require_with_V _ (make_consistent_td_V fuel)) w1 t always P1) as RV. change (cur w1) with (@None task) in RV.
  destruct (require_with OC (make_consistent_td RC OC P fuel) w1 t always) as [o w2|k w2|]; cbn [bind okVS okV okS okR] in *; [| |exact Logic.I].
  - split; [exact SN|]. eapply lv_V; [apply (lv_emit w2 EBuildEnd); reflexivity|apply RV].
  - split; [apply RV|]. split; [apply SR|apply RV].
Qed.

Lemma session_bottom_up_V fuel w ch : VS w -> okVS (session_bottom_up RC OC P fuel w ch).
Proof.
  intros [[Hw Hc] HV]. pose proof (session_bottom_up_N RC OC P fuel w ch (conj Hw Hc)) as SN.
  pose proof (session_bottom_up_R RC OC P fuel w ch (proj1 Hw)) as SR.
  unfold session_bottom_up in *. cbv zeta in *.
  assert (L0 : L (set_queue w [])). { destruct (proj1 Hw) as [H1 [H2 H3]]. split; [exact H1|]. split; [exact H2|intros x []]. }
  destruct (fold_affected_L RC ch _ L0) as [L1 M1]. set (w1 := fold_left (schedule_tasks_affected_by RC) ch (set_queue w [])) in *.
  assert (V0 : V (set_queue w [])) by (apply pop_V; exact HV).
  assert (Q01 : lv (set_queue w []) w1) by (apply fold_lv; intros; apply schedule_tasks_affected_by_lv).
  assert (V1 : V w1) by (eapply lv_V; eassumption).
  set (w2 := emit (set_cur w1 None) EBuildStart) in *.
  assert (C1 : cur w1 = None) by (rewrite (proj2 (proj2 (proj1 Q01))); exact Hc).
  assert (Q12 : lv w1 w2).
  { eapply lv_trans; [apply (lv_same w1 (set_cur w1 None)); try reflexivity; [cbn; symmetry; exact C1|trivial]|apply lv_emit; reflexivity]. }
  assert (L2 : L w2) by (apply L_emit, L_set_cur_none; exact L1).
  assert (P2 : VPre None w2).
  { split; [|eapply lv_V; eassumption]. eapply q3_Pre; [apply Q12|exact L2|]. eapply q3_Pre; [apply Q01|exact L1|].
    split; [exact L0|split; [apply Hw|apply Hw]]. }
  pose proof (execute_scheduled_V fuel w2 P2) as XV.
  destruct (execute_scheduled RC OC P fuel w2) as [u w3|k w3|]; cbn [bind okVS okV okS okR] in *; [| |exact Logic.I].
  - split; [exact SN|]. eapply lv_V; [apply (lv_emit w3 EBuildEnd); reflexivity|apply XV].
  - split; [apply XV|]. split; [apply SR|apply XV].
Qed.

Definition Hinv (w : world) : Prop := L w /\ NoRes w.

Lemma run_session_V fuel ops : forall w, VS w ->
  Forall good_res (fst (run_session RC OC P always fuel w ops)) /\ Hinv (snd (run_session RC OC P always fuel w ops)).
Proof.
  induction ops as [|o tl IH]; intros w Hw; cbn [run_session]; [split; [constructor|split; [apply Hw|apply Hw]]|].
  assert (X : match run_sop RC OC P always fuel w o with
              | (RDone _, w') => VS w'
              | (RAbort k, w') => user_abort k /\ Hinv w'
              | (RFuel, w') => Hinv w' end).
  { destruct o as [t|ch]; cbn [run_sop].
    - pose proof (session_require_V fuel w t Hw) as Y. destruct (session_require RC OC P always fuel w t); cbn in *; [exact Y|split; [apply Y|split; apply Y]|split; [apply Hw|apply Hw]].
    - pose proof (session_bottom_up_V fuel w ch Hw) as Y. destruct (session_bottom_up RC OC P fuel w ch); cbn in *; [exact Y|split; [apply Y|split; apply Y]|split; [apply Hw|apply Hw]]. }
  destruct (run_sop RC OC P always fuel w o) as [[x|k|] w'].
  - specialize (IH w' X). destruct (run_session RC OC P always fuel w' tl) as [rs w'']. cbn [fst snd] in *. split; [constructor; [exact Logic.I|apply IH]|apply IH].
  - cbn [fst snd]. split; [constructor; [apply X|constructor]|apply X].
  - cbn [fst snd]. split; [constructor; [exact Logic.I|constructor]|exact X].
Qed.

Lemma VS_new_session w : Hinv w -> VS (new_session w).
Proof.
  intros [HL HN]. split; [apply SPre_new_session; exact HL|]. split; [exact HN|]. split; [intros t X; discriminate|]. split; [intros t []|intros s X; discriminate].
Qed.

Theorem run_history_V fuel h : forall w, Hinv w ->
  Forall (Forall good_res) (fst (run_history RC OC P always fuel w h)) /\ Hinv (snd (run_history RC OC P always fuel w h)).
Proof.
  induction h as [|s tl IH]; intros w Hw; cbn [run_history]; [split; [constructor|exact Hw]|].
  assert (X : Forall good_res (fst (run_step RC OC P always fuel w s)) /\ Hinv (snd (run_step RC OC P always fuel w s))).
  { destruct s as [r v|e|ops]; cbn [run_step fst snd].
    - split; [constructor|]. split; [apply L_set_content; apply Hw|]. intros t d Y. destruct v; apply (proj2 Hw t d Y).
    - split; [constructor|]. split; [apply L_set_env; apply Hw|exact (proj2 Hw)].
    - apply run_session_V. apply VS_new_session. exact Hw. }
  destruct (run_step RC OC P always fuel w s) as [r w']. cbn [fst snd] in X. destruct X as [X1 X2].
  destruct (IH w' X2) as [Y1 Y2]. destruct (run_history RC OC P always fuel w' tl) as [rs w'']. cbn [fst snd] in *.
  split; [constructor; assumption|exact Y2].
Qed.

(* EVERY history -- top-down, bottom-up and mixed sessions, any number of aborted builds: every build either completes or aborts
   for a user-level reason (task panic, cyclic dependency, hidden dependency, overlapping write); none of the implementation's
   internal "BUG" panics can occur, and the store invariants survive *)
Theorem no_internal_error_any_history fuel h :
  Forall (Forall good_res) (fst (run_history RC OC P always fuel init_world h)) /\
  StoreOK (snd (run_history RC OC P always fuel init_world h)) /\ NoRes (snd (run_history RC OC P always fuel init_world h)).
Proof.
  destruct (run_history_V fuel h init_world) as [A [B C]]; [split; [apply L_init|intros t d X; discriminate]|].
  split; [exact A|split; [apply B|exact C]].
Qed.

End NBA.
